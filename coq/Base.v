(* Base.v — conventions shared by every model file (DESIGN.md section 3).
   No proofs about the library live here; only the vocabulary:
   bytes, outcomes, the universal case value [val] of the correspondence
   protocol, and Go's strconv.Itoa / strconv.Atoi. *)
From Coq Require Import String Ascii.     (* first: List's names must win *)
From Coq Require Export List NArith ZArith Bool Lia.
From Coq Require Import DecimalZ.
Export ListNotations.
Open Scope N_scope.

Definition byte := N.
Definition bytes := list N.

(* Go outcomes: a value, an error value, or a run-time panic. *)
Inductive outcome (A : Type) : Type :=
| Ok (a : A)
| Err
| Panic.
Arguments Ok {A} a.
Arguments Err {A}.
Arguments Panic {A}.

Definition obind {A B} (o : outcome A) (f : A -> outcome B) : outcome B :=
  match o with Ok a => f a | Err => Err | Panic => Panic end.

(* ------------------------------------------------------------------ *)
(* Universal case values: what the harness sends and what both sides
   print.  Text form: i<decimal> | x<hex> | [v v v].                    *)
Inductive val : Type :=
| VI (z : Z)
| VB (b : bytes)
| VL (l : list val).

Definition v_ok (v : val) : val := VL [VI 0; v].
Definition v_err : val := VL [VI 1].
Definition v_panic : val := VL [VI 2].
Definition v_bad : val := VL [VI 99].      (* the case could not be decoded *)
Definition v_bool (b : bool) : val := VI (if b then 1 else 0).

Definition v_outcome {A} (f : A -> val) (o : outcome A) : val :=
  match o with Ok a => v_ok (f a) | Err => v_err | Panic => v_panic end.

Definition as_bytes (v : val) : option bytes := match v with VB b => Some b | _ => None end.
Definition as_int (v : val) : option Z := match v with VI z => Some z | _ => None end.
Definition as_list (v : val) : option (list val) := match v with VL l => Some l | _ => None end.

Fixpoint all_some {A} (l : list (option A)) : option (list A) :=
  match l with
  | [] => Some []
  | Some a :: r => match all_some r with Some r' => Some (a :: r') | None => None end
  | None :: _ => None
  end.

Definition as_bytes_list (v : val) : option (list bytes) :=
  match v with VL l => all_some (map as_bytes l) | _ => None end.
Definition as_int_list (v : val) : option (list Z) :=
  match v with VL l => all_some (map as_int l) | _ => None end.

(* ------------------------------------------------------------------ *)
(* Byte-string helpers.                                                 *)
Fixpoint beqb (a b : bytes) : bool :=
  match a, b with
  | [], [] => true
  | x :: a', y :: b' => N.eqb x y && beqb a' b'
  | _, _ => false
  end.

Definition memb (x : byte) (s : bytes) : bool := existsb (N.eqb x) s.

(* no byte of [s] is in [bad] *)
Definition clean (bad s : bytes) : Prop := Forall (fun b => memb b bad = false) s.
Definition cleanb (bad s : bytes) : bool := forallb (fun b => negb (memb b bad)) s.

(* lexicographic comparison of byte strings, as bytes.Compare / Go string < *)
Fixpoint bcompare (a b : bytes) : comparison :=
  match a, b with
  | [], [] => Eq
  | [], _ :: _ => Lt
  | _ :: _, [] => Gt
  | x :: a', y :: b' => match N.compare x y with Eq => bcompare a' b' | c => c end
  end.

(* ASCII literals as byte strings: bs "abc" *)
Definition bs (s : String.string) : bytes :=
  map (fun a => N.of_nat (nat_of_ascii a)) (list_ascii_of_string s).

Definition LF : byte := 10.
Definition CR : byte := 13.
Definition TAB : byte := 9.
Definition SP : byte := 32.

(* ------------------------------------------------------------------ *)
(* strconv.Itoa / strconv.Atoi on Go's 64-bit int.                      *)
Fixpoint uint_bytes (u : Decimal.uint) : bytes :=
  match u with
  | Decimal.Nil => []
  | Decimal.D0 u => 48 :: uint_bytes u
  | Decimal.D1 u => 49 :: uint_bytes u
  | Decimal.D2 u => 50 :: uint_bytes u
  | Decimal.D3 u => 51 :: uint_bytes u
  | Decimal.D4 u => 52 :: uint_bytes u
  | Decimal.D5 u => 53 :: uint_bytes u
  | Decimal.D6 u => 54 :: uint_bytes u
  | Decimal.D7 u => 55 :: uint_bytes u
  | Decimal.D8 u => 56 :: uint_bytes u
  | Decimal.D9 u => 57 :: uint_bytes u
  end.

Definition itoa (z : Z) : bytes :=
  match Z.to_int z with
  | Decimal.Pos u => uint_bytes u
  | Decimal.Neg u => 45 :: uint_bytes u
  end.

(* digits only; [None] on any other byte *)
Fixpoint bytes_uint (s : bytes) : option Decimal.uint :=
  match s with
  | [] => Some Decimal.Nil
  | c :: r =>
    match bytes_uint r with
    | None => None
    | Some u =>
      if c =? 48 then Some (Decimal.D0 u) else
      if c =? 49 then Some (Decimal.D1 u) else
      if c =? 50 then Some (Decimal.D2 u) else
      if c =? 51 then Some (Decimal.D3 u) else
      if c =? 52 then Some (Decimal.D4 u) else
      if c =? 53 then Some (Decimal.D5 u) else
      if c =? 54 then Some (Decimal.D6 u) else
      if c =? 55 then Some (Decimal.D7 u) else
      if c =? 56 then Some (Decimal.D8 u) else
      if c =? 57 then Some (Decimal.D9 u) else None
    end
  end.

Definition int64 (z : Z) : Prop := (- 2 ^ 63 <= z < 2 ^ 63)%Z.
Definition int64b (z : Z) : bool := ((- 2 ^ 63 <=? z) && (z <? 2 ^ 63))%Z.

(* digits, non-empty, to a natural number *)
Definition parse_digits (s : bytes) : option Z :=
  match s with
  | [] => None
  | _ => match bytes_uint s with
         | Some u => Some (Z.of_uint u)
         | None => None
         end
  end.

(* strconv.Atoi: [+-]?[0-9]+ with the value in the int64 range *)
Definition atoi (s : bytes) : option Z :=
  let signed :=
    match s with
    | 43 :: r => parse_digits r
    | 45 :: r => option_map Z.opp (parse_digits r)
    | _ => parse_digits s
    end in
  match signed with
  | Some z => if int64b z then Some z else None
  | None => None
  end.

(* ------------------------------------------------------------------ *)
(* small list utilities used by several models                          *)
Fixpoint split_on (sep : byte) (s : bytes) : list bytes :=   (* strings.Split *)
  match s with
  | [] => [[]]
  | c :: r =>
    if c =? sep then [] :: split_on sep r
    else match split_on sep r with
         | [] => [[c]]           (* unreachable: split_on never returns [] *)
         | f :: fs => (c :: f) :: fs
         end
  end.

Fixpoint join_with (sep : bytes) (l : list bytes) : bytes :=  (* strings.Join *)
  match l with
  | [] => []
  | [x] => x
  | x :: r => x ++ sep ++ join_with sep r
  end.

Definition upper_byte (b : byte) : byte := if (97 <=? b) && (b <=? 122) then b - 32 else b.

(* ------------------------------------------------------------------ *)
(* Input streams (DESIGN.md section 3).  A run of an io.Reader is the
   bytes it delivered and the terminal condition observed after the last
   delivered byte: a clean EOF or a non-EOF error.  (Whether the reader
   would fail once or forever makes no difference to any reader of the
   library: each consults the terminal condition once and stops.)       *)
Inductive term : Type := TEOF | TErr.

(* What an iterator yields: a record or an error. *)
Inductive item (A : Type) : Type :=
| Rec (a : A)
| ErrItem.
Arguments Rec {A} a.
Arguments ErrItem {A}.

Definition v_item {A} (f : A -> val) (i : item A) : val :=
  match i with Rec a => VL [VI 0; f a] | ErrItem => VL [VI 1] end.
Definition v_items {A} (f : A -> val) (l : list (item A)) : val := VL (map (v_item f) l).
Definition as_term (v : val) : option term :=
  match v with VI 0 => Some TEOF | VI 1 => Some TErr | _ => None end.

(* dropCR of bufio.ScanLines: one trailing CR is removed *)
Fixpoint drop_cr (l : bytes) : bytes :=
  match l with
  | [] => []
  | [c] => if c =? 13 then [] else [c]
  | c :: r => c :: drop_cr r
  end.

(* the pieces between LFs; the last piece only if it is non-empty *)
Fixpoint lines_tail (ps : list bytes) : list bytes :=
  match ps with
  | [] => []
  | [p] => match p with [] => [] | _ => [p] end
  | p :: r => p :: lines_tail r
  end.

(* bufio.Scanner with ScanLines: the tokens it hands out for delivered bytes
   [s].  The same tokens are produced whether the stream ends with EOF or with
   an error (the Scanner passes atEOF=true to the split function in both cases,
   so a final unterminated line is a token); Err() then reports the terminal. *)
Definition scan_tokens (s : bytes) : list bytes := map drop_cr (lines_tail (split_on LF s)).

(* bufio.Reader.ReadString('\n'): the complete lines (LF removed) and the
   unterminated tail that is returned together with the terminal condition. *)
Definition rs_lines (s : bytes) : list bytes * bytes :=
  let ps := split_on LF s in (removelast ps, last ps []).

(* ------------------------------------------------------------------ *)
(* float64 values outside the alignment scores (SAM 'f' tags, Newick
   distances, smtext scores) are identified by their canonical text
   strconv.FormatFloat(x,'g',-1,64) ("NaN", "+Inf", "-0", "1e-07" ...).
   Parsing and formatting are strconv's: they enter the model as tables
   supplied with each correspondence case (the harness fills them with the
   answers of the real strconv for every candidate token of the case), and as
   Section hypotheses in the theorems.                                    *)
Definition F := bytes.
Record foracle : Type := { f_parse : list (bytes * F); f_fmt : list (F * bytes) }.

Definition alookup {B} (k : bytes) (l : list (bytes * B)) : option B :=
  match find (fun p => beqb (fst p) k) l with Some p => Some (snd p) | None => None end.

Definition parseF (o : foracle) (t : bytes) : option F := alookup t (f_parse o).
Definition fmtF (o : foracle) (x : F) : bytes :=
  match alookup x (f_fmt o) with Some t => t | None => [] end.
Definition is_zeroF (x : F) : bool := beqb x [48] || beqb x [45; 48].   (* "0", "-0" *)

Definition as_pairs (v : val) : option (list (bytes * bytes)) :=
  match v with
  | VL l => all_some (map (fun e => match e with VL [VB a; VB b] => Some (a, b) | _ => None end) l)
  | _ => None
  end.
Definition as_foracle (v : val) : option foracle :=
  match v with
  | VL [p; f] => match as_pairs p, as_pairs f with
                 | Some p', Some f' => Some {| f_parse := p'; f_fmt := f' |}
                 | _, _ => None
                 end
  | _ => None
  end.
