(* Base.v — conventions shared by every model file (DESIGN.md section 3).
   No proofs about the library live here; only the vocabulary:
   bytes, outcomes, the universal case value [val] of the correspondence
   protocol, and Go's strconv.Itoa / strconv.Atoi. *)
From Coq Require Import String Ascii.     (* first: List's names must win *)
From Coq Require Export List NArith ZArith Bool Lia.
From Coq Require Import DecimalZ.
Export ListNotations.
Open Scope N_scope.

Definition byte := N.
Definition bytes := list N.

(* Go outcomes: a value, an error value, or a run-time panic. *)
Inductive outcome (A : Type) : Type :=
| Ok (a : A)
| Err
| Panic.
Arguments Ok {A} a.
Arguments Err {A}.
Arguments Panic {A}.

Definition obind {A B} (o : outcome A) (f : A -> outcome B) : outcome B :=
  match o with Ok a => f a | Err => Err | Panic => Panic end.

(* ------------------------------------------------------------------ *)
(* Universal case values: what the harness sends and what both sides
   print.  Text form: i<decimal> | x<hex> | [v v v].                    *)
Inductive val : Type :=
| VI (z : Z)
| VB (b : bytes)
| VL (l : list val).

Definition v_ok (v : val) : val := VL [VI 0; v].
Definition v_err : val := VL [VI 1].
Definition v_panic : val := VL [VI 2].
Definition v_bad : val := VL [VI 99].      (* the case could not be decoded *)
Definition v_bool (b : bool) : val := VI (if b then 1 else 0).

Definition v_outcome {A} (f : A -> val) (o : outcome A) : val :=
  match o with Ok a => v_ok (f a) | Err => v_err | Panic => v_panic end.

Definition as_bytes (v : val) : option bytes := match v with VB b => Some b | _ => None end.
Definition as_int (v : val) : option Z := match v with VI z => Some z | _ => None end.
Definition as_list (v : val) : option (list val) := match v with VL l => Some l | _ => None end.

Fixpoint all_some {A} (l : list (option A)) : option (list A) :=
  match l with
  | [] => Some []
  | Some a :: r => match all_some r with Some r' => Some (a :: r') | None => None end
  | None :: _ => None
  end.

Definition as_bytes_list (v : val) : option (list bytes) :=
  match v with VL l => all_some (map as_bytes l) | _ => None end.
Definition as_int_list (v : val) : option (list Z) :=
  match v with VL l => all_some (map as_int l) | _ => None end.

(* ------------------------------------------------------------------ *)
(* Byte-string helpers.                                                 *)
Fixpoint beqb (a b : bytes) : bool :=
  match a, b with
  | [], [] => true
  | x :: a', y :: b' => N.eqb x y && beqb a' b'
  | _, _ => false
  end.

Definition memb (x : byte) (s : bytes) : bool := existsb (N.eqb x) s.

(* no byte of [s] is in [bad] *)
Definition clean (bad s : bytes) : Prop := Forall (fun b => memb b bad = false) s.
Definition cleanb (bad s : bytes) : bool := forallb (fun b => negb (memb b bad)) s.

(* lexicographic comparison of byte strings, as bytes.Compare / Go string < *)
Fixpoint bcompare (a b : bytes) : comparison :=
  match a, b with
  | [], [] => Eq
  | [], _ :: _ => Lt
  | _ :: _, [] => Gt
  | x :: a', y :: b' => match N.compare x y with Eq => bcompare a' b' | c => c end
  end.

(* ASCII literals as byte strings: bs "abc" *)
Definition bs (s : String.string) : bytes :=
  map (fun a => N.of_nat (nat_of_ascii a)) (list_ascii_of_string s).

Definition LF : byte := 10.
Definition CR : byte := 13.
Definition TAB : byte := 9.
Definition SP : byte := 32.

(* ------------------------------------------------------------------ *)
(* strconv.Itoa / strconv.Atoi on Go's 64-bit int.                      *)
Fixpoint uint_bytes (u : Decimal.uint) : bytes :=
  match u with
  | Decimal.Nil => []
  | Decimal.D0 u => 48 :: uint_bytes u
  | Decimal.D1 u => 49 :: uint_bytes u
  | Decimal.D2 u => 50 :: uint_bytes u
  | Decimal.D3 u => 51 :: uint_bytes u
  | Decimal.D4 u => 52 :: uint_bytes u
  | Decimal.D5 u => 53 :: uint_bytes u
  | Decimal.D6 u => 54 :: uint_bytes u
  | Decimal.D7 u => 55 :: uint_bytes u
  | Decimal.D8 u => 56 :: uint_bytes u
  | Decimal.D9 u => 57 :: uint_bytes u
  end.

Definition itoa (z : Z) : bytes :=
  match Z.to_int z with
  | Decimal.Pos u => uint_bytes u
  | Decimal.Neg u => 45 :: uint_bytes u
  end.

(* digits only; [None] on any other byte *)
Fixpoint bytes_uint (s : bytes) : option Decimal.uint :=
  match s with
  | [] => Some Decimal.Nil
  | c :: r =>
    match bytes_uint r with
    | None => None
    | Some u =>
      if c =? 48 then Some (Decimal.D0 u) else
      if c =? 49 then Some (Decimal.D1 u) else
      if c =? 50 then Some (Decimal.D2 u) else
      if c =? 51 then Some (Decimal.D3 u) else
      if c =? 52 then Some (Decimal.D4 u) else
      if c =? 53 then Some (Decimal.D5 u) else
      if c =? 54 then Some (Decimal.D6 u) else
      if c =? 55 then Some (Decimal.D7 u) else
      if c =? 56 then Some (Decimal.D8 u) else
      if c =? 57 then Some (Decimal.D9 u) else None
    end
  end.

Definition int64 (z : Z) : Prop := (- 2 ^ 63 <= z < 2 ^ 63)%Z.
Definition int64b (z : Z) : bool := ((- 2 ^ 63 <=? z) && (z <? 2 ^ 63))%Z.

(* digits, non-empty, to a natural number *)
Definition parse_digits (s : bytes) : option Z :=
  match s with
  | [] => None
  | _ => match bytes_uint s with
         | Some u => Some (Z.of_uint u)
         | None => None
         end
  end.

(* strconv.Atoi: [+-]?[0-9]+ with the value in the int64 range *)
Definition atoi (s : bytes) : option Z :=
  let signed :=
    match s with
    | 43 :: r => parse_digits r
    | 45 :: r => option_map Z.opp (parse_digits r)
    | _ => parse_digits s
    end in
  match signed with
  | Some z => if int64b z then Some z else None
  | None => None
  end.

(* ------------------------------------------------------------------ *)
(* small list utilities used by several models                          *)
Fixpoint split_on (sep : byte) (s : bytes) : list bytes :=   (* strings.Split *)
  match s with
  | [] => [[]]
  | c :: r =>
    if c =? sep then [] :: split_on sep r
    else match split_on sep r with
         | [] => [[c]]           (* unreachable: split_on never returns [] *)
         | f :: fs => (c :: f) :: fs
         end
  end.

Fixpoint join_with (sep : bytes) (l : list bytes) : bytes :=  (* strings.Join *)
  match l with
  | [] => []
  | [x] => x
  | x :: r => x ++ sep ++ join_with sep r
  end.

Definition upper_byte (b : byte) : byte := if (97 <=? b) && (b <=? 122) then b - 32 else b.
