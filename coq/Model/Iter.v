(* Model/Iter.v — Go 1.23 range-over-func iterators in continuation-passing
   style, with the runtime's check made explicit (DESIGN.md section 3, C18).

   A push iterator calls [yield] for each item; [yield] returns false when the
   consumer's loop body executed `break`/`return`.  For a `for x := range it`
   loop the compiler wraps the loop body: if the iterator calls it again after
   it returned false the program panics ("range function continued iteration
   after function for loop body returned false").  [range_loop] is that wrapper.
   No proofs in this file. *)
From Bio Require Import Base.

Inductive status : Type := Done | PanicAfterStop.

Definition yieldT (A S : Type) : Type := A -> S -> bool * S.
Definition seqT (A : Type) : Type := forall S : Type, yieldT A S -> S -> S * status.

Inductive loop_flag : Type := Live | Dead | Panicked.

Definition worse (a b : status) : status :=
  match a, b with Done, Done => Done | _, _ => PanicAfterStop end.

(* for x := range it { s, continue? = body x s } *)
Definition range_loop {A S} (it : seqT A) (body : yieldT A S) (s : S) : S * status :=
  let body' : yieldT A (S * loop_flag) := fun a st =>
    match st with
    | (s0, Live) => let (c, s1) := body a s0 in (c, (s1, if c then Live else Dead))
    | (s0, _) => (false, (s0, Panicked))
    end in
  match it (S * loop_flag)%type body' (s, Live) with
  | ((s', Panicked), _) => (s', PanicAfterStop)
  | ((s', _), st) => (s', st)
  end.

(* ---- the loops of the library ------------------------------------------------ *)

(* fasta/fastq reader.iter():
     for { x, err := r.read()
           if err != nil { if err != io.EOF { yield(nil, err) }; break }
           if !yield(x, nil) { return } }
   over the successive results of read(): records, then possibly one error. *)
Fixpoint iter_loop {A} (items : list (item A)) : seqT (item A) := fun S y s =>
  match items with
  | [] => (s, Done)
  | ErrItem :: _ => let (_, s') := y ErrItem s in (s', Done)
  | Rec a :: rest => let (c, s') := y (Rec a) s in if c then iter_loop rest S y s' else (s', Done)
  end.

(* a loop in which every yield is guarded: `if !yield(x) { return }`
   (bed.Reader, newick.Reader on their read() results, sam.ReaderHeader,
   traverse, CanonicalSubsequences, trie.ForEach's `!f(cur)` -> break) *)
Fixpoint guarded_loop {A} (items : list A) : seqT A := fun S y s =>
  match items with
  | [] => (s, Done)
  | a :: rest => let (c, s') := y a s in if c then guarded_loop rest S y s' else (s', Done)
  end.

(* bed.Reader / newick.Reader: like iter_loop, but written
     if err == io.EOF { return }; if err != nil { yield(nil, err); return }; if !yield(x, nil) { return } *)
Definition reader_loop {A} (items : list (item A)) : seqT (item A) := iter_loop items.

(* the same loop with one guard removed (`yield(x)` instead of `if !yield(x) {return}`):
   what a broken adapter looks like; used only for non-vacuity examples *)
Fixpoint unguarded_loop {A} (items : list A) : seqT A := fun S y s =>
  match items with
  | [] => (s, Done)
  | a :: rest => let (_, s') := y a s in unguarded_loop rest S y s'
  end.

(* ---- adapters ------------------------------------------------------------------ *)

(* for x := range inner { if !yield(x) { break } }      (every Reader/File wrapper) *)
Definition wrap_guarded {A} (inner : seqT A) : seqT A := fun S y s =>
  range_loop inner (fun a s0 => y a s0) s.

(* for x := range inner { yield(x) }                     (a broken wrapper) *)
Definition wrap_unguarded {A} (inner : seqT A) : seqT A := fun S y s =>
  range_loop inner (fun a s0 => let (_, s1) := y a s0 in (true, s1)) s.

(* sam.Reader over sam.ReaderHeader:
     for sh, err := range ReaderHeader(r) {
       if err != nil { if !yield(nil, err) { break }; continue }
       if sh.S == nil { continue }
       if !yield(sh.S, nil) { break } } *)
Definition filter_wrap {A B} (f : A -> option B) (inner : seqT A) : seqT B := fun S y s =>
  range_loop inner (fun a s0 => match f a with Some b => y b s0 | None => (true, s0) end) s.

(* File(path): f, err := aio.Open(path); if err != nil { yield(zero, err); return }; ...Reader(f)... *)
Definition file_wrap {A} (opened : bool) (inner : seqT (item A)) : seqT (item A) := fun S y s =>
  if opened then wrap_guarded inner S y s
  else let (_, s') := y ErrItem s in (s', Done).

(* ---- the consumer of the property: stop at the p-th item ------------------------ *)
(* for x := range it { seen = append(seen, x); n++; if n == p { break } } ; p = 0: never *)
Definition run_until {A} (it : seqT A) (p : nat) : list A * status :=
  let '((seen, _), st) :=
    range_loop it (fun a (st : list A * nat) =>
                     let '(seen, n) := st in
                     (negb (Nat.eqb (S n) p), (seen ++ [a], S n))) ([], 0%nat) in
  (seen, st).

(* what the iterator delivers when never stopped *)
Definition run_all {A} (it : seqT A) : list A * status := run_until it 0.
