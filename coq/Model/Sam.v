(* Model/Sam.v — executable model of package formats/sam (sam.go, iter.go,
   tags.go); flag.go is translated mechanically into gen/FlagGen.v.
   No proofs here.

   Floats ('f' tags) are identified by their canonical text (Base.F); how the
   writer prints one (strconv.FormatFloat(x,'e',-1,64)) and which texts
   strconv.ParseFloat accepts come from the per-case oracle [o : foracle]. *)
From Coq Require Import String.
From Bio Require Import Base.

(* Values of the optional tags: Go byte, int, float64, string, []byte. *)
Inductive tagval : Type :=
| TA (b : byte)
| TI (z : Z)
| TF (x : F)
| TZ (s : bytes)
| TH (h : bytes).

(* map[string]any as an association list (unique keys). *)
Definition tagmap := list (bytes * tagval).

Record sam : Type := {
  s_qname : bytes; s_flag : Z; s_rname : bytes; s_pos : Z; s_mapq : Z;
  s_cigar : bytes; s_rnext : bytes; s_pnext : Z; s_tlen : Z;
  s_seq : bytes; s_qual : bytes; s_tags : tagmap }.

(* ---------------------------------------------------------------- *)
(* encoding/hex: EncodeToString (lower case), DecodeString (either case,
   even length).                                                      *)
Definition hex_digit (n : N) : byte := if n <? 10 then 48 + n else 87 + n.
Definition hex_encode (l : bytes) : bytes :=
  flat_map (fun b => [hex_digit (b / 16); hex_digit (b mod 16)]) l.

Definition hex_val (c : byte) : option N :=
  if (48 <=? c) && (c <=? 57) then Some (c - 48)
  else if (97 <=? c) && (c <=? 102) then Some (c - 87)
  else if (65 <=? c) && (c <=? 70) then Some (c - 55)
  else None.

Fixpoint hex_decode (s : bytes) : option bytes :=
  match s with
  | [] => Some []
  | [_] => None
  | a :: b :: r =>
    match hex_val a, hex_val b, hex_decode r with
    | Some x, Some y, Some t => Some (16 * x + y :: t)
    | _, _, _ => None
    end
  end.

(* ---------------------------------------------------------------- *)
(* tagToText / tagsToText                                             *)
Definition COLON : byte := 58.

Definition tag_type (v : tagval) : byte :=
  match v with TA _ => 65 | TI _ => 105 | TF _ => 102 | TZ _ => 90 | TH _ => 72 end.

Definition tag_value (o : foracle) (v : tagval) : bytes :=
  match v with
  | TA b => [b]                       (* string([]byte{val}) *)
  | TI z => itoa z
  | TF x => fmtF o x
  | TZ s => s
  | TH h => hex_encode h
  end.

(* tag + ":T:" + value *)
Definition tag_text (o : foracle) (t : bytes * tagval) : bytes :=
  fst t ++ COLON :: tag_type (snd t) :: COLON :: tag_value o (snd t).

(* sort.Strings: bytewise order (equal strings are indistinguishable). *)
Definition ble (a b : bytes) : bool :=
  match bcompare a b with Gt => false | _ => true end.

Fixpoint insert_sorted (x : bytes) (l : list bytes) : list bytes :=
  match l with
  | [] => [x]
  | y :: r => if ble x y then x :: l else y :: insert_sorted x r
  end.

Definition sort_strings (l : list bytes) : list bytes := fold_right insert_sorted [] l.

Definition tags_text (o : foracle) (m : tagmap) : list bytes :=
  sort_strings (map (tag_text o) m).

(* ---------------------------------------------------------------- *)
(* SAM.Write: one chunk per Fprintf.                                  *)
Definition fields11 (r : sam) : list bytes :=
  [ s_qname r; itoa (s_flag r); s_rname r; itoa (s_pos r); itoa (s_mapq r);
    s_cigar r; s_rnext r; itoa (s_pnext r); itoa (s_tlen r); s_seq r; s_qual r ].

Definition write_calls (o : foracle) (r : sam) : list bytes :=
  join_with [TAB] (fields11 r)
  :: map (fun t => TAB :: t) (tags_text o (s_tags r)) ++ [[LF]].

Definition write (o : foracle) (r : sam) : bytes := concat (write_calls o r).

(* MarshalText: Write into a bytes.Buffer; the error is always nil. *)
Definition marshal_text (o : foracle) (r : sam) : outcome bytes := Ok (write o r).

(* ---------------------------------------------------------------- *)
(* splitTag: the positions of the first two ':' (the loop ranges over runes,
   but a ':' byte is never part of a multi-byte rune, so byte positions of the
   byte 58 are what is found).                                        *)
Fixpoint cut_at (sep : byte) (s : bytes) : option (bytes * bytes) :=
  match s with
  | [] => None
  | c :: r =>
    if c =? sep then Some ([], r)
    else match cut_at sep r with
         | Some (a, b) => Some (c :: a, b)
         | None => None
         end
  end.

Definition split_tag (t : bytes) : option (bytes * bytes * bytes) :=
  match cut_at COLON t with
  | None => None
  | Some (name, rest) =>
    match cut_at COLON rest with
    | None => None                    (* colon2 == -1 *)
    | Some (ty, v) => Some (name, ty, v)
    end
  end.

(* result[k] = v on a Go map *)
Fixpoint tag_set (k : bytes) (v : tagval) (m : tagmap) : tagmap :=
  match m with
  | [] => [(k, v)]
  | (k', v') :: r => if beqb k' k then (k', v) :: r else (k', v') :: tag_set k v r
  end.

Definition parse_tag_value (o : foracle) (ty v : bytes) : option tagval :=
  if beqb ty [65] then match v with [b] => Some (TA b) | _ => None end
  else if beqb ty [105] then option_map TI (atoi v)
  else if beqb ty [102] then option_map TF (parseF o v)
  else if beqb ty [90] then Some (TZ v)
  else if beqb ty [72] then option_map TH (hex_decode v)
  else if beqb ty [66] then Some (TZ v)        (* 'B': kept as a string *)
  else None.

Fixpoint parse_tags_from (o : foracle) (m : tagmap) (values : list bytes) : outcome tagmap :=
  match values with
  | [] => Ok m
  | f :: rest =>
    match split_tag f with
    | None => Err
    | Some (name, ty, v) =>
      match parse_tag_value o ty v with
      | None => Err
      | Some tv => parse_tags_from o (tag_set name tv m) rest
      end
    end
  end.

Definition parse_tags (o : foracle) (values : list bytes) : outcome tagmap :=
  parse_tags_from o [] values.

(* parseInts(strs, p...): panics when the lengths differ. *)
Fixpoint parse_ints_loop (strs : list bytes) : outcome (list Z) :=
  match strs with
  | [] => Ok []
  | s :: r =>
    match atoi s with
    | None => Err
    | Some z => obind (parse_ints_loop r) (fun zs => Ok (z :: zs))
    end
  end.

Definition parse_ints (strs : list bytes) (np : nat) : outcome (list Z) :=
  if Nat.eqb (length strs) np then parse_ints_loop strs else Panic.

Definition parse_line (o : foracle) (line : list bytes) : outcome sam :=
  match line with
  | f0 :: f1 :: f2 :: f3 :: f4 :: f5 :: f6 :: f7 :: f8 :: f9 :: f10 :: rest =>
    obind (parse_ints [f1; f3; f4; f7; f8] 5) (fun zs =>
      match zs with
      | [fl; po; mq; pn; tl] =>
        obind (parse_tags o rest) (fun m =>
          Ok {| s_qname := f0; s_flag := fl; s_rname := f2; s_pos := po; s_mapq := mq;
                s_cigar := f5; s_rnext := f6; s_pnext := pn; s_tlen := tl;
                s_seq := f9; s_qual := f10; s_tags := m |})
      | _ => Panic
      end)
  | _ => Err                              (* len(line) < 11 *)
  end.

(* ---------------------------------------------------------------- *)
(* ReaderHeader / Reader                                              *)
Inductive entry : Type :=
| Hdr (h : bytes)          (* header line, including '@' *)
| Aln (r : sam).

(* One line as returned by ReadString with the LF removed. [parse_line]
   cannot panic (SamProofs.parse_line_no_panic); the last branch is only there
   to make the function total. *)
Definition process_line (o : foracle) (raw : bytes) : list (item entry) :=
  let text := drop_cr raw in
  match text with
  | [] => []                               (* empty lines are skipped *)
  | c :: _ =>
    if c =? 64 then [Rec (Hdr text)]
    else match parse_line o (split_on TAB text) with
         | Ok r => [Rec (Aln r)]
         | Err => [ErrItem]
         | Panic => [ErrItem]
         end
  end.

Definition reader_header (o : foracle) (s : bytes) (t : term) : list (item entry) :=
  let (ls, tail) := rs_lines s in
  flat_map (process_line o) ls ++
  match t with
  | TEOF => process_line o tail            (* the unterminated last line *)
  | TErr => [ErrItem]                      (* the partial line is discarded *)
  end.

Definition reader_filter (it : item entry) : list (item sam) :=
  match it with
  | ErrItem => [ErrItem]
  | Rec (Hdr _) => []
  | Rec (Aln r) => [Rec r]
  end.

Definition reader (o : foracle) (s : bytes) (t : term) : list (item sam) :=
  flat_map reader_filter (reader_header o s t).

(* A file: header lines then records, each line ended by [eol]. *)
Definition with_eol (eol : bytes) (w : bytes) : bytes := removelast w ++ eol.

Definition file_text (o : foracle) (eol : bytes) (hs : list bytes) (rs : list sam) : bytes :=
  concat (map (fun h => h ++ eol) hs) ++ concat (map (fun r => with_eol eol (write o r)) rs).
