(* Model/Regions.v — executable model of package regions (regions.go); no proofs here.

   Coordinates are Go ints = Z; interval serial numbers, slice indices and fuel are nat.

   Modelling notes (each is justified by a theorem in Proofs/RegionsProofs*.v):
   * sort.Slice is not stable and its algorithm is unspecified; it is modelled by an
     insertion sort by [event_less].  [event_less] is a strict total order on events,
     so every permutation that satisfies sort.Slice's contract (no later element is
     less than an earlier one) is this very list ([sort_events_unique]).
   * the map[int]struct{} [idxs] is modelled by the ascending duplicate-free list of
     its keys, so that [keys(idxs)] (collect + sort.Ints) is the list itself; nil and
     the empty slice are both [[]] (the harness projects nil = empty).
   * [intervals = append(intervals, x)] in the loop is the emission of one more element
     of the produced list (the sweep is written as a producer).
   * sort.Search is its actual loop, with fuel; an index outside the slice or running
     out of fuel would be [Panic] (shown impossible). *)
From Bio Require Import Base.
Open Scope Z_scope.

Record event : Type := Ev { e_idx : nat; e_pos : Z; e_start : bool }.

(* interval{start, idxs} *)
Definition interval : Type := (Z * list nat)%type.
Definition index : Type := list interval.

(* the loop [for i := range starts]: intervals with start >= end are skipped *)
Fixpoint events_from (i : nat) (starts ends : list Z) : list event :=
  match starts, ends with
  | s :: ss, e :: es =>
    if s >=? e then events_from (S i) ss es
    else Ev i s true :: Ev i e false :: events_from (S i) ss es
  | _, _ => []
  end.

Definition events (starts ends : list Z) : list event := events_from 0 starts ends.

(* eventLess *)
Definition event_less (a b : event) : bool :=
  if negb (e_pos a =? e_pos b) then e_pos a <? e_pos b
  else if negb (Bool.eqb (e_start a) (e_start b)) then negb (e_start a)  (* end before start *)
  else (e_idx a <? e_idx b)%nat.

Fixpoint insert_event (e : event) (l : list event) : list event :=
  match l with
  | [] => [e]
  | x :: r => if event_less e x then e :: x :: r else x :: insert_event e r
  end.

Fixpoint sort_events (l : list event) : list event :=
  match l with
  | [] => []
  | e :: r => insert_event e (sort_events r)
  end.

(* idxs[k] = struct{}{} and delete(idxs, k) on the sorted key list *)
Fixpoint set_add (k : nat) (l : list nat) : list nat :=
  match l with
  | [] => [k]
  | z :: r => if (k <? z)%nat then k :: z :: r
              else if (k =? z)%nat then z :: r
              else z :: set_add k r
  end.

Definition set_remove (k : nat) (l : list nat) : list nat :=
  filter (fun z => negb (z =? k)%nat) l.

(* the sweep [for i, e := range events]; [first] is [i == 0]; the case [[]] is the
   final append after the loop *)
Fixpoint sweep (evs : list event) (first : bool) (pos : Z) (idxs : list nat) : list interval :=
  match evs with
  | [] => [(pos, idxs)]
  | e :: r =>
    let pos1 := if first then e_pos e else pos in
    let idxs' := if e_start e then set_add (e_idx e) idxs else set_remove (e_idx e) idxs in
    if negb (e_pos e =? pos1)
    then (pos1, idxs) :: sweep r false (e_pos e) idxs'
    else sweep r false pos1 idxs'
  end.

(* var pos int; idxs := map[int]struct{}{} *)
Definition breakpoints (evs : list event) : index := sweep evs true 0 [].

Definition new_index (starts ends : list Z) : outcome index :=
  if (length starts =? length ends)%nat
  then Ok (breakpoints (sort_events (events starts ends)))
  else Panic.

(* sort.Search(n, func(j) bool { return idx[j].start > x }):
     i, j := 0, n
     for i < j { h := int(uint(i+j) >> 1); if !f(h) { i = h + 1 } else { j = h } }
     return i *)
Fixpoint search_loop (fuel : nat) (ix : index) (x : Z) (i j : nat) : outcome nat :=
  match fuel with
  | O => Panic
  | S fuel' =>
    if (i <? j)%nat then
      let h := Nat.div2 (i + j) in
      match nth_error ix h with
      | None => Panic                                (* index out of range *)
      | Some iv =>
        if negb (fst iv >? x) then search_loop fuel' ix x (S h) j
        else search_loop fuel' ix x i h
      end
    else Ok i
  end.

Definition search (ix : index) (x : Z) : outcome nat :=
  search_loop (S (length ix)) ix x 0%nat (length ix).

(* Index.At *)
Definition at_ (ix : index) (x : Z) : outcome (list nat) :=
  obind (search ix x) (fun a =>
    match a with
    | O => Ok []
    | S a' => match nth_error ix a' with
              | Some iv => Ok (snd iv)            (* cp(...) : same content *)
              | None => Panic
              end
    end).

Fixpoint all_ok {A} (l : list (outcome A)) : outcome (list A) :=
  match l with
  | [] => Ok []
  | o :: r => obind o (fun a => obind (all_ok r) (fun r' => Ok (a :: r')))
  end.

(* NewIndex(starts, ends) followed by At(q) for each query *)
Definition regions_at (starts ends queries : list Z) : outcome (list (list nat)) :=
  obind (new_index starts ends) (fun ix => all_ok (map (at_ ix) queries)).
