(* Model/Newick.v — executable model of /repo/formats/newick (newick.go,
   traverse.go); no proofs here.

   Trees are values (the Go code works on pointers to nodes that are never
   shared: a node under construction is reachable only through the reader's
   stack and through its parent's Children slice, so the value view is
   observationally the same).  Distances are canonical float texts ([F] of
   Base.v); formatting (fmt.Fprint => %v) and parsing (strconv.ParseFloat)
   come from the per-case float oracle [foracle]. *)
From Bio Require Import Base.

Inductive tree : Type :=
| Node (name : bytes) (dist : F) (children : list tree).

Definition t_name (t : tree) : bytes := match t with Node n _ _ => n end.
Definition t_dist (t : tree) : F := match t with Node _ d _ => d end.
Definition t_children (t : tree) : list tree := match t with Node _ _ c => c end.

Fixpoint size (t : tree) : nat :=
  match t with Node _ _ cs => S (list_sum (map size cs)) end.

(* The float64 zero value, as written by strconv 'g'. *)
Definition zeroF : F := [48].

(* ------------------------------------------------------------------ *)
(* traverse.go                                                          *)

(* A node occurrence: the path from the root (child indices) and the node
   (= subtree) found there.  Go yields the *Node pointer; distinct pointers
   of a tree correspond to distinct paths. *)
Definition path := list nat.
Definition occ := (path * tree)%type.

(* traversalStep{n, i}; the path is kept reversed (last index first). *)
Definition tstep := (path * tree * nat)%type.

(* for len(stack) > 0 { ... }, one iteration per unit of fuel *)
Fixpoint traverse_loop (pre : bool) (fuel : nat) (stack : list tstep) (acc : list occ)
  : outcome (list occ) :=
  match stack with
  | [] => Ok (rev acc)
  | (p, n, i) :: rest =>
    match fuel with
    | O => Panic
    | S fuel' =>
      (* if pre && step.i == 0 { yield(step.n) } *)
      let acc1 := if pre && Nat.eqb i 0 then (rev p, n) :: acc else acc in
      if Nat.eqb i (length (t_children n)) then
        (* if !pre { yield(step.n) }; stack = stack[:len(stack)-1] *)
        let acc2 := if pre then acc1 else (rev p, n) :: acc1 in
        traverse_loop pre fuel' rest acc2
      else
        match nth_error (t_children n) i with
        | Some c =>
          (* stack = append(stack, {Children[i], 0}); stack[stepi].i++ *)
          traverse_loop pre fuel' ((i :: p, c, O) :: (p, n, S i) :: rest) acc1
        | None => Panic      (* step.n.Children[step.i] out of range *)
        end
    end
  end.

Definition traverse (pre : bool) (t : tree) : outcome (list occ) :=
  traverse_loop pre (2 * size t + 2) [(([] : path), t, O)] [].

(* ------------------------------------------------------------------ *)
(* names                                                                *)

Definition QUOTE : byte := 39.
Definition USCORE : byte := 95.

(* strings.ContainsAny(s, "(),:;'_\t\n\r") *)
Definition name_trigger (b : byte) : bool :=
  (b =? 40) || (b =? 41) || (b =? 44) || (b =? 58) || (b =? 59) || (b =? 39)
  || (b =? 95) || (b =? 9) || (b =? 10) || (b =? 13).

(* strings.ReplaceAll(s, "'", "''") *)
Fixpoint dbl_quotes (s : bytes) : bytes :=
  match s with
  | [] => []
  | c :: r => if c =? 39 then 39 :: 39 :: dbl_quotes r else c :: dbl_quotes r
  end.

(* strings.ReplaceAll(s, "''", "'"): leftmost, non-overlapping *)
Fixpoint undbl_quotes (s : bytes) : bytes :=
  match s with
  | [] => []
  | c :: r =>
    match r with
    | [] => [c]
    | d :: r' => if (c =? 39) && (d =? 39) then 39 :: undbl_quotes r' else c :: undbl_quotes r
    end
  end.

Definition map_byte (a b : byte) (s : bytes) : bytes := map (fun c => if c =? a then b else c) s.

Definition name_to_text (s : bytes) : bytes :=
  if existsb name_trigger s then 39 :: dbl_quotes s ++ [39]
  else map_byte 32 95 s.

(* len(s) >= 2 && s[0] == '\'' && s[len(s)-1] == '\'' *)
Definition quoted (s : bytes) : bool :=
  (2 <=? length s)%nat && (hd 0 s =? 39) && (last s 0 =? 39).

Definition name_from_text (s : bytes) : bytes :=
  if quoted s then undbl_quotes (removelast (tl s))     (* s[1:len(s)-1] *)
  else map_byte 95 32 s.

(* ------------------------------------------------------------------ *)
(* writer                                                               *)

Section WithOracle.
Variable o : foracle.

Fixpoint newick_text (t : tree) : bytes :=
  match t with
  | Node name d cs =>
    (match cs with
     | [] => []
     | c0 :: cr =>
       40 :: newick_text c0
          ++ (fix rest (l : list tree) : bytes :=
                match l with [] => [] | c :: r => 44 :: newick_text c ++ rest r end) cr
          ++ [41]
     end)
    ++ name_to_text name
    ++ (if is_zeroF d then [] else 58 :: fmtF o d)     (* fmt.Fprint(buf, ":", n.Distance) *)
  end.

(* MarshalText; Write passes this to the writer as one chunk. *)
Definition marshal (t : tree) : bytes := newick_text t ++ [59].
Definition write_chunks (t : tree) : list bytes := [marshal t].

(* ------------------------------------------------------------------ *)
(* tokeniser                                                            *)

Inductive tok_res : Type :=
| TokOk (tok : bytes) (rest : bytes)
| TokEOF                                (* io.EOF with nothing buffered *)
| TokErr.                               (* read error, or unexpected ' *)

Definition is_punct (b : byte) : bool :=
  (b =? 40) || (b =? 41) || (b =? 44) || (b =? 58) || (b =? 59).
Definition is_ws (b : byte) : bool :=
  (b =? 32) || (b =? 9) || (b =? 10) || (b =? 13).
Definition nonempty (s : bytes) : bool := match s with [] => false | _ => true end.

(* [buf] is r.b reversed.  UnreadByte = the rest keeps the byte. *)
Fixpoint tok_loop (quote afterq : bool) (buf : bytes) (s : bytes) (tm : term) : tok_res :=
  match s with
  | [] =>
    (* ReadByte fails: if err == io.EOF && r.b.Len() > 0 { break } else return err *)
    match tm with
    | TEOF => if nonempty buf then TokOk (rev buf) [] else TokEOF
    | TErr => TokErr
    end
  | b :: r =>
    if quote then
      if b =? 39 then tok_loop true (negb afterq) (b :: buf) r tm
      else if afterq then TokOk (rev buf) s              (* end of quoted string *)
      else tok_loop true afterq (b :: buf) r tm
    else if b =? 39 then
      (if nonempty buf then TokErr else tok_loop true afterq (b :: buf) r tm)
    else if is_punct b then
      (if nonempty buf then TokOk (rev buf) s else TokOk [b] r)
    else if is_ws b then
      (if nonempty buf then TokOk (rev buf) r else tok_loop false afterq buf r tm)
    else tok_loop false afterq (b :: buf) r tm
  end.

Definition next_token (s : bytes) (tm : term) : tok_res := tok_loop false false [] s tm.

(* ------------------------------------------------------------------ *)
(* reader                                                               *)

Inductive rstate : Type := BeforeNode | AfterName | AfterColon | AfterDist | AfterChildren.

Definition st_eqb (a b : rstate) : bool :=
  match a, b with
  | BeforeNode, BeforeNode | AfterName, AfterName | AfterColon, AfterColon
  | AfterDist, AfterDist | AfterChildren, AfterChildren => true
  | _, _ => false
  end.

(* A node under construction: name, distance, the children completed so far
   (latest first).  In Go the child under construction is already the last
   element of its parent's Children; here it is the next frame of the stack
   and is attached when it is completed (',' or ')'). *)
Record frame : Type := { fr_name : bytes; fr_dist : F; fr_kids : list tree }.

Definition fresh : frame := {| fr_name := []; fr_dist := zeroF; fr_kids := [] |}.   (* &Node{} *)
Definition close (f : frame) : tree := Node (fr_name f) (fr_dist f) (rev (fr_kids f)).
Definition add_kid (t : tree) (f : frame) : frame :=
  {| fr_name := fr_name f; fr_dist := fr_dist f; fr_kids := t :: fr_kids f |}.
Definition set_name (n : bytes) (f : frame) : frame :=
  {| fr_name := n; fr_dist := fr_dist f; fr_kids := fr_kids f |}.
Definition set_dist (d : F) (f : frame) : frame :=
  {| fr_name := fr_name f; fr_dist := d; fr_kids := fr_kids f |}.

(* One configuration of read()'s loop: state, stack (top frame and the frames
   below it, so len(stack) = 1 + length below), readAny, remaining input. *)
Record config : Type :=
  { c_state : rstate; c_top : frame; c_below : list frame; c_any : bool; c_input : bytes }.

Inductive read_res : Type :=
| ROk (t : tree) (rest : bytes)
| REOF                                  (* io.EOF before any token *)
| RErr                                  (* any other error, incl. io.ErrUnexpectedEOF *)
| RPanic.

Inductive step_res : Type :=
| Continue (c : config)
| Done (r : read_res).

(* one iteration of the loop of read() *)
Definition read_step (tm : term) (c : config) : step_res :=
  let st := c_state c in
  match next_token (c_input c) tm with
  | TokEOF => if c_any c then Done RErr (* io.ErrUnexpectedEOF *) else Done REOF
  | TokErr => Done RErr
  | TokOk tok rest =>
    if beqb tok [40] then                                            (* "(" *)
      if negb (st_eqb st BeforeNode) then Done RErr
      else Continue {| c_state := st; c_top := fresh; c_below := c_top c :: c_below c;
                       c_any := true; c_input := rest |}
    else if beqb tok [41] then                                       (* ")" *)
      if st_eqb st AfterColon then Done RErr
      else match c_below c with
           | [] => Done RErr                                         (* too many ')' *)
           | parent :: below' =>
             Continue {| c_state := AfterChildren; c_top := add_kid (close (c_top c)) parent;
                         c_below := below'; c_any := true; c_input := rest |}
           end
    else if beqb tok [44] then                                       (* "," *)
      if st_eqb st AfterColon then Done RErr
      else match c_below c with
           | [] => Done RErr                                         (* ',' after top level node *)
           | parent :: below' =>
             Continue {| c_state := BeforeNode; c_top := fresh;
                         c_below := add_kid (close (c_top c)) parent :: below';
                         c_any := true; c_input := rest |}
           end
    else if beqb tok [58] then                                       (* ":" *)
      if st_eqb st AfterColon || st_eqb st AfterDist then Done RErr
      else Continue {| c_state := AfterColon; c_top := c_top c; c_below := c_below c;
                       c_any := true; c_input := rest |}
    else if beqb tok [59] then                                       (* ";" *)
      match c_below c with
      | _ :: _ => Done RErr                                          (* ';' at depth > 1 *)
      | [] => if st_eqb st AfterColon then Done RErr
              else Done (ROk (close (c_top c)) rest)
      end
    else                                                             (* default *)
      if st_eqb st AfterName || st_eqb st AfterDist then Done RErr
      else if st_eqb st BeforeNode || st_eqb st AfterChildren then
        Continue {| c_state := AfterName; c_top := set_name (name_from_text tok) (c_top c);
                    c_below := c_below c; c_any := true; c_input := rest |}
      else if negb (st_eqb st AfterColon) then Done RPanic           (* panic("unexpected state") *)
      else match parseF o tok with
           | None => Done RErr
           | Some d =>
             Continue {| c_state := AfterDist; c_top := set_dist d (c_top c);
                         c_below := c_below c; c_any := true; c_input := rest |}
           end
  end.

Fixpoint read_loop (fuel : nat) (tm : term) (c : config) : read_res :=
  match fuel with
  | O => RPanic
  | S f => match read_step tm c with
           | Continue c' => read_loop f tm c'
           | Done r => r
           end
  end.

Definition init_config (s : bytes) : config :=
  {| c_state := BeforeNode; c_top := fresh; c_below := []; c_any := false; c_input := s |}.

(* read(): every iteration that continues consumed at least one byte *)
Definition read_tree (s : bytes) (tm : term) : read_res :=
  read_loop (S (length s)) tm (init_config s).

(* Reader: the items yielded (an error item is the last one). *)
Fixpoint decode_loop (fuel : nat) (s : bytes) (tm : term) (acc : list (item tree))
  : outcome (list (item tree)) :=
  match fuel with
  | O => Panic
  | S f =>
    match read_tree s tm with
    | REOF => Ok (rev acc)
    | RErr => Ok (rev (ErrItem :: acc))
    | RPanic => Panic
    | ROk t rest => decode_loop f rest tm (Rec t :: acc)
    end
  end.

Definition decode (s : bytes) (tm : term) : outcome (list (item tree)) :=
  decode_loop (S (length s)) s tm [].

End WithOracle.
