(* Model/Fastq.v — executable model of /repo/formats/fastq (fastq.go, iter.go);
   no proofs here.

   Writer: Fastq.Write makes one Fprintf call "@%s\n%s\n+\n%s\n"; MarshalText
   writes into a buffer and panics when the length is not 6 + the three field
   lengths.
   Reader: bufio.Scanner with ScanLines and the token limit lifted to MaxInt
   (so no limit here).  A run of the Scanner is the token list
   [Base.scan_tokens delivered] plus the terminal condition, which is consulted
   (Scanner.Err) only when Scan returns false. *)
From Bio Require Import Base.

Record fastq : Type := { name : bytes; seq : bytes; quals : bytes }.

Definition AT : byte := 64.     (* '@' *)
Definition PLUS : byte := 43.   (* '+' *)

(* fmt.Fprintf(w, "@%s\n%s\n+\n%s\n", f.Name, f.Sequence, f.Quals) *)
Definition write (r : fastq) : bytes :=
  AT :: name r ++ LF :: seq r ++ LF :: PLUS :: LF :: quals r ++ [LF].

(* the chunks handed to the io.Writer: a single Write call *)
Definition write_calls (r : fastq) : list bytes := [write r].

(* MarshalText: n := 6 + len(Name) + len(Sequence) + len(Quals); f.Write(buf);
   if buf.Len() != n { panic } *)
Definition marshal_text (r : fastq) : outcome bytes :=
  let n := (6 + length (name r) + length (seq r) + length (quals r))%nat in
  let buf := concat (write_calls r) in
  if Nat.eqb (length buf) n then Ok buf else Panic.

(* ------------------------------------------------------------------ *)
(* Reader.  The scanner state is the list of tokens still to come;
   Scanner.Scan() is a match on it: [] is "Scan returned false", tk :: rest is
   "Scan returned true, Bytes() = tk".                                  *)

(* bytes.HasPrefix(plus, []byte("+")) *)
Definition has_plus_prefix (l : bytes) : bool :=
  match l with
  | c :: _ => c =? PLUS
  | [] => false
  end.

(* reader.read() in continuation-passing style (so that the decode loop below is
   structurally recursive on the token list):
     k_rec r rest  a record was read, [rest] are the tokens still to come
     k_eof         io.EOF: the clean end, no record available
     k_err         any other error *)
Definition read_with {A : Type} (toks : list bytes) (t : term)
    (k_rec : fastq -> list bytes -> A) (k_eof k_err : A) : A :=
  (* Read name. *)
  match toks with
  | [] =>
    match t with
    | TEOF => k_eof                      (* s.Err() == nil: io.EOF *)
    | TErr => k_err                      (* "fastq read: %v" *)
    end
  | l1 :: toks1 =>
    (* len(name) == 0 || name[0] != '@' *)
    match l1 with
    | [] => k_err
    | c :: nm =>
      if negb (c =? AT) then k_err else
      (* Read sequence *)
      match toks1 with
      | [] =>
        match t with
        | TEOF => k_err                  (* io.ErrUnexpectedEOF *)
        | TErr => k_err                  (* "fastq read: %v" *)
        end
      | sq :: toks2 =>
        (* Read plus *)
        match toks2 with
        | [] =>
          match t with
          | TEOF => k_err
          | TErr => k_err
          end
        | plus :: toks3 =>
          if negb (has_plus_prefix plus) then k_err else
          (* Read qualities *)
          match toks3 with
          | [] =>
            match t with
            | TEOF => k_err
            | TErr => k_err
            end
          | ql :: toks4 =>
            if negb (Nat.eqb (length ql) (length sq)) then k_err
            else k_rec {| name := nm; seq := sq; quals := ql |} toks4
          end
        end
      end
    end
  end.

Inductive read_result : Type :=
| RRec (r : fastq) (rest : list bytes)
| REof
| RErr.

(* reader.read() on the scanner state (remaining tokens, terminal condition) *)
Definition read_one (st : list bytes * term) : read_result :=
  read_with (fst st) (snd st) RRec REof RErr.

(* reader.iter(): yield records until read fails; an error other than io.EOF is
   yielded as the last item; io.EOF ends the iteration without an item. *)
Fixpoint decode_toks (t : term) (toks : list bytes) {struct toks} : list (item fastq) :=
  read_with toks t (fun r rest => Rec r :: decode_toks t rest) [] [ErrItem].

(* fastq.Reader(r) for a stream that delivered [s] and then reported [t] *)
Definition decode (s : bytes) (t : term) : list (item fastq) :=
  decode_toks t (scan_tokens s).
