(* Model/Iterators.v — the library's iterators as compositions of the adapters of Model/Iter.v; no proofs.

   Every definition follows the shape of the Go source (formats/*/iter.go,
   newick.go Reader/File, traverse.go, trie.go ForEach, sequtil.go
   CanonicalSubsequences): which loop it is, which `range` wrapper sits around
   which inner iterator, and where a yield is guarded.  The *contents* of the
   loops (what read() returns, call after call) come from the format models.

   An input of a Reader is the delivered bytes [w] and the terminal condition
   [t] of the stream; of a File additionally [opened] (false: aio.Open failed,
   e.g. a missing path; a file that opened ends with a clean EOF or an I/O
   error like any stream). *)
From Bio Require Import Base.
From Bio.Model Require Import Iter.
From Bio.Model Require Fasta Fastq Sam Bed Newick Trie Seq.

(* the items of a computation that cannot panic (proved per family: C19, C15,
   C05; for CanonicalSubsequences on valid DNA and k >= 0, C12) *)
Definition ok_items {A} (o : outcome (list A)) : list A :=
  match o with Ok l => l | _ => [] end.

(* ---- fasta (formats/fasta/iter.go) ---------------------------------------------- *)
(* reader.iter(): for { fa, err := r.read(); if err != nil { if err != io.EOF { yield(nil, err) }; break }
                        if !yield(fa, nil) { return } }
   the successive results of read() are [Fasta.decode w t]. *)
Definition fasta_iter (w : bytes) (t : term) : seqT (item Fasta.fasta) :=
  iter_loop (Fasta.decode w t).
(* Reader: for fa, err := range newReader(r).iter() { if !yield(fa, err) { break } } *)
Definition fasta_reader (w : bytes) (t : term) : seqT (item Fasta.fasta) :=
  wrap_guarded (fasta_iter w t).
(* File: Open; on error yield(nil, err); return; else for .. range Reader(f) { if !yield { break } } *)
Definition fasta_file (opened : bool) (w : bytes) (t : term) : seqT (item Fasta.fasta) :=
  file_wrap opened (fasta_reader w t).

(* ---- fastq (formats/fastq/iter.go: the same three functions) ---------------------- *)
Definition fastq_iter (w : bytes) (t : term) : seqT (item Fastq.fastq) :=
  iter_loop (Fastq.decode w t).
Definition fastq_reader (w : bytes) (t : term) : seqT (item Fastq.fastq) :=
  wrap_guarded (fastq_iter w t).
Definition fastq_file (opened : bool) (w : bytes) (t : term) : seqT (item Fastq.fastq) :=
  file_wrap opened (fastq_reader w t).

(* ---- bed (formats/bed/iter.go) ----------------------------------------------------- *)
(* Reader: for { bed, err := rd.read(); if err == io.EOF { return }
                 if err != nil { yield(nil, err); return }; if !yield(bed, nil) { return } } *)
Definition bed_reader (w : bytes) (t : term) : seqT (item Bed.bed) :=
  reader_loop (Bed.decode w t).
Definition bed_file (opened : bool) (w : bytes) (t : term) : seqT (item Bed.bed) :=
  file_wrap opened (bed_reader w t).

(* ---- newick (formats/newick/newick.go Reader, File) -------------------------------- *)
Definition newick_reader (o : foracle) (w : bytes) (t : term) : seqT (item Newick.tree) :=
  reader_loop (ok_items (Newick.decode o w t)).
(* File: for n, err := range Reader(f) { if !yield(n, err) { return } } *)
Definition newick_file (opened : bool) (o : foracle) (w : bytes) (t : term) : seqT (item Newick.tree) :=
  file_wrap opened (newick_reader o w t).

(* ---- sam (formats/sam/iter.go) ------------------------------------------------------ *)
(* ReaderHeader: one loop over the lines; every yield is `if !yield(..) { return }`
   except the one for a read error, which is followed by `return`.  It goes on
   after a line that does not parse. *)
Definition sam_reader_header (o : foracle) (w : bytes) (t : term) : seqT (item Sam.entry) :=
  guarded_loop (Sam.reader_header o w t).

(* the body of Reader's range loop: errors are passed on, headers dropped *)
Definition sam_keep (it : item Sam.entry) : option (item Sam.sam) :=
  match it with
  | ErrItem => Some ErrItem                 (* if err != nil { if !yield(nil, err) { break }; continue } *)
  | Rec (Sam.Hdr _) => None                 (* if sh.S == nil { continue } *)
  | Rec (Sam.Aln r) => Some (Rec r)         (* if !yield(sh.S, nil) { break } *)
  end.

Definition sam_reader (o : foracle) (w : bytes) (t : term) : seqT (item Sam.sam) :=
  filter_wrap sam_keep (sam_reader_header o w t).
Definition sam_file (opened : bool) (o : foracle) (w : bytes) (t : term) : seqT (item Sam.sam) :=
  file_wrap opened (sam_reader o w t).
Definition sam_file_header (opened : bool) (o : foracle) (w : bytes) (t : term) : seqT (item Sam.entry) :=
  file_wrap opened (sam_reader_header o w t).

(* ---- newick traversals (formats/newick/traverse.go) --------------------------------- *)
(* the explicit stack loop; both yields are `if !yield(step.n) { return }` *)
Definition pre_order (tr : Newick.tree) : seqT Newick.occ :=
  guarded_loop (ok_items (Newick.traverse true tr)).
Definition post_order (tr : Newick.tree) : seqT Newick.occ :=
  guarded_loop (ok_items (Newick.traverse false tr)).

(* ---- trie.ForEach (trie/trie.go) ----------------------------------------------------- *)
(* `if len(cur) > 0 && !f(cur) { break }`: the callback is the yield.  The order
   is the model's (ascending keys); Go's is its map order (see Model/Trie.v). *)
Definition for_each (tr : Trie.trie) : seqT bytes :=
  guarded_loop (ok_items (Trie.for_each tr)).

(* ---- sequtil.CanonicalSubsequences ---------------------------------------------------- *)
(* for i := range nk { ...; if !yield(kmer) { return } } *)
Definition canonical_subsequences (s : bytes) (k : Z) : seqT bytes :=
  guarded_loop (ok_items (Seq.canon s k)).

(* ---- a broken adapter, for the non-vacuity examples only ------------------------------- *)
(* Reader written `for fa, err := range r.iter() { yield(fa, err) }` *)
Definition fasta_reader_broken (w : bytes) (t : term) : seqT (item Fasta.fasta) :=
  wrap_unguarded (fasta_iter w t).
