(* Model/Iterators.v — the library's iterators as compositions of the adapters of Model/Iter.v; no proofs. *)
From Bio Require Import Base.
From Bio.Model Require Import Iter.
