(* Model/Fasta.v — executable model of /repo/formats/fasta (fasta.go, iter.go).
   No proofs here.

   Writer: [write_calls r] is the list of byte chunks Fasta.Write passes to its
   io.Writer, one element per fmt.Fprintf call; MarshalText is Write into a
   buffer followed by the length self-check (panic on mismatch).

   Reader: [rd_loop] is the body of reader.read(): the four-state byte machine
   with the readAnything flag; [read_one] adds the three return statements
   after the loop; [decode] is reader.iter() (= Reader) run to the end with a
   consumer that never stops.  A stream is the delivered bytes plus the
   terminal condition observed by ReadByte after the last byte. *)
From Bio Require Import Base.

Record fasta : Type := { name : bytes; seq : bytes }.

Definition GT : byte := 62.                       (* '>' *)
Definition is_nl (b : byte) : bool := (b =? LF) || (b =? CR).   (* b == '\n' || b == '\r' *)

(* ------------------------------------------------------------------ *)
(* Fasta.Write                                                          *)

Definition text_line_len : nat := 80.             (* const textLineLen *)

(* for i := 0; i < len(seq); i += textLineLen { seq[i:min(i+textLineLen,len)] }
   [s] is seq[i:]; every iteration with i < len removes min(80,len-i) >= 1
   bytes, so fuel [length s] is never exhausted (FastaProofs.chunks_concat). *)
Fixpoint chunks_aux (fuel : nat) (s : bytes) : list bytes :=
  match fuel with
  | O => []
  | S f =>
    match s with
    | [] => []
    | _ :: _ => firstn text_line_len s :: chunks_aux f (skipn text_line_len s)
    end
  end.
Definition chunks (s : bytes) : list bytes := chunks_aux (length s) s.

(* one element per Fprintf: ">%s\n" with the name, then "%s\n" per chunk *)
Definition write_calls (r : fasta) : list bytes :=
  (GT :: name r ++ [LF]) :: map (fun c => c ++ [LF]) (chunks (seq r)).

Definition write (r : fasta) : bytes := concat (write_calls r).

(* n := 2 + len(Name) + len(Sequence) + (len(Sequence)+textLineLen-1)/textLineLen *)
Definition marshal_len (r : fasta) : nat :=
  2 + length (name r) + length (seq r)
  + (length (seq r) + text_line_len - 1) / text_line_len.

(* MarshalText: Write into a bytes.Buffer (cannot fail), then
   if buf.Len() != n { panic(...) }; return buf.Bytes(), nil *)
Definition marshal_text (r : fasta) : outcome bytes :=
  let buf := write r in
  if Nat.eqb (length buf) (marshal_len r) then Ok buf else Panic.

(* ------------------------------------------------------------------ *)
(* reader.read()                                                        *)

Inductive state : Type := SStart | SNewLine | SName | SSeq.

(* The for loop.  [nm], [sq]: result.Name / result.Sequence so far, reversed
   (append = cons).  [any]: readAnything.  Result: the accumulators and the
   flag when the loop ends, and how it ended:
     [None]      — ReadByte returned the stream's terminal condition (input exhausted);
     [Some rest] — "break loop" after UnreadByte: err is nil, [rest] (starting
                   with the unread '>') is what the next read() will see. *)
Fixpoint rd_loop (st : state) (nm sq : bytes) (any : bool) (inp : bytes)
  : (bytes * bytes * bool) * option bytes :=
  match inp with
  | [] => ((nm, sq, any), None)
  | b :: rest =>
    (* readAnything = true *)
    match st with
    | SStart =>
      if b =? GT then rd_loop SName nm sq true rest
      else if is_nl b then rd_loop SNewLine nm sq true rest
      else rd_loop SSeq nm (b :: sq) true rest
    | SSeq =>
      if is_nl b then rd_loop SNewLine nm sq true rest
      else rd_loop SSeq nm (b :: sq) true rest
    | SName =>
      if is_nl b then rd_loop SNewLine nm sq true rest
      else rd_loop SName (b :: nm) sq true rest
    | SNewLine =>
      if is_nl b then rd_loop SNewLine nm sq true rest
      else if b =? GT then ((nm, sq, true), Some (b :: rest))   (* UnreadByte; break loop *)
      else rd_loop SSeq nm (b :: sq) true rest
    end
  end.

(* What read() returns. *)
Inductive rd_result : Type :=
| RdRec (r : fasta) (rest : bytes)    (* (result, nil); [rest] is still unread *)
| RdEOF                               (* (nil, io.EOF) *)
| RdErr.                              (* (nil, err), err != io.EOF *)

Definition mk_result (nm sq : bytes) : fasta :=
  {| name := rev_append nm []; seq := rev_append sq [] |}.

Definition read_one (inp : bytes) (t : term) : rd_result :=
  match rd_loop SStart [] [] false inp with
  | ((nm, sq, any), Some rest) =>
    (* left by break: err == nil and readAnything is true *)
    RdRec (mk_result nm sq) rest
  | ((nm, sq, any), None) =>
    (* err is the terminal condition *)
    if negb any then
      match t with TEOF => RdEOF | TErr => RdErr end      (* return nil, err *)
    else
      match t with
      | TErr => RdErr                                     (* err != nil && err != io.EOF *)
      | TEOF => RdRec (mk_result nm sq) []                (* EOF is reported by the next call *)
      end
  end.

(* ------------------------------------------------------------------ *)
(* reader.iter() / Reader, consumed to the end.                         *)

(* Every read() that returns a record and leaves input has consumed at least
   one byte, so [length inp + 1] calls suffice (FastaProofs.decode_fuel_enough
   proves it for every input); an exhausted fuel yields nothing more. *)
Fixpoint decode_fuel (fuel : nat) (inp : bytes) (t : term) : list (item fasta) :=
  match fuel with
  | O => []
  | S f =>
    match read_one inp t with
    | RdRec r rest => Rec r :: decode_fuel f rest t       (* yield(fa, nil) *)
    | RdEOF => []                                         (* break *)
    | RdErr => [ErrItem]                                  (* yield(nil, err); break *)
    end
  end.

Definition decode (inp : bytes) (t : term) : list (item fasta) :=
  decode_fuel (S (length inp)) inp t.
