(* Model/GoGlobals.v — the package-level tables that the translated functions
   (gen/ImpGen.v) read, as values.  They are obtained from gen/Tables.v, which
   `harness gen-tables` reads out of the running implementation on every run:
   complementBytes[b] is the byte that ReverseComplement(nil,[b]) produced, and 0 where it
   panicked; ntoi[b] is Ntoi(b); dnaFrom2bit[b] is DNAFrom2Bit(nil,[b]); codonToAmino[c]
   is what Translate(nil,c) produced for the 64 codons over ACGT and 0 (the zero value of
   a missing key) elsewhere.  No proofs here. *)
From Bio Require Import Base.
From Bio.gen Require Import Tables.

Definition g_sequtil_complementBytes : list N :=
  map (fun o => match o with Some c => c | None => 0 end) complement_tab.

Definition g_sequtil_ntoi : list Z := ntoi_tab.

Definition g_sequtil_dnaFrom2bit : list (list N) := from2bit_tab.

Definition g_sequtil_codonToAmino (k : list N) : N :=
  match k with
  | [a; b; c] =>
    match find (fun e => match e with (x, y, z, _) => (x =? a) && (y =? b) && (z =? c) end) codon_tab with
    | Some (_, _, _, aa) => aa
    | None => 0
    end
  | _ => 0
  end.

(* aminoToName[b]: the two names AminoName(b) returned for the upper-case letter b, read out
   for all 256 bytes by gen-tables; None where it panicked (no such key).  AminoName folds
   lower case to upper case before the lookup, so the read-out at an upper-case letter is the
   map entry itself. *)
Definition g_sequtil_aminoToName (b : N) : option (list N * list N) :=
  if (97 <=? b) && (b <=? 122) then None
  else match nth_error amino_tab (N.to_nat b) with Some (Some names) => Some names | _ => None end.
