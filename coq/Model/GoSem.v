(* Model/GoSem.v — the target language of `harness gen-imp`: a shallow embedding of the
   imperative subset of Go that the translated functions use (gen/ImpGen.v is written
   in it).  These definitions are the *assumed* meaning of the Go constructs and are
   part of the trusted base (DESIGN.md section 7):

   * int, int64 and named integer types are Z WITHOUT wrap-around (lengths and
     positions are assumed to stay inside int64); byte and named byte types are N and
     every byte-typed arithmetic result is reduced mod 256 by the translator;
     float64 is Z (integer-valued weights, exact below 2^53, as in Model/Align.v);
   * a slice is the list of its elements (no capacity, no aliasing: every assignment
     through an index produces a new list; the translator refuses functions in which
     two live variables could share an array and one is written);
   * a statement list is a function from the variables it assigns to a [res]:
     [Next s] (fell through, new values [s]), [Brk s] (break), [Ret r] (return),
     [Panics] (a run-time panic: explicit panic, index or slice out of range, missing
     key where the code panics) and [NoFuel] (a `for cond {}` loop was given too
     little fuel; the theorems exclude it by giving enough);
   * `for ... range` over a slice or an int and the two counted shapes
     `for i := a; i < b; i++` / `for i := a; i >= b; i--` (when the body assigns neither
     i nor anything b mentions) are structural iteration over the index list; every
     other `for` is [go_while] on explicit fuel.
   No proofs here. *)
From Coq Require Import ZArith NArith Bool List.
Import ListNotations.
From Bio Require Import Base.

Inductive res (S R : Type) : Type :=
| Next (s : S)
| Brk (s : S)
| Ret (r : R)
| Panics
| NoFuel.
Arguments Next {S R} s.
Arguments Brk {S R} s.
Arguments Ret {S R} r.
Arguments Panics {S R}.
Arguments NoFuel {S R}.

(* the value of a call: only Ret / Panics / NoFuel make sense *)
Definition go_call {A S R} (m : res unit A) (k : A -> res S R) : res S R :=
  match m with
  | Ret a => k a
  | NoFuel => NoFuel
  | _ => Panics
  end.

(* what follows a loop *)
Definition after {S S' R} (m : res S R) (k : S -> res S' R) : res S' R :=
  match m with
  | Next s | Brk s => k s
  | Ret r => Ret r
  | Panics => Panics
  | NoFuel => NoFuel
  end.

Fixpoint go_iter {A S R} (body : A -> S -> res S R) (l : list A) (s : S) : res S R :=
  match l with
  | [] => Next s
  | x :: l' =>
    match body x s with
    | Next s' => go_iter body l' s'
    | Brk s' => Next s'
    | Ret r => Ret r
    | Panics => Panics
    | NoFuel => NoFuel
    end
  end.

Definition zseq (lo : Z) (n : nat) : list Z := map (fun k => (lo + Z.of_nat k)%Z) (seq 0 n).

Definition indexed {A} (l : list A) : list (Z * A) := combine (zseq 0 (length l)) l.

(* for i, x := range l *)
Definition go_range {A S R} (l : list A) (body : Z -> A -> S -> res S R) (s : S) : res S R :=
  go_iter (fun p => body (fst p) (snd p)) (indexed l) s.

(* for i := range n   (n an int, or len of a slice evaluated once) *)
Definition go_range_int {S R} (n : Z) (body : Z -> S -> res S R) (s : S) : res S R :=
  go_iter body (zseq 0 (Z.to_nat n)) s.

(* for i := lo; i < hi; i++ *)
Definition go_for_up {S R} (lo hi : Z) (body : Z -> S -> res S R) (s : S) : res S R :=
  go_iter body (zseq lo (Z.to_nat (hi - lo))) s.

(* for i := hi; i >= lo; i-- *)
Definition go_for_down {S R} (hi lo : Z) (body : Z -> S -> res S R) (s : S) : res S R :=
  go_iter body (rev (zseq lo (Z.to_nat (hi - lo + 1)))) s.

(* for cond { body }  (a post statement is folded into the body by the translator) *)
Fixpoint go_while {S R} (fuel : nat) (cond : S -> res unit bool) (body : S -> res S R) (s : S)
  : res S R :=
  match fuel with
  | O => NoFuel
  | Datatypes.S f =>
    match cond s with
    | Ret true =>
      match body s with
      | Next s' => go_while f cond body s'
      | Brk s' => Next s'
      | Ret r => Ret r
      | Panics => Panics
      | NoFuel => NoFuel
      end
    | Ret false => Next s
    | NoFuel => NoFuel
    | _ => Panics
    end
  end.

(* ---- slices ------------------------------------------------------------------- *)
Definition go_len {A} (l : list A) : Z := Z.of_nat (length l).

(* l[i] *)
Definition go_index {A S R} (l : list A) (i : Z) (k : A -> res S R) : res S R :=
  if (i <? 0)%Z then Panics
  else match nth_error l (Z.to_nat i) with Some x => k x | None => Panics end.

Fixpoint set_nth {A} (l : list A) (n : nat) (v : A) : list A :=
  match l, n with
  | [], _ => []
  | _ :: r, O => v :: r
  | x :: r, Datatypes.S n' => x :: set_nth r n' v
  end.

(* l[i] = v *)
Definition go_set {A S R} (l : list A) (i : Z) (v : A) (k : list A -> res S R) : res S R :=
  if ((i <? 0) || (go_len l <=? i))%Z then Panics else k (set_nth l (Z.to_nat i) v).

(* l[i:j]  (the capacity is taken to be the length) *)
Definition go_slice {A S R} (l : list A) (i j : Z) (k : list A -> res S R) : res S R :=
  if ((i <? 0) || (j <? i) || (go_len l <? j))%Z then Panics
  else k (firstn (Z.to_nat (j - i)) (skipn (Z.to_nat i) l)).

(* make([]T, n) *)
Definition go_make {A S R} (zero : A) (n : Z) (k : list A -> res S R) : res S R :=
  if (n <? 0)%Z then Panics else k (repeat zero (Z.to_nat n)).

(* copy(dst, src): the new dst *)
Definition go_copy {A} (dst src : list A) : list A :=
  let n := Nat.min (length dst) (length src) in firstn n src ++ skipn n dst.

(* x / y and x % y on ints: truncated; a zero divisor panics *)
Definition go_quot {S R} (x y : Z) (k : Z -> res S R) : res S R :=
  if (y =? 0)%Z then Panics else k (Z.quot x y).
Definition go_rem {S R} (x y : Z) (k : Z -> res S R) : res S R :=
  if (y =? 0)%Z then Panics else k (Z.rem x y).

(* byte(x) for an int x *)
Definition go_byte (x : Z) : N := Z.to_N (x mod 256)%Z.
(* results of byte arithmetic *)
Definition wrap8 (n : N) : N := (n mod 256)%N.
(* byte subtraction *)
Definition sub8 (a b : N) : N := Z.to_N ((Z.of_N a - Z.of_N b) mod 256)%Z.

(* bytes.Compare *)
Definition go_bytes_compare (a b : list N) : Z :=
  match bcompare a b with Lt => (-1)%Z | Eq => 0%Z | Gt => 1%Z end.

(* ---- map[K]struct{} as a list of keys; map[K]V as an association list -------------
   Iteration order of a Go map is unspecified: [go_range] over the key list is one of
   the possible orders.  (The only translated loop over a map is followed by a sort.) *)
Definition set_insert (k : Z) (l : list Z) : list Z := if existsb (Z.eqb k) l then l else l ++ [k].
Definition set_delete (k : Z) (l : list Z) : list Z := filter (fun z => negb (Z.eqb z k)) l.

Fixpoint assoc2 {V} (m : list ((N * N) * V)) (a b : N) : option V :=
  match m with
  | [] => None
  | ((x, y), v) :: r => if (N.eqb x a && N.eqb y b)%bool then Some v else assoc2 r a b
  end.

(* ---- package sort ----------------------------------------------------------------- *)
Fixpoint insert_by {A} (less : A -> A -> bool) (e : A) (l : list A) : list A :=
  match l with
  | [] => [e]
  | x :: r => if less e x then e :: x :: r else x :: insert_by less e r
  end.
(* sort.Slice / sort.Ints: SOME permutation satisfying the contract; for a strict total
   order without ties it is the only one (Model/Regions.v, sort_events_unique). *)
Fixpoint go_sort {A} (less : A -> A -> bool) (l : list A) : list A :=
  match l with
  | [] => []
  | e :: r => insert_by less e (go_sort less r)
  end.

(* sort.Search(n, f):  i, j := 0, n; for i < j { h := int(uint(i+j) >> 1);
     if !f(h) { i = h + 1 } else { j = h } }; return i *)
Fixpoint search_loop (fuel : nat) (f : Z -> res unit bool) (i j : Z) : res unit Z :=
  match fuel with
  | O => NoFuel
  | Datatypes.S fuel' =>
    if (i <? j)%Z then
      let h := Z.shiftr (i + j) 1 in
      match f h with
      | Ret false => search_loop fuel' f (h + 1)%Z j
      | Ret true => search_loop fuel' f i h
      | NoFuel => NoFuel
      | _ => Panics
      end
    else Ret i
  end.
Definition go_sort_search (n : Z) (f : Z -> res unit bool) : res unit Z :=
  search_loop (Datatypes.S (Z.to_nat n)) f 0%Z n.

(* ---- strings and fmt -----------------------------------------------------------------
   strings.ContainsAny with an ASCII set, bytewise; strings.ReplaceAll for a non-empty old
   (leftmost, non-overlapping); fmt.Fprintf with a format held in a variable and one
   argument already rendered: the first "%v" is replaced. *)
Definition go_contains_any (s chars : list N) : bool :=
  existsb (fun c => existsb (N.eqb c) chars) s.

Fixpoint is_prefix (p s : list N) : bool :=
  match p, s with
  | [], _ => true
  | x :: p', y :: s' => (N.eqb x y && is_prefix p' s')%bool
  | _ :: _, [] => false
  end.

Fixpoint replace_aux (fuel : nat) (s old new : list N) : list N :=
  match fuel with
  | O => s
  | Datatypes.S f =>
    match s with
    | [] => []
    | c :: r =>
      if is_prefix old s then new ++ replace_aux f (skipn (length old) s) old new
      else c :: replace_aux f r old new
    end
  end.

Definition go_replace_all (s old new : list N) : list N :=
  match old with
  | [] => s
  | _ => replace_aux (Datatypes.S (length s)) s old new
  end.

Fixpoint go_fmt1 (f arg : list N) : list N :=
  match f with
  | 37%N :: 118%N :: r => arg ++ r
  | c :: r => c :: go_fmt1 r arg
  | [] => []
  end.

(* a && b, a || b when evaluating b can panic: b is evaluated only if needed *)
Definition go_andalso {S R} (a : bool) (rhs : (bool -> res S R) -> res S R) (k : bool -> res S R) : res S R :=
  if a then rhs k else k false.
Definition go_orelse {S R} (a : bool) (rhs : (bool -> res S R) -> res S R) (k : bool -> res S R) : res S R :=
  if a then k true else rhs k.

(* ---- a *bufio.Reader as a value -----------------------------------------------------------
   The bytes still to come, the error that the underlying reader returns once they are
   exhausted (1 = io.EOF, 2 = any other error; it is returned again by every later call), and
   the byte that UnreadByte would put back.  How the bytes arrive (in which pieces) is not
   visible through ReadByte; that is C06's subject. *)
Record go_stream : Type := Stream { st_rest : list N; st_term : Z; st_last : option N }.

Definition go_readbyte (s : go_stream) : N * Z * go_stream :=
  match st_rest s with
  | b :: r => (b, 0%Z, Stream r (st_term s) (Some b))
  | [] => (0%N, st_term s, Stream [] (st_term s) None)
  end.

Definition go_unreadbyte (s : go_stream) : go_stream :=
  match st_last s with
  | Some b => Stream (b :: st_rest s) (st_term s) None
  | None => s
  end.

(* ---- a *bufio.Scanner (ScanLines) as a value ---------------------------------------------
   The current token, the tokens still to come, the error Err() reports once Scan has
   returned false (0: the input simply ended), and whether Scan has returned false.  How the
   input splits into tokens is Base.scan_tokens; here only the calls are given a meaning. *)
Record go_scanner : Type := Scanner { sc_cur : list N; sc_toks : list (list N); sc_err : Z; sc_done : bool }.

Definition go_scan (s : go_scanner) : bool * go_scanner :=
  match sc_toks s with
  | tk :: r => (true, Scanner tk r (sc_err s) (sc_done s))
  | [] => (false, Scanner [] [] (sc_err s) true)
  end.

Definition go_scan_err (s : go_scanner) : Z := if sc_done s then sc_err s else 0%Z.

(* ReadString(delim) of a bufio.Reader: up to and including the first delim; if the input ends
   first, what is left together with the stream's error *)
Fixpoint take_line (d : N) (s : list N) : list N * option (list N) :=
  match s with
  | [] => ([], None)
  | c :: r =>
    if N.eqb c d then ([c], Some r)
    else let '(l, o) := take_line d r in (c :: l, o)
  end.

Definition go_readstring (s : go_stream) (d : N) : list N * Z * go_stream :=
  match take_line d (st_rest s) with
  | (l, Some r) => (l, 0%Z, Stream r (st_term s) None)
  | (l, None) => (l, st_term s, Stream [] (st_term s) None)
  end.

(* strings.TrimSuffix *)
Definition go_trim_suffix (s suf : list N) : list N :=
  if is_prefix (rev suf) (rev s) then rev (skipn (length suf) (rev s)) else s.

(* ---- interface{} holding one of the types the library stores in it -------------------------- *)
Inductive go_any : Type :=
| AnyByte (b : N) | AnyInt (z : Z) | AnyFloat (x : F) | AnyString (s : list N) | AnyBytes (s : list N).

(* sort.Strings: bytewise order *)
Definition go_string_lt (a b : list N) : bool :=
  match bcompare a b with Lt => true | _ => false end.

(* m[k] = v on a map[string]V kept as an association list: replace the entry or add one *)
Fixpoint go_map_set {V} (k : list N) (v : V) (m : list (list N * V)) : list (list N * V) :=
  match m with
  | [] => [(k, v)]
  | (k', v') :: r => if beqb k' k then (k', v) :: r else (k', v') :: go_map_set k v r
  end.

(* snm.At(l, idxs): the elements at the given positions (panics when one is out of range) *)
Fixpoint go_snm_at {A S R} (l : list A) (idxs : list Z) (k : list A -> res S R) : res S R :=
  match idxs with
  | [] => k []
  | i :: r => go_index l i (fun x => go_snm_at l r (fun xs => k (x :: xs)))
  end.

(* m[[2]byte{a, b}] = v on a map with two-byte keys kept as an association list *)
Fixpoint go_map_set2 {V} (k : N * N) (v : V) (m : list ((N * N) * V)) : list ((N * N) * V) :=
  match m with
  | [] => [(k, v)]
  | (k', v') :: r =>
    if (N.eqb (fst k) (fst k') && N.eqb (snd k) (snd k'))%bool then (k, v) :: r else (k', v') :: go_map_set2 k v r
  end.

(* ---- a heap of trie nodes (package trie) ----------------------------------------------------------
   A *Trie is the index of its node in the heap, nil is -1; a node is its map[byte]*Trie as an
   association list from key to address (ascending by key).  Dereferencing nil (or an address outside the heap)
   panics.  New() appends an empty node.  Nothing is ever freed: unlinked nodes stay as garbage. *)
Definition go_tnode : Type := list (N * Z).
Definition go_theap : Type := list go_tnode.

Fixpoint tn_get (k : N) (nd : go_tnode) : Z :=
  match nd with
  | [] => (-1)%Z
  | (k', a) :: r => if N.eqb k' k then a else tn_get k r
  end.

(* m[k] = a: the list is kept ascending by key, so a map has one representation *)
Fixpoint tn_put (k : N) (a : Z) (nd : go_tnode) : go_tnode :=
  match nd with
  | [] => [(k, a)]
  | (k', a') :: r =>
    if N.ltb k k' then (k, a) :: nd
    else if N.eqb k k' then (k, a) :: r
    else (k', a') :: tn_put k a r
  end.

Definition tn_del (k : N) (nd : go_tnode) : go_tnode := filter (fun p => negb (N.eqb (fst p) k)) nd.

Definition go_heap_get {S R} (h : go_theap) (p : Z) (k : N) (c : Z -> res S R) : res S R :=
  go_index h p (fun nd => c (tn_get k nd)).
Definition go_heap_len {S R} (h : go_theap) (p : Z) (c : Z -> res S R) : res S R :=
  go_index h p (fun nd => c (go_len nd)).
Definition go_heap_put {S R} (h : go_theap) (p : Z) (k : N) (a : Z) (c : go_theap -> res S R) : res S R :=
  go_index h p (fun nd => go_set h p (tn_put k a nd) c).
Definition go_heap_del {S R} (h : go_theap) (p : Z) (k : N) (c : go_theap -> res S R) : res S R :=
  go_index h p (fun nd => go_set h p (tn_del k nd) c).

(* strings.HasPrefix *)
Fixpoint go_has_prefix (s p : list N) : bool :=
  match p, s with
  | [], _ => true
  | _ :: _, [] => false
  | c :: p', d :: s' => N.eqb c d && go_has_prefix s' p'
  end.

(* aio.Open(file): whether the file can be opened, and what it holds, is given from outside:
   None is a failing open (some error other than io.EOF), Some s the content as the stream the
   readers work on.  The stream returned with an error is never read. *)
Definition go_open {St} (empty : St) (o : option St) : St * Z :=
  match o with Some s => (s, 0%Z) | None => (empty, 2%Z) end.
