(* Model/Smtext.v — formats/smtext (ReadNCBI, extractSingleChar) and the
   SubstitutionMatrix methods Symmetrical and GoString of package align.
   Executable model; no proofs here.

   Scores are arbitrary float64 values: they are the abstract [F] of Base.v
   (identified by their canonical text); strconv.ParseFloat enters through the
   per-case [foracle].  A Go map[[2]byte]float64 is an association list with
   unique keys; [mset] overwrites in place, as a map assignment does.        *)
From Bio Require Import Base.

Definition key := (byte * byte)%type.
Definition smatrix := list (key * F).

Definition GAP : byte := 255.                        (* align.Gap *)

Definition keqb (k1 k2 : key) : bool := (fst k1 =? fst k2) && (snd k1 =? snd k2).

(* v, ok := m[k] *)
Fixpoint mlookup (k : key) (m : smatrix) : option F :=
  match m with
  | [] => None
  | (k', x) :: r => if keqb k k' then Some x else mlookup k r
  end.

(* m[k] = x *)
Fixpoint mset (k : key) (x : F) (m : smatrix) : smatrix :=
  match m with
  | [] => [(k, x)]
  | (k', y) :: r => if keqb k k' then (k, x) :: r else (k', y) :: mset k x r
  end.

Definition flip (k : key) : key := (snd k, fst k).

(* ---- regexp `\S+`, FindAllString(row, -1) -------------------------------- *)
(* Go's (RE2) \s is [\t\n\f\r ]: VT (11) is not in it, nor is any byte >= 0x80
   (an invalid-UTF-8 byte is matched as U+FFFD, a valid multi-byte rune is
   never a space): the matches are the maximal runs of bytes outside the set. *)
Definition is_space (b : byte) : bool :=
  (b =? 9) || (b =? 10) || (b =? 12) || (b =? 13) || (b =? 32).

(* (the non-space run the string starts with, the later runs) *)
Fixpoint fields_go (s : bytes) : bytes * list bytes :=
  match s with
  | [] => ([], [])
  | c :: r =>
    let (cur, fs) := fields_go r in
    if is_space c then ([], match cur with [] => fs | _ :: _ => cur :: fs end)
    else (c :: cur, fs)
  end.

Definition fields (s : bytes) : list bytes :=
  let (cur, fs) := fields_go s in
  match cur with [] => fs | _ :: _ => cur :: fs end.

(* ---- extractSingleChar ---------------------------------------------------- *)
Definition extract_single_char (s : bytes) : outcome byte :=
  match s with
  | [c] => if c =? 42 then Ok GAP else Ok c        (* "*" -> align.Gap *)
  | _ => Err                                         (* len(s) != 1 *)
  end.

(* ---- ReadNCBI --------------------------------------------------------------- *)
(* bufio.Scanner with the default buffer: a line is delivered only if it fits,
   together with its LF, in MaxScanTokenSize = 65536 bytes; a line (LF
   excluded, CR included) of 65536 or more bytes, terminated or not, makes
   Scan return false with Err() = ErrTooLong, whatever follows.             *)
Definition too_long (p : bytes) : bool := 65536 <=? N.of_nat (length p).

Definition line_items (s : bytes) : list (item bytes) :=
  map (fun p => if too_long p then ErrItem else Rec (drop_cr p))
      (lines_tail (split_on LF s)).

(* the header row: for _, char := range charStrs { b, err := extractSingleChar(char) ... append } *)
Fixpoint header_chars (fs : list bytes) : outcome bytes :=
  match fs with
  | [] => Ok []
  | f :: r =>
    obind (extract_single_char f) (fun b =>
    obind (header_chars r) (fun bs => Ok (b :: bs)))
  end.

(* for i, val := range valStrs[1:] { x, err := ParseFloat(val); m[{c, chars[i]}] = x } *)
Fixpoint set_row (o : foracle) (c : byte) (chars : bytes) (vals : list bytes)
                 (m : smatrix) {struct vals} : outcome smatrix :=
  match vals with
  | [] => Ok m
  | v :: vs =>
    match parseF o v with
    | None => Err
    | Some x =>
      match chars with
      | [] => Panic            (* chars[i] out of range; excluded by the length check *)
      | d :: ds => set_row o c ds vs (mset (c, d) x m)
      end
    end
  end.

Definition read_row (o : foracle) (chars : bytes) (fs : list bytes) (m : smatrix)
  : outcome smatrix :=
  if negb (Nat.eqb (length fs) (S (length chars))) then Err else
  match fs with
  | [] => Panic                (* valStrs[0]; excluded by the length check *)
  | f0 :: vals => obind (extract_single_char f0) (fun c => set_row o c chars vals m)
  end.

(* row == "" || row[0] == '#' *)
Definition skip_line (l : bytes) : bool :=
  match l with [] => true | c :: _ => c =? 35 end.

(* The loop state is (m, chars); `chars == nil` is `chars = []`: a header line
   without any field leaves chars nil and the next line is a header again.  *)
Definition rstate := (smatrix * bytes)%type.

Definition read_line (o : foracle) (l : bytes) (s : rstate) : outcome rstate :=
  if skip_line l then Ok s else
  match snd s with
  | [] => obind (header_chars (fields l)) (fun cs => Ok (fst s, cs))
  | _ :: _ => obind (read_row o (snd s) (fields l) (fst s)) (fun m' => Ok (m', snd s))
  end.

Definition read_step (o : foracle) (acc : outcome rstate) (it : item bytes) : outcome rstate :=
  obind acc (fun s =>
    match it with
    | Rec l => read_line o l s
    | ErrItem => Err           (* Scan() = false, sc.Err() = ErrTooLong *)
    end).

Definition read_ncbi (o : foracle) (s : bytes) (t : term) : outcome smatrix :=
  match fold_left (read_step o) (line_items s) (Ok ([], [])) with
  | Ok (m, _) => match t with TEOF => Ok m | TErr => Err end   (* sc.Err() *)
  | Err => Err
  | Panic => Panic
  end.

(* ---- float64 comparison on canonical texts ------------------------------- *)
Definition is_nanF (x : F) : bool := beqb x [78; 97; 78].            (* "NaN" *)
(* Go's == : NaN differs from everything, 0 == -0, otherwise distinct
   canonical texts are distinct values *)
Definition feq (x y : F) : bool :=
  if is_nanF x || is_nanF y then false
  else beqb x y || (is_zeroF x && is_zeroF y).

(* ---- Symmetrical ------------------------------------------------------------ *)
(* The list order stands for the (unspecified) iteration order of the map. *)
Definition sym_step (m : smatrix) (acc : outcome smatrix) (e : key * F) : outcome smatrix :=
  obind acc (fun res =>
    let k := fst e in
    let v := snd e in
    let res1 := mset k v res in
    if negb (fst k =? snd k) then
      match mlookup (flip k) m with
      | Some v2 => if negb (feq v2 v) then Panic else Ok (mset (flip k) v res1)
      | None => Ok (mset (flip k) v res1)
      end
    else Ok (mset (flip k) v res1)).

Definition symmetrical (m : smatrix) : outcome smatrix :=
  fold_left (sym_step m) m (Ok []).

(* ---- GoString --------------------------------------------------------------- *)
(* bytes.Compare on the two-byte keys *)
Definition key_ltb (k1 k2 : key) : bool :=
  (fst k1 <? fst k2) || ((fst k1 =? fst k2) && (snd k1 <? snd k2)).

Fixpoint insert_entry (e : key * F) (l : smatrix) : smatrix :=
  match l with
  | [] => [e]
  | h :: t => if key_ltb (fst h) (fst e) then h :: insert_entry e t else e :: l
  end.

(* the (key, score) lines GoString prints, in order *)
Definition go_string_entries (m : smatrix) : smatrix :=
  fold_right insert_entry [] m.

(* building a matrix from a list of assignments (composite literal / decoding) *)
Definition matrix_of_entries (es : list (key * F)) : smatrix :=
  fold_left (fun m e => mset (fst e) (snd e) m) es [].
