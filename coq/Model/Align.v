(* Model/Align.v — package align (align.go, global.go, local.go, levenshtein.go).
   Scores are Z (integer-valued matrices; float64 is exact below 2^53).
   The DP table is filled row by row, row-major like the Go loop, and kept as
   the flat list [blocks] that the tracebacks index with the Go index i.
   No proofs here. *)
From Bio Require Import Base.
From Bio.gen Require Import Tables Lev.
Open Scope N_scope.

(* type Step byte: Match = 1, Deletion = 2, Insertion = 3; the zero value of a
   block's step is 0 (no step). *)
Inductive step : Type := SNone | SMatch | SDel | SIns.

Definition step_code (s : step) : Z :=
  match s with SNone => 0 | SMatch => 1 | SDel => 2 | SIns => 3 end%Z.

Definition is_del (s : step) : bool := match s with SDel => true | _ => false end.
Definition is_ins (s : step) : bool := match s with SIns => true | _ => false end.

Definition Gap : byte := 255.

(* SubstitutionMatrix: map[[2]byte]float64 as an association list. *)
Definition matrix := list ((byte * byte) * Z).

(* m.Get(a, b): panics when the pair is not in the matrix. *)
Fixpoint get (m : matrix) (a b : byte) : outcome Z :=
  match m with
  | [] => Panic
  | ((x, y), s) :: r => if (x =? a) && (y =? b) then Ok s else get r a b
  end.

(* Whatever answers Get: a matrix, or the Levenshtein table. *)
Definition scorer := byte -> byte -> outcome Z.

(* type block struct { score float64; step Step } *)
Definition cell := (Z * step)%type.

Open Scope Z_scope.

(* decideOnStep *)
Definition decide (mch del ins : Z) : cell :=
  if (mch >=? del) && (mch >=? ins) then (mch, SMatch)
  else if del >=? ins then (del, SDel)
  else (ins, SIns).

(* Local: if blocks[i].score < 0 { blocks[i] = block{0, 0} };  Global: nothing *)
Definition clamp_none (c : cell) : cell := c.
Definition clamp_local (c : cell) : cell := if fst c <? 0 then (0, SNone) else c.

(* score += m.Get(Gap, Gap) when [cond] *)
Definition add_open (g : scorer) (cond : bool) (s : Z) : outcome Z :=
  if cond then obind (g Gap Gap) (fun o => Ok (s + o)) else Ok s.

(* Row 0 after the corner: cells (0, 1..).  [left] is blocks[i-1].score,
   [first] is bi == 1. *)
Fixpoint row0_tail (g : scorer) (clamp : cell -> cell) (left : Z) (first : bool) (b : bytes)
  : outcome (list cell) :=
  match b with
  | [] => Ok []
  | y :: b' =>
    obind (g Gap y) (fun gy =>
    obind (add_open g first (left + gy)) (fun s =>
    let c := clamp (s, SIns) in
    obind (row0_tail g clamp (fst c) false b') (fun rest => Ok (c :: rest))))
  end.

Definition row0 (g : scorer) (clamp : cell -> cell) (b : bytes) : outcome (list cell) :=
  obind (row0_tail g clamp 0 true b) (fun r => Ok ((0, SNone) :: r)).

(* The middle of a row: [diag] = blocks[i-bn-1], [up] = blocks[i-bn] (paired
   with the byte of b), [left] = blocks[i-1]. *)
Fixpoint row_mid (g : scorer) (clamp : cell -> cell) (x : byte) (diag left : cell)
  (l : list (byte * cell)) : outcome (list cell) :=
  match l with
  | [] => Ok []
  | (y, up) :: l' =>
    obind (g x y) (fun sxy =>
    let mch := fst diag + sxy in
    obind (g x Gap) (fun gx =>
    obind (add_open g (negb (is_del (snd up))) (fst up + gx)) (fun del =>
    obind (g Gap y) (fun gy =>
    obind (add_open g (negb (is_ins (snd left))) (fst left + gy)) (fun ins =>
    let c := clamp (decide mch del ins) in
    obind (row_mid g clamp x up c l') (fun rest => Ok (c :: rest)))))))
  end.

(* Row ai >= 1 from row ai-1.  [first] is ai == 1. *)
Definition next_row (g : scorer) (clamp : cell -> cell) (b : bytes) (first : bool)
  (prev : list cell) (x : byte) : outcome (list cell) :=
  match prev with
  | [] => Panic                               (* unreachable: rows have bn >= 1 cells *)
  | p0 :: ups =>
    obind (g x Gap) (fun gx =>
    obind (add_open g first (fst p0 + gx)) (fun s =>
    let c0 := clamp (s, SDel) in
    obind (row_mid g clamp x p0 c0 (combine b ups)) (fun rest => Ok (c0 :: rest))))
  end.

(* All rows after [prev], in order. *)
Fixpoint rows_from (g : scorer) (clamp : cell -> cell) (b : bytes) (first : bool)
  (prev : list cell) (a : bytes) : outcome (list (list cell)) :=
  match a with
  | [] => Ok []
  | x :: a' =>
    obind (next_row g clamp b first prev x) (fun r =>
    obind (rows_from g clamp b false r a') (fun rest => Ok (r :: rest)))
  end.

(* blocks, row-major, as a list of an rows of bn cells. *)
Definition table (g : scorer) (clamp : cell -> cell) (a b : bytes) : outcome (list (list cell)) :=
  obind (row0 g clamp b) (fun r0 =>
  obind (rows_from g clamp b true r0 a) (fun rest => Ok (r0 :: rest))).

Definition blocks_of (g : scorer) (clamp : cell -> cell) (a b : bytes) : outcome (list cell) :=
  obind (table g clamp a b) (fun t => Ok (concat t)).

(* one traceback move: the new index *)
Definition move (bn i : Z) (s : step) : Z :=
  match s with
  | SMatch => i - (bn + 1)
  | SDel => i - bn
  | SIns => i - 1
  | SNone => i                       (* no case of the switch applies *)
  end.

(* traceAlignmentSteps: for i > 0 {...}; if i < 0 { panic("bad i") }.
   The steps are consed, which is the final reversal.  Every move with a real
   step decreases i, so [length blocks] iterations suffice; a block with step 0
   at i > 0 would make the Go loop spin forever: fuel runs out, Panic. *)
Fixpoint trace_g (fuel : nat) (blocks : list cell) (bn i : Z) (acc : list step)
  : outcome (list step) :=
  if i <=? 0 then (if i <? 0 then Panic else Ok acc)
  else match fuel with
       | O => Panic
       | S f =>
         match nth_error blocks (Z.to_nat i) with
         | None => Panic                      (* index out of range *)
         | Some (_, st) => trace_g f blocks bn (move bn i st) (st :: acc)
         end
       end.

Definition last_score (blocks : list cell) : outcome Z :=
  match nth_error blocks (Nat.pred (length blocks)) with
  | Some c => Ok (fst c)
  | None => Panic
  end.

(* Global(a, b, m) *)
Definition global_g (g : scorer) (a b : bytes) : outcome (list step * Z) :=
  obind (blocks_of g clamp_none a b) (fun blocks =>
  let bn := Z.of_nat (length b) + 1 in
  obind (trace_g (length blocks) blocks bn (Z.of_nat (length blocks) - 1) []) (fun steps =>
  obind (last_score blocks) (fun s => Ok (steps, s)))).

Definition global (m : matrix) (a b : bytes) : outcome (list step * Z) := global_g (get m) a b.

(* argmax: the first index holding the maximum (strict >). *)
Fixpoint argmax_from (l : list cell) (idx imax : Z) (best : Z) : Z * Z :=
  match l with
  | [] => (imax, best)
  | c :: r => if fst c >? best then argmax_from r (idx + 1) idx (fst c)
              else argmax_from r (idx + 1) imax best
  end.

Definition argmax (blocks : list cell) : Z * Z :=
  match blocks with
  | [] => (0, 0)                                (* unreachable: an*bn >= 1 *)
  | c :: _ => argmax_from blocks 0 0 (fst c)
  end.

(* the loop of traceAlignmentStepsLocal; returns (steps, last) *)
Fixpoint trace_l (fuel : nat) (blocks : list cell) (bn i last : Z) (acc : list step)
  : outcome (list step * Z) :=
  if i <=? 0 then (if i <? 0 then Panic else Ok (acc, last))
  else match fuel with
       | O => Panic
       | S f =>
         match nth_error blocks (Z.to_nat i) with
         | None => Panic
         | Some (s, st) =>
           if s <? 0 then Panic                 (* "bad score" *)
           else if s =? 0 then Ok (acc, last)   (* break; i > 0 here *)
           else trace_l f blocks bn (move bn i st) i (st :: acc)
         end
       end.

(* Local(a, b, m): (steps, ai, bi, score) *)
Definition local_g (g : scorer) (a b : bytes) : outcome (list step * Z * Z * Z) :=
  obind (blocks_of g clamp_local a b) (fun blocks =>
  let bn := Z.of_nat (length b) + 1 in
  let '(imax, smax) := argmax blocks in
  obind (trace_l (length blocks) blocks bn imax imax []) (fun '(steps, last) =>
  let '(steps, i, score) := if smax =? 0 then ([], 0, 0) else (steps, last, smax) in
  Ok (steps, Z.quot i bn - 1, Z.rem i bn - 1, score))).

Definition local (m : matrix) (a b : bytes) : outcome (list step * Z * Z * Z) := local_g (get m) a b.

(* ---- shipped matrices (gen/Tables.v, gen/Lev.v) --------------------------- *)
Close Scope Z_scope.

(* align.Levenshtein as generated: 256 rows of 256; 99 = missing, 98 = non-integral. *)
Definition lev_get : scorer := fun a b =>
  match nth_error lev_tab (N.to_nat a) with
  | Some row => match nth_error row (N.to_nat b) with
                | Some z => if (z =? 99)%Z || (z =? 98)%Z then Panic else Ok z
                | None => Panic
                end
  | None => Panic
  end.

Definition shipped (name : bytes) : option scorer :=
  let is s := beqb name s in
  if is [112;97;109;49;50;48] then Some (get pam120_tab)               (* "pam120" *)
  else if is [112;97;109;49;54;48] then Some (get pam160_tab)          (* "pam160" *)
  else if is [112;97;109;50;53;48] then Some (get pam250_tab)          (* "pam250" *)
  else if is [98;108;111;115;117;109;52;53] then Some (get blosum45_tab) (* "blosum45" *)
  else if is [98;108;111;115;117;109;54;50] then Some (get blosum62_tab) (* "blosum62" *)
  else if is [98;108;111;115;117;109;56;48] then Some (get blosum80_tab) (* "blosum80" *)
  else if is [108;101;118] then Some lev_get                           (* "lev" *)
  else None.
