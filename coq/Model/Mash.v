(* Model/Mash.v — package mash (mash.go) over gostuff's minhash.MinHash[uint64]
   (minhash/minhash.go of github.com/fluhus/gostuff v1.0.1) and sequtil's
   CanonicalSubsequences (Model/Seq.v [canon]).  No proofs here.

   The hash function (murmur3.Sum64WithSeed with mash.Seed) is abstract: a
   Section variable [h : bytes -> option N]; [None] means "the harness did not
   supply the value" and makes the model answer Panic, so that a gap in the
   table of a correspondence case is visible.  The theorems instantiate it
   with [fun b => Some (h b)] for an arbitrary total [h].

   A MinHash is modelled by its capacity and the values it holds as a strictly
   descending list (what View() returns after Sort()).  Inside gostuff the
   values live in a max-heap next to a set; which array layout the heap has
   between two calls of Sort is gostuff's business and is not observable
   through Sequences / Add / View-after-Sort / Jaccard: Push only asks the heap
   for its length, its maximum (Head), Pop of the maximum and Push, and Add
   always ends with Sort. *)
From Bio Require Import Base.
From Bio.Model Require Import Seq.

Record minhash : Type := { mh_k : Z; mh_vals : list N }.

(* minhash.New: panics for k < 1 *)
Definition mh_new (n : Z) : outcome minhash :=
  if (n <? 1)%Z then Panic else Ok {| mh_k := n; mh_vals := [] |}.

(* heap Push followed (eventually) by Sort, for a value that is not present *)
Fixpoint insert_desc (x : N) (l : list N) : list N :=
  match l with
  | [] => [x]
  | y :: r => if y <? x then x :: l else y :: insert_desc x r
  end.

(* MinHash.Push (the returned bool and the call counter n are not observable
   through package mash):
     if h.Len() == k && x >= h.Head() { return }      -- too large
     if s.Has(x) { return }
     if h.Len() == k { s.Remove(h.Pop()) }
     h.Push(x); s.Add(x)                                                     *)
Definition push (n : Z) (x : N) (l : list N) : outcome (list N) :=
  if (Z.of_nat (length l) =? n)%Z then
    match l with
    | [] => Panic              (* Head() of an empty heap; needs k = 0, which New refuses *)
    | hd :: tl =>
      if hd <=? x then Ok l
      else if memb x l then Ok l
      else Ok (insert_desc x tl)
    end
  else if memb x l then Ok l
  else Ok (insert_desc x l).

(* slices.IsSortedFunc(a, snm.CompareReverse): no a[i-1] < a[i] *)
Fixpoint sorted_desc (l : list N) : bool :=
  match l with
  | x :: r => match r with
              | y :: _ => negb (x <? y) && sorted_desc r
              | [] => true
              end
  | [] => true
  end.

(* The loop of minhash.intersect.  The Go code walks both descending slices
   from their END (i, j start at len-1 and go down): [ra], [rb] are the
   unvisited prefixes a[0..i], b[0..j] reversed, i.e. ascending with the
   element under the pointer first.
     for ; i >= 0 && j >= 0 && m < k; m++ {
       if a[i] > b[j] { j-- } else if a[i] < b[j] { i-- } else { intersection++; i--; j-- } }
   Every round removes an element of [ra] or [rb]: fuel |a|+|b| suffices.   *)
Fixpoint isect_loop (fuel : nat) (k : Z) (ra rb : list N) (m inter : Z)
  : outcome (list N * list N * Z * Z) :=
  match ra, rb with
  | x :: ra', y :: rb' =>
    if (m <? k)%Z then
      match fuel with
      | O => Panic
      | S f =>
        if y <? x then isect_loop f k ra rb' (m + 1)%Z inter
        else if x <? y then isect_loop f k ra' rb (m + 1)%Z inter
        else isect_loop f k ra' rb' (m + 1)%Z (inter + 1)%Z
      end
    else Ok (ra, rb, m, inter)
  | _, _ => Ok (ra, rb, m, inter)
  end.

(* minhash.intersect of a receiver with capacity k holding a, and another
   collection holding b:  (intersection, union := min(k, m+len(a)-i+len(b)-j)),
   where i, j are the final pointers (length of the unvisited part minus 1). *)
Definition intersect (a b : list N) (k : Z) : outcome (Z * Z) :=
  if negb (sorted_desc a) then Panic          (* "receiver is not sorted" *)
  else if negb (sorted_desc b) then Panic     (* "other is not sorted" *)
  else
    match isect_loop (length a + length b) k (rev a) (rev b) 0%Z 0%Z with
    | Ok (ra, rb, m, inter) =>
      let i := (Z.of_nat (length ra) - 1)%Z in
      let j := (Z.of_nat (length rb) - 1)%Z in
      Ok (inter, Z.min k (m + Z.of_nat (length a) - i + Z.of_nat (length b) - j))
    | _ => Panic
    end.

(* mh.Jaccard(other) = float64(i)/float64(u): the model returns the pair; the
   float64 division is looked up in a table supplied with the case. *)
Definition jaccard_pair (mh other : minhash) : outcome (Z * Z) :=
  intersect (mh_vals mh) (mh_vals other) (mh_k mh).

Definition pair_lookup {B} (i u : Z) (t : list ((Z * Z) * B)) : option B :=
  match find (fun e => (fst (fst e) =? i)%Z && (snd (fst e) =? u)%Z) t with
  | Some e => Some (snd e)
  | None => None
  end.

Definition jaccard (divtab : list ((Z * Z) * F)) (mh other : minhash) : outcome F :=
  match jaccard_pair mh other with
  | Ok (i, u) => match pair_lookup i u divtab with Some f => Ok f | None => Panic end
  | _ => Panic
  end.

Section Hash.
Variable h : bytes -> option N.

(* h.Reset(); h.Write(b); mh.Push(h.Sum64()) *)
Definition push_kmer (n : Z) (acc : outcome (list N)) (b : bytes) : outcome (list N) :=
  obind acc (fun l => match h b with Some x => push n x l | None => Panic end).

(* for b := range sequtil.CanonicalSubsequences(bytes.ToUpper(seq), k) { ... }
   bytes.ToUpper: on ASCII input a..z -> A..Z ([upper_byte]).  On input with a
   byte >= 128 it decodes UTF-8 and maps runes; whatever it produces contains a
   byte outside aAcCgGtTnN (a byte >= 128, or 'I' / 'S' for U+0131 / U+017F,
   the only non-ASCII runes whose upper case is ASCII), so ReverseComplement
   panics.  [upper_byte] leaves bytes >= 128 alone and [canon] panics on them:
   same outcome. *)
Definition add_seq (n : Z) (k : Z) (acc : outcome (list N)) (s : bytes) : outcome (list N) :=
  obind acc (fun l =>
    match canon (map upper_byte s) k with
    | Ok ks => fold_left (push_kmer n) ks (Ok l)
    | _ => Panic
    end).

(* mash.Add: all sequences, then mh.Sort() (the identity on the sorted list) *)
Definition add (mh : minhash) (k : Z) (seqs : list bytes) : outcome minhash :=
  match fold_left (add_seq (mh_k mh) k) seqs (Ok (mh_vals mh)) with
  | Ok l => Ok {| mh_k := mh_k mh; mh_vals := l |}
  | _ => Panic
  end.

(* mash.Sequences *)
Definition sequences_mh (n k : Z) (seqs : list bytes) : outcome minhash :=
  obind (mh_new n) (fun mh => add mh k seqs).

(* Sequences(n,k,seqs...).View() *)
Definition sequences (n k : Z) (seqs : list bytes) : outcome (list N) :=
  obind (sequences_mh n k seqs) (fun mh => Ok (mh_vals mh)).

(* Sequences on the first batch, then one Add per further batch; View() *)
Definition add_batches (mh : minhash) (k : Z) (batches : list (list bytes)) : outcome minhash :=
  fold_left (fun acc b => obind acc (fun m => add m k b)) batches (Ok mh).

Definition incremental (n k : Z) (batches : list (list bytes)) : outcome (list N) :=
  match batches with
  | [] => Panic
  | b :: rest =>
    obind (sequences_mh n k b) (fun mh =>
    obind (add_batches mh k rest) (fun mh' => Ok (mh_vals mh')))
  end.

(* mh1 := Sequences(nA,k,seqsA); mh2 := Sequences(nB,k,seqsB); mh1.Jaccard(mh2) *)
Definition sketch_jaccard_pair (nA nB k : Z) (seqsA seqsB : list bytes) : outcome (Z * Z) :=
  obind (sequences_mh nA k seqsA) (fun a =>
  obind (sequences_mh nB k seqsB) (fun b => jaccard_pair a b)).

Definition sketch_jaccard (divtab : list ((Z * Z) * F)) (nA nB k : Z) (seqsA seqsB : list bytes) : outcome F :=
  obind (sequences_mh nA k seqsA) (fun a =>
  obind (sequences_mh nB k seqsB) (fun b => jaccard divtab a b)).

End Hash.

(* The canonical upper-cased k-mers of all sequences, in iteration order. *)
Fixpoint kmers (k : Z) (seqs : list bytes) : outcome (list bytes) :=
  match seqs with
  | [] => Ok []
  | s :: r =>
    match canon (map upper_byte s) k, kmers k r with
    | Ok a, Ok b => Ok (a ++ b)
    | _, _ => Panic
    end
  end.
