(* Model/GoLib.v — standard-library functions that the translated code (gen/ImpGen.v)
   calls and that return (value, error): strconv.Atoi is Base.atoi, and
   strconv.ParseUint(s, 0, 8) is the model written for it in Model/Bed.v (validated against
   the implementation by its own correspondence kind).  The error is a bool (true: non-nil);
   the value next to an error is 0, as in Go.  No proofs here. *)
From Bio Require Import Base.
From Bio.Model Require Bed.

Definition go_atoi (s : list N) : Z * bool :=
  match atoi s with Some z => (z, false) | None => (0%Z, true) end.

Definition go_parse_uint_0_8 (s : list N) : Z * bool :=
  match Bed.parse_uint8 s with Some n => (Z.of_N n, false) | None => (0%Z, true) end.

(* the same with the error as a code (0 nil, 2 an error), for packages translated with
   error codes because they compare errors with io.EOF *)
Definition go_atoi_z (s : list N) : Z * Z :=
  match atoi s with Some z => (z, 0%Z) | None => (0%Z, 2%Z) end.

Definition go_parse_uint_0_8_z (s : list N) : Z * Z :=
  match Bed.parse_uint8 s with Some n => (Z.of_N n, 0%Z) | None => (0%Z, 2%Z) end.

From Bio.Model Require Sam.
(* encoding/hex *)
Definition go_hex_encode (l : list N) : list N := Sam.hex_encode l.
Definition go_hex_decode (s : list N) : list N * bool :=
  match Sam.hex_decode s with Some l => (l, false) | None => ([], true) end.

(* strconv.ParseFloat through the float oracle (Base.parseF): a float is its canonical text *)
Definition go_parse_float (o : foracle) (s : list N) : F * bool :=
  match parseF o s with Some x => (x, false) | None => ([48%N], true) end.

From Bio.Model Require Smtext.
(* regexp.MustCompile(`\S+`).FindAllString(s, -1): the maximal runs of non-space bytes *)
Definition go_fields (s : list N) : list (list N) := Smtext.fields s.
Definition go_parse_float_z (o : foracle) (s : list N) : F * Z :=
  match parseF o s with Some x => (x, 0%Z) | None => ([48%N], 2%Z) end.

(* == on float64 values given by their canonical texts (NaN differs from everything, 0 == -0) *)
Definition go_feq (x y : F) : bool := Smtext.feq x y.
