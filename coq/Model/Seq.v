(* Model/Seq.v — package sequtil (sequtil.go, amino.go) over the tables that
   gen/Tables.v reads out of the implementation on every run.
   No proofs here. *)
From Bio Require Import Base.
From Bio.gen Require Import Tables.

Definition tab_get {A} (t : list A) (b : byte) : option A := nth_error t (N.to_nat b).

(* ---- complementByte, ReverseComplement, ReverseComplementString -------- *)
(* complementBytes[b] == 0 -> panic *)
Definition comp (b : byte) : option byte :=
  match tab_get complement_tab b with Some (Some c) => Some c | _ => None end.

(* for i := len(src)-1 .. 0 { dst = append(dst, complementByte(src[i])) } *)
Definition rc (dst src : bytes) : outcome bytes :=
  match all_some (map comp (rev src)) with
  | Some l => Ok (dst ++ l)
  | None => Panic
  end.

Definition rc_string (s : bytes) : outcome bytes := rc [] s.

(* ---- Ntoi / Iton ------------------------------------------------------- *)
Definition ntoi (b : byte) : Z :=
  match tab_get ntoi_tab b with Some z => z | None => (-1)%Z end.

Definition iton (i : Z) : byte :=
  match find (fun p => Z.eqb (fst p) i) iton_tab with
  | Some p => snd p
  | None => iton_default
  end.

(* ---- DNATo2Bit --------------------------------------------------------- *)
Definition code (b : byte) : option N :=
  let z := ntoi b in if (z <? 0)%Z then None else Some (Z.to_N z).

(* State: the bytes appended so far, most recent first, and the index i. *)
Definition to2bit_step (st : outcome (bytes * N)) (b : byte) : outcome (bytes * N) :=
  obind st (fun '(acc, i) =>
    let shift := 6 - 2 * (i mod 4) in
    let acc1 := if shift =? 6 then 0 :: acc else acc in   (* starting a new byte *)
    match code b with
    | None => Panic
    | Some c =>
      match acc1 with
      | [] => Panic                                       (* unreachable *)
      | cur :: rest => Ok (N.lor cur (N.shiftl c shift) :: rest, i + 1)
      end
    end).

Definition to2bit (dst src : bytes) : outcome bytes :=
  match fold_left to2bit_step src (Ok ([], 0)) with
  | Ok (acc, _) => Ok (dst ++ rev acc)
  | Err => Err
  | Panic => Panic
  end.

(* ---- DNAFrom2Bit ------------------------------------------------------- *)
Definition from2bit_byte (b : byte) : option bytes := tab_get from2bit_tab b.

Definition from2bit (dst src : bytes) : outcome bytes :=
  match all_some (map from2bit_byte src) with
  | Some ls => Ok (dst ++ concat ls)
  | None => Panic                                         (* not a byte *)
  end.

(* ---- CanonicalSubsequences --------------------------------------------- *)
Definition slice (s : bytes) (from len : nat) : bytes := firstn len (skipn from s).

Definition canon_at (s rcs : bytes) (k i : nat) : bytes :=
  let kmer := slice s i k in
  let kmer_rc := slice rcs (length rcs - i - k)%nat k in
  match bcompare kmer kmer_rc with Gt => kmer_rc | _ => kmer end.

(* The items of the iterator, or Panic (bad base; negative k). *)
Definition canon (s : bytes) (k : Z) : outcome (list bytes) :=
  match rc [] s with
  | Ok rcs =>
    if (k <? 0)%Z then Panic
    else
      let kn := Z.to_nat k in
      let nk := (S (length s) - kn)%nat in
      Ok (map (canon_at s rcs kn) (seq 0 nk))
  | _ => Panic
  end.

(* ---- Translate, TranslateReadingFrames, AminoName ---------------------- *)
(* if buf[j] >= 'a' { buf[j] -= 'a' - 'A' } *)
Definition go_upper (b : byte) : byte := if 97 <=? b then b - 32 else b.

Definition codon_lookup (a b c : byte) : option byte :=
  match find (fun e => match e with (x, y, z, _) => (x =? a) && (y =? b) && (z =? c) end) codon_tab with
  | Some (_, _, _, aa) => Some aa
  | None => None
  end.

Fixpoint translate_codons (src : bytes) : outcome bytes :=   (* length already a multiple of 3 *)
  match src with
  | a :: b :: c :: rest =>
    match codon_lookup (go_upper a) (go_upper b) (go_upper c) with
    | Some aa => match translate_codons rest with Ok l => Ok (aa :: l) | o => o end
    | None => Panic
    end
  | [] => Ok []
  | _ => Panic
  end.

Definition translate (dst src : bytes) : outcome bytes :=
  if (N.of_nat (length src)) mod 3 =? 0
  then match translate_codons src with Ok l => Ok (dst ++ l) | o => o end
  else Panic.

(* sub := seq[min(i,len):]; sub = sub[:len(sub)/3*3] *)
Definition frame (s : bytes) (i : nat) : bytes :=
  let sub := skipn (Nat.min i (length s)) s in
  firstn (length sub / 3 * 3)%nat sub.

Definition frames (s : bytes) : outcome (list bytes) :=
  match translate [] (frame s 0), translate [] (frame s 1), translate [] (frame s 2) with
  | Ok a, Ok b, Ok c => Ok [a; b; c]
  | _, _, _ => Panic
  end.

(* AminoName is read out for all 256 bytes: Some (code, name) or None = panic. *)
Definition amino_name (b : byte) : outcome (bytes * bytes) :=
  match tab_get amino_tab b with
  | Some (Some names) => Ok names
  | _ => Panic
  end.
