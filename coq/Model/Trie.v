(* Model/Trie.v — executable model; no proofs here. *)
From Bio Require Import Base.
