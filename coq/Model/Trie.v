(* Model/Trie.v — package trie (trie.go).  Executable model; no proofs here.

   A Go [*Trie] is a node holding [map[byte]*Trie].  The model node is the list of
   its (key, child) pairs kept strictly ascending by key, so that two nodes are
   equal exactly when the Go maps have the same contents (a map has no order; the
   only place where Go's iteration order shows is the order in which ForEach
   reports, which the property treats as a multiset).  The mutation-through-
   pointers of the Go code becomes "rebuild the spine": after a child was mutated
   the parent maps the same key to the new child. *)
From Coq Require Import String.
From Bio Require Import Base.

Inductive trie : Type := T (children : list (byte * trie)).

Definition children (t : trie) : list (byte * trie) := match t with T l => l end.

(* New() *)
Definition empty : trie := T [].

(* ---- a Go map with byte keys: ascending association list ----------------- *)
Section Map.
  Context {V : Type}.

  (* m[k] (None = the zero value nil) *)
  Fixpoint mget (k : byte) (l : list (byte * V)) : option V :=
    match l with
    | [] => None
    | (k', v) :: r => if k' =? k then Some v else mget k r
    end.

  (* m[k] = v *)
  Fixpoint mset (k : byte) (v : V) (l : list (byte * V)) : list (byte * V) :=
    match l with
    | [] => [(k, v)]
    | (k', v') :: r =>
      if k <? k' then (k, v) :: l
      else if k =? k' then (k, v) :: r
      else (k', v') :: mset k v r
    end.

  (* delete(m, k) *)
  Fixpoint mdel (k : byte) (l : list (byte * V)) : list (byte * V) :=
    match l with
    | [] => []
    | (k', v') :: r => if k' =? k then r else (k', v') :: mdel k r
    end.
End Map.

Definition is_nil {A} (l : list A) : bool := match l with [] => true | _ => false end.

(* ---- Add ----------------------------------------------------------------- *)
(* for len(b) > 0 { next := cur.m[b[0]]; if next == nil { next = New(); cur.m[b[0]] = next }
                    cur = next; b = b[1:] } *)
Fixpoint add (b : bytes) (t : trie) : trie :=
  match b with
  | [] => t
  | k :: b' =>
    match t with
    | T l =>
      let next := match mget k l with Some c => c | None => empty end in
      T (mset k (add b' next) l)
    end
  end.

(* ---- Has ----------------------------------------------------------------- *)
(* for len(b) > 0 { next := cur.m[b[0]]; if next == nil { return false }; cur = next; b = b[1:] }
   return true *)
Fixpoint has (b : bytes) (t : trie) : bool :=
  match b with
  | [] => true
  | k :: b' =>
    match mget k (children t) with
    | None => false
    | Some c => has b' c
    end
  end.

(* ---- Delete -------------------------------------------------------------- *)
(* First loop: stack[i] = cur; cur = cur.m[b[i]]; if cur == nil { return false }.
   The model stack is deepest-first and carries b[i] next to stack[i]. *)
Fixpoint build_stack (cur : trie) (b : bytes) (acc : list (trie * byte))
  : option (list (trie * byte)) :=
  match b with
  | [] => Some acc
  | k :: b' =>
    match mget k (children cur) with
    | None => None
    | Some c => build_stack c b' ((cur, k) :: acc)
    end
  end.

(* The loop has stopped at a node that keeps other children: its ancestors see the
   mutated node through their pointers. *)
Fixpoint rebuild (n : trie) (st : list (trie * byte)) : trie :=
  match st with
  | [] => n
  | (T l, k) :: rest => rebuild (T (mset k n l)) rest
  end.

(* Second loop: for i := len(stack)-1; i >= 0; i-- { delete(stack[i].m, b[i]);
                 if len(stack[i].m) > 0 { break } }
   [root] is what the trie is when the stack is empty (Delete of the empty
   sequence removes nothing). *)
Fixpoint prune (st : list (trie * byte)) (root : trie) : trie :=
  match st with
  | [] => root
  | (T l, k) :: rest =>
    let l' := mdel k l in
    if is_nil l' && negb (is_nil rest)
    then prune rest root                  (* childless, not the root: go on upwards *)
    else rebuild (T l') rest              (* break, or i reached 0 *)
  end.

Definition delete (b : bytes) (t : trie) : trie * bool :=
  match build_stack t b [] with
  | None => (t, false)
  | Some st => (prune st t, true)
  end.

(* ---- ForEach ------------------------------------------------------------- *)
(* The explicit stack of forEachStep{t, keys, i}: keys are the node's keys in the
   model's (ascending) order, so a step is the node and the index i.  [rcur] is
   the current sequence reversed; [out] the reports so far, most recent first.
   The callback is "continue until the p-th report" (p = 0: never stop).
   One unit of fuel per iteration of the Go [for] loop. *)
Fixpoint fe_loop (fuel : nat) (p : nat) (stack : list (trie * nat)) (rcur : bytes)
         (out : list bytes) : outcome (list bytes) :=
  match fuel with
  | O => Panic
  | S fuel' =>
    match stack with
    | [] => Panic                                              (* unreachable *)
    | (T l, i) :: rest =>
      (* if len(step.t.m) == 0 { if len(cur) > 0 && !f(cur) { break } } *)
      let report := is_nil l && negb (is_nil rcur) in
      let out' := if report then rev rcur :: out else out in
      if report && Nat.eqb (length out') p then Ok (rev out')
      else if Nat.eqb i (length l) then
        (* finished with this branch *)
        match rest with
        | [] => Ok (rev out')
        | _ => fe_loop fuel' p rest (tl rcur) out'
        end
      else
        (* handle next child *)
        match nth_error l i with
        | Some (key, child) => fe_loop fuel' p ((child, O) :: (T l, S i) :: rest) (key :: rcur) out'
        | None => Panic                                        (* unreachable *)
        end
    end
  end.

(* number of nodes *)
Fixpoint size (t : trie) : nat :=
  match t with T l => S (fold_right (fun kc n => (size (snd kc) + n)%nat) O l) end.

(* every node is on top of the stack once per child plus once: 2*size - 1 iterations *)
Definition for_each_until (p : nat) (t : trie) : outcome (list bytes) :=
  fe_loop (2 * size t) p [(t, O)] [] [].

Definition for_each (t : trie) : outcome (list bytes) := for_each_until O t.

(* ---- MarshalJSON / UnmarshalJSON ----------------------------------------- *)
(* The object tree that encoding/json is handed / hands back; the JSON text
   (quoting, key order in the text, whitespace) is encoding/json's. *)
Inductive jvalue : Type := JObj (fields : list (bytes * jvalue)).

Definition m_name : bytes := [109].     (* the field tag `json:"m"` *)

(* marshalTrie{t.m}: a map[byte]*Trie is an object whose keys are the decimal
   texts of the byte keys and whose values are the children's MarshalJSON. *)
Fixpoint to_json (t : trie) : jvalue :=
  match t with
  | T l => JObj [(m_name, JObj (map (fun kc => (itoa (Z.of_N (fst kc)), to_json (snd kc))) l))]
  end.

(* a map key of type uint8: strconv.ParseUint(key, 10, 8) *)
Definition parse_key (s : bytes) : option byte :=
  match parse_digits s with
  | Some z => if (z <? 256)%Z then Some (Z.to_N z) else None
  | None => None
  end.

(* Unmarshal into marshalTrie{M: empty map}: each member of "m" allocates a fresh
   Trie, unmarshals the value into it ([dec]) and stores it under the parsed key
   (a repeated key overwrites). *)
Section Fields.
  Variable dec : jvalue -> option trie.
  Fixpoint of_fields (kvs : list (bytes * jvalue)) (acc : list (byte * trie))
    : option (list (byte * trie)) :=
    match kvs with
    | [] => Some acc
    | (ks, v) :: r =>
      match parse_key ks, dec v with
      | Some k, Some c => of_fields r (mset k c acc)
      | _, _ => None
      end
    end.
End Fields.

(* Objects of any other shape than MarshalJSON's are outside the modelled
   domain: None. *)
Fixpoint of_json (j : jvalue) : option trie :=
  match j with
  | JObj [(name, JObj kvs)] =>
    if beqb name m_name then
      match of_fields of_json kvs [] with Some l => Some (T l) | None => None end
    else None
  | _ => None
  end.

(* ---- histories ------------------------------------------------------------ *)
Inductive op : Type := OAdd (b : bytes) | ODel (b : bytes).

(* the new trie and what the call returned (Add returns nothing) *)
Definition apply_op (o : op) (t : trie) : trie * option bool :=
  match o with
  | OAdd b => (add b t, None)
  | ODel b => let (t', r) := delete b t in (t', Some r)
  end.

Fixpoint run (ops : list op) (t : trie) : trie * list (option bool) :=
  match ops with
  | [] => (t, [])
  | o :: r =>
    let (t1, res) := apply_op o t in
    let (t2, rs) := run r t1 in
    (t2, res :: rs)
  end.
