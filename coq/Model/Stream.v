(* Model/Stream.v — failing writers / delivery configurations shared by C06 and C07; no proofs. *)
From Bio Require Import Base.
