(* Model/Stream.v — failing writers / delivery configurations shared by C06 and
   C07; no proofs.

   Readers.  Every format model already has the shape
       decode : (delivered bytes) -> (terminal condition) -> items
   (DESIGN.md section 3, "Input streams"): the buffered-reader contracts of
   Base.v (ReadByte/UnreadByte, Scanner+ScanLines = [scan_tokens], ReadString =
   [rs_lines]) see the stream only as "the bytes in order, then the terminal
   condition once".  How the io.Reader cut the bytes into Read results (the
   schedule) is therefore not an input of any model function: [of_schedule]
   below forgets it.  That the implementation really reaches the bytes only
   through those contracts is what the C06 correspondence run tests.

   Writers.  A Write method is the list of chunks it hands to the io.Writer
   (one per Fprintf / Write call); [limit_write k] is helpers.go's limitWriter:
   it accepts k bytes in total, writes the first chunk that does not fit
   partially and returns the error, after which the Write method returns at
   once (every Fprintf result is checked). *)
From Bio Require Import Base.
From Bio.Model Require Fasta Fastq Sam Bed Newick.

(* ------------------------------------------------------------------ *)
(* schedules                                                            *)

(* A schedule is the list of the successive Read results (a [] is a
   zero-length read).  What the buffered readers hand on is their
   concatenation. *)
Definition of_schedule (cs : list bytes) : bytes := concat cs.

(* ------------------------------------------------------------------ *)
(* a writer that starts failing after k bytes                           *)

(* result of the Write method (Ok tt: every call was accepted; Err: some call
   returned the error) and the bytes that reached the writer *)
Fixpoint limit_write (k : nat) (calls : list bytes) : outcome unit * bytes :=
  match calls with
  | [] => (Ok tt, [])
  | c :: r =>
    if (length c <=? k)%nat then
      let '(o, out) := limit_write (k - length c) r in (o, c ++ out)
    else (Err, firstn k c)                  (* len(buf)+len(p) > limit *)
  end.

Definition write_to_fasta (k : nat) (r : Fasta.fasta) : outcome unit * bytes :=
  limit_write k (Fasta.write_calls r).

Definition write_to_fastq (k : nat) (r : Fastq.fastq) : outcome unit * bytes :=
  limit_write k (Fastq.write_calls r).

Definition write_to_sam (o : foracle) (k : nat) (r : Sam.sam) : outcome unit * bytes :=
  limit_write k (Sam.write_calls o r).

(* BED.Write refuses N outside 3..12 before it touches the writer *)
Definition write_to_bed (k : nat) (b : Bed.bed) : outcome unit * bytes :=
  match Bed.write_calls b with
  | Ok cs => limit_write k cs
  | Err => (Err, [])
  | Panic => (Panic, [])
  end.

Definition write_to_newick (o : foracle) (k : nat) (t : Newick.tree) : outcome unit * bytes :=
  limit_write k (Newick.write_chunks o t).

(* ------------------------------------------------------------------ *)
(* File(path)                                                           *)

(* File = aio.Open + Reader + deferred Close.  [opened]: whether os.Open
   succeeded; if not, the iterator yields exactly one error and stops.
   [gz]: the path ends in ".gz" and aio wraps the file in a gzip reader.
   Compression is an abstract lossless transport here: a file named *.gz whose
   *content* (what gzip decompresses to) is [content] delivers [content]; so
   the model is the identity on the content whatever [gz] is.  (That Go's
   gzip writer/reader pair is lossless is compress/gzip's contract; the C06
   correspondence run exercises it on every case with mode 1.)  A regular file
   ends with a clean EOF. *)
Definition file_run {R : Type} (open_error : R) (opened gz : bool)
    (dec : bytes -> term -> R) (content : bytes) : R :=
  if opened then dec (if gz then content else content) TEOF else open_error.

Definition file_items {A : Type} (opened gz : bool)
    (dec : bytes -> term -> list (item A)) (content : bytes) : list (item A) :=
  file_run [ErrItem] opened gz dec content.

(* ------------------------------------------------------------------ *)
(* CRLF line terminators                                                *)

(* every LF replaced by CR LF *)
Fixpoint crlf (s : bytes) : bytes :=
  match s with
  | [] => []
  | c :: r => if c =? LF then CR :: LF :: crlf r else c :: crlf r
  end.

(* ------------------------------------------------------------------ *)
(* files of records, as the writers produce them (the well-formed inputs
   of C06's CRLF clause and of C07's fault clause)                      *)

Definition fasta_file (rs : list Fasta.fasta) : bytes := concat (map Fasta.write rs).
Definition fastq_file (rs : list Fastq.fastq) : bytes := concat (map Fastq.write rs).
Definition sam_file (o : foracle) (hs : list bytes) (rs : list Sam.sam) : bytes :=
  Sam.file_text o [LF] hs rs.
Definition bed_file (bs : list Bed.bed) : outcome bytes := Bed.write_file bs.
Definition newick_file (o : foracle) (ts : list Newick.tree) : bytes :=
  concat (map (fun t => Newick.marshal o t ++ [LF]) ts).
