(* Model/Bed.v — executable model of /repo/formats/bed (bed.go, iter.go);
   no proofs here.

   The record has the twelve BED fields and N, the number of populated fields.
   [write_calls] lists the chunks BED.Write hands to the io.Writer, one per
   Fprintf call.  [parse_line] is parseLine.  [decode] is Reader (iter.go) over
   reader.read (bufio.Reader.ReadString + strings.Split on TAB; the reader was
   rewritten by the fix for defect D3 and no longer uses encoding/csv). *)
From Bio Require Import Base.

Record bed : Type := mkBed {
  b_n : Z;                       (* N *)
  b_chrom : bytes;
  b_start : Z;                   (* ChromStart *)
  b_end : Z;                     (* ChromEnd *)
  b_name : bytes;
  b_score : Z;
  b_strand : bytes;
  b_thick_start : Z;
  b_thick_end : Z;
  b_rgb : N * N * N;             (* ItemRGB [3]byte *)
  b_block_count : Z;
  b_block_sizes : list Z;
  b_block_starts : list Z
}.

Definition COMMA : byte := 44.

(* ------------------------------------------------------------------ *)
(* BED.Write (bed.go:49-125)                                            *)

(* fmt's %v of a byte: decimal *)
Definition fmt_byte (n : N) : bytes := itoa (Z.of_N n).

Definition rgb_text (c : N * N * N) : bytes :=
  let '(r, g, b) := c in fmt_byte r ++ COMMA :: fmt_byte g ++ COMMA :: fmt_byte b.

(* the loop over a block list: "%v" for element 0, ",%v" for the others,
   one Fprintf each *)
Fixpoint list_calls_rest (l : list Z) : list bytes :=
  match l with
  | [] => []
  | x :: r => (COMMA :: itoa x) :: list_calls_rest r
  end.

Definition list_calls (l : list Z) : list bytes :=
  match l with
  | [] => []
  | x :: r => itoa x :: list_calls_rest r
  end.

Definition when (c : bool) (l : list bytes) : list bytes := if c then l else [].

Definition write_calls (b : bed) : outcome (list bytes) :=
  let n := b_n b in
  if ((n <? 3) || (n >? 12))%Z then Err            (* nothing emitted *)
  else Ok (
    [b_chrom b ++ TAB :: itoa (b_start b) ++ TAB :: itoa (b_end b)]
    ++ when (n >? 3)%Z [TAB :: b_name b]
    ++ when (n >? 4)%Z [TAB :: itoa (b_score b)]
    ++ when (n >? 5)%Z [TAB :: b_strand b]
    ++ when (n >? 6)%Z [TAB :: itoa (b_thick_start b)]
    ++ when (n >? 7)%Z [TAB :: itoa (b_thick_end b)]
    ++ when (n >? 8)%Z [TAB :: rgb_text (b_rgb b)]
    ++ when (n >? 9)%Z [TAB :: itoa (b_block_count b)]
    ++ when (n >? 10)%Z ([TAB] :: list_calls (b_block_sizes b))
    ++ when (n >? 11)%Z ([TAB] :: list_calls (b_block_starts b))
    ++ [[LF]]).

(* the bytes that reach an infallible writer; also MarshalText (bed.go:130) *)
Definition write (b : bed) : outcome bytes :=
  match write_calls b with
  | Ok cs => Ok (concat cs)
  | Err => Err
  | Panic => Panic
  end.

(* a file: the records written one after the other; stops at the first refusal *)
Fixpoint write_file (l : list bed) : outcome bytes :=
  match l with
  | [] => Ok []
  | b :: r =>
    match write b with
    | Ok x => match write_file r with Ok y => Ok (x ++ y) | e => e end
    | Err => Err
    | Panic => Panic
    end
  end.

(* ------------------------------------------------------------------ *)
(* strconv.ParseUint(s, 0, 8)  (go/src/strconv/atoi.go)                 *)

Definition lower (c : N) : N := N.lor c 32.           (* c | ('x' - 'X') *)

Definition is_dec (c : N) : bool := (48 <=? c) && (c <=? 57).

Definition digit_val (c : N) : option N :=
  if is_dec c then Some (c - 48)
  else let l := lower c in
       if (97 <=? l) && (l <=? 122) then Some (l - 97 + 10) else None.

(* The digit loop.  [us]: an underscore was seen (underscores are skipped
   because base 0 was requested).  The uint64 cutoff test of the Go loop can
   never fire here: n stays <= maxv = 255. *)
Fixpoint pu_loop (base maxv : N) (s : bytes) (n : N) (us : bool) : option (N * bool) :=
  match s with
  | [] => Some (n, us)
  | c :: r =>
    if c =? 95 then pu_loop base maxv r n true
    else match digit_val c with
         | None => None                              (* syntax error *)
         | Some d =>
           if base <=? d then None                   (* syntax error *)
           else let n1 := n * base + d in
                if maxv <? n1 then None              (* range error *)
                else pu_loop base maxv r n1 us
         end
  end.

Inductive saw : Type := SawStart | SawDigit | SawUnderscore | SawOther.

Fixpoint us_loop (hex : bool) (s : bytes) (sw : saw) : bool :=
  match s with
  | [] => match sw with SawUnderscore => false | _ => true end
  | c :: r =>
    if is_dec c || (hex && (97 <=? lower c) && (lower c <=? 102)) then us_loop hex r SawDigit
    else if c =? 95 then
      match sw with SawDigit => us_loop hex r SawUnderscore | _ => false end
    else match sw with SawUnderscore => false | _ => us_loop hex r SawOther end
  end.

Definition is_prefix_letter (c : N) : bool :=
  (lower c =? 98) || (lower c =? 111) || (lower c =? 120).     (* b o x *)

(* strconv.underscoreOK *)
Definition underscore_ok (s0 : bytes) : bool :=
  let s := match s0 with
           | c :: r => if (c =? 45) || (c =? 43) then r else s0
           | [] => s0
           end in
  match s with
  | c0 :: c1 :: r =>
    if (c0 =? 48) && is_prefix_letter c1 then us_loop (lower c1 =? 120) r SawDigit
    else us_loop false s SawStart
  | _ => us_loop false s SawStart
  end.

Definition parse_uint8 (s : bytes) : option N :=
  match s with
  | [] => None
  | c0 :: r0 =>
    let '(base, body) :=
      if c0 =? 48 then
        match r0 with
        | c1 :: ((_ :: _) as r1) =>                   (* len(s) >= 3 *)
          if lower c1 =? 98 then (2, r1)
          else if lower c1 =? 111 then (8, r1)
          else if lower c1 =? 120 then (16, r1)
          else (8, r0)
        | _ => (8, r0)
        end
      else (10, s) in
    match pu_loop base 255 body 0 false with
    | None => None
    | Some (n, us) => if us && negb (underscore_ok s) then None else Some n
    end
  end.

(* ------------------------------------------------------------------ *)
(* parseLine (bed.go:139-230)                                           *)

(* `if f != "" { x, err = strconv.Atoi(f) }` on a zero-initialised field *)
Definition opt_atoi (s : bytes) : option Z :=
  match s with [] => Some 0%Z | _ => atoi s end.

Definition strand_ok (s : bytes) : bool :=
  beqb s [] || beqb s [43] || beqb s [45] || beqb s [46].      (* "" + - . *)

Definition parse_rgb (s : bytes) : option (N * N * N) :=
  match s with
  | [] => Some (0, 0, 0)
  | _ =>
    match split_on COMMA s with
    | [a; b; c] =>
      match parse_uint8 a with None => None | Some x =>
      match parse_uint8 b with None => None | Some y =>
      match parse_uint8 c with None => None | Some z => Some (x, y, z)
      end end end
    | _ => None
    end
  end.

Fixpoint atoi_all (l : list bytes) : option (list Z) :=
  match l with
  | [] => Some []
  | x :: r =>
    match atoi x with
    | None => None
    | Some z => match atoi_all r with None => None | Some zs => Some (z :: zs) end
    end
  end.

Definition parse_ints (s : bytes) : option (list Z) :=
  match s with [] => Some [] | _ => atoi_all (split_on COMMA s) end.

(* the body of parseLine once the fields were padded to twelve *)
Definition parse_fields (n : Z) (f : list bytes) : outcome bed :=
  let fld i := nth i f [] in
  match atoi (fld 1%nat) with None => Err | Some cs =>
  match atoi (fld 2%nat) with None => Err | Some ce =>
  match opt_atoi (fld 4%nat) with None => Err | Some sc =>
  if negb (strand_ok (fld 5%nat)) then Err else
  match opt_atoi (fld 6%nat) with None => Err | Some ts =>
  match opt_atoi (fld 7%nat) with None => Err | Some te =>
  match parse_rgb (fld 8%nat) with None => Err | Some rgb =>
  match opt_atoi (fld 9%nat) with None => Err | Some bc =>
  match parse_ints (fld 10%nat) with None => Err | Some sizes =>
  match parse_ints (fld 11%nat) with None => Err | Some starts =>
  if negb (Z.of_nat (length sizes) =? bc)%Z then Err else
  if negb (Z.of_nat (length starts) =? bc)%Z then Err else
  Ok {| b_n := n; b_chrom := fld 0%nat; b_start := cs; b_end := ce;
        b_name := fld 3%nat; b_score := sc; b_strand := fld 5%nat;
        b_thick_start := ts; b_thick_end := te; b_rgb := rgb;
        b_block_count := bc; b_block_sizes := sizes; b_block_starts := starts |}
  end end end end end end end end end.

Definition parse_line (fields : list bytes) : outcome bed :=
  let n := length fields in
  if ((n <? 3) || (12 <? n))%nat then Err
  else parse_fields (Z.of_nat n) (fields ++ repeat [] (12 - n)).

(* ------------------------------------------------------------------ *)
(* reader.read + Reader (bed.go:252-278, iter.go:11-28)                 *)

Inductive step : Type :=
| Skip                               (* empty line or comment: continue *)
| StopErr                            (* an error is yielded, iteration ends *)
| Yield (b : bed) (n : nat).         (* a record; n = reader.n afterwards *)

(* one line (LF already removed) with reader.n = n (0: not yet set) *)
Definition do_line (n : nat) (raw : bytes) : step :=
  let text := drop_cr raw in                         (* TrimSuffix "\r" *)
  match text with
  | [] => Skip
  | c :: _ =>
    if c =? 35 then Skip                             (* '#' *)
    else
      let line := split_on TAB text in
      let n' := if (n =? 0)%nat then length line else n in
      if negb (length line =? n')%nat then StopErr
      else match parse_line line with
           | Ok b => Yield b n'
           | _ => StopErr
           end
  end.

Fixpoint dec_lines (n : nat) (ls : list bytes) (tail : bytes) (t : term) : list (item bed) :=
  match ls with
  | [] =>
    match t with
    | TErr => [ErrItem]            (* ReadString's error: the tail is dropped *)
    | TEOF =>
      match do_line n tail with
      | Skip => []                 (* text == "" or comment at EOF -> io.EOF *)
      | StopErr => [ErrItem]
      | Yield b _ => [Rec b]       (* the next read sees "" and EOF *)
      end
    end
  | l :: r =>
    match do_line n l with
    | Skip => dec_lines n r tail t
    | StopErr => [ErrItem]
    | Yield b n' => Rec b :: dec_lines n' r tail t
    end
  end.

Definition decode (s : bytes) (t : term) : list (item bed) :=
  let '(ls, tail) := rs_lines s in dec_lines 0 ls tail t.
