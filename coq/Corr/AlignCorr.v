(* Corr/AlignCorr.v — correspondence entry points. *)
From Coq Require Import String.
From Bio Require Import Base.
From Bio.Model Require Import Align.

Definition corr_align : list (string * (val -> val)) := [].
