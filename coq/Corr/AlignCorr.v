(* Corr/AlignCorr.v — correspondence entry points for package align.
   Cases:
     align_global / align_global_v : [a b matrix] -> outcome [steps score]
     align_local  / align_local_v  : [a b matrix] -> outcome [steps ai bi score]
     align_shipped                 : [name a b]   -> [global-outcome local-outcome]
   matrix = list of [a b score] (the harness sends it sorted, keys unique);
   steps = one byte per step (1 match, 2 deletion, 3 insertion).
   The _v kinds run the same model function; they differ on the Go side only
   (which direct oracle is evaluated). *)
From Coq Require Import String.
From Bio Require Import Base.
From Bio.Model Require Import Align.

Definition as_entry (v : val) : option ((byte * byte) * Z) :=
  match v with
  | VL [VI x; VI y; VI s] => Some ((Z.to_N x, Z.to_N y), s)
  | _ => None
  end.

Definition as_matrix (v : val) : option matrix :=
  match v with VL l => all_some (map as_entry l) | _ => None end.

Definition v_steps (l : list step) : val := VB (map (fun s => Z.to_N (step_code s)) l).

Definition v_global (r : list step * Z) : val := VL [v_steps (fst r); VI (snd r)].
Definition v_local (r : list step * Z * Z * Z) : val :=
  let '(st, ai, bi, s) := r in VL [v_steps st; VI ai; VI bi; VI s].

Definition c_global (v : val) : val :=
  match v with
  | VL [VB a; VB b; mv] =>
    match as_matrix mv with
    | Some m => v_outcome v_global (global m a b)
    | None => v_bad
    end
  | _ => v_bad
  end.

Definition c_local (v : val) : val :=
  match v with
  | VL [VB a; VB b; mv] =>
    match as_matrix mv with
    | Some m => v_outcome v_local (local m a b)
    | None => v_bad
    end
  | _ => v_bad
  end.

Definition c_shipped (v : val) : val :=
  match v with
  | VL [VB name; VB a; VB b] =>
    match shipped name with
    | Some g => VL [v_outcome v_global (global_g g a b); v_outcome v_local (local_g g a b)]
    | None => v_bad
    end
  | _ => v_bad
  end.

Definition corr_align : list (string * (val -> val)) :=
  [ ("align_global"%string, c_global); ("align_global_v"%string, c_global);
    ("align_local"%string, c_local); ("align_local_v"%string, c_local);
    ("align_shipped"%string, c_shipped) ].
