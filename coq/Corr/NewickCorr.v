(* Corr/NewickCorr.v — correspondence entry points. *)
From Coq Require Import String.
From Bio Require Import Base.
From Bio.Model Require Import Newick.

Definition corr_newick : list (string * (val -> val)) := [].
