(* Corr/NewickCorr.v — correspondence entry points for package formats/newick:
   decode a case value, run the model, encode the observable exactly as
   harness/newick.go encodes the implementation's.
   A tree is [name dist [children...]] with dist the canonical float text. *)
From Coq Require Import String.
From Bio Require Import Base.
From Bio.Model Require Import Newick.

Fixpoint tree_of_val (v : val) : option tree :=
  match v with
  | VL [VB n; VB d; VL cs] =>
    match all_some (map tree_of_val cs) with
    | Some l => Some (Node n d l)
    | None => None
    end
  | _ => None
  end.

Fixpoint val_of_tree (t : tree) : val :=
  match t with Node n d cs => VL [VB n; VB d; VL (map val_of_tree cs)] end.

Definition val_of_path (p : path) : val := VL (map (fun i => VI (Z.of_nat i)) p).
Definition val_of_occs (l : list occ) : val := VL (map (fun x => val_of_path (fst x)) l).

Definition c_traverse (pre : bool) (v : val) : val :=
  match tree_of_val v with
  | Some t => v_outcome val_of_occs (traverse pre t)
  | None => v_bad
  end.

Definition v_decoded (r : outcome (list (item tree))) : val := v_outcome (v_items val_of_tree) r.

(* [tree oracle] -> MarshalText bytes *)
Definition c_write (v : val) : val :=
  match v with
  | VL [tv; ov] =>
    match tree_of_val tv, as_foracle ov with
    | Some t, Some o => v_ok (VB (marshal o t))
    | _, _ => v_bad
    end
  | _ => v_bad
  end.

(* [bytes term oracle] -> items of Reader *)
Definition c_decode (v : val) : val :=
  match v with
  | VL [VB s; tv; ov] =>
    match as_term tv, as_foracle ov with
    | Some tm, Some o => v_decoded (decode o s tm)
    | _, _ => v_bad
    end
  | _ => v_bad
  end.

Definition trees_of_vals (l : list val) : option (list tree) := all_some (map tree_of_val l).

Fixpoint zip_seps (ts : list tree) (seps : list bytes) : list (tree * bytes) :=
  match ts with
  | [] => []
  | t :: r => (t, hd [] seps) :: zip_seps r (tl seps)
  end.

Fixpoint seq_bytes (o : foracle) (l : list (tree * bytes)) : bytes :=
  match l with
  | [] => []
  | (t, sep) :: r => marshal o t ++ sep ++ seq_bytes o r
  end.

(* [[trees] [separators] oracle] -> [written bytes, items read back] *)
Definition c_seq (v : val) : val :=
  match v with
  | VL [VL tvs; sv; ov] =>
    match trees_of_vals tvs, as_bytes_list sv, as_foracle ov with
    | Some ts, Some seps, Some o =>
      let txt := seq_bytes o (zip_seps ts seps) in
      VL [VB txt; v_decoded (decode o txt TEOF)]
    | _, _, _ => v_bad
    end
  | _ => v_bad
  end.

Definition no_floats : foracle := {| f_parse := []; f_fmt := [] |}.

(* name -> [nameToText, nameFromText of it, text of the single-node tree
   without its ';', items read back from that text] *)
Definition c_name (v : val) : val :=
  match v with
  | VB s =>
    let txt := marshal no_floats (Node s zeroF []) in
    VL [VB (name_to_text s); VB (name_from_text (name_to_text s));
        VB (removelast txt); v_decoded (decode no_floats txt TEOF)]
  | _ => v_bad
  end.

Definition corr_newick : list (string * (val -> val)) :=
  [ ("newick_pre"%string, c_traverse true); ("newick_post"%string, c_traverse false);
    ("newick_write"%string, c_write); ("newick_decode"%string, c_decode);
    ("newick_seq"%string, c_seq); ("newick_name"%string, c_name) ].
