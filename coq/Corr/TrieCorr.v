(* Corr/TrieCorr.v — correspondence entry points for package trie.
   Kind "trie_history": case = [ops queries k p]
     ops     : list of [i0 bytes] (Add) | [i1 bytes] (Delete)
     queries : list of byte strings asked of Has at every observation
     k       : observe after every k-th step (and always after the last one)
     p       : the ForEach callback of the third observable returns false at
               its p-th call (0: never)
   observable = [steps final]
     steps : per op [r] or [r obs], r = Delete's result (0 for Add)
     obs   : [ForEach output sorted, Has answers, number of reports of a ForEach
             stopped at the p-th]
     final : the same obs on the trie rebuilt from its JSON form. *)
From Coq Require Import String.
From Bio Require Import Base.
From Bio.Model Require Import Trie.

Definition dec_op (v : val) : option op :=
  match v with
  | VL [VI 0%Z; VB b] => Some (OAdd b)
  | VL [VI 1%Z; VB b] => Some (ODel b)
  | _ => None
  end.

(* ForEach in ascending key order reports in lexicographic order: the harness
   sorts the implementation's reports with bytes.Compare. *)
Definition obs (qs : list bytes) (p : nat) (t : trie) : val :=
  VL [ v_outcome (fun l => VL (map VB l)) (for_each t);
       VL (map (fun q => v_bool (has q t)) qs);
       v_outcome (fun l => VI (Z.of_nat (length l))) (for_each_until p t) ].

Fixpoint steps (ops : list op) (t : trie) (i k : N) (qs : list bytes) (p : nat)
  : list val * trie :=
  match ops with
  | [] => ([], t)
  | o :: r =>
    let (t', res) := apply_op o t in
    let rv := VI (match res with Some true => 1 | _ => 0 end)%Z in
    let observe := (negb (k =? 0) && ((i + 1) mod k =? 0)) || is_nil r in
    let sv := if observe then VL [rv; obs qs p t'] else VL [rv] in
    let (vs, tf) := steps r t' (i + 1) k qs p in
    (sv :: vs, tf)
  end.

Definition c_trie_history (v : val) : val :=
  match v with
  | VL [VL ops; qsv; VI k; VI p] =>
    match all_some (map dec_op ops), as_bytes_list qsv with
    | Some ops', Some qs =>
      let pn := Z.to_nat p in
      let (vs, tf) := steps ops' empty 0 (Z.to_N k) qs pn in
      let final := match of_json (to_json tf) with
                   | Some t2 => v_ok (obs qs pn t2)
                   | None => v_err
                   end in
      VL [VL vs; final]
    | _, _ => v_bad
    end
  | _ => v_bad
  end.

Definition corr_trie : list (string * (val -> val)) :=
  [ ("trie_history"%string, c_trie_history) ].
