(* Corr/TrieCorr.v — correspondence entry points. *)
From Coq Require Import String.
From Bio Require Import Base.
From Bio.Model Require Import Trie.

Definition corr_trie : list (string * (val -> val)) := [].
