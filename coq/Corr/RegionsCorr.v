(* Corr/RegionsCorr.v — correspondence entry points. *)
From Coq Require Import String.
From Bio Require Import Base.
From Bio.Model Require Import Regions.

Definition corr_regions : list (string * (val -> val)) := [].
