(* Corr/RegionsCorr.v — correspondence entry points for package regions.
   Kind regions_at: [starts ends queries] -> [i0 [answers...]] | [i2] (panic);
   each answer is the list of interval serial numbers (nil = empty list). *)
From Coq Require Import String.
From Bio Require Import Base.
From Bio.Model Require Import Regions.

Definition v_nats (l : list nat) : val := VL (map (fun n => VI (Z.of_nat n)) l).

Definition c_regions_at (v : val) : val :=
  match v with
  | VL [s; e; q] =>
    match as_int_list s, as_int_list e, as_int_list q with
    | Some starts, Some ends, Some queries =>
      v_outcome (fun answers => VL (map v_nats answers)) (regions_at starts ends queries)
    | _, _, _ => v_bad
    end
  | _ => v_bad
  end.

Definition corr_regions : list (string * (val -> val)) :=
  [ ("regions_at"%string, c_regions_at) ].
