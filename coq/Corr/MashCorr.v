(* Corr/MashCorr.v — correspondence entry points. *)
From Coq Require Import String.
From Bio Require Import Base.
From Bio.Model Require Import Mash.

Definition corr_mash : list (string * (val -> val)) := [].
