(* Corr/MashCorr.v — correspondence entry points for package mash: decode a
   case, run the model of Model/Mash.v, encode the observable exactly as
   harness/mash.go encodes the implementation's.

   A uint64 hash value travels as 8 bytes big-endian (the protocol's integers
   are int64).  Every case carries the table of the real murmur3 values of its
   canonical upper-cased k-mers; jaccard cases also carry the table of the
   float64 quotients i/u. *)
From Coq Require Import String.
From Bio Require Import Base.
From Bio.Model Require Import Seq Mash.

Definition be_to_N (b : bytes) : N := fold_left (fun acc x => acc * 256 + x) b 0.
Definition N_to_be8 (x : N) : bytes :=
  map (fun i => (x / 256 ^ i) mod 256) [7; 6; 5; 4; 3; 2; 1; 0].

Definition as_htab (v : val) : option (list (bytes * N)) :=
  match v with
  | VL l => all_some (map (fun e => match e with
                                    | VL [VB kmer; VB hv] => Some (kmer, be_to_N hv)
                                    | _ => None
                                    end) l)
  | _ => None
  end.

Definition as_divtab (v : val) : option (list ((Z * Z) * F)) :=
  match v with
  | VL l => all_some (map (fun e => match e with
                                    | VL [VI i; VI u; VB t] => Some ((i, u), t)
                                    | _ => None
                                    end) l)
  | _ => None
  end.

Definition as_batches (v : val) : option (list (list bytes)) :=
  match v with VL l => all_some (map as_bytes_list l) | _ => None end.

Definition hash_of (t : list (bytes * N)) (b : bytes) : option N := alookup b t.

Definition v_hashes (l : list N) : val := VL (map (fun x => VB (N_to_be8 x)) l).

(* [n k [seqs] htab] -> Sequences(n,k,seqs...).View() *)
Definition c_sequences (v : val) : val :=
  match v with
  | VL [VI n; VI k; seqs; ht] =>
    match as_bytes_list seqs, as_htab ht with
    | Some ss, Some t => v_outcome v_hashes (sequences (hash_of t) n k ss)
    | _, _ => v_bad
    end
  | _ => v_bad
  end.

(* [n k [[batch] ...] htab] -> Sequences on the first batch, Add for each further one; View() *)
Definition c_add (v : val) : val :=
  match v with
  | VL [VI n; VI k; bs; ht] =>
    match as_batches bs, as_htab ht with
    | Some b, Some t => v_outcome v_hashes (incremental (hash_of t) n k b)
    | _, _ => v_bad
    end
  | _ => v_bad
  end.

(* [nA nB k [seqsA] [seqsB] htab divtab] -> canonical text of
   Sequences(nA,k,seqsA).Jaccard(Sequences(nB,k,seqsB)) *)
Definition c_jaccard (v : val) : val :=
  match v with
  | VL [VI nA; VI nB; VI k; sa; sb; ht; dt] =>
    match as_bytes_list sa, as_bytes_list sb, as_htab ht, as_divtab dt with
    | Some a, Some b, Some t, Some d => v_outcome VB (sketch_jaccard (hash_of t) d nA nB k a b)
    | _, _, _, _ => v_bad
    end
  | _ => v_bad
  end.

Definition corr_mash : list (string * (val -> val)) :=
  [ ("mash_sequences"%string, c_sequences); ("mash_add"%string, c_add);
    ("mash_jaccard"%string, c_jaccard) ].
