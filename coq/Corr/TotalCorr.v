(* Corr/TotalCorr.v — correspondence entry points (cross-format properties C11, C18);
   mirrors harness/total.go.

   C18, kinds stop_<iterator>: the case ends with the stop position p (0: never
   stop); the observable is [i0 [item ...]] — what the consumer
       n := 0; for x := range it { record x; n++; if n == p { break } }
   saw — or [i2] when the run-time check fired (model: status PanicAfterStop).
     stop_fasta_reader stop_fastq_reader stop_bed_reader : [bytes term p]
     stop_fasta_file   stop_fastq_file   stop_bed_file   : [opened bytes p]
     stop_newick_reader  : [bytes term foracle p]     stop_newick_file : [opened bytes foracle p]
     stop_sam_readerheader stop_sam_reader : [bytes term foracle p]
     stop_sam_fileheader   stop_sam_file   : [opened bytes foracle p]
     stop_preorder stop_postorder : [tree p]            items = paths
     stop_foreach  : [[sequence ...] p]                 -> [i0 [count [all items, sorted, when count = all]]]
     stop_canon    : [seq k p]
   Items are encoded as in the <fmt>_decode kinds of the family files.

   C11, kinds total_<fmt>: [bytes term (foracle)] -> the items / outcome, as the
   <fmt>_decode kinds; sam_lines: [[line ...] foracle classes] -> items of
   ReaderHeader on the lines, each followed by LF. *)
From Coq Require Import String.
From Bio Require Import Base.
From Bio.Model Require Import Iter Iterators.
From Bio.Model Require Fasta Fastq Sam Bed Newick Trie Seq Smtext.
From Bio.Corr Require FastaCorr FastqCorr SamCorr BedCorr NewickCorr SmtextCorr.

Definition v_run {A} (f : A -> val) (r : list A * status) : val :=
  match snd r with
  | Done => v_ok (VL (map f (fst r)))
  | PanicAfterStop => v_panic
  end.

Definition as_nat (v : val) : option nat := match v with VI z => Some (Z.to_nat z) | _ => None end.
Definition as_opened (v : val) : option bool :=
  match v with VI 0%Z => Some false | VI 1%Z => Some true | _ => None end.

(* [bytes term p] *)
Definition c_stop_reader {A} (it : bytes -> term -> seqT A) (f : A -> val) (v : val) : val :=
  match v with
  | VL [VB w; tv; pv] =>
    match as_term tv, as_nat pv with
    | Some t, Some p => v_run f (run_until (it w t) p)
    | _, _ => v_bad
    end
  | _ => v_bad
  end.

(* [opened bytes p]: a file that opened is read to a clean EOF *)
Definition c_stop_file {A} (it : bool -> bytes -> term -> seqT A) (f : A -> val) (v : val) : val :=
  match v with
  | VL [ov; VB w; pv] =>
    match as_opened ov, as_nat pv with
    | Some op, Some p => v_run f (run_until (it op w TEOF) p)
    | _, _ => v_bad
    end
  | _ => v_bad
  end.

(* [bytes term foracle p] *)
Definition c_stop_reader_o {A} (it : foracle -> bytes -> term -> seqT A) (f : A -> val) (v : val) : val :=
  match v with
  | VL [VB w; tv; fv; pv] =>
    match as_term tv, as_foracle fv, as_nat pv with
    | Some t, Some o, Some p => v_run f (run_until (it o w t) p)
    | _, _, _ => v_bad
    end
  | _ => v_bad
  end.

(* [opened bytes foracle p] *)
Definition c_stop_file_o {A} (it : bool -> foracle -> bytes -> term -> seqT A) (f : A -> val) (v : val) : val :=
  match v with
  | VL [ov; VB w; fv; pv] =>
    match as_opened ov, as_foracle fv, as_nat pv with
    | Some op, Some o, Some p => v_run f (run_until (it op o w TEOF) p)
    | _, _, _ => v_bad
    end
  | _ => v_bad
  end.

Definition vi_fasta := v_item FastaCorr.v_fasta.
Definition vi_fastq := v_item FastqCorr.v_fastq.
Definition vi_bed := v_item BedCorr.v_bed.
Definition vi_tree := v_item NewickCorr.val_of_tree.
Definition vi_entry := v_item SamCorr.v_entry.
Definition vi_sam := v_item SamCorr.v_sam.

(* newick: a Panic of the reader model is a panic of the run *)
Definition c_stop_newick_reader (v : val) : val :=
  match v with
  | VL [VB w; tv; fv; pv] =>
    match as_term tv, as_foracle fv with
    | Some t, Some o =>
      match Newick.decode o w t with
      | Ok _ => c_stop_reader_o newick_reader vi_tree v
      | _ => v_panic
      end
    | _, _ => v_bad
    end
  | _ => v_bad
  end.

Definition c_stop_newick_file (v : val) : val :=
  match v with
  | VL [ov; VB w; fv; pv] =>
    match as_opened ov, as_foracle fv with
    | Some op, Some o =>
      match op, Newick.decode o w TEOF with
      | true, Ok _ | false, _ => c_stop_file_o newick_file vi_tree v
      | true, _ => v_panic
      end
    | _, _ => v_bad
    end
  | _ => v_bad
  end.

Definition c_stop_traverse (pre : bool) (v : val) : val :=
  match v with
  | VL [tv; pv] =>
    match NewickCorr.tree_of_val tv, as_nat pv with
    | Some t, Some p =>
      match Newick.traverse pre t with
      | Ok _ => v_run (fun x : Newick.occ => NewickCorr.val_of_path (fst x))
                      (run_until (if pre then pre_order t else post_order t) p)
      | _ => v_panic
      end
    | _, _ => v_bad
    end
  | _ => v_bad
  end.

Definition c_stop_foreach (v : val) : val :=
  match v with
  | VL [sv; pv] =>
    match as_bytes_list sv, as_nat pv with
    | Some seqs, Some p =>
      let t := fold_left (fun t b => Trie.add b t) seqs Trie.empty in
      match Trie.for_each t with
      | Ok all =>
        let r := run_until (for_each t) p in
        match snd r with
        | Done =>
          let n := length (fst r) in
          v_ok (VL [VI (Z.of_nat n); VL (if Nat.eqb n (length all) then map VB (fst r) else [])])
        | PanicAfterStop => v_panic
        end
      | _ => v_panic
      end
    | _, _ => v_bad
    end
  | _ => v_bad
  end.

Definition c_stop_canon (v : val) : val :=
  match v with
  | VL [VB s; VI k; pv] =>
    match as_nat pv with
    | Some p =>
      match Seq.canon s k with
      | Ok _ => v_run VB (run_until (canonical_subsequences s k) p)
      | _ => v_panic
      end
    | None => v_bad
    end
  | _ => v_bad
  end.

(* ---- C11 ------------------------------------------------------------------------------------ *)
Definition c_total_fasta (v : val) : val :=
  match v with
  | VL [VB s; tv] =>
    match as_term tv with Some t => v_items FastaCorr.v_fasta (Fasta.decode s t) | None => v_bad end
  | _ => v_bad
  end.

Definition c_total_fastq (v : val) : val :=
  match v with
  | VL [VB s; tv] =>
    match as_term tv with Some t => v_items FastqCorr.v_fastq (Fastq.decode s t) | None => v_bad end
  | _ => v_bad
  end.

Definition c_total_bed (v : val) : val :=
  match v with
  | VL [VB s; tv] =>
    match as_term tv with Some t => v_items BedCorr.v_bed (Bed.decode s t) | None => v_bad end
  | _ => v_bad
  end.

Definition c_total_sam (v : val) : val :=
  match v with
  | VL [VB s; tv; fv] =>
    match as_term tv, as_foracle fv with
    | Some t, Some o => v_items SamCorr.v_entry (Sam.reader_header o s t)
    | _, _ => v_bad
    end
  | _ => v_bad
  end.

Definition c_total_newick (v : val) : val :=
  match v with
  | VL [VB s; tv; fv] =>
    match as_term tv, as_foracle fv with
    | Some t, Some o => NewickCorr.v_decoded (Newick.decode o s t)
    | _, _ => v_bad
    end
  | _ => v_bad
  end.

Definition c_total_smtext (v : val) : val :=
  match v with
  | VL [VB s; tv; fv] =>
    match as_term tv, as_foracle fv with
    | Some t, Some o => v_outcome SmtextCorr.v_matrix (Smtext.read_ncbi o s t)
    | _, _ => v_bad
    end
  | _ => v_bad
  end.

(* every line followed by LF; the third field (the generator's classification of
   the lines) is for the harness oracle only *)
Definition c_sam_lines (v : val) : val :=
  match v with
  | VL [lv; fv; _] =>
    match as_bytes_list lv, as_foracle fv with
    | Some ls, Some o =>
      v_items SamCorr.v_entry (Sam.reader_header o (concat (map (fun l => l ++ [LF]) ls)) TEOF)
    | _, _ => v_bad
    end
  | _ => v_bad
  end.

Definition corr_total : list (string * (val -> val)) :=
  [ ("stop_fasta_reader"%string, c_stop_reader fasta_reader vi_fasta);
    ("stop_fasta_file"%string, c_stop_file fasta_file vi_fasta);
    ("stop_fastq_reader"%string, c_stop_reader fastq_reader vi_fastq);
    ("stop_fastq_file"%string, c_stop_file fastq_file vi_fastq);
    ("stop_bed_reader"%string, c_stop_reader bed_reader vi_bed);
    ("stop_bed_file"%string, c_stop_file bed_file vi_bed);
    ("stop_newick_reader"%string, c_stop_newick_reader);
    ("stop_newick_file"%string, c_stop_newick_file);
    ("stop_sam_readerheader"%string, c_stop_reader_o sam_reader_header vi_entry);
    ("stop_sam_reader"%string, c_stop_reader_o sam_reader vi_sam);
    ("stop_sam_fileheader"%string, c_stop_file_o sam_file_header vi_entry);
    ("stop_sam_file"%string, c_stop_file_o sam_file vi_sam);
    ("stop_preorder"%string, c_stop_traverse true);
    ("stop_postorder"%string, c_stop_traverse false);
    ("stop_foreach"%string, c_stop_foreach);
    ("stop_canon"%string, c_stop_canon);
    ("total_fasta"%string, c_total_fasta);
    ("total_fastq"%string, c_total_fastq);
    ("total_bed"%string, c_total_bed);
    ("total_sam"%string, c_total_sam);
    ("total_newick"%string, c_total_newick);
    ("total_smtext"%string, c_total_smtext);
    ("sam_lines"%string, c_sam_lines) ].
