(* Corr/BedCorr.v — correspondence entry points for package formats/bed:
   decode a case value, run the model, encode the observable exactly as
   harness/bed.go encodes the implementation's. *)
From Coq Require Import String.
From Bio Require Import Base.
From Bio.Model Require Import Bed.

(* a record: [N chrom start end name score strand thickStart thickEnd [r g b]
              blockCount [sizes] [starts]] *)
Definition v_bed (b : bed) : val :=
  let '(r, g, bl) := b_rgb b in
  VL [VI (b_n b); VB (b_chrom b); VI (b_start b); VI (b_end b); VB (b_name b);
      VI (b_score b); VB (b_strand b); VI (b_thick_start b); VI (b_thick_end b);
      VL [VI (Z.of_N r); VI (Z.of_N g); VI (Z.of_N bl)];
      VI (b_block_count b); VL (map VI (b_block_sizes b)); VL (map VI (b_block_starts b))].

Definition as_bed (v : val) : option bed :=
  match v with
  | VL [VI n; VB chrom; VI cs; VI ce; VB name; VI sc; VB strand; VI ts; VI te;
        VL [VI r; VI g; VI bl]; VI bc; sizes; starts] =>
    match as_int_list sizes, as_int_list starts with
    | Some sz, Some st =>
      Some {| b_n := n; b_chrom := chrom; b_start := cs; b_end := ce; b_name := name;
              b_score := sc; b_strand := strand; b_thick_start := ts; b_thick_end := te;
              b_rgb := (Z.to_N r, Z.to_N g, Z.to_N bl);
              b_block_count := bc; b_block_sizes := sz; b_block_starts := st |}
    | _, _ => None
    end
  | _ => None
  end.

(* bed_write: record -> [i0 [[chunks] bytes]] | [i1] *)
Definition c_bed_write (v : val) : val :=
  match as_bed v with
  | Some b => v_outcome (fun cs => VB (concat cs)) (write_calls b)
  | None => v_bad
  end.

(* bed_decode: [bytes term] -> items *)
Definition c_bed_decode (v : val) : val :=
  match v with
  | VL [VB s; t] =>
    match as_term t with
    | Some t' => v_items v_bed (decode s t')
    | None => v_bad
    end
  | _ => v_bad
  end.

(* bed_file: [records] -> [i0 items] | [i1]: write all, read the text back *)
Definition c_bed_file (v : val) : val :=
  match v with
  | VL l =>
    match all_some (map as_bed l) with
    | Some bs => v_outcome (fun s => v_items v_bed (decode s TEOF)) (write_file bs)
    | None => v_bad
    end
  | _ => v_bad
  end.

(* bed_parseuint: token -> [i0 value] | [i1]   (strconv.ParseUint(s, 0, 8)) *)
Definition c_bed_parseuint (v : val) : val :=
  match v with
  | VB s => match parse_uint8 s with Some n => v_ok (VI (Z.of_N n)) | None => v_err end
  | _ => v_bad
  end.

Definition corr_bed : list (string * (val -> val)) :=
  [ ("bed_write"%string, c_bed_write); ("bed_file"%string, c_bed_file); ("bed_decode"%string, c_bed_decode);
    ("bed_parseuint"%string, c_bed_parseuint) ].
