(* Corr/BedCorr.v — correspondence entry points. *)
From Coq Require Import String.
From Bio Require Import Base.
From Bio.Model Require Import Bed.

Definition corr_bed : list (string * (val -> val)) := [].
