(* Corr/SeqCorr.v — correspondence entry points for package sequtil:
   decode a case value, run the model, encode the observable exactly as
   harness/seq.go encodes the implementation's. *)
From Coq Require Import String.
From Bio Require Import Base.
From Bio.Model Require Import Seq.

Definition two_bytes (v : val) : option (bytes * bytes) :=
  match v with VL [VB a; VB b] => Some (a, b) | _ => None end.

Definition vbl (l : list bytes) : val := VL (map VB l).

Definition c_rc (v : val) : val :=
  match two_bytes v with Some (d, s) => v_outcome VB (rc d s) | None => v_bad end.
Definition c_rcstr (v : val) : val :=
  match v with VB s => v_outcome VB (rc_string s) | _ => v_bad end.
Definition c_canon (v : val) : val :=
  match v with VL [VB s; VI k] => v_outcome vbl (canon s k) | _ => v_bad end.
Definition c_to2bit (v : val) : val :=
  match two_bytes v with Some (d, s) => v_outcome VB (to2bit d s) | None => v_bad end.
Definition c_from2bit (v : val) : val :=
  match two_bytes v with Some (d, s) => v_outcome VB (from2bit d s) | None => v_bad end.
Definition c_ntoi (v : val) : val :=
  match v with VI b => VI (ntoi (Z.to_N b)) | _ => v_bad end.
Definition c_iton (v : val) : val :=
  match v with VI i => VI (Z.of_N (iton i)) | _ => v_bad end.
Definition c_translate (v : val) : val :=
  match two_bytes v with Some (d, s) => v_outcome VB (translate d s) | None => v_bad end.
Definition c_frames (v : val) : val :=
  match v with VB s => v_outcome vbl (frames s) | _ => v_bad end.
Definition c_aminoname (v : val) : val :=
  match v with
  | VI b => v_outcome (fun p => VL [VB (fst p); VB (snd p)]) (amino_name (Z.to_N b))
  | _ => v_bad
  end.

Definition corr_seq : list (string * (val -> val)) :=
  [ ("rc"%string, c_rc); ("rcstr"%string, c_rcstr); ("canon"%string, c_canon);
    ("to2bit"%string, c_to2bit); ("from2bit"%string, c_from2bit); ("ntoi"%string, c_ntoi); ("iton"%string, c_iton);
    ("translate"%string, c_translate); ("frames"%string, c_frames); ("aminoname"%string, c_aminoname) ].
