(* Corr/SamCorr.v — correspondence entry points. *)
From Coq Require Import String.
From Bio Require Import Base.
From Bio.Model Require Import Sam.

Definition corr_sam : list (string * (val -> val)) := [].
