(* Corr/SamCorr.v — correspondence entry points for package formats/sam:
   decode a case value, run the model, encode the observable exactly as
   harness/sam.go encodes the implementation's.

   record  = [qname flag rname pos mapq cigar rnext pnext tlen seq qual tags]
   tags    = [[name [type value]] ...] sorted by name;
             type/value: [i0 i<byte>] A | [i1 i<int>] i | [i2 x<canonical float>] f
                         | [i3 x<string>] Z | [i4 x<bytes>] H
   item    = [i0 [i0 header]] | [i0 [i1 record]] | [i1]                       *)
From Coq Require Import String.
From Bio Require Import Base.
From Bio.gen Require Import FlagGen.
From Bio.Model Require Import Sam.
From Bio.Spec Require Import SamSpec.

Definition v_tagval (v : tagval) : val :=
  match v with
  | TA b => VL [VI 0; VI (Z.of_N b)]
  | TI z => VL [VI 1; VI z]
  | TF x => VL [VI 2; VB x]
  | TZ s => VL [VI 3; VB s]
  | TH h => VL [VI 4; VB h]
  end.

(* Go side: keys of the map sorted with sort.Strings *)
Fixpoint insert_tag (t : bytes * tagval) (l : tagmap) : tagmap :=
  match l with
  | [] => [t]
  | u :: r => match bcompare (fst t) (fst u) with
              | Gt => u :: insert_tag t r
              | _ => t :: l
              end
  end.
Definition sort_tags (m : tagmap) : tagmap := fold_right insert_tag [] m.

Definition v_tags (m : tagmap) : val :=
  VL (map (fun t => VL [VB (fst t); v_tagval (snd t)]) (sort_tags m)).

Definition v_sam (r : sam) : val :=
  VL [ VB (s_qname r); VI (s_flag r); VB (s_rname r); VI (s_pos r); VI (s_mapq r);
       VB (s_cigar r); VB (s_rnext r); VI (s_pnext r); VI (s_tlen r);
       VB (s_seq r); VB (s_qual r); v_tags (s_tags r) ].

Definition as_tagval (v : val) : option tagval :=
  match v with
  | VL [VI 0%Z; VI b] => Some (TA (Z.to_N b))
  | VL [VI 1%Z; VI z] => Some (TI z)
  | VL [VI 2%Z; VB x] => Some (TF x)
  | VL [VI 3%Z; VB s] => Some (TZ s)
  | VL [VI 4%Z; VB h] => Some (TH h)
  | _ => None
  end.

Definition as_tag (v : val) : option (bytes * tagval) :=
  match v with
  | VL [VB name; tv] => match as_tagval tv with Some x => Some (name, x) | None => None end
  | _ => None
  end.

Definition as_sam (v : val) : option sam :=
  match v with
  | VL [VB qn; VI fl; VB rn; VI po; VI mq; VB ci; VB rx; VI pn; VI tl; VB sq; VB ql; VL ts] =>
    match all_some (map as_tag ts) with
    | Some m => Some {| s_qname := qn; s_flag := fl; s_rname := rn; s_pos := po; s_mapq := mq;
                        s_cigar := ci; s_rnext := rx; s_pnext := pn; s_tlen := tl;
                        s_seq := sq; s_qual := ql; s_tags := m |}
    | None => None
    end
  | _ => None
  end.

Definition v_entry (e : entry) : val :=
  match e with Hdr h => VL [VI 0; VB h] | Aln r => VL [VI 1; v_sam r] end.

(* sam_write: [record oracle] -> [[chunk ...] marshaltext] *)
Definition c_sam_write (v : val) : val :=
  match v with
  | VL [rv; ov] =>
    match as_sam rv, as_foracle ov with
    | Some r, Some o =>
      VL [VB (write o r); v_outcome VB (marshal_text o r)]
    | _, _ => v_bad
    end
  | _ => v_bad
  end.

Definition c_sam_readhdr (v : val) : val :=
  match v with
  | VL [VB s; tv; ov] =>
    match as_term tv, as_foracle ov with
    | Some t, Some o => v_items v_entry (reader_header o s t)
    | _, _ => v_bad
    end
  | _ => v_bad
  end.

Definition c_sam_read (v : val) : val :=
  match v with
  | VL [VB s; tv; ov] =>
    match as_term tv, as_foracle ov with
    | Some t, Some o => v_items v_sam (reader o s t)
    | _, _ => v_bad
    end
  | _ => v_bad
  end.

(* sam_file: [[header ...] [record ...] eol oracle] -> [text items-of-ReaderHeader items-of-Reader] *)
Definition c_sam_file (v : val) : val :=
  match v with
  | VL [hv; VL rvs; VB eol; ov] =>
    match as_bytes_list hv, all_some (map as_sam rvs), as_foracle ov with
    | Some hs, Some rs, Some o =>
      let text := file_text o eol hs rs in
      VL [VB text; v_items v_entry (reader_header o text TEOF); v_items v_sam (reader o text TEOF)]
    | _, _, _ => v_bad
    end
  | _ => v_bad
  end.

(* flags: the accessors are looked up by name in the lists generated from
   flag.go, in the order of the specification. *)
Definition lookup_name {A} (n : string) (l : list (string * A)) : option A :=
  match find (fun p => String.eqb (fst p) n) l with Some p => Some (snd p) | None => None end.

Definition c_sam_flag_get (v : val) : val :=
  match v with
  | VI f => VL (map (fun n => match lookup_name n flag_getters with
                              | Some g => v_bool (g f) | None => VI 99 end) flag_spec_names)
  | _ => v_bad
  end.

Definition c_sam_flag_set (v : val) : val :=
  match v with
  | VL [VI f; VI b] =>
    VL (map (fun n => match lookup_name n flag_setters with
                      | Some s => VI (s f (negb (Z.eqb b 0))) | None => VI 99 end) flag_spec_names)
  | _ => v_bad
  end.

Definition corr_sam : list (string * (val -> val)) :=
  [ ("sam_write"%string, c_sam_write); ("sam_readhdr"%string, c_sam_readhdr);
    ("sam_read"%string, c_sam_read); ("sam_file"%string, c_sam_file);
    ("sam_flag_get"%string, c_sam_flag_get); ("sam_flag_set"%string, c_sam_flag_set) ].
