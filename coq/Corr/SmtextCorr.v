(* Corr/SmtextCorr.v — correspondence entry points for formats/smtext and the
   SubstitutionMatrix methods; mirrors harness/smtext.go.
   An entry is [i<k0> i<k1> x<canonical score text>]; matrices are shown as
   their entries sorted by key. *)
From Coq Require Import String.
From Bio Require Import Base.
From Bio.Model Require Import Smtext.

Definition v_entry (e : key * F) : val :=
  VL [VI (Z.of_N (fst (fst e))); VI (Z.of_N (snd (fst e))); VB (snd e)].
Definition v_entries (m : smatrix) : val := VL (map v_entry m).
Definition v_matrix (m : smatrix) : val := v_entries (go_string_entries m).

Definition as_entry (v : val) : option (key * F) :=
  match v with
  | VL [VI a; VI b; VB x] => Some ((Z.to_N a, Z.to_N b), x)
  | _ => None
  end.
Definition as_entries (v : val) : option (list (key * F)) :=
  match v with VL l => all_some (map as_entry l) | _ => None end.

(* [bytes term foracle truth]: the fourth field is the generator's ground
   truth for the direct oracle; the model does not look at it. *)
Definition c_ncbi_read (v : val) : val :=
  match v with
  | VL [VB s; t; fo; _] =>
    match as_term t, as_foracle fo with
    | Some t', Some o => v_outcome v_matrix (read_ncbi o s t')
    | _, _ => v_bad
    end
  | _ => v_bad
  end.

(* Symmetrical: when a pair and its mirror are both present with == scores the
   surviving one depends on Go's map iteration order; the two can differ only
   as 0 / -0, so the observable shows -0 as 0 (both sides). *)
Definition canon_zero (x : F) : F := if beqb x [45; 48] then [48] else x.
Definition v_matrix_z (m : smatrix) : val :=
  v_entries (map (fun e => (fst e, canon_zero (snd e))) (go_string_entries m)).

Definition c_matrix_symmetrical (v : val) : val :=
  match v with
  | VL [es] =>
    match as_entries es with
    | Some l => v_outcome v_matrix_z (symmetrical (matrix_of_entries l))
    | None => v_bad
    end
  | _ => v_bad
  end.

(* GoString: the (k0, k1, printed score) triples in output order *)
Definition c_matrix_gostring (v : val) : val :=
  match v with
  | VL [es; fo] =>
    match as_entries es, as_foracle fo with
    | Some l, Some o =>
      v_ok (v_entries (map (fun e => (fst e, fmtF o (snd e)))
                           (go_string_entries (matrix_of_entries l))))
    | _, _ => v_bad
    end
  | _ => v_bad
  end.

Definition corr_smtext : list (string * (val -> val)) :=
  [ ("ncbi_read"%string, c_ncbi_read);
    ("matrix_symmetrical"%string, c_matrix_symmetrical);
    ("matrix_gostring"%string, c_matrix_gostring) ].
