(* Corr/SmtextCorr.v — correspondence entry points. *)
From Coq Require Import String.
From Bio Require Import Base.
From Bio.Model Require Import Smtext.

Definition corr_smtext : list (string * (val -> val)) := [].
