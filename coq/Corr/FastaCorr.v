(* Corr/FastaCorr.v — correspondence entry points. *)
From Coq Require Import String.
From Bio Require Import Base.
From Bio.Model Require Import Fasta.

Definition corr_fasta : list (string * (val -> val)) := [].
