(* Corr/FastaCorr.v — correspondence entry points for package formats/fasta:
   decode a case value, run the model, encode the observable exactly as
   harness/fasta.go encodes the implementation's.

   fasta_write  : [name seq]                 -> [[call ...] marshal]  marshal = [i0 bytes] | [i2]
   fasta_decode : [bytes term chunk]         -> [item ...]            item = [i0 [name seq]] | [i1]
   fasta_layout : [[[name seq] ...] bytes]   -> [item ...]  (Reader on the bytes, EOF-terminated;
                                                 the record list is for the harness oracle only)
   [chunk] (how the harness slices the stream into Read calls) is not observable. *)
From Coq Require Import String.
From Bio Require Import Base.
From Bio.Model Require Import Fasta.

Definition v_fasta (r : fasta) : val := VL [VB (name r); VB (seq r)].

Definition c_fasta_write (v : val) : val :=
  match v with
  | VL [VB n; VB s] =>
    let r := {| name := n; seq := s |} in
    VL [VB (write r); v_outcome VB (marshal_text r)]
  | _ => v_bad
  end.

Definition c_fasta_decode (v : val) : val :=
  match v with
  | VL [VB inp; t; VI _] =>
    match as_term t with
    | Some t' => v_items v_fasta (decode inp t')
    | None => v_bad
    end
  | _ => v_bad
  end.

Definition c_fasta_layout (v : val) : val :=
  match v with
  | VL [VL _; VB inp] => v_items v_fasta (decode inp TEOF)
  | _ => v_bad
  end.

Definition corr_fasta : list (string * (val -> val)) :=
  [ ("fasta_write"%string, c_fasta_write);
    ("fasta_decode"%string, c_fasta_decode);
    ("fasta_layout"%string, c_fasta_layout) ].
