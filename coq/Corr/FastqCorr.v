(* Corr/FastqCorr.v — correspondence entry points for package formats/fastq:
   decode a case value, run the model, encode the observable exactly as
   harness/fastq.go encodes the implementation's. *)
From Coq Require Import String.
From Bio Require Import Base.
From Bio.Model Require Import Fastq.

Definition v_fastq (r : fastq) : val := VL [VB (name r); VB (seq r); VB (quals r)].

(* fastq_write: [name seq quals] -> [ [chunk ...] outcome(marshal bytes) ] *)
Definition c_fastq_write (v : val) : val :=
  match v with
  | VL [VB n; VB s; VB q] =>
    let r := {| name := n; seq := s; quals := q |} in
    VL [VB (concat (write_calls r)); v_outcome VB (marshal_text r)]
  | _ => v_bad
  end.

(* fastq_decode: [bytes term] -> items *)
Definition c_fastq_decode (v : val) : val :=
  match v with
  | VL [VB s; t] =>
    match as_term t with
    | Some t' => v_items v_fastq (decode s t')
    | None => v_bad
    end
  | _ => v_bad
  end.

Definition as_fastq (v : val) : option fastq :=
  match v with
  | VL [VB n; VB s; VB q] => Some {| name := n; seq := s; quals := q |}
  | _ => None
  end.

(* fastq_roundtrip: [[[name seq quals] ...] mode] -> [file items]: the records
   written one after the other (by Write or MarshalText, [mode] says which; the
   bytes are the same) and the written file read back. *)
Definition c_fastq_roundtrip (v : val) : val :=
  match v with
  | VL [VL rs; VI _] =>
    match all_some (map as_fastq rs) with
    | Some rs' =>
      match all_some (map (fun r => match marshal_text r with Ok b => Some b | _ => None end) rs') with
      | Some _ =>
        let file := concat (concat (map write_calls rs')) in
        VL [VB file; v_items v_fastq (decode file TEOF)]
      | None => v_panic
      end
    | None => v_bad
    end
  | _ => v_bad
  end.

(* fastq_corrupt: [records k bytes] -> items of Reader on the bytes (EOF);
   [records] and [k] are for the harness oracle only. *)
Definition c_fastq_corrupt (v : val) : val :=
  match v with
  | VL [VL _; VI _; VB s] => v_items v_fastq (decode s TEOF)
  | _ => v_bad
  end.

Definition corr_fastq : list (string * (val -> val)) :=
  [ ("fastq_write"%string, c_fastq_write); ("fastq_decode"%string, c_fastq_decode);
    ("fastq_roundtrip"%string, c_fastq_roundtrip); ("fastq_corrupt"%string, c_fastq_corrupt) ].
