(* Corr/FastqCorr.v — correspondence entry points. *)
From Coq Require Import String.
From Bio Require Import Base.
From Bio.Model Require Import Fastq.

Definition corr_fastq : list (string * (val -> val)) := [].
