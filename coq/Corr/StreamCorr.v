(* Corr/StreamCorr.v — correspondence entry points (cross-format properties). *)
From Coq Require Import String.
From Bio Require Import Base.

Definition corr_stream : list (string * (val -> val)) := [].
