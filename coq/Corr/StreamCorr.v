(* Corr/StreamCorr.v — correspondence entry points of the cross-format
   properties C06 (delivery independence, File = Reader) and C07 (failing
   streams, failing writers).  Records and items are encoded exactly as in the
   formats' own kinds (FastaCorr.v_fasta, FastqCorr.v_fastq, SamCorr.v_entry /
   v_sam, BedCorr.v_bed, NewickCorr.val_of_tree / v_decoded).

   c06_<fmt>       [bytes schedule withEOF (oracle)] -> items of Reader, EOF-terminated.
                   The schedule (sizes of the successive Read results, 0 = a
                   zero-length read) and withEOF (last data together with io.EOF)
                   are NOT inputs of the model: any dependence of the
                   implementation on them is a mismatch.
   c06_crlf_<fmt>  [bytes (oracle)] -> items of Reader on the bytes with every LF
                   replaced by CR LF ([Stream.crlf]), EOF-terminated.
   c06_file_<fmt>  [bytes mode (oracle)] -> items of File; mode 0 plain file,
                   1 gzip file named *.gz, 2 the path does not exist.
                   sam: [items of File, items of FileHeader].
   c07_read_<fmt>  [bytes k forever (oracle)] -> items of Reader on a stream that
                   delivers the first k bytes and then fails (once / forever:
                   not an input of the model).
   c07_write_<fmt> [record k (oracle)] -> [i0 emitted] | [i1 emitted] | [i2]:
                   Write into a writer that accepts k bytes; emitted = the
                   bytes that reached the writer.
   (oracle): the float oracle, for sam and newick only, as in their own kinds.
   <fmt> = fasta fastq sam bed newick; for sam the reader is ReaderHeader, and
   c06_samrec / c07_read_samrec are the same two kinds for sam.Reader. *)
From Coq Require Import String.
From Bio Require Import Base.
From Bio.Model Require Fasta Fastq Sam Bed Newick.
From Bio.Model Require Import Stream.
From Bio.Corr Require FastaCorr FastqCorr SamCorr BedCorr NewickCorr.

Definition as_nat (v : val) : option nat :=
  match v with VI z => if (z <? 0)%Z then None else Some (Z.to_nat z) | _ => None end.

(* the schedule must be a list of non-negative sizes; it is otherwise ignored *)
Definition sched_ok (v : val) : bool :=
  match as_int_list v with Some l => forallb (fun z => (0 <=? z)%Z) l | None => false end.

(* mode of a c06_file case: (opened, gz) *)
Definition as_mode (v : val) : option (bool * bool) :=
  match v with
  | VI 0%Z => Some (true, false)
  | VI 1%Z => Some (true, true)
  | VI 2%Z => Some (false, false)
  | _ => None
  end.

Definition v_written (r : outcome unit * bytes) : val :=
  match fst r with
  | Ok _ => VL [VI 0; VB (snd r)]
  | Err => VL [VI 1; VB (snd r)]
  | Panic => v_panic
  end.

(* ------------------------------------------------------------------ *)
(* the five readers as functions of (oracle, bytes, term) to a val      *)

Definition rd_fasta (s : bytes) (t : term) : val := v_items FastaCorr.v_fasta (Fasta.decode s t).
Definition rd_fastq (s : bytes) (t : term) : val := v_items FastqCorr.v_fastq (Fastq.decode s t).
Definition rd_bed (s : bytes) (t : term) : val := v_items BedCorr.v_bed (Bed.decode s t).
Definition rd_samhdr (o : foracle) (s : bytes) (t : term) : val :=
  v_items SamCorr.v_entry (Sam.reader_header o s t).
Definition rd_sam (o : foracle) (s : bytes) (t : term) : val :=
  v_items SamCorr.v_sam (Sam.reader o s t).
Definition rd_newick (o : foracle) (s : bytes) (t : term) : val :=
  NewickCorr.v_decoded (Newick.decode o s t).

(* ------------------------------------------------------------------ *)
(* C06: Reader under a schedule                                         *)

Definition c06_plain (rd : bytes -> term -> val) (v : val) : val :=
  match v with
  | VL [VB s; sch; VI _] => if sched_ok sch then rd s TEOF else v_bad
  | _ => v_bad
  end.

Definition c06_oracle (rd : foracle -> bytes -> term -> val) (v : val) : val :=
  match v with
  | VL [VB s; sch; VI _; ov] =>
    match as_foracle ov with
    | Some o => if sched_ok sch then rd o s TEOF else v_bad
    | None => v_bad
    end
  | _ => v_bad
  end.

(* C06: Reader on the text with CR LF line terminators *)
Definition c06_crlf_plain (rd : bytes -> term -> val) (v : val) : val :=
  match v with
  | VL [VB s] => rd (crlf s) TEOF
  | _ => v_bad
  end.

Definition c06_crlf_oracle (rd : foracle -> bytes -> term -> val) (v : val) : val :=
  match v with
  | VL [VB s; ov] =>
    match as_foracle ov with
    | Some o => rd o (crlf s) TEOF
    | None => v_bad
    end
  | _ => v_bad
  end.

(* ------------------------------------------------------------------ *)
(* C06: File                                                            *)

Definition v_open_error : val := VL [VL [VI 1]].          (* exactly one error item *)

Definition c06_file_plain (rd : bytes -> term -> val) (v : val) : val :=
  match v with
  | VL [VB s; m] =>
    match as_mode m with
    | Some (opened, gz) => file_run v_open_error opened gz rd s
    | None => v_bad
    end
  | _ => v_bad
  end.

Definition c06_file_sam (v : val) : val :=
  match v with
  | VL [VB s; m; ov] =>
    match as_mode m, as_foracle ov with
    | Some (opened, gz), Some o =>
      VL [file_run v_open_error opened gz (rd_sam o) s;
          file_run v_open_error opened gz (rd_samhdr o) s]
    | _, _ => v_bad
    end
  | _ => v_bad
  end.

(* newick items travel inside an outcome ([i0 items]) *)
Definition c06_file_newick (v : val) : val :=
  match v with
  | VL [VB s; m; ov] =>
    match as_mode m, as_foracle ov with
    | Some (opened, gz), Some o => file_run (v_ok v_open_error) opened gz (rd_newick o) s
    | _, _ => v_bad
    end
  | _ => v_bad
  end.

(* ------------------------------------------------------------------ *)
(* C07: Reader on a failing stream                                      *)

Definition c07_read_plain (rd : bytes -> term -> val) (v : val) : val :=
  match v with
  | VL [VB s; kv; VI _] =>
    match as_nat kv with
    | Some k => rd (firstn k s) TErr
    | None => v_bad
    end
  | _ => v_bad
  end.

Definition c07_read_oracle (rd : foracle -> bytes -> term -> val) (v : val) : val :=
  match v with
  | VL [VB s; kv; VI _; ov] =>
    match as_nat kv, as_foracle ov with
    | Some k, Some o => rd o (firstn k s) TErr
    | _, _ => v_bad
    end
  | _ => v_bad
  end.

(* ------------------------------------------------------------------ *)
(* C07: Write into a failing writer                                     *)

Definition c07_write_fasta (v : val) : val :=
  match v with
  | VL [VL [VB n; VB s]; kv] =>
    match as_nat kv with
    | Some k => v_written (write_to_fasta k {| Fasta.name := n; Fasta.seq := s |})
    | None => v_bad
    end
  | _ => v_bad
  end.

Definition c07_write_fastq (v : val) : val :=
  match v with
  | VL [rv; kv] =>
    match FastqCorr.as_fastq rv, as_nat kv with
    | Some r, Some k => v_written (write_to_fastq k r)
    | _, _ => v_bad
    end
  | _ => v_bad
  end.

Definition c07_write_sam (v : val) : val :=
  match v with
  | VL [rv; kv; ov] =>
    match SamCorr.as_sam rv, as_nat kv, as_foracle ov with
    | Some r, Some k, Some o => v_written (write_to_sam o k r)
    | _, _, _ => v_bad
    end
  | _ => v_bad
  end.

Definition c07_write_bed (v : val) : val :=
  match v with
  | VL [rv; kv] =>
    match BedCorr.as_bed rv, as_nat kv with
    | Some b, Some k => v_written (write_to_bed k b)
    | _, _ => v_bad
    end
  | _ => v_bad
  end.

Definition c07_write_newick (v : val) : val :=
  match v with
  | VL [tv; kv; ov] =>
    match NewickCorr.tree_of_val tv, as_nat kv, as_foracle ov with
    | Some t, Some k, Some o => v_written (write_to_newick o k t)
    | _, _, _ => v_bad
    end
  | _ => v_bad
  end.

Definition corr_stream : list (string * (val -> val)) :=
  [ ("c06_fasta"%string, c06_plain rd_fasta);
    ("c06_fastq"%string, c06_plain rd_fastq);
    ("c06_sam"%string, c06_oracle rd_samhdr);
    ("c06_samrec"%string, c06_oracle rd_sam);
    ("c06_bed"%string, c06_plain rd_bed);
    ("c06_newick"%string, c06_oracle rd_newick);
    ("c06_crlf_fasta"%string, c06_crlf_plain rd_fasta);
    ("c06_crlf_fastq"%string, c06_crlf_plain rd_fastq);
    ("c06_crlf_sam"%string, c06_crlf_oracle rd_samhdr);
    ("c06_crlf_bed"%string, c06_crlf_plain rd_bed);
    ("c06_crlf_newick"%string, c06_crlf_oracle rd_newick);
    ("c06_file_fasta"%string, c06_file_plain rd_fasta);
    ("c06_file_fastq"%string, c06_file_plain rd_fastq);
    ("c06_file_sam"%string, c06_file_sam);
    ("c06_file_bed"%string, c06_file_plain rd_bed);
    ("c06_file_newick"%string, c06_file_newick);
    ("c07_read_fasta"%string, c07_read_plain rd_fasta);
    ("c07_read_fastq"%string, c07_read_plain rd_fastq);
    ("c07_read_sam"%string, c07_read_oracle rd_samhdr);
    ("c07_read_samrec"%string, c07_read_oracle rd_sam);
    ("c07_read_bed"%string, c07_read_plain rd_bed);
    ("c07_read_newick"%string, c07_read_oracle rd_newick);
    ("c07_write_fasta"%string, c07_write_fasta);
    ("c07_write_fastq"%string, c07_write_fastq);
    ("c07_write_sam"%string, c07_write_sam);
    ("c07_write_bed"%string, c07_write_bed);
    ("c07_write_newick"%string, c07_write_newick) ].
