(* Corr.v — the dispatcher of the correspondence check: kind name -> model run. *)
From Coq Require Import String.
From Bio Require Import Base.
From Bio.Corr Require Import SeqCorr FastaCorr FastqCorr SamCorr BedCorr NewickCorr AlignCorr
  TrieCorr RegionsCorr MashCorr SmtextCorr StreamCorr TotalCorr.

Definition corr_all : list (string * (val -> val)) :=
  corr_seq ++ corr_fasta ++ corr_fastq ++ corr_sam ++ corr_bed ++ corr_newick ++ corr_align
  ++ corr_trie ++ corr_regions ++ corr_mash ++ corr_smtext ++ corr_stream ++ corr_total.

Definition v_unknown_kind : val := VL [VI 98].

Definition run_case (kind : string) (v : val) : val :=
  match find (fun p => String.eqb (fst p) kind) corr_all with
  | Some p => snd p v
  | None => v_unknown_kind
  end.
