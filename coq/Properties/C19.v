(* Properties/C19.v — Tree traversals visit every node exactly once in the
   documented order.  Only statements; every proof is [exact <lemma>].

   [traverse pre t] (Model/Newick.v) is the explicit stack of
   (node, next child index) of traverse.go, with fuel 2*size+2 and [Panic] when
   the fuel runs out or a child index is out of range.  It yields node
   occurrences (path from the root, node).  [preorder]/[postorder]
   (Spec/NewickSpec.v) are the classic recursive definitions.
   "Does not modify the tree" holds on the model by purity and is checked on
   the implementation by the harness; "deeper than any recursion limit" is a
   fact about Go's stack and is harness-only (chains of depth 10^5..10^6). *)
From Coq Require Import String.
From Bio Require Import Base.
From Bio.Model Require Import Newick.
From Bio.Spec Require Import NewickSpec.
From Bio.Proofs Require Import NewickProofs.

(* PreOrder = the classic recursive pre-order, children in slice order; the
   fuel suffices and no index is out of range (the result is never Panic). *)
Theorem C19_preorder_eq : forall t, traverse true t = Ok (preorder t).
Proof. exact traverse_preorder. Qed.
Print Assumptions C19_preorder_eq.

Theorem C19_postorder_eq : forall t, traverse false t = Ok (postorder t).
Proof. exact traverse_postorder. Qed.
Print Assumptions C19_postorder_eq.

(* Exactly the nodes of the tree: (p, n) is yielded iff n is the node at path p. *)
Theorem C19_every_node : forall pre t l, traverse pre t = Ok l ->
  forall p n, In (p, n) l <-> subtree_at t p = Some n.
Proof. exact traverse_every_node. Qed.
Print Assumptions C19_every_node.

(* Each node exactly once: no occurrence is repeated, and there are size t of them. *)
Theorem C19_each_once : forall pre t l, traverse pre t = Ok l ->
  NoDup (map fst l) /\ length l = size t.
Proof. exact traverse_each_once. Qed.
Print Assumptions C19_each_once.

(* Pre-order: every node before all of its descendants. *)
Theorem C19_ancestor_before : forall t a d,
  In a (preorder t) -> In d (preorder t) -> strict_prefix (fst a) (fst d) ->
  before (preorder t) a d.
Proof. exact pre_ancestor_first. Qed.
Print Assumptions C19_ancestor_before.

(* Post-order: every node after all of its descendants. *)
Theorem C19_descendant_before : forall t a d,
  In a (postorder t) -> In d (postorder t) -> strict_prefix (fst a) (fst d) ->
  before (postorder t) d a.
Proof. exact post_descendant_first. Qed.
Print Assumptions C19_descendant_before.

(* Non-vacuity: a 6-node tree ((a,b)c,(d)e)f. *)
Definition C19_leaf (s : string) : tree := Node (bs s) [48] [].
Definition C19_tree : tree :=
  Node (bs "f") [48] [Node (bs "c") [48] [C19_leaf "a"; C19_leaf "b"];
                      Node (bs "e") [48] [C19_leaf "d"]].
Example C19_example :
  option_map (map fst) (match traverse true C19_tree with Ok l => Some l | _ => None end)
    = Some [[]; [0]; [0; 0]; [0; 1]; [1]; [1; 0]]%nat
  /\ option_map (map (fun x => t_name (snd x)))
       (match traverse false C19_tree with Ok l => Some l | _ => None end)
    = Some [bs "a"; bs "b"; bs "c"; bs "d"; bs "e"; bs "f"]
  /\ strict_prefix [0]%nat [0; 1]%nat.
Proof. vm_compute. repeat split. exists [1%nat]. split; [discriminate | reflexivity]. Qed.

(* ---- tie to the Go source by translation of whole function bodies (gen/ImpGen.v, written
   by `harness gen-imp` on every run, in the embedding of Model/GoSem.v) ------------------- *)
From Bio.gen Require ImpGen.
From Bio.Model Require GoSem.
From Bio.Proofs Require ImpProofs ImpProofsI.

(* traverse as translated from traverse.go (the explicit stack of traversalStep values, the
   pre / post yields, the pop by reslicing, the push followed by stack[stepi].i++) yields, to a
   consumer that never stops, exactly the nodes of the model's traversal in the same order,
   for every tree and both orders.  Fuel above 2*size+2 runs the `for len(stack) > 0` loop
   to its end.  (Stopping early is C18's subject: the two yields are guarded, which
   C18_source_yields_guarded reads off the same source.) *)
Theorem C19_traverse_is_source : forall fuel pre t l, (2 * size t + 2 < fuel)%nat ->
  traverse pre t = Ok l ->
  ImpGen.imp_newick_Node_traverse fuel (ImpProofsI.node_of t) pre = GoSem.Ret (map ImpProofsI.nd l).
Proof. exact ImpProofsI.imp_traverse. Qed.
Print Assumptions C19_traverse_is_source.

Example C19_source_example :
  let t := Node (bs "r") zeroF [Node (bs "a") zeroF [Node (bs "c") zeroF []]; Node (bs "b") zeroF []] in
  map ImpGen.imp_newick_Node_Name
    (match ImpGen.imp_newick_Node_traverse 20 (ImpProofsI.node_of t) true with GoSem.Ret l => l | _ => [] end)
  = [bs "r"; bs "a"; bs "c"; bs "b"]
  /\ map ImpGen.imp_newick_Node_Name
    (match ImpGen.imp_newick_Node_traverse 20 (ImpProofsI.node_of t) false with GoSem.Ret l => l | _ => [] end)
  = [bs "c"; bs "a"; bs "b"; bs "r"].
Proof. vm_compute. split; reflexivity. Qed.

(* ---- the two orders, about the translated source -------------------------------------------------------- *)
From Bio.Proofs Require ImpProofsW.
Theorem C19_orders_are_source : forall fuel t, (2 * size t + 2 < fuel)%nat ->
  ImpGen.imp_newick_Node_traverse fuel (ImpProofsI.node_of t) true = GoSem.Ret (map ImpProofsI.nd (preorder t))
  /\ ImpGen.imp_newick_Node_traverse fuel (ImpProofsI.node_of t) false = GoSem.Ret (map ImpProofsI.nd (postorder t)).
Proof. exact ImpProofsW.traverse_orders_src. Qed.
Print Assumptions C19_orders_are_source.

(* the exported PreOrder / PostOrder (traverse.go) as translated *)
Theorem C19_pre_post_order_is_source : forall fuel t, (2 * size t + 2 < fuel)%nat ->
  ImpGen.imp_newick_Node_PreOrder fuel (ImpProofsI.node_of t) = GoSem.Ret (map ImpProofsI.nd (preorder t))
  /\ ImpGen.imp_newick_Node_PostOrder fuel (ImpProofsI.node_of t) = GoSem.Ret (map ImpProofsI.nd (postorder t)).
Proof. exact ImpProofsW.pre_post_order_src. Qed.
Print Assumptions C19_pre_post_order_is_source.
