(* Properties/C12.v — Reverse complement is an involution; canonical k-mers are
   strand-independent.  Only statements; every proof is [exact <lemma>].
   The model (Model/Seq.v) reads the complement table from gen/Tables.v, which
   is regenerated from the implementation on every run; the spec objects
   (compl, rcseq, window, lexmin) are in Spec/SeqSpec.v.
   Not covered here (harness only): that src and dst's existing content are
   untouched as memory (aliasing). *)
From Coq Require Import String.
From Bio Require Import Base.
From Bio.gen Require Import Tables.
From Bio.Model Require Import Seq.
From Bio.Spec Require Import SeqSpec.
From Bio.Proofs Require Import SeqProofs.

(* ---- the 256-entry table ---------------------------------------------------- *)
(* complementByte is the textbook complement on aAcCgGtTnN and panics (None) on
   every other value, for all b : N (256-entry sweep of the regenerated table;
   values >= 256 are outside the table on both sides). *)
Theorem C12_comp_table_exact : forall b, comp b = compl b.
Proof. exact comp_table_exact. Qed.
Print Assumptions C12_comp_table_exact.

Theorem C12_comp_accepts_iff : forall b,
  (exists c, comp b = Some c) <-> In b (bs "aAcCgGtTnN").
Proof. exact comp_accepts_iff. Qed.
Print Assumptions C12_comp_accepts_iff.

Theorem C12_comp_involutive_table : forall b c, comp b = Some c -> comp c = Some b.
Proof. exact comp_involutive. Qed.
Print Assumptions C12_comp_involutive_table.

Theorem C12_comp_case_preserving : forall b c, comp b = Some c -> is_lower c = is_lower b.
Proof. exact comp_case_preserving. Qed.
Print Assumptions C12_comp_case_preserving.

(* ---- ReverseComplement, any length, any dst prefix ----------------------------- *)
(* dst followed by the reversed, base-wise complemented copy of src *)
Theorem C12_rc_spec : forall dst src, dna10 src ->
  rc dst src = Ok (dst ++ rev (map complb src)).
Proof. exact rc_spec. Qed.
Print Assumptions C12_rc_spec.

(* applying it twice gives back the original *)
Theorem C12_rc_involutive : forall s, dna10 s ->
  exists r, rc [] s = Ok r /\ rc [] r = Ok s.
Proof. exact rc_involutive. Qed.
Print Assumptions C12_rc_involutive.

Theorem C12_rc_string_agrees : forall s, rc_string s = rc [] s.
Proof. exact rc_string_agrees. Qed.
Print Assumptions C12_rc_string_agrees.

(* any other byte causes a panic, and nothing else does *)
Theorem C12_rc_panics_iff : forall dst src,
  rc dst src = Panic <-> Exists (fun b => is_dna10 b = false) src.
Proof. exact rc_panics_iff. Qed.
Print Assumptions C12_rc_panics_iff.

(* ---- CanonicalSubsequences ------------------------------------------------------- *)
(* exactly len(seq)-k+1 items, none if k > len(seq) *)
Theorem C12_canon_count : forall s k, dna10 s -> (1 <= k)%Z ->
  exists items, canon s k = Ok items /\
    Z.of_nat (length items) =
      (if (Z.of_nat (length s) <? k)%Z then 0 else Z.of_nat (length s) - k + 1)%Z.
Proof. exact canon_count. Qed.
Print Assumptions C12_canon_count.

(* the i-th is the lexicographically smaller of seq[i:i+k] and its reverse complement *)
Theorem C12_canon_nth : forall s k items i, (1 <= k)%Z -> canon s k = Ok items ->
  (i + Z.to_nat k <= length s)%nat ->
  nth_error items i =
    Some (lexmin (window s i (Z.to_nat k)) (rcseq (window s i (Z.to_nat k)))).
Proof. exact canon_nth_pos. Qed.
Print Assumptions C12_canon_nth.

(* lexmin really is the smaller one: the item is one of the two and not above either *)
Theorem C12_canon_item_min : forall s k items i x, (1 <= k)%Z -> canon s k = Ok items ->
  nth_error items i = Some x ->
  let w := window s i (Z.to_nat k) in
  (x = w \/ x = rcseq w) /\ bcompare x w <> Gt /\ bcompare x (rcseq w) <> Gt.
Proof. exact canon_item_min_pos. Qed.
Print Assumptions C12_canon_item_min.

(* a sequence and its reverse complement yield the same items in opposite order *)
Theorem C12_canon_strand_symmetric : forall s k items, dna10 s -> (1 <= k)%Z ->
  canon s k = Ok items -> canon (rcseq s) k = Ok (rev items).
Proof. exact canon_strand_symmetric_pos. Qed.
Print Assumptions C12_canon_strand_symmetric.

Theorem C12_canon_panics_iff : forall s k,
  canon s k = Panic <-> ((k < 0)%Z \/ Exists (fun b => is_dna10 b = false) s).
Proof. exact canon_panics_iff. Qed.
Print Assumptions C12_canon_panics_iff.

(* Non-vacuity: concrete values meeting the hypotheses. *)
Example C12_example :
  dna10 (bs "aACgtNn")
  /\ rc (bs "xy") (bs "aACgtNn") = Ok (bs "xynNacGTt")
  /\ rc [] (bs "nNacGTt") = Ok (bs "aACgtNn")
  /\ rc [] (bs "ACXT") = Panic
  /\ canon (bs "AAGTT") 2 = Ok [bs "AA"; bs "AG"; bs "AC"; bs "AA"]
  /\ canon (rcseq (bs "AAGTT")) 2 = Ok [bs "AA"; bs "AC"; bs "AG"; bs "AA"]
  /\ canon (bs "ACG") 4 = Ok []
  /\ lexmin (bs "GT") (rcseq (bs "GT")) = bs "AC".
Proof. vm_compute. repeat split; repeat constructor. Qed.

(* ---- tie to the Go source by translation of whole function bodies (gen/ImpGen.v, written
   by `harness gen-imp` on every run, in the embedding of Model/GoSem.v) ------------------- *)
From Bio.gen Require ImpGen.
From Bio.Model Require GoSem.
From Bio.Proofs Require ImpProofs ImpProofsB.

(* The model's ReverseComplement is, for every dst and every byte sequence, the function
   translated from sequtil.go: the same bytes, or a panic in the same cases. *)
Theorem C12_reverse_complement_is_source : forall dst src, ImpProofs.all_bytes src ->
  ImpGen.imp_sequtil_ReverseComplement dst src = ImpProofs.of_outcome (rc dst src).
Proof. exact ImpProofs.imp_ReverseComplement. Qed.
Print Assumptions C12_reverse_complement_is_source.

(* The items of the model's CanonicalSubsequences are, for every sequence and every k
   (negative included), the items that the translated iterator body yields. *)
Theorem C12_canonical_is_source : forall s k, ImpProofs.all_bytes s ->
  ImpGen.imp_sequtil_CanonicalSubsequences s k = ImpProofs.of_outcome (canon s k).
Proof. exact ImpProofsB.imp_CanonicalSubsequences. Qed.
Print Assumptions C12_canonical_is_source.

Example C12_source_example :
  ImpGen.imp_sequtil_ReverseComplement [7] (bs "aCgN") = GoSem.Ret (7 :: bs "NcGt")
  /\ ImpGen.imp_sequtil_ReverseComplement [] (bs "ax") = GoSem.Panics
  /\ ImpGen.imp_sequtil_CanonicalSubsequences (bs "ACGTT") 3 = GoSem.Ret [bs "ACG"; bs "ACG"; bs "AAC"]
  /\ ImpGen.imp_sequtil_CanonicalSubsequences (bs "ACGTT") (-1) = GoSem.Panics
  /\ ImpProofs.all_bytes (bs "aCgN").
Proof. vm_compute. repeat split; repeat constructor. Qed.

(* ReverseComplementString (a strings.Builder filled byte by byte) is the model's. *)
Theorem C12_reverse_complement_string_is_source : forall s, ImpProofs.all_bytes s ->
  ImpGen.imp_sequtil_ReverseComplementString s = ImpProofs.of_outcome (rc_string s).
Proof. exact ImpProofs.imp_ReverseComplementString. Qed.
Print Assumptions C12_reverse_complement_string_is_source.

(* ---- reverse complement twice, about the translated source -------------------------------------------- *)
From Bio.Proofs Require ImpProofsW.
Theorem C12_rc_involutive_is_source : forall s, dna10 s ->
  exists r, ImpGen.imp_sequtil_ReverseComplement [] s = GoSem.Ret r
            /\ ImpGen.imp_sequtil_ReverseComplement [] r = GoSem.Ret s.
Proof. exact ImpProofsW.rc_involutive_src. Qed.
Print Assumptions C12_rc_involutive_is_source.
