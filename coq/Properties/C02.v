(* Properties/C02.v — FASTQ records survive write -> read; malformed records are
   rejected.  Only statements; every proof is [exact <lemma>].

   Model: Model/Fastq.v ([write], [write_calls], [marshal_text], [decode]);
   the reader is Base.scan_tokens (bufio.Scanner + ScanLines, no token limit)
   followed by the four-Scan loop of reader.read().
   Domain: Spec/FastqSpec.v ([fq_ok], [Corrupt]). *)
From Coq Require Import String.
From Bio Require Import Base.
From Bio.Model Require Import Fastq.
From Bio.Spec Require Import FastqSpec.
From Bio.Proofs Require Import FastqProofs FastqProofsB FastqProofsC.

(* MarshalText never panics (its length self-check never fires) and returns
   exactly what Write writes: for every record, of any content and length. *)
Theorem C02_marshal_total : forall r, marshal_text r = Ok (write r).
Proof. exact marshal_total. Qed.
Print Assumptions C02_marshal_total.

(* Write hands the record to the io.Writer in a single call. *)
Theorem C02_write_single_call : forall r,
  write_calls r = [write r] /\ concat (write_calls r) = write r.
Proof. exact write_calls_single. Qed.
Print Assumptions C02_write_single_call.

(* Each record is written as exactly four lines '@name', sequence, '+',
   qualities: the text is those four lines each followed by LF, it contains
   exactly four LFs, and cutting it at the LFs gives the four lines back. *)
Theorem C02_four_lines : forall r, fq_ok r ->
  write r = unlines [AT :: name r; seq r; [PLUS]; quals r]
  /\ count_lf (write r) = 4%nat
  /\ split_on LF (write r) = [AT :: name r; seq r; [PLUS]; quals r; []].
Proof. exact four_lines_ok. Qed.
Print Assumptions C02_four_lines.

(* Round trip: any list of records of the domain (three fields free of CR/LF,
   |sequence| = |qualities|), written one after the other and read back, yields
   exactly the same records in order.  No hypothesis on any length: read
   lengths 0, 64 KiB, several MiB are all instances. *)
Theorem C02_roundtrip : forall rs, Forall fq_ok rs ->
  decode (concat (map write rs)) TEOF = map Rec rs.
Proof. exact roundtrip. Qed.
Print Assumptions C02_roundtrip.

(* the same when the file is assembled from MarshalText results *)
Theorem C02_roundtrip_marshal : forall rs bs, Forall fq_ok rs ->
  Forall2 (fun r b => marshal_text r = Ok b) rs bs ->
  decode (concat bs) TEOF = map Rec rs.
Proof. exact roundtrip_marshal. Qed.
Print Assumptions C02_roundtrip_marshal.

(* Corruption: if the valid records [pre] are followed by text [c] whose first
   record lacks the leading '@', lacks the '+' line, has qualities of another
   length than the sequence, or ends before its fourth line (Spec/FastqSpec.v
   [Corrupt]), the reader yields exactly the preceding records and then one
   error: no fabricated record, nothing after the error. *)
Theorem C02_corruption : forall pre c, Forall fq_ok pre -> Corrupt c ->
  decode (concat (map write pre) ++ c) TEOF = map Rec pre ++ [ErrItem].
Proof. exact corruption. Qed.
Print Assumptions C02_corruption.

(* ... and the same when the stream ends with a read error instead of EOF. *)
Theorem C02_corruption_any_term : forall t pre c, Forall fq_ok pre -> Corrupt c ->
  decode (concat (map write pre) ++ c) t = map Rec pre ++ [ErrItem].
Proof. exact corruption_any_term. Qed.
Print Assumptions C02_corruption_any_term.

(* Preceding valid records are delivered intact whatever follows them (valid,
   corrupt or garbage) and however the stream ends. *)
Theorem C02_preceding_intact : forall t pre c, Forall fq_ok pre ->
  decode (concat (map write pre) ++ c) t = map Rec pre ++ decode c t.
Proof. exact decode_prefix. Qed.
Print Assumptions C02_preceding_intact.

(* For every input whatsoever: records (each with |qualities| = |sequence|),
   then at most one error item, which is the last item; a stream that ends
   with a read error always ends with an error item. *)
Theorem C02_items_shape : forall s t,
  exists rs, Forall (fun r => length (quals r) = length (seq r)) rs
    /\ (decode s t = map Rec rs ++ [ErrItem] \/ (t = TEOF /\ decode s t = map Rec rs)).
Proof. exact decode_shape. Qed.
Print Assumptions C02_items_shape.

(* The corruption classes contain the damaged records one expects: a record of
   the domain whose '@' is missing, whose '+' line is replaced by a line not
   starting with '+', whose qualities have another length, or which is cut after
   its first, second or third line. *)
Theorem C02_corrupt_missing_at : forall r rest, fq_ok r -> ~ starts_with AT (name r) ->
  Corrupt (name r ++ LF :: seq r ++ LF :: PLUS :: LF :: quals r ++ LF :: rest).
Proof. exact corrupt_missing_at. Qed.
Print Assumptions C02_corrupt_missing_at.

Theorem C02_corrupt_missing_plus : forall r l3 rest, fq_ok r -> no_lf l3 -> ~ starts_with PLUS l3 ->
  Corrupt ((AT :: name r) ++ LF :: seq r ++ LF :: l3 ++ LF :: quals r ++ LF :: rest).
Proof. exact corrupt_missing_plus. Qed.
Print Assumptions C02_corrupt_missing_plus.

Theorem C02_corrupt_quals_length : forall nm sq ql rest,
  field_ok nm -> field_ok sq -> field_ok ql -> length ql <> length sq ->
  Corrupt ((AT :: nm) ++ LF :: sq ++ LF :: [PLUS] ++ LF :: ql ++ LF :: rest).
Proof. exact corrupt_quals_length. Qed.
Print Assumptions C02_corrupt_quals_length.

Theorem C02_corrupt_cut_record : forall r k, fq_ok r -> (1 <= k <= 3)%nat ->
  Corrupt (unlines (firstn k (record_lines r))).
Proof. exact corrupt_cut_record. Qed.
Print Assumptions C02_corrupt_cut_record.

(* ------------------------------------------------------------------ *)
(* Non-vacuity: the hypotheses are met by concrete, non-trivial values. *)

(* three records of the domain: a name starting with '@', a sequence equal to
   "+", qualities starting with '@' and '+', an empty read *)
Example C02_example_domain : Forall fq_ok [ex_r1; ex_r2; ex_r3].
Proof. exact ex_domain. Qed.

Example C02_example_roundtrip :
  concat (map write [ex_r1; ex_r2; ex_r3])
    = bs "@@read 1/2" ++ LF :: bs "+" ++ LF :: bs "+" ++ LF :: bs "@" ++ LF ::
      bs "@" ++ LF :: LF :: bs "+" ++ LF :: LF ::
      bs "@r3" ++ LF :: bs "ACGT" ++ LF :: bs "+" ++ LF :: bs "+I@!" ++ [LF]
  /\ decode (concat (map write [ex_r1; ex_r2; ex_r3])) TEOF = [Rec ex_r1; Rec ex_r2; Rec ex_r3].
Proof. exact ex_roundtrip. Qed.

(* the domain hypotheses are needed: a name ending in CR comes back without it;
   qualities shorter than the sequence are not read back at all *)
Example C02_example_domain_needed :
  decode (write {| name := bs "a" ++ [CR]; seq := bs "AC"; quals := bs "II" |}) TEOF
    = [Rec {| name := bs "a"; seq := bs "AC"; quals := bs "II" |}]
  /\ decode (write {| name := bs "a"; seq := bs "AC"; quals := bs "I" |}) TEOF = [ErrItem].
Proof. exact ex_domain_needed. Qed.

(* one concrete text in each corruption class *)
Example C02_example_corrupt :
  Corrupt (bs "r2" ++ LF :: bs "AC" ++ LF :: bs "+" ++ LF :: bs "II" ++ [LF])
  /\ Corrupt (LF :: bs "@r2" ++ LF :: bs "AC" ++ LF :: bs "+" ++ LF :: bs "II" ++ [LF])
  /\ Corrupt (bs "@r2" ++ LF :: bs "AC" ++ LF :: bs "-" ++ LF :: bs "II" ++ [LF])
  /\ Corrupt (bs "@r2" ++ CR :: LF :: bs "AC" ++ CR :: LF :: bs "+" ++ CR :: LF :: bs "III" ++ CR :: [LF])
  /\ Corrupt (bs "@r2" ++ LF :: bs "AC")
  /\ Corrupt (bs "@r2" ++ LF :: bs "AC" ++ LF :: bs "+" ++ [LF]).
Proof.
  exact (conj ex_corrupt_no_at (conj ex_corrupt_blank_line (conj ex_corrupt_no_plus
        (conj ex_corrupt_length_crlf ex_corrupt_cut)))).
Qed.

Example C02_example_corruption_run :
  decode (concat (map write [ex_r1; ex_r3])
          ++ bs "@r2" ++ LF :: bs "AC" ++ LF :: bs "+" ++ LF :: bs "III" ++ LF :: write ex_r3) TEOF
  = [Rec ex_r1; Rec ex_r3; ErrItem].
Proof. exact ex_corruption_run. Qed.

(* ---- tie to the Go source by translation (gen/SrcGen.v, regenerated on every run) ---- *)
From Bio.gen Require SrcGen.
From Bio.Proofs Require SrcGenProofs.

(* the single chunk Fastq.Write hands to the writer is the translated Fprintf call
   "@%s\n%s\n+\n%s\n" applied to name, sequence and qualities *)
Theorem C02_write_format_is_source : forall r,
  Bio.Model.Fastq.write_calls r
  = [SrcGen.src_fastq_Write_0 (Bio.Model.Fastq.name r) (Bio.Model.Fastq.seq r) (Bio.Model.Fastq.quals r)].
Proof. exact SrcGenProofs.fastq_write_is_source. Qed.
Print Assumptions C02_write_format_is_source.

(* ---- tie to the Go source by translation of whole function bodies (gen/ImpGen.v, written
   by `harness gen-imp` on every run, in the embedding of Model/GoSem.v) ------------------- *)
From Bio.gen Require ImpGen.
From Bio.Model Require GoSem.
From Bio.Proofs Require ImpProofs ImpProofsG.

Theorem C02_write_is_source : forall r,
  ImpGen.imp_fastq_Fastq_Write (ImpProofsG.fq_of r) = GoSem.Ret (Bio.Model.Fastq.write_calls r, false).
Proof. exact ImpProofsG.imp_Fastq_Write. Qed.
Print Assumptions C02_write_is_source.

From Bio.Proofs Require ImpProofsK.

(* reader.read as translated from fastq.go — four Scan calls, the '@' and '+' tests, the
   length test, and the endings: io.EOF only before a record, io.ErrUnexpectedEOF inside one,
   "fastq read: ..." for a scanner error — answers, for every token list and both terminal
   conditions, as the model's read_one does: the same record and the same tokens left, the
   clean end exactly when the model says so, an error other than io.EOF exactly when the
   model says error.  The *bufio.Scanner is the value GoSem.go_scanner (current token, tokens
   to come, Err() after the end); how bytes split into tokens is Base.scan_tokens. *)
Theorem C02_read_is_source : forall cur toks t,
  ImpProofsK.fq_agrees t (Bio.Model.Fastq.read_one (toks, t))
    (ImpGen.imp_fastqrd_reader_read (GoSem.Scanner cur toks (ImpProofsK.scan_code t) false)).
Proof. exact ImpProofsK.imp_fastq_read. Qed.
Print Assumptions C02_read_is_source.

Example C02_source_read_example :
  ImpGen.imp_fastqrd_reader_read (GoSem.Scanner [] [bs "@r"; bs "ACG"; bs "+"; bs "!!!"; bs "@s"] 0%Z false)
  = GoSem.Ret (GoSem.Scanner (bs "!!!") [bs "@s"] 0%Z false, (ImpGen.Imp_fastqrd_Fastq (bs "r") (bs "ACG") (bs "!!!"), 0%Z))
  /\ ImpGen.imp_fastqrd_reader_read (GoSem.Scanner [] [bs "@r"; bs "ACG"] 0%Z false)
  = GoSem.Ret (GoSem.Scanner [] [] 0%Z true, (ImpGen.Imp_fastqrd_Fastq [] [] [], 3%Z)).
Proof. vm_compute. split; reflexivity. Qed.

(* reader.iter as translated from iter.go yields, to a consumer that never stops, the items
   of the model's decode_toks: the same records in the same order, and a final error item
   (with an error other than nil and io.EOF) exactly when the model has one. *)
Theorem C02_iter_is_source : forall fuel cur (toks : list bytes) t, (length toks + 1 < fuel)%nat ->
  exists s' out,
    ImpGen.imp_fastqrd_reader_iter fuel (GoSem.Scanner cur toks (ImpProofsK.scan_code t) false) = GoSem.Ret (s', out)
    /\ Forall2 ImpProofsK.fq_item_ok (Bio.Model.Fastq.decode_toks t toks) out.
Proof. exact ImpProofsK.imp_fastq_iter. Qed.
Print Assumptions C02_iter_is_source.

Theorem C02_marshal_is_source : forall r,
  ImpGen.imp_fastq_Fastq_MarshalText (ImpProofsG.fq_of r)
  = match Bio.Model.Fastq.marshal_text r with Ok b => GoSem.Ret (b, false) | _ => GoSem.Panics end.
Proof. exact ImpProofsG.imp_Fastq_MarshalText. Qed.
Print Assumptions C02_marshal_is_source.

Theorem C02_reader_is_source : forall fuel cur (toks : list bytes) t, (length toks + 1 < fuel)%nat ->
  exists s' out,
    ImpGen.imp_fastqrd_Reader fuel (GoSem.Scanner cur toks (ImpProofsK.scan_code t) false) = GoSem.Ret (s', out)
    /\ Forall2 ImpProofsK.fq_item_ok (Bio.Model.Fastq.decode_toks t toks) out.
Proof. exact ImpProofsK.imp_fastq_Reader. Qed.
Print Assumptions C02_reader_is_source.

(* ---- the round trip, about the translated source --------------------------------------------------------
   The translated Reader, given the lines bufio.Scanner cuts the written file into
   (Base.scan_tokens), yields exactly the records. *)
From Bio.Proofs Require ImpProofsW.
Theorem C02_roundtrip_is_source : forall rs fuel cur, Forall fq_ok rs ->
  (length (scan_tokens (concat (map write rs))) + 1 < fuel)%nat ->
  exists s' out,
    ImpGen.imp_fastqrd_Reader fuel (GoSem.Scanner cur (scan_tokens (concat (map write rs))) 0%Z false) = GoSem.Ret (s', out)
    /\ Forall2 ImpProofsK.fq_item_ok (map Rec rs) out.
Proof. exact ImpProofsW.fastq_roundtrip_src. Qed.
Print Assumptions C02_roundtrip_is_source.
