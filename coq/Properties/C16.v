(* Properties/C16.v — The interval index reports exactly the intervals covering a
   position.  Only statements; every proof is [exact <lemma>].
   Model: Model/Regions.v (NewIndex: events, sort, sweep; At: sort.Search loop).
   Coordinates and positions range over all of Z; there is no bound on the number of
   intervals.  Harness-only parts of the property (not stated here): returned slices
   are private copies, concurrent readers. *)
From Coq Require Import Sorting.Permutation Sorting.Sorted.
From Bio Require Import Base.
From Bio.Model Require Import Regions.
From Bio.Spec Require Import RegionsSpec.
From Bio.Proofs Require Import RegionsProofs RegionsProofsB RegionsProofsC.
Open Scope Z_scope.

(* For equal lengths NewIndex succeeds and At(i) is, for every position i, the
   ascending list of the x with starts[x] <= i < ends[x]: duplicates and nested
   intervals are all there, empty and inverted ones (start >= end) never are, and the
   answer is [] when nothing covers i.  At never panics (the binary search stays in
   range and within its fuel). *)
Theorem C16_at_exact : forall starts ends,
  length starts = length ends ->
  exists ix, new_index starts ends = Ok ix /\
    forall i, at_ ix i =
      Ok (filter (fun x => (nth x starts 0 <=? i) && (i <? nth x ends 0))
                 (seq 0 (length starts))).
Proof. exact at_exact. Qed.
Print Assumptions C16_at_exact.

(* The same for the observable of the correspondence kind regions_at. *)
Theorem C16_regions_at_exact : forall starts ends queries,
  length starts = length ends ->
  regions_at starts ends queries = Ok (map (covering starts ends) queries).
Proof. exact regions_at_exact. Qed.
Print Assumptions C16_regions_at_exact.

(* The answer's members, spelled out; empty and inverted intervals are never reported. *)
Theorem C16_answer_members : forall starts ends i x,
  length starts = length ends ->
  (In x (covering starts ends i) <->
   (x < length starts)%nat /\ nth x starts 0 <= i < nth x ends 0).
Proof. exact covering_In. Qed.
Print Assumptions C16_answer_members.

Theorem C16_empty_or_inverted_never_reported : forall starts ends i x,
  nth x ends 0 <= nth x starts 0 -> ~ In x (covering starts ends i).
Proof. exact covering_skips_empty. Qed.
Print Assumptions C16_empty_or_inverted_never_reported.

Theorem C16_answer_ascending : forall starts ends i,
  StronglySorted lt (covering starts ends i).
Proof. exact covering_asc. Qed.
Print Assumptions C16_answer_ascending.

(* The breakpoint positions of the index are strictly ascending: what makes the
   binary search of At valid. *)
Theorem C16_breakpoints_sorted : forall starts ends ix,
  new_index starts ends = Ok ix -> StronglySorted Z.lt (map fst ix).
Proof. exact breakpoints_strictly_sorted. Qed.
Print Assumptions C16_breakpoints_sorted.

(* NewIndex panics exactly when the lengths differ (and never returns an error). *)
Theorem C16_new_index_panics_iff : forall starts ends,
  new_index starts ends = Panic <-> length starts <> length ends.
Proof. exact new_index_panics_iff. Qed.
Print Assumptions C16_new_index_panics_iff.

Theorem C16_regions_at_panics_iff : forall starts ends queries,
  regions_at starts ends queries = Panic <-> length starts <> length ends.
Proof. exact regions_at_panics_iff. Qed.
Print Assumptions C16_regions_at_panics_iff.

(* sort.Slice is unstable and its algorithm unspecified.  eventLess is a strict total
   order, so any permutation of the events in which no later element is less than an
   earlier one (sort.Slice's contract) is the list the model's insertion sort builds;
   and the answers are the same for any such list. *)
Theorem C16_sort_result_unique : forall evs evs',
  Permutation evs' evs ->
  StronglySorted (fun a b => event_less b a = false) evs' ->
  evs' = sort_events evs.
Proof. exact sort_events_unique. Qed.
Print Assumptions C16_sort_result_unique.

Theorem C16_at_exact_any_sort : forall starts ends evs i,
  length starts = length ends ->
  Permutation evs (events starts ends) ->
  StronglySorted (fun a b => event_less b a = false) evs ->
  at_ (breakpoints evs) i = Ok (covering starts ends i).
Proof. exact at_exact_any_sort. Qed.
Print Assumptions C16_at_exact_any_sort.

(* Non-vacuity: the defect input D10 (an inverted and an empty interval), touching,
   duplicated and nested intervals, negative and huge coordinates. *)
Example C16_example_d10 :
  regions_at [5; 2] [3; 2] [7; 4; 2; 1] = Ok [[]; []; []; []]
  /\ new_index [5; 2] [3; 2] = Ok [(0, [])].
Proof. vm_compute. auto. Qed.

Example C16_example_mixed :
  regions_at [0; 2; 0; 1; -(2^62); 3] [2; 4; 2; 9; 2^62; 3] [-1; 0; 1; 2; 3; 4; 9; 2^62]
  = Ok [[4%nat]; [0; 2; 4]%nat; [0; 2; 3; 4]%nat; [1; 3; 4]%nat; [1; 3; 4]%nat;
        [3; 4]%nat; [4%nat]; []]
  /\ length [0; 2; 0; 1; -(2^62); 3] = length [2; 4; 2; 9; 2^62; 3]
  /\ covering [0; 2; 0; 1; -(2^62); 3] [2; 4; 2; 9; 2^62; 3] 2 = [1; 3; 4]%nat
  /\ map fst (breakpoints (sort_events (events [0; 2; 0; 1] [2; 4; 2; 9]))) = [0; 1; 2; 4; 9]
  /\ regions_at [1] [] [0] = Panic.
Proof. vm_compute. repeat split. Qed.

(* ---- tie to the Go source by translation (gen/SrcGen.v, regenerated on every run) ---- *)
From Bio.gen Require SrcGen.
From Bio.Proofs Require SrcGenProofs.

(* event_less of the model is, for all events, the function translated from
   regions/regions.go (eventLess). *)
Theorem C16_event_less_is_source : forall a b,
  Bio.Model.Regions.event_less a b
  = SrcGen.src_regions_eventLess (SrcGenProofs.src_event_of a) (SrcGenProofs.src_event_of b).
Proof. exact SrcGenProofs.event_less_is_source. Qed.
Print Assumptions C16_event_less_is_source.

(* ---- tie to the Go source by translation of whole function bodies (gen/ImpGen.v, written
   by `harness gen-imp` on every run, in the embedding of Model/GoSem.v) ------------------- *)
From Bio.gen Require ImpGen.
From Bio.Model Require GoSem.
From Bio.Proofs Require ImpProofs ImpProofsC.

(* NewIndex of the model is, for all starts and ends, the function translated from
   regions.go (both loops, the sort, the key set kept as a Go map and sorted by keys()):
   the same breakpoints with the same serial numbers, or a panic in the same case. *)
Theorem C16_new_index_is_source : forall starts ends,
  ImpGen.imp_regions_NewIndex starts ends
  = ImpProofs.of_outcome (ImpProofsC.omap ImpProofsC.index_of (new_index starts ends)).
Proof. exact ImpProofsC.imp_NewIndex. Qed.
Print Assumptions C16_new_index_is_source.

(* Index.At of the model (sort.Search's loop, the lookup, the copy) is the translated one,
   on every index and for every position. *)
Theorem C16_at_is_source : forall ix x,
  ImpGen.imp_regions_Index_At (ImpProofsC.index_of ix) x
  = ImpProofs.of_outcome (ImpProofsC.omap (map Z.of_nat) (at_ ix x)).
Proof. exact ImpProofsC.imp_Index_At. Qed.
Print Assumptions C16_at_is_source.

Example C16_source_example :
  exists ix, ImpGen.imp_regions_NewIndex [5; 2; 7] [9; 2; 8]%Z = GoSem.Ret ix
  /\ ImpGen.imp_regions_Index_At ix 7 = GoSem.Ret [0; 2]%Z
  /\ ImpGen.imp_regions_Index_At ix 8 = GoSem.Ret [0]%Z
  /\ ImpGen.imp_regions_Index_At ix 4 = GoSem.Ret []
  /\ ImpGen.imp_regions_NewIndex [1]%Z [] = GoSem.Panics.
Proof. eexists. vm_compute. repeat split. Qed.

(* ---- the property itself, about the translated source: NewIndex, then At ---------------------------- *)
From Bio.Proofs Require ImpProofsW.
Theorem C16_at_exact_is_source : forall starts ends, length starts = length ends ->
  exists ix, ImpGen.imp_regions_NewIndex starts ends = GoSem.Ret ix /\
    forall i, ImpGen.imp_regions_Index_At ix i
              = GoSem.Ret (map Z.of_nat (filter (fun x => (nth x starts 0 <=? i) && (i <? nth x ends 0))%Z
                                                (seq 0 (length starts)))).
Proof. exact ImpProofsW.regions_at_exact_src. Qed.
Print Assumptions C16_at_exact_is_source.
