(* Properties/C04.v — BED lines with 3..12 fields survive write -> read.
   Only statements; every proof is [exact <lemma>].  The model is Model/Bed.v
   (BED.Write chunk by chunk, parseLine, the TAB-splitting line reader);
   [first_n], [bed_ok], [count_byte] are in Spec/BedSpec.v. *)
From Coq Require Import String.
From Bio Require Import Base.
From Bio.Model Require Import Bed.
From Bio.Spec Require Import BedSpec.
From Bio.Proofs Require Import BedProofs BedProofsB BedProofsC.

(* For every N in 3..12 and every record whose first N fields are in the
   domain (any bytes but TAB/CR/LF in the text fields — double quotes included —,
   any int64, any RGB bytes, block lists of any length equal to the count):
   the written text reads back as exactly one record, with the same N, the same
   first N fields and zero values beyond. No bound on any length. *)
Theorem C04_roundtrip : forall b, bed_ok b ->
  exists w, write b = Ok w /\ decode w TEOF = [Rec (first_n b)].
Proof. exact roundtrip. Qed.
Print Assumptions C04_roundtrip.

(* The written text is one line: N-1 TABs (N tab-separated fields), no CR, and
   exactly one LF, which is its last byte. *)
Theorem C04_field_count : forall b, bed_ok b ->
  exists line, write b = Ok (line ++ [LF])
    /\ Z.of_nat (count_byte TAB line) = (b_n b - 1)%Z
    /\ Z.of_nat (length (split_on TAB line)) = b_n b
    /\ count_byte LF line = 0%nat /\ count_byte CR line = 0%nat.
Proof. exact field_count. Qed.
Print Assumptions C04_field_count.

(* Write refuses N outside 3..12: an error and no chunk handed to the writer
   ([write_calls] is the list of Fprintf calls; [Err] carries none). *)
Theorem C04_write_refuses : forall b, (b_n b < 3 \/ b_n b > 12)%Z ->
  write_calls b = Err /\ write b = Err.
Proof. exact write_refuses. Qed.
Print Assumptions C04_write_refuses.

(* ... and only then: inside 3..12 every record is written, whatever its fields. *)
Theorem C04_write_accepts : forall b, (3 <= b_n b <= 12)%Z ->
  exists cs, write_calls b = Ok cs /\ write b = Ok (concat cs).
Proof. exact write_accepts. Qed.
Print Assumptions C04_write_accepts.

(* Files: any number of records sharing one N, written one after the other. *)
Theorem C04_file_roundtrip : forall k bs, Forall (fun b => bed_ok b /\ b_n b = k) bs ->
  exists w, write_file bs = Ok w /\ decode w TEOF = map (fun b => Rec (first_n b)) bs.
Proof. exact file_roundtrip. Qed.
Print Assumptions C04_file_roundtrip.

(* The same line is also read back when its final LF is missing (the
   unterminated tail at EOF) and when the line ends in CRLF. *)
Theorem C04_roundtrip_line_ends : forall b, bed_ok b ->
  exists line, write b = Ok (line ++ [LF])
    /\ decode line TEOF = [Rec (first_n b)]
    /\ decode (line ++ [CR; LF]) TEOF = [Rec (first_n b)].
Proof. exact relaid. Qed.
Print Assumptions C04_roundtrip_line_ends.

(* The two standard-library leaves the round trip rests on, as modelled:
   Atoi inverts Itoa on int64, ParseUint(_,0,8) reads the decimal text of a byte. *)
Theorem C04_atoi_itoa : forall z, int64 z -> atoi (itoa z) = Some z.
Proof. exact atoi_itoa. Qed.
Print Assumptions C04_atoi_itoa.

Theorem C04_parse_uint8_decimal : forall n, n < 256 -> parse_uint8 (fmt_byte n) = Some n.
Proof. exact parse_uint8_fmt_byte. Qed.
Print Assumptions C04_parse_uint8_decimal.

(* Non-vacuity: a 12-field record with double quotes, '#' inside a name, int64
   extremes and two blocks is in the domain and round-trips; a 10-field record
   with garbage beyond N is in the domain and comes back with that garbage
   zeroed; N = 10 with a non-zero block count is outside the domain, and is
   indeed rejected by the reader (DESIGN.md section 1, Boundaries). *)
Definition ex12 : bed :=
  {| b_n := 12; b_chrom := bs "chr""1"; b_start := (-9223372036854775808)%Z;
     b_end := 9223372036854775807%Z; b_name := bs """a,b#"; b_score := (-5)%Z;
     b_strand := bs "+"; b_thick_start := 1%Z; b_thick_end := 2%Z; b_rgb := (255, 0, 9);
     b_block_count := 2%Z; b_block_sizes := [10; -20]%Z; b_block_starts := [0; 30]%Z |}.

Definition ex10 : bed :=
  {| b_n := 10; b_chrom := bs "c"; b_start := 1%Z; b_end := 2%Z; b_name := []; b_score := 0%Z;
     b_strand := []; b_thick_start := 0%Z; b_thick_end := 7%Z; b_rgb := (1, 2, 3);
     b_block_count := 0%Z; b_block_sizes := [4; 5]%Z; b_block_starts := [6]%Z |}.

(* Never vm_compute a goal that still has a bound integer variable next to 2^63:
   normalising [Z.compare c z] for a 64-bit constant c and a variable z builds a
   decision tree of exponential size. Split first, evaluate closed goals only. *)
Ltac fin :=
  first [ solve [timeout 5 vm_compute; intros; discriminate]
        | solve [timeout 5 vm_compute; tauto]
        | solve [timeout 5 vm_compute; repeat constructor; intros; discriminate] ].
Ltac ok_tac :=
  unfold bed_ok, fields_ok, text_ok, clean, strand_valid, rgb_ok, int64;
  repeat split;
  lazymatch goal with
  | |- Forall (fun z : Z => _) _ => cbn; repeat constructor; try fin
  | |- _ => fin
  end.

Example C04_example_ex12 : bed_ok ex12 /\ first_n ex12 = ex12
  /\ exists w, write ex12 = Ok w /\ decode w TEOF = [Rec ex12]
               /\ count_byte TAB w = 11%nat /\ count_byte LF w = 1%nat.
Proof.
  split; [ok_tac|]. split; [reflexivity|].
  eexists. split; [vm_compute; reflexivity|]. vm_compute. repeat split.
Qed.

Example C04_example_ex10 : bed_ok ex10 /\ first_n ex10 <> ex10
  /\ exists w, write ex10 = Ok w /\ decode w TEOF = [Rec (first_n ex10)].
Proof.
  split; [ok_tac|]. split; [discriminate|].
  eexists. split; [vm_compute; reflexivity|]. vm_compute. reflexivity.
Qed.

Example C04_example_boundary :
  let b := {| b_n := 10; b_chrom := bs "c"; b_start := 1%Z; b_end := 2%Z; b_name := []; b_score := 0%Z;
              b_strand := []; b_thick_start := 0%Z; b_thick_end := 0%Z; b_rgb := (0, 0, 0);
              b_block_count := 2%Z; b_block_sizes := [4; 5]%Z; b_block_starts := [6; 7]%Z |} in
  ~ bed_ok b /\ exists w, write b = Ok w /\ decode w TEOF = [ErrItem].
Proof.
  split.
  - intros [_ H]. unfold fields_ok in H. cbn in H.
    destruct H as (_ & _ & _ & _ & _ & _ & _ & _ & _ & _ & _ & _ & _ & H & _). discriminate.
  - eexists. split; [vm_compute; reflexivity|]. vm_compute. reflexivity.
Qed.

(* ---- tie to the Go source by translation (gen/SrcGen.v, regenerated on every run) ---- *)
From Bio.gen Require SrcGen.
From Bio.Proofs Require SrcGenProofs.

(* the chunks of BED.Write are the translated Fprintf calls of the N-ladder applied to the
   record's fields (the per-element calls of the two block lists have a computed format
   and stay hand-modelled) *)
Theorem C04_write_format_is_source : forall b cs,
  Bio.Model.Bed.write_calls b = Ok cs ->
  let n := Bio.Model.Bed.b_n b in
  let '(r, g, bl) := Bio.Model.Bed.b_rgb b in
  cs = [SrcGen.src_bed_Write_0 (Bio.Model.Bed.b_chrom b) (Bio.Model.Bed.b_start b) (Bio.Model.Bed.b_end b)]
    ++ Bio.Model.Bed.when (n >? 3)%Z [SrcGen.src_bed_Write_1 (Bio.Model.Bed.b_name b)]
    ++ Bio.Model.Bed.when (n >? 4)%Z [SrcGen.src_bed_Write_2 (Bio.Model.Bed.b_score b)]
    ++ Bio.Model.Bed.when (n >? 5)%Z [SrcGen.src_bed_Write_3 (Bio.Model.Bed.b_strand b)]
    ++ Bio.Model.Bed.when (n >? 6)%Z [SrcGen.src_bed_Write_4 (Bio.Model.Bed.b_thick_start b)]
    ++ Bio.Model.Bed.when (n >? 7)%Z [SrcGen.src_bed_Write_5 (Bio.Model.Bed.b_thick_end b)]
    ++ Bio.Model.Bed.when (n >? 8)%Z [SrcGen.src_bed_Write_6 (Z.of_N r) (Z.of_N g) (Z.of_N bl)]
    ++ Bio.Model.Bed.when (n >? 9)%Z [SrcGen.src_bed_Write_7 (Bio.Model.Bed.b_block_count b)]
    ++ Bio.Model.Bed.when (n >? 10)%Z (SrcGen.src_bed_Write_8 :: Bio.Model.Bed.list_calls (Bio.Model.Bed.b_block_sizes b))
    ++ Bio.Model.Bed.when (n >? 11)%Z (SrcGen.src_bed_Write_9 :: Bio.Model.Bed.list_calls (Bio.Model.Bed.b_block_starts b))
    ++ [SrcGen.src_bed_Write_10].
Proof. exact SrcGenProofs.bed_write_is_source. Qed.
Print Assumptions C04_write_format_is_source.

(* ---- tie to the Go source by translation of whole function bodies (gen/ImpGen.v, written
   by `harness gen-imp` on every run, in the embedding of Model/GoSem.v) ------------------- *)
From Bio.gen Require ImpGen.
From Bio.Model Require GoSem.
From Bio.Proofs Require ImpProofs ImpProofsG.

(* BED.Write as translated from bed.go — the range check on N, the ladder of `if b.N > k`,
   the three ItemRGB reads, the two loops over the block lists with their computed format —
   hands to a writer that never fails exactly the chunks of the model, and refuses (an
   error, nothing written) exactly when the model does.  Errors are codes in this package's
   translation: 0 nil, 1 io.EOF, 2 any other error. *)
Theorem C04_write_is_source : forall b,
  ImpGen.imp_bed_BED_Write (ImpProofsG.bed_of b)
  = match Bio.Model.Bed.write_calls b with Ok cs => GoSem.Ret (cs, 0%Z) | _ => GoSem.Ret ([], 2%Z) end.
Proof. exact ImpProofsG.imp_BED_Write. Qed.
Print Assumptions C04_write_is_source.

From Bio.Proofs Require ImpProofsH.

(* parseLine as translated from bed.go — the field-count check, the padding to twelve
   fields, strconv.Atoi on every numeric field, the strand test with its short-circuit
   chain, the RGB triple through strconv.ParseUint(_, 0, 8) (modelled in Model/Bed.v), the
   two comma-separated block lists filled element by element, the two count checks — returns
   the model's record for exactly the field lists the model accepts, and an error otherwise.
   (The model's Atoi and ParseUint are library models, section 7 of DESIGN.md.) *)
Theorem C04_parse_line_is_source : forall fields,
  ImpGen.imp_bed_parseLine fields
  = match Bio.Model.Bed.parse_line fields with
    | Ok b => GoSem.Ret (ImpProofsG.bed_of b, 0%Z)
    | _ => GoSem.Ret (ImpProofsH.zero_bed, 2%Z)
    end.
Proof. exact ImpProofsH.imp_parseLine. Qed.
Print Assumptions C04_parse_line_is_source.

Example C04_source_parse_example :
  ImpGen.imp_bed_parseLine [bs "chr1"; bs "5"; bs "9"; bs "n"; bs "3"; bs "+"; bs "5"; bs "9"; bs "1,0x2,0b11"; bs "2"; bs "1,2"; bs "0,3"]
  = GoSem.Ret (ImpGen.Imp_bed_BED 12 (bs "chr1") 5 9 (bs "n") 3 (bs "+") 5 9 [1; 2; 3]%N 2 [1; 2]%Z [0; 3]%Z, 0%Z)
  /\ ImpGen.imp_bed_parseLine [bs "chr1"; bs "5"; bs "x"] = GoSem.Ret (ImpProofsH.zero_bed, 2%Z)
  /\ ImpGen.imp_bed_parseLine [bs "chr1"; bs "5"] = GoSem.Ret (ImpProofsH.zero_bed, 2%Z).
Proof. vm_compute. repeat split. Qed.

From Bio.Proofs Require ImpProofsJ ImpProofsL.

(* reader.read as translated from bed.go is the loop `for { ... }` over one body
   (ImpProofsL.imp_bed_read_unfold); on a stream whose next line is complete that body does
   what the model's do_line says — skips a blank or comment line, stops with an error, or
   returns the record and the field count now kept in reader.n — and leaves the reader right
   after the line; on the unterminated last piece it returns the stream's error, io.EOF for a
   blank or comment piece, and otherwise treats the piece like a line.  (Model/Bed.v builds
   its iterator dec_lines from do_line with exactly these cases.) *)
Theorem C04_read_line_is_source : forall n l rest tc, ~ In 10%N l ->
  ImpProofsL.br_body (ImpProofsL.rdr n, GoSem.Stream (l ++ 10%N :: rest) tc None)
  = match Bio.Model.Bed.do_line n l with
    | Bio.Model.Bed.Skip => GoSem.Next (ImpProofsL.rdr n, GoSem.Stream rest tc None)
    | Bio.Model.Bed.StopErr =>
        GoSem.Ret (GoSem.Stream rest tc None, ImpProofsL.rdr (ImpProofsL.next_n n (drop_cr l)), (ImpProofsH.zero_bed, 2%Z))
    | Bio.Model.Bed.Yield b n' => GoSem.Ret (GoSem.Stream rest tc None, ImpProofsL.rdr n', (ImpProofsG.bed_of b, 0%Z))
    end.
Proof. exact ImpProofsL.br_body_line. Qed.
Print Assumptions C04_read_line_is_source.

Theorem C04_read_tail_is_source : forall n tail t, ~ In 10%N tail ->
  ImpProofsL.br_body (ImpProofsL.rdr n, GoSem.Stream tail (ImpProofsJ.term_code t) None)
  = match t with
    | TErr => GoSem.Ret (GoSem.Stream [] 2%Z None, ImpProofsL.rdr n, (ImpProofsH.zero_bed, 2%Z))
    | TEOF =>
      match Bio.Model.Bed.do_line n tail with
      | Bio.Model.Bed.Skip => GoSem.Ret (GoSem.Stream [] 1%Z None, ImpProofsL.rdr n, (ImpProofsH.zero_bed, 1%Z))
      | Bio.Model.Bed.StopErr =>
          GoSem.Ret (GoSem.Stream [] 1%Z None, ImpProofsL.rdr (ImpProofsL.next_n n (drop_cr tail)), (ImpProofsH.zero_bed, 2%Z))
      | Bio.Model.Bed.Yield b n' => GoSem.Ret (GoSem.Stream [] 1%Z None, ImpProofsL.rdr n', (ImpProofsG.bed_of b, 0%Z))
      end
    end.
Proof. exact ImpProofsL.br_body_tail. Qed.
Print Assumptions C04_read_tail_is_source.

Theorem C04_read_is_the_loop : forall fuel rd r,
  ImpGen.imp_bed_reader_read fuel rd r
  = GoSem.after (GoSem.go_while fuel (fun _ => GoSem.Ret true) ImpProofsL.br_body (r, rd)) (fun '(_, _) => GoSem.Panics).
Proof. exact ImpProofsL.imp_bed_read_unfold. Qed.
Print Assumptions C04_read_is_the_loop.

(* Reader as translated from iter.go (newReader, then read() until io.EOF or an error) yields,
   to a consumer that never stops, exactly the items of the model's decode — the records in
   order and a final error item exactly when the model has one — for every input and both
   terminal conditions.  This composes the translated read (its inner loop over blank and
   comment lines), the translated parseLine and the translated loop of Reader. *)
Theorem C04_reader_is_source : forall t fuel s, (length s + 2 < fuel)%nat ->
  exists st, ImpGen.imp_bed_Reader fuel (GoSem.Stream s (ImpProofsJ.term_code t) None)
             = GoSem.Ret (st, map ImpProofsL.bed_item (Bio.Model.Bed.decode s t)).
Proof. exact ImpProofsL.imp_bed_Reader_ok. Qed.
Print Assumptions C04_reader_is_source.

Theorem C04_marshal_is_source : forall b,
  ImpGen.imp_bed_BED_MarshalText (ImpProofsG.bed_of b)
  = match Bio.Model.Bed.write b with Ok bs => GoSem.Ret (bs, 0%Z) | _ => GoSem.Ret ([], 2%Z) end.
Proof. exact ImpProofsG.imp_BED_MarshalText. Qed.
Print Assumptions C04_marshal_is_source.

(* ---- the round trip, about the translated source -------------------------------------------------------- *)
From Bio.Proofs Require ImpProofsW.
Theorem C04_roundtrip_is_source : forall b fuel, bed_ok b ->
  exists w, ImpGen.imp_bed_BED_MarshalText (ImpProofsG.bed_of b) = GoSem.Ret (w, 0%Z) /\
    ((length w + 2 < fuel)%nat ->
     exists st, ImpGen.imp_bed_Reader fuel (GoSem.Stream w 1%Z None)
                = GoSem.Ret (st, [ImpProofsL.bed_item (Rec (first_n b))])).
Proof. exact ImpProofsW.bed_roundtrip_src. Qed.
Print Assumptions C04_roundtrip_is_source.
