(* Properties/C11.v — Parsers are total: arbitrary bytes never panic, accepted records
   are stable; a malformed SAM line is isolated.  Only statements; every proof is
   [exact <lemma>] (Proofs/TotalProofsB.v, TotalProofsC.v, and the family proofs).

   The six decoders are the family models: Fasta.decode, Fastq.decode, Bed.decode
   (iter.go Reader over reader.read), Sam.reader_header (ReaderHeader; Sam.reader is
   a filter of it), Newick.decode, Smtext.read_ncbi.  Every theorem below quantifies
   over ALL byte strings (lists of N, a superset of real bytes) and both terminal
   conditions of the stream.

   Panic sites.  Fasta.decode, Fastq.decode and Bed.decode return plain item lists:
   their types have no Panic outcome at all (the Go readers contain no indexing,
   slicing or explicit panic that the models had to represent; bed's parseLine
   returns an [outcome] and is covered separately).  For these the meaningful
   content of "total" is stated instead: the fuel of the FASTA loop suffices, the
   FASTQ items always have the shape records + at most one error, and the
   MarshalText self-checks of fasta and fastq (the two explicit panic sites of the
   codecs) never fire. *)
From Coq Require Import String.
From Bio Require Import Base.
From Bio.Model Require Fasta Fastq Sam Bed Newick Smtext.
From Bio.Spec Require FastaSpec FastqSpec BedSpec SamSpec NewickSpec.
From Bio.Proofs Require FastaProofs FastaProofsB FastqProofs FastqProofsB SamProofsB NewickProofsC SmtextProofsC.
From Bio.Proofs Require Import TotalProofsB TotalProofsC.

(* ---- totality ------------------------------------------------------------------------------- *)

(* FASTA: the reader loop is run with fuel [length input + 1]; it never runs out: any
   larger fuel gives the same items (re-export of C01_decode_fuel_sufficient). *)
Theorem C11_fasta_decode_total : forall inp t f,
  (length inp < f)%nat -> Fasta.decode_fuel f inp t = Fasta.decode inp t.
Proof. exact FastaProofsB.decode_fuel_sufficient. Qed.
Print Assumptions C11_fasta_decode_total.

(* FASTQ: the reader is structurally recursive on the Scanner's tokens (no fuel); for
   every input it yields records, each with |qualities| = |sequence|, then at most one
   error (re-export of C02_items_shape). *)
Theorem C11_fastq_decode_total : forall s t,
  exists rs, Forall (fun r => length (Fastq.quals r) = length (Fastq.seq r)) rs
    /\ (Fastq.decode s t = map Rec rs ++ [ErrItem] \/ (t = TEOF /\ Fastq.decode s t = map Rec rs)).
Proof. exact FastqProofsB.decode_shape. Qed.
Print Assumptions C11_fastq_decode_total.

(* the MarshalText length self-checks (panic sites of the two codecs) never fire *)
Theorem C11_fasta_marshal_no_panic : forall r, Fasta.marshal_text r = Ok (Fasta.write r).
Proof. exact FastaProofs.marshal_total. Qed.
Print Assumptions C11_fasta_marshal_no_panic.

Theorem C11_fastq_marshal_no_panic : forall r, Fastq.marshal_text r = Ok (Fastq.write r).
Proof. exact FastqProofs.marshal_total. Qed.
Print Assumptions C11_fastq_marshal_no_panic.

(* SAM: parseLine on any list of fields (any count: the length checks before the
   indexing of line[0..10], parseInts' length check, the colon positions of splitTag
   and the single-character 'A' check) never panics (re-export of
   C03_parse_line_no_panic); ReaderHeader calls nothing else that could. *)
Theorem C11_sam_decode_total : forall o fields, Sam.parse_line o fields <> Panic.
Proof. exact SamProofsB.parse_line_no_panic. Qed.
Print Assumptions C11_sam_decode_total.

(* BED: parseLine on any list of fields (field count, RGB triple, block list lengths) *)
Theorem C11_bed_decode_total : forall fields, Bed.parse_line fields <> Panic.
Proof. exact bed_parse_line_no_panic. Qed.
Print Assumptions C11_bed_decode_total.

(* Newick: neither read()'s panic("unexpected state") nor an exhausted fuel
   (re-export of C05_no_panic) *)
Theorem C11_newick_decode_total : forall o s tm, Newick.decode o s tm <> Panic.
Proof. exact NewickProofsC.decode_no_panic. Qed.
Print Assumptions C11_newick_decode_total.

(* NCBI matrix reader (re-export of C20_read_ncbi_total) *)
Theorem C11_smtext_decode_total : forall o s t, Smtext.read_ncbi o s t <> Panic.
Proof. exact SmtextProofsC.read_ncbi_total. Qed.
Print Assumptions C11_smtext_decode_total.

(* ---- SAM: lines are independent ---------------------------------------------------------------
   [unlines ls]: every line followed by LF.  [item_of_line o l]: nothing for an empty line,
   the header for a line starting with '@', else the record or ONE error, decided by
   parseLine on the TAB-split of that line alone. *)
Theorem C11_sam_lines_independent : forall o ls, Forall (clean [CR; LF]) ls ->
  Sam.reader_header o (unlines ls) TEOF = flat_map (item_of_line o) ls.
Proof. exact sam_lines_independent. Qed.
Print Assumptions C11_sam_lines_independent.

(* hence: one malformed line at ANY position of ANY file gives exactly one error in that
   position; the items before and after it are those of the file without the line *)
Theorem C11_sam_bad_line_isolated : forall o pre bad post,
  Forall (clean [CR; LF]) pre -> clean [CR; LF] bad -> Forall (clean [CR; LF]) post ->
  item_of_line o bad = [ErrItem] ->
  Sam.reader_header o (unlines (pre ++ bad :: post)) TEOF
  = Sam.reader_header o (unlines pre) TEOF ++ [ErrItem] ++ Sam.reader_header o (unlines post) TEOF.
Proof. exact sam_bad_line_isolated. Qed.
Print Assumptions C11_sam_bad_line_isolated.

(* the corruption kinds of the property are such lines: a non-empty, non-header line ... *)
Theorem C11_sam_malformed_is_one_error : forall o c l, (c =? 64) = false ->
  Sam.parse_line o (split_on TAB (c :: l)) = Err -> item_of_line o (c :: l) = [ErrItem].
Proof. exact item_of_line_err. Qed.
Print Assumptions C11_sam_malformed_is_one_error.

(* ... with too few fields, *)
Theorem C11_sam_too_few_fields : forall o fs, (length fs < 11)%nat -> Sam.parse_line o fs = Err.
Proof. exact parse_line_too_few. Qed.
Print Assumptions C11_sam_too_few_fields.

(* ... or a non-numeric integer field (FLAG, POS, MAPQ, PNEXT, TLEN), *)
Theorem C11_sam_bad_int : forall o f0 f1 f2 f3 f4 f5 f6 f7 f8 f9 f10 rest,
  atoi f1 = None \/ atoi f3 = None \/ atoi f4 = None \/ atoi f7 = None \/ atoi f8 = None ->
  Sam.parse_line o (f0 :: f1 :: f2 :: f3 :: f4 :: f5 :: f6 :: f7 :: f8 :: f9 :: f10 :: rest) = Err.
Proof. exact parse_line_bad_int. Qed.
Print Assumptions C11_sam_bad_int.

(* ... or an ill-formed (fewer than two colons) or ill-typed (unknown type, or a value the
   type does not admit) tag anywhere among its tags. *)
Theorem C11_sam_bad_tag : forall o f0 f1 f2 f3 f4 f5 f6 f7 f8 f9 f10 rest bad,
  In bad rest ->
  (Sam.split_tag bad = None \/
   exists name ty v, Sam.split_tag bad = Some (name, ty, v) /\ Sam.parse_tag_value o ty v = None) ->
  Sam.parse_line o (f0 :: f1 :: f2 :: f3 :: f4 :: f5 :: f6 :: f7 :: f8 :: f9 :: f10 :: rest) = Err.
Proof. exact parse_line_bad_tag. Qed.
Print Assumptions C11_sam_bad_tag.

(* ---- accepted records are fixed points of their codec ------------------------------------------
   [x] is an ARBITRARY input (any bytes, any terminal condition): whatever record the reader
   accepts from it, if its text fields are free of the format's delimiter bytes, writing it and
   reading the text back yields exactly that record. *)

(* FASTQ: the three fields free of CR/LF; |qualities| = |sequence| holds for every accepted
   record by the reader's check *)
Theorem C11_fastq_fixed_point : forall x t r,
  In (Rec r) (Fastq.decode x t) -> fastq_clean r ->
  Fastq.decode (Fastq.write r) TEOF = [Rec r].
Proof. exact fastq_fixed_point. Qed.
Print Assumptions C11_fastq_fixed_point.

(* FASTA: accepted names and sequences are free of CR and LF by construction of the reader's
   byte machine, so the only hypothesis is the property's "no '>' inside the sequence" *)
Theorem C11_fasta_fixed_point : forall x t r,
  In (Rec r) (Fasta.decode x t) -> ~ In Fasta.GT (Fasta.seq r) ->
  Fasta.decode (Fasta.write r) TEOF = [Rec r].
Proof. exact fasta_fixed_point. Qed.
Print Assumptions C11_fasta_fixed_point.

(* BED: Chrom and Name free of TAB/CR/LF.  Everything else an accepted record needs to be in
   the domain of C04 holds by construction: N in 3..12, Go ints, RGB bytes, a valid strand,
   block lists as long as the count, Chrom not starting with '#', and zero values beyond the N
   fields (so the record itself, not just its first N fields, comes back). *)
Theorem C11_bed_fixed_point : forall x t b,
  In (Rec b) (Bed.decode x t) -> bed_clean b ->
  exists w, Bed.write b = Ok w /\ Bed.decode w TEOF = [Rec b].
Proof. exact bed_fixed_point. Qed.
Print Assumptions C11_bed_fixed_point.

(* SAM: the six text fields, tag names, 'A' and 'Z' values free of the delimiters and
   strconv's contract for the 'f' values the record carries ([sam_clean]).  The record read
   back is the same record with the same tag map ([sam_eq]: the eleven fields equal, the tag
   lists equal up to order, names unique; floats are compared by canonical text, NaN = NaN).
   What the FIRST read normalises is already part of the accepted record: a 'B' tag is kept as
   a string, "+5" is 5, a repeated tag name keeps its last value. *)
Theorem C11_sam_fixed_point : forall o x t r,
  In (Rec (Sam.Aln r)) (Sam.reader_header o x t) -> sam_clean o r ->
  exists r', Sam.reader_header o (Sam.write o r) TEOF = [Rec (Sam.Aln r')] /\ SamSpec.sam_eq r r'.
Proof. exact sam_fixed_point. Qed.
Print Assumptions C11_sam_fixed_point.

(* Newick: any accepted tree whose written (non-zero) distances meet strconv's contract; names
   need no hypothesis (quoting handles every byte).  The tree read back is [norm tr]: equal to
   [tr] except that a distance -0, which is not written, reads back as 0.  (The hypothesis that
   the tree was accepted is not needed: C05 holds for all trees.) *)
Theorem C11_newick_fixed_point : forall o x t items tr,
  Newick.decode o x t = Ok items -> In (Rec tr) items -> NewickSpec.floats_ok o tr ->
  Newick.decode o (Newick.marshal o tr) TEOF = Ok [Rec (NewickSpec.norm tr)].
Proof. exact newick_fixed_point. Qed.
Print Assumptions C11_newick_fixed_point.

(* ---- non-vacuity ---------------------------------------------------------------------------------- *)
Definition C11_o : foracle := {| f_parse := []; f_fmt := [] |}.

(* a FASTQ input with a good record followed by garbage: the record is accepted and clean *)
Definition C11_fq_input : bytes := bs "@r" ++ [LF] ++ bs "AC" ++ [LF] ++ bs "+x" ++ [LF] ++ bs "I@" ++ [LF] ++ bs "junk".
Definition C11_fq_rec : Fastq.fastq := {| Fastq.name := bs "r"; Fastq.seq := bs "AC"; Fastq.quals := bs "I@" |}.
Example C11_fastq_example :
  Fastq.decode C11_fq_input TEOF = [Rec C11_fq_rec; ErrItem]
  /\ fastq_clean C11_fq_rec
  /\ Fastq.decode (Fastq.write C11_fq_rec) TEOF = [Rec C11_fq_rec].
Proof.
  split; [vm_compute; reflexivity|]. split; [repeat constructor|].
  apply (C11_fastq_fixed_point C11_fq_input TEOF); [vm_compute; left; reflexivity | repeat constructor].
Qed.

(* FASTA: blank lines first fabricate an empty record; both records are fixed points *)
Example C11_fasta_example :
  Fasta.decode ([LF; LF] ++ bs ">a" ++ [LF] ++ bs "AC" ++ [CR; LF] ++ bs "G") TEOF
    = [Rec {| Fasta.name := []; Fasta.seq := [] |}; Rec {| Fasta.name := bs "a"; Fasta.seq := bs "ACG" |}]
  /\ Fasta.decode (Fasta.write {| Fasta.name := bs "a"; Fasta.seq := bs "ACG" |}) TEOF
    = [Rec {| Fasta.name := bs "a"; Fasta.seq := bs "ACG" |}].
Proof. vm_compute. split; reflexivity. Qed.

(* BED: "+1", empty optional fields and a hexadecimal RGB part are normalised by the first
   read; the accepted record then is a fixed point *)
Definition C11_bed_input : bytes :=
  bs "c" ++ [TAB] ++ bs "+1" ++ [TAB] ++ bs "2" ++ [TAB] ++ bs "n" ++ [TAB; TAB; TAB; TAB; TAB] ++ bs "0x10,1,1" ++ [LF].
Definition C11_bed_rec : Bed.bed :=
  Bed.mkBed 9 (bs "c") 1 2 (bs "n") 0 [] 0 0 (16, 1, 1) 0 [] [].
Example C11_bed_example :
  Bed.decode C11_bed_input TEOF = [Rec C11_bed_rec]
  /\ bed_clean C11_bed_rec
  /\ Bed.write C11_bed_rec
     = Ok (bs "c" ++ [TAB] ++ bs "1" ++ [TAB] ++ bs "2" ++ [TAB] ++ bs "n" ++ [TAB] ++ bs "0" ++ [TAB; TAB]
           ++ bs "0" ++ [TAB] ++ bs "0" ++ [TAB] ++ bs "16,1,1" ++ [LF])
  /\ Bed.decode (bs "c" ++ [TAB] ++ bs "1" ++ [TAB] ++ bs "2" ++ [TAB] ++ bs "n" ++ [TAB] ++ bs "0" ++ [TAB; TAB]
           ++ bs "0" ++ [TAB] ++ bs "0" ++ [TAB] ++ bs "16,1,1" ++ [LF]) TEOF = [Rec C11_bed_rec].
Proof.
  split; [vm_compute; reflexivity|]. split; [split; repeat constructor|].
  split; vm_compute; reflexivity.
Qed.

(* SAM: a file with a header, a line with too few fields, an empty line, a record with a 'B'
   tag and "+5", and a line with an ill-typed tag: one error per bad line, neighbours intact;
   the accepted record is clean *)
Definition C11_sam_line : bytes :=
  bs "q" ++ [TAB] ++ bs "+5" ++ [TAB] ++ bs "*" ++ [TAB] ++ bs "0" ++ [TAB] ++ bs "0" ++ [TAB] ++ bs "*" ++ [TAB]
  ++ bs "*" ++ [TAB] ++ bs "0" ++ [TAB] ++ bs "0" ++ [TAB] ++ bs "AC" ++ [TAB] ++ bs "II".
Definition C11_sam_rec : Sam.sam :=
  {| Sam.s_qname := bs "q"; Sam.s_flag := 5; Sam.s_rname := bs "*"; Sam.s_pos := 0; Sam.s_mapq := 0;
     Sam.s_cigar := bs "*"; Sam.s_rnext := bs "*"; Sam.s_pnext := 0; Sam.s_tlen := 0;
     Sam.s_seq := bs "AC"; Sam.s_qual := bs "II";
     Sam.s_tags := [(bs "XB", Sam.TZ (bs "c,1,2")); (bs "XA", Sam.TA 195)] |}.
Example C11_sam_example :
  Sam.reader_header C11_o
    (unlines [bs "@h"; bs "too few"; []; C11_sam_line ++ [TAB] ++ bs "XB:B:c,1,2" ++ [TAB] ++ bs "XA:A:" ++ [195];
              C11_sam_line ++ [TAB] ++ bs "XX:i:1.5"]) TEOF
  = [Rec (Sam.Hdr (bs "@h")); ErrItem; Rec (Sam.Aln C11_sam_rec); ErrItem]
  /\ sam_clean C11_o C11_sam_rec.
Proof.
  split; [vm_compute; reflexivity|].
  unfold sam_clean. repeat match goal with |- _ /\ _ => split end; try (repeat constructor).
Qed.

(* Newick: the accepted tree ('a b':1,c)d:-0; reads back with the distance 0 *)
Definition C11_nw_o : foracle :=
  {| f_parse := [(bs "1", bs "1"); (bs "-0", bs "-0")]; f_fmt := [(bs "1", bs "1"); (bs "-0", bs "-0")] |}.
Definition C11_nw_tree : Newick.tree :=
  Newick.Node (bs "d") (bs "-0") [Newick.Node (bs "a b") (bs "1") []; Newick.Node (bs "c") (bs "0") []].
Example C11_newick_example :
  Newick.decode C11_nw_o (bs "('a b':1,c)d:-0;") TEOF = Ok [Rec C11_nw_tree]
  /\ Newick.decode C11_nw_o (Newick.marshal C11_nw_o C11_nw_tree) TEOF
     = Ok [Rec (Newick.Node (bs "d") (bs "0") [Newick.Node (bs "a b") (bs "1") []; Newick.Node (bs "c") (bs "0") []])].
Proof. vm_compute. split; reflexivity. Qed.

(* ---- totality of the translated source ---------------------------------------------------------------
   The decoders as translated from the Go source on this run (gen/ImpGen.v) return a value — never
   GoSem.Panics (an index or slice out of range, a nil dereference, an explicit panic) and never
   GoSem.NoFuel — for EVERY input, every float oracle and both ways a stream can end, given fuel
   linear in the input.  Corollaries of the equivalence theorems of C01–C05 and C20 and of the
   no-panic theorems of the models.  (fastq and smtext take the Scanner's tokens: the split of
   the bytes into lines is bufio's, Base.scan_tokens.) *)
From Bio.gen Require ImpGen.
From Bio.Model Require GoSem.
From Bio.Proofs Require ImpProofsJ ImpProofsK ImpProofsS.

Theorem C11_fasta_reader_total_is_source : forall fuel inp t, (length inp + 2 < fuel)%nat ->
  ImpProofsS.returns (ImpGen.imp_fastard_Reader fuel (GoSem.Stream inp (ImpProofsJ.term_code t) None)).
Proof. exact ImpProofsS.fasta_Reader_returns. Qed.
Print Assumptions C11_fasta_reader_total_is_source.

Theorem C11_fastq_reader_total_is_source : forall fuel cur (toks : list bytes) t, (length toks + 1 < fuel)%nat ->
  ImpProofsS.returns (ImpGen.imp_fastqrd_Reader fuel (GoSem.Scanner cur toks (ImpProofsK.scan_code t) false)).
Proof. exact ImpProofsS.fastq_Reader_returns. Qed.
Print Assumptions C11_fastq_reader_total_is_source.

Theorem C11_bed_reader_total_is_source : forall t fuel s, (length s + 2 < fuel)%nat ->
  ImpProofsS.returns (ImpGen.imp_bed_Reader fuel (GoSem.Stream s (ImpProofsJ.term_code t) None)).
Proof. exact ImpProofsS.bed_Reader_returns. Qed.
Print Assumptions C11_bed_reader_total_is_source.

Theorem C11_sam_reader_total_is_source : forall o t fuel s, (length s + 1 < fuel)%nat ->
  ImpProofsS.returns (ImpGen.imp_samrd_ReaderHeader fuel o (GoSem.Stream s (ImpProofsJ.term_code t) None))
  /\ ImpProofsS.returns (ImpGen.imp_samrd_Reader fuel o (GoSem.Stream s (ImpProofsJ.term_code t) None)).
Proof.
  intros o t fuel s H. split; [apply ImpProofsS.sam_ReaderHeader_returns | apply ImpProofsS.sam_Reader_returns]; exact H.
Qed.
Print Assumptions C11_sam_reader_total_is_source.

Theorem C11_newick_read_total_is_source : forall o tm fuel h s last r0, (length s + 2 < fuel)%nat ->
  ImpProofsS.returns (ImpGen.imp_newickrd_reader_read fuel o h (GoSem.Stream s (ImpProofsJ.term_code tm) last) r0).
Proof. exact ImpProofsS.newick_read_returns. Qed.
Print Assumptions C11_newick_read_total_is_source.

Theorem C11_smtext_read_total_is_source : forall o fuel cur (toks : list bytes) code, (length toks < fuel)%nat ->
  ImpProofsS.returns (ImpGen.imp_smtext_ReadNCBI fuel o (GoSem.Scanner cur toks code false)).
Proof. exact ImpProofsS.smtext_ReadNCBI_returns. Qed.
Print Assumptions C11_smtext_read_total_is_source.
