(* Properties/C06.v — decoding is independent of how the bytes are delivered;
   File = Reader.  Only statements; every proof is [exact <lemma>]
   (Proofs/StreamProofs.v, StreamProofsB.v).

   Model/Stream.v: [of_schedule] (a read schedule = the list of the successive
   Read results; the buffered readers hand on its concatenation), [file_run] /
   [file_items] (File = open + Reader + Close; gzip is an abstract lossless
   transport, the identity on the content), [crlf] (every LF replaced by CR LF),
   [fasta_file] ... [newick_file] (the files the writers produce).
   The readers are the formats' own models: Fasta.decode, Fastq.decode,
   Sam.reader_header / Sam.reader, Bed.decode, Newick.decode — each a function
   of (delivered bytes, terminal condition).

   What is a theorem here and what is tested:
   * [C06_schedule_irrelevant_*], [C06_file_eq_reader_*], [C06_file_open_error_*]
     are true BY CONSTRUCTION of the stream contract of DESIGN.md section 3: the
     model readers see the stream only as "the bytes in order, then the terminal
     condition once", so no model function has the schedule as an input.  Their
     content is that the Go code reaches the bytes only through bufio.Reader /
     bufio.Scanner (which re-assemble tokens across short reads) and that File
     delegates to Reader; that is what the correspondence run of C06 tests
     (kinds c06_<fmt>: every 2-partition, one-byte reads, zero-length reads,
     data together with EOF, all 2^(n-1) partitions of tiny inputs; c06_file_<fmt>:
     plain file, gzip file, missing path), with the implementation-vs-
     implementation oracles "chunked == whole" and "File == Reader".
   * [C06_crlf_*] are real theorems about the readers: well-formed input (the
     writer output of in-domain records) decodes to the same items with LF and
     with CR LF line terminators. *)
From Coq Require Import String.
From Bio Require Import Base.
From Bio.Model Require Fasta Fastq Sam Bed Newick.
From Bio.Model Require Import Stream.
From Bio.Spec Require FastaSpec FastqSpec SamSpec BedSpec NewickSpec.
From Bio.Proofs Require Import StreamProofs StreamProofsB.
Open Scope N_scope.

(* ---- read schedules (by construction; see the header) ------------------------ *)

Theorem C06_schedule_irrelevant_fasta : forall cs cs' t, concat cs = concat cs' ->
  Fasta.decode (of_schedule cs) t = Fasta.decode (of_schedule cs') t.
Proof. exact (schedule_irrelevant Fasta.decode). Qed.
Print Assumptions C06_schedule_irrelevant_fasta.

Theorem C06_schedule_irrelevant_fastq : forall cs cs' t, concat cs = concat cs' ->
  Fastq.decode (of_schedule cs) t = Fastq.decode (of_schedule cs') t.
Proof. exact (schedule_irrelevant Fastq.decode). Qed.
Print Assumptions C06_schedule_irrelevant_fastq.

Theorem C06_schedule_irrelevant_sam : forall o cs cs' t, concat cs = concat cs' ->
  Sam.reader_header o (of_schedule cs) t = Sam.reader_header o (of_schedule cs') t
  /\ Sam.reader o (of_schedule cs) t = Sam.reader o (of_schedule cs') t.
Proof.
  exact (fun o cs cs' t H => conj (schedule_irrelevant (Sam.reader_header o) cs cs' t H)
                                  (schedule_irrelevant (Sam.reader o) cs cs' t H)).
Qed.
Print Assumptions C06_schedule_irrelevant_sam.

Theorem C06_schedule_irrelevant_bed : forall cs cs' t, concat cs = concat cs' ->
  Bed.decode (of_schedule cs) t = Bed.decode (of_schedule cs') t.
Proof. exact (schedule_irrelevant Bed.decode). Qed.
Print Assumptions C06_schedule_irrelevant_bed.

Theorem C06_schedule_irrelevant_newick : forall o cs cs' t, concat cs = concat cs' ->
  Newick.decode o (of_schedule cs) t = Newick.decode o (of_schedule cs') t.
Proof. exact (fun o => schedule_irrelevant (Newick.decode o)). Qed.
Print Assumptions C06_schedule_irrelevant_newick.

(* ---- CR LF line terminators ---------------------------------------------------- *)

(* FASTA: the records written one after the other by Write (names free of
   CR/LF, sequences free of CR/LF/'>'; any lengths, so lines of 80 and a
   shorter last line) *)
Theorem C06_crlf_fasta : forall rs, Forall FastaSpec.fa_ok rs ->
  Fasta.decode (crlf (fasta_file rs)) TEOF = Fasta.decode (fasta_file rs) TEOF.
Proof. exact crlf_fasta. Qed.
Print Assumptions C06_crlf_fasta.

Theorem C06_crlf_fasta_records : forall rs, Forall FastaSpec.fa_ok rs ->
  Fasta.decode (crlf (fasta_file rs)) TEOF = map Rec rs.
Proof. exact crlf_fasta_records. Qed.
Print Assumptions C06_crlf_fasta_records.

(* FASTQ: for ANY text without CR (well-formed or not) and either terminal
   condition the items are the same with LF and CR LF ... *)
Theorem C06_crlf_fastq_any : forall s t, ~ In CR s ->
  Fastq.decode (crlf s) t = Fastq.decode s t.
Proof. exact crlf_fastq_any. Qed.
Print Assumptions C06_crlf_fastq_any.

(* ... in particular for written files of in-domain records *)
Theorem C06_crlf_fastq : forall rs t, Forall FastqSpec.fq_ok rs ->
  Fastq.decode (crlf (fastq_file rs)) t = Fastq.decode (fastq_file rs) t.
Proof. exact crlf_fastq. Qed.
Print Assumptions C06_crlf_fastq.

Theorem C06_crlf_fastq_records : forall rs, Forall FastqSpec.fq_ok rs ->
  Fastq.decode (crlf (fastq_file rs)) TEOF = map Rec rs.
Proof. exact crlf_fastq_records. Qed.
Print Assumptions C06_crlf_fastq_records.

(* SAM: for ANY text none of whose LF-terminated lines ends in CR ... *)
Theorem C06_crlf_sam_any : forall o s t,
  Forall (fun l => drop_cr l = l) (fst (rs_lines s)) ->
  Sam.reader_header o (crlf s) t = Sam.reader_header o s t.
Proof. exact crlf_sam_any. Qed.
Print Assumptions C06_crlf_sam_any.

(* ... in particular for a file of header lines and written records *)
Theorem C06_crlf_sam : forall o hs rs t,
  Forall SamSpec.header_ok hs -> Forall (SamSpec.sam_ok o) rs ->
  Sam.reader_header o (crlf (sam_file o hs rs)) t = Sam.reader_header o (sam_file o hs rs) t.
Proof. exact crlf_sam. Qed.
Print Assumptions C06_crlf_sam.

Theorem C06_crlf_sam_reader : forall o hs rs t,
  Forall SamSpec.header_ok hs -> Forall (SamSpec.sam_ok o) rs ->
  Sam.reader o (crlf (sam_file o hs rs)) t = Sam.reader o (sam_file o hs rs) t.
Proof. exact crlf_sam_reader. Qed.
Print Assumptions C06_crlf_sam_reader.

(* BED *)
Theorem C06_crlf_bed_any : forall s t,
  Forall (fun l => drop_cr l = l) (fst (rs_lines s)) ->
  Bed.decode (crlf s) t = Bed.decode s t.
Proof. exact crlf_bed_any. Qed.
Print Assumptions C06_crlf_bed_any.

Theorem C06_crlf_bed : forall bs w t, Forall BedSpec.bed_ok bs -> bed_file bs = Ok w ->
  Bed.decode (crlf w) t = Bed.decode w t.
Proof. exact crlf_bed. Qed.
Print Assumptions C06_crlf_bed.

(* Newick: a file of written trees, one per line.  A quoted name may itself
   contain LF (C05), and replacing that LF changes the name, so the trees are
   those whose names contain no LF ([lf_free_names]; any other byte, CR
   included, is allowed) ... *)
Theorem C06_crlf_newick : forall o ts,
  Forall (NewickSpec.floats_ok o) ts -> Forall lf_free_names ts ->
  Newick.decode o (crlf (newick_file o ts)) TEOF = Newick.decode o (newick_file o ts) TEOF.
Proof. exact crlf_newick. Qed.
Print Assumptions C06_crlf_newick.

(* ... and for arbitrary names: CR LF instead of LF (or any whitespace instead
   of any other) as the line terminator between trees *)
Theorem C06_newick_terminator_irrelevant : forall o sep sep' ts,
  NewickSpec.ws_string sep -> NewickSpec.ws_string sep' -> Forall (NewickSpec.floats_ok o) ts ->
  Newick.decode o (concat (map (fun t => Newick.marshal o t ++ sep) ts)) TEOF
  = Newick.decode o (concat (map (fun t => Newick.marshal o t ++ sep') ts)) TEOF.
Proof. exact newick_separator_irrelevant. Qed.
Print Assumptions C06_newick_terminator_irrelevant.

(* ---- File (by construction; see the header) ------------------------------------- *)

Theorem C06_file_eq_reader_fasta : forall gz w,
  file_items true gz Fasta.decode w = Fasta.decode w TEOF.
Proof. exact (fun gz => file_eq_reader [ErrItem] gz Fasta.decode). Qed.
Print Assumptions C06_file_eq_reader_fasta.

Theorem C06_file_open_error_fasta : forall gz w,
  file_items false gz Fasta.decode w = [ErrItem].
Proof. exact (fun gz => file_open_error [ErrItem] gz Fasta.decode). Qed.
Print Assumptions C06_file_open_error_fasta.

Theorem C06_file_eq_reader_fastq : forall gz w,
  file_items true gz Fastq.decode w = Fastq.decode w TEOF.
Proof. exact (fun gz => file_eq_reader [ErrItem] gz Fastq.decode). Qed.
Print Assumptions C06_file_eq_reader_fastq.

Theorem C06_file_open_error_fastq : forall gz w,
  file_items false gz Fastq.decode w = [ErrItem].
Proof. exact (fun gz => file_open_error [ErrItem] gz Fastq.decode). Qed.
Print Assumptions C06_file_open_error_fastq.

(* sam.File and sam.FileHeader *)
Theorem C06_file_eq_reader_sam : forall o gz w,
  file_items true gz (Sam.reader o) w = Sam.reader o w TEOF
  /\ file_items true gz (Sam.reader_header o) w = Sam.reader_header o w TEOF.
Proof.
  exact (fun o gz w => conj (file_eq_reader [ErrItem] gz (Sam.reader o) w)
                            (file_eq_reader [ErrItem] gz (Sam.reader_header o) w)).
Qed.
Print Assumptions C06_file_eq_reader_sam.

Theorem C06_file_open_error_sam : forall o gz w,
  file_items false gz (Sam.reader o) w = [ErrItem]
  /\ file_items false gz (Sam.reader_header o) w = [ErrItem].
Proof.
  exact (fun o gz w => conj (file_open_error [ErrItem] gz (Sam.reader o) w)
                            (file_open_error [ErrItem] gz (Sam.reader_header o) w)).
Qed.
Print Assumptions C06_file_open_error_sam.

Theorem C06_file_eq_reader_bed : forall gz w,
  file_items true gz Bed.decode w = Bed.decode w TEOF.
Proof. exact (fun gz => file_eq_reader [ErrItem] gz Bed.decode). Qed.
Print Assumptions C06_file_eq_reader_bed.

Theorem C06_file_open_error_bed : forall gz w,
  file_items false gz Bed.decode w = [ErrItem].
Proof. exact (fun gz => file_open_error [ErrItem] gz Bed.decode). Qed.
Print Assumptions C06_file_open_error_bed.

(* the Newick model reader returns an outcome (the reader can be asked whether
   it panics; it never does, C05_no_panic) *)
Theorem C06_file_eq_reader_newick : forall o gz w,
  file_run (Ok [ErrItem]) true gz (Newick.decode o) w = Newick.decode o w TEOF.
Proof. exact (fun o gz => file_eq_reader (Ok [ErrItem]) gz (Newick.decode o)). Qed.
Print Assumptions C06_file_eq_reader_newick.

Theorem C06_file_open_error_newick : forall o gz w,
  file_run (Ok [ErrItem]) false gz (Newick.decode o) w = Ok [ErrItem].
Proof. exact (fun o gz => file_open_error (Ok [ErrItem]) gz (Newick.decode o)). Qed.
Print Assumptions C06_file_open_error_newick.

(* ---- non-vacuity ---------------------------------------------------------------- *)

(* FASTA: an 81-byte sequence (two lines) and a record without sequence *)
Definition C06_fa : list Fasta.fasta :=
  [ {| Fasta.name := bs ">a b"; Fasta.seq := repeat 65 81 |};
    {| Fasta.name := []; Fasta.seq := [] |};
    {| Fasta.name := bs "x"; Fasta.seq := bs "TT" |} ].
Example C06_ex_fasta :
  Forall FastaSpec.fa_ok C06_fa
  /\ length (fasta_file C06_fa) = 97%nat /\ length (crlf (fasta_file C06_fa)) = 103%nat
  /\ Fasta.decode (crlf (fasta_file C06_fa)) TEOF = map Rec C06_fa
  /\ Fasta.decode (of_schedule [bs ">a"; []; bs ""; [LF; 65]; [LF]]) TEOF
     = Fasta.decode (of_schedule [bs ">"; bs "a"; [LF]; [65; LF]]) TEOF.
Proof.
  split; [repeat constructor|]. vm_compute. repeat split.
Qed.

Definition C06_fq : list Fastq.fastq :=
  [ {| Fastq.name := bs "@r 1"; Fastq.seq := bs "+"; Fastq.quals := bs "@" |};
    {| Fastq.name := []; Fastq.seq := []; Fastq.quals := [] |} ].
Example C06_ex_fastq :
  Forall FastqSpec.fq_ok C06_fq
  /\ ~ In CR (fastq_file C06_fq)
  /\ Fastq.decode (crlf (fastq_file C06_fq)) TEOF = map Rec C06_fq
  /\ crlf (fastq_file C06_fq) <> fastq_file C06_fq.
Proof.
  split; [repeat constructor|]. split; [|vm_compute; split; [reflexivity | discriminate]].
  apply fastq_file_nocr. repeat constructor.
Qed.

(* the CR-free hypothesis of the "any text" form is needed: a name ending in CR *)
Example C06_ex_fastq_cr_needed :
  let s := bs "@a" ++ [CR; CR; LF] ++ bs "A" ++ [LF] ++ bs "+" ++ [LF] ++ bs "I" ++ [LF] in
  Fastq.decode (crlf s) TEOF <> Fastq.decode s TEOF.
Proof. vm_compute. discriminate. Qed.

(* SAM: a header containing a CR in the middle and a quote, and a record *)
Definition C06_sam_o : foracle := {| f_parse := []; f_fmt := [] |}.
Definition C06_sam_r : Sam.sam :=
  {| Sam.s_qname := bs """q"; Sam.s_flag := 4; Sam.s_rname := bs "*"; Sam.s_pos := 0; Sam.s_mapq := 0;
     Sam.s_cigar := bs "*"; Sam.s_rnext := bs "*"; Sam.s_pnext := 0; Sam.s_tlen := 0;
     Sam.s_seq := bs "AC"; Sam.s_qual := bs "!!"; Sam.s_tags := [(bs "XX", Sam.TI 7)] |}.
Definition C06_sam_h : bytes := 64 :: bs "CO" ++ TAB :: bs "a" ++ CR :: bs "b""".
Example C06_ex_sam :
  Forall SamSpec.header_ok [C06_sam_h] /\ Forall (SamSpec.sam_ok C06_sam_o) [C06_sam_r]
  /\ Sam.reader_header C06_sam_o (crlf (sam_file C06_sam_o [C06_sam_h] [C06_sam_r])) TEOF
     = [Rec (Sam.Hdr C06_sam_h); Rec (Sam.Aln C06_sam_r)]
  /\ Sam.reader_header C06_sam_o (sam_file C06_sam_o [C06_sam_h] [C06_sam_r]) TEOF
     = [Rec (Sam.Hdr C06_sam_h); Rec (Sam.Aln C06_sam_r)].
Proof.
  split.
  { constructor; [|constructor]. split; [eexists; reflexivity|]. split; [|reflexivity].
    vm_compute. intuition discriminate. }
  split.
  { constructor; [|constructor]. SamSpec.sam_ok_example. }
  vm_compute. split; reflexivity.
Qed.

Definition C06_bed1 : Bed.bed :=
  {| Bed.b_n := 6; Bed.b_chrom := bs "chr""1"; Bed.b_start := 1%Z; Bed.b_end := 2%Z;
     Bed.b_name := bs "a,b#"; Bed.b_score := (-5)%Z; Bed.b_strand := bs "+";
     Bed.b_thick_start := 0%Z; Bed.b_thick_end := 0%Z; Bed.b_rgb := (0, 0, 0);
     Bed.b_block_count := 0%Z; Bed.b_block_sizes := []; Bed.b_block_starts := [] |}.
Example C06_ex_bed :
  exists w, bed_file [C06_bed1; C06_bed1] = Ok w
    /\ Bed.decode (crlf w) TEOF = [Rec C06_bed1; Rec C06_bed1]
    /\ Bed.decode w TEOF = [Rec C06_bed1; Rec C06_bed1]
    /\ file_items true true Bed.decode w = [Rec C06_bed1; Rec C06_bed1]
    /\ file_items false true Bed.decode w = [ErrItem].
Proof. eexists. split; [vm_compute; reflexivity|]. vm_compute. repeat split. Qed.

(* Newick: a quoted name with a CR and a space, an exponent-format distance *)
Definition C06_nw_o : foracle :=
  {| f_parse := [(bs "1e-07", bs "1e-07")]; f_fmt := [(bs "1e-07", bs "1e-07")] |}.
Definition C06_nw_t : Newick.tree :=
  Newick.Node (bs "it's") (bs "0")
    [Newick.Node (bs "a b") (bs "0") []; Newick.Node [120; 13; 121] (bs "1e-07") []].
Example C06_ex_newick :
  Forall (NewickSpec.floats_ok C06_nw_o) [C06_nw_t; C06_nw_t] /\ Forall lf_free_names [C06_nw_t; C06_nw_t]
  /\ Newick.decode C06_nw_o (crlf (newick_file C06_nw_o [C06_nw_t; C06_nw_t])) TEOF
     = Ok [Rec C06_nw_t; Rec C06_nw_t]
  /\ crlf (newick_file C06_nw_o [C06_nw_t; C06_nw_t]) <> newick_file C06_nw_o [C06_nw_t; C06_nw_t].
Proof.
  assert (F : NewickSpec.floats_ok C06_nw_o C06_nw_t).
  { unfold NewickSpec.floats_ok. vm_compute NewickSpec.dists.
    repeat (apply Forall_cons;
            [ let H := fresh "H" in intros H;
              first [ vm_compute in H; discriminate H
                    | clear H; vm_compute; repeat constructor; discriminate ] | ]);
    apply Forall_nil. }
  assert (L : lf_free_names C06_nw_t).
  { unfold lf_free_names. vm_compute. repeat constructor; intuition discriminate. }
  split; [repeat (apply Forall_cons; [exact F|]); apply Forall_nil|]. split; [repeat (apply Forall_cons; [exact L|]); apply Forall_nil|].
  vm_compute. split; [reflexivity | discriminate].
Qed.

(* the LF-free hypothesis on names is needed: a name containing LF is changed *)
Example C06_ex_newick_lf_name :
  let t := Newick.Node [120; 10; 121] (bs "0") [] in
  Newick.decode C06_nw_o (crlf (newick_file C06_nw_o [t])) TEOF
  = Ok [Rec (Newick.Node [120; 13; 10; 121] (bs "0") [])].
Proof. vm_compute. reflexivity. Qed.

(* ---- the same, for the readers as translated from the Go source ---------------------------------------
   The translated Reader of fasta reads a CR LF file back as the records; the translated readers of
   bed and sam yield the same items for the CR LF and the LF version of a file, whichever way the
   stream ends.  (The chunking of the reads is below bufio and not visible to the translated code:
   its input is the byte stream, GoSem.go_stream.) *)
From Bio.gen Require ImpGen.
From Bio.Model Require GoSem.
From Bio.Proofs Require ImpProofsJ ImpProofsT.

Theorem C06_crlf_fasta_is_source : forall rs fuel, Forall FastaSpec.fa_ok rs ->
  (length (crlf (fasta_file rs)) + 2 < fuel)%nat ->
  ImpGen.imp_fastard_Reader fuel (GoSem.Stream (crlf (fasta_file rs)) 1%Z None)
  = GoSem.Ret (GoSem.Stream [] 1%Z None, map (ImpProofsJ.fa_item TEOF) (map Rec rs)).
Proof. exact ImpProofsT.fasta_crlf_src. Qed.
Print Assumptions C06_crlf_fasta_is_source.

Theorem C06_crlf_bed_is_source : forall bs w t fuel fuel', Forall BedSpec.bed_ok bs -> bed_file bs = Ok w ->
  (length (crlf w) + 2 < fuel)%nat -> (length w + 2 < fuel')%nat ->
  exists st st' items,
    ImpGen.imp_bed_Reader fuel (GoSem.Stream (crlf w) (ImpProofsJ.term_code t) None) = GoSem.Ret (st, items) /\
    ImpGen.imp_bed_Reader fuel' (GoSem.Stream w (ImpProofsJ.term_code t) None) = GoSem.Ret (st', items).
Proof. exact ImpProofsT.bed_crlf_src. Qed.
Print Assumptions C06_crlf_bed_is_source.

Theorem C06_crlf_sam_is_source : forall o hs rs t fuel fuel',
  Forall SamSpec.header_ok hs -> Forall (SamSpec.sam_ok o) rs ->
  (length (crlf (sam_file o hs rs)) + 1 < fuel)%nat -> (length (sam_file o hs rs) + 1 < fuel')%nat ->
  exists st st' items,
    ImpGen.imp_samrd_ReaderHeader fuel o (GoSem.Stream (crlf (sam_file o hs rs)) (ImpProofsJ.term_code t) None) = GoSem.Ret (st, items) /\
    ImpGen.imp_samrd_ReaderHeader fuel' o (GoSem.Stream (sam_file o hs rs) (ImpProofsJ.term_code t) None) = GoSem.Ret (st', items).
Proof. exact ImpProofsT.sam_crlf_src. Qed.
Print Assumptions C06_crlf_sam_is_source.

(* ---- File, as translated ---------------------------------------------------------------------------------------
   The File adapters (aio.Open, the error item of a failing open, the deferred Close, the loop
   forwarding Reader's items) as translated on this run; whether the file opens and what it holds
   is the parameter open__ (GoSem.go_open: None = the open fails).  A file that opens gives
   exactly the items of Reader on its content; one that does not gives exactly one error item. *)
From Bio.Proofs Require ImpProofsH ImpProofsK ImpProofsL ImpProofsQ ImpProofsR ImpProofsZ.

Theorem C06_file_fasta_is_source : forall fuel file inp t, (length inp + 2 < fuel)%nat ->
  ImpGen.imp_fastard_File fuel None file = GoSem.Ret (GoSem.Stream [] 2%Z None, [(ImpProofsJ.fa_zero, 2%Z)])
  /\ ImpGen.imp_fastard_File fuel (Some (GoSem.Stream inp (ImpProofsJ.term_code t) None)) file
     = GoSem.Ret (GoSem.Stream [] (ImpProofsJ.term_code t) None, map (ImpProofsJ.fa_item t) (Fasta.decode inp t)).
Proof.
  intros fuel file inp t H. split; [apply ImpProofsZ.imp_fasta_File_closed | apply ImpProofsZ.imp_fasta_File_open; exact H].
Qed.
Print Assumptions C06_file_fasta_is_source.

Theorem C06_file_fastq_is_source : forall fuel file cur (toks : list bytes) t, (length toks + 1 < fuel)%nat ->
  ImpGen.imp_fastqrd_File fuel None file = GoSem.Ret (GoSem.Scanner [] [] 2%Z true, [(ImpProofsK.fq_zero, 2%Z)]) /\
  exists s' out, ImpGen.imp_fastqrd_File fuel (Some (GoSem.Scanner cur toks (ImpProofsK.scan_code t) false)) file = GoSem.Ret (s', out)
                 /\ Forall2 ImpProofsK.fq_item_ok (Fastq.decode_toks t toks) out.
Proof. exact ImpProofsZ.imp_fastq_File_ok. Qed.
Print Assumptions C06_file_fastq_is_source.

Theorem C06_file_bed_is_source : forall fuel file s t, (length s + 2 < fuel)%nat ->
  ImpGen.imp_bed_File fuel None file = GoSem.Ret (GoSem.Stream [] 2%Z None, [(ImpProofsH.zero_bed, 2%Z)]) /\
  exists st, ImpGen.imp_bed_File fuel (Some (GoSem.Stream s (ImpProofsJ.term_code t) None)) file
             = GoSem.Ret (st, map ImpProofsL.bed_item (Bed.decode s t)).
Proof. exact ImpProofsZ.imp_bed_File_ok. Qed.
Print Assumptions C06_file_bed_is_source.

Theorem C06_file_sam_is_source : forall fuel o file s t, (length s + 1 < fuel)%nat ->
  ImpGen.imp_samrd_File fuel o None file = GoSem.Ret (GoSem.Stream [] 2%Z None, [(None, 2%Z)]) /\
  ImpGen.imp_samrd_FileHeader fuel o None file = GoSem.Ret (GoSem.Stream [] 2%Z None, [ImpProofsQ.sh_item ErrItem]) /\
  (exists st, ImpGen.imp_samrd_File fuel o (Some (GoSem.Stream s (ImpProofsJ.term_code t) None)) file
              = GoSem.Ret (st, map ImpProofsQ.sr_item (Sam.reader o s t))) /\
  (exists st, ImpGen.imp_samrd_FileHeader fuel o (Some (GoSem.Stream s (ImpProofsJ.term_code t) None)) file
              = GoSem.Ret (st, map ImpProofsQ.sh_item (Sam.reader_header o s t))).
Proof. exact ImpProofsZ.imp_sam_File_ok. Qed.
Print Assumptions C06_file_sam_is_source.

Theorem C06_file_newick_is_source : forall o tm fuel h file s, (length s + 2 < fuel)%nat ->
  ImpGen.imp_newickrd_File fuel o h None file = GoSem.Ret (GoSem.Stream [] 2%Z None, (h, [((-1)%Z, 2%Z)])) /\
  match Newick.decode o s tm with
  | Ok items => exists st h' out,
      ImpGen.imp_newickrd_File fuel o h (Some (GoSem.Stream s (ImpProofsJ.term_code tm) None)) file = GoSem.Ret (st, (h', out)) /\
      Forall2 (ImpProofsR.item_holds h') items out /\ ImpProofsR.keeps (GoSem.go_len h) h h'
  | _ => True
  end.
Proof. exact ImpProofsZ.imp_newick_File_ok. Qed.
Print Assumptions C06_file_newick_is_source.
