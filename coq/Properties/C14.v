(* Properties/C14.v — Translation implements the standard genetic code in all
   reading frames.  Only statements; every proof is [exact <lemma>].
   The model (Model/Seq.v) reads its codon and amino-acid tables from
   gen/Tables.v, which is regenerated from the implementation on every run. *)
From Coq Require Import String.
From Bio Require Import Base.
From Bio.gen Require Import Tables.
From Bio.Model Require Import Seq.
From Bio.Spec Require Import SeqSpec.
From Bio.Proofs Require Import TranslateProofs.

(* Every codon, in any mix of upper and lower case, maps to the amino acid of
   NCBI table 1; any other byte triple panics (a, b, c range over all of N). *)
Theorem C14_genetic_code : forall dst a b c,
  translate dst [a; b; c] =
  match std_amino a b c with Some x => Ok (dst ++ [x]) | None => Panic end.
Proof. exact one_codon. Qed.
Print Assumptions C14_genetic_code.

(* Whole sequences: one letter per codon appended to dst, for every length. *)
Theorem C14_translate_exact : forall dst s,
  translate dst s = match std_translate s with Some l => Ok (dst ++ l) | None => Panic end.
Proof. exact translate_exact. Qed.
Print Assumptions C14_translate_exact.

Theorem C14_translate_concat : forall dst s t ls lt,
  translate [] s = Ok ls -> translate [] t = Ok lt ->
  translate dst (s ++ t) = Ok (dst ++ ls ++ lt).
Proof. exact translate_concat. Qed.
Print Assumptions C14_translate_concat.

(* Panics exactly on a length not divisible by 3 or a base outside aAcCgGtT. *)
Theorem C14_translate_panics_iff : forall dst s,
  translate dst s = Panic <-> ~ (Nat.modulo (length s) 3 = 0%nat /\ dna8 s).
Proof. exact translate_panics_iff. Qed.
Print Assumptions C14_translate_panics_iff.

(* TranslateReadingFrames: any length, including 0, 1 and 2. *)
Theorem C14_frames_any_length : forall s, dna8 s ->
  exists f0 f1 f2, frames s = Ok [f0; f1; f2]
    /\ translate [] (firstn (length (skipn 0 s) / 3 * 3) (skipn 0 s)) = Ok f0
    /\ translate [] (firstn (length (skipn 1 s) / 3 * 3) (skipn 1 s)) = Ok f1
    /\ translate [] (firstn (length (skipn 2 s) / 3 * 3) (skipn 2 s)) = Ok f2.
Proof. exact frames_spec. Qed.
Print Assumptions C14_frames_any_length.

(* AminoName accepts exactly the letters of AminoAcids, in either case (all 256
   byte values of the regenerated table). *)
Theorem C14_amino_name_exact : forall b, b < 256 ->
  (exists code name, amino_name b = Ok (code, name) /\ code <> [] /\ name <> []
                     /\ memb (upper_byte b) amino_acids = true)
  \/ (amino_name b = Panic /\ memb (upper_byte b) amino_acids = false).
Proof. exact amino_name_exact. Qed.
Print Assumptions C14_amino_name_exact.

(* Non-vacuity: the hypotheses are met by concrete values, and the spec is the
   familiar code. *)
Example C14_example_atg : std_amino 97 84 103 = Some 77 (* "aTg" -> 'M' *)
  /\ std_translate (bs "ATGTAA") = Some (bs "M*")
  /\ dna8 (bs "Ac") /\ frames (bs "A") = Ok [[]; []; []]
  /\ translate [] (bs "AC") = Panic /\ translate [] (bs "ACN") = Panic.
Proof. vm_compute. repeat split; repeat constructor. Qed.

(* ---- tie to the Go source by translation of whole function bodies (gen/ImpGen.v) -------- *)
From Bio.gen Require ImpGen.
From Bio.Model Require GoSem.
From Bio.Proofs Require ImpProofs ImpProofsB.

(* Translate's loop `for i := 0; i < len(src); i += 3` is run on explicit fuel; any fuel
   above len(src)/3 gives the model's answer. *)
Theorem C14_translate_is_source : forall fuel dst src, ImpProofs.all_bytes src ->
  (length src / 3 < fuel)%nat ->
  ImpGen.imp_sequtil_Translate fuel dst src = ImpProofs.of_outcome (translate dst src).
Proof. exact ImpProofsB.imp_Translate. Qed.
Print Assumptions C14_translate_is_source.

Theorem C14_frames_is_source : forall fuel s, ImpProofs.all_bytes s ->
  (length s / 3 < fuel)%nat ->
  ImpGen.imp_sequtil_TranslateReadingFrames fuel s = ImpProofs.of_outcome (frames s).
Proof. exact ImpProofsB.imp_TranslateReadingFrames. Qed.
Print Assumptions C14_frames_is_source.

Example C14_source_example :
  ImpGen.imp_sequtil_Translate 3 [] (bs "atgTAA") = GoSem.Ret (bs "M*")
  /\ ImpGen.imp_sequtil_Translate 3 [] (bs "atgTA") = GoSem.Panics
  /\ ImpGen.imp_sequtil_Translate 3 [] (bs "atgTAN") = GoSem.Panics
  /\ ImpGen.imp_sequtil_TranslateReadingFrames 3 (bs "ATGAT") = GoSem.Ret [bs "M"; bs "*"; bs "D"]
  /\ ImpGen.imp_sequtil_TranslateReadingFrames 1 [] = GoSem.Ret [[]; []; []]
  /\ ImpProofs.all_bytes (bs "atgTAA").
Proof. vm_compute. repeat split; repeat constructor. Qed.

(* AminoName as translated (the case fold, the comma-ok lookup, the panic) answers like the
   model for every byte. *)
Theorem C14_amino_name_is_source : forall b, ImpProofs.is_byte b ->
  ImpGen.imp_sequtil_AminoName b = ImpProofs.of_outcome (amino_name b).
Proof. exact ImpProofs.imp_AminoName. Qed.
Print Assumptions C14_amino_name_is_source.

(* The codon table and the amino-acid names the model uses (read out of the running
   implementation) are the two map literals of amino.go, as translated from the source:
   the same amino acid for every key (0, the zero value of a missing key, elsewhere), the
   same names for every byte. *)
Theorem C14_codon_table_is_source : forall k,
  Bio.Model.GoGlobals.g_sequtil_codonToAmino k = ImpProofs.lit_codon k.
Proof. exact ImpProofs.codon_table_is_source. Qed.
Print Assumptions C14_codon_table_is_source.

Theorem C14_amino_names_are_source : forall b, ImpProofs.is_byte b ->
  Bio.Model.GoGlobals.g_sequtil_aminoToName b = ImpProofs.lit_amino b.
Proof. exact ImpProofs.amino_table_is_source. Qed.
Print Assumptions C14_amino_names_are_source.

(* ---- the property itself, about the translated source: Translate is the standard genetic code ------- *)
From Bio.Proofs Require ImpProofsW.
Theorem C14_translate_exact_is_source : forall fuel dst s, ImpProofs.all_bytes s -> (length s / 3 < fuel)%nat ->
  ImpGen.imp_sequtil_Translate fuel dst s
  = match std_translate s with Some l => GoSem.Ret (dst ++ l) | None => GoSem.Panics end.
Proof. exact ImpProofsW.translate_exact_src. Qed.
Print Assumptions C14_translate_exact_is_source.
