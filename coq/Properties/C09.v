(* Properties/C09.v — With zero gap-open cost Global and Local return the optimal
   score; Levenshtein is minus the edit distance; the shipped matrices are total,
   symmetric, have gap-open 0, never panic and allow swapping the arguments.
   Only statements; every proof is [exact <lemma>].
   The table facts are proved by computation over gen/Tables.v and gen/Lev.v, which
   are regenerated from the implementation on every run. *)
From Coq Require Import String.
From Bio Require Import Base.
From Bio.gen Require Import Tables Lev.
From Bio.Model Require Import Align.
From Bio.Spec Require Import AlignSpec.
From Bio.Proofs Require Import AlignProofs AlignProofsB AlignProofsC.
Open Scope Z_scope.

(* No alignment of a with b scores above what Global returns (with C08_global_valid
   the bound is attained by the returned steps).  Any sign of the gap scores. *)
Theorem C09_global_optimal0 : forall m a b, covers m a b -> gap_open m = Ok 0 ->
  exists gs, global_score m a b = Ok gs /\
    forall al s, consumes al = (length a, length b) -> score m a b al = Ok s -> s <= gs.
Proof. exact global_optimal0. Qed.
Print Assumptions C09_global_optimal0.

(* No alignment of any pair of substrings a[i..], b[j..] (the steps say where it
   ends) scores above what Local returns.  Any sign of the gap scores. *)
Theorem C09_local_optimal0 : forall m a b, covers m a b -> gap_open m = Ok 0 ->
  exists ls, local_score m a b = Ok ls /\
    forall i j al s, score m (skipn i a) (skipn j b) al = Ok s -> s <= ls.
Proof. exact local_optimal0. Qed.
Print Assumptions C09_local_optimal0.

Theorem C09_global_optimal0_any_scorer : forall g a b, covers_g g a b -> gap_open_g g = Ok 0 ->
  exists gs, global_score_g g a b = Ok gs /\
    forall al s, consumes al = (length a, length b) -> score_g g a b al = Ok s -> s <= gs.
Proof. exact global_optimal0_g. Qed.
Print Assumptions C09_global_optimal0_any_scorer.

Theorem C09_local_optimal0_any_scorer : forall g a b, covers_g g a b -> gap_open_g g = Ok 0 ->
  exists ls, local_score_g g a b = Ok ls /\
    forall i j al s, score_g g (skipn i a) (skipn j b) al = Ok s -> s <= ls.
Proof. exact local_optimal0_g. Qed.
Print Assumptions C09_local_optimal0_any_scorer.

(* Levenshtein: all 65,536 entries of the shipped table follow the rule
   (0 on the diagonal, -1 elsewhere); its size is 65,536. *)
Theorem C09_lev_rule : forall a b, (a < 256)%N -> (b < 256)%N ->
  lev_get a b = Ok (if (a =? b)%N then 0 else -1).
Proof. exact lev_rule_all. Qed.
Print Assumptions C09_lev_rule.

Theorem C09_lev_size : lev_size = 65536 /\ length lev_tab = N.to_nat 256
  /\ forallb (fun r => Nat.eqb (length r) (N.to_nat 256)) lev_tab = true.
Proof. exact lev_size_ok. Qed.
Print Assumptions C09_lev_size.

(* With the shipped Levenshtein table the Global score of two byte strings over
   0..254 is exactly minus their edit distance (textbook recursive definition). *)
Theorem C09_lev_is_edit_distance : forall a b,
  Forall (fun x => (x < 255)%N) a -> Forall (fun x => (x < 255)%N) b ->
  global_score_g lev_get a b = Ok (- Z.of_nat (edit_distance a b)).
Proof. exact lev_is_edit_distance. Qed.
Print Assumptions C09_lev_is_edit_distance.

Theorem C09_lev_rule_is_edit_distance : forall a b, ~ In Gap a -> ~ In Gap b ->
  global_score_g lev_rule a b = Ok (- Z.of_nat (edit_distance a b)).
Proof. exact lev_rule_is_edit_distance. Qed.
Print Assumptions C09_lev_rule_is_edit_distance.

Theorem C09_lev_never_panics : forall a b,
  Forall (fun x => (x < 255)%N) a -> Forall (fun x => (x < 255)%N) b ->
  (exists r, global_g lev_get a b = Ok r) /\ (exists r, local_g lev_get a b = Ok r).
Proof. exact lev_never_panics. Qed.
Print Assumptions C09_lev_never_panics.

(* The six shipped PAM/BLOSUM tables: defined for all 24 x 24 pairs over
   "ABCDEFGHIKLMNPQRSTVWXYZ" + Gap, symmetric (for all byte pairs), gap-open 0,
   576 integral entries each. *)
Theorem C09_shipped_total : forall m x y, In m shipped_tabs ->
  In x protein_alphabet -> In y protein_alphabet -> exists z, get m x y = Ok z.
Proof. exact shipped_total. Qed.
Print Assumptions C09_shipped_total.

Theorem C09_shipped_symmetric : forall m, In m shipped_tabs -> forall x y, get m x y = get m y x.
Proof. exact shipped_symmetric. Qed.
Print Assumptions C09_shipped_symmetric.

Theorem C09_shipped_gap_open_zero : forall m, In m shipped_tabs -> gap_open m = Ok 0.
Proof. exact shipped_gap_open_zero. Qed.
Print Assumptions C09_shipped_gap_open_zero.

Theorem C09_shipped_sizes : map (@length _) shipped_tabs = repeat (N.to_nat 576) 6
  /\ [pam120_nonintegral; pam160_nonintegral; pam250_nonintegral;
      blosum45_nonintegral; blosum62_nonintegral; blosum80_nonintegral] = repeat false 6.
Proof. exact shipped_sizes. Qed.
Print Assumptions C09_shipped_sizes.

(* Hence aligning two protein sequences never panics, is optimal, and swapping the
   arguments leaves the scores unchanged. *)
Theorem C09_shipped_never_panics : forall m a b, In m shipped_tabs ->
  incl a protein_letters -> incl b protein_letters ->
  (exists r, global m a b = Ok r) /\ (exists r, local m a b = Ok r).
Proof. exact shipped_never_panics. Qed.
Print Assumptions C09_shipped_never_panics.

Theorem C09_shipped_optimal : forall m a b, In m shipped_tabs ->
  incl a protein_letters -> incl b protein_letters ->
  (exists gs, global_score m a b = Ok gs /\
     forall al s, consumes al = (length a, length b) -> score m a b al = Ok s -> s <= gs)
  /\ (exists ls, local_score m a b = Ok ls /\
     forall i j al s, score m (skipn i a) (skipn j b) al = Ok s -> s <= ls).
Proof. exact shipped_optimal. Qed.
Print Assumptions C09_shipped_optimal.

Theorem C09_shipped_swap : forall m a b, In m shipped_tabs ->
  incl a protein_letters -> incl b protein_letters ->
  global_score m a b = global_score m b a /\ local_score m a b = local_score m b a.
Proof. exact shipped_swap. Qed.
Print Assumptions C09_shipped_swap.

(* Swapping in general: any symmetric matrix with gap-open 0. *)
Theorem C09_global_swap : forall m a b, symmetric_g (get m) -> covers m a b -> gap_open m = Ok 0 ->
  global_score m a b = global_score m b a.
Proof. exact global_swap. Qed.
Print Assumptions C09_global_swap.

Theorem C09_local_swap : forall m a b, symmetric_g (get m) -> covers m a b -> nonpos_gaps m a b ->
  gap_open m = Ok 0 -> local_score m a b = local_score m b a.
Proof. exact local_swap. Qed.
Print Assumptions C09_local_swap.

(* Non-vacuity: BLOSUM62 is one of the shipped tables and covers "HEAGAWGHEE" /
   "PAWHEAE"; the classic scores; Levenshtein "kitten"/"sitting" = -3. *)
Example C09_example :
  In blosum62_tab shipped_tabs
  /\ incl (bs "HEAGAWGHEE") protein_letters /\ incl (bs "PAWHEAE") protein_letters
  /\ covers blosum62_tab (bs "HEAGAWGHEE") (bs "PAWHEAE")
  /\ gap_open blosum62_tab = Ok 0
  /\ global_score blosum62_tab (bs "HEAGAWGHEE") (bs "PAWHEAE") = global_score blosum62_tab (bs "PAWHEAE") (bs "HEAGAWGHEE")
  /\ global_score_g lev_get (bs "kitten") (bs "sitting") = Ok (-3)
  /\ edit_distance (bs "kitten") (bs "sitting") = 3%nat
  /\ Forall (fun x => (x < 255)%N) (bs "kitten").
Proof.
  split; [right; right; right; right; left; reflexivity|].
  split; [apply inclb_sound; vm_compute; reflexivity|].
  split; [apply inclb_sound; vm_compute; reflexivity|].
  split; [apply coversb_sound; vm_compute; reflexivity|].
  split; [vm_compute; reflexivity|]. split; [vm_compute; reflexivity|].
  split; [vm_compute; reflexivity|]. split; [vm_compute; reflexivity|].
  vm_compute. repeat constructor.
Qed.

(* ---- tie to the Go source by translation (gen/SrcGen.v, regenerated on every run) ---- *)
From Bio.gen Require SrcGen.
From Bio.Proofs Require SrcGenProofs.

(* decideOnStep of the model is, for all arguments, the function translated from
   align/global.go; the step and gap constants are those of align/align.go. *)
Theorem C09_decide_is_source : forall mch del ins,
  let c := Bio.Model.Align.decide mch del ins in
  let b := SrcGen.src_align_decideOnStep mch del ins in
  fst c = SrcGen.src_align_block_score b /\ Bio.Model.Align.step_code (snd c) = SrcGen.src_align_block_step b.
Proof. exact SrcGenProofs.decide_is_source. Qed.
Print Assumptions C09_decide_is_source.

Theorem C09_step_constants_are_source :
  Bio.Model.Align.step_code Bio.Model.Align.SMatch = SrcGen.k_align_Match
  /\ Bio.Model.Align.step_code Bio.Model.Align.SDel = SrcGen.k_align_Deletion
  /\ Bio.Model.Align.step_code Bio.Model.Align.SIns = SrcGen.k_align_Insertion
  /\ Z.of_N Bio.Model.Align.Gap = SrcGen.k_align_Gap.
Proof. exact SrcGenProofs.step_constants. Qed.
Print Assumptions C09_step_constants_are_source.

(* ---- tie to the Go source by translation of whole function bodies (gen/ImpGen.v, written
   by `harness gen-imp` on every run, in the embedding of Model/GoSem.v) ------------------- *)
From Bio.gen Require ImpGen.
From Bio.Model Require GoSem.
From Bio.Proofs Require ImpProofs ImpProofsD ImpProofsE.

(* Global as translated from global.go (the flat DP loop over blocks, decideOnStep, the
   traceback loop and the in-place reversal of the steps, m.Get on every read) returns, for
   every matrix that answers the pairs the two sequences need and for every a and b, exactly
   the steps and the score of the model's Global, whenever the model returns (which
   C09_global_total-style theorems above establish under the same hypothesis).  The fuel is
   for the two `for cond {}` loops of traceAlignmentSteps.  Not covered by this statement:
   the panic side (a matrix that lacks a needed pair), which stays with the correspondence
   runs. *)
Theorem C09_global_is_source : forall fuel m a b steps s, covers m a b ->
  (S (length a) * S (length b) < fuel)%nat ->
  global m a b = Ok (steps, s) ->
  ImpGen.imp_align_Global fuel a b m = GoSem.Ret (map ImpProofsD.step_n steps, s).
Proof. exact ImpProofsE.imp_Global_ok. Qed.
Print Assumptions C09_global_is_source.

From Bio.Proofs Require ImpProofsF.

(* The same for Local (local.go: the DP loop with the clamp at zero, argmax,
   traceAlignmentStepsLocal with its break, the start offsets i/bn-1 and i%bn-1). *)
Theorem C09_local_is_source : forall fuel m a b steps ai bi s, covers m a b ->
  (S (length a) * S (length b) < fuel)%nat ->
  local m a b = Ok (steps, ai, bi, s) ->
  ImpGen.imp_align_Local fuel a b m = GoSem.Ret (map ImpProofsD.step_n steps, ai, bi, s).
Proof. exact ImpProofsF.imp_Local_ok. Qed.
Print Assumptions C09_local_is_source.

(* The six shipped matrices the theorems above are about (gen/Tables.v, read out of the
   running implementation) are the map literals of pam120.go ... blosum80.go, as translated
   from the source: the same score for every pair of bytes. *)
Theorem C09_shipped_tables_are_source :
  (exists l, ImpGen.imp_align_init_pam120_0 = GoSem.Ret l /\ ImpProofsD.same_lookups l pam120_tab)
  /\ (exists l, ImpGen.imp_align_init_pam160_0 = GoSem.Ret l /\ ImpProofsD.same_lookups l pam160_tab)
  /\ (exists l, ImpGen.imp_align_init_pam250_0 = GoSem.Ret l /\ ImpProofsD.same_lookups l pam250_tab)
  /\ (exists l, ImpGen.imp_align_init_blosum45_0 = GoSem.Ret l /\ ImpProofsD.same_lookups l blosum45_tab)
  /\ (exists l, ImpGen.imp_align_init_blosum62_0 = GoSem.Ret l /\ ImpProofsD.same_lookups l blosum62_tab)
  /\ (exists l, ImpGen.imp_align_init_blosum80_0 = GoSem.Ret l /\ ImpProofsD.same_lookups l blosum80_tab).
Proof. exact ImpProofsD.imp_init_matrices. Qed.
Print Assumptions C09_shipped_tables_are_source.

(* ---- the property itself, about the translated source -------------------------------------------------
   With gap-open 0 the score that the translated Global / Local return is optimal: no alignment of
   a and b (of any pair of suffixes' prefixes, for Local) scores above it. *)
From Bio.Proofs Require ImpProofsV.

Theorem C09_global_optimal0_is_source : forall fuel m a b, covers m a b -> gap_open m = Ok 0 ->
  (S (length a) * S (length b) < fuel)%nat ->
  exists al gs, ImpGen.imp_align_Global fuel a b m = GoSem.Ret (map ImpProofsD.step_n al, gs)
    /\ forall al' s', consumes al' = (length a, length b) -> score m a b al' = Ok s' -> s' <= gs.
Proof. exact ImpProofsV.global_optimal0_src. Qed.
Print Assumptions C09_global_optimal0_is_source.

Theorem C09_local_optimal0_is_source : forall fuel m a b, covers m a b -> gap_open m = Ok 0 ->
  (S (length a) * S (length b) < fuel)%nat ->
  exists al ai bi ls, ImpGen.imp_align_Local fuel a b m = GoSem.Ret (map ImpProofsD.step_n al, ai, bi, ls)
    /\ forall i j al' s', score m (skipn i a) (skipn j b) al' = Ok s' -> s' <= ls.
Proof. exact ImpProofsV.local_optimal0_src. Qed.
Print Assumptions C09_local_optimal0_is_source.

(* ---- the Levenshtein table, as the source's init function builds it ---------------------------------------
   align/levenshtein.go's init (two nested loops over all bytes storing into the map), translated on
   this run, builds a map that holds every pair of bytes, 0 on the diagonal and -1 elsewhere — the
   same answers as the table read out of the package (C09_lev_rule). *)
From Bio.Proofs Require ImpProofsX.
Theorem C09_levenshtein_is_source :
  exists m, ImpGen.imp_align_init_levenshtein_0 = GoSem.Ret m /\
    forall a b, (a < 256)%N -> (b < 256)%N ->
      GoSem.assoc2 m a b = Some (if (a =? b)%N then 0 else -1)
      /\ lev_get a b = Ok (if (a =? b)%N then 0 else -1).
Proof.
  destruct ImpProofsX.imp_init_levenshtein as (m & E & H). exists m. split; [exact E|].
  intros a b Ha Hb. split; [apply H; assumption | apply lev_rule_all; assumption].
Qed.
Print Assumptions C09_levenshtein_is_source.
