(* Properties/C03.v — SAM alignments, typed tags, headers and flag bits survive
   write -> read.  Only statements; every proof is [exact <lemma>].

   Model: Model/Sam.v (sam.go, iter.go, tags.go of the current tree: lines are
   read with ReadString and split on TAB by hand) and gen/FlagGen.v, which is
   regenerated from flag.go on every run.

   Floats: an 'f' tag value is identified by its canonical text; what the writer
   prints for it (FormatFloat 'e') and what ParseFloat accepts are the answers
   of an oracle [o].  strconv's contract
     H1  parseF o (fmtF o x) = Some x
     H2  fmtF o x is non-empty and free of TAB/CR/LF
   is required, inside [sam_ok], of exactly the floats that occur in the record
   ([float_ok]); it is not assumed of all floats, so the hypotheses are
   satisfiable by the finite tables used in the correspondence runs
   (C03_example below). *)
From Coq Require Import String Permutation Sorting.Sorted.
From Bio Require Import Base.
From Bio.gen Require Import FlagGen.
From Bio.Model Require Import Sam.
From Bio.Spec Require Import SamSpec.
From Bio.Proofs Require Import SamProofs SamProofsB SamProofsC.
Open Scope N_scope.

(* Any record in the domain (text fields free of TAB/CR/LF, query name not
   starting with '@', tag names additionally free of ':', 'A' values not
   TAB/CR/LF, any int64 integers, tags of the five types; nothing is required
   about double quotes or any other byte), written with Write and read back by
   ReaderHeader, yields exactly one item: the same record. *)
Theorem C03_roundtrip : forall o r, sam_ok o r ->
  exists r', reader_header o (write o r) TEOF = [Rec (Aln r')] /\ sam_eq r r'.
Proof. exact roundtrip. Qed.
Print Assumptions C03_roundtrip.

Theorem C03_roundtrip_reader : forall o r, sam_ok o r ->
  exists r', reader o (write o r) TEOF = [Rec r'] /\ sam_eq r r'.
Proof. exact roundtrip_reader. Qed.
Print Assumptions C03_roundtrip_reader.

(* MarshalText returns the bytes Write writes. *)
Theorem C03_marshal_is_write : forall o r, marshal_text o r = Ok (concat (write_calls o r)).
Proof. exact (fun o r => eq_refl). Qed.
Print Assumptions C03_marshal_is_write.

(* [sam_eq] is equality of the tag maps: every lookup gives the same answer. *)
Theorem C03_same_record_same_lookups : forall r r', NoDup (map fst (s_tags r)) -> sam_eq r r' ->
  forall k, tag_lookup k (s_tags r) = tag_lookup k (s_tags r').
Proof. exact sam_eq_lookup. Qed.
Print Assumptions C03_same_record_same_lookups.

(* Tags are written sorted (any record, in the domain or not): Write makes one
   call for the eleven mandatory fields, one per tag in bytewise order of the
   tag texts, one for the line feed. *)
Theorem C03_tags_sorted : forall o r,
  exists ts, write_calls o r = join_with [TAB] (fields11 r) :: map (fun t => TAB :: t) ts ++ [[LF]]
    /\ Sorted bytes_le ts /\ Permutation ts (map (tag_text o) (s_tags r)).
Proof. exact tags_sorted. Qed.
Print Assumptions C03_tags_sorted.

(* Each record occupies exactly one line: one LF, and it is the last byte. *)
Theorem C03_one_line : forall o r, sam_ok o r ->
  exists l, write o r = l ++ [LF] /\ ~ In LF l.
Proof. exact one_line. Qed.
Print Assumptions C03_one_line.

(* A file of header lines followed by records, lines ended by LF or CRLF:
   ReaderHeader returns it line for line in order, headers verbatim; Reader
   returns exactly the records. *)
Theorem C03_file : forall o eol hs rs, eol = [LF] \/ eol = [CR; LF] ->
  Forall header_ok hs -> Forall (sam_ok o) rs ->
  exists rs',
    reader_header o (file_text o eol hs rs) TEOF
      = map (fun h => Rec (Hdr h)) hs ++ map (fun r => Rec (Aln r)) rs'
    /\ reader o (file_text o eol hs rs) TEOF = map Rec rs'
    /\ Forall2 sam_eq rs rs'.
Proof. exact file_roundtrip. Qed.
Print Assumptions C03_file.

(* with LF line ends the file is the headers, each followed by LF, then what
   Write writes for each record *)
Theorem C03_file_text_lf : forall o hs rs,
  file_text o [LF] hs rs = concat (map (fun h => h ++ [LF]) hs) ++ concat (map (write o) rs).
Proof. exact file_text_lf. Qed.
Print Assumptions C03_file_text_lf.

(* parseLine has no reachable panic (parseInts always gets 5 strings, 5 pointers). *)
Theorem C03_parse_line_no_panic : forall o l, parse_line o l <> Panic.
Proof. exact parse_line_no_panic. Qed.
Print Assumptions C03_parse_line_no_panic.

(* ---- flags: over the lists generated from flag.go, for ALL integers f ---- *)

(* the i-th accessor of flag.go has the i-th name of the specification and
   reads exactly that bit *)
Theorem C03_flag_getters_exact :
  Forall2 (fun (p : string * (Z -> bool)) (q : string * Z) =>
             fst p = fst q /\ forall f : Z, snd p f = Z.testbit f (snd q))
          flag_getters flag_spec_bits.
Proof. exact flag_getters_exact. Qed.
Print Assumptions C03_flag_getters_exact.

(* the i-th setter writes exactly that bit and no other bit (j ranges over all
   bit positions) *)
Theorem C03_flag_setters_exact :
  Forall2 (fun (p : string * (Z -> bool -> Z)) (q : string * Z) =>
             fst p = fst q /\
             forall (f : Z) (v : bool) (j : Z),
               Z.testbit (snd p f v) j = if (j =? snd q)%Z then v else Z.testbit f j)
          flag_setters flag_spec_bits.
Proof. exact flag_setters_exact. Qed.
Print Assumptions C03_flag_setters_exact.

(* the constants are 0x1 .. 0x800 in the order of the SAM specification *)
Theorem C03_flag_bits_are_spec :
  Forall2 (fun (p q : string * Z) => fst p = ("Flag" ++ fst q)%string /\ snd p = (2 ^ snd q)%Z)
          flag_consts flag_spec_bits
  /\ map snd flag_spec_bits = [0; 1; 2; 3; 4; 5; 6; 7; 8; 9; 10; 11]%Z.
Proof. exact (conj flag_bits_are_spec eq_refl). Qed.
Print Assumptions C03_flag_bits_are_spec.

(* In-form: whatever accessor / setter flag.go defines is one of the twelve *)
Theorem C03_flag_getters_in : forall name g, In (name, g) flag_getters ->
  exists n, In (name, n) flag_spec_bits /\ forall f : Z, g f = Z.testbit f n.
Proof. exact flag_getters_in. Qed.
Print Assumptions C03_flag_getters_in.

Theorem C03_flag_setters_in : forall name s, In (name, s) flag_setters ->
  exists n, In (name, n) flag_spec_bits /\
    forall (f : Z) (v : bool) (j : Z),
      Z.testbit (s f v) j = if (j =? n)%Z then v else Z.testbit f j.
Proof. exact flag_setters_in. Qed.
Print Assumptions C03_flag_setters_in.

(* ---- non-vacuity ---- *)

Definition ex_o : foracle :=
  {| f_parse := [(bs "NaN", bs "NaN"); (bs "-2.5e-10", bs "-2.5e-10")];
     f_fmt := [(bs "NaN", bs "NaN"); (bs "-2.5e-10", bs "-2.5e-10")] |}.

(* quotes at the start of the query name and of the qualities (the D2 input),
   an empty field, all five tag types, names whose text order differs from
   their name order *)
Definition ex_r : sam :=
  {| s_qname := bs """q"; s_flag := 4095; s_rname := bs "chr1"; s_pos := 9223372036854775807;
     s_mapq := -9223372036854775808; s_cigar := bs "4M"; s_rnext := []; s_pnext := 0; s_tlen := -1;
     s_seq := bs "ACGT"; s_qual := bs """!!!";
     s_tags := [ (bs "XX", TI 77); (bs "N", TF (bs "NaN")); (bs "N!", TF (bs "-2.5e-10"));
                 (bs "XA", TA 34); (bs "XZ", TZ []); (bs "XH", TH [0; 255]) ] |}.

Definition ex_r_read : sam :=
  {| s_qname := bs """q"; s_flag := 4095; s_rname := bs "chr1"; s_pos := 9223372036854775807;
     s_mapq := -9223372036854775808; s_cigar := bs "4M"; s_rnext := []; s_pnext := 0; s_tlen := -1;
     s_seq := bs "ACGT"; s_qual := bs """!!!";
     s_tags := [ (bs "N!", TF (bs "-2.5e-10")); (bs "N", TF (bs "NaN")); (bs "XA", TA 34);
                 (bs "XH", TH [0; 255]); (bs "XX", TI 77); (bs "XZ", TZ []) ] |}.

Example C03_example_in_domain : sam_ok ex_o ex_r.
Proof.
  sam_ok_example.
Qed.

Example C03_example :
  reader_header ex_o (write ex_o ex_r) TEOF = [Rec (Aln ex_r_read)]
  /\ reader_header ex_o (file_text ex_o [CR; LF] [64 :: bs "HD" ++ TAB :: bs "VN:""1.6"""] [ex_r; ex_r]) TEOF
     = [Rec (Hdr (64 :: bs "HD" ++ TAB :: bs "VN:""1.6""")); Rec (Aln ex_r_read); Rec (Aln ex_r_read)]
  /\ reader ex_o (bs "@h" ++ LF :: bs "too" ++ TAB :: bs "few" ++ [LF]) TEOF = [ErrItem]
  /\ get_Supplementary 2048 = true /\ set_Unmapped 4095 false = 4091%Z.
Proof. vm_compute. repeat split. Qed.

(* ---- tie to the Go source by translation (gen/SrcGen.v, regenerated on every run) ---- *)
From Bio.gen Require SrcGen.
From Bio.Proofs Require SrcGenProofs.

(* the chunks of SAM.Write are the three translated Fprintf calls, namely the eleven
   mandatory fields ("%s\t%d\t...\t%s"), "\t%s" per sorted tag text, and "\n" *)
Theorem C03_write_format_is_source : forall o r,
  Bio.Model.Sam.write_calls o r
  = SrcGen.src_sam_Write_0 (Bio.Model.Sam.s_qname r) (Bio.Model.Sam.s_flag r) (Bio.Model.Sam.s_rname r)
      (Bio.Model.Sam.s_pos r) (Bio.Model.Sam.s_mapq r) (Bio.Model.Sam.s_cigar r) (Bio.Model.Sam.s_rnext r)
      (Bio.Model.Sam.s_pnext r) (Bio.Model.Sam.s_tlen r) (Bio.Model.Sam.s_seq r) (Bio.Model.Sam.s_qual r)
    :: map SrcGen.src_sam_Write_1 (Bio.Model.Sam.tags_text o (Bio.Model.Sam.s_tags r)) ++ [SrcGen.src_sam_Write_2].
Proof. exact SrcGenProofs.sam_write_is_source. Qed.
Print Assumptions C03_write_format_is_source.

(* ---- tie to the Go source by translation of whole function bodies (gen/ImpGen.v, written
   by `harness gen-imp` on every run, in the embedding of Model/GoSem.v) ------------------- *)
From Bio.gen Require ImpGen.
From Bio.Model Require GoSem.
From Bio.Proofs Require ImpProofs ImpProofsN.

(* SAM.Write as translated from sam.go and tags.go — the eleven fixed fields in one Fprintf,
   then one call per tag over tagsToText (the range over the tag map, tagToText with its type
   switch on the `any` value, sort.Strings), then the newline — hands to a writer that never
   fails exactly the chunks of the model, for every record and every float oracle.  A tag
   value is one of byte, int, float64, string, []byte (GoSem.go_any); the Go map is its
   association list (the order of the range does not matter: the texts are sorted). *)
Theorem C03_write_is_source : forall o r,
  ImpGen.imp_sam_SAM_Write o (ImpProofsN.sam_of r) = GoSem.Ret (Bio.Model.Sam.write_calls o r, false).
Proof. exact ImpProofsN.imp_SAM_Write. Qed.
Print Assumptions C03_write_is_source.

Theorem C03_tags_to_text_is_source : forall o m,
  ImpGen.imp_sam_tagsToText o (ImpProofsN.tags_of m) = GoSem.Ret (Bio.Model.Sam.tags_text o m).
Proof. exact ImpProofsN.imp_tagsToText. Qed.
Print Assumptions C03_tags_to_text_is_source.

(* parseLine as translated from sam.go and tags.go — the field count, the six string fields,
   the five integers through parseInts (its *int out-parameters are the values they point
   to), the tags through splitTag (the two colons found by ranging over the string) and
   parseTags (the switch on the type letter, strconv.Atoi, ParseFloat through the oracle,
   hex.DecodeString, the map store) — returns the model's record exactly when the model
   accepts the line, an error otherwise, for every field list and every float oracle. *)
Theorem C03_parse_line_is_source : forall o line,
  ImpGen.imp_sam_parseLine o line
  = match Bio.Model.Sam.parse_line o line with
    | Ok r => GoSem.Ret (Some (ImpProofsN.sam_of r), false)
    | _ => GoSem.Ret (None, true)
    end.
Proof. exact ImpProofsN.imp_parseLine. Qed.
Print Assumptions C03_parse_line_is_source.

Theorem C03_split_tag_is_source : forall tag,
  ImpGen.imp_sam_splitTag tag
  = match Bio.Model.Sam.split_tag tag with
    | Some (a, b, c) => GoSem.Ret ([a; b; c], false)
    | None => GoSem.Ret ([[]; []; []], true)
    end.
Proof. exact ImpProofsN.imp_splitTag. Qed.
Print Assumptions C03_split_tag_is_source.

Example C03_source_parse_example :
  let o := {| f_parse := [(bs "1.5", bs "1.5")]; f_fmt := [] |} in
  ImpGen.imp_sam_parseLine o [bs "q"; bs "16"; bs "chr"; bs "7"; bs "60"; bs "3M"; bs "="; bs "9"; bs "-3"; bs "ACG"; bs "!!!"; bs "NM:i:2"; bs "XF:f:1.5"; bs "XA:A:c"]
  = GoSem.Ret (Some (ImpGen.Imp_sam_SAM (bs "q") 16 (bs "chr") 7 60 (bs "3M") (bs "=") 9 (-3) (bs "ACG") (bs "!!!")
      [(bs "NM", GoSem.AnyInt 2); (bs "XF", GoSem.AnyFloat (bs "1.5")); (bs "XA", GoSem.AnyByte 99)]), false)
  /\ ImpGen.imp_sam_parseLine o [bs "q"; bs "16"] = GoSem.Ret (None, true).
Proof. vm_compute. split; reflexivity. Qed.

Theorem C03_marshal_is_source : forall o r,
  ImpGen.imp_sam_SAM_MarshalText o (ImpProofsN.sam_of r) = GoSem.Ret (Bio.Model.Sam.write o r, false).
Proof. exact ImpProofsN.imp_SAM_MarshalText. Qed.
Print Assumptions C03_marshal_is_source.

(* ---- the readers of iter.go ------------------------------------------------------------------------
   ReaderHeader and Reader as translated on this run (a *SAM / *string that may be nil is an option;
   parseLine, translated in the same package with plain errors, returns None exactly with an error).
   To a consumer that never stops they yield exactly the items of the model's reader_header / reader
   — header entries, records, one error item per bad line, a final error item on a read error, the
   unterminated last line on EOF — for every input, every float oracle and both terminal
   conditions.  This composes ReadString, the two TrimSuffix calls, the '@' test, strings.Split,
   the translated parseLine (with parseInts, parseTags, splitTag) and Reader's nil test on sh.S. *)
From Bio.Proofs Require ImpProofsJ ImpProofsQ.

Theorem C03_reader_header_is_source : forall o t fuel s, (length s + 1 < fuel)%nat ->
  exists st, ImpGen.imp_samrd_ReaderHeader fuel o (GoSem.Stream s (ImpProofsJ.term_code t) None)
             = GoSem.Ret (st, map ImpProofsQ.sh_item (Bio.Model.Sam.reader_header o s t)).
Proof. exact ImpProofsQ.imp_sam_ReaderHeader_ok. Qed.
Print Assumptions C03_reader_header_is_source.

Theorem C03_reader_is_source : forall o t fuel s, (length s + 1 < fuel)%nat ->
  exists st, ImpGen.imp_samrd_Reader fuel o (GoSem.Stream s (ImpProofsJ.term_code t) None)
             = GoSem.Ret (st, map ImpProofsQ.sr_item (Bio.Model.Sam.reader o s t)).
Proof. exact ImpProofsQ.imp_sam_Reader_ok. Qed.
Print Assumptions C03_reader_is_source.

Example C03_source_reader_example :
  let o := {| f_parse := []; f_fmt := [] |} in
  ImpGen.imp_samrd_Reader 200 o
    (GoSem.Stream (bs "@HD" ++ [13; 10] ++ bs "q" ++ [9] ++ bs "x" ++ [10; 10]
                   ++ bs "q" ++ [9] ++ bs "0" ++ [9] ++ bs "c" ++ [9] ++ bs "1" ++ [9] ++ bs "2" ++ [9] ++ bs "*" ++ [9]
                   ++ bs "=" ++ [9] ++ bs "3" ++ [9] ++ bs "4" ++ [9] ++ bs "A" ++ [9] ++ bs "!")%N 1%Z None)
  = GoSem.Ret (GoSem.Stream [] 1%Z None,
               [(None, 2%Z);
                (Some (ImpGen.Imp_sam_SAM (bs "q") 0 (bs "c") 1 2 (bs "*") (bs "=") 3 4 (bs "A") (bs "!") []), 0%Z)]).
Proof. vm_compute. reflexivity. Qed.

(* ---- the round trip, about the translated source -------------------------------------------------------- *)
From Bio.Proofs Require ImpProofsW.
Theorem C03_roundtrip_is_source : forall o r fuel, sam_ok o r ->
  (length (write o r) + 1 < fuel)%nat ->
  ImpGen.imp_sam_SAM_MarshalText o (ImpProofsN.sam_of r) = GoSem.Ret (write o r, false) /\
  exists r' st, ImpGen.imp_samrd_Reader fuel o (GoSem.Stream (write o r) 1%Z None)
                = GoSem.Ret (st, [(Some (ImpProofsN.sam_of r'), 0%Z)])
                /\ sam_eq r r'.
Proof. exact ImpProofsW.sam_roundtrip_src. Qed.
Print Assumptions C03_roundtrip_is_source.
