(* Properties/C07.v — a failing stream is reported, never mistaken for a clean
   end of data; failing writers.  Only statements; every proof is
   [exact <lemma>] (Proofs/StreamProofs.v, StreamProofsC.v).

   Readers.  A stream that delivers the first k bytes of w and then fails is
   the pair (firstn k w, TErr) (DESIGN.md section 3: the readers consult the
   terminal condition once, after the last delivered byte, and stop; whether
   the io.Reader would fail once or forever is therefore not an input of the
   model — that the implementation also stops, in both cases, is tested by
   the correspondence run with an item cap).  For each format, w a well-formed
   input (the writer output of in-domain records) and EVERY k (offsets beyond
   the end included: the fault then arrives where EOF would have):

     decode (firstn k w) TErr = map Rec (firstn j rs) ++ [ErrItem]   for some j <= |rs|

   where rs are the records of the fault-free decode: only records identical
   to leading records of the fault-free decode are delivered (never one built
   from a truncated line), then exactly one error, which is the last item; the
   result is a finite list, so the iteration ends.

   Writers.  [Stream.limit_write k] is the io.Writer that accepts k bytes in
   total; [write_to_<fmt> k r] runs the Write method (its list of Fprintf/Write
   chunks) against it.  Write returns an error iff k < len(MarshalText), and
   what reached the writer is always the first k bytes of MarshalText. *)
From Coq Require Import String.
From Bio Require Import Base.
From Bio.Model Require Fasta Fastq Sam Bed Newick.
From Bio.Model Require Import Stream.
From Bio.Spec Require FastaSpec FastqSpec SamSpec BedSpec NewickSpec.
From Bio.Proofs Require Import StreamProofs StreamProofsB StreamProofsC.
Open Scope N_scope.

(* ---- failing streams ------------------------------------------------------------ *)

(* FASTA: the fault-free decode of [fasta_file rs] is [map Rec rs]
   (C01_write_read_roundtrip).  The record in progress when the fault arrives
   is dropped: also a record that was written completely, because only the
   next '>' (or EOF) ends a record. *)
Theorem C07_fault_prefix_fasta : forall rs k, Forall FastaSpec.fa_ok rs ->
  exists j, (j <= length rs)%nat
    /\ Fasta.decode (firstn k (fasta_file rs)) TErr = map Rec (firstn j rs) ++ [ErrItem].
Proof. exact fault_prefix_fasta. Qed.
Print Assumptions C07_fault_prefix_fasta.

(* FASTQ: fault-free decode [map Rec rs] (C02_roundtrip).  The Scanner hands
   out the truncated last line as a token; a cut inside the qualities gives
   qualities shorter than the sequence, hence the length error — unless it
   cuts exactly before the final LF, where the record is complete and equal. *)
Theorem C07_fault_prefix_fastq : forall rs k, Forall FastqSpec.fq_ok rs ->
  exists j, (j <= length rs)%nat
    /\ Fastq.decode (firstn k (fastq_file rs)) TErr = map Rec (firstn j rs) ++ [ErrItem].
Proof. exact fault_prefix_fastq. Qed.
Print Assumptions C07_fault_prefix_fastq.

(* one record: a fault anywhere inside it (or right after it) yields the error
   alone, or the complete record and then the error; never anything else *)
Theorem C07_fastq_one_record : forall r m, FastqSpec.fq_ok r ->
  Fastq.decode (firstn m (Fastq.write r)) TErr = [ErrItem]
  \/ Fastq.decode (firstn m (Fastq.write r)) TErr = [Rec r; ErrItem].
Proof. exact fastq_partial. Qed.
Print Assumptions C07_fastq_one_record.

(* SAM (ReaderHeader): [es] is the fault-free decode of the file (header lines
   and records, C03_file); ReadString returns the partial line together with
   the error and the reader discards it. *)
Theorem C07_fault_prefix_sam : forall o hs rs k,
  Forall SamSpec.header_ok hs -> Forall (SamSpec.sam_ok o) rs ->
  exists es j,
    Sam.reader_header o (sam_file o hs rs) TEOF = map Rec es
    /\ (j <= length es)%nat
    /\ Sam.reader_header o (firstn k (sam_file o hs rs)) TErr = map Rec (firstn j es) ++ [ErrItem].
Proof. exact fault_prefix_sam. Qed.
Print Assumptions C07_fault_prefix_sam.

(* SAM (Reader) *)
Theorem C07_fault_prefix_sam_reader : forall o hs rs k,
  Forall SamSpec.header_ok hs -> Forall (SamSpec.sam_ok o) rs ->
  exists rs' j,
    Sam.reader o (sam_file o hs rs) TEOF = map Rec rs'
    /\ (j <= length rs')%nat
    /\ Sam.reader o (firstn k (sam_file o hs rs)) TErr = map Rec (firstn j rs') ++ [ErrItem].
Proof. exact fault_prefix_sam_reader. Qed.
Print Assumptions C07_fault_prefix_sam_reader.

(* BED: records sharing one N; fault-free decode
   [map (fun b => Rec (first_n b)) bs] (C04_file_roundtrip) *)
Theorem C07_fault_prefix_bed : forall n bs w k,
  Forall (fun b => BedSpec.bed_ok b /\ Bed.b_n b = n) bs -> bed_file bs = Ok w ->
  exists j, (j <= length bs)%nat
    /\ Bed.decode (firstn k w) TErr
       = map (fun b => Rec (BedSpec.first_n b)) (firstn j bs) ++ [ErrItem].
Proof. exact fault_prefix_bed. Qed.
Print Assumptions C07_fault_prefix_bed.

(* Newick: a file of written trees, one per line; fault-free decode
   [map (fun t => Rec (norm t)) ts] (C05_roundtrip_seq).  Any names, LF inside
   quoted names included. *)
Theorem C07_fault_prefix_newick : forall o ts k, Forall (NewickSpec.floats_ok o) ts ->
  exists j, (j <= length ts)%nat
    /\ Newick.decode o (firstn k (newick_file o ts)) TErr
       = Ok (map (fun t => Rec (NewickSpec.norm t)) (firstn j ts) ++ [ErrItem]).
Proof. exact fault_prefix_newick. Qed.
Print Assumptions C07_fault_prefix_newick.

(* For EVERY input c ++ d, well-formed or not: on a stream that fails after c,
   read() reports an error, or returns a tree completed inside c — the very
   tree (and the very rest) it returns on the whole input, however that ends.
   A tree is never built from a truncated token. *)
Theorem C07_newick_read_prefix : forall o tm c d,
  Newick.read_tree o c TErr = Newick.RErr
  \/ exists t r, Newick.read_tree o c TErr = Newick.ROk t r
                 /\ Newick.read_tree o (c ++ d) tm = Newick.ROk t (r ++ d).
Proof. exact read_tree_prefix. Qed.
Print Assumptions C07_newick_read_prefix.

(* ---- failing writers --------------------------------------------------------------- *)

(* the generic fact: a writer that accepts k bytes receives the first k bytes
   of the concatenated chunks; the Write method succeeds iff all of them fit *)
Theorem C07_limit_write : forall cs k,
  snd (limit_write k cs) = firstn k (concat cs)
  /\ ((length (concat cs) <= k)%nat -> fst (limit_write k cs) = Ok tt)
  /\ ((k < length (concat cs))%nat -> fst (limit_write k cs) = Err).
Proof. exact limit_write_spec. Qed.
Print Assumptions C07_limit_write.

Theorem C07_write_fault_fasta : forall k r m, Fasta.marshal_text r = Ok m ->
  (k < length m)%nat -> fst (write_to_fasta k r) = Err.
Proof. exact write_fault_fasta. Qed.
Print Assumptions C07_write_fault_fasta.

Theorem C07_write_ok_fasta : forall k r m, Fasta.marshal_text r = Ok m ->
  (length m <= k)%nat -> fst (write_to_fasta k r) = Ok tt.
Proof. exact write_ok_fasta. Qed.
Print Assumptions C07_write_ok_fasta.

Theorem C07_write_fault_fastq : forall k r m, Fastq.marshal_text r = Ok m ->
  (k < length m)%nat -> fst (write_to_fastq k r) = Err.
Proof. exact write_fault_fastq. Qed.
Print Assumptions C07_write_fault_fastq.

Theorem C07_write_ok_fastq : forall k r m, Fastq.marshal_text r = Ok m ->
  (length m <= k)%nat -> fst (write_to_fastq k r) = Ok tt.
Proof. exact write_ok_fastq. Qed.
Print Assumptions C07_write_ok_fastq.

Theorem C07_write_fault_sam : forall o k r m, Sam.marshal_text o r = Ok m ->
  (k < length m)%nat -> fst (write_to_sam o k r) = Err.
Proof. exact write_fault_sam. Qed.
Print Assumptions C07_write_fault_sam.

Theorem C07_write_ok_sam : forall o k r m, Sam.marshal_text o r = Ok m ->
  (length m <= k)%nat -> fst (write_to_sam o k r) = Ok tt.
Proof. exact write_ok_sam. Qed.
Print Assumptions C07_write_ok_sam.

(* BED: [Bed.write] is MarshalText; it is [Ok] exactly for N in 3..12 *)
Theorem C07_write_fault_bed : forall k b m, Bed.write b = Ok m ->
  (k < length m)%nat -> fst (write_to_bed k b) = Err.
Proof. exact write_fault_bed. Qed.
Print Assumptions C07_write_fault_bed.

Theorem C07_write_ok_bed : forall k b m, Bed.write b = Ok m ->
  (length m <= k)%nat -> fst (write_to_bed k b) = Ok tt.
Proof. exact write_ok_bed. Qed.
Print Assumptions C07_write_ok_bed.

Theorem C07_write_in_range_bed : forall b, (3 <= Bed.b_n b <= 12)%Z -> exists m, Bed.write b = Ok m.
Proof. exact write_in_range_bed. Qed.
Print Assumptions C07_write_in_range_bed.

(* N outside 3..12: an error whatever the writer accepts, and nothing is written *)
Theorem C07_write_refused_bed : forall k b, (Bed.b_n b < 3 \/ Bed.b_n b > 12)%Z ->
  write_to_bed k b = (Err, []).
Proof. exact write_refused_bed. Qed.
Print Assumptions C07_write_refused_bed.

(* Newick: MarshalText never fails; Write hands its bytes over in one call *)
Theorem C07_write_fault_newick : forall o k t,
  (k < length (Newick.marshal o t))%nat -> fst (write_to_newick o k t) = Err.
Proof. exact write_fault_newick. Qed.
Print Assumptions C07_write_fault_newick.

Theorem C07_write_ok_newick : forall o k t,
  (length (Newick.marshal o t) <= k)%nat -> fst (write_to_newick o k t) = Ok tt.
Proof. exact write_ok_newick. Qed.
Print Assumptions C07_write_ok_newick.

(* what reached the writer is the first k bytes of MarshalText, for all five *)
Theorem C07_write_emitted :
  (forall k r m, Fasta.marshal_text r = Ok m -> snd (write_to_fasta k r) = firstn k m)
  /\ (forall k r m, Fastq.marshal_text r = Ok m -> snd (write_to_fastq k r) = firstn k m)
  /\ (forall o k r m, Sam.marshal_text o r = Ok m -> snd (write_to_sam o k r) = firstn k m)
  /\ (forall k b m, Bed.write b = Ok m -> snd (write_to_bed k b) = firstn k m)
  /\ (forall o k t, snd (write_to_newick o k t) = firstn k (Newick.marshal o t)).
Proof.
  exact (conj write_emitted_fasta (conj write_emitted_fastq (conj write_emitted_sam
        (conj write_emitted_bed write_emitted_newick)))).
Qed.
Print Assumptions C07_write_emitted.

(* ---- non-vacuity ------------------------------------------------------------------- *)

Definition C07_fa : list Fasta.fasta :=
  [ {| Fasta.name := bs ">a b"; Fasta.seq := repeat 65 81 |};
    {| Fasta.name := []; Fasta.seq := [] |};
    {| Fasta.name := bs "x"; Fasta.seq := bs "TT" |} ].
(* the file has 97 bytes; the first record ends at 89, the second at 91 *)
Example C07_ex_fasta :
  Forall FastaSpec.fa_ok C07_fa /\ length (fasta_file C07_fa) = 97%nat
  /\ Fasta.decode (firstn 0 (fasta_file C07_fa)) TErr = [ErrItem]
  /\ Fasta.decode (firstn 89 (fasta_file C07_fa)) TErr = [ErrItem]
  /\ Fasta.decode (firstn 90 (fasta_file C07_fa)) TErr = map Rec (firstn 1 C07_fa) ++ [ErrItem]
  /\ Fasta.decode (firstn 97 (fasta_file C07_fa)) TErr = map Rec (firstn 2 C07_fa) ++ [ErrItem]
  /\ Fasta.decode (fasta_file C07_fa) TEOF = map Rec C07_fa.
Proof. split; [repeat constructor|]. vm_compute. repeat split. Qed.

Definition C07_fq : list Fastq.fastq :=
  [ {| Fastq.name := bs "@r 1"; Fastq.seq := bs "+A"; Fastq.quals := bs "@I" |};
    {| Fastq.name := []; Fastq.seq := []; Fastq.quals := [] |} ].
(* 14 + 6 bytes: a cut inside the qualities (12), right before the record's last
   LF (13), after it (14), and right before the file's last LF (19: the empty
   qualities line of the second record is not a token) *)
Example C07_ex_fastq :
  Forall FastqSpec.fq_ok C07_fq /\ length (fastq_file C07_fq) = 20%nat
  /\ Fastq.decode (firstn 12 (fastq_file C07_fq)) TErr = [ErrItem]
  /\ Fastq.decode (firstn 13 (fastq_file C07_fq)) TErr = map Rec (firstn 1 C07_fq) ++ [ErrItem]
  /\ Fastq.decode (firstn 14 (fastq_file C07_fq)) TErr = map Rec (firstn 1 C07_fq) ++ [ErrItem]
  /\ Fastq.decode (firstn 19 (fastq_file C07_fq)) TErr = map Rec (firstn 1 C07_fq) ++ [ErrItem]
  /\ Fastq.decode (firstn 20 (fastq_file C07_fq)) TErr = map Rec C07_fq ++ [ErrItem].
Proof. split; [repeat constructor|]. vm_compute. repeat split. Qed.

Definition C07_sam_o : foracle := {| f_parse := []; f_fmt := [] |}.
Definition C07_sam_r : Sam.sam :=
  {| Sam.s_qname := bs """q"; Sam.s_flag := 4; Sam.s_rname := bs "*"; Sam.s_pos := 0; Sam.s_mapq := 0;
     Sam.s_cigar := bs "*"; Sam.s_rnext := bs "*"; Sam.s_pnext := 0; Sam.s_tlen := 0;
     Sam.s_seq := bs "AC"; Sam.s_qual := bs "!!"; Sam.s_tags := [(bs "XX", Sam.TI 7)] |}.
Definition C07_sam_h : bytes := 64 :: bs "HD" ++ TAB :: bs "VN:1.6".
(* header 10 + LF, record 31 + LF: a cut inside the record's tag yields no
   record built from the truncated line *)
Example C07_ex_sam :
  Forall SamSpec.header_ok [C07_sam_h] /\ Forall (SamSpec.sam_ok C07_sam_o) [C07_sam_r]
  /\ length (sam_file C07_sam_o [C07_sam_h] [C07_sam_r]) = 43%nat
  /\ Sam.reader_header C07_sam_o (firstn 10 (sam_file C07_sam_o [C07_sam_h] [C07_sam_r])) TErr = [ErrItem]
  /\ Sam.reader_header C07_sam_o (firstn 41 (sam_file C07_sam_o [C07_sam_h] [C07_sam_r])) TErr
     = [Rec (Sam.Hdr C07_sam_h); ErrItem]
  /\ Sam.reader_header C07_sam_o (firstn 42 (sam_file C07_sam_o [C07_sam_h] [C07_sam_r])) TErr
     = [Rec (Sam.Hdr C07_sam_h); ErrItem]
  /\ Sam.reader_header C07_sam_o (firstn 43 (sam_file C07_sam_o [C07_sam_h] [C07_sam_r])) TErr
     = [Rec (Sam.Hdr C07_sam_h); Rec (Sam.Aln C07_sam_r); ErrItem]
  /\ Sam.reader C07_sam_o (firstn 43 (sam_file C07_sam_o [C07_sam_h] [C07_sam_r])) TErr
     = [Rec C07_sam_r; ErrItem].
Proof.
  split.
  { constructor; [|constructor]. split; [eexists; reflexivity|]. split; [|reflexivity].
    vm_compute. intuition discriminate. }
  split.
  { constructor; [|constructor]. SamSpec.sam_ok_example. }
  vm_compute. repeat split.
Qed.

Definition C07_bed1 : Bed.bed :=
  {| Bed.b_n := 4; Bed.b_chrom := bs "c"; Bed.b_start := 1%Z; Bed.b_end := 22%Z;
     Bed.b_name := bs "n#"; Bed.b_score := 0%Z; Bed.b_strand := [];
     Bed.b_thick_start := 0%Z; Bed.b_thick_end := 0%Z; Bed.b_rgb := (0, 0, 0);
     Bed.b_block_count := 0%Z; Bed.b_block_sizes := []; Bed.b_block_starts := [] |}.
(* "c TAB 1 TAB 22 TAB n# LF" twice: a cut inside the second line's end
   coordinate ("2" instead of "22") does not yield a record *)
Example C07_ex_bed :
  exists w, bed_file [C07_bed1; C07_bed1] = Ok w /\ length w = 20%nat
    /\ Bed.decode (firstn 9 w) TErr = [ErrItem]
    /\ Bed.decode (firstn 10 w) TErr = [Rec C07_bed1; ErrItem]
    /\ Bed.decode (firstn 15 w) TErr = [Rec C07_bed1; ErrItem]
    /\ Bed.decode (firstn 19 w) TErr = [Rec C07_bed1; ErrItem]
    /\ Bed.decode (firstn 20 w) TErr = [Rec C07_bed1; Rec C07_bed1; ErrItem]
    /\ Bed.decode (firstn 15 w) TEOF = [Rec C07_bed1; ErrItem].
Proof. eexists. split; [vm_compute; reflexivity|]. vm_compute. repeat split. Qed.

Definition C07_nw_o : foracle :=
  {| f_parse := [(bs "1.5", bs "1.5")]; f_fmt := [(bs "1.5", bs "1.5")] |}.
Definition C07_nw_t : Newick.tree :=
  Newick.Node (bs "r") (bs "0") [Newick.Node [120; 10; 121] (bs "1.5") []; Newick.Node [] (bs "0") []].
(* "('x LF y':1.5,)r;" LF, twice (14 + 1 bytes each); a cut inside the distance
   "1.5" (after "1.") does not yield a tree with distance 1 *)
Example C07_ex_newick :
  Forall (NewickSpec.floats_ok C07_nw_o) [C07_nw_t; C07_nw_t]
  /\ length (newick_file C07_nw_o [C07_nw_t; C07_nw_t]) = 30%nat
  /\ Newick.decode C07_nw_o (firstn 9 (newick_file C07_nw_o [C07_nw_t; C07_nw_t])) TErr = Ok [ErrItem]
  /\ Newick.decode C07_nw_o (firstn 13 (newick_file C07_nw_o [C07_nw_t; C07_nw_t])) TErr = Ok [ErrItem]
  /\ Newick.decode C07_nw_o (firstn 14 (newick_file C07_nw_o [C07_nw_t; C07_nw_t])) TErr
     = Ok [Rec C07_nw_t; ErrItem]
  /\ Newick.decode C07_nw_o (firstn 29 (newick_file C07_nw_o [C07_nw_t; C07_nw_t])) TErr
     = Ok [Rec C07_nw_t; Rec C07_nw_t; ErrItem].
Proof.
  assert (F : NewickSpec.floats_ok C07_nw_o C07_nw_t).
  { unfold NewickSpec.floats_ok. vm_compute NewickSpec.dists.
    repeat (apply Forall_cons;
            [ let H := fresh "H" in intros H;
              first [ vm_compute in H; discriminate H
                    | clear H; vm_compute; repeat constructor; discriminate ] | ]);
    apply Forall_nil. }
  split; [repeat (apply Forall_cons; [exact F|]); apply Forall_nil|]. vm_compute. repeat split.
Qed.

(* writers: FASTA makes one call per line; a limit of 5 bytes stops inside the
   first call, 8 inside the second; BED refuses N = 2 before writing anything *)
Example C07_ex_write :
  let r := {| Fasta.name := bs "name"; Fasta.seq := bs "ACGT" |} in
  Fasta.marshal_text r = Ok (bs ">name" ++ [LF] ++ bs "ACGT" ++ [LF])
  /\ write_to_fasta 5 r = (Err, bs ">name")
  /\ write_to_fasta 8 r = (Err, bs ">name" ++ [LF] ++ bs "AC")
  /\ write_to_fasta 10 r = (Err, bs ">name" ++ [LF] ++ bs "ACGT")
  /\ write_to_fasta 11 r = (Ok tt, bs ">name" ++ [LF] ++ bs "ACGT" ++ [LF])
  /\ write_to_bed 3 C07_bed1 = (Err, bs "c" ++ [TAB] ++ bs "1")
  /\ write_to_bed 100 (Bed.mkBed 2 (bs "c") 1 2 [] 0 [] 0 0 (0, 0, 0) 0 [] []) = (Err, [])
  /\ write_to_newick C07_nw_o 3 C07_nw_t = (Err, bs "('x")
  /\ fst (write_to_fastq 0 {| Fastq.name := []; Fastq.seq := []; Fastq.quals := [] |}) = Err.
Proof. vm_compute. repeat split. Qed.

(* ---- the same, for the readers as translated from the Go source ---------------------------------------
   gen/ImpGen.v holds Reader of fasta, bed, sam and newick as translated on this run; a stream that
   delivers the first k bytes of a well-formed file and then fails (terminal code 2) makes the
   translated reader yield a prefix of the file's records and then exactly one error item.
   (Composition of the theorems above with the C01/C03/C04/C05 ..._reader_is_source theorems; the
   fastq reader is tied to its source over the Scanner's tokens, C02_reader_is_source.) *)
From Bio.gen Require ImpGen.
From Bio.Model Require GoSem.
From Bio.Proofs Require ImpProofsJ ImpProofsL ImpProofsQ ImpProofsR ImpProofsT.

Theorem C07_fault_prefix_fasta_is_source : forall rs k fuel, Forall FastaSpec.fa_ok rs ->
  (length (firstn k (fasta_file rs)) + 2 < fuel)%nat ->
  exists j, (j <= length rs)%nat /\
    ImpGen.imp_fastard_Reader fuel (GoSem.Stream (firstn k (fasta_file rs)) 2%Z None)
    = GoSem.Ret (GoSem.Stream [] 2%Z None, map (ImpProofsJ.fa_item TErr) (map Rec (firstn j rs) ++ [ErrItem])).
Proof. exact ImpProofsT.fasta_fault_prefix_src. Qed.
Print Assumptions C07_fault_prefix_fasta_is_source.

Theorem C07_fault_prefix_bed_is_source : forall n bs w k fuel,
  Forall (fun b => BedSpec.bed_ok b /\ Bed.b_n b = n) bs -> bed_file bs = Ok w ->
  (length (firstn k w) + 2 < fuel)%nat ->
  exists j st, (j <= length bs)%nat /\
    ImpGen.imp_bed_Reader fuel (GoSem.Stream (firstn k w) 2%Z None)
    = GoSem.Ret (st, map ImpProofsL.bed_item (map (fun b => Rec (BedSpec.first_n b)) (firstn j bs) ++ [ErrItem])).
Proof. exact ImpProofsT.bed_fault_prefix_src. Qed.
Print Assumptions C07_fault_prefix_bed_is_source.

Theorem C07_fault_prefix_sam_is_source : forall o hs rs k fuel,
  Forall SamSpec.header_ok hs -> Forall (SamSpec.sam_ok o) rs ->
  (length (firstn k (sam_file o hs rs)) + 1 < fuel)%nat ->
  exists rs' j st, Sam.reader o (sam_file o hs rs) TEOF = map Rec rs' /\ (j <= length rs')%nat /\
    ImpGen.imp_samrd_Reader fuel o (GoSem.Stream (firstn k (sam_file o hs rs)) 2%Z None)
    = GoSem.Ret (st, map ImpProofsQ.sr_item (map Rec (firstn j rs') ++ [ErrItem])).
Proof. exact ImpProofsT.sam_fault_prefix_src. Qed.
Print Assumptions C07_fault_prefix_sam_is_source.

Theorem C07_fault_prefix_newick_is_source : forall o ts k fuel h, Forall (NewickSpec.floats_ok o) ts ->
  (length (firstn k (newick_file o ts)) + 2 < fuel)%nat ->
  exists j st h' out, (j <= length ts)%nat /\
    ImpGen.imp_newickrd_Reader fuel o h (GoSem.Stream (firstn k (newick_file o ts)) 2%Z None) = GoSem.Ret (st, (h', out)) /\
    Forall2 (ImpProofsR.item_holds h') (map (fun t => Rec (NewickSpec.norm t)) (firstn j ts) ++ [ErrItem]) out.
Proof. exact ImpProofsT.newick_fault_prefix_src. Qed.
Print Assumptions C07_fault_prefix_newick_is_source.
