(* Properties/C08.v — Alignments returned by Global and Local are valid and score
   what they claim.  Only statements; every proof is [exact <lemma>].
   Model: Model/Align.v (global.go / local.go branch for branch, scores as Z);
   specification objects: Spec/AlignSpec.v ([consumes], [score], [covers],
   [nonpos_gaps], [local_answer_valid]).
   Not covered here (harness only): "neither function modifies its inputs";
   float64 scores are modelled as Z (exact for integer-valued matrices below 2^53). *)
From Coq Require Import String.
From Bio Require Import Base.
From Bio.Model Require Import Align.
From Bio.Spec Require Import AlignSpec.
From Bio.Proofs Require Import AlignProofs AlignProofsB AlignProofsC.
Open Scope Z_scope.

(* Global: for ANY matrix that covers the sequences (asymmetric, any sign of the
   gap scores and of gap-open), the steps consume exactly all of a and all of b and
   the returned score is the documented score of the returned steps. *)
Theorem C08_global_valid : forall m a b, covers m a b ->
  exists al s, global m a b = Ok (al, s)
    /\ consumes al = (length a, length b)
    /\ score m a b al = Ok s.
Proof. exact global_valid. Qed.
Print Assumptions C08_global_valid.

(* The same for anything that answers Get (used for the Levenshtein table). *)
Theorem C08_global_valid_any_scorer : forall g a b, covers_g g a b ->
  exists al s, global_g g a b = Ok (al, s)
    /\ consumes al = (length a, length b)
    /\ score_g g a b al = Ok s.
Proof. exact global_valid_g. Qed.
Print Assumptions C08_global_valid_any_scorer.

(* Local, non-positive gap scores (per-character and gap-open): either
   (nil, -1, -1, 0), or offsets inside the sequences, steps staying inside a and b
   from the offsets, a positive score, equal to the score of the steps read from
   the offsets. *)
Theorem C08_local_valid : forall m a b, covers m a b -> nonpos_gaps m a b ->
  exists r, local m a b = Ok r /\ local_answer_valid (get m) a b r.
Proof. exact local_valid. Qed.
Print Assumptions C08_local_valid.

Theorem C08_local_valid_any_scorer : forall g a b, covers_g g a b -> nonpos_gaps_g g a b ->
  exists r, local_g g a b = Ok r /\ local_answer_valid g a b r.
Proof. exact local_valid_g. Qed.
Print Assumptions C08_local_valid_any_scorer.

(* Local returns no steps exactly when no pair of characters scores above 0. *)
Theorem C08_local_none_iff : forall m a b, covers m a b -> nonpos_gaps m a b ->
  exists al ai bi s, local m a b = Ok (al, ai, bi, s) /\
    (al = [] <-> forall x y z, In x a -> In y b -> get m x y = Ok z -> z <= 0).
Proof. exact local_none_iff. Qed.
Print Assumptions C08_local_none_iff.

(* Neither function panics (no missing pair is asked for, the "bad i" and
   "bad score" branches are unreachable, the traceback fuel suffices), for any
   sign of the gap scores. *)
Theorem C08_no_panic : forall m a b, covers m a b ->
  (exists r, global m a b = Ok r) /\ (exists r, local m a b = Ok r).
Proof. exact no_panic. Qed.
Print Assumptions C08_no_panic.

(* Non-vacuity: an asymmetric matrix with a positive gap-open covers "abba"/"bab";
   a matrix with non-positive gaps; Local's offsets with a gap inside the alignment;
   a missing pair panics. *)
Definition ex_key (x y : N) (s : Z) : (byte * byte) * Z := ((x, y), s).
Definition ex_asym : matrix :=
  [ ex_key 97 97 2; ex_key 97 98 (-1); ex_key 97 255 (-1);
    ex_key 98 97 1; ex_key 98 98 1; ex_key 98 255 (-2);
    ex_key 255 97 0; ex_key 255 98 (-1); ex_key 255 255 2 ].
Definition ex_nonpos : matrix := simple_matrix 2 (-3) (-1) 0.

Example C08_example :
  covers ex_asym (bs "abba") (bs "bab")
  /\ global ex_asym (bs "abba") (bs "bab") = Ok ([SIns; SDel; SIns; SDel; SMatch; SDel], 6)
  /\ score ex_asym (bs "abba") (bs "bab") [SIns; SDel; SIns; SDel; SMatch; SDel] = Ok 6
  /\ covers ex_nonpos (bs "baabaa") (bs "bbaaaab") /\ nonpos_gaps ex_nonpos (bs "baabaa") (bs "bbaaaab")
  /\ local ex_nonpos (bs "baabaa") (bs "bbaaaab")
       = Ok ([SMatch; SMatch; SMatch; SDel; SMatch; SMatch], 0, 1, 9)
  /\ score ex_nonpos (skipn 0 (bs "baabaa")) (skipn 1 (bs "bbaaaab"))
       [SMatch; SMatch; SMatch; SDel; SMatch; SMatch] = Ok 9
  /\ local ex_nonpos (bs "aaa") (bs "bb") = Ok ([], -1, -1, 0)
  /\ global (removelast ex_asym) (bs "a") (bs "b") = Panic.
Proof.
  split; [apply coversb_sound; vm_compute; reflexivity|].
  split; [vm_compute; reflexivity|]. split; [vm_compute; reflexivity|].
  split; [apply coversb_sound; vm_compute; reflexivity|].
  split; [apply nonposb_sound; vm_compute; reflexivity|].
  vm_compute. repeat split; reflexivity.
Qed.

(* ---- tie to the Go source by translation (gen/SrcGen.v, regenerated on every run) ---- *)
From Bio.gen Require SrcGen.
From Bio.Proofs Require SrcGenProofs.

(* decideOnStep of the model is, for all arguments, the function translated from
   align/global.go; the step and gap constants are those of align/align.go. *)
Theorem C08_decide_is_source : forall mch del ins,
  let c := Bio.Model.Align.decide mch del ins in
  let b := SrcGen.src_align_decideOnStep mch del ins in
  fst c = SrcGen.src_align_block_score b /\ Bio.Model.Align.step_code (snd c) = SrcGen.src_align_block_step b.
Proof. exact SrcGenProofs.decide_is_source. Qed.
Print Assumptions C08_decide_is_source.

Theorem C08_step_constants_are_source :
  Bio.Model.Align.step_code Bio.Model.Align.SMatch = SrcGen.k_align_Match
  /\ Bio.Model.Align.step_code Bio.Model.Align.SDel = SrcGen.k_align_Deletion
  /\ Bio.Model.Align.step_code Bio.Model.Align.SIns = SrcGen.k_align_Insertion
  /\ Z.of_N Bio.Model.Align.Gap = SrcGen.k_align_Gap.
Proof. exact SrcGenProofs.step_constants. Qed.
Print Assumptions C08_step_constants_are_source.

(* ---- tie to the Go source by translation of whole function bodies (gen/ImpGen.v, written
   by `harness gen-imp` on every run, in the embedding of Model/GoSem.v) ------------------- *)
From Bio.gen Require ImpGen.
From Bio.Model Require GoSem.
From Bio.Proofs Require ImpProofs ImpProofsD ImpProofsE.

(* Global as translated from global.go (the flat DP loop over blocks, decideOnStep, the
   traceback loop and the in-place reversal of the steps, m.Get on every read) returns, for
   every matrix that answers the pairs the two sequences need and for every a and b, exactly
   the steps and the score of the model's Global, whenever the model returns (which
   C08_global_total-style theorems above establish under the same hypothesis).  The fuel is
   for the two `for cond {}` loops of traceAlignmentSteps.  Not covered by this statement:
   the panic side (a matrix that lacks a needed pair), which stays with the correspondence
   runs. *)
Theorem C08_global_is_source : forall fuel m a b steps s, covers m a b ->
  (S (length a) * S (length b) < fuel)%nat ->
  global m a b = Ok (steps, s) ->
  ImpGen.imp_align_Global fuel a b m = GoSem.Ret (map ImpProofsD.step_n steps, s).
Proof. exact ImpProofsE.imp_Global_ok. Qed.
Print Assumptions C08_global_is_source.

Example C08_source_example :
  ImpGen.imp_align_Global 30 (bs "abba") (bs "bab") ex_asym
  = GoSem.Ret (map ImpProofsD.step_n [SIns; SDel; SIns; SDel; SMatch; SDel], 6%Z)
  /\ ImpGen.imp_align_Global 30 (bs "a") (bs "b") (removelast ex_asym) = GoSem.Panics.
Proof. vm_compute. split; reflexivity. Qed.

From Bio.Proofs Require ImpProofsF.

(* The same for Local (local.go: the DP loop with the clamp at zero, argmax,
   traceAlignmentStepsLocal with its break, the start offsets i/bn-1 and i%bn-1). *)
Theorem C08_local_is_source : forall fuel m a b steps ai bi s, covers m a b ->
  (S (length a) * S (length b) < fuel)%nat ->
  local m a b = Ok (steps, ai, bi, s) ->
  ImpGen.imp_align_Local fuel a b m = GoSem.Ret (map ImpProofsD.step_n steps, ai, bi, s).
Proof. exact ImpProofsF.imp_Local_ok. Qed.
Print Assumptions C08_local_is_source.

Example C08_source_local_example :
  ImpGen.imp_align_Local 60 (bs "baabaa") (bs "bbaaaab") ex_nonpos
  = GoSem.Ret (map ImpProofsD.step_n [SMatch; SMatch; SMatch; SDel; SMatch; SMatch], 0%Z, 1%Z, 9%Z)
  /\ ImpGen.imp_align_Local 60 (bs "aaa") (bs "bb") ex_nonpos = GoSem.Ret ([], (-1)%Z, (-1)%Z, 0%Z).
Proof. vm_compute. split; reflexivity. Qed.

(* ---- the property itself, about the translated source -------------------------------------------------
   Global and Local as translated from align/global.go and align/local.go on this run return
   (no panic), and what they return is valid: the compositions of C08_global_valid /
   C08_local_valid with the equivalence theorems above. *)
From Bio.Proofs Require ImpProofsV.

Theorem C08_global_valid_is_source : forall fuel m a b, covers m a b ->
  (S (length a) * S (length b) < fuel)%nat ->
  exists al s, ImpGen.imp_align_Global fuel a b m = GoSem.Ret (map ImpProofsD.step_n al, s)
    /\ consumes al = (length a, length b) /\ score m a b al = Ok s.
Proof. exact ImpProofsV.global_valid_src. Qed.
Print Assumptions C08_global_valid_is_source.

Theorem C08_local_valid_is_source : forall fuel m a b, covers m a b -> nonpos_gaps m a b ->
  (S (length a) * S (length b) < fuel)%nat ->
  exists al ai bi s, ImpGen.imp_align_Local fuel a b m = GoSem.Ret (map ImpProofsD.step_n al, ai, bi, s)
    /\ local_answer_valid (get m) a b (al, ai, bi, s).
Proof. exact ImpProofsV.local_valid_src. Qed.
Print Assumptions C08_local_valid_is_source.
