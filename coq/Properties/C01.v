(* Properties/C01.v — FASTA records survive write -> read unchanged, however the
   lines are wrapped.  Theorems only; proofs are in Proofs/FastaProofs{,B,C}.v.

   Model/Fasta.v : [write_calls]/[write]/[marshal_text] (Fasta.Write, MarshalText),
                   [read_one]/[decode] (reader.read, reader.iter = Reader).
   Spec/FastaSpec.v : [fa_ok] (the domain), [Layout rs L] ("L is a layout of rs":
                   per record '>' name sep chunk sep chunk ... sep, chunks non-empty
                   and free of CR/LF/'>', every sep a non-empty string over CR/LF,
                   the very last sep optional), [write_nl], [cut], [render]. *)
From Coq Require Import String.
From Bio Require Import Base.
From Bio.Model Require Import Fasta.
From Bio.Spec Require Import FastaSpec.
From Bio.Proofs Require Import FastaProofs FastaProofsB FastaProofsC.

(* ---- the writer ------------------------------------------------------------ *)

(* MarshalText's length self-check never fires, for every name and sequence
   length, and MarshalText returns exactly the bytes Write writes. *)
Theorem C01_marshal_total : forall r, marshal_text r = Ok (write r).
Proof. exact marshal_total. Qed.
Print Assumptions C01_marshal_total.

(* Write, call by call: '>' name LF, then the sequence in lines of 1..80 bytes
   each followed by LF, all but the last of exactly 80 bytes, ceil(len/80) lines
   (so no line at all for an empty sequence), concatenating to the sequence. *)
Theorem C01_write_shape : forall r,
  exists cs,
    write_calls r = (GT :: name r ++ [LF]) :: map (fun c => c ++ [LF]) cs
    /\ concat cs = seq r
    /\ Forall (fun c => (1 <= length c <= 80)%nat) cs
    /\ Forall (fun c => length c = 80%nat) (removelast cs)
    /\ length cs = ((length (seq r) + 79) / 80)%nat.
Proof. exact write_shape. Qed.
Print Assumptions C01_write_shape.

(* ---- the reader: any layout of a record list decodes to that list ----------- *)

Theorem C01_layout_roundtrip : forall rs L,
  Forall fa_ok rs -> Layout rs L -> decode L TEOF = map Rec rs.
Proof. exact layout_roundtrip_ok. Qed.
Print Assumptions C01_layout_roundtrip.

(* (the domain hypothesis above is implied by [Layout]: a layout exists only
   for records of the domain) *)
Theorem C01_layout_in_domain : forall rs L, Layout rs L -> Forall fa_ok rs.
Proof. exact layout_ok. Qed.
Print Assumptions C01_layout_in_domain.

(* the iteration's fuel [length input + 1] is enough for every input and both
   terminal conditions: more fuel never changes the result *)
Theorem C01_decode_fuel_sufficient : forall inp t f,
  (length inp < f)%nat -> decode_fuel f inp t = decode inp t.
Proof. exact decode_fuel_sufficient. Qed.
Print Assumptions C01_decode_fuel_sufficient.

(* ---- writer output is a layout, hence round-trips ---------------------------- *)

Theorem C01_writer_is_layout : forall rs,
  Forall fa_ok rs -> Layout rs (concat (map write rs)).
Proof. exact writer_is_layout. Qed.
Print Assumptions C01_writer_is_layout.

Theorem C01_write_read_roundtrip : forall rs,
  Forall fa_ok rs -> decode (concat (map write rs)) TEOF = map Rec rs.
Proof. exact write_read_roundtrip. Qed.
Print Assumptions C01_write_read_roundtrip.

(* ---- layout variants as corollaries -------------------------------------------- *)

(* any non-empty string of CR/LF in place of the writer's LF (CRLF, lone CR,
   LF LF = a blank line after every line, ...) *)
Theorem C01_nl_variant_roundtrip : forall nl rs,
  sep nl -> Forall fa_ok rs -> decode (concat (map (write_nl nl) rs)) TEOF = map Rec rs.
Proof. exact nl_variant_roundtrip. Qed.
Print Assumptions C01_nl_variant_roundtrip.

Theorem C01_crlf_roundtrip : forall rs,
  Forall fa_ok rs -> decode (concat (map (write_nl [CR; LF]) rs)) TEOF = map Rec rs.
Proof. exact crlf_roundtrip. Qed.
Print Assumptions C01_crlf_roundtrip.

(* re-wrapping every record at its own arbitrary line widths, with its own separator *)
Theorem C01_rewrap_roundtrip : forall (nl : fasta -> bytes) (ws : fasta -> list nat) rs,
  Forall fa_ok rs -> Forall (fun r => sep (nl r)) rs ->
  decode (concat (map (fun r => render (nl r) (ws r) r) rs)) TEOF = map Rec rs.
Proof. exact rewrap_roundtrip. Qed.
Print Assumptions C01_rewrap_roundtrip.

(* line breaks at the end of a non-empty file are ignored (any file, not only layouts) *)
Theorem C01_trailing_newlines_ignored : forall L s,
  L <> [] -> Forall (fun b => is_nl b = true) s -> decode (L ++ s) TEOF = decode L TEOF.
Proof. exact trailing_newlines_ignored. Qed.
Print Assumptions C01_trailing_newlines_ignored.

(* the writer's output without its final newline *)
Theorem C01_no_final_newline : forall rs,
  Forall fa_ok rs -> rs <> [] ->
  decode (removelast (concat (map write rs))) TEOF = map Rec rs.
Proof. exact no_final_newline. Qed.
Print Assumptions C01_no_final_newline.

(* ---- the hypotheses are satisfiable: concrete, non-trivial values -------------- *)

Definition ex_r1 : fasta := {| name := bs ">a b"; seq := bs "ACGT" |}.   (* '>' in the name *)
Definition ex_r2 : fasta := {| name := []; seq := [] |}.
Definition ex_r3 : fasta := {| name := bs "x"; seq := bs "TT" |}.
Definition ex_rs := [ex_r1; ex_r2; ex_r3].
(* ">>a b" CRLF "AC" LF LF "GT" LF ">" LF ">x" LF "T" CR "T"   (no final newline) *)
Definition ex_t1 : bytes := GT :: bs ">a b" ++ [CR; LF] ++ bs "AC" ++ [LF; LF] ++ bs "GT" ++ [LF].
Definition ex_t2 : bytes := [GT; LF].
Definition ex_t3 : bytes := GT :: bs "x" ++ [LF] ++ bs "T" ++ [CR] ++ bs "T".
Definition ex_L : bytes := ex_t1 ++ ex_t2 ++ ex_t3.

Example C01_ex_domain : Forall fa_ok ex_rs.
Proof. repeat constructor. Qed.

Example C01_ex_layout : Layout ex_rs ex_L.
Proof.
  assert (S1 : sep [LF]) by (split; [discriminate | repeat constructor]).
  assert (S2 : sep [LF; LF]) by (split; [discriminate | repeat constructor]).
  assert (S3 : sep [CR; LF]) by (split; [discriminate | repeat constructor]).
  assert (S4 : sep [CR]) by (split; [discriminate | repeat constructor]).
  assert (C1 : chunk (bs "AC")) by (split; [discriminate | repeat constructor]).
  assert (C2 : chunk (bs "GT")) by (split; [discriminate | repeat constructor]).
  assert (C3 : chunk (bs "T")) by (split; [discriminate | repeat constructor]).
  apply (L_cons ex_r1 ex_t1 [ex_r2; ex_r3] (ex_t2 ++ ex_t3)); [|discriminate|].
  - apply (R_intro false ex_r1 [CR; LF] (bs "AC" ++ [LF; LF] ++ bs "GT" ++ [LF])).
    + repeat constructor.
    + exact S3.
    + apply (B_cons false (bs "AC") [LF; LF] (bs "GT") (bs "GT" ++ [LF])); [exact C1 | exact S2 |].
      apply (B_cons false (bs "GT") [LF] [] []); [exact C2 | exact S1 | apply B_nil].
  - apply (L_cons ex_r2 ex_t2 [ex_r3] ex_t3); [|discriminate|].
    + apply (R_intro false ex_r2 [LF] []); [constructor | exact S1 | apply B_nil].
    + apply L_last.
      apply (R_intro true ex_r3 [LF] (bs "T" ++ [CR] ++ bs "T")).
      * repeat constructor.
      * exact S1.
      * apply (B_cons true (bs "T") [CR] (bs "T") (bs "T")); [exact C3 | exact S4 |].
        apply B_last. exact C3.
Qed.

(* the model run on it, independently of the theorem *)
Example C01_ex_decode : decode ex_L TEOF = map Rec ex_rs.
Proof. vm_compute. reflexivity. Qed.

(* a 161-byte sequence: lines of 80, 80 and 1 bytes; MarshalText does not panic *)
Definition ex_long : fasta := {| name := bs "long"; seq := repeat 65 161 |}.
Example C01_ex_write_lines : map (@length byte) (write_calls ex_long) = [6; 81; 81; 2]%nat.
Proof. vm_compute. reflexivity. Qed.
Example C01_ex_marshal : marshal_text ex_long = Ok (write ex_long)
                         /\ decode (write ex_long) TEOF = [Rec ex_long]
                         /\ decode (removelast (write ex_long)) TEOF = [Rec ex_long]
                         /\ decode (write_nl [CR; LF] ex_long) TEOF = [Rec ex_long]
                         /\ decode (render [LF; CR] [6; 0; 99]%nat ex_long) TEOF = [Rec ex_long].
Proof. vm_compute. repeat split; reflexivity. Qed.

(* Outside the spec's layouts (DESIGN.md section 1): line breaks before the first
   '>' make the reader produce an extra empty record; and a failing stream loses
   the record in progress and ends with an error item. *)
Example C01_ex_blank_lines_first :
  decode ([LF; LF] ++ bs ">a" ++ [LF] ++ bs "AC" ++ [LF]) TEOF
  = [Rec {| name := []; seq := [] |}; Rec {| name := bs "a"; seq := bs "AC" |}].
Proof. vm_compute. reflexivity. Qed.
Example C01_ex_failing_stream : decode ex_L TErr = [Rec ex_r1; Rec ex_r2; ErrItem].
Proof. vm_compute. reflexivity. Qed.

(* ---- tie to the Go source by translation (gen/SrcGen.v, regenerated on every run) ---- *)
From Bio.gen Require SrcGen.
From Bio.Proofs Require SrcGenProofs.

(* the writer's line length is the constant textLineLen of formats/fasta/fasta.go *)
Theorem C01_line_length_is_source : Z.of_nat Bio.Model.Fasta.text_line_len = SrcGen.k_fasta_textLineLen.
Proof. exact SrcGenProofs.text_line_len_is_source. Qed.
Print Assumptions C01_line_length_is_source.

(* every chunk Fasta.Write hands to the writer is the translated Fprintf call applied to
   the record's fields: ">%s\n" on the name, "%s\n" on each 80-byte piece *)
Theorem C01_write_format_is_source : forall r,
  Bio.Model.Fasta.write_calls r
  = SrcGen.src_fasta_Write_0 (Bio.Model.Fasta.name r)
    :: map SrcGen.src_fasta_Write_1 (Bio.Model.Fasta.chunks (Bio.Model.Fasta.seq r)).
Proof. exact SrcGenProofs.fasta_write_is_source. Qed.
Print Assumptions C01_write_format_is_source.

(* ---- tie to the Go source by translation of whole function bodies (gen/ImpGen.v, written
   by `harness gen-imp` on every run, in the embedding of Model/GoSem.v) ------------------- *)
From Bio.gen Require ImpGen.
From Bio.Model Require GoSem.
From Bio.Proofs Require ImpProofs ImpProofsG.

(* Fasta.Write as translated from fasta.go — the header call, the loop
   `for i := 0; i < len(f.Sequence); i += textLineLen` with its min() and slice, one Fprintf
   per line — hands to a writer that never fails exactly the chunks of the model, for every
   record (any fuel above the sequence length runs the loop to its end). *)
Theorem C01_write_is_source : forall fuel r, (length (Bio.Model.Fasta.seq r) < fuel)%nat ->
  ImpGen.imp_fasta_Fasta_Write fuel (ImpProofsG.fa_of r) = GoSem.Ret (Bio.Model.Fasta.write_calls r, false).
Proof. exact ImpProofsG.imp_Fasta_Write. Qed.
Print Assumptions C01_write_is_source.

Example C01_source_example :
  ImpGen.imp_fasta_Fasta_Write 200 (ImpProofsG.fa_of {| Bio.Model.Fasta.name := bs "n"; Bio.Model.Fasta.seq := repeat 65%N 81 |})
  = GoSem.Ret ([bs ">n" ++ [10%N]; repeat 65%N 80 ++ [10%N]; [65%N; 10%N]], false).
Proof. vm_compute. reflexivity. Qed.

From Bio.Proofs Require ImpProofsJ.

(* reader.read as translated from fasta.go — the four-state machine over ReadByte, the
   UnreadByte + labelled break on a '>' at the start of a line, and the three-way ending
   (nothing read: the stream's error; a non-EOF error: that error; otherwise the record) —
   returns, for every input and both terminal conditions, what the model's read_one returns,
   and leaves the reader exactly at the bytes the model leaves unread.  The *bufio.Reader is
   the value GoSem.go_stream (bytes to come, terminal error, last byte read); fuel above the
   input length runs the loop to its end. *)
Theorem C01_read_is_source : forall fuel inp t, (length inp + 2 < fuel)%nat ->
  ImpGen.imp_fastard_reader_read fuel (GoSem.Stream inp (ImpProofsJ.term_code t) None)
  = ImpProofsJ.fr_read_result t (Bio.Model.Fasta.read_one inp t).
Proof. exact ImpProofsJ.imp_fasta_read. Qed.
Print Assumptions C01_read_is_source.

Example C01_source_read_example :
  ImpGen.imp_fastard_reader_read 40 (GoSem.Stream (bs ">a" ++ [10%N] ++ bs "AC" ++ [13%N; 10%N] ++ bs "GT" ++ [10%N] ++ bs ">b") 1%Z None)
  = GoSem.Ret (GoSem.Stream (bs ">b") 1%Z None, (ImpGen.Imp_fastard_Fasta (bs "a") (bs "ACGT"), 0%Z))
  /\ ImpGen.imp_fastard_reader_read 5 (GoSem.Stream [] 1%Z None) = GoSem.Ret (GoSem.Stream [] 1%Z None, (ImpGen.Imp_fastard_Fasta [] [], 1%Z))
  /\ ImpGen.imp_fastard_reader_read 9 (GoSem.Stream (bs ">a") 2%Z None) = GoSem.Ret (GoSem.Stream [] 2%Z None, (ImpGen.Imp_fastard_Fasta [] [], 2%Z)).
Proof. vm_compute. repeat split. Qed.

(* reader.iter as translated from iter.go — read() until it fails, an error other than
   io.EOF yielded as the last item — yields to a consumer that never stops exactly the items
   of the model's decode, for every input and both terminal conditions (the composition of
   the translated read with the translated loop; Reader and File only forward the items). *)
Theorem C01_iter_is_source : forall fuel inp t, (length inp + 2 < fuel)%nat ->
  ImpGen.imp_fastard_reader_iter fuel (GoSem.Stream inp (ImpProofsJ.term_code t) None)
  = GoSem.Ret (GoSem.Stream [] (ImpProofsJ.term_code t) None,
               map (ImpProofsJ.fa_item t) (Bio.Model.Fasta.decode inp t)).
Proof. exact ImpProofsJ.imp_fasta_iter. Qed.
Print Assumptions C01_iter_is_source.

(* MarshalText as translated (the length formula, Write into a bytes.Buffer, the panic on a
   length mismatch) is the model's marshal_text. *)
Theorem C01_marshal_is_source : forall fuel r, (length (Bio.Model.Fasta.seq r) < fuel)%nat ->
  ImpGen.imp_fasta_Fasta_MarshalText fuel (ImpProofsG.fa_of r)
  = match Bio.Model.Fasta.marshal_text r with Ok b => GoSem.Ret (b, false) | _ => GoSem.Panics end.
Proof. exact ImpProofsG.imp_Fasta_MarshalText. Qed.
Print Assumptions C01_marshal_is_source.

(* Reader(r) as translated (newReader(r).iter() ranged over and forwarded) yields the model's
   decode; with C01_iter_is_source and C01_read_is_source this is the whole reading path from
   the bytes of the stream to the items, translated from fasta.go and iter.go. *)
Theorem C01_reader_is_source : forall fuel inp t, (length inp + 2 < fuel)%nat ->
  ImpGen.imp_fastard_Reader fuel (GoSem.Stream inp (ImpProofsJ.term_code t) None)
  = GoSem.Ret (GoSem.Stream [] (ImpProofsJ.term_code t) None,
               map (ImpProofsJ.fa_item t) (Bio.Model.Fasta.decode inp t)).
Proof. exact ImpProofsJ.imp_fasta_Reader. Qed.
Print Assumptions C01_reader_is_source.

(* ---- the round trip, about the translated source --------------------------------------------------------
   MarshalText as translated gives the model's text of every record of the domain, and the translated
   Reader, given the concatenated texts, yields exactly those records. *)
From Bio.Proofs Require ImpProofsW.
Theorem C01_roundtrip_is_source : forall rs fuel, Forall fa_ok rs ->
  (length (concat (map write rs)) + 2 < fuel)%nat ->
  Forall (fun r => forall f, (length (Bio.Model.Fasta.seq r) < f)%nat ->
            ImpGen.imp_fasta_Fasta_MarshalText f (ImpProofsG.fa_of r) = GoSem.Ret (write r, false)) rs
  /\ ImpGen.imp_fastard_Reader fuel (GoSem.Stream (concat (map write rs)) 1%Z None)
     = GoSem.Ret (GoSem.Stream [] 1%Z None, map (ImpProofsJ.fa_item TEOF) (map Rec rs)).
Proof. exact ImpProofsW.fasta_roundtrip_src. Qed.
Print Assumptions C01_roundtrip_is_source.
