(* Properties/C13.v — 2-bit DNA packing is lossless and append-only.
   Only statements; every proof is [exact <lemma>].
   The model (Model/Seq.v) reads the Ntoi, Iton and DNAFrom2Bit tables from
   gen/Tables.v, which is regenerated from the implementation on every run;
   the spec objects (code2, code_at, pack4, base_of) are in Spec/SeqSpec.v,
   [upper_byte] in Base.v, [dna8] in Proofs/TranslateProofs.v
   (= Forall (fun b => is_dna8 b = true)).
   Not covered here (harness only): that dst's existing content is untouched
   as memory (aliasing). *)
From Coq Require Import String.
From Bio Require Import Base.
From Bio.gen Require Import Tables.
From Bio.Model Require Import Seq.
From Bio.Spec Require Import SeqSpec.
From Bio.Proofs Require Import TranslateProofs SeqProofs SeqProofsB.

(* ceil(len(s)/4) bytes are appended to dst, whose content stays in front *)
Theorem C13_to2bit_length : forall dst s, dna8 s ->
  exists p, to2bit dst s = Ok (dst ++ p) /\ length p = ((length s + 3) / 4)%nat.
Proof. exact to2bit_length. Qed.
Print Assumptions C13_to2bit_length.

Theorem C13_to2bit_append : forall dst s p, to2bit [] s = Ok p -> to2bit dst s = Ok (dst ++ p).
Proof. exact to2bit_append. Qed.
Print Assumptions C13_to2bit_append.

(* first base in the most significant bits, A=0 C=1 G=2 T=3, missing bases = 0 *)
Theorem C13_to2bit_msb_first : forall dst s, dna8 s ->
  exists p, to2bit dst s = Ok (dst ++ p) /\
    forall j, (4 * j < length s)%nat ->
      nth_error p j =
      Some (64 * code_at s (4 * j) + 16 * code_at s (4 * j + 1)
            + 4 * code_at s (4 * j + 2) + code_at s (4 * j + 3)).
Proof. exact to2bit_msb_first. Qed.
Print Assumptions C13_to2bit_msb_first.

(* DNAFrom2Bit of the packed bytes: the upper-case form of s followed only by
   'A' padding up to a multiple of four *)
Theorem C13_from_to : forall s, dna8 s ->
  exists p, to2bit [] s = Ok p /\
    from2bit [] p = Ok (map upper_byte s ++ repeat 65 (Nat.modulo (4 - Nat.modulo (length s) 4) 4)).
Proof. exact from_to. Qed.
Print Assumptions C13_from_to.

(* for every byte string p, DNATo2Bit(DNAFrom2Bit(p)) = p *)
Theorem C13_to_from : forall p, Forall (fun b => b < 256) p ->
  exists s, from2bit [] p = Ok s /\ to2bit [] s = Ok p.
Proof. exact to_from. Qed.
Print Assumptions C13_to_from.

(* the decoding table: byte 64a+16b+4c+d expands to ACGT[a] ACGT[b] ACGT[c] ACGT[d] *)
Theorem C13_from2bit_table : forall a b c d, a < 4 -> b < 4 -> c < 4 -> d < 4 ->
  from2bit_byte (pack4 a b c d) = Some [base_of a; base_of b; base_of c; base_of d].
Proof. exact from2bit_pack4. Qed.
Print Assumptions C13_from2bit_table.

(* Ntoi and Iton are mutually inverse on the four bases (both cases); Ntoi is -1
   elsewhere; Iton outside 0..3 gives 'N' *)
Theorem C13_ntoi_iton_inverse :
  (forall b c, code2 b = Some c -> ntoi b = Z.of_N c /\ iton (ntoi b) = upper_byte b)
  /\ (forall b, is_dna8 b = false -> ntoi b = (-1)%Z)
  /\ (forall i, (0 <= i <= 3)%Z -> ntoi (iton i) = i /\ is_dna8 (iton i) = true)
  /\ (forall i, (i < 0 \/ 3 < i)%Z -> iton i = 78).
Proof. exact ntoi_iton_inverse. Qed.
Print Assumptions C13_ntoi_iton_inverse.

(* bytes outside aAcCgGtT make DNATo2Bit panic, and nothing else does *)
Theorem C13_to2bit_panics_iff : forall dst s,
  to2bit dst s = Panic <-> Exists (fun b => is_dna8 b = false) s.
Proof. exact to2bit_panics_iff. Qed.
Print Assumptions C13_to2bit_panics_iff.

(* DNAFrom2Bit panics only on values that are not bytes (unreachable from Go) *)
Theorem C13_from2bit_panics_iff : forall dst p,
  from2bit dst p = Panic <-> Exists (fun b => 256 <= b) p.
Proof. exact from2bit_panics_iff. Qed.
Print Assumptions C13_from2bit_panics_iff.

(* Non-vacuity: concrete values meeting the hypotheses. *)
Example C13_example :
  dna8 (bs "acGTt")
  /\ to2bit [7] (bs "acGTt") = Ok [7; 27; 192]
  /\ from2bit [] [27; 192] = Ok (bs "ACGTTAAA")
  /\ to2bit [] (bs "ACGTTAAA") = Ok [27; 192]
  /\ code_at (bs "acGTt") 3 = 3 /\ code_at (bs "acGTt") 7 = 0
  /\ to2bit [] (bs "ACNT") = Panic
  /\ ntoi 103 = 2%Z /\ iton 2 = 71 /\ iton 4 = 78 /\ iton (-1) = 78.
Proof. vm_compute. repeat split; repeat constructor. Qed.

(* ---- tie to the Go source by translation (gen/SrcGen.v, regenerated on every run) ---- *)
From Bio.gen Require SrcGen.
From Bio.Proofs Require SrcGenProofs.

(* Iton of the model (a table read out for -1..4 plus a default) is, for EVERY int,
   the function translated from sequtil/sequtil.go. *)
Theorem C13_iton_is_source : forall i, Z.of_N (Bio.Model.Seq.iton i) = SrcGen.src_sequtil_Iton i.
Proof. exact SrcGenProofs.iton_is_source. Qed.
Print Assumptions C13_iton_is_source.

(* ---- tie to the Go source by translation of whole function bodies (gen/ImpGen.v) -------- *)
From Bio.gen Require ImpGen.
From Bio.Model Require GoSem.
From Bio.Proofs Require ImpProofs ImpProofsB.

Theorem C13_to2bit_is_source : forall dst src, ImpProofs.all_bytes src ->
  ImpGen.imp_sequtil_DNATo2Bit dst src = ImpProofs.of_outcome (to2bit dst src).
Proof. exact ImpProofsB.imp_DNATo2Bit. Qed.
Print Assumptions C13_to2bit_is_source.

Theorem C13_from2bit_is_source : forall dst src, ImpProofs.all_bytes src ->
  ImpGen.imp_sequtil_DNAFrom2Bit dst src = ImpProofs.of_outcome (from2bit dst src).
Proof. exact ImpProofs.imp_DNAFrom2Bit. Qed.
Print Assumptions C13_from2bit_is_source.

Theorem C13_ntoi_is_source : forall b, ImpProofs.is_byte b ->
  ImpGen.imp_sequtil_Ntoi b = GoSem.Ret (ntoi b).
Proof. exact ImpProofs.imp_Ntoi. Qed.
Print Assumptions C13_ntoi_is_source.

Example C13_source_example :
  ImpGen.imp_sequtil_DNATo2Bit [7] (bs "acGTt") = GoSem.Ret [7; 27; 192]
  /\ ImpGen.imp_sequtil_DNATo2Bit [] (bs "ACNT") = GoSem.Panics
  /\ ImpGen.imp_sequtil_DNAFrom2Bit [] [27; 192] = GoSem.Ret (bs "ACGTTAAA")
  /\ ImpProofs.all_bytes (bs "acGTt").
Proof. vm_compute. repeat split; repeat constructor. Qed.

(* The tables behind Ntoi, the complement and DNAFrom2Bit that the model uses (read out of the
   running implementation by gen-tables) are the values the two init functions of sequtil.go
   compute, as translated from the source. *)
Theorem C13_tables_are_source :
  ImpGen.imp_sequtil_init_sequtil_0 = GoSem.Ret (Bio.Model.GoGlobals.g_sequtil_ntoi, Bio.Model.GoGlobals.g_sequtil_complementBytes)
  /\ ImpGen.imp_sequtil_init_sequtil_1 = GoSem.Ret Bio.Model.GoGlobals.g_sequtil_dnaFrom2bit.
Proof. exact ImpProofs.imp_init_tables. Qed.
Print Assumptions C13_tables_are_source.

(* ---- both round trips, about the translated source ------------------------------------------------------- *)
From Bio.Proofs Require ImpProofsW.
Theorem C13_to_from_is_source : forall p, Forall (fun b => b < 256) p ->
  exists s, ImpGen.imp_sequtil_DNAFrom2Bit [] p = GoSem.Ret s /\ ImpGen.imp_sequtil_DNATo2Bit [] s = GoSem.Ret p.
Proof. exact ImpProofsW.to_from_src. Qed.
Print Assumptions C13_to_from_is_source.

Theorem C13_from_to_is_source : forall s, dna8 s ->
  exists p, ImpGen.imp_sequtil_DNATo2Bit [] s = GoSem.Ret p /\
    ImpGen.imp_sequtil_DNAFrom2Bit [] p
    = GoSem.Ret (map upper_byte s ++ repeat 65 (Nat.modulo (4 - Nat.modulo (length s) 4) 4)).
Proof. exact ImpProofsW.from_to_src. Qed.
Print Assumptions C13_from_to_is_source.
