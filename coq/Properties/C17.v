(* Properties/C17.v — MinHash sketches depend only on the k-mer content; the
   Mash distance obeys its laws.  Theorems only; proofs are in
   Proofs/MashProofs{,B,C}.v.

   The hash function is an arbitrary total [h : bytes -> N] (murmur3 with
   mash.Seed in the implementation); the model receives it as
   [fun b => Some (h b)].  [kmers k seqs] are the canonical upper-cased k-mers
   of all sequences (Panic: some sequence has a byte outside aAcCgGtTnN, or
   k < 0).  The distance laws are over Coq's real numbers: float64 rounding of
   the division and of math.Log is not modelled (the harness compares the
   implementation with the closed form within 4 ulp). *)
From Coq Require Import String Reals Sorted Permutation.
From Bio Require Import Base.
From Bio.Model Require Import Seq Mash.
From Bio.Spec Require Import MashSpec.
From Bio.Proofs Require Import MashProofs MashProofsB MashProofsC.

Notation total h := (fun b : bytes => Some (h b)).

(* ---- the sketch ---------------------------------------------------------------- *)

(* Sequences(n,k,seqs).View() is exactly the n smallest distinct hash values of
   the canonical upper-cased k-mers, in descending order. *)
Theorem C17_sketch_exact : forall (h : bytes -> N) n k seqs ks,
  (1 <= n)%Z -> kmers k seqs = Ok ks ->
  sequences (total h) n k seqs = Ok (rev (firstn (Z.to_nat n) (sort_dedup (map h ks)))).
Proof. exact sketch_exact. Qed.
Print Assumptions C17_sketch_exact.

(* complete description, panics included *)
Theorem C17_sketch_total : forall (h : bytes -> N) n k seqs,
  sequences (total h) n k seqs =
  if (n <? 1)%Z then Panic
  else match kmers k seqs with
       | Ok ks => Ok (sketch_of n (map h ks))
       | _ => Panic
       end.
Proof. exact sequences_spec. Qed.
Print Assumptions C17_sketch_total.

(* what [sort_dedup] is: strictly ascending, same elements *)
Theorem C17_sort_dedup_spec : forall l,
  StronglySorted N.lt (sort_dedup l) /\ forall x, In x (sort_dedup l) <-> In x l.
Proof. exact (fun l => conj (sort_dedup_asc l) (fun x => sort_dedup_in l x)). Qed.
Print Assumptions C17_sort_dedup_spec.

(* the sketch depends on the SET of k-mers only *)
Theorem C17_sketch_content : forall (h : bytes -> N) n k seqs seqs' ks ks',
  kmers k seqs = Ok ks -> kmers k seqs' = Ok ks' -> (forall b, In b ks <-> In b ks') ->
  sequences (total h) n k seqs = sequences (total h) n k seqs'.
Proof. exact sketch_content. Qed.
Print Assumptions C17_sketch_content.

Theorem C17_sketch_perm : forall (h : bytes -> N) n k seqs seqs' ks ks',
  kmers k seqs = Ok ks -> kmers k seqs' = Ok ks' -> Permutation ks ks' ->
  sequences (total h) n k seqs = sequences (total h) n k seqs'.
Proof. exact sketch_perm. Qed.
Print Assumptions C17_sketch_perm.

(* reordering the sequences (any outcome, panics included) *)
Theorem C17_sketch_reorder : forall (h : bytes -> N) n k seqs seqs',
  Permutation seqs seqs' -> sequences (total h) n k seqs = sequences (total h) n k seqs'.
Proof. exact sketch_reorder. Qed.
Print Assumptions C17_sketch_reorder.

(* reverse-complementing any of the sequences ([rc] is ReverseComplement) *)
Theorem C17_sketch_rc : forall (h : bytes -> N) n k seqs seqs',
  Forall2 (fun s r => r = s \/ rc [] s = Ok r) seqs seqs' ->
  sequences (total h) n k seqs = sequences (total h) n k seqs'.
Proof. exact sketch_rc. Qed.
Print Assumptions C17_sketch_rc.

(* changing letter case *)
Theorem C17_sketch_case : forall (h : bytes -> N) n k seqs seqs',
  Forall2 (fun s s' => map upper_byte s = map upper_byte s') seqs seqs' ->
  sequences (total h) n k seqs = sequences (total h) n k seqs'.
Proof. exact sketch_case. Qed.
Print Assumptions C17_sketch_case.

(* building incrementally: Sequences on the first batch, Add for each further one *)
Theorem C17_sketch_incremental : forall (h : bytes -> N) n k batches ks,
  batches <> [] -> (1 <= n)%Z -> kmers k (concat batches) = Ok ks ->
  incremental (total h) n k batches = sequences (total h) n k (concat batches).
Proof. exact sketch_incremental. Qed.
Print Assumptions C17_sketch_incremental.

(* re-partitioning: the same sequences distributed differently over the calls *)
Theorem C17_sketch_repartition : forall (h : bytes -> N) n k b1 b2 ks,
  b1 <> [] -> b2 <> [] -> (1 <= n)%Z ->
  Permutation (concat b1) (concat b2) -> kmers k (concat b1) = Ok ks ->
  incremental (total h) n k b1 = incremental (total h) n k b2.
Proof. exact sketch_repartition. Qed.
Print Assumptions C17_sketch_repartition.

(* a smaller sketch is the tail of a larger one *)
Theorem C17_sketch_tail : forall (h : bytes -> N) n n' k seqs v,
  (1 <= n' <= n)%Z -> sequences (total h) n k seqs = Ok v ->
  sequences (total h) n' k seqs = Ok (skipn (length v - Z.to_nat n') v).
Proof. exact sketch_tail. Qed.
Print Assumptions C17_sketch_tail.

(* ---- Jaccard --------------------------------------------------------------------- *)

(* minhash.intersect returns the same pair for both orders of two collections
   of the same capacity *)
Theorem C17_intersect_symmetric : forall a b n, intersect a b n = intersect b a n.
Proof. exact intersect_sym. Qed.
Print Assumptions C17_intersect_symmetric.

Theorem C17_jaccard_symmetric : forall (h : bytes -> N) n k sa sb,
  sketch_jaccard_pair (total h) n n k sa sb = sketch_jaccard_pair (total h) n n k sb sa.
Proof. exact sketch_jaccard_sym. Qed.
Print Assumptions C17_jaccard_symmetric.

(* two full collections of equal size n (strictly descending value lists): the
   pair is (number of values among the n smallest of the union that both have, n) *)
Theorem C17_jaccard_full : forall n a b,
  StronglySorted (fun x y => y < x) a -> StronglySorted (fun x y => y < x) b ->
  length a = n -> length b = n -> (1 <= n)%nat ->
  intersect a b (Z.of_nat n) =
  Ok (Z.of_nat (length (filter (fun x => memb x a && memb x b) (firstn n (sort_dedup (a ++ b))))),
      Z.of_nat n).
Proof. exact jaccard_full. Qed.
Print Assumptions C17_jaccard_full.

(* the same, on two sketches *)
Theorem C17_jaccard_full_sketches : forall (h : bytes -> N) n k sa sb ka kb,
  (1 <= n)%Z -> kmers k sa = Ok ka -> kmers k sb = Ok kb ->
  length (sketch_of n (map h ka)) = Z.to_nat n ->
  length (sketch_of n (map h kb)) = Z.to_nat n ->
  sketch_jaccard_pair (total h) n n k sa sb
  = Ok (Z.of_nat (shared_bottom (Z.to_nat n) (sketch_of n (map h ka)) (sketch_of n (map h kb))), n).
Proof. exact sketch_jaccard_full. Qed.
Print Assumptions C17_jaccard_full_sketches.

(* identical k-mer content: everything is shared *)
Theorem C17_jaccard_identical : forall (h : bytes -> N) n k sa sb ka kb,
  (1 <= n)%Z -> kmers k sa = Ok ka -> kmers k sb = Ok kb -> (forall x, In x ka <-> In x kb) ->
  length (sketch_of n (map h ka)) = Z.to_nat n ->
  sketch_jaccard_pair (total h) n n k sa sb = Ok (n, n).
Proof. exact sketch_jaccard_same. Qed.
Print Assumptions C17_jaccard_identical.

(* ---- Distance, over the reals -------------------------------------------------------- *)
Local Open Scope R_scope.

Theorem C17_dist_formula : forall j k, 0 < j ->
  mash_dist j k = Rmin 1 (- ln (2 * j / (1 + j)) / INR k).
Proof. exact dist_formula. Qed.
Print Assumptions C17_dist_formula.

Theorem C17_dist_zero : forall k, mash_dist 0 k = 1.
Proof. exact dist_zero. Qed.
Print Assumptions C17_dist_zero.

Theorem C17_dist_range : forall j k, 0 <= j <= 1 -> (0 < k)%nat -> 0 <= mash_dist j k <= 1.
Proof. exact dist_range. Qed.
Print Assumptions C17_dist_range.

Theorem C17_dist_identical : forall k, mash_dist 1 k = 0.
Proof. exact dist_identical. Qed.
Print Assumptions C17_dist_identical.

(* FromJaccard is non-increasing on [0,1] *)
Theorem C17_dist_antitone : forall j1 j2 k, 0 <= j1 -> j1 <= j2 -> j2 <= 1 -> (0 < k)%nat ->
  mash_dist j2 k <= mash_dist j1 k.
Proof. exact dist_antitone. Qed.
Print Assumptions C17_dist_antitone.

Theorem C17_dist_symmetric : forall a b n k p q,
  intersect a b n = Ok p -> intersect b a n = Ok q -> mash_dist_pair p k = mash_dist_pair q k.
Proof. exact dist_symmetric. Qed.
Print Assumptions C17_dist_symmetric.

(* two full sketches of equal size: Distance is the formula at the shared
   fraction of the n smallest values of the union, and lies in [0,1] *)
Theorem C17_dist_full : forall a b n k,
  StronglySorted (fun x y => (y < x)%N) a -> StronglySorted (fun x y => (y < x)%N) b ->
  length a = n -> length b = n -> (1 <= n)%nat ->
  exists p, intersect a b (Z.of_nat n) = Ok p /\
    mash_dist_pair p k = mash_dist (INR (shared_bottom n a b) / INR n) k /\
    ((0 < k)%nat -> 0 <= mash_dist_pair p k <= 1).
Proof. exact dist_full. Qed.
Print Assumptions C17_dist_full.

(* identical content: the pair is (n, n) (C17_jaccard_identical) and the distance 0 *)
Theorem C17_dist_same_content : forall n k, (0 < n)%Z -> mash_dist_pair (n, n) k = 0.
Proof. exact dist_pair_identical. Qed.
Print Assumptions C17_dist_same_content.

Local Close Scope R_scope.

(* ---- the hypotheses are satisfiable ------------------------------------------------------ *)
Definition ex_hash (b : bytes) : N := fold_left (fun acc x => (acc * 31 + x) mod 1009) b 7.
Definition ex_seqs : list bytes := [bs "ACGTTGCAAT"; bs "ggnAcT"].
Definition ex_seqs_rc : list bytes := [bs "ATTGCAACGT"; bs "ggnAcT"].
Definition ex_seqs_b : list bytes := [bs "ACGTTGCTAT"; bs "CCCAG"].

(* 12 k-mers, a sketch of 4 distinct values *)
Example C17_ex_sketch :
  (exists ks, kmers 3 ex_seqs = Ok ks /\ length ks = 12%nat) /\
  sequences (total ex_hash) 4 3 ex_seqs = Ok [654; 563; 556; 426].
Proof. split; [eexists; split|]; vm_compute; reflexivity. Qed.

(* the reverse complement of the first sequence, lower-cased, given last: same sketch *)
Example C17_ex_variants :
  rc [] (bs "ACGTTGCAAT") = Ok (bs "ATTGCAACGT") /\
  sequences (total ex_hash) 4 3 [bs "GGNACT"; bs "attgcaacgt"] = sequences (total ex_hash) 4 3 ex_seqs /\
  incremental (total ex_hash) 4 3 [[bs "ggnAcT"]; []; [bs "ACGTTGCAAT"]] = sequences (total ex_hash) 4 3 ex_seqs /\
  sequences (total ex_hash) 2 3 ex_seqs = Ok [556; 426].
Proof. repeat split; vm_compute; reflexivity. Qed.

(* two full sketches of size 4 sharing 2 of the 4 smallest values of the union *)
Example C17_ex_jaccard :
  sketch_jaccard_pair (total ex_hash) 4 4 3 ex_seqs ex_seqs_b = Ok (2, 4)%Z /\
  (exists a b, sequences (total ex_hash) 4 3 ex_seqs = Ok a /\ sequences (total ex_hash) 4 3 ex_seqs_b = Ok b /\
     length a = 4%nat /\ length b = 4%nat /\ shared_bottom 4 a b = 2%nat).
Proof. split; [|eexists; eexists; repeat split]; vm_compute; reflexivity. Qed.
