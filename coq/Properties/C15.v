(* Properties/C15.v — The trie behaves as a set of sequences under any history of
   updates.  Only statements; every proof is [exact <lemma>].
   Model: Model/Trie.v (Add, Has, Delete with its stack and prune loops, the
   explicit-stack ForEach, the JSON object tree).  Reference: Spec/TrieSpec.v
   (the set M with spec_add / spec_delete / spec_has, and [members], the
   root-to-leaf paths of a trie). *)
From Coq Require Import String Sorting.Sorted Permutation.
From Bio Require Import Base.
From Bio.Model Require Import Trie.
From Bio.Spec Require Import TrieSpec.
From Bio.Proofs Require Import TrieProofs TrieProofsB TrieProofsC.

(* After ANY history of Add and Delete calls from New(): the trie is well formed,
   its members are exactly the reference set M of the property text (both lists
   are duplicate free, so "same set" is "equal up to order"), and every Delete
   returned what the reference says (whether a member had the prefix).  No bound
   on the length of the history, of the sequences, or on the byte values. *)
Theorem C15_refines : forall ops,
  wf (fst (run ops empty)) /\
  Permutation (members (fst (run ops empty))) (fst (spec_run ops [])) /\
  NoDup (members (fst (run ops empty))) /\
  snd (run ops empty) = snd (spec_run ops []).
Proof. exact trie_refines. Qed.
Print Assumptions C15_refines.

(* The history is the fold of the single calls. *)
Theorem C15_run_is_fold : forall ops t,
  fst (run ops t) = fold_left (fun t o => fst (apply_op o t)) ops t.
Proof. exact run_fold. Qed.
Print Assumptions C15_run_is_fold.

(* The step lemmas, for any well-formed trie (not only reachable ones). *)
Theorem C15_add_step : forall b t, wf t ->
  forall x, In x (members (add b t)) <-> In x (spec_add b (members t)).
Proof. exact add_refines. Qed.
Print Assumptions C15_add_step.

Theorem C15_delete_step : forall b t, wf t ->
  wf (fst (delete b t)) /\
  (forall x, In x (members (fst (delete b t))) <-> In x (fst (spec_delete b (members t)))) /\
  snd (delete b t) = snd (spec_delete b (members t)).
Proof. exact delete_refines. Qed.
Print Assumptions C15_delete_step.

(* Delete's two loops (path stack, prune upwards until a node keeps other
   children) compute: nothing and false if the path is absent; otherwise true and
   the recursive deletion [rdel] — and nothing at all for the empty sequence. *)
Theorem C15_delete_loops : forall b t,
  delete b t =
  if has b t then (match b with
                   | [] => t
                   | _ => match rdel b t with Some t' => t' | None => t end
                   end, true)
  else (t, false).
Proof. exact delete_eq. Qed.
Print Assumptions C15_delete_loops.

(* Has(x) is true exactly when x is empty or a prefix of a member. *)
Theorem C15_has_spec : forall t x, wf t ->
  (has x t = true <-> x = [] \/ exists m, In m (members t) /\ prefix x m).
Proof. exact has_spec. Qed.
Print Assumptions C15_has_spec.

Theorem C15_has_after_history : forall ops x,
  has x (fst (run ops empty)) = spec_has (fst (spec_run ops [])) x.
Proof. exact has_after_history. Qed.
Print Assumptions C15_has_after_history.

(* ForEach (explicit stack, fuel 2*size): never runs out of fuel, and reports every
   member exactly once and nothing else. *)
Theorem C15_for_each_exact : forall t, wf t ->
  exists l, for_each t = Ok l /\ Permutation l (members t) /\ NoDup l.
Proof. exact for_each_exact. Qed.
Print Assumptions C15_for_each_exact.

Theorem C15_for_each_after_history : forall ops,
  exists l, for_each (fst (run ops empty)) = Ok l /\
            Permutation l (fst (spec_run ops [])) /\ NoDup l.
Proof. exact for_each_after_history. Qed.
Print Assumptions C15_for_each_after_history.

(* A callback that returns false at its p-th call (p >= 1) stops the traversal:
   it has then been called on p distinct members (on all of them if there are
   fewer than p), the first p of the traversal order. *)
Theorem C15_for_each_stop : forall p, p <> 0%nat -> forall t,
  for_each_until p t = Ok (firstn p (members t)).
Proof. exact for_each_until_firstn. Qed.
Print Assumptions C15_for_each_stop.

(* A trie rebuilt from its JSON form (the object tree {"m":{"<decimal key>":...}};
   the text is encoding/json's) IS the original, hence indistinguishable by any
   further Has / ForEach / Add / Delete.  Keys must be bytes for their decimal
   text to be read back by ParseUint(…, 8). *)
Theorem C15_json_roundtrip : forall t, wf t -> byte_keys t -> of_json (to_json t) = Some t.
Proof. exact json_roundtrip. Qed.
Print Assumptions C15_json_roundtrip.

Theorem C15_json_roundtrip_after_history : forall ops, ops_are_bytes ops ->
  of_json (to_json (fst (run ops empty))) = Some (fst (run ops empty)).
Proof. exact json_roundtrip_run. Qed.
Print Assumptions C15_json_roundtrip_after_history.

(* Non-vacuity: a history with an effective Add, an absorbing Add, a Delete that
   prunes up to a node that keeps a sibling, a Delete of an absent sequence and
   a Delete of the empty sequence. *)
Definition C15_example_ops : list op :=
  [ OAdd (bs "ab"); OAdd (bs "abc"); OAdd (bs "abd"); OAdd (bs "ax"); OAdd (bs "a");
    ODel (bs "abc"); ODel (bs "q"); ODel []; ODel (bs "ab"); OAdd (bs "b") ].

Example C15_example :
  ops_are_bytes C15_example_ops
  /\ run C15_example_ops empty =
       (T [(97, T [(120, T [])]); (98, T [])],
        [None; None; None; None; None; Some true; Some false; Some true; Some true; None])
  /\ spec_run C15_example_ops [] =
       ([bs "b"; bs "ax"],
        [None; None; None; None; None; Some true; Some false; Some true; Some true; None])
  /\ for_each (fst (run C15_example_ops empty)) = Ok [bs "ax"; bs "b"]
  /\ for_each_until 1 (fst (run C15_example_ops empty)) = Ok [bs "ax"]
  /\ has (bs "a") (fst (run C15_example_ops empty)) = true
  /\ has (bs "ab") (fst (run C15_example_ops empty)) = false
  /\ wf (T [(97, T [(120, T [])]); (98, T [])])
  /\ byte_keys (T [(97, T [(120, T [])]); (98, T [])]).
Proof.
  split; [repeat constructor|].
  split; [vm_compute; reflexivity|].
  split; [vm_compute; reflexivity|].
  split; [vm_compute; reflexivity|].
  split; [vm_compute; reflexivity|].
  split; [vm_compute; reflexivity|].
  split; [vm_compute; reflexivity|].
  split.
  - change (T [(97, T [(120, T [])]); (98, T [])]) with (fst (run C15_example_ops empty)).
    apply trie_refines.
  - change (T [(97, T [(120, T [])]); (98, T [])]) with (fst (run C15_example_ops empty)).
    apply byte_keys_run; [repeat constructor | apply byte_keys_empty].
Qed.

(* ---- the source's own function bodies (harness gen-imp, heap mode) ------------------------------------
   gen/ImpGen.v holds New, Add, Has and Delete as translated from trie/trie.go on this run: a *Trie
   is an address into a heap of nodes (nil is -1), a node is its map[byte]*Trie, Add allocates with
   New() and stores through the pointer, Delete stacks the pointers on the path and deletes keys
   bottom-up until a node keeps other children.  [models h x] says that the heap h holds the tree x
   (the model trie annotated with the address of every node), [NoDup (addrs x)] that no node is
   shared — which is what New/Add/Delete build, and is re-established by each of them. *)
From Bio.gen Require ImpGen.
From Bio.Model Require GoSem.
From Bio.Proofs Require Import ImpProofsP.

Theorem C15_has_is_source : forall b fuel h x,
  models h x -> (length b < fuel)%nat ->
  ImpGen.imp_trie_Trie_Has fuel h (addr x) b = GoSem.Ret (h, has b (erase x)).
Proof. exact imp_Has_loop. Qed.
Print Assumptions C15_has_is_source.

Theorem C15_add_is_source : forall b fuel h x,
  models h x -> NoDup (addrs x) -> wf (erase x) -> (length b < fuel)%nat ->
  exists h' x', ImpGen.imp_trie_Trie_Add fuel h (addr x) b = GoSem.Ret (h', tt) /\
                models h' x' /\ NoDup (addrs x') /\ addr x' = addr x /\
                erase x' = add b (erase x).
Proof. exact imp_Add_ok. Qed.
Print Assumptions C15_add_is_source.

Theorem C15_delete_is_source : forall b h x,
  models h x -> NoDup (addrs x) -> wf (erase x) ->
  exists h' x', ImpGen.imp_trie_Trie_Delete h (addr x) b
                  = GoSem.Ret (h', snd (delete b (erase x))) /\
                models h' x' /\ NoDup (addrs x') /\ addr x' = addr x /\
                erase x' = fst (delete b (erase x)).
Proof. exact imp_Delete_ok. Qed.
Print Assumptions C15_delete_is_source.

(* New(), then ANY history of Add and Delete calls of the translated functions on the one heap,
   then any Has query: the calls return what the model's run returns, hence (C15_refines,
   C15_has_after_history) what the reference set says.  fuel bounds only the length of the
   sequences (one unit per iteration of `for len(b) > 0`). *)
Theorem C15_history_is_source : forall fuel ops q,
  Forall (fun o => (op_len o < fuel)%nat) ops -> (length q < fuel)%nat ->
  exists h0 root h',
    ImpGen.imp_trie_New [] = GoSem.Ret (h0, root) /\
    heap_run fuel ops h0 root = GoSem.Ret (h', snd (run ops empty)) /\
    ImpGen.imp_trie_Trie_Has fuel h' root q = GoSem.Ret (h', has q (fst (run ops empty))).
Proof. exact imp_trie_history. Qed.
Print Assumptions C15_history_is_source.

(* the translated functions run: the example history on a real heap (the nodes unlinked by Delete
   stay behind as garbage, as they do in Go until collected) *)
Example C15_heap_example :
  heap_run 10 C15_example_ops [[]] 0%Z =
    GoSem.Ret ([[(97%N, 1%Z); (98%N, 6%Z)]; [(120%N, 5%Z)]; [(100%N, 4%Z)]; []; []; []; []],
               [None; None; None; None; None; Some true; Some false; Some true; Some true; None])
  /\ ImpGen.imp_trie_Trie_Has 10 [[(97%N, 1%Z); (98%N, 6%Z)]; [(120%N, 5%Z)]; [(100%N, 4%Z)]; []; []; []; []] 0%Z (bs "ax")
     = GoSem.Ret ([[(97%N, 1%Z); (98%N, 6%Z)]; [(120%N, 5%Z)]; [(100%N, 4%Z)]; []; []; []; []], true)
  /\ models [[(97%N, 1%Z); (98%N, 6%Z)]; [(120%N, 5%Z)]; [(100%N, 4%Z)]; []; []; []; []]
            (AT 0 [(97%N, AT 1 [(120%N, AT 5 [])]); (98%N, AT 6 [])]).
Proof.
  split; [vm_compute; reflexivity|]. split; [vm_compute; reflexivity|].
  cbn. repeat split; try lia.
Qed.

(* ---- ForEach, as translated ------------------------------------------------------------------------------------
   Trie.ForEach with its explicit stack of forEachStep records and keys() (harness gen-imp: the
   *forEachStep pointers live only in the stack and are values there, `step := stack[len(stack)-1]`
   an alias of the top; the callback's calls are the items).  keys() ranges over a Go map, whose
   order is unspecified; the translation (like the model) takes a node's keys in ascending order.
   On any heap that holds an unshared well-formed tree the translated ForEach reports what the model's
   for_each reports (which C15_for_each_exact identifies with the members), and leaves the heap
   alone; and so after New() and ANY history of Add / Delete calls of the translated functions. *)
From Bio.Proofs Require ImpProofsY.

Theorem C15_for_each_is_source : forall fuel h x r,
  models h x -> wf (erase x) -> for_each (erase x) = Ok r -> (2 * size (erase x) < fuel)%nat ->
  ImpGen.imp_trie_Trie_ForEach fuel h (addr x) = GoSem.Ret (h, r).
Proof. exact ImpProofsY.imp_ForEach_ok. Qed.
Print Assumptions C15_for_each_is_source.

Theorem C15_for_each_after_history_is_source : forall p fuel fuel2 ops,
  Forall (fun o => (op_len o < fuel)%nat) ops ->
  exists h0 root h',
    ImpGen.imp_trie_New [] = GoSem.Ret (h0, root) /\
    heap_run fuel ops h0 root = GoSem.Ret (h', snd (run ops empty)) /\
    forall r, for_each_until p (fst (run ops empty)) = Ok r ->
              (2 * size (fst (run ops empty)) < fuel2)%nat ->
              ImpGen.imp_trie_Trie_ForEach_stop p fuel2 h' root = GoSem.Ret (h', r).
Proof. exact ImpProofsY.imp_trie_history_foreach. Qed.
Print Assumptions C15_for_each_after_history_is_source.

Example C15_heap_foreach_example :
  ImpGen.imp_trie_Trie_ForEach 40 [[(97%N, 1%Z); (98%N, 6%Z)]; [(120%N, 5%Z)]; [(100%N, 4%Z)]; []; []; []; []] 0%Z
  = GoSem.Ret ([[(97%N, 1%Z); (98%N, 6%Z)]; [(120%N, 5%Z)]; [(100%N, 4%Z)]; []; []; []; []], [bs "ax"; bs "b"])
  /\ ImpGen.imp_trie_Trie_ForEach_stop 1 40 [[(97%N, 1%Z); (98%N, 6%Z)]; [(120%N, 5%Z)]; [(100%N, 4%Z)]; []; []; []; []] 0%Z
  = GoSem.Ret ([[(97%N, 1%Z); (98%N, 6%Z)]; [(120%N, 5%Z)]; [(100%N, 4%Z)]; []; []; []; []], [bs "ax"]).
Proof. vm_compute. split; reflexivity. Qed.
