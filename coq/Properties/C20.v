(* Properties/C20.v — Substitution matrices are built faithfully from tables and
   by mirroring.  Only statements; every proof is [exact <lemma>].

   Model: Model/Smtext.v (ReadNCBI over bufio.Scanner lines with its 64 KiB line
   limit, the regexp `\S+`, extractSingleChar; Symmetrical; the sorted entry list
   GoString prints).  Scores are arbitrary float64 values, identified by their
   canonical text ([F]); strconv.ParseFloat enters as the oracle [o]: the
   layouts say, token by token, what ParseFloat answers ([ScoreTok]).
   The text rendering of GoString (%q, %v, go/format) is fmt's and is trusted;
   the correspondence harness parses it back.                                  *)
From Coq Require Import Permutation Sorted.
From Bio Require Import Base.
From Bio.Model Require Import Smtext.
From Bio.Spec Require Import SmtextSpec.
From Bio.Proofs Require Import SmtextProofs SmtextProofsB SmtextProofsC.

(* ReadNCBI recovers exactly the table, for every layout: any runs of blanks
   (SP, TAB, FF, CR) before, between and after the tokens, LF or CRLF, empty and
   '#' lines anywhere, whitespace-only lines before the column labels, a final
   newline or none, rows and columns in any order, rectangular tables, labels
   any non-space byte, '*' -> 255.  (A line whose first byte is '#' is a
   comment, so a label '#' needs a blank before it: [LineOf].)                 *)
Theorem C20_read_ncbi_exact : forall o T L,
  rect T -> TableLayout o T L -> read_ncbi o L TEOF = Ok (matrix_of T).
Proof. exact read_ncbi_exact. Qed.
Print Assumptions C20_read_ncbi_exact.

(* ... and [matrix_of T] holds exactly the (row, column) -> score pairs of T
   when the row labels and the column labels are distinct. *)
Theorem C20_matrix_of_table : forall T, rect T ->
  NoDup (map lab (t_cols T)) -> NoDup (map (fun r => lab (fst r)) (t_rows T)) ->
  keys_unique (matrix_of T)
  /\ forall k x, mlookup k (matrix_of T) = Some x <-> In (k, x) (pairs T).
Proof. exact matrix_of_table. Qed.
Print Assumptions C20_matrix_of_table.

(* A corrupted row — wrong number of values, multi-character label, non-numeric
   score (or a line beyond the Scanner's limit) — after any number of good rows
   gives an error, whatever follows and however the stream ends: never a matrix. *)
Theorem C20_read_ncbi_rejects : forall o T pre hdr body bad rest nl t,
  rect T ->
  Forall PreLine pre -> HeaderLine (t_cols T) hdr -> Body o (t_rows T) body ->
  BadRowLine o (length (t_cols T)) bad -> Forall nolf rest ->
  read_ncbi o (join_lines (pre ++ hdr :: body ++ bad :: rest) nl) t = Err.
Proof. exact read_ncbi_rejects_row. Qed.
Print Assumptions C20_read_ncbi_rejects.

(* A multi-character column label is rejected. *)
Theorem C20_read_ncbi_rejects_header : forall o pre bad rest nl t,
  Forall PreLine pre -> BadHeaderLine bad -> Forall nolf rest ->
  read_ncbi o (join_lines (pre ++ bad :: rest) nl) t = Err.
Proof. exact read_ncbi_rejects_header. Qed.
Print Assumptions C20_read_ncbi_rejects_header.

(* No input makes ReadNCBI panic, and a read fault never yields a matrix. *)
Theorem C20_read_ncbi_total : forall o s t, read_ncbi o s t <> Panic.
Proof. exact read_ncbi_total. Qed.
Print Assumptions C20_read_ncbi_total.

Theorem C20_read_ncbi_fault : forall o s, read_ncbi o s TErr = Err.
Proof. exact read_ncbi_fault_any. Qed.
Print Assumptions C20_read_ncbi_fault.

(* Symmetrical (the list order of m stands for Go's map iteration order, so the
   statement holds for every order): it panics exactly when two mirrored pairs
   carry different scores; otherwise the result is a map in which every pair is
   an original pair or a mirror image with that pair's score — nothing else —
   and every original pair and its mirror image are present with the original
   score (when both a pair and its mirror are present, with the score of either:
   they are == as floats, i.e. identical up to the sign of zero).  The receiver
   is unchanged by purity (the harness checks it on the implementation).      *)
Theorem C20_symmetrical_exact : forall m, keys_unique m ->
  (symmetrical m = Panic <-> conflict m)
  /\ symmetrical m <> Err
  /\ forall r, symmetrical m = Ok r ->
       keys_unique r
       /\ (forall k y, mlookup k r = Some y ->
             mlookup k m = Some y \/ mlookup (flip k) m = Some y)
       /\ (forall k x, mlookup k m = Some x ->
             (exists y, mlookup k r = Some y /\ original_score m (flip k) x y)
             /\ (exists y, mlookup (flip k) r = Some y /\ original_score m (flip k) x y)).
Proof. exact symmetrical_exact. Qed.
Print Assumptions C20_symmetrical_exact.

(* GoString lists every pair exactly once, with its score, in strictly
   ascending key order. *)
Theorem C20_go_string_sorted_complete : forall m, keys_unique m ->
  StronglySorted (fun e1 e2 => key_lt (fst e1) (fst e2)) (go_string_entries m)
  /\ Permutation m (go_string_entries m).
Proof. exact go_string_sorted_complete. Qed.
Print Assumptions C20_go_string_sorted_complete.

(* ---- non-vacuity ------------------------------------------------------------------ *)
(* The table          A     *            laid out as   "# c\r\n"
                  B   1   -2.5                          "\n"
                  *  0.25   7                           " \tA *\r\n"
                                                        "B 1 -2.5 \n"
                                                        "#x\n"
                                                        "*\t0x1p-2  7"       *)
Definition ex_o : foracle :=
  {| f_parse := [ ([49], [49]); ([45;50;46;53], [45;50;46;53]);
                  ([48;120;49;112;45;50], [48;46;50;53]); ([55], [55]) ];
     f_fmt := [] |}.
Definition ex_T : table :=
  {| t_cols := [65; 42];
     t_rows := [ (66, [[49]; [45;50;46;53]]); (42, [[48;46;50;53]; [55]]) ] |}.
Definition ex_pre : list bytes := [[35;32;99;13]; []].
Definition ex_hdr : bytes := [32;9;65;32;42;13].
Definition ex_body : list bytes :=
  [ [66;32;49;32;45;50;46;53;32]; [35;120]; [42;9;48;120;49;112;45;50;32;32;55] ].
Definition ex_L : bytes :=
  [35;32;99;13;10; 10; 32;9;65;32;42;13;10; 66;32;49;32;45;50;46;53;32;10; 35;120;10;
   42;9;48;120;49;112;45;50;32;32;55].

Ltac ex_lws := repeat (apply Forall_cons || apply Forall_nil); unfold lws; auto 6.
Ltac ex_token := split; [discriminate | repeat constructor].
Ltac ex_short := unfold short; vm_compute; reflexivity.

Example C20_example_layout : rect ex_T /\ TableLayout ex_o ex_T ex_L.
Proof.
  split.
  - repeat constructor.
  - change ex_L with (join_lines (ex_pre ++ ex_hdr :: ex_body) false).
    constructor.
    + constructor; [|constructor; [|constructor]].
      * left. split; [|ex_short]. right; right. exists [32;99;13]. split; [reflexivity|].
        repeat constructor; discriminate.
      * left. split; [left; reflexivity | ex_short].
    + split; [discriminate | split; [repeat constructor|]].
      exists [32;9], [65;32;42;13]. split; [reflexivity|]. split; [ex_lws|].
      split; [|split; [discriminate | split; [discriminate | ex_short]]].
      apply (Toks_cons [65] [[42]] [32] [42;13]); [ex_token | ex_lws | discriminate |].
      apply (Toks_cons [42] [] [13] []); [ex_token | ex_lws | intros H; contradiction | constructor].
    + apply (Body_row ex_o 66 [[49]; [45;50;46;53]] [[49]; [45;50;46;53]]).
      * reflexivity.
      * repeat constructor; discriminate.
      * exists [], [66;32;49;32;45;50;46;53;32]. split; [reflexivity|]. split; [constructor|].
        split; [|split; [discriminate | split; [discriminate | ex_short]]].
        apply (Toks_cons [66] [[49]; [45;50;46;53]] [32] [49;32;45;50;46;53;32]);
          [ex_token | ex_lws | discriminate |].
        apply (Toks_cons [49] [[45;50;46;53]] [32] [45;50;46;53;32]);
          [ex_token | ex_lws | discriminate |].
        apply (Toks_cons [45;50;46;53] [] [32] []);
          [ex_token | ex_lws | intros H; contradiction | constructor].
      * apply Body_skip.
        { split; [|ex_short]. right; right. exists [120]. split; [reflexivity|].
          repeat constructor; discriminate. }
        apply (Body_row ex_o 42 [[48;46;50;53]; [55]] [[48;120;49;112;45;50]; [55]]).
        -- reflexivity.
        -- repeat constructor; discriminate.
        -- exists [], [42;9;48;120;49;112;45;50;32;32;55]. split; [reflexivity|]. split; [constructor|].
           split; [|split; [discriminate | split; [discriminate | ex_short]]].
           apply (Toks_cons [42] [[48;120;49;112;45;50]; [55]] [9] [48;120;49;112;45;50;32;32;55]);
             [ex_token | ex_lws | discriminate |].
           apply (Toks_cons [48;120;49;112;45;50] [[55]] [32;32] [55]);
             [ex_token | ex_lws | discriminate |].
           apply (Toks_cons [55] [] [] []);
             [ex_token | constructor | intros H; contradiction | constructor].
        -- constructor.
Qed.

Example C20_example_values :
  read_ncbi ex_o ex_L TEOF
    = Ok [ ((66, 65), [49]); ((66, 255), [45;50;46;53]);
           ((255, 65), [48;46;50;53]); ((255, 255), [55]) ]
  /\ matrix_of ex_T = [ ((66, 65), [49]); ((66, 255), [45;50;46;53]);
                        ((255, 65), [48;46;50;53]); ((255, 255), [55]) ]
  (* a value too many, a non-numeric score, a two-byte label: "A\nB 1 7", "A\nB x", "A\nBB 1" *)
  /\ read_ncbi ex_o [65;10;66;32;49;32;55] TEOF = Err
  /\ read_ncbi ex_o [65;10;66;32;120] TEOF = Err
  /\ read_ncbi ex_o [65;10;66;66;32;49] TEOF = Err
  (* mirroring {a,b}:1 {b,b}:7; a conflict {a,b}:1 {b,a}:7; 0 and -0 do not conflict *)
  /\ symmetrical [((97, 98), [49]); ((98, 98), [55])]
     = Ok [((97, 98), [49]); ((98, 97), [49]); ((98, 98), [55])]
  /\ symmetrical [((97, 98), [49]); ((98, 97), [55])] = Panic
  /\ conflict [((97, 98), [49]); ((98, 97), [55])]
  /\ symmetrical [((97, 98), [48]); ((98, 97), [45; 48])]
     = Ok [((97, 98), [45; 48]); ((98, 97), [45; 48])]   (* the pair visited last wins *)
  /\ go_string_entries [((98, 97), [49]); ((97, 255), [55]); ((97, 98), [50])]
     = [((97, 98), [50]); ((97, 255), [55]); ((98, 97), [49])].
Proof.
  vm_compute. repeat split.
  exists 97, 98, [49], [55]. repeat split; discriminate.
Qed.

(* ---- tie to the Go source by translation of whole function bodies (gen/ImpGen.v) -------- *)
From Bio.gen Require ImpGen.
From Bio.Model Require GoSem.
From Bio.Proofs Require ImpProofsG.

(* extractSingleChar as translated from smtext.go (one character, "*" is align.Gap) is the
   model's, for every string. *)
Theorem C20_extract_single_char_is_source : forall s,
  ImpGen.imp_smtext_extractSingleChar s
  = match extract_single_char s with Ok b => GoSem.Ret (b, 0%Z) | _ => GoSem.Ret (0%N, 2%Z) end.
Proof. exact ImpProofsG.imp_extractSingleChar. Qed.
Print Assumptions C20_extract_single_char_is_source.

From Bio.Proofs Require ImpProofsO.

(* ReadNCBI as translated from smtext.go — `for sc.Scan()`, blank and comment lines, the
   header row (the non-space fields through extractSingleChar; an empty header leaves chars
   nil and the next line is a header again), the value rows (the field count, ParseFloat
   through the oracle, m[[2]byte{c, chars[i]}] = x), the final sc.Err() — folds the model's
   read_step over the scanner's tokens: the same matrix, an error exactly where the model has
   one or the scanner reports one.  The *bufio.Scanner is GoSem.go_scanner (tokens to come
   and the error Err() reports after them; which bytes make which tokens, and when a line is
   too long for the scanner, is Model/Smtext.line_items). *)
Theorem C20_read_ncbi_is_source : forall o fuel cur (toks : list bytes) code, (length toks < fuel)%nat ->
  ImpProofsO.nc_agrees code (fold_left (read_step o) (map (@Rec bytes) toks) (Ok ([], [])))
    (ImpGen.imp_smtext_ReadNCBI fuel o (GoSem.Scanner cur toks code false)).
Proof. exact ImpProofsO.imp_ReadNCBI. Qed.
Print Assumptions C20_read_ncbi_is_source.

Example C20_source_read_example :
  let one := [49]%N in let m2 := [45; 50]%N in
  let o := {| f_parse := [(one, one); (m2, m2)]; f_fmt := [] |} in
  (* "# c", "  A  *", "A 1 -2", "* -2 1" *)
  ImpGen.imp_smtext_ReadNCBI 9 o (GoSem.Scanner [] [[35; 32; 99]; [32; 32; 65; 32; 32; 42]; [65; 32; 49; 32; 45; 50]; [42; 32; 45; 50; 32; 49]]%N 0%Z false)
  = GoSem.Ret (GoSem.Scanner [] [] 0%Z true,
      ([((65, 65), one); ((65, 255), m2); ((255, 65), m2); ((255, 255), one)]%N, 0%Z)).
Proof. vm_compute. reflexivity. Qed.

(* Symmetrical as translated from align.go (the range over the map with the two stores and
   the conflict check through a comma-ok read and a float comparison) is the model's fold of
   sym_step over the entries (the list order stands for Go's iteration order), with a panic
   in exactly the same cases.  Floats are their canonical texts; == is Smtext.feq. *)
Theorem C20_symmetrical_is_source : forall m : smatrix,
  ImpGen.imp_alignf_SubstitutionMatrix_Symmetrical m
  = match symmetrical m with Ok r => GoSem.Ret r | _ => GoSem.Panics end.
Proof. exact ImpProofsO.imp_Symmetrical. Qed.
Print Assumptions C20_symmetrical_is_source.

(* ---- the property itself, about the translated source ----------------------------------------------------
   Any layout L of a rectangular table T (lines shorter than bufio.Scanner's 64 KiB limit), cut into
   lines as bufio.Scanner does (Base.scan_tokens), is read by ReadNCBI as translated from smtext.go
   into exactly the matrix of T, with a nil error. *)
From Bio.Proofs Require ImpProofsW.
Theorem C20_read_ncbi_exact_is_source : forall o T L fuel cur,
  rect T -> TableLayout o T L ->
  Forall (fun p => Bio.Model.Smtext.too_long p = false) (lines_tail (split_on LF L)) ->
  (length (scan_tokens L) < fuel)%nat ->
  exists rd, ImpGen.imp_smtext_ReadNCBI fuel o (GoSem.Scanner cur (scan_tokens L) 0%Z false)
             = GoSem.Ret (rd, (matrix_of T, 0%Z)).
Proof. exact ImpProofsW.read_ncbi_exact_src. Qed.
Print Assumptions C20_read_ncbi_exact_is_source.
