(* Properties/C20.v — property theorems only. (stub) *)
From Bio Require Import Base.
