(* Properties/C05.v — Newick trees survive write -> read, including names that
   need quoting.  Only statements; every proof is [exact <lemma>].

   Model/Newick.v: [name_to_text]/[name_from_text]/[quoted], the recursive
   writer [newick_text] and [marshal] (MarshalText; Write emits it as one
   chunk), the tokeniser [next_token], the five-state machine [read_step]/
   [read_tree] over an explicit stack of frames, and [decode] (Reader).
   Distances are canonical float texts; fmt's %v and strconv.ParseFloat enter
   through the oracle [o]; [float_ok o x] is strconv's contract for one float
   (H1: the written text parses back to x; H2: it is non-empty and contains no
   delimiter) and [floats_ok o t] asks it of the non-zero distances of t only.
   The harness asserts H1/H2 on the real strconv for every float it uses.
   [norm] maps the zero distances ("0", "-0": not written, "0 is treated as
   none") to the float64 zero value and changes nothing else. *)
From Coq Require Import String.
From Bio Require Import Base.
From Bio.Model Require Import Newick.
From Bio.Spec Require Import NewickSpec.
From Bio.Proofs Require Import NewickProofs NewickProofsB NewickProofsC.

(* nameFromText inverts nameToText for EVERY byte string: spaces, underscores,
   quotes, parentheses, commas, colons, semicolons, tabs, LF and CR included. *)
Theorem C05_name_roundtrip : forall s, name_from_text (name_to_text s) = s.
Proof. exact name_roundtrip. Qed.
Print Assumptions C05_name_roundtrip.

(* Only the empty name is written as nothing ... *)
Theorem C05_name_empty_iff : forall s, name_to_text s = [] <-> s = [].
Proof. exact name_text_nil. Qed.
Print Assumptions C05_name_empty_iff.

(* ... and every other written name is read as exactly one token, whatever
   punctuation follows it and however the stream ends afterwards ... *)
Theorem C05_name_one_token : forall s x r tm,
  name_to_text s <> [] -> is_punct x = true ->
  next_token (name_to_text s ++ x :: r) tm = TokOk (name_to_text s) (x :: r).
Proof. exact name_one_token. Qed.
Print Assumptions C05_name_one_token.

(* ... or at the end of the input. *)
Theorem C05_name_one_token_eof : forall s,
  name_to_text s <> [] -> next_token (name_to_text s) TEOF = TokOk (name_to_text s) [].
Proof. exact name_one_token_eof. Qed.
Print Assumptions C05_name_one_token_eof.

(* Write then read: any shape and depth, any names, any distances. *)
Theorem C05_roundtrip : forall o t, floats_ok o t ->
  decode o (marshal o t) TEOF = Ok [Rec (norm t)].
Proof. exact decode_marshal. Qed.
Print Assumptions C05_roundtrip.

(* [norm] is the identity unless some distance is the negative zero. *)
Theorem C05_norm_id : forall t, Forall (fun d => d <> [45; 48]) (dists t) -> norm t = t.
Proof. exact norm_id. Qed.
Print Assumptions C05_norm_id.

(* Several trees one after another, with any whitespace (or none) before,
   between and after them, are read back as the same sequence. *)
Theorem C05_roundtrip_seq : forall o ws0 l,
  ws_string ws0 -> Forall (fun p => floats_ok o (fst p) /\ ws_string (snd p)) l ->
  decode o (ws0 ++ seq_text o l) TEOF = Ok (map (fun p => Rec (norm (fst p))) l).
Proof. exact decode_seq. Qed.
Print Assumptions C05_roundtrip_seq.

(* The written form has no whitespace outside quoted names and ends with ';'. *)
Theorem C05_condensed : forall o t, floats_ok o t ->
  condensed (marshal o t) /\ last (marshal o t) 0 = 59.
Proof. exact marshal_condensed. Qed.
Print Assumptions C05_condensed.

(* The reader is total: neither panic("unexpected state") nor running out of
   fuel happens, for every input, every terminal condition and every oracle. *)
Theorem C05_no_panic : forall o s tm, decode o s tm <> Panic.
Proof. exact decode_no_panic. Qed.
Print Assumptions C05_no_panic.

(* Non-vacuity: a tree with names that need quoting (a quote, a line break, a
   space, the empty name), an exponent-format distance and a negative zero. *)
Definition C05_o : foracle :=
  {| f_parse := [(bs "1.5", bs "1.5"); (bs "1e-07", bs "1e-07")];
     f_fmt := [(bs "1.5", bs "1.5"); (bs "1e-07", bs "1e-07")] |}.
Definition C05_t : tree :=
  Node (bs "it's") (bs "1.5")
    [Node (bs "a b") (bs "0") []; Node [120; 10; 121] (bs "1e-07") []; Node [] (bs "-0") []].
Example C05_example :
  floats_ok C05_o C05_t
  /\ marshal C05_o C05_t = bs "(a_b,'x" ++ [10] ++ bs "y':1e-07,)'it''s':1.5;"
  /\ decode C05_o (marshal C05_o C05_t ++ [13; 10; 9] ++ marshal C05_o C05_t) TEOF
     = Ok [Rec (norm C05_t); Rec (norm C05_t)]
  /\ norm C05_t <> C05_t
  /\ decode C05_o (bs "a" ++ [10] ++ bs "b;") TEOF = Ok [ErrItem].
Proof.
  split; [|vm_compute; repeat split; discriminate].
  unfold floats_ok. vm_compute dists.
  repeat constructor; intros; try discriminate; vm_compute; repeat constructor; discriminate.
Qed.

(* ---- tie to the Go source by translation of whole function bodies (gen/ImpGen.v, written
   by `harness gen-imp` on every run, in the embedding of Model/GoSem.v) ------------------- *)
From Bio.gen Require ImpGen.
From Bio.Model Require GoSem.
From Bio.Proofs Require ImpProofs ImpProofsG.

(* The quoting of names: nameToText, nameFromText and quoted as translated from newick.go
   (strings.ContainsAny with its character set, the three strings.ReplaceAll calls, the
   slice s[1:len(s)-1]) are the model's functions on every string. *)
Theorem C05_name_to_text_is_source : forall s,
  ImpGen.imp_newick_nameToText s = GoSem.Ret (Bio.Model.Newick.name_to_text s).
Proof. exact ImpProofsG.imp_nameToText. Qed.
Print Assumptions C05_name_to_text_is_source.

Theorem C05_name_from_text_is_source : forall s,
  ImpGen.imp_newick_nameFromText s = GoSem.Ret (Bio.Model.Newick.name_from_text s).
Proof. exact ImpProofsG.imp_nameFromText. Qed.
Print Assumptions C05_name_from_text_is_source.

Example C05_source_example :
  ImpGen.imp_newick_nameToText (bs "a b") = GoSem.Ret (bs "a_b")
  /\ ImpGen.imp_newick_nameToText (bs "it's") = GoSem.Ret (bs "'it''s'")
  /\ ImpGen.imp_newick_nameFromText (bs "'it''s'") = GoSem.Ret (bs "it's")
  /\ ImpGen.imp_newick_nameFromText (bs "a_b") = GoSem.Ret (bs "a b").
Proof. vm_compute. repeat split. Qed.

From Bio.Proofs Require ImpProofsI.

(* The tree writer (n *Node) newick(buf) as translated from newick.go — the recursion over
   Children with '(' ',' ')', the name through nameToText, ":" and the distance unless it is
   zero — appends to the buffer exactly the model's text, for every tree, every buffer and
   every float oracle (the table standing for strconv's formatting; a distance is its
   canonical text).  The recursion runs on fuel; any fuel above the number of nodes is enough. *)
Theorem C05_writer_is_source : forall o fuel t buf, (size t < fuel)%nat ->
  ImpGen.imp_newick_Node_newick fuel o (ImpProofsI.node_of t) buf = GoSem.Ret (buf ++ newick_text o t).
Proof. exact ImpProofsI.imp_newick_write. Qed.
Print Assumptions C05_writer_is_source.

Example C05_source_writer_example :
  let o := {| f_parse := []; f_fmt := [(bs "1.5", bs "1.5")] |} in
  ImpGen.imp_newick_Node_newick 9 o
    (ImpProofsI.node_of (Node (bs "r") zeroF [Node (bs "a b") (bs "1.5") []; Node (bs "c") zeroF []])) []
  = GoSem.Ret (bs "(a_b:1.5,c)r").
Proof. vm_compute. reflexivity. Qed.

From Bio.Proofs Require ImpProofsJ ImpProofsM.

(* The tokeniser reader.nextToken as translated from newick.go (quoted strings with doubled
   quotes ended by UnreadByte, punctuation as one-byte tokens or as the end of a name, white
   space, the buffer r.b kept in the reader) answers, for every input and both terminal
   conditions, like the model's next_token: the same token and the same bytes left unread,
   io.EOF exactly at a clean end, an error exactly where the model has one. *)
Theorem C05_next_token_is_source : forall fuel s tm r0, (length s + 1 < fuel)%nat ->
  ImpProofsM.nt_agrees (ImpProofsJ.term_code tm) (next_token s tm)
    (ImpGen.imp_newickrd_reader_nextToken fuel (GoSem.Stream s (ImpProofsJ.term_code tm) None) r0).
Proof. exact ImpProofsM.imp_nextToken. Qed.
Print Assumptions C05_next_token_is_source.

Example C05_source_token_example :
  ImpGen.imp_newickrd_reader_nextToken 20 (GoSem.Stream (bs " 'a''b',x") 1%Z None) (ImpGen.Imp_newickrd_reader [])
  = GoSem.Ret (GoSem.Stream (bs ",x") 1%Z None, ImpGen.Imp_newickrd_reader (bs "'a''b'"), (bs "'a''b'", 0%Z)).
Proof. vm_compute. reflexivity. Qed.

(* MarshalText (the tree text followed by ';') and Write (that text handed to the writer in
   one call) as translated are the model's marshal and write_chunks. *)
Theorem C05_marshal_is_source : forall o fuel t, (size t < fuel)%nat ->
  ImpGen.imp_newick_Node_MarshalText fuel o (ImpProofsI.node_of t) = GoSem.Ret (marshal o t, false).
Proof. exact ImpProofsI.imp_newick_MarshalText. Qed.
Print Assumptions C05_marshal_is_source.

Theorem C05_write_is_source : forall o fuel t, (size t < fuel)%nat ->
  ImpGen.imp_newick_Node_Write fuel o (ImpProofsI.node_of t) = GoSem.Ret (write_chunks o t, false).
Proof. exact ImpProofsI.imp_newick_Write. Qed.
Print Assumptions C05_write_is_source.

(* ---- the tree reader, as translated from newick.go ------------------------------------------------------
   reader.read() builds the tree through pointers: a child is linked into its parent's Children
   the moment it is created and is then filled in through the stack of *Node.  gen-imp translates
   it with a *Node as an address into a heap of Node records (Name, Distance, Children as
   addresses); [ImpProofsR.holds h bound a t] says that the heap h holds the tree t at address a
   (inside [a, bound)).  For every heap, every input, both terminal conditions and every float
   oracle the translated read() answers like the model's read_tree: on success the address of a
   node that holds the model's tree and the model's unread rest, io.EOF (1) exactly when no token
   was read, another error (2, or 3 for io.ErrUnexpectedEOF) exactly where the model has one;
   the heap below its old length is never written. *)
From Bio.Proofs Require ImpProofsR.

Theorem C05_read_is_source : forall o tm fuel h s last r0, (length s + 2 < fuel)%nat ->
  ImpProofsR.rd_agrees tm (GoSem.go_len h) h (read_tree o s tm)
    (ImpGen.imp_newickrd_reader_read fuel o h (GoSem.Stream s (ImpProofsJ.term_code tm) last) r0).
Proof. exact ImpProofsR.imp_read_ok. Qed.
Print Assumptions C05_read_is_source.

(* what [rd_agrees] says, spelled out for the successful case *)
Theorem C05_read_is_source_ok : forall o tm fuel h s last r0 t rest, (length s + 2 < fuel)%nat ->
  read_tree o s tm = ROk t rest ->
  exists last' rbuf h' a,
    ImpGen.imp_newickrd_reader_read fuel o h (GoSem.Stream s (ImpProofsJ.term_code tm) last) r0
    = GoSem.Ret (GoSem.Stream rest (ImpProofsJ.term_code tm) last', rbuf, (h', (a, 0%Z))) /\
    ImpProofsR.holds h' (GoSem.go_len h') a t /\ ImpProofsR.keeps (GoSem.go_len h) h h'.
Proof.
  intros o tm fuel h s last r0 t rest Hf Hr.
  pose proof (ImpProofsR.imp_read_ok o tm fuel h s last r0 Hf) as H. rewrite Hr in H.
  destruct H as (l & rb & h' & a & E & Hh & Hk & _). exists l, rb, h', a. auto.
Qed.
Print Assumptions C05_read_is_source_ok.

(* Reader (read() until io.EOF, every tree on the one growing heap): the items are the model's
   decode — for each tree of the model an address that holds it in the final heap (the trees
   read earlier are still intact: nothing below the heap's length at the time is written later),
   for the model's error item a nil pointer with a non-EOF error. *)
Theorem C05_reader_is_source : forall o tm fuel h s, (length s + 2 < fuel)%nat ->
  match decode o s tm with
  | Ok items => exists st h' out,
      ImpGen.imp_newickrd_Reader fuel o h (GoSem.Stream s (ImpProofsJ.term_code tm) None) = GoSem.Ret (st, (h', out)) /\
      Forall2 (ImpProofsR.item_holds h') items out /\ ImpProofsR.keeps (GoSem.go_len h) h h'
  | _ => True
  end.
Proof. exact ImpProofsR.imp_newick_Reader_ok. Qed.
Print Assumptions C05_reader_is_source.

(* Write, then read, both as translated: MarshalText of any tree (floats covered by the oracle),
   surrounded by any white space before and anything after, read by the translated reader, leaves
   a heap that holds the same tree (up to the sign of a zero distance, [norm]) and the rest. *)
Theorem C05_roundtrip_is_source : forall o tm t ws rest fuel fuel2 h last r0,
  ws_string ws -> floats_ok o t -> (size t < fuel)%nat ->
  (length (ws ++ marshal o t ++ rest) + 2 < fuel2)%nat ->
  exists text, ImpGen.imp_newick_Node_MarshalText fuel o (ImpProofsI.node_of t) = GoSem.Ret (text, false) /\
  exists last' rbuf h' a,
    ImpGen.imp_newickrd_reader_read fuel2 o h (GoSem.Stream (ws ++ text ++ rest) (ImpProofsJ.term_code tm) last) r0
    = GoSem.Ret (GoSem.Stream rest (ImpProofsJ.term_code tm) last', rbuf, (h', (a, 0%Z))) /\
    ImpProofsR.holds h' (GoSem.go_len h') a (norm t) /\ ImpProofsR.keeps (GoSem.go_len h) h h'.
Proof. exact ImpProofsR.imp_newick_roundtrip. Qed.
Print Assumptions C05_roundtrip_is_source.

Example C05_source_read_example :
  let o := {| f_parse := [(bs "1.5", bs "1.5")]; f_fmt := [] |} in
  ImpGen.imp_newickrd_reader_read 40 o [] (GoSem.Stream (bs "(a:1.5,'b c')r; x") 1%Z None) (ImpGen.Imp_newickrd_reader [])
  = GoSem.Ret (GoSem.Stream (bs " x") 1%Z (Some 59%N), ImpGen.Imp_newickrd_reader [],
               ([ImpGen.Imp_newickrd_Node (bs "r") [48%N] [1%Z; 2%Z];
                 ImpGen.Imp_newickrd_Node (bs "a") (bs "1.5") [];
                 ImpGen.Imp_newickrd_Node (bs "b c") [48%N] []], (0%Z, 0%Z)))
  /\ ImpProofsR.holds [ImpGen.Imp_newickrd_Node (bs "r") [48%N] [1%Z; 2%Z];
                       ImpGen.Imp_newickrd_Node (bs "a") (bs "1.5") [];
                       ImpGen.Imp_newickrd_Node (bs "b c") [48%N] []] 3 0
       (Node (bs "r") [48%N] [Node (bs "a") (bs "1.5") []; Node (bs "b c") [48%N] []]).
Proof. split; [vm_compute; reflexivity|]. cbn. repeat split; try lia; eexists; (split; [reflexivity|]); repeat split; try lia; eexists; split; reflexivity || exact I. Qed.
