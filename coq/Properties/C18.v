(* Properties/C18.v — Every iterator can be stopped early, cleanly, at any point.
   Only statements; every proof is [exact <lemma>] (Proofs/TotalProofs.v, built on
   the generic Proofs/IterProofs.v).

   Model/Iter.v: a Go range-over-func iterator in continuation-passing style; the
   run-time check of `for x := range it` ("range function continued iteration
   after function for loop body returned false") is the status [PanicAfterStop]
   of [range_loop].  Model/Iterators.v: the 18 iterators of the library, each
   written as the composition the Go source has (iter_loop / guarded loop /
   `range` wrapper with a guarded yield / the header-dropping wrapper of
   sam.Reader / File = open + wrapper).
   [run_until it p] is the consumer of the property:
       n := 0; for x := range it { seen = append(seen, x); n++; if n == p { break } }
   (p = 0: never stops).  [taken p items] = all items for p = 0, else the first p.
   Each theorem says, for EVERY input and EVERY stop position p (also p beyond
   the end, also exactly on an error item): the status is [Done] — no callback
   after the stop, no panic — and what was seen is exactly the leading p items of
   the uninterrupted run, which is named on the right-hand side by the format's
   codec model (so "uninterrupted run" is the p = 0 instance of the same theorem).
   For a File iterator [opened = false] is a path that aio.Open rejects: the
   iteration is the single error item. *)
From Coq Require Import String.
From Bio Require Import Base.
From Bio.Model Require Import Iter Iterators.
From Bio.Model Require Fasta Fastq Sam Bed Newick Trie Seq.
From Bio.Spec Require NewickSpec TrieSpec.
From Bio.Proofs Require Import IterProofs TotalProofs.

(* ---- fasta: reader.iter(), Reader, File -------------------------------------------------- *)
Theorem C18_fasta_iter_stop_safe : forall p w t,
  run_until (fasta_iter w t) p = (taken p (Fasta.decode w t), Done).
Proof. exact fasta_iter_stop. Qed.
Print Assumptions C18_fasta_iter_stop_safe.

Theorem C18_fasta_reader_stop_safe : forall p w t,
  run_until (fasta_reader w t) p = (taken p (Fasta.decode w t), Done).
Proof. exact fasta_reader_stop. Qed.
Print Assumptions C18_fasta_reader_stop_safe.

Theorem C18_fasta_file_stop_safe : forall p opened w t,
  run_until (fasta_file opened w t) p
  = (taken p (if opened then Fasta.decode w t else [ErrItem]), Done).
Proof. exact fasta_file_stop. Qed.
Print Assumptions C18_fasta_file_stop_safe.

(* ---- fastq --------------------------------------------------------------------------------- *)
Theorem C18_fastq_iter_stop_safe : forall p w t,
  run_until (fastq_iter w t) p = (taken p (Fastq.decode w t), Done).
Proof. exact fastq_iter_stop. Qed.
Print Assumptions C18_fastq_iter_stop_safe.

Theorem C18_fastq_reader_stop_safe : forall p w t,
  run_until (fastq_reader w t) p = (taken p (Fastq.decode w t), Done).
Proof. exact fastq_reader_stop. Qed.
Print Assumptions C18_fastq_reader_stop_safe.

Theorem C18_fastq_file_stop_safe : forall p opened w t,
  run_until (fastq_file opened w t) p
  = (taken p (if opened then Fastq.decode w t else [ErrItem]), Done).
Proof. exact fastq_file_stop. Qed.
Print Assumptions C18_fastq_file_stop_safe.

(* ---- bed ------------------------------------------------------------------------------------ *)
Theorem C18_bed_reader_stop_safe : forall p w t,
  run_until (bed_reader w t) p = (taken p (Bed.decode w t), Done).
Proof. exact bed_reader_stop. Qed.
Print Assumptions C18_bed_reader_stop_safe.

Theorem C18_bed_file_stop_safe : forall p opened w t,
  run_until (bed_file opened w t) p
  = (taken p (if opened then Bed.decode w t else [ErrItem]), Done).
Proof. exact bed_file_stop. Qed.
Print Assumptions C18_bed_file_stop_safe.

(* ---- newick Reader / File (the reader model has a Panic outcome: it is excluded here) ------- *)
Theorem C18_newick_reader_stop_safe : forall p o w t,
  exists items, Newick.decode o w t = Ok items /\
    run_until (newick_reader o w t) p = (taken p items, Done).
Proof. exact newick_reader_stop. Qed.
Print Assumptions C18_newick_reader_stop_safe.

Theorem C18_newick_file_stop_safe : forall p opened o w t,
  exists items, Newick.decode o w t = Ok items /\
    run_until (newick_file opened o w t) p
    = (taken p (if opened then items else [ErrItem]), Done).
Proof. exact newick_file_stop. Qed.
Print Assumptions C18_newick_file_stop_safe.

(* ---- sam: ReaderHeader goes on after a malformed line, so errors may be anywhere;
        Reader passes errors on and drops headers ---------------------------------------------- *)
Theorem C18_sam_reader_header_stop_safe : forall p o w t,
  run_until (sam_reader_header o w t) p = (taken p (Sam.reader_header o w t), Done).
Proof. exact sam_reader_header_stop. Qed.
Print Assumptions C18_sam_reader_header_stop_safe.

Theorem C18_sam_reader_stop_safe : forall p o w t,
  run_until (sam_reader o w t) p = (taken p (Sam.reader o w t), Done).
Proof. exact sam_reader_stop. Qed.
Print Assumptions C18_sam_reader_stop_safe.

Theorem C18_sam_file_stop_safe : forall p opened o w t,
  run_until (sam_file opened o w t) p
  = (taken p (if opened then Sam.reader o w t else [ErrItem]), Done).
Proof. exact sam_file_stop. Qed.
Print Assumptions C18_sam_file_stop_safe.

Theorem C18_sam_file_header_stop_safe : forall p opened o w t,
  run_until (sam_file_header opened o w t) p
  = (taken p (if opened then Sam.reader_header o w t else [ErrItem]), Done).
Proof. exact sam_file_header_stop. Qed.
Print Assumptions C18_sam_file_header_stop_safe.

(* ---- tree traversals: the leading nodes of the classic recursive orders (C19) ---------------- *)
Theorem C18_pre_order_stop_safe : forall p tr,
  run_until (pre_order tr) p = (taken p (NewickSpec.preorder tr), Done).
Proof. exact pre_order_stop. Qed.
Print Assumptions C18_pre_order_stop_safe.

Theorem C18_post_order_stop_safe : forall p tr,
  run_until (post_order tr) p = (taken p (NewickSpec.postorder tr), Done).
Proof. exact post_order_stop. Qed.
Print Assumptions C18_post_order_stop_safe.

(* ---- trie.ForEach: leading items of the report, hence members, and distinct for a
        well-formed trie; the stack loop with the stopping callback built in
        (Trie.for_each_until of C15) sees exactly what the generic consumer sees --------------- *)
Theorem C18_for_each_stop_safe : forall p tr,
  run_until (for_each tr) p = (taken p (TrieSpec.members tr), Done)
  /\ incl (taken p (TrieSpec.members tr)) (TrieSpec.members tr)
  /\ (TrieSpec.wf tr -> NoDup (taken p (TrieSpec.members tr)))
  /\ (p <> 0%nat -> Trie.for_each_until p tr = Ok (fst (run_until (for_each tr) p))).
Proof. exact for_each_stop. Qed.
Print Assumptions C18_for_each_stop_safe.

(* ---- CanonicalSubsequences: wherever it does not panic (valid DNA and k >= 0, C12) ----------- *)
Theorem C18_canonical_subsequences_stop_safe : forall p s k items, Seq.canon s k = Ok items ->
  run_until (canonical_subsequences s k) p = (taken p items, Done).
Proof. exact canonical_stop. Qed.
Print Assumptions C18_canonical_subsequences_stop_safe.

(* ---- an error item is the last item (FASTA, FASTQ, BED, Newick), for every input ------------- *)
Theorem C18_error_is_last_fasta : forall w t, error_last (Fasta.decode w t).
Proof. exact fasta_error_last. Qed.
Print Assumptions C18_error_is_last_fasta.

Theorem C18_error_is_last_fastq : forall w t, error_last (Fastq.decode w t).
Proof. exact fastq_error_last. Qed.
Print Assumptions C18_error_is_last_fastq.

Theorem C18_error_is_last_bed : forall w t, error_last (Bed.decode w t).
Proof. exact bed_error_last. Qed.
Print Assumptions C18_error_is_last_bed.

Theorem C18_error_is_last_newick : forall o w t,
  exists items, Newick.decode o w t = Ok items /\ error_last items.
Proof. exact newick_decode_ok. Qed.
Print Assumptions C18_error_is_last_newick.

(* [error_last] unfolded: nothing follows an error item *)
Theorem C18_error_last_meaning : forall A (items : list (item A)),
  error_last items <-> forall pre post, items = pre ++ ErrItem :: post -> post = [].
Proof. exact @error_last_spec. Qed.
Print Assumptions C18_error_last_meaning.

(* ---- non-vacuity ------------------------------------------------------------------------------
   The model can fail: the same FASTA Reader with its range body written
   `yield(fa, err)` instead of `if !yield(fa, err) { break }` is caught at stop
   position 1 of a two-record file (status PanicAfterStop), while the real
   composition stops cleanly; stopping the broken one on the last item shows
   nothing, which is why every position is quantified. *)
Example C18_broken_adapter_is_caught :
  run_until (fasta_reader_broken ex_fasta_text TEOF) 1
    = ([Rec {| Fasta.name := [97]; Fasta.seq := [65] |}], PanicAfterStop)
  /\ run_until (fasta_reader ex_fasta_text TEOF) 1
    = ([Rec {| Fasta.name := [97]; Fasta.seq := [65] |}], Done)
  /\ run_until (fasta_reader_broken ex_fasta_text TEOF) 2
    = ([Rec {| Fasta.name := [97]; Fasta.seq := [65] |}; Rec {| Fasta.name := [98]; Fasta.seq := [67] |}], Done).
Proof. exact broken_adapter_caught. Qed.

(* stopping a SAM ReaderHeader exactly on the error of a malformed middle line, and a File
   on a missing path *)
Definition C18_no_floats : foracle := {| f_parse := []; f_fmt := [] |}.
Example C18_sam_stop_on_error :
  run_until (sam_reader_header C18_no_floats (bs "@h" ++ [LF] ++ bs "bad" ++ [LF] ++ bs "@k" ++ [LF]) TEOF) 2
    = ([Rec (Sam.Hdr (bs "@h")); ErrItem], Done)
  /\ run_until (sam_reader_header C18_no_floats (bs "@h" ++ [LF] ++ bs "bad" ++ [LF] ++ bs "@k" ++ [LF]) TEOF) 0
    = ([Rec (Sam.Hdr (bs "@h")); ErrItem; Rec (Sam.Hdr (bs "@k"))], Done)
  /\ run_until (sam_file false C18_no_floats [] TEOF) 1 = ([ErrItem], Done).
Proof. vm_compute. repeat split. Qed.

(* ---- tie to the Go source by translation (gen/SrcGen.v, regenerated on every run) ---- *)
From Bio.gen Require SrcGen.
From Bio.Proofs Require SrcGenProofs.

(* In the Go source of every iterator, each call of the consumer's callback is either
   guarded (`if !yield(x) { return }`) or directly followed by return/break: the
   assumption under which Model/Iterators.v composes the adapters. The list is read off
   the source on every run. *)
Theorem C18_source_yields_guarded :
  forallb (fun p => forallb (fun k => (k <? 2)%N) (snd p)) SrcGen.iter_yields = true.
Proof. exact SrcGenProofs.iter_yields_guarded. Qed.
Print Assumptions C18_source_yields_guarded.

Theorem C18_source_iterators_are_the_modelled_ones :
  map fst SrcGen.iter_yields =
  [ "fasta.reader.iter#0"; "fasta.File#0"; "fasta.Reader#0";
    "fastq.reader.iter#0"; "fastq.File#0"; "fastq.Reader#0";
    "sam.ReaderHeader#0"; "sam.Reader#0"; "sam.File#0"; "sam.FileHeader#0";
    "bed.Reader#0"; "bed.File#0"; "newick.Reader#0"; "newick.File#0";
    "newick.Node.traverse#0"; "trie.Trie.ForEach#0"; "sequtil.CanonicalSubsequences#0" ]%string.
Proof. exact SrcGenProofs.iter_yields_names. Qed.
Print Assumptions C18_source_iterators_are_the_modelled_ones.

(* ---- stopping the iterators as translated from the source ----------------------------------------------
   gen-imp emits every iterator twice: for a consumer that never stops (the ..._is_source theorems
   of C01-C05, C12) and, as <name>_stop, for a consumer that declines after stop__ items (0: never):
   yield(x) appends x to the items and returns negb (length items =? stop__).  An iterator that went
   on after a declined yield would append a further item, and one that dropped or reordered items
   would show it.  For every input, every terminal condition and EVERY stopping position the items
   are exactly the first stop__ items of the uninterrupted run ([take_stop]): no callback after the
   consumer has declined, no panic (the result is a Ret), the leading items unchanged — also when the
   item declined is an error item.  (The nested adapters — Reader over ReaderHeader / iter() — take the
   inner iterator's items and stop their own loop; that the inner one stops is its own theorem.) *)
From Bio.gen Require ImpGen.
From Bio.Model Require GoSem.
From Bio.Proofs Require ImpProofs ImpProofsI ImpProofsJ ImpProofsK ImpProofsL ImpProofsQ ImpProofsP ImpProofsR ImpProofsU ImpProofsW ImpProofsY ImpProofsZ.

Theorem C18_canonical_stop_is_source : forall p s k, ImpProofs.all_bytes s ->
  ImpGen.imp_sequtil_CanonicalSubsequences_stop p s k
  = match Seq.canon s k with Ok items => GoSem.Ret (ImpProofsU.take_stop p items) | _ => GoSem.Panics end.
Proof. exact ImpProofsU.imp_CanonicalSubsequences_stop. Qed.
Print Assumptions C18_canonical_stop_is_source.

Theorem C18_fasta_stop_is_source : forall p t fuel inp, (length inp + 2 < fuel)%nat ->
  (exists st, ImpGen.imp_fastard_reader_iter_stop p fuel (GoSem.Stream inp (ImpProofsJ.term_code t) None)
              = GoSem.Ret (st, ImpProofsU.take_stop p (map (ImpProofsJ.fa_item t) (Fasta.decode inp t))))
  /\ ImpGen.imp_fastard_Reader_stop p fuel (GoSem.Stream inp (ImpProofsJ.term_code t) None)
     = GoSem.Ret (GoSem.Stream [] (ImpProofsJ.term_code t) None,
                  ImpProofsU.take_stop p (map (ImpProofsJ.fa_item t) (Fasta.decode inp t))).
Proof.
  intros p t fuel inp H. split; [apply ImpProofsU.imp_fasta_iter_stop_ok | apply ImpProofsU.imp_fasta_Reader_stop_ok]; exact H.
Qed.
Print Assumptions C18_fasta_stop_is_source.

Theorem C18_fastq_stop_is_source : forall p t fuel cur (toks : list bytes), (length toks + 1 < fuel)%nat ->
  (exists s' out, ImpGen.imp_fastqrd_reader_iter_stop p fuel (GoSem.Scanner cur toks (ImpProofsK.scan_code t) false)
                  = GoSem.Ret (s', ImpProofsU.take_stop p out)
                  /\ Forall2 ImpProofsK.fq_item_ok (Fastq.decode_toks t toks) out)
  /\ (exists s' out, ImpGen.imp_fastqrd_Reader_stop p fuel (GoSem.Scanner cur toks (ImpProofsK.scan_code t) false)
                     = GoSem.Ret (s', ImpProofsU.take_stop p out)
                     /\ Forall2 ImpProofsK.fq_item_ok (Fastq.decode_toks t toks) out).
Proof.
  intros p t fuel cur toks H. split; [apply ImpProofsU.imp_fastq_iter_stop_ok | apply ImpProofsU.imp_fastq_Reader_stop_ok]; exact H.
Qed.
Print Assumptions C18_fastq_stop_is_source.

Theorem C18_sam_stop_is_source : forall p o t fuel s, (length s + 1 < fuel)%nat ->
  (exists st, ImpGen.imp_samrd_ReaderHeader_stop p fuel o (GoSem.Stream s (ImpProofsJ.term_code t) None)
              = GoSem.Ret (st, ImpProofsU.take_stop p (map ImpProofsQ.sh_item (Sam.reader_header o s t))))
  /\ (exists st, ImpGen.imp_samrd_Reader_stop p fuel o (GoSem.Stream s (ImpProofsJ.term_code t) None)
                 = GoSem.Ret (st, ImpProofsU.take_stop p (map ImpProofsQ.sr_item (Sam.reader o s t)))).
Proof.
  intros p o t fuel s H. split; [apply ImpProofsU.imp_sam_ReaderHeader_stop_ok | apply ImpProofsU.imp_sam_Reader_stop_ok]; exact H.
Qed.
Print Assumptions C18_sam_stop_is_source.

Theorem C18_bed_stop_is_source : forall p t fuel s, (length s + 2 < fuel)%nat ->
  exists st, ImpGen.imp_bed_Reader_stop p fuel (GoSem.Stream s (ImpProofsJ.term_code t) None)
             = GoSem.Ret (st, ImpProofsU.take_stop p (map ImpProofsL.bed_item (Bed.decode s t))).
Proof. exact ImpProofsU.imp_bed_Reader_stop_ok. Qed.
Print Assumptions C18_bed_stop_is_source.

Theorem C18_newick_stop_is_source : forall p o tm fuel h s, (length s + 2 < fuel)%nat ->
  match Newick.decode o s tm with
  | Ok items => exists st h' out,
      ImpGen.imp_newickrd_Reader_stop p fuel o h (GoSem.Stream s (ImpProofsJ.term_code tm) None) = GoSem.Ret (st, (h', out)) /\
      Forall2 (ImpProofsR.item_holds h') (ImpProofsU.take_stop p items) out /\ ImpProofsR.keeps (GoSem.go_len h) h h'
  | _ => True
  end.
Proof. exact ImpProofsU.imp_newick_Reader_stop_ok. Qed.
Print Assumptions C18_newick_stop_is_source.

(* PreOrder / PostOrder (Node.traverse with its explicit stack of steps): whenever the model's
   traversal returns, the translated one, stopped after p nodes, has yielded exactly the first p. *)
Theorem C18_traverse_stop_is_source : forall p fuel pre t l, (2 * Newick.size t + 2 < fuel)%nat ->
  Newick.traverse pre t = Ok l ->
  ImpGen.imp_newick_Node_traverse_stop p fuel (ImpProofsI.node_of t) pre
  = GoSem.Ret (ImpProofsU.take_stop p (map ImpProofsI.nd l)).
Proof. exact ImpProofsU.imp_traverse_stop_ok. Qed.
Print Assumptions C18_traverse_stop_is_source.

Theorem C18_pre_post_order_stop_is_source : forall p fuel t, (2 * Newick.size t + 2 < fuel)%nat ->
  ImpGen.imp_newick_Node_PreOrder_stop p fuel (ImpProofsI.node_of t)
  = GoSem.Ret (ImpProofsU.take_stop p (map ImpProofsI.nd (NewickSpec.preorder t)))
  /\ ImpGen.imp_newick_Node_PostOrder_stop p fuel (ImpProofsI.node_of t)
     = GoSem.Ret (ImpProofsU.take_stop p (map ImpProofsI.nd (NewickSpec.postorder t))).
Proof. exact ImpProofsW.pre_post_order_stop_src. Qed.
Print Assumptions C18_pre_post_order_stop_is_source.

(* trie ForEach (a push iterator: the callback is a parameter): stopped after p reports it has
   reported exactly what the model's for_each_until p reports (C18_for_each_stop: the first p of
   the full run). *)
Theorem C18_for_each_stop_is_source : forall p fuel h x r,
  ImpProofsP.models h x -> TrieSpec.wf (ImpProofsP.erase x) ->
  Trie.for_each_until p (ImpProofsP.erase x) = Ok r -> (2 * Trie.size (ImpProofsP.erase x) < fuel)%nat ->
  ImpGen.imp_trie_Trie_ForEach_stop p fuel h (ImpProofsP.addr x) = GoSem.Ret (h, r).
Proof. exact ImpProofsY.imp_ForEach_stop_ok. Qed.
Print Assumptions C18_for_each_stop_is_source.

(* the File adapters: stopped after p items, the first p items of Reader on the file's content *)
Theorem C18_file_stop_is_source : forall p fuel file,
  (forall inp t, (length inp + 2 < fuel)%nat ->
     ImpGen.imp_fastard_File_stop p fuel (Some (GoSem.Stream inp (ImpProofsJ.term_code t) None)) file
     = GoSem.Ret (GoSem.Stream [] (ImpProofsJ.term_code t) None,
                  ImpProofsU.take_stop p (map (ImpProofsJ.fa_item t) (Fasta.decode inp t))))
  /\ (forall cur (toks : list bytes) t, (length toks + 1 < fuel)%nat ->
     exists s' out, ImpGen.imp_fastqrd_File_stop p fuel (Some (GoSem.Scanner cur toks (ImpProofsK.scan_code t) false)) file
                    = GoSem.Ret (s', ImpProofsU.take_stop p out)
                    /\ Forall2 ImpProofsK.fq_item_ok (Fastq.decode_toks t toks) out)
  /\ (forall s t, (length s + 2 < fuel)%nat ->
     exists st, ImpGen.imp_bed_File_stop p fuel (Some (GoSem.Stream s (ImpProofsJ.term_code t) None)) file
                = GoSem.Ret (st, ImpProofsU.take_stop p (map ImpProofsL.bed_item (Bed.decode s t))))
  /\ (forall o s t, (length s + 1 < fuel)%nat ->
     (exists st, ImpGen.imp_samrd_File_stop p fuel o (Some (GoSem.Stream s (ImpProofsJ.term_code t) None)) file
                 = GoSem.Ret (st, ImpProofsU.take_stop p (map ImpProofsQ.sr_item (Sam.reader o s t)))) /\
     (exists st, ImpGen.imp_samrd_FileHeader_stop p fuel o (Some (GoSem.Stream s (ImpProofsJ.term_code t) None)) file
                 = GoSem.Ret (st, ImpProofsU.take_stop p (map ImpProofsQ.sh_item (Sam.reader_header o s t)))))
  /\ (forall o tm h s, (length s + 2 < fuel)%nat ->
     match Newick.decode o s tm with
     | Ok items => exists st h' out,
         ImpGen.imp_newickrd_File_stop p fuel o h (Some (GoSem.Stream s (ImpProofsJ.term_code tm) None)) file
         = GoSem.Ret (st, (h', ImpProofsU.take_stop p out)) /\
         Forall2 (ImpProofsR.item_holds h') items out /\ ImpProofsR.keeps (GoSem.go_len h) h h'
     | _ => True
     end).
Proof.
  intros p fuel file. split; [intros inp t H; apply (ImpProofsZ.imp_fasta_File_stop p fuel file inp t H)|].
  split; [intros cur toks t H; apply ImpProofsZ.imp_fastq_File_stop; exact H|].
  split; [intros s t H; apply ImpProofsZ.imp_bed_File_stop; exact H|].
  split; [intros o s t H; apply ImpProofsZ.imp_sam_File_stop; exact H|].
  intros o tm h s H. apply ImpProofsZ.imp_newick_File_stop. exact H.
Qed.
Print Assumptions C18_file_stop_is_source.

Example C18_source_stop_example :
  ImpGen.imp_sequtil_CanonicalSubsequences_stop 2 (bs "ACGTT") 2 = GoSem.Ret [bs "AC"; bs "CG"]
  /\ ImpGen.imp_sequtil_CanonicalSubsequences_stop 0 (bs "ACGTT") 2 = GoSem.Ret [bs "AC"; bs "CG"; bs "AC"; bs "AA"]
  /\ ImpGen.imp_bed_Reader_stop 1 100 (GoSem.Stream (bs "c" ++ [9] ++ bs "1" ++ [9] ++ bs "2" ++ [10] ++ bs "c" ++ [9] ++ bs "x")%N 1%Z None)
     = GoSem.Ret (GoSem.Stream (bs "c" ++ [9] ++ bs "x")%N 1%Z None,
                  [(ImpGen.Imp_bed_BED 3 (bs "c") 1 2 [] 0 [] 0 0 [0; 0; 0]%N 0 [] [], 0%Z)]).
Proof. vm_compute. repeat split. Qed.
