(* Properties/C18.v — property theorems only. (stub) *)
From Bio Require Import Base.
