(* Properties/C10.v — With a non-zero gap-open cost Global and Local still return
   the optimal score: REFUTED on the faithful model (known finding D7).
   The single (score, step) per cell recurrence of align/global.go:36-47 and
   align/local.go:47-57 decides the gap-open charge from the step stored in the
   predecessor cell only, so it is not the affine optimum.  The full statement stays
   here as a Definition; below it the two refutations (witnesses evaluated by
   vm_compute on the model; the check replays them on the implementation), and what
   does hold. *)
From Coq Require Import String.
From Bio Require Import Base.
From Bio.Model Require Import Align.
From Bio.Spec Require Import AlignSpec.
From Bio.Proofs Require Import AlignProofs AlignProofsB AlignProofsC.
Open Scope Z_scope.

(* The property as stated: for every matrix with gap-open <> 0 and non-positive gap
   scores, no alignment of a and b scores above Global's answer and no alignment of
   a pair of substrings scores above Local's answer. *)
Definition C10_statement : Prop :=
  forall m a b o, covers m a b -> nonpos_gaps m a b -> gap_open m = Ok o -> o <> 0 ->
    (exists gs, global_score m a b = Ok gs /\
       forall al s, consumes al = (length a, length b) -> score m a b al = Ok s -> s <= gs)
    /\ (exists ls, local_score m a b = Ok ls /\
       forall i j al s, score m (skipn i a) (skipn j b) al = Ok s -> s <= ls).

(* Global("a", "aaab"), match 1, mismatch -1, gap -1, gap-open -2 returns -6
   (III M); the alignment M III scores -4. *)
Theorem C10_global_affine_refuted :
  exists m a b o, covers m a b /\ nonpos_gaps m a b /\ gap_open m = Ok o /\ o <> 0
    /\ exists al s gs, consumes al = (length a, length b) /\ score m a b al = Ok s
         /\ global_score m a b = Ok gs /\ gs < s.
Proof. exact global_affine_refuted. Qed.
Print Assumptions C10_global_affine_refuted.

(* Local("ababba", "aaaa"), match 2, mismatch 0, gap 0, gap-open -1 returns 4;
   the alignment MMM DD M of the whole of a with b[0..4) scores 5. *)
Theorem C10_local_affine_refuted :
  exists m a b o, covers m a b /\ nonpos_gaps m a b /\ gap_open m = Ok o /\ o <> 0
    /\ exists i j al s ls, score m (skipn i a) (skipn j b) al = Ok s
         /\ local_score m a b = Ok ls /\ ls < s.
Proof. exact local_affine_refuted. Qed.
Print Assumptions C10_local_affine_refuted.

Theorem C10_statement_refuted : ~ C10_statement.
Proof. exact affine_optimal_statement_false. Qed.
Print Assumptions C10_statement_refuted.

(* What does hold (partial): with gap-open <= 0, the score of Global (Local) is at
   least the score of every alignment (of every pair of substrings) under LINEAR gap
   costs (gap-open charged on every gap step); by C08_global_valid / C08_local_valid
   it is at most the affine optimum, being the score of a real alignment.  Missing
   with respect to C10_statement: equality with the affine optimum, which is false. *)
Theorem C10_global_affine_lower_partial : forall m a b o, covers m a b -> gap_open m = Ok o -> o <= 0 ->
  exists gs, global_score m a b = Ok gs /\
    forall al s, consumes al = (length a, length b) -> score_linear m a b al = Ok s -> s <= gs.
Proof. exact global_affine_lower. Qed.
Print Assumptions C10_global_affine_lower_partial.

Theorem C10_local_affine_lower_partial : forall m a b o, covers m a b -> gap_open m = Ok o -> o <= 0 ->
  exists ls, local_score m a b = Ok ls /\
    forall i j al s, score_linear m (skipn i a) (skipn j b) al = Ok s -> s <= ls.
Proof. exact local_affine_lower. Qed.
Print Assumptions C10_local_affine_lower_partial.

(* The witnesses, concretely (these are the corpus cases of corpus/C10.txt). *)
Example C10_example_witnesses :
  global d7_global_m (bs "a") (bs "aaab") = Ok ([SIns; SIns; SIns; SMatch], -6)
  /\ score d7_global_m (bs "a") (bs "aaab") [SMatch; SIns; SIns; SIns] = Ok (-4)
  /\ score_linear d7_global_m (bs "a") (bs "aaab") [SMatch; SIns; SIns; SIns] = Ok (-8)
  /\ local d7_local_m (bs "ababba") (bs "aaaa") = Ok ([SMatch; SMatch; SMatch], 0, 0, 4)
  /\ score d7_local_m (bs "ababba") (bs "aaaa") [SMatch; SMatch; SMatch; SDel; SDel; SMatch] = Ok 5.
Proof. vm_compute. repeat split; reflexivity. Qed.

(* ---- tie to the Go source by translation (gen/SrcGen.v, regenerated on every run) ---- *)
From Bio.gen Require SrcGen.
From Bio.Proofs Require SrcGenProofs.

(* decideOnStep of the model is, for all arguments, the function translated from
   align/global.go; the step and gap constants are those of align/align.go. *)
Theorem C10_decide_is_source : forall mch del ins,
  let c := Bio.Model.Align.decide mch del ins in
  let b := SrcGen.src_align_decideOnStep mch del ins in
  fst c = SrcGen.src_align_block_score b /\ Bio.Model.Align.step_code (snd c) = SrcGen.src_align_block_step b.
Proof. exact SrcGenProofs.decide_is_source. Qed.
Print Assumptions C10_decide_is_source.

Theorem C10_step_constants_are_source :
  Bio.Model.Align.step_code Bio.Model.Align.SMatch = SrcGen.k_align_Match
  /\ Bio.Model.Align.step_code Bio.Model.Align.SDel = SrcGen.k_align_Deletion
  /\ Bio.Model.Align.step_code Bio.Model.Align.SIns = SrcGen.k_align_Insertion
  /\ Z.of_N Bio.Model.Align.Gap = SrcGen.k_align_Gap.
Proof. exact SrcGenProofs.step_constants. Qed.
Print Assumptions C10_step_constants_are_source.

(* ---- tie to the Go source by translation of whole function bodies (gen/ImpGen.v, written
   by `harness gen-imp` on every run, in the embedding of Model/GoSem.v) ------------------- *)
From Bio.gen Require ImpGen.
From Bio.Model Require GoSem.
From Bio.Proofs Require ImpProofs ImpProofsD ImpProofsE.

(* Global as translated from global.go (the flat DP loop over blocks, decideOnStep, the
   traceback loop and the in-place reversal of the steps, m.Get on every read) returns, for
   every matrix that answers the pairs the two sequences need and for every a and b, exactly
   the steps and the score of the model's Global, whenever the model returns (which
   C10_global_total-style theorems above establish under the same hypothesis).  The fuel is
   for the two `for cond {}` loops of traceAlignmentSteps.  Not covered by this statement:
   the panic side (a matrix that lacks a needed pair), which stays with the correspondence
   runs. *)
Theorem C10_global_is_source : forall fuel m a b steps s, covers m a b ->
  (S (length a) * S (length b) < fuel)%nat ->
  global m a b = Ok (steps, s) ->
  ImpGen.imp_align_Global fuel a b m = GoSem.Ret (map ImpProofsD.step_n steps, s).
Proof. exact ImpProofsE.imp_Global_ok. Qed.
Print Assumptions C10_global_is_source.

From Bio.Proofs Require ImpProofsF.

(* The same for Local (local.go: the DP loop with the clamp at zero, argmax,
   traceAlignmentStepsLocal with its break, the start offsets i/bn-1 and i%bn-1). *)
Theorem C10_local_is_source : forall fuel m a b steps ai bi s, covers m a b ->
  (S (length a) * S (length b) < fuel)%nat ->
  local m a b = Ok (steps, ai, bi, s) ->
  ImpGen.imp_align_Local fuel a b m = GoSem.Ret (map ImpProofsD.step_n steps, ai, bi, s).
Proof. exact ImpProofsF.imp_Local_ok. Qed.
Print Assumptions C10_local_is_source.

(* ---- the finding, on the translated source ----------------------------------------------------------------
   The two witnesses of D7 run through Global and Local as translated from align/global.go and
   align/local.go on this run: the translated functions themselves return the sub-optimal scores
   (-6 where an alignment scoring -4 exists; 4 where one scoring 5 exists). *)
From Bio.Proofs Require ImpProofsD.
Example C10_global_refuted_on_source :
  ImpGen.imp_align_Global 20 d7_global_a d7_global_b d7_global_m
  = GoSem.Ret (map ImpProofsD.step_n [SIns; SIns; SIns; SMatch], (-6)%Z)
  /\ score d7_global_m d7_global_a d7_global_b d7_global_al = Ok (-4)%Z
  /\ consumes d7_global_al = (length d7_global_a, length d7_global_b).
Proof. vm_compute. repeat split. Qed.

Example C10_local_refuted_on_source :
  (exists al ai bi, ImpGen.imp_align_Local 50 d7_local_a d7_local_b d7_local_m = GoSem.Ret (al, ai, bi, 4%Z))
  /\ score d7_local_m d7_local_a d7_local_b d7_local_al = Ok 5%Z.
Proof. split; [vm_compute; do 3 eexists; reflexivity | vm_compute; reflexivity]. Qed.
