(* Extract.v — extraction of the executable model for the correspondence driver.
   ExtrOcamlBasic only (bool, option, unit, list, prod, sumbool, sumor, sig are
   mapped to OCaml's); N, Z, positive, nat, string and ascii stay Coq's inductives.
   No Extract Constant. Run coqc in the directory where model.ml must land. *)
From Coq Require Extraction ExtrOcamlBasic.
From Bio Require Import Base Corr.
Extraction Language OCaml.
Extraction "model.ml" run_case.
