(* Spec/RegionsSpec.v — specification-level definitions for C16. *)
From Coq Require Import Sorting.Sorted.
From Bio Require Import Base.
From Bio.Model Require Import Regions.
Open Scope Z_scope.

(* interval x covers position i:  starts[x] <= i < ends[x] *)
Definition covers (starts ends : list Z) (i : Z) (x : nat) : bool :=
  (nth x starts 0 <=? i) && (i <? nth x ends 0).

(* the property's answer: the ascending list of the serial numbers that cover i *)
Definition covering (starts ends : list Z) (i : Z) : list nat :=
  filter (covers starts ends i) (seq 0 (length starts)).

(* the postcondition of sort.Slice(events, eventLess): no later element is less
   than an earlier one *)
Definition ev_le (a b : event) : Prop := event_less b a = false.
Definition sorted_events (l : list event) : Prop := StronglySorted ev_le l.

Definition strictly_ascending (l : list Z) : Prop := StronglySorted Z.lt l.
Definition asc (l : list nat) : Prop := StronglySorted lt l.

(* the map updates of a run of events *)
Definition step_set (idxs : list nat) (e : event) : list nat :=
  if e_start e then set_add (e_idx e) idxs else set_remove (e_idx e) idxs.
Definition apply_events (evs : list event) (idxs : list nat) : list nat :=
  fold_left step_set evs idxs.

(* what At computes by binary search, as a linear scan: the index set of the last
   breakpoint <= x ([cur] when there is none) *)
Fixpoint lookup (ix : index) (x : Z) (cur : list nat) : list nat :=
  match ix with
  | [] => cur
  | iv :: r => if fst iv <=? x then lookup r x (snd iv) else cur
  end.

(* number of leading breakpoints <= x *)
Fixpoint rank (ix : index) (x : Z) : nat :=
  match ix with
  | [] => O
  | iv :: r => if fst iv <=? x then S (rank r x) else O
  end.

(* is x active after the events, when its initial state is b *)
Fixpoint status (y : nat) (evs : list event) (b : bool) : bool :=
  match evs with
  | [] => b
  | e :: r => status y r (if (e_idx e =? y)%nat then e_start e else b)
  end.
