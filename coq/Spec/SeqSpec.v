(* Spec/SeqSpec.v — what C12..C14 talk about, stated independently of the
   implementation's tables. *)
From Coq Require Import String.
From Bio Require Import Base.

(* ---- standard genetic code (NCBI translation table 1, TCAG order) ------- *)
Definition ncbi1 : bytes := bs "FFLLSSSSYY**CC*WLLLLPPPPHHQQRRRRIIIMTTTTNNKKSSRRVVVVAAAADDEEGGGG".

(* index of a base letter, either case, in TCAG *)
Definition base_index (b : byte) : option nat :=
  if (b =? 84) || (b =? 116) then Some 0%nat else
  if (b =? 67) || (b =? 99) then Some 1%nat else
  if (b =? 65) || (b =? 97) then Some 2%nat else
  if (b =? 71) || (b =? 103) then Some 3%nat else None.

Definition std_amino (a b c : byte) : option byte :=
  match base_index a, base_index b, base_index c with
  | Some i, Some j, Some k => nth_error ncbi1 (16 * i + 4 * j + k)
  | _, _, _ => None
  end.

(* translation of a whole sequence; None = length not divisible by 3 or a
   byte outside aAcCgGtT *)
Fixpoint std_translate (s : bytes) : option bytes :=
  match s with
  | [] => Some []
  | a :: b :: c :: r =>
    match std_amino a b c, std_translate r with
    | Some x, Some l => Some (x :: l)
    | _, _ => None
    end
  | _ => None
  end.

Definition is_dna8 (b : byte) : bool := match base_index b with Some _ => true | None => false end.

(* ---- DNA alphabet with N, complement ------------------------------------ *)
Definition compl (b : byte) : option byte :=
  if b =? 97 then Some 116 else if b =? 65 then Some 84 else       (* a A *)
  if b =? 99 then Some 103 else if b =? 67 then Some 71 else       (* c C *)
  if b =? 103 then Some 99 else if b =? 71 then Some 67 else       (* g G *)
  if b =? 116 then Some 97 else if b =? 84 then Some 65 else       (* t T *)
  if b =? 110 then Some 110 else if b =? 78 then Some 78 else None. (* n N *)

Definition is_dna10 (b : byte) : bool := match compl b with Some _ => true | None => false end.

(* ---- 2-bit codes -------------------------------------------------------- *)
Definition code2 (b : byte) : option N :=
  if (b =? 65) || (b =? 97) then Some 0 else
  if (b =? 67) || (b =? 99) then Some 1 else
  if (b =? 71) || (b =? 103) then Some 2 else
  if (b =? 84) || (b =? 116) then Some 3 else None.

(* ---- C12: reverse complement, canonical k-mers --------------------------- *)
Definition dna10 (s : bytes) : Prop := Forall (fun b => is_dna10 b = true) s.

(* total complement: bytes outside aAcCgGtTnN are left alone (never used on them) *)
Definition complb (b : byte) : byte := match compl b with Some c => c | None => b end.

(* the reversed, base-wise complemented copy *)
Definition rcseq (s : bytes) : bytes := rev (map complb s).

Definition is_lower (b : byte) : bool := (97 <=? b) && (b <=? 122).

(* s[i:i+k] *)
Definition window (s : bytes) (i k : nat) : bytes := firstn k (skipn i s).

(* the lexicographically smaller of two strings (the first one on a tie) *)
Definition lexmin (a b : bytes) : bytes := match bcompare a b with Gt => b | _ => a end.

(* ---- C13: 2-bit packing -------------------------------------------------- *)
(* first base in the most significant bits *)
Definition pack4 (a b c d : N) : N := 64 * a + 16 * b + 4 * c + d.

(* the 2-bit code of base i of s; 0 where there is no base *)
Definition code_at (s : bytes) (i : nat) : N :=
  match nth_error s i with
  | Some b => match code2 b with Some c => c | None => 0 end
  | None => 0
  end.

(* A C G T for 0 1 2 3 *)
Definition base_of (c : N) : byte :=
  if c =? 0 then 65 else if c =? 1 then 67 else if c =? 2 then 71 else 84.
