(* Spec/TrieSpec.v — the set M of maximal sequences that property C15 says the
   trie is, the reference semantics of Add / Delete / Has on M, and the
   abstraction [members] from a trie to its set. *)
From Coq Require Import String Sorting.Sorted.
From Bio Require Import Base.
From Bio.Model Require Import Trie.

(* ---- prefixes -------------------------------------------------------------- *)
Definition prefix (p x : bytes) : Prop := exists s, x = p ++ s.

Fixpoint is_prefix (p x : bytes) : bool :=
  match p, x with
  | [], _ => true
  | a :: p', b :: x' => (a =? b) && is_prefix p' x'
  | _ :: _, [] => false
  end.

Definition proper_prefix (p x : bytes) : bool := is_prefix p x && negb (beqb p x).

(* ---- the reference set ------------------------------------------------------ *)
(* M is a list of byte strings read as a set (the theorems keep it duplicate free
   and compare up to permutation). *)
Definition mset_t := list bytes.

(* Has(x): x is empty or a prefix of a member *)
Definition spec_has (M : mset_t) (x : bytes) : bool :=
  match x with [] => true | _ => existsb (is_prefix x) M end.

(* Add(b): nothing for the empty sequence or a prefix of a member; otherwise b
   enters and absorbs the members that are proper prefixes of it. *)
Definition spec_add (b : bytes) (M : mset_t) : mset_t :=
  match b with
  | [] => M
  | _ => if existsb (is_prefix b) M then M
         else b :: filter (fun m => negb (proper_prefix m b)) M
  end.

(* Delete(b), b non-empty: every member with prefix b goes; the result says
   whether there was one.  Delete of the empty sequence (outside the property
   text's domain, but what the code does): nothing is removed, true. *)
Definition spec_delete (b : bytes) (M : mset_t) : mset_t * bool :=
  match b with
  | [] => (M, true)
  | _ => (filter (fun m => negb (is_prefix b m)) M, existsb (is_prefix b) M)
  end.

Definition spec_apply (o : op) (M : mset_t) : mset_t * option bool :=
  match o with
  | OAdd b => (spec_add b M, None)
  | ODel b => let (M', r) := spec_delete b M in (M', Some r)
  end.

Fixpoint spec_run (ops : list op) (M : mset_t) : mset_t * list (option bool) :=
  match ops with
  | [] => (M, [])
  | o :: r =>
    let (M1, res) := spec_apply o M in
    let (M2, rs) := spec_run r M1 in
    (M2, res :: rs)
  end.

(* ---- abstraction ------------------------------------------------------------ *)
(* The set a trie stands for: the root-to-leaf paths, a leaf being a childless
   node other than the root. *)
Fixpoint members (t : trie) : list bytes :=
  match t with
  | T l => flat_map (fun kc =>
             match kc with
             | (k, c) => match c with
                         | T [] => [[k]]
                         | _ => map (cons k) (members c)
                         end
             end) l
  end.

(* Well-formed: a node's keys are distinct (the model keeps them ascending: that
   is what makes the list a canonical form of the Go map), recursively. *)
Inductive wf : trie -> Prop :=
| wf_T : forall l,
    StronglySorted N.lt (map fst l) ->
    (forall k c, In (k, c) l -> wf c) ->
    wf (T l).

(* every key is a byte (needed only where keys are written as decimal text) *)
Inductive byte_keys : trie -> Prop :=
| bk_T : forall l,
    (forall k c, In (k, c) l -> k < 256 /\ byte_keys c) ->
    byte_keys (T l).

Definition op_bytes (o : op) : bytes := match o with OAdd b => b | ODel b => b end.
Definition ops_are_bytes (ops : list op) : Prop :=
  Forall (fun o => Forall (fun x => x < 256) (op_bytes o)) ops.
