(* Spec/NewickSpec.v — what C05 and C19 talk about. *)
From Bio Require Import Base.
From Bio.Model Require Import Newick.

(* ------------------------------------------------------------------ *)
(* C19: classic recursive traversals on node occurrences (path, node). *)

(* occurrences of a child's subtree, seen from the parent: child index in front *)
Definition under (i : nat) (l : list occ) : list occ := map (fun x => (i :: fst x, snd x)) l.

(* children in slice order, child [k] of the list has index [i + k] *)
Definition kids_from (f : tree -> list occ) : nat -> list tree -> list occ :=
  fix go (i : nat) (l : list tree) : list occ :=
    match l with
    | [] => []
    | c :: r => under i (f c) ++ go (S i) r
    end.

Fixpoint preorder (t : tree) : list occ :=
  match t with Node _ _ cs => ([], t) :: kids_from preorder 0%nat cs end.

Fixpoint postorder (t : tree) : list occ :=
  match t with Node _ _ cs => kids_from postorder 0%nat cs ++ [([], t)] end.

(* the node found by following a path *)
Fixpoint subtree_at (t : tree) (p : path) : option tree :=
  match p with
  | [] => Some t
  | i :: q => match nth_error (t_children t) i with
              | Some c => subtree_at c q
              | None => None
              end
  end.

(* [p] is a proper ancestor of [q] *)
Definition strict_prefix (p q : path) : Prop := exists r, r <> [] /\ q = p ++ r.

(* [x] occurs in [l] strictly before an occurrence of [y] *)
Definition before {A} (l : list A) (x y : A) : Prop :=
  exists l1 l2 l3, l = l1 ++ x :: l2 ++ y :: l3.

(* ------------------------------------------------------------------ *)
(* C05                                                                  *)

(* a zero distance ("0" or "-0") means "none": it is not written and reads
   back as the float64 zero value *)
Definition norm_dist (d : F) : F := if is_zeroF d then zeroF else d.
Fixpoint norm (t : tree) : tree :=
  match t with Node n d cs => Node n (norm_dist d) (map norm cs) end.

(* the bytes the tokeniser treats specially *)
Definition delims : bytes := [40; 41; 44; 58; 59; 39; 32; 9; 10; 13].

(* strconv's contract for one float (DESIGN.md section 3, H1 and H2):
   the written text parses back to the same float, is not empty and contains
   no delimiter. *)
Definition float_ok (o : foracle) (x : F) : Prop :=
  parseF o (fmtF o x) = Some x /\ fmtF o x <> [] /\ clean delims (fmtF o x).

Fixpoint dists (t : tree) : list F :=
  match t with Node _ d cs => d :: flat_map dists cs end.

(* every distance of the tree that is written satisfies the contract *)
Definition floats_ok (o : foracle) (t : tree) : Prop :=
  Forall (fun d => is_zeroF d = false -> float_ok o d) (dists t).

Definition ws_string (s : bytes) : Prop := Forall (fun b => is_ws b = true) s.

(* trees written one after another, each followed by a separator *)
Fixpoint seq_text (o : foracle) (l : list (tree * bytes)) : bytes :=
  match l with
  | [] => []
  | (t, sep) :: r => marshal o t ++ sep ++ seq_text o r
  end.

(* the bytes outside '...' stretches (the quote bytes themselves excluded) *)
Fixpoint outside_quotes (inq : bool) (s : bytes) : bytes :=
  match s with
  | [] => []
  | c :: r => if c =? 39 then outside_quotes (negb inq) r
              else if inq then outside_quotes inq r
              else c :: outside_quotes inq r
  end.

(* condensed: no whitespace outside quoted names *)
Definition condensed (s : bytes) : Prop :=
  Forall (fun b => is_ws b = false) (outside_quotes false s).
