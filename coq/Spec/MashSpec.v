(* Spec/MashSpec.v — what C17 talks about: the n smallest distinct values of a
   list of hash values, and the Mash distance as a function of a real Jaccard
   index. *)
From Coq Require Import Reals Sorted.
From Bio Require Import Base.

(* insertion into a strictly ascending list; a value already present is dropped *)
Fixpoint ins_asc (x : N) (l : list N) : list N :=
  match l with
  | [] => [x]
  | y :: r => if x <? y then x :: l else if x =? y then l else y :: ins_asc x r
  end.

(* the distinct values of l in ascending order *)
Definition sort_dedup (l : list N) : list N := fold_left (fun acc x => ins_asc x acc) l [].

(* the sketch of size n of a multiset of hash values: its n smallest distinct
   values, largest first *)
Definition sketch_of (n : Z) (hs : list N) : list N := rev (firstn (Z.to_nat n) (sort_dedup hs)).

Definition asc (l : list N) : Prop := StronglySorted N.lt l.
Definition desc (l : list N) : Prop := StronglySorted (fun a b => b < a) l.

(* the last n elements *)
Definition lastn {A} (n : nat) (l : list A) : list A := skipn (length l - n) l.

(* number of values among the n smallest of the union that both sides have *)
Definition shared_bottom (n : nat) (a b : list N) : nat :=
  length (filter (fun x => memb x a && memb x b) (firstn n (sort_dedup (a ++ b)))).

(* ---- Mash distance over the reals --------------------------------------- *)
Local Open Scope R_scope.

(* FromJaccard: 1 for j = 0, else min(1, -ln(2j/(1+j))/k) *)
Definition mash_dist (j : R) (k : nat) : R :=
  if Req_EM_T j 0 then 1 else Rmin 1 (- ln (2 * j / (1 + j)) / INR k).

(* Distance of two sketches whose intersect loop returned (i, u) *)
Definition mash_dist_pair (iu : Z * Z) (k : nat) : R :=
  mash_dist (IZR (fst iu) / IZR (snd iu)) k.
