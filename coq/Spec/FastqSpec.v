(* Spec/FastqSpec.v — the objects property C02 talks about: the domain of the
   round trip and the classes of structural corruption. *)
From Bio Require Import Base.
From Bio.Model Require Import Fastq.

(* A field free of CR and LF (this also excludes a field ending in CR, which the
   line reader would strip). *)
Definition field_ok (s : bytes) : Prop := clean [LF; CR] s.
Definition field_okb (s : bytes) : bool := cleanb [LF; CR] s.

(* The records C02 quantifies over: name, sequence, qualities free of CR/LF,
   sequence and qualities of equal length.  No bound on any length. *)
Definition fq_ok (r : fastq) : Prop :=
  field_ok (name r) /\ field_ok (seq r) /\ field_ok (quals r)
  /\ length (seq r) = length (quals r).
Definition fq_okb (r : fastq) : bool :=
  field_okb (name r) && field_okb (seq r) && field_okb (quals r)
  && Nat.eqb (length (seq r)) (length (quals r)).

(* the four lines of a record *)
Definition record_lines (r : fastq) : list bytes := [AT :: name r; seq r; [PLUS]; quals r].
(* a text file made of complete lines: every line is followed by LF *)
Definition unlines (ls : list bytes) : bytes := concat (map (fun l => l ++ [LF]) ls).

Definition count_lf (s : bytes) : nat := count_occ N.eq_dec s LF.

(* ------------------------------------------------------------------ *)
(* Corruptions.  [c] is the text that follows the valid records.        *)

(* a line body: no LF in it (a CR may be: CRLF files) *)
Definition no_lf (l : bytes) : Prop := ~ In LF l.
Definition starts_with (b : byte) (l : bytes) : Prop := exists r, l = b :: r.

(* what comes after a line body: the end of the input (the line is
   unterminated), or LF followed by whatever *)
Definition eol (tail : bytes) : Prop := tail = [] \/ exists rest, tail = LF :: rest.

(* the content of a line as a line-oriented reader sees it: without the one
   trailing CR of a CRLF line end (Base.drop_cr) *)
Definition content (l : bytes) : bytes := drop_cr l.

(* [text_of ls c]: the text [c] consists of exactly the lines [ls], each
   followed by LF, except that the last one may be unterminated if it is
   non-empty. *)
Inductive text_of : list bytes -> bytes -> Prop :=
| text_nil : text_of [] []
| text_last l : no_lf l -> l <> [] -> text_of [l] l
| text_cons l ls c : no_lf l -> text_of ls c -> text_of (l :: ls) (l ++ LF :: c).

Inductive Corrupt : bytes -> Prop :=
(* the first line of c does not start with '@' (it may be empty; it may be an
   unterminated last line); whatever follows *)
| Corrupt_no_at l1 tail :
    no_lf l1 -> eol tail -> l1 ++ tail <> [] ->
    ~ starts_with AT l1 ->
    Corrupt (l1 ++ tail)
(* the third line does not start with '+'; whatever follows *)
| Corrupt_no_plus l1 l2 l3 tail :
    no_lf l1 -> no_lf l2 -> no_lf l3 -> eol tail ->
    ~ starts_with PLUS l3 ->
    Corrupt (l1 ++ LF :: l2 ++ LF :: l3 ++ tail)
(* the fourth line is not as long as the second; whatever follows *)
| Corrupt_length l1 l2 l3 l4 tail :
    no_lf l1 -> no_lf l2 -> no_lf l3 -> no_lf l4 -> eol tail ->
    length (content l4) <> length (content l2) ->
    Corrupt (l1 ++ LF :: l2 ++ LF :: l3 ++ LF :: l4 ++ tail)
(* c ends after one, two or three lines (cut short before the fourth) *)
| Corrupt_cut ls c :
    text_of ls c -> (1 <= length ls <= 3)%nat ->
    Corrupt c.
