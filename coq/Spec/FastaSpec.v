(* Spec/FastaSpec.v — what C01 talks about: the domain of records, and
   "the text L is a layout of the record list rs". *)
From Bio Require Import Base.
From Bio.Model Require Import Fasta.

(* The property's domain: names free of CR/LF, sequences free of CR/LF/'>'. *)
Definition fa_ok (r : fasta) : Prop :=
  clean [CR; LF] (name r) /\ clean [CR; LF; GT] (seq r).

(* A separator: a non-empty string of line-break bytes (LF, CRLF, CR, LF LF = a
   blank line, ...).  A chunk: a non-empty sequence line. *)
Definition sep (s : bytes) : Prop := s <> [] /\ Forall (fun b => is_nl b = true) s.
Definition chunk (c : bytes) : Prop := c <> [] /\ clean [LF; CR; GT] c.

(* [Body last sq txt]: [txt] is the sequence [sq] cut into chunks at arbitrary
   places, each followed by a separator; only when this is the last thing in the
   file ([last = true]) may the final separator be missing. *)
Inductive Body : bool -> bytes -> bytes -> Prop :=
| B_nil  l : Body l [] []
| B_cons l c s sq txt : chunk c -> sep s -> Body l sq txt -> Body l (c ++ sq) (c ++ s ++ txt)
| B_last c : chunk c -> Body true c c.

(* one record: '>' name separator body; at the very end of the file a record
   without sequence may be just '>' name. *)
Inductive RecL : bool -> fasta -> bytes -> Prop :=
| R_intro l r s body : clean [LF; CR] (name r) -> sep s -> Body l (seq r) body ->
                       RecL l r (GT :: name r ++ s ++ body)
| R_bare r : clean [LF; CR] (name r) -> seq r = [] -> RecL true r (GT :: name r).

(* the file: the records' texts one after the other, starting with '>' *)
Inductive Layout : list fasta -> bytes -> Prop :=
| L_nil : Layout [] []
| L_last r t : RecL true r t -> Layout [r] t
| L_cons r t rs ts : RecL false r t -> rs <> [] -> Layout rs ts -> Layout (r :: rs) (t ++ ts).

(* The writer's line structure, for any separator in place of LF: used to state
   the CRLF / lone-CR / blank-line variants of the writer's own layout. *)
Definition write_nl (nl : bytes) (r : fasta) : bytes :=
  GT :: name r ++ nl ++ concat (map (fun c => c ++ nl) (chunks (seq r))).

(* Re-wrapping: cut [s] into lines of the given widths ([S w] each, so never
   empty); what is left when the widths run out is one more line. *)
Fixpoint cut (ws : list nat) (s : bytes) : list bytes :=
  match s with
  | [] => []
  | _ :: _ =>
    match ws with
    | [] => [s]
    | w :: ws' => firstn (S w) s :: cut ws' (skipn (S w) s)
    end
  end.

(* a record laid out with separator [nl] after every line and the sequence
   wrapped at the widths [ws] *)
Definition render (nl : bytes) (ws : list nat) (r : fasta) : bytes :=
  GT :: name r ++ nl ++ concat (map (fun c => c ++ nl) (cut ws (seq r))).
