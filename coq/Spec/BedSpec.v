(* Spec/BedSpec.v — the objects property C04 talks about: the record that a
   write -> read round trip promises ([first_n]: the first N fields, zero values
   beyond), the domain of the property ([bed_ok]) and byte counting. *)
From Bio Require Import Base.
From Bio.Model Require Import Bed.

(* the first N fields of b; the zero value of the Go type beyond *)
Definition first_n (b : bed) : bed :=
  let n := b_n b in
  {| b_n := n;
     b_chrom := b_chrom b;
     b_start := b_start b;
     b_end := b_end b;
     b_name := if (n >? 3)%Z then b_name b else [];
     b_score := if (n >? 4)%Z then b_score b else 0%Z;
     b_strand := if (n >? 5)%Z then b_strand b else [];
     b_thick_start := if (n >? 6)%Z then b_thick_start b else 0%Z;
     b_thick_end := if (n >? 7)%Z then b_thick_end b else 0%Z;
     b_rgb := if (n >? 8)%Z then b_rgb b else (0, 0, 0);
     b_block_count := if (n >? 9)%Z then b_block_count b else 0%Z;
     b_block_sizes := if (n >? 10)%Z then b_block_sizes b else [];
     b_block_starts := if (n >? 11)%Z then b_block_starts b else [] |}.

Definition text_ok (s : bytes) : Prop := clean [TAB; CR; LF] s.

Definition strand_valid (s : bytes) : Prop :=
  s = [] \/ s = [43] \/ s = [45] \/ s = [46].              (* "" "+" "-" "." *)

Definition rgb_ok (c : N * N * N) : Prop :=
  let '(r, g, b) := c in r < 256 /\ g < 256 /\ b < 256.    (* [3]byte *)

(* Conditions on a record all of whose fields are written. *)
Definition fields_ok (b : bed) : Prop :=
  text_ok (b_chrom b) /\ (forall r, b_chrom b <> 35 :: r)       (* not a comment line *)
  /\ text_ok (b_name b) /\ strand_valid (b_strand b)
  /\ int64 (b_start b) /\ int64 (b_end b) /\ int64 (b_score b)
  /\ int64 (b_thick_start b) /\ int64 (b_thick_end b)
  /\ rgb_ok (b_rgb b) /\ int64 (b_block_count b)
  /\ Forall int64 (b_block_sizes b) /\ Forall int64 (b_block_starts b)
  (* "block lists consistent with the block count": the lists as written
     have length BlockCount (DESIGN.md section 1, Boundaries) *)
  /\ Z.of_nat (length (b_block_sizes b)) = b_block_count b
  /\ Z.of_nat (length (b_block_starts b)) = b_block_count b.

(* The domain of C04: N in 3..12 and the conditions above on the first N
   fields only — fields beyond N are unconstrained (they are not written).
   int64 and rgb_ok are met by every Go value. For N = 10 the block count must
   be 0, for N = 11 also BlockSizes must be empty: the reader sees no list. *)
Definition bed_ok (b : bed) : Prop :=
  (3 <= b_n b <= 12)%Z /\ fields_ok (first_n b).

Definition count_byte (x : byte) (s : bytes) : nat := length (filter (N.eqb x) s).
