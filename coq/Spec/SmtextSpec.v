(* Spec/SmtextSpec.v — what property C20 talks about: NCBI tables and their
   textual layouts, the pairs a table denotes, mirrored conflicts, key order. *)
From Bio Require Import Base.
From Bio.Model Require Import Smtext.

(* ---- tables ---------------------------------------------------------------- *)
(* Labels are the bytes as written in the file; '*' denotes the gap symbol. *)
Definition lab (b : byte) : byte := if b =? 42 then GAP else b.

Record table : Type := { t_cols : list byte; t_rows : list (byte * list F) }.

(* every row has one score per column *)
Definition rect (T : table) : Prop :=
  Forall (fun r => length (snd r) = length (t_cols T)) (t_rows T).

(* the (row, column) -> score pairs of a table, row by row *)
Definition row_pairs (cols : list byte) (r : byte * list F) : list (key * F) :=
  map (fun cx => ((lab (fst r), lab (fst cx)), snd cx)) (combine cols (snd r)).
Definition pairs (T : table) : list (key * F) := flat_map (row_pairs (t_cols T)) (t_rows T).

(* the matrix a table denotes (a repeated label denotes the later row/column) *)
Definition matrix_of (T : table) : smatrix := matrix_of_entries (pairs T).

Definition keys_unique (m : smatrix) : Prop := NoDup (map fst m).

(* ---- layouts --------------------------------------------------------------- *)
(* blanks inside a line: TAB, FF, CR, SPACE (LF ends the line) *)
Definition lws (b : byte) : Prop := b = 9 \/ b = 12 \/ b = 13 \/ b = 32.
Definition nonspace (b : byte) : Prop := is_space b = false.
Definition token (t : bytes) : Prop := t <> [] /\ Forall nonspace t.
Definition nolf (l : bytes) : Prop := Forall (fun b => b <> LF) l.
(* the line fits bufio.Scanner's default buffer *)
Definition short (l : bytes) : Prop := N.of_nat (length l) < 65536.

(* tokens, each followed by a run of blanks that is non-empty when another
   token follows *)
Inductive Toks : list bytes -> bytes -> Prop :=
| Toks_nil : Toks [] []
| Toks_cons : forall t ts w rest,
    token t -> Forall lws w -> (ts <> [] -> w <> []) -> Toks ts rest ->
    Toks (t :: ts) (t ++ w ++ rest).

(* a line carrying the tokens ts (at least one): any leading blanks, any
   separators, any trailing blanks (a CR before the LF is one of them); its
   first byte is not '#' (such a line would be a comment) *)
Definition LineOf (ts : list bytes) (l : bytes) : Prop :=
  exists lead body, l = lead ++ body /\ Forall lws lead /\ Toks ts body
                    /\ ts <> [] /\ hd 0 l <> 35 /\ short l.

(* ignored anywhere: empty lines (also after the Scanner strips a CR) and
   lines whose first byte is '#' *)
Definition CommentOrEmpty (l : bytes) : Prop :=
  (l = [] \/ l = [CR] \/ exists r, l = 35 :: r /\ nolf r) /\ short l.
(* whitespace-only lines: harmless before the column-label line only *)
Definition BlankLine (l : bytes) : Prop := Forall lws l /\ short l.

(* a score token: free of whitespace, and strconv.ParseFloat reads it as x *)
Definition ScoreTok (o : foracle) (x : F) (t : bytes) : Prop :=
  token t /\ parseF o t = Some x.

(* the lines after the header: rows in table order, with ignored lines anywhere *)
Inductive Body (o : foracle) : list (byte * list F) -> list bytes -> Prop :=
| Body_nil : Body o [] []
| Body_skip : forall rows l ls,
    CommentOrEmpty l -> Body o rows ls -> Body o rows (l :: ls)
| Body_row : forall r xs ts rows l ls,
    nonspace r -> Forall2 (ScoreTok o) xs ts -> LineOf ([r] :: ts) l ->
    Body o rows ls -> Body o ((r, xs) :: rows) (l :: ls).

(* lines joined by LF, with or without a final LF *)
Definition join_lines (ls : list bytes) (final_newline : bool) : bytes :=
  join_with [LF] ls ++ (if final_newline then [LF] else []).

Definition PreLine (l : bytes) : Prop := CommentOrEmpty l \/ BlankLine l.

Definition HeaderLine (cols : list byte) (l : bytes) : Prop :=
  cols <> [] /\ Forall nonspace cols /\ LineOf (map (fun c => [c]) cols) l.

(* every textual layout of the table T *)
Inductive TableLayout (o : foracle) (T : table) : bytes -> Prop :=
| TL_intro : forall pre hdr body nl,
    Forall PreLine pre -> HeaderLine (t_cols T) hdr -> Body o (t_rows T) body ->
    TableLayout o T (join_lines (pre ++ hdr :: body) nl).

(* ---- corrupted tables -------------------------------------------------------- *)
Definition NotSkipped (l : bytes) : Prop := l <> [] /\ l <> [CR] /\ hd 0 l <> 35.

(* the fields of a row line that must be rejected when there are n columns *)
Definition BadFields (o : foracle) (n : nat) (fs : list bytes) : Prop :=
  length fs <> S n                                            (* wrong number of values *)
  \/ (exists f0 vs, fs = f0 :: vs /\ length f0 <> 1%nat)      (* multi-character label *)
  \/ (exists f0 vs v, fs = f0 :: vs /\ In v vs /\ parseF o v = None).  (* non-numeric score *)

Definition BadRowLine (o : foracle) (n : nat) (l : bytes) : Prop :=
  nolf l /\ (~ short l \/ (NotSkipped l /\ BadFields o n (fields l))).

Definition BadHeaderLine (l : bytes) : Prop :=
  nolf l /\ (~ short l \/ (NotSkipped l /\ exists f, In f (fields l) /\ length f <> 1%nat)).

(* ---- Symmetrical ------------------------------------------------------------- *)
(* two mirrored pairs carry different scores (Go's != on float64) *)
Definition conflict (m : smatrix) : Prop :=
  exists a b v v2, a <> b /\ mlookup (a, b) m = Some v /\ mlookup (b, a) m = Some v2
                   /\ feq v2 v = false.

(* y is the original score x, or the ==-equal score the mirrored pair k' carries *)
Definition original_score (m : smatrix) (k' : key) (x y : F) : Prop :=
  y = x \/ (feq y x = true /\ mlookup k' m = Some y).

(* ---- GoString ------------------------------------------------------------------ *)
Definition key_lt (k1 k2 : key) : Prop :=
  fst k1 < fst k2 \/ (fst k1 = fst k2 /\ snd k1 < snd k2).
