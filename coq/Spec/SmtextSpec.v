(* Spec/SmtextSpec.v — specification-level definitions. *)
From Bio Require Import Base.
