(* Spec/AlignSpec.v — what the alignment properties C08-C10 talk about:
   how much of the two sequences a list of steps consumes, the documented score
   of a list of steps, the domain ("the matrix covers the sequences",
   "non-positive gap scores"), and the textbook edit distance. *)
From Bio Require Import Base.
From Bio.Model Require Import Align.
Open Scope Z_scope.

(* (number of characters of a, of b) the steps take. *)
Fixpoint consumes (al : list step) : nat * nat :=
  match al with
  | [] => (O, O)
  | s :: r =>
    let '(i, j) := consumes r in
    match s with
    | SMatch => (S i, S j)
    | SDel => (S i, j)
    | SIns => (i, S j)
    | SNone => (i, j)
    end
  end.

(* The documented scoring, reading the steps from the start of a and b:
   pair score per match step; per-character gap score per gap step (Deletion:
   m[a_i, Gap], Insertion: m[Gap, b_j]); plus the gap-open score m[Gap, Gap]
   once per maximal run of equal consecutive gap steps, i.e. on every gap step
   whose predecessor [prev] is not the same kind of gap.  [Err]: the steps run
   past the end of a sequence or contain a value that is not a step; [Panic]:
   a pair is missing from the matrix. *)
Fixpoint score_from (g : scorer) (prev : step) (a b : bytes) (al : list step) : outcome Z :=
  match al with
  | [] => Ok 0
  | SMatch :: r =>
    match a, b with
    | x :: a', y :: b' =>
      obind (g x y) (fun s => obind (score_from g SMatch a' b' r) (fun t => Ok (s + t)))
    | _, _ => Err
    end
  | SDel :: r =>
    match a with
    | x :: a' =>
      obind (g x Gap) (fun s =>
      obind (add_open g (negb (is_del prev)) s) (fun s' =>
      obind (score_from g SDel a' b r) (fun t => Ok (s' + t))))
    | [] => Err
    end
  | SIns :: r =>
    match b with
    | y :: b' =>
      obind (g Gap y) (fun s =>
      obind (add_open g (negb (is_ins prev)) s) (fun s' =>
      obind (score_from g SIns a b' r) (fun t => Ok (s' + t))))
    | [] => Err
    end
  | SNone :: _ => Err
  end.

Definition score_g (g : scorer) (a b : bytes) (al : list step) : outcome Z :=
  score_from g SNone a b al.

Definition score (m : matrix) (a b : bytes) (al : list step) : outcome Z :=
  score_g (get m) a b al.

(* The same, but gap-open is charged on every gap step ("linear" gaps). *)
Fixpoint score_linear_g (g : scorer) (a b : bytes) (al : list step) : outcome Z :=
  match al with
  | [] => Ok 0
  | SMatch :: r =>
    match a, b with
    | x :: a', y :: b' =>
      obind (g x y) (fun s => obind (score_linear_g g a' b' r) (fun t => Ok (s + t)))
    | _, _ => Err
    end
  | SDel :: r =>
    match a with
    | x :: a' =>
      obind (g x Gap) (fun s => obind (g Gap Gap) (fun o =>
      obind (score_linear_g g a' b r) (fun t => Ok (s + o + t))))
    | [] => Err
    end
  | SIns :: r =>
    match b with
    | y :: b' =>
      obind (g Gap y) (fun s => obind (g Gap Gap) (fun o =>
      obind (score_linear_g g a b' r) (fun t => Ok (s + o + t))))
    | [] => Err
    end
  | SNone :: _ => Err
  end.

Definition score_linear (m : matrix) := score_linear_g (get m).

(* Every pair the alignment of a with b can ask the matrix for is present:
   a x b, a x Gap, Gap x b and the gap-open pair (Gap, Gap). *)
Definition covers_g (g : scorer) (a b : bytes) : Prop :=
  forall x y, In x (Gap :: a) -> In y (Gap :: b) -> exists z, g x y = Ok z.

Definition covers (m : matrix) (a b : bytes) : Prop := covers_g (get m) a b.

(* Per-character gap scores over a and b and the gap-open score are <= 0. *)
Definition nonpos_gaps_g (g : scorer) (a b : bytes) : Prop :=
  (forall x z, In x (Gap :: a) -> g x Gap = Ok z -> z <= 0) /\
  (forall y z, In y (Gap :: b) -> g Gap y = Ok z -> z <= 0).

Definition nonpos_gaps (m : matrix) (a b : bytes) : Prop := nonpos_gaps_g (get m) a b.

Definition gap_open_g (g : scorer) : outcome Z := g Gap Gap.
Definition gap_open (m : matrix) : outcome Z := get m Gap Gap.

(* The scores the functions return. *)
Definition global_score_g (g : scorer) (a b : bytes) : outcome Z :=
  obind (global_g g a b) (fun r => Ok (snd r)).
Definition local_score_g (g : scorer) (a b : bytes) : outcome Z :=
  obind (local_g g a b) (fun r => Ok (snd r)).
Definition global_score (m : matrix) := global_score_g (get m).
Definition local_score (m : matrix) := local_score_g (get m).

(* Textbook edit distance (unit costs), by recursion on the first characters. *)
Definition min3 (x y z : nat) : nat := Nat.min x (Nat.min y z).

Fixpoint edit_distance (a : bytes) : bytes -> nat :=
  fix inner (b : bytes) : nat :=
  match a, b with
  | [], _ => length b
  | _, [] => length a
  | x :: a', y :: b' =>
    min3 (S (edit_distance a' b))                        (* delete x *)
         (S (inner b'))                                  (* insert y *)
         (edit_distance a' b' + (if (x =? y)%N then 0 else 1))%nat   (* keep / substitute *)
  end.

(* The Levenshtein rule: 0 on the diagonal, -1 elsewhere (Gap included). *)
Definition lev_rule : scorer := fun x y => Ok (if (x =? y)%N then 0 else -1).

(* Symmetric scorer. *)
Definition symmetric_g (g : scorer) : Prop := forall x y, g x y = g y x.

(* What a valid answer (steps, ai, bi, score) of Local looks like: either no
   alignment (nil, -1, -1, 0), or offsets inside the sequences, steps that stay
   inside a and b from those offsets, and a positive score equal to the
   documented score of the steps read from the offsets. *)
Definition local_answer_valid (g : scorer) (a b : bytes) (r : list step * Z * Z * Z) : Prop :=
  let '(al, ai, bi, s) := r in
  (al = [] /\ ai = -1 /\ bi = -1 /\ s = 0) \/
  (0 < s /\ 0 <= ai /\ 0 <= bi
   /\ ai + Z.of_nat (fst (consumes al)) <= Z.of_nat (length a)
   /\ bi + Z.of_nat (snd (consumes al)) <= Z.of_nat (length b)
   /\ score_g g (skipn (Z.to_nat ai) a) (skipn (Z.to_nat bi) b) al = Ok s).
