(* Spec/SamSpec.v — what property C03 talks about: which records are in the
   round-trip domain, when two records are the same record, the SAM flag bits. *)
From Coq Require Import String Permutation.
From Bio Require Import Base.
From Bio.Model Require Import Sam.

(* free of TAB, CR, LF *)
Definition tsv_clean (s : bytes) : Prop := clean [TAB; CR; LF] s.
Definition tsv_cleanb (s : bytes) : bool := cleanb [TAB; CR; LF] s.

(* strconv's contract for one float, as answered by the oracle [o]:
   H1  the text written for x parses back to x;
   H2  that text is non-empty and free of TAB/CR/LF.
   (A table-backed oracle answers for finitely many floats, so the contract is
   required of the floats that occur in the record, not of all of F.) *)
Definition float_ok (o : foracle) (x : F) : Prop :=
  parseF o (fmtF o x) = Some x /\ fmtF o x <> [] /\ tsv_clean (fmtF o x).

Definition tagval_ok (o : foracle) (v : tagval) : Prop :=
  match v with
  | TA b => memb b [TAB; CR; LF] = false
  | TI z => int64 z
  | TF x => float_ok o x
  | TZ s => tsv_clean s
  | TH h => Forall (fun b => b < 256) h
  end.

Definition tag_ok (o : foracle) (t : bytes * tagval) : Prop :=
  clean [COLON; TAB; CR; LF] (fst t) /\ tagval_ok o (snd t).

Definition not_at (s : bytes) : Prop :=
  match s with c :: _ => c <> 64 | [] => True end.

(* The round-trip domain.  No condition on double quotes (or any other byte
   outside TAB/CR/LF); empty fields allowed. *)
Record sam_ok (o : foracle) (r : sam) : Prop := {
  ok_qname : tsv_clean (s_qname r);
  ok_qname_at : not_at (s_qname r);
  ok_rname : tsv_clean (s_rname r);
  ok_cigar : tsv_clean (s_cigar r);
  ok_rnext : tsv_clean (s_rnext r);
  ok_seq : tsv_clean (s_seq r);
  ok_qual : tsv_clean (s_qual r);
  ok_flag : int64 (s_flag r);
  ok_pos : int64 (s_pos r);
  ok_mapq : int64 (s_mapq r);
  ok_pnext : int64 (s_pnext r);
  ok_tlen : int64 (s_tlen r);
  ok_tags : Forall (tag_ok o) (s_tags r);
  ok_keys : NoDup (map fst (s_tags r)) }.

(* Same record: the eleven mandatory fields are equal and the tag maps are the
   same map (unique keys, same bindings; floats are compared by canonical text,
   so NaN = NaN). *)
Definition sam_eq (r r' : sam) : Prop :=
  s_qname r = s_qname r' /\ s_flag r = s_flag r' /\ s_rname r = s_rname r' /\
  s_pos r = s_pos r' /\ s_mapq r = s_mapq r' /\ s_cigar r = s_cigar r' /\
  s_rnext r = s_rnext r' /\ s_pnext r = s_pnext r' /\ s_tlen r = s_tlen r' /\
  s_seq r = s_seq r' /\ s_qual r = s_qual r' /\
  NoDup (map fst (s_tags r')) /\ Permutation (s_tags r) (s_tags r').

Definition tag_lookup (k : bytes) (m : tagmap) : option tagval := alookup k m.

(* A header line: starts with '@', no LF, does not end in CR (tabs, quotes and
   everything else allowed). *)
Definition header_ok (h : bytes) : Prop :=
  (exists t, h = 64 :: t) /\ ~ In LF h /\ drop_cr h = h.

(* sortedness of the written tags: bytewise order of the tag texts *)
Definition bytes_le (a b : bytes) : Prop := bcompare a b <> Gt.

(* ---------------------------------------------------------------- *)
(* The SAM specification's FLAG bits (SAMv1 section 1.4), in order:
   0x1 .. 0x800.  Names are those of the accessors in flag.go.        *)
Definition flag_spec_bits : list (string * Z) :=
  [ ("Multiple"%string, 0%Z);            (* 0x1   template having multiple segments *)
    ("Each"%string, 1%Z);                (* 0x2   each segment properly aligned *)
    ("Unmapped"%string, 2%Z);            (* 0x4   segment unmapped *)
    ("Unmapped2"%string, 3%Z);           (* 0x8   next segment unmapped *)
    ("ReverseComplement"%string, 4%Z);   (* 0x10  SEQ reverse complemented *)
    ("ReverseComplement2"%string, 5%Z);  (* 0x20  SEQ of the next segment reverse complemented *)
    ("First"%string, 6%Z);               (* 0x40  first segment *)
    ("Last"%string, 7%Z);                (* 0x80  last segment *)
    ("Secondary"%string, 8%Z);           (* 0x100 secondary alignment *)
    ("NotPassing"%string, 9%Z);          (* 0x200 not passing filters *)
    ("Duplicate"%string, 10%Z);          (* 0x400 PCR or optical duplicate *)
    ("Supplementary"%string, 11%Z) ].    (* 0x800 supplementary alignment *)

Definition flag_spec_names : list string := map fst flag_spec_bits.

(* Tactic for non-vacuity Examples: [sam_ok o r] for a CLOSED oracle and record.
   Only closed goals are put under vm_compute: normalising [int64 z] for a bound
   variable z (inside [tag_ok o] taken as a function) builds a decision tree of
   exponential size (it exhausts memory). *)
Ltac sam_ok_example :=
  lazymatch goal with
  | |- sam_ok ?o ?r =>
    let T := fresh "T" in
    let l := eval vm_compute in (s_tags r) in
    assert (T : Forall (tag_ok o) l);
    [ repeat (apply Forall_cons;
              [ split; [ vm_compute; repeat constructor
                       | vm_compute; repeat constructor; try discriminate; intuition discriminate ] | ]);
      apply Forall_nil
    | constructor;
      [ .. | exact T
        | vm_compute;
          repeat (apply NoDup_cons;
                  [ cbn [In]; let H := fresh "H" in intros H;
                    repeat (destruct H as [H|H]; [discriminate H|]); exact H | ]);
          apply NoDup_nil ];
      vm_compute; repeat constructor; discriminate ]
  end.
