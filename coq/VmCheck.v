(* VmCheck.v — the alternative evaluator of the correspondence (DESIGN.md 4.3):
   the same dispatcher [run_case] evaluated by vm_compute inside Coq, with no
   extraction and no OCaml in the loop. The thorough tier writes a sample of the
   cases of a run together with the answers the extracted model gave and asks
   Coq for the ones on which vm_compute disagrees. *)
From Coq Require Import String.
From Bio Require Import Base Corr.

Fixpoint val_eqb (a b : val) {struct a} : bool :=
  match a, b with
  | VI x, VI y => Z.eqb x y
  | VB x, VB y => beqb x y
  | VL x, VL y =>
    (fix go (l1 l2 : list val) {struct l1} : bool :=
       match l1, l2 with
       | [], [] => true
       | u :: r1, v :: r2 => val_eqb u v && go r1 r2
       | _, _ => false
       end) x y
  | _, _ => false
  end.

(* ids of the cases on which run_case (vm_compute) differs from the recorded answer *)
Definition vm_mismatches (cases : list (Z * (string * (val * val)))) : list Z :=
  map fst (filter (fun c => negb (val_eqb (run_case (fst (snd c)) (fst (snd (snd c)))) (snd (snd (snd c))))) cases).
