(* Proofs/FastqProofsC.v *)
From Bio Require Import Base.
