(* Proofs/FastqProofsC.v — structural corruptions are rejected: one error item,
   never a fabricated record, after the intact preceding records. *)
From Coq Require Import String.
From Bio Require Import Base.
From Bio.Model Require Import Fastq.
From Bio.Spec Require Import FastqSpec.
From Bio.Proofs Require Import FastqProofs FastqProofsB.

(* ------------------------------------------------------------------ *)
(* token level: when reader.read() fails (any terminal condition)       *)

Lemma err_no_at : forall t t1 rest, ~ starts_with AT t1 ->
  decode_toks t (t1 :: rest) = [ErrItem].
Proof.
  intros t t1 rest H. rewrite decode_toks_eq. unfold read_with.
  destruct t1 as [|c nm]. reflexivity.
  destruct (N.eqb_spec c AT) as [E|E].
  - exfalso. apply H. exists nm. rewrite E. reflexivity.
  - reflexivity.
Qed.

Lemma err_short : forall t toks, (1 <= length toks <= 3)%nat ->
  decode_toks t toks = [ErrItem].
Proof.
  intros t toks H. rewrite decode_toks_eq. unfold read_with.
  destruct toks as [|t1 [|t2 [|t3 [|t4 r]]]]; cbn [length] in H; try lia;
    destruct t1 as [|c nm]; try reflexivity;
    destruct (negb (c =? AT)); try reflexivity;
    try (destruct t; reflexivity).
  destruct (negb (has_plus_prefix t3)); try reflexivity.
  destruct t; reflexivity.
Qed.

Lemma err_no_plus : forall t t1 t2 t3 rest, has_plus_prefix t3 = false ->
  decode_toks t (t1 :: t2 :: t3 :: rest) = [ErrItem].
Proof.
  intros t t1 t2 t3 rest H. rewrite decode_toks_eq. unfold read_with.
  destruct t1 as [|c nm]. reflexivity.
  destruct (negb (c =? AT)). reflexivity.
  rewrite H. reflexivity.
Qed.

Lemma err_length : forall t t1 t2 t3 t4 rest, length t4 <> length t2 ->
  decode_toks t (t1 :: t2 :: t3 :: t4 :: rest) = [ErrItem].
Proof.
  intros t t1 t2 t3 t4 rest H. rewrite decode_toks_eq. unfold read_with.
  destruct t1 as [|c nm]. reflexivity.
  destruct (negb (c =? AT)). reflexivity.
  destruct (negb (has_plus_prefix t3)). reflexivity.
  match goal with |- context [Nat.eqb ?a ?b] =>
    replace (Nat.eqb a b) with false by (symmetry; apply Nat.eqb_neq; exact H) end.
  reflexivity.
Qed.

(* ------------------------------------------------------------------ *)
(* from lines to tokens                                                 *)

Lemma starts_with_drop_cr : forall b l, ~ starts_with b l -> ~ starts_with b (drop_cr l).
Proof.
  intros b l H [r E]. apply drop_cr_head in E. apply H. exact E.
Qed.

Lemma no_plus_token : forall l, ~ starts_with PLUS l -> has_plus_prefix (drop_cr l) = false.
Proof.
  intros l H. apply starts_with_drop_cr in H. destruct (drop_cr l) as [|c r]. reflexivity.
  unfold has_plus_prefix. apply N.eqb_neq. intro E. apply H. exists r. rewrite E. reflexivity.
Qed.

(* a line body followed by the end of input or by LF and anything *)
Lemma scan_tokens_eol : forall l tail, no_lf l -> eol tail ->
  (l ++ tail = [] /\ scan_tokens (l ++ tail) = [])
  \/ exists rest, scan_tokens (l ++ tail) = drop_cr l :: rest.
Proof.
  intros l tail H [E|[rest E]]; subst tail.
  - rewrite app_nil_r. destruct l as [|c l].
    + left. split; reflexivity.
    + right. exists []. apply scan_tokens_last. exact H. discriminate.
  - right. exists (scan_tokens rest). apply scan_tokens_line. exact H.
Qed.

Lemma scan_tokens_text : forall ls c, text_of ls c -> scan_tokens c = map drop_cr ls.
Proof.
  intros ls c H. induction H as [|l Hl Hne|l ls c Hl H IH].
  - reflexivity.
  - apply scan_tokens_last; assumption.
  - rewrite scan_tokens_line by exact Hl. rewrite IH. reflexivity.
Qed.

(* ------------------------------------------------------------------ *)
(* every corruption class is an error, and nothing else                 *)

Lemma corrupt_rejected : forall t c, Corrupt c -> decode c t = [ErrItem].
Proof.
  intros t c H. unfold decode. destruct H as
    [l1 tail H1 Ht Hne Hat
    |l1 l2 l3 tail H1 H2 H3 Ht Hplus
    |l1 l2 l3 l4 tail H1 H2 H3 H4 Ht Hlen
    |ls c Htext Hn].
  - destruct (scan_tokens_eol l1 tail H1 Ht) as [[E _]|[rest E]].
    + contradiction.
    + rewrite E. apply err_no_at. apply starts_with_drop_cr. exact Hat.
  - rewrite scan_tokens_line by exact H1. rewrite scan_tokens_line by exact H2.
    destruct (scan_tokens_eol l3 tail H3 Ht) as [[_ E]|[rest E]]; rewrite E.
    + apply err_short. cbn [length]. lia.
    + apply err_no_plus. apply no_plus_token. exact Hplus.
  - rewrite scan_tokens_line by exact H1. rewrite scan_tokens_line by exact H2.
    rewrite scan_tokens_line by exact H3.
    destruct (scan_tokens_eol l4 tail H4 Ht) as [[_ E]|[rest E]]; rewrite E.
    + apply err_short. cbn [length]. lia.
    + apply err_length. exact Hlen.
  - rewrite (scan_tokens_text ls c Htext). apply err_short. rewrite map_length. exact Hn.
Qed.

(* C02, second half. *)
Lemma corruption : forall pre c, Forall fq_ok pre -> Corrupt c ->
  decode (concat (map write pre) ++ c) TEOF = map Rec pre ++ [ErrItem].
Proof.
  intros pre c Hpre Hc. rewrite decode_prefix by exact Hpre.
  rewrite (corrupt_rejected TEOF c Hc). reflexivity.
Qed.

(* the same when the stream ends with a read error instead of EOF *)
Lemma corruption_any_term : forall t pre c, Forall fq_ok pre -> Corrupt c ->
  decode (concat (map write pre) ++ c) t = map Rec pre ++ [ErrItem].
Proof.
  intros t pre c Hpre Hc. rewrite decode_prefix by exact Hpre.
  rewrite (corrupt_rejected t c Hc). reflexivity.
Qed.

(* The concrete corruptions of a valid record that the property lists, as
   instances of [Corrupt] (they show the classes are inhabited by what one
   expects: a record of the domain with one line damaged, then anything). *)

Lemma corrupt_missing_at : forall r rest, fq_ok r -> ~ starts_with AT (name r) ->
  Corrupt (name r ++ LF :: seq r ++ LF :: PLUS :: LF :: quals r ++ LF :: rest).
Proof.
  intros r rest (Hn & _) Hat.
  apply (Corrupt_no_at (name r) (LF :: _)).
  - apply field_ok_no_lf. exact Hn.
  - right. eexists. reflexivity.
  - destruct (name r); discriminate.
  - exact Hat.
Qed.

Lemma corrupt_missing_plus : forall r l3 rest, fq_ok r -> no_lf l3 -> ~ starts_with PLUS l3 ->
  Corrupt ((AT :: name r) ++ LF :: seq r ++ LF :: l3 ++ LF :: quals r ++ LF :: rest).
Proof.
  intros r l3 rest (Hn & Hs & _) H3 Hp.
  apply (Corrupt_no_plus (AT :: name r) (seq r) l3 (LF :: _)).
  - apply at_no_lf, field_ok_no_lf. exact Hn.
  - apply field_ok_no_lf. exact Hs.
  - exact H3.
  - right. eexists. reflexivity.
  - exact Hp.
Qed.

Lemma corrupt_quals_length : forall nm sq ql rest,
  field_ok nm -> field_ok sq -> field_ok ql -> length ql <> length sq ->
  Corrupt ((AT :: nm) ++ LF :: sq ++ LF :: [PLUS] ++ LF :: ql ++ LF :: rest).
Proof.
  intros nm sq ql rest Hn Hs Hq Hlen.
  apply (Corrupt_length (AT :: nm) sq [PLUS] ql (LF :: rest)).
  - apply at_no_lf, field_ok_no_lf. exact Hn.
  - apply field_ok_no_lf. exact Hs.
  - exact plus_no_lf.
  - apply field_ok_no_lf. exact Hq.
  - right. eexists. reflexivity.
  - unfold content. rewrite (field_ok_drop_cr _ Hs), (field_ok_drop_cr _ Hq). exact Hlen.
Qed.

(* a valid record cut after its first, second or third line *)
Lemma corrupt_cut_record : forall r k, fq_ok r -> (1 <= k <= 3)%nat ->
  Corrupt (unlines (firstn k (record_lines r))).
Proof.
  intros r k (Hn & Hs & Hq & _) Hk.
  assert (N1 := at_no_lf _ (field_ok_no_lf _ Hn)).
  assert (N2 := field_ok_no_lf _ Hs).
  assert (N3 := plus_no_lf).
  apply (Corrupt_cut (firstn k (record_lines r))).
  - destruct k as [|[|[|[|k]]]]; try lia; unfold record_lines, unlines;
      cbn [firstn map concat]; rewrite ?app_nil_r;
      repeat (rewrite <- ?app_assoc; cbn [app]).
    + apply (text_cons (AT :: name r) [] []). exact N1. apply text_nil.
    + apply (text_cons (AT :: name r) [seq r] (seq r ++ [LF])). exact N1.
      apply (text_cons (seq r) [] []). exact N2. apply text_nil.
    + apply (text_cons (AT :: name r) [seq r; [PLUS]] (seq r ++ LF :: PLUS :: [LF])). exact N1.
      apply (text_cons (seq r) [[PLUS]] (PLUS :: [LF])). exact N2.
      apply (text_cons [PLUS] [] []). exact N3. apply text_nil.
  - destruct k as [|[|[|[|k]]]]; try lia; cbn; lia.
Qed.

(* ------------------------------------------------------------------ *)
(* concrete instances used as non-vacuity examples in Properties/C02.v  *)

Ltac no_lf_tac := let H := fresh in intro H; vm_compute in H; intuition discriminate.

Definition ex_r1 : fastq := {| name := bs "@read 1/2"; seq := bs "+"; quals := bs "@" |}.
Definition ex_r2 : fastq := {| name := bs ""; seq := bs ""; quals := bs "" |}.
Definition ex_r3 : fastq := {| name := bs "r3"; seq := bs "ACGT"; quals := bs "+I@!" |}.

Lemma ex_domain : Forall fq_ok [ex_r1; ex_r2; ex_r3].
Proof. repeat constructor; apply fq_okb_spec; vm_compute; reflexivity. Qed.

Lemma ex_roundtrip :
  concat (map write [ex_r1; ex_r2; ex_r3])
    = bs "@@read 1/2" ++ LF :: bs "+" ++ LF :: bs "+" ++ LF :: bs "@" ++ LF ::
      bs "@" ++ LF :: LF :: bs "+" ++ LF :: LF ::
      bs "@r3" ++ LF :: bs "ACGT" ++ LF :: bs "+" ++ LF :: bs "+I@!" ++ [LF]
  /\ decode (concat (map write [ex_r1; ex_r2; ex_r3])) TEOF = [Rec ex_r1; Rec ex_r2; Rec ex_r3].
Proof. split; vm_compute; reflexivity. Qed.

(* outside the domain: a name ending in CR does not survive (the hypothesis
   "free of CR" is needed), and a record whose qualities are shorter is not
   read back at all *)
Lemma ex_domain_needed :
  decode (write {| name := bs "a" ++ [CR]; seq := bs "AC"; quals := bs "II" |}) TEOF
    = [Rec {| name := bs "a"; seq := bs "AC"; quals := bs "II" |}]
  /\ decode (write {| name := bs "a"; seq := bs "AC"; quals := bs "I" |}) TEOF = [ErrItem].
Proof. split; vm_compute; reflexivity. Qed.

Lemma ex_corrupt_no_at : Corrupt (bs "r2" ++ LF :: bs "AC" ++ LF :: bs "+" ++ LF :: bs "II" ++ [LF]).
Proof.
  apply (Corrupt_no_at (bs "r2") (LF :: bs "AC" ++ LF :: bs "+" ++ LF :: bs "II" ++ [LF])).
  - no_lf_tac.
  - right. eexists. reflexivity.
  - discriminate.
  - intros [r E]. discriminate E.
Qed.

Lemma ex_corrupt_blank_line : Corrupt (LF :: bs "@r2" ++ LF :: bs "AC" ++ LF :: bs "+" ++ LF :: bs "II" ++ [LF]).
Proof.
  apply (Corrupt_no_at [] (LF :: bs "@r2" ++ LF :: bs "AC" ++ LF :: bs "+" ++ LF :: bs "II" ++ [LF])).
  - intros [].
  - right. eexists. reflexivity.
  - discriminate.
  - intros [r E]. discriminate E.
Qed.

Lemma ex_corrupt_no_plus : Corrupt (bs "@r2" ++ LF :: bs "AC" ++ LF :: bs "-" ++ LF :: bs "II" ++ [LF]).
Proof.
  apply (Corrupt_no_plus (bs "@r2") (bs "AC") (bs "-") (LF :: bs "II" ++ [LF])).
  - no_lf_tac.
  - no_lf_tac.
  - no_lf_tac.
  - right. eexists. reflexivity.
  - intros [r E]. discriminate E.
Qed.

(* CRLF line ends: the lengths compared are those without the CR *)
Lemma ex_corrupt_length_crlf :
  Corrupt (bs "@r2" ++ CR :: LF :: bs "AC" ++ CR :: LF :: bs "+" ++ CR :: LF :: bs "III" ++ CR :: [LF]).
Proof.
  apply (Corrupt_length (bs "@r2" ++ [CR]) (bs "AC" ++ [CR]) (bs "+" ++ [CR]) (bs "III" ++ [CR]) [LF]).
  - no_lf_tac.
  - no_lf_tac.
  - no_lf_tac.
  - no_lf_tac.
  - right. eexists. reflexivity.
  - vm_compute. discriminate.
Qed.

Lemma ex_corrupt_cut : Corrupt (bs "@r2" ++ LF :: bs "AC") /\ Corrupt (bs "@r2" ++ LF :: bs "AC" ++ LF :: bs "+" ++ [LF]).
Proof.
  split.
  - apply (Corrupt_cut [bs "@r2"; bs "AC"]). 2: cbn; lia.
    apply (text_cons (bs "@r2") [bs "AC"] (bs "AC")). no_lf_tac.
    apply text_last. no_lf_tac. discriminate.
  - apply (Corrupt_cut [bs "@r2"; bs "AC"; bs "+"]). 2: cbn; lia.
    apply (text_cons (bs "@r2") [bs "AC"; bs "+"] (bs "AC" ++ LF :: bs "+" ++ [LF])). no_lf_tac.
    apply (text_cons (bs "AC") [bs "+"] (bs "+" ++ [LF])). no_lf_tac.
    apply (text_cons (bs "+") [] []). no_lf_tac. apply text_nil.
Qed.

Lemma ex_corruption_run :
  decode (concat (map write [ex_r1; ex_r3]) ++ bs "@r2" ++ LF :: bs "AC" ++ LF :: bs "+" ++ LF :: bs "III" ++ LF :: write ex_r3) TEOF
  = [Rec ex_r1; Rec ex_r3; ErrItem].
Proof. vm_compute. reflexivity. Qed.
