(* Proofs/FastaProofsC.v — the writer's output (and its CRLF / re-wrapped /
   no-final-newline variants) is a layout; trailing line breaks are ignored. *)
From Bio Require Import Base.
From Bio.Model Require Import Fasta.
From Bio.Spec Require Import FastaSpec.
From Bio.Proofs Require Import FastaProofs FastaProofsB.

(* ---- lines -> Body -> RecL -> Layout ---------------------------------- *)

Lemma body_of_lines l nl cs : sep nl -> Forall chunk cs ->
  Body l (concat cs) (concat (map (fun c => c ++ nl) cs)).
Proof.
  intros Hs. induction 1 as [|c cs Hc _ IH]; cbn [map concat]; [constructor|].
  rewrite <- app_assoc. apply B_cons; assumption.
Qed.

Lemma pieces_are_chunks cs :
  Forall (fun c => (1 <= length c)%nat) cs -> clean [LF; CR; GT] (concat cs) -> Forall chunk cs.
Proof.
  induction 1 as [|c cs Hc _ IH]; intros H; [constructor|].
  cbn [concat] in H. apply Forall_app in H as [A B].
  constructor; [|apply IH; exact B].
  split; [|exact A]. intros ->. cbn in Hc. lia.
Qed.

Lemma recl_of_lines l nl r cs :
  fa_ok r -> sep nl -> Forall (fun c => (1 <= length c)%nat) cs -> concat cs = seq r ->
  RecL l r (GT :: name r ++ nl ++ concat (map (fun c => c ++ nl) cs)).
Proof.
  intros [Hn Hq] Hs Hlen Hcat. apply R_intro.
  - apply clean2_swap. exact Hn.
  - exact Hs.
  - rewrite <- Hcat. apply body_of_lines; [exact Hs|].
    apply pieces_are_chunks; [exact Hlen|]. rewrite Hcat. apply clean3_swap. exact Hq.
Qed.

Lemma layout_of_render (f : fasta -> bytes) rs :
  Forall (fun r => forall l, RecL l r (f r)) rs -> Layout rs (concat (map f rs)).
Proof.
  induction 1 as [|r rs Hr _ IH]; [constructor|].
  destruct rs as [|r' rs'].
  - cbn [map concat]. rewrite app_nil_r. apply L_last. apply Hr.
  - change (concat (map f (r :: r' :: rs'))) with (f r ++ concat (map f (r' :: rs'))).
    apply L_cons; [apply Hr | discriminate | exact IH].
Qed.

(* ---- the writer's lines ------------------------------------------------- *)

Lemma chunks_pieces s : Forall (fun c => (1 <= length c)%nat) (chunks s).
Proof.
  unfold chunks. eapply Forall_impl; [|apply chunks_aux_len, Nat.le_refl].
  cbn beta. intros c H. lia.
Qed.

Lemma sep_lf : sep [LF].
Proof. split; [discriminate | repeat constructor]. Qed.
Lemma sep_crlf : sep [CR; LF].
Proof. split; [discriminate | repeat constructor]. Qed.

Lemma write_is_write_nl r : write r = write_nl [LF] r.
Proof. apply write_eq. Qed.

Lemma recl_write_nl nl l r : fa_ok r -> sep nl -> RecL l r (write_nl nl r).
Proof.
  intros Hok Hs. unfold write_nl.
  apply recl_of_lines; [exact Hok | exact Hs | apply chunks_pieces | apply chunks_concat].
Qed.

Lemma layout_write_nl nl rs : sep nl -> Forall fa_ok rs ->
  Layout rs (concat (map (write_nl nl) rs)).
Proof.
  intros Hs H. apply layout_of_render.
  eapply Forall_impl; [|exact H]. cbn beta. intros r Hr l. apply recl_write_nl; assumption.
Qed.

Lemma map_write_eq rs : map write rs = map (write_nl [LF]) rs.
Proof. apply map_ext. exact write_is_write_nl. Qed.

Lemma writer_is_layout rs : Forall fa_ok rs -> Layout rs (concat (map write rs)).
Proof. intros H. rewrite map_write_eq. apply layout_write_nl; [apply sep_lf | exact H]. Qed.

Lemma write_read_roundtrip rs : Forall fa_ok rs -> decode (concat (map write rs)) TEOF = map Rec rs.
Proof. intros H. apply layout_roundtrip. apply writer_is_layout. exact H. Qed.

Lemma nl_variant_roundtrip nl rs : sep nl -> Forall fa_ok rs ->
  decode (concat (map (write_nl nl) rs)) TEOF = map Rec rs.
Proof. intros Hs H. apply layout_roundtrip. apply layout_write_nl; assumption. Qed.

Lemma crlf_roundtrip rs : Forall fa_ok rs ->
  decode (concat (map (write_nl [CR; LF]) rs)) TEOF = map Rec rs.
Proof. apply nl_variant_roundtrip. apply sep_crlf. Qed.

(* ---- re-wrapping at arbitrary widths ------------------------------------- *)

Lemma cut_concat ws : forall s, concat (cut ws s) = s.
Proof.
  induction ws as [|w ws IH]; intros s; destruct s as [|b s]; try reflexivity.
  - cbn [cut concat]. apply app_nil_r.
  - change (cut (w :: ws) (b :: s))
      with (firstn (S w) (b :: s) :: cut ws (skipn (S w) (b :: s))).
    cbn [concat]. rewrite IH. apply firstn_skipn.
Qed.

Lemma cut_pieces ws : forall s, Forall (fun c => (1 <= length c)%nat) (cut ws s).
Proof.
  induction ws as [|w ws IH]; intros s; destruct s as [|b s].
  - constructor.
  - cbn [cut]. constructor; [cbn [length]; lia | constructor].
  - constructor.
  - change (cut (w :: ws) (b :: s))
      with (firstn (S w) (b :: s) :: cut ws (skipn (S w) (b :: s))).
    constructor; [cbn [firstn length]; lia | apply IH].
Qed.

Lemma recl_render nl ws l r : fa_ok r -> sep nl -> RecL l r (render nl ws r).
Proof.
  intros Hok Hs. unfold render.
  apply recl_of_lines; [exact Hok | exact Hs | apply cut_pieces | apply cut_concat].
Qed.

(* every record may have its own separator and its own line widths *)
Lemma rewrap_roundtrip (nl : fasta -> bytes) (ws : fasta -> list nat) rs :
  Forall fa_ok rs -> Forall (fun r => sep (nl r)) rs ->
  decode (concat (map (fun r => render (nl r) (ws r) r) rs)) TEOF = map Rec rs.
Proof.
  intros H Hs. apply layout_roundtrip.
  apply (layout_of_render (fun r => render (nl r) (ws r) r)).
  rewrite Forall_forall in *. intros r Hin l. apply recl_render; auto.
Qed.

(* ---- trailing line breaks are ignored ------------------------------------- *)

Definition all_nl (s : bytes) : Prop := Forall (fun b => is_nl b = true) s.

Lemma rd_nls_end s : all_nl s -> forall st nm sq, st <> SStart ->
  rd_loop st nm sq true s = ((nm, sq, true), None).
Proof.
  induction 1 as [|b s Hb _ IH]; intros st nm sq Hst; [reflexivity|].
  cbn [rd_loop]. destruct st; try congruence; rewrite Hb; apply IH; discriminate.
Qed.

Lemma rd_loop_any inp : forall st nm sq nm' sq' any' o,
  rd_loop st nm sq true inp = ((nm', sq', any'), o) -> any' = true.
Proof.
  induction inp as [|b inp IH]; intros st nm sq nm' sq' any' o H.
  - cbn in H. congruence.
  - cbn [rd_loop] in H. destruct st.
    + destruct (b =? GT); [|destruct (is_nl b)]; eapply IH; exact H.
    + destruct (is_nl b); [eapply IH; exact H|].
      destruct (b =? GT); [congruence | eapply IH; exact H].
    + destruct (is_nl b); eapply IH; exact H.
    + destruct (is_nl b); eapply IH; exact H.
Qed.

Lemma rd_loop_some_nonnil inp : forall st nm sq any r rest,
  rd_loop st nm sq any inp = (r, Some rest) -> rest <> [].
Proof.
  induction inp as [|b inp IH]; intros st nm sq any r rest H.
  - cbn in H. congruence.
  - cbn [rd_loop] in H. destruct st.
    + destruct (b =? GT); [|destruct (is_nl b)]; eapply IH; exact H.
    + destruct (is_nl b); [eapply IH; exact H|].
      destruct (b =? GT); [|eapply IH; exact H].
      injection H as _ <-. discriminate.
    + destruct (is_nl b); eapply IH; exact H.
    + destruct (is_nl b); eapply IH; exact H.
Qed.

Lemma rd_loop_trailing s : all_nl s -> forall inp st nm sq, st <> SStart ->
  rd_loop st nm sq true (inp ++ s) =
  match rd_loop st nm sq true inp with
  | (r, Some rest) => (r, Some (rest ++ s))
  | (r, None) => (r, None)
  end.
Proof.
  intros Hs. induction inp as [|b inp IH]; intros st nm sq Hst.
  - cbn [app rd_loop]. apply rd_nls_end; assumption.
  - cbn [app rd_loop]. destruct st; try congruence.
    + destruct (is_nl b); [apply IH; discriminate|].
      destruct (b =? GT); [reflexivity | apply IH; discriminate].
    + destruct (is_nl b); apply IH; discriminate.
    + destruct (is_nl b); apply IH; discriminate.
Qed.

Lemma read_one_trailing s inp : all_nl s -> inp <> [] ->
  (exists r rest, rest <> [] /\ read_one inp TEOF = RdRec r rest
                  /\ read_one (inp ++ s) TEOF = RdRec r (rest ++ s))
  \/ (exists r, read_one inp TEOF = RdRec r [] /\ read_one (inp ++ s) TEOF = RdRec r []).
Proof.
  intros Hs Hne. destruct inp as [|b inp]; [congruence|].
  assert (E : exists st nm sq, st <> SStart /\ forall tl,
    rd_loop SStart [] [] false (b :: tl) = rd_loop st nm sq true tl).
  { destruct (b =? GT) eqn:G; [|destruct (is_nl b) eqn:Nl].
    - exists SName, [], []. split; [discriminate|]. intros tl. cbn [rd_loop]. rewrite G. reflexivity.
    - exists SNewLine, [], []. split; [discriminate|]. intros tl. cbn [rd_loop]. rewrite G, Nl. reflexivity.
    - exists SSeq, [], [b]. split; [discriminate|]. intros tl. cbn [rd_loop]. rewrite G, Nl. reflexivity. }
  destruct E as (st & nm & sq & Hst & E).
  unfold read_one. change ((b :: inp) ++ s) with (b :: inp ++ s). rewrite !E.
  rewrite (rd_loop_trailing s Hs inp st nm sq Hst).
  destruct (rd_loop st nm sq true inp) as [[[nm' sq'] any'] [rest|]] eqn:R.
  - left. exists (mk_result nm' sq'), rest. split; [|split; reflexivity].
    exact (rd_loop_some_nonnil _ _ _ _ _ _ _ R).
  - right. apply rd_loop_any in R. subst any'. cbn [negb].
    exists (mk_result nm' sq'). split; reflexivity.
Qed.

Lemma decode_fuel_trailing s : all_nl s -> forall f inp, inp <> [] ->
  decode_fuel f (inp ++ s) TEOF = decode_fuel f inp TEOF.
Proof.
  intros Hs. induction f as [|f IH]; intros inp Hne; [reflexivity|].
  cbn [decode_fuel].
  destruct (read_one_trailing s inp Hs Hne) as [(r & rest & Hr & E1 & E2) | (r & E1 & E2)];
    rewrite E1, E2.
  - f_equal. apply IH. exact Hr.
  - reflexivity.
Qed.

Lemma trailing_newlines_ignored L s : L <> [] -> all_nl s ->
  decode (L ++ s) TEOF = decode L TEOF.
Proof.
  intros Hne Hs. unfold decode at 1.
  rewrite (decode_fuel_trailing s Hs) by exact Hne.
  apply decode_fuel_sufficient. rewrite app_length. lia.
Qed.

(* ---- the writer's output without its final newline ------------------------- *)

Lemma lines_end cs :
  concat (map (fun c => c ++ [LF]) cs) = []
  \/ exists x, concat (map (fun c => c ++ [LF]) cs) = x ++ [LF].
Proof.
  induction cs as [|c cs IH]; [left; reflexivity|]. right. cbn [map concat].
  destruct IH as [-> | [x ->]].
  - exists c. rewrite app_nil_r. reflexivity.
  - exists (c ++ [LF] ++ x). rewrite <- !app_assoc. reflexivity.
Qed.

Lemma write_end r : exists x, write r = (GT :: x) ++ [LF].
Proof.
  rewrite write_eq. destruct (lines_end (chunks (seq r))) as [-> | [x ->]].
  - exists (name r). rewrite app_nil_r. reflexivity.
  - exists (name r ++ [LF] ++ x). cbn [app]. rewrite <- !app_assoc. reflexivity.
Qed.

Lemma writes_end rs : rs <> [] ->
  exists y, y <> [] /\ concat (map write rs) = y ++ [LF].
Proof.
  induction rs as [|r rs IH]; intros N; [congruence|].
  cbn [map concat]. destruct (write_end r) as [x ->].
  destruct rs as [|r' rs'].
  - cbn [map concat]. exists (GT :: x). split; [discriminate|]. apply app_nil_r.
  - destruct IH as (y & _ & ->); [discriminate|].
    exists (((GT :: x) ++ [LF]) ++ y). split; [discriminate|].
    rewrite <- !app_assoc. reflexivity.
Qed.

Lemma no_final_newline rs : Forall fa_ok rs -> rs <> [] ->
  decode (removelast (concat (map write rs))) TEOF = map Rec rs.
Proof.
  intros H N. destruct (writes_end rs N) as (y & Hy & E).
  rewrite <- (write_read_roundtrip rs H). rewrite E.
  rewrite removelast_last. symmetry.
  apply trailing_newlines_ignored; [exact Hy | repeat constructor].
Qed.
