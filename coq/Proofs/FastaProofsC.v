(* Proofs/FastaProofsC.v *)
From Bio Require Import Base.
