(* Proofs/FastqProofs.v — facts about the Scanner contract of Base.v
   (split_on, lines_tail, drop_cr, scan_tokens) and about the FASTQ writer. *)
From Bio Require Import Base.
From Bio.Model Require Import Fastq.
From Bio.Spec Require Import FastqSpec.

(* ------------------------------------------------------------------ *)
(* split_on                                                             *)

Lemma split_on_nonempty : forall sep s, split_on sep s <> [].
Proof.
  intros sep s. destruct s as [|c r]; cbn [split_on].
  - discriminate.
  - destruct (c =? sep). discriminate.
    destruct (split_on sep r); discriminate.
Qed.

Lemma split_on_line : forall l rest, no_lf l ->
  split_on LF (l ++ LF :: rest) = l :: split_on LF rest.
Proof.
  induction l as [|c l IH]; intros rest H.
  - cbn [app split_on]. rewrite N.eqb_refl. reflexivity.
  - cbn [app split_on].
    assert (Hc : c =? LF = false).
    { apply N.eqb_neq. intro E. apply H. left. exact E. }
    rewrite Hc. rewrite IH. reflexivity.
    intro Hin. apply H. right. exact Hin.
Qed.

Lemma split_on_last : forall l, no_lf l -> split_on LF l = [l].
Proof.
  induction l as [|c l IH]; intros H.
  - reflexivity.
  - cbn [split_on].
    assert (Hc : c =? LF = false).
    { apply N.eqb_neq. intro E. apply H. left. exact E. }
    rewrite Hc. rewrite IH. reflexivity.
    intro Hin. apply H. right. exact Hin.
Qed.

Lemma lines_tail_cons : forall a ps, ps <> [] -> lines_tail (a :: ps) = a :: lines_tail ps.
Proof. intros a ps H. destruct ps as [|b r]. contradiction. reflexivity. Qed.

(* ------------------------------------------------------------------ *)
(* scan_tokens                                                          *)

Lemma scan_tokens_nil : scan_tokens [] = [].
Proof. reflexivity. Qed.

(* a complete line is one token, whatever follows *)
Lemma scan_tokens_line : forall l rest, no_lf l ->
  scan_tokens (l ++ LF :: rest) = drop_cr l :: scan_tokens rest.
Proof.
  intros l rest H. unfold scan_tokens. rewrite split_on_line by exact H.
  rewrite lines_tail_cons by apply split_on_nonempty. reflexivity.
Qed.

(* a final unterminated non-empty line is a token *)
Lemma scan_tokens_last : forall l, no_lf l -> l <> [] -> scan_tokens l = [drop_cr l].
Proof.
  intros l H Hne. unfold scan_tokens. rewrite split_on_last by exact H.
  destruct l. contradiction. reflexivity.
Qed.

Lemma scan_tokens_lf : forall rest, scan_tokens (LF :: rest) = [] :: scan_tokens rest.
Proof. intros rest. apply (scan_tokens_line [] rest). intros []. Qed.

(* ------------------------------------------------------------------ *)
(* drop_cr                                                              *)

Lemma drop_cr_no_cr : forall l, ~ In CR l -> drop_cr l = l.
Proof.
  induction l as [|c l IH]; intros H. reflexivity.
  destruct l as [|d l].
  - cbn [drop_cr].
    assert (Hc : c =? 13 = false).
    { apply N.eqb_neq. intro E. apply H. left. exact E. }
    rewrite Hc. reflexivity.
  - change (drop_cr (c :: d :: l)) with (c :: drop_cr (d :: l)).
    rewrite IH. reflexivity. intro Hin. apply H. right. exact Hin.
Qed.

(* the first byte of what drop_cr leaves is the first byte of the line *)
Lemma drop_cr_head : forall l b r, drop_cr l = b :: r -> exists r', l = b :: r'.
Proof.
  intros l b r H. destruct l as [|c l]. discriminate.
  destruct l as [|d l].
  - cbn [drop_cr] in H. destruct (c =? 13). discriminate.
    injection H as E _. subst. exists []. reflexivity.
  - change (drop_cr (c :: d :: l)) with (c :: drop_cr (d :: l)) in H.
    injection H as E _. subst. exists (d :: l). reflexivity.
Qed.

(* ------------------------------------------------------------------ *)
(* fields                                                               *)

Lemma memb_lfcr_false : forall b, memb b [LF; CR] = false -> b <> LF /\ b <> CR.
Proof.
  intros b H. unfold memb in H. cbn [existsb] in H.
  apply orb_false_elim in H. destruct H as [H1 H2].
  apply orb_false_elim in H2. destruct H2 as [H2 _].
  apply N.eqb_neq in H1. apply N.eqb_neq in H2. split; assumption.
Qed.

Lemma field_ok_no_lf : forall s, field_ok s -> no_lf s.
Proof.
  intros s H Hin. unfold field_ok, clean in H. rewrite Forall_forall in H.
  apply H in Hin. apply memb_lfcr_false in Hin. destruct Hin as [A _]. apply A. reflexivity.
Qed.

Lemma field_ok_no_cr : forall s, field_ok s -> ~ In CR s.
Proof.
  intros s H Hin. unfold field_ok, clean in H. rewrite Forall_forall in H.
  apply H in Hin. apply memb_lfcr_false in Hin. destruct Hin as [_ A]. apply A. reflexivity.
Qed.

Lemma field_ok_drop_cr : forall s, field_ok s -> drop_cr s = s.
Proof. intros s H. apply drop_cr_no_cr. apply field_ok_no_cr. exact H. Qed.

Lemma field_okb_spec : forall s, field_okb s = true <-> field_ok s.
Proof.
  intros s. unfold field_okb, cleanb, field_ok, clean.
  rewrite forallb_forall, Forall_forall. split; intros H x Hx.
  - apply H in Hx. apply negb_true_iff in Hx. exact Hx.
  - apply H in Hx. apply negb_true_iff. exact Hx.
Qed.

Lemma fq_okb_spec : forall r, fq_okb r = true <-> fq_ok r.
Proof.
  intros r. unfold fq_okb, fq_ok.
  rewrite !andb_true_iff, !field_okb_spec, Nat.eqb_eq. tauto.
Qed.

Lemma no_lf_cons : forall b l, b <> LF -> no_lf l -> no_lf (b :: l).
Proof. intros b l Hb Hl [E|Hin]. apply Hb. exact E. apply Hl. exact Hin. Qed.

(* ------------------------------------------------------------------ *)
(* the writer                                                           *)

Lemma write_unlines : forall r, write r = unlines (record_lines r).
Proof.
  intros r. unfold write, unlines, record_lines. cbn [map concat].
  repeat (rewrite <- ?app_assoc; cbn [app]). reflexivity.
Qed.

Lemma write_app : forall r rest,
  write r ++ rest
  = (AT :: name r) ++ LF :: (seq r ++ LF :: ([PLUS] ++ LF :: (quals r ++ LF :: rest))).
Proof.
  intros r rest. unfold write.
  repeat (rewrite <- ?app_assoc; cbn [app]). reflexivity.
Qed.

Lemma write_length : forall r,
  length (write r) = (6 + length (name r) + length (seq r) + length (quals r))%nat.
Proof.
  intros r. unfold write. cbn [length]. rewrite app_length. cbn [length].
  rewrite app_length. cbn [length]. rewrite app_length. cbn [length]. lia.
Qed.

(* MarshalText never panics and returns what Write writes: for every record. *)
Lemma marshal_total : forall r, marshal_text r = Ok (write r).
Proof.
  intros r. unfold marshal_text, write_calls. cbn [concat]. rewrite app_nil_r.
  rewrite write_length. rewrite Nat.eqb_refl. reflexivity.
Qed.

Lemma write_calls_single : forall r, write_calls r = [write r] /\ concat (write_calls r) = write r.
Proof. intros r. split. reflexivity. unfold write_calls. cbn [concat]. apply app_nil_r. Qed.

Lemma count_lf_app : forall a b, count_lf (a ++ b) = (count_lf a + count_lf b)%nat.
Proof. intros a b. unfold count_lf. apply count_occ_app. Qed.

Lemma count_lf_no_lf : forall l, no_lf l -> count_lf l = 0%nat.
Proof. intros l H. unfold count_lf. apply count_occ_not_In. exact H. Qed.

Lemma count_lf_line : forall l rest, no_lf l -> count_lf (l ++ LF :: rest) = S (count_lf rest).
Proof.
  intros l rest H. rewrite count_lf_app, (count_lf_no_lf l H).
  unfold count_lf. cbn [count_occ]. destruct (N.eq_dec LF LF) as [_|N]. reflexivity.
  exfalso. apply N. reflexivity.
Qed.

Lemma at_no_lf : forall s, no_lf s -> no_lf (AT :: s).
Proof. intros s H. apply no_lf_cons. discriminate. exact H. Qed.

Lemma plus_no_lf : no_lf [PLUS].
Proof. intros [E|[]]. discriminate E. Qed.

(* Each record is written as exactly four lines '@name', sequence, '+',
   qualities: four LFs, and splitting at LF gives back the four lines. *)
Lemma four_lines : forall r,
  no_lf (name r) -> no_lf (seq r) -> no_lf (quals r) ->
  write r = unlines [AT :: name r; seq r; [PLUS]; quals r]
  /\ count_lf (write r) = 4%nat
  /\ split_on LF (write r) = [AT :: name r; seq r; [PLUS]; quals r; []].
Proof.
  intros r Hn Hs Hq. split. apply write_unlines.
  rewrite <- (app_nil_r (write r)). rewrite write_app. split.
  - rewrite count_lf_line by (apply at_no_lf; exact Hn).
    rewrite count_lf_line by exact Hs.
    rewrite count_lf_line by exact plus_no_lf.
    rewrite count_lf_line by exact Hq. reflexivity.
  - rewrite split_on_line by (apply at_no_lf; exact Hn).
    rewrite split_on_line by exact Hs.
    rewrite split_on_line by exact plus_no_lf.
    rewrite split_on_line by exact Hq. reflexivity.
Qed.

Lemma four_lines_ok : forall r, fq_ok r ->
  write r = unlines [AT :: name r; seq r; [PLUS]; quals r]
  /\ count_lf (write r) = 4%nat
  /\ split_on LF (write r) = [AT :: name r; seq r; [PLUS]; quals r; []].
Proof.
  intros r (Hn & Hs & Hq & _). apply four_lines; apply field_ok_no_lf; assumption.
Qed.

(* the tokens of a written record followed by anything *)
Lemma scan_tokens_write : forall r rest, fq_ok r ->
  scan_tokens (write r ++ rest)
  = (AT :: name r) :: seq r :: [PLUS] :: quals r :: scan_tokens rest.
Proof.
  intros r rest (Hn & Hs & Hq & _). rewrite write_app.
  rewrite scan_tokens_line by (apply at_no_lf, field_ok_no_lf; exact Hn).
  rewrite scan_tokens_line by (apply field_ok_no_lf; exact Hs).
  rewrite scan_tokens_line by exact plus_no_lf.
  rewrite scan_tokens_line by (apply field_ok_no_lf; exact Hq).
  rewrite (field_ok_drop_cr _ Hs), (field_ok_drop_cr _ Hq).
  replace (drop_cr (AT :: name r)) with (AT :: name r).
  reflexivity.
  symmetry. apply drop_cr_no_cr. intros [E|Hin]. discriminate E.
  apply (field_ok_no_cr _ Hn). exact Hin.
Qed.
