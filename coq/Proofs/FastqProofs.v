(* Proofs/FastqProofs.v *)
From Bio Require Import Base.
