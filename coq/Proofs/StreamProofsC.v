(* Proofs/StreamProofsC.v *)
From Bio Require Import Base.
