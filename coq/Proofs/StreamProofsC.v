(* Proofs/StreamProofsC.v — C07, first half: a stream that fails after k bytes
   of a well-formed input delivers leading records of the fault-free decode,
   then exactly one error. *)
From Coq Require Import String.
From Bio Require Import Base.
From Bio.Model Require Fasta Fastq Sam Bed Newick.
From Bio.Model Require Import Stream.
From Bio.Spec Require FastaSpec FastqSpec SamSpec BedSpec NewickSpec.
From Bio.Proofs Require FastaProofs FastaProofsB FastaProofsC FastqProofs FastqProofsB FastqProofsC
  SamProofs SamProofsB SamProofsC BedProofs BedProofsB BedProofsC
  NewickProofs NewickProofsB NewickProofsC.
From Bio.Proofs Require Import StreamProofs StreamProofsB.
Open Scope N_scope.

(* ================================================================== *)
(* prefixes of concatenations                                           *)

Definition lines_text (ls : list bytes) : bytes := concat (map (fun l => l ++ [LF]) ls).

(* a prefix of a text made of LF-terminated lines: some complete lines, then
   a (possibly empty) prefix of the next line, without its LF *)
Lemma firstn_lines : forall ls k, exists j tail rest,
  (j <= length ls)%nat
  /\ firstn k (lines_text ls) = lines_text (firstn j ls) ++ tail
  /\ nth j ls [] = tail ++ rest.
Proof.
  unfold lines_text. unfold bytes, byte.
  induction ls as [|l r IH]; intro k.
  - exists 0%nat, [], []. split; [apply Nat.le_refl|]. split; [now rewrite firstn_nil | reflexivity].
  - destruct (Nat.le_gt_cases k (length l)) as [Hk|Hk].
    + exists 0%nat, (firstn k l), (skipn k l). split; [apply Nat.le_0_l|]. split.
      * cbn [map concat firstn app]. rewrite <- app_assoc, firstn_app.
        replace (k - length l)%nat with 0%nat by lia. now rewrite firstn_O, app_nil_r.
      * cbn [nth]. now rewrite firstn_skipn.
    + destruct (IH (k - length l - 1)%nat) as (j & tail & rest & Hj & E & Hn).
      exists (S j), tail, rest. split; [cbn [length]; lia|]. split; [|exact Hn].
      cbn [map concat firstn]. rewrite <- !app_assoc.
      rewrite firstn_app, (firstn_all2 l) by lia. f_equal.
      replace (k - length l)%nat with (S (k - length l - 1)) by lia.
      cbn [app firstn]. f_equal. exact E.
Qed.

(* a prefix of a concatenation of blocks: empty, or some complete blocks and
   then a non-empty prefix (possibly all) of the next block *)
Lemma firstn_concat : forall (l : list bytes) k,
  firstn k (concat l) = []
  \/ exists j x m, nth_error l j = Some x /\ (0 < m <= length x)%nat
       /\ firstn k (concat l) = concat (firstn j l) ++ firstn m x.
Proof.
  unfold bytes, byte.
  induction l as [|x r IH]; intro k.
  - left. apply firstn_nil.
  - destruct k as [|k']; [left; reflexivity|]. remember (S k') as k.
    destruct (Nat.le_gt_cases k (length x)) as [Hk|Hk].
    + right. exists 0%nat, x, k. split; [reflexivity|]. split; [lia|].
      cbn [concat firstn app]. rewrite firstn_app.
      replace (k - length x)%nat with 0%nat by lia. now rewrite firstn_O, app_nil_r.
    + cbn [concat]. rewrite firstn_app, (firstn_all2 x) by lia.
      destruct (IH (k - length x)%nat) as [E|(j & y & m & Hn & Hm & E)].
      * rewrite E, app_nil_r. destruct x as [|b x'] eqn:Ex; [now left|].
        right. exists 0%nat, (b :: x'), (length (b :: x')). split; [reflexivity|].
        split; [cbn [length]; lia|]. cbn [firstn concat app]. now rewrite firstn_all.
      * right. exists (S j), y, m. split; [exact Hn|]. split; [exact Hm|].
        rewrite E. cbn [firstn concat]. now rewrite app_assoc.
Qed.

Lemma firstn_snoc {A} (l : list A) : forall j x, nth_error l j = Some x ->
  firstn (S j) l = firstn j l ++ [x].
Proof.
  induction l as [|a l IH]; intros [|j] x H; try discriminate.
  - injection H as ->. reflexivity.
  - cbn [nth_error] in H. change (firstn (S (S j)) (a :: l)) with (a :: firstn (S j) l).
    now rewrite (IH j x H).
Qed.

Lemma nth_error_le {A} (l : list A) j x : nth_error l j = Some x -> (S j <= length l)%nat.
Proof. intro H. apply Nat.le_succ_l. apply nth_error_Some. congruence. Qed.

Lemma nth_error_Forall {A} (P : A -> Prop) l j x : Forall P l -> nth_error l j = Some x -> P x.
Proof. intros H Hn. rewrite Forall_forall in H. apply H. eapply nth_error_In. exact Hn. Qed.

Lemma Forall_firstn {A} (P : A -> Prop) n l : Forall P l -> Forall P (firstn n l).
Proof.
  intro H. revert n. induction H as [|a l Ha _ IH]; intros [|n]; try constructor; [exact Ha | apply IH].
Qed.

Lemma Forall2_len {A B} (R : A -> B -> Prop) l l' : Forall2 R l l' -> length l = length l'.
Proof. induction 1; [reflexivity | cbn [length]; congruence]. Qed.

Lemma nth_Forall {A} (P : A -> Prop) l j d : Forall P l -> P d -> P (nth j l d).
Proof.
  intros H Hd. revert j. induction H as [|a l Ha _ IH]; intros [|j]; cbn [nth]; auto.
Qed.

(* ================================================================== *)
(* items of line-oriented readers                                       *)

(* every line yields exactly one record *)
Lemma flat_map_singletons {A B} (f : A -> list (item B)) ls es :
  Forall2 (fun l e => f l = [Rec e]) ls es ->
  forall j, flat_map f (firstn j ls) = map Rec (firstn j es).
Proof.
  induction 1 as [|l e ls es Hle _ IH]; intros [|j]; try reflexivity.
  cbn [firstn flat_map map]. now rewrite Hle, IH.
Qed.

Lemma flat_map_singletons_all {A B} (f : A -> list (item B)) ls es :
  Forall2 (fun l e => f l = [Rec e]) ls es -> flat_map f ls = map Rec es.
Proof.
  induction 1 as [|l e ls es Hle _ IH]; [reflexivity|]. cbn [flat_map map]. now rewrite Hle, IH.
Qed.

(* ================================================================== *)
(* SAM                                                                  *)

Lemma sam_line_entries o hs rs :
  Forall SamSpec.header_ok hs -> Forall (SamSpec.sam_ok o) rs ->
  exists rs', Forall2 SamSpec.sam_eq rs rs'
    /\ Forall2 (fun l e => Sam.process_line o l = [Rec e])
               (hs ++ map (SamProofsB.line o) rs) (map Sam.Hdr hs ++ map Sam.Aln rs').
Proof.
  intros Hh Hr.
  assert (A : Forall2 (fun l e => Sam.process_line o l = [Rec e]) hs (map Sam.Hdr hs)).
  { induction Hh as [|h hs Hh _ IH]; constructor; [now apply SamProofsC.process_header | exact IH]. }
  assert (B : exists rs', Forall2 SamSpec.sam_eq rs rs'
     /\ Forall2 (fun l e => Sam.process_line o l = [Rec e]) (map (SamProofsB.line o) rs) (map Sam.Aln rs')).
  { induction Hr as [|r rs Hr _ [rs' [E1 E2]]].
    - exists []. split; constructor.
    - destruct (SamProofsB.process_line_written o r Hr) as [r' [Hp He]].
      exists (r' :: rs'). split; constructor; assumption. }
  destruct B as [rs' [E1 E2]]. exists rs'. split; [exact E1|]. now apply Forall2_app.
Qed.

Lemma fault_prefix_sam o hs rs k :
  Forall SamSpec.header_ok hs -> Forall (SamSpec.sam_ok o) rs ->
  exists es j,
    Sam.reader_header o (sam_file o hs rs) TEOF = map Rec es
    /\ (j <= length es)%nat
    /\ Sam.reader_header o (firstn k (sam_file o hs rs)) TErr = map Rec (firstn j es) ++ [ErrItem].
Proof.
  intros Hh Hr. destruct (sam_file_lines o hs rs Hh Hr) as (E & Hlf & _).
  destruct (sam_line_entries o hs rs Hh Hr) as (rs' & _ & F2).
  set (ls := hs ++ map (SamProofsB.line o) rs) in *.
  exists (map Sam.Hdr hs ++ map Sam.Aln rs').
  destruct (firstn_lines ls k) as (j & tail & rest & Hj & Ek & Hn).
  exists j. split; [|split].
  - rewrite E, (SamProofsC.reader_header_lines o ls Hlf). now apply flat_map_singletons_all.
  - rewrite <- (Forall2_len _ _ _ F2). exact Hj.
  - rewrite E. fold (lines_text ls). rewrite Ek. unfold lines_text.
    rewrite SamProofsC.reader_header_lines_err.
    + f_equal. now apply flat_map_singletons.
    + now apply Forall_firstn.
    + assert (Hnth : SamProofs.nosep LF (nth j ls [])) by (apply nth_Forall; [exact Hlf | constructor]).
      rewrite Hn in Hnth. unfold SamProofs.nosep in *. now apply Forall_app in Hnth as [A _].
Qed.

(* the same for Reader (header lines filtered out) *)
Lemma filter_hdrs hs : flat_map Sam.reader_filter (map Rec (map Sam.Hdr hs)) = [].
Proof. induction hs as [|h hs IH]; [reflexivity|]. cbn [map flat_map Sam.reader_filter app]. exact IH. Qed.

Lemma filter_alns rs : flat_map Sam.reader_filter (map Rec (map Sam.Aln rs)) = map Rec rs.
Proof. induction rs as [|r rs IH]; [reflexivity|]. cbn [map flat_map Sam.reader_filter app]. now rewrite IH. Qed.

Lemma fault_prefix_sam_reader o hs rs k :
  Forall SamSpec.header_ok hs -> Forall (SamSpec.sam_ok o) rs ->
  exists rs' j,
    Sam.reader o (sam_file o hs rs) TEOF = map Rec rs'
    /\ (j <= length rs')%nat
    /\ Sam.reader o (firstn k (sam_file o hs rs)) TErr = map Rec (firstn j rs') ++ [ErrItem].
Proof.
  intros Hh Hr. destruct (sam_file_lines o hs rs Hh Hr) as (E & Hlf & _).
  destruct (sam_line_entries o hs rs Hh Hr) as (rs' & _ & F2).
  set (ls := hs ++ map (SamProofsB.line o) rs) in *.
  destruct (firstn_lines ls k) as (j & tail & rest & Hj & Ek & Hn).
  exists rs', (j - length hs)%nat. unfold Sam.reader. split; [|split].
  - rewrite E, (SamProofsC.reader_header_lines o ls Hlf), (flat_map_singletons_all _ _ _ F2).
    now rewrite map_app, flat_map_app, filter_hdrs, filter_alns.
  - apply Forall2_len in F2. unfold ls in *. rewrite !app_length, !map_length in *. lia.
  - rewrite E. fold (lines_text ls). rewrite Ek. unfold lines_text.
    rewrite SamProofsC.reader_header_lines_err.
    + rewrite (flat_map_singletons _ _ _ F2 j), flat_map_app. cbn [flat_map Sam.reader_filter app].
      f_equal. rewrite firstn_app, map_app, flat_map_app, map_length.
      rewrite !firstn_map, filter_hdrs, filter_alns. reflexivity.
    + now apply Forall_firstn.
    + assert (Hnth : SamProofs.nosep LF (nth j ls [])) by (apply nth_Forall; [exact Hlf | constructor]).
      rewrite Hn in Hnth. unfold SamProofs.nosep in *. now apply Forall_app in Hnth as [A _].
Qed.

(* ================================================================== *)
(* BED                                                                  *)

Lemma dec_lines_written_err k bs tail : Forall (fun b => BedSpec.bed_ok b /\ Bed.b_n b = k) bs ->
  forall n, (n = 0 \/ n = Z.to_nat k)%nat ->
  Bed.dec_lines n (map BedProofsB.line_of bs) tail TErr
  = map (fun b => Rec (BedSpec.first_n b)) bs ++ [ErrItem].
Proof.
  induction 1 as [|b bs [Hb Hk] _ IH]; intros n Hn; [reflexivity|].
  cbn [map Bed.dec_lines]. rewrite (BedProofsC.do_line_written n b Hb) by (rewrite Hk; exact Hn).
  rewrite Hk. rewrite IH by (right; reflexivity). reflexivity.
Qed.

Lemma fault_prefix_bed n0 bs w k :
  Forall (fun b => BedSpec.bed_ok b /\ Bed.b_n b = n0) bs -> bed_file bs = Ok w ->
  exists j, (j <= length bs)%nat
    /\ Bed.decode (firstn k w) TErr
       = map (fun b => Rec (BedSpec.first_n b)) (firstn j bs) ++ [ErrItem].
Proof.
  intros H Hw.
  assert (Hok : Forall BedSpec.bed_ok bs) by (eapply Forall_impl; [|exact H]; now intros b [A _]).
  unfold bed_file in Hw.
  rewrite BedProofsC.write_file_text in Hw by (eapply Forall_impl; [|exact Hok]; now intros b [A _]).
  injection Hw as <-.
  assert (Hlf : Forall (BedProofs.nob LF) (map BedProofsB.line_of bs)).
  { apply Forall_map. eapply Forall_impl; [|exact Hok]. intros b Hb.
    apply BedProofsB.line_nob; [exact Hb | discriminate | reflexivity]. }
  assert (Et : BedProofsC.text_of bs = lines_text (map BedProofsB.line_of bs)).
  { unfold BedProofsC.text_of, lines_text. now rewrite map_map. }
  destruct (firstn_lines (map BedProofsB.line_of bs) k) as (j & tail & rest & Hj & Ek & Hn).
  exists j. rewrite map_length in Hj. split; [exact Hj|].
  rewrite Et, Ek. unfold Bed.decode.
  assert (Ht : SamProofs.nosep LF tail).
  { assert (Hnth : BedProofs.nob LF (nth j (map BedProofsB.line_of bs) []))
      by (apply nth_Forall; [exact Hlf | constructor]).
    rewrite Hn in Hnth. unfold BedProofs.nob in *. now apply Forall_app in Hnth as [A _]. }
  pose proof (SamProofsC.rs_lines_tail _ tail (Forall_firstn _ j _ Hlf) Ht) as X.
  unfold lines_text. unfold bytes, byte in *. rewrite X.
  rewrite firstn_map.
  apply (dec_lines_written_err n0); [now apply Forall_firstn | now left].
Qed.

(* ================================================================== *)
(* FASTQ                                                                *)

Lemma nth_error_map_inv {A B} (f : A -> B) l : forall j x,
  nth_error (map f l) j = Some x -> exists a, nth_error l j = Some a /\ x = f a.
Proof.
  induction l as [|a l IH]; intros [|j] x H; try discriminate.
  - injection H as <-. now exists a.
  - cbn [map nth_error] in *. now apply IH.
Qed.

Lemma scan_tokens_lines ls tail : Forall FastqSpec.no_lf ls -> FastqSpec.no_lf tail ->
  scan_tokens (lines_text ls ++ tail)
  = map drop_cr ls ++ match tail with [] => [] | _ => [drop_cr tail] end.
Proof.
  intros H Ht. induction H as [|l ls Hl _ IH].
  - cbn [lines_text map concat app]. destruct tail as [|b tl]; [reflexivity|].
    now apply FastqProofs.scan_tokens_last.
  - unfold lines_text in *. cbn [map concat]. rewrite <- !app_assoc. cbn [app].
    rewrite FastqProofs.scan_tokens_line by exact Hl. cbn [map app]. f_equal. exact IH.
Qed.

Lemma no_lf_prefix a b : FastqSpec.no_lf (a ++ b) -> FastqSpec.no_lf a.
Proof. intros H Hin. apply H. apply in_or_app. now left. Qed.

Lemma no_cr_prefix (a b : bytes) : ~ In CR (a ++ b) -> ~ In CR a.
Proof. intros H Hin. apply H. apply in_or_app. now left. Qed.

(* what a stream that fails inside (or right after) one written record yields *)
Lemma fastq_partial r m : FastqSpec.fq_ok r ->
  Fastq.decode (firstn m (Fastq.write r)) TErr = [ErrItem]
  \/ Fastq.decode (firstn m (Fastq.write r)) TErr = [Rec r; ErrItem].
Proof.
  intros Hok. pose proof Hok as (Hn & Hs & Hq & Hlen).
  pose proof (FastqProofs.field_ok_no_lf _ Hn) as Ln.
  pose proof (FastqProofs.field_ok_no_lf _ Hs) as Ls.
  pose proof (FastqProofs.field_ok_no_lf _ Hq) as Lq.
  pose proof (FastqProofs.field_ok_drop_cr _ Hs) as Ds.
  pose proof (FastqProofs.field_ok_drop_cr _ Hq) as Dq.
  assert (Dn : drop_cr (Fastq.AT :: Fastq.name r) = Fastq.AT :: Fastq.name r).
  { apply FastqProofs.drop_cr_no_cr. intros [E|Hin]; [discriminate|].
    exact (FastqProofs.field_ok_no_cr _ Hn Hin). }
  assert (L1 : FastqSpec.no_lf (Fastq.AT :: Fastq.name r)) by now apply FastqProofs.at_no_lf.
  pose proof FastqProofs.plus_no_lf as L3.
  rewrite FastqProofs.write_unlines.
  change (FastqSpec.unlines (FastqSpec.record_lines r))
    with (lines_text [Fastq.AT :: Fastq.name r; Fastq.seq r; [Fastq.PLUS]; Fastq.quals r]).
  destruct (firstn_lines [Fastq.AT :: Fastq.name r; Fastq.seq r; [Fastq.PLUS]; Fastq.quals r] m)
    as (i & tail & rest & Hi & E & Hnth).
  rewrite E. unfold Fastq.decode.
  assert (Hnl : FastqSpec.no_lf []) by (intros []).
  destruct i as [|[|[|[|[|i]]]]]; cbn [nth firstn] in Hnth |- *; cbn [length] in Hi; try lia.
  - (* inside the first line *)
    rewrite scan_tokens_lines; [|constructor | rewrite Hnth in L1; now apply no_lf_prefix in L1].
    left. destruct tail; [reflexivity|]. apply FastqProofsC.err_short. cbn [map app length]. lia.
  - rewrite scan_tokens_lines;
      [|repeat constructor; assumption | rewrite Hnth in Ls; now apply no_lf_prefix in Ls].
    left. apply FastqProofsC.err_short. destruct tail; cbn [map app length]; lia.
  - rewrite scan_tokens_lines;
      [|repeat constructor; assumption | rewrite Hnth in L3; now apply no_lf_prefix in L3].
    left. apply FastqProofsC.err_short. destruct tail; cbn [map app length]; lia.
  - (* inside the qualities line *)
    rewrite scan_tokens_lines;
      [|repeat constructor; assumption | rewrite Hnth in Lq; now apply no_lf_prefix in Lq].
    cbn [map app]. rewrite Dn, Ds.
    destruct tail as [|b tl] eqn:Et.
    + left. apply FastqProofsC.err_short. cbn [length]. lia.
    + rewrite <- Et in *. clear Et.
      assert (Dt : drop_cr tail = tail).
      { apply FastqProofs.drop_cr_no_cr. pose proof (FastqProofs.field_ok_no_cr _ Hq) as C.
        rewrite Hnth in C. now apply no_cr_prefix in C. }
      rewrite Dt. change (drop_cr [Fastq.PLUS]) with [Fastq.PLUS]. cbn [app].
      destruct (Nat.eq_dec (length tail) (length (Fastq.seq r))) as [El|Nl].
      * right. rewrite FastqProofsB.decode_toks_record by exact El.
        assert (Er : rest = []).
        { apply length_zero_iff_nil. apply (f_equal (@length N)) in Hnth.
          rewrite app_length in Hnth. lia. }
        subst rest. rewrite app_nil_r in Hnth. rewrite <- Hnth, FastqProofsB.fastq_eta. reflexivity.
      * left. now apply FastqProofsC.err_length.
  - (* the whole record *)
    assert (Et : tail = []) by (destruct tail; [reflexivity | discriminate]).
    subst tail. rewrite app_nil_r.
    rewrite <- (app_nil_r (lines_text _)).
    rewrite scan_tokens_lines; [|repeat constructor; assumption | exact Hnl].
    cbn [map app]. rewrite Dn, Ds, Dq. change (drop_cr [Fastq.PLUS]) with [Fastq.PLUS].
    right. rewrite FastqProofsB.decode_toks_record by (symmetry; exact Hlen).
    now rewrite FastqProofsB.fastq_eta.
Qed.

Lemma fault_prefix_fastq rs k : Forall FastqSpec.fq_ok rs ->
  exists j, (j <= length rs)%nat
    /\ Fastq.decode (firstn k (fastq_file rs)) TErr = map Rec (firstn j rs) ++ [ErrItem].
Proof.
  intro H. unfold fastq_file.
  destruct (firstn_concat (map Fastq.write rs) k) as [E | (j & x & m & Hn & Hm & E)].
  - exists 0%nat. split; [apply Nat.le_0_l|]. rewrite E. reflexivity.
  - apply nth_error_map_inv in Hn as (r & Hr & ->).
    rewrite E, firstn_map.
    rewrite FastqProofsB.decode_prefix by now apply Forall_firstn.
    pose proof (nth_error_le _ _ _ Hr) as Hj.
    destruct (fastq_partial r m (nth_error_Forall _ _ _ _ H Hr)) as [P|P]; rewrite P.
    + exists j. split; [lia | reflexivity].
    + exists (S j). split; [exact Hj|].
      rewrite (firstn_snoc rs j r Hr), map_app, <- app_assoc. reflexivity.
Qed.

(* ================================================================== *)
(* FASTA                                                                *)

(* if read() runs through c ++ rest without finding the start of a next
   record, it runs through c as well *)
Lemma rd_loop_prefix_none c : forall rest st nm sq any x,
  Fasta.rd_loop st nm sq any (c ++ rest) = (x, None) ->
  exists x', Fasta.rd_loop st nm sq any c = (x', None).
Proof.
  induction c as [|b c IH]; intros rest st nm sq any x H.
  - eexists. reflexivity.
  - cbn [app Fasta.rd_loop] in H |- *. destruct st.
    + destruct (b =? Fasta.GT); [|destruct (Fasta.is_nl b)]; eapply IH; exact H.
    + destruct (Fasta.is_nl b); [eapply IH; exact H|].
      destruct (b =? Fasta.GT); [discriminate | eapply IH; exact H].
    + destruct (Fasta.is_nl b); eapply IH; exact H.
    + destruct (Fasta.is_nl b); eapply IH; exact H.
Qed.

(* a read() that ended at the start of a next record did not consult the
   terminal condition *)
Lemma read_one_break inp r rest tm :
  Fasta.read_one inp TEOF = Fasta.RdRec r rest -> rest <> [] ->
  Fasta.read_one inp tm = Fasta.RdRec r rest.
Proof.
  unfold Fasta.read_one.
  destruct (Fasta.rd_loop Fasta.SStart [] [] false inp) as [[[nm sq] any] [rest'|]].
  - intros H _. exact H.
  - intros H Hne. destruct (negb any); [discriminate|]. injection H as _ <-. congruence.
Qed.

Lemma read_one_stuck c x :
  Fasta.rd_loop Fasta.SStart [] [] false c = (x, None) -> Fasta.read_one c TErr = Fasta.RdErr.
Proof.
  unfold Fasta.read_one. intros ->. destruct x as [[nm sq] any]. destruct (negb any); reflexivity.
Qed.

Lemma recl_write l r : FastaSpec.fa_ok r -> FastaSpec.RecL l r (Fasta.write r).
Proof.
  intro H. rewrite FastaProofsC.write_is_write_nl.
  apply FastaProofsC.recl_write_nl; [exact H | apply FastaProofsC.sep_lf].
Qed.

(* no prefix of a written record contains the start of a next record *)
Lemma write_stuck r m : FastaSpec.fa_ok r ->
  exists x, Fasta.rd_loop Fasta.SStart [] [] false (firstn m (Fasta.write r)) = (x, None).
Proof.
  intro Hok.
  assert (F : exists x, Fasta.rd_loop Fasta.SStart [] [] false (Fasta.write r) = (x, None)).
  { pose proof (FastaProofsB.rd_rec true r (Fasta.write r) (recl_write true r Hok) [] eq_refl) as H.
    rewrite app_nil_r in H. unfold Fasta.read_one in H.
    destruct (Fasta.rd_loop Fasta.SStart [] [] false (Fasta.write r)) as [x [rest|]] eqn:R;
      [|eexists; reflexivity].
    destruct x as [[nm sq] any]. injection H as _ Hr. subst rest. exfalso.
    eapply FastaProofsC.rd_loop_some_nonnil; [exact R | reflexivity]. }
  destruct F as [x F]. rewrite <- (firstn_skipn m (Fasta.write r)) in F.
  eapply rd_loop_prefix_none. exact F.
Qed.

Lemma decode_fuel_then_stuck pre : Forall FastaSpec.fa_ok pre -> forall c c' x f,
  c = Fasta.GT :: c' -> Fasta.rd_loop Fasta.SStart [] [] false c = (x, None) ->
  (length pre < f)%nat ->
  Fasta.decode_fuel f (concat (map Fasta.write pre) ++ c) TErr = map Rec pre ++ [ErrItem].
Proof.
  induction 1 as [|r pre Hr _ IH]; intros c c' x f Ec Hst Hf.
  - destruct f; [inversion Hf|]. cbn [map concat app Fasta.decode_fuel].
    now rewrite (read_one_stuck c x Hst).
  - destruct f; [inversion Hf|]. cbn [map concat]. rewrite <- app_assoc. cbn [Fasta.decode_fuel].
    assert (Hstop : exists r', concat (map Fasta.write pre) ++ c = Fasta.GT :: r').
    { destruct pre as [|r2 pre2].
      - cbn [map concat app]. subst c. eexists. reflexivity.
      - cbn [map concat]. destruct (FastaProofsC.write_end r2) as [y Ey]. rewrite Ey.
        cbn [app]. eexists. reflexivity. }
    pose proof (FastaProofsB.rd_rec false r (Fasta.write r) (recl_write false r Hr) _ Hstop) as R.
    cbn iota in R.
    rewrite (read_one_break _ _ _ TErr R) by (destruct Hstop as [r' ->]; discriminate).
    cbn [map app]. f_equal. apply (IH c c' x f Ec Hst). cbn [length] in Hf. lia.
Qed.

Lemma fault_prefix_fasta rs k : Forall FastaSpec.fa_ok rs ->
  exists j, (j <= length rs)%nat
    /\ Fasta.decode (firstn k (fasta_file rs)) TErr = map Rec (firstn j rs) ++ [ErrItem].
Proof.
  intro H. unfold fasta_file.
  destruct (firstn_concat (map Fasta.write rs) k) as [E | (j & x & m & Hn & Hm & E)].
  - exists 0%nat. split; [apply Nat.le_0_l|]. rewrite E. reflexivity.
  - apply nth_error_map_inv in Hn as (r & Hr & ->).
    pose proof (nth_error_le _ _ _ Hr) as Hj.
    pose proof (nth_error_Forall _ _ _ _ H Hr) as Hok.
    exists j. split; [lia|]. rewrite E, firstn_map.
    set (inp := concat (map Fasta.write (firstn j rs)) ++ firstn m (Fasta.write r)).
    rewrite <- (FastaProofsB.decode_fuel_sufficient inp TErr (S (length inp) + S (length (firstn j rs))))
      by lia.
    destruct (write_stuck r m Hok) as [x Hx].
    destruct (FastaProofsC.write_end r) as [y Ey].
    destruct m as [|m']; [lia|].
    eapply (decode_fuel_then_stuck (firstn j rs) (Forall_firstn _ j _ H) _ _ x).
    + rewrite Ey. cbn [app firstn]. reflexivity.
    + exact Hx.
    + lia.
Qed.

(* ================================================================== *)
(* Newick                                                               *)

(* The tokeniser on a prefix c of an input c ++ d, under a failing stream:
   it either fails (it needed a byte beyond c) or returns a token completed
   inside c, the same token it returns on the whole input. *)
Lemma tok_loop_prefix tm d : forall c q aq buf,
  match Newick.tok_loop q aq buf c TErr with
  | Newick.TokErr => True
  | Newick.TokOk tok r => Newick.tok_loop q aq buf (c ++ d) tm = Newick.TokOk tok (r ++ d)
  | Newick.TokEOF => False
  end.
Proof.
  induction c as [|b c IH]; intros q aq buf; [exact I|].
  cbn [app Newick.tok_loop]. destruct q.
  - destruct (b =? 39); [apply IH|]. destruct aq; [reflexivity | apply IH].
  - destruct (b =? 39).
    + destruct (Newick.nonempty buf); [exact I | apply IH].
    + destruct (Newick.is_punct b).
      * destruct (Newick.nonempty buf); reflexivity.
      * destruct (Newick.is_ws b); [|apply IH].
        destruct (Newick.nonempty buf); [reflexivity | apply IH].
Qed.

Definition extend (c : Newick.config) (d : bytes) : Newick.config :=
  {| Newick.c_state := Newick.c_state c; Newick.c_top := Newick.c_top c;
     Newick.c_below := Newick.c_below c; Newick.c_any := Newick.c_any c;
     Newick.c_input := Newick.c_input c ++ d |}.

Lemma read_step_prefix o tm d c :
  match Newick.read_step o TErr c with
  | Newick.Done Newick.RErr => True
  | Newick.Done Newick.RPanic => True
  | Newick.Done Newick.REOF => False
  | Newick.Done (Newick.ROk t r) =>
      Newick.read_step o tm (extend c d) = Newick.Done (Newick.ROk t (r ++ d))
  | Newick.Continue c' => Newick.read_step o tm (extend c d) = Newick.Continue (extend c' d)
  end.
Proof.
  unfold Newick.read_step, extend. cbn [Newick.c_input Newick.c_state Newick.c_top Newick.c_below Newick.c_any].
  unfold Newick.next_token.
  pose proof (tok_loop_prefix tm d (Newick.c_input c) false false []) as P.
  destruct (Newick.tok_loop false false [] (Newick.c_input c) TErr) as [tok rest| |];
    [|contradiction | exact I].
  rewrite P. clear P.
  destruct (Newick.c_state c), (Newick.c_below c); cbn [Newick.st_eqb negb orb];
    repeat match goal with
    | |- context [if ?b then _ else _] => destruct b
    | |- context [match ?x with Some _ => _ | None => _ end] => destruct x
    end; try exact I; reflexivity.
Qed.

Lemma read_loop_prefix o tm d : forall fuel c,
  match Newick.read_loop o fuel TErr c with
  | Newick.ROk t r => Newick.read_loop o fuel tm (extend c d) = Newick.ROk t (r ++ d)
  | Newick.REOF => False
  | _ => True
  end.
Proof.
  induction fuel as [|f IH]; intro c; [exact I|].
  cbn [Newick.read_loop]. pose proof (read_step_prefix o tm d c) as P.
  destruct (Newick.read_step o TErr c) as [c'|r].
  - rewrite P. apply IH.
  - destruct r; try exact I; [now rewrite P | contradiction].
Qed.

Lemma read_loop_mono o tm : forall f c r, Newick.read_loop o f tm c = r -> r <> Newick.RPanic ->
  forall f', (f <= f')%nat -> Newick.read_loop o f' tm c = r.
Proof.
  induction f as [|f IH]; intros c r H Hr f' Hf; [cbn in H; congruence|].
  destruct f' as [|f']; [inversion Hf|]. cbn [Newick.read_loop] in *.
  destruct (Newick.read_step o tm c) as [c'|r']; [|exact H].
  apply (IH c' r H Hr). lia.
Qed.

Lemma read_tree_prefix o tm c d :
  Newick.read_tree o c TErr = Newick.RErr
  \/ exists t r, Newick.read_tree o c TErr = Newick.ROk t r
                 /\ Newick.read_tree o (c ++ d) tm = Newick.ROk t (r ++ d).
Proof.
  unfold Newick.read_tree.
  pose proof (read_loop_prefix o tm d (S (length c)) (Newick.init_config c)) as P.
  destruct (Newick.read_loop o (S (length c)) TErr (Newick.init_config c)) as [t r| | |] eqn:E.
  - right. exists t, r. split; [reflexivity|].
    change (extend (Newick.init_config c) d) with (Newick.init_config (c ++ d)) in P.
    apply (read_loop_mono o tm _ _ _ P); [discriminate|]. rewrite app_length. lia.
  - contradiction.
  - now left.
  - exfalso. revert E. apply NewickProofsC.read_loop_no_panic. cbn [Newick.init_config Newick.c_input]. lia.
Qed.

(* a stream that fails inside a written tree (after leading whitespace) *)
Lemma read_tree_partial o t ws c d :
  NewickSpec.ws_string ws -> NewickSpec.floats_ok o t -> Newick.marshal o t = c ++ d -> d <> [] ->
  Newick.read_tree o (ws ++ c) TErr = Newick.RErr.
Proof.
  intros Hws Hok E Hd.
  destruct (read_tree_prefix o TEOF (ws ++ c) d) as [H | (t' & r & _ & H)]; [exact H|].
  exfalso. rewrite <- app_assoc, <- E in H.
  pose proof (NewickProofsC.read_tree_marshal o TEOF t ws [] Hws Hok) as R.
  rewrite app_nil_r in R. rewrite R in H. injection H as _ H.
  symmetry in H. apply app_eq_nil in H as [_ H]. contradiction.
Qed.

(* a stream that fails in the whitespace after a tree *)
Lemma read_tree_ws_err o ws : NewickSpec.ws_string ws -> Newick.read_tree o ws TErr = Newick.RErr.
Proof.
  intro H. unfold Newick.read_tree, Newick.init_config. cbn [Newick.read_loop]. unfold Newick.read_step.
  cbn [Newick.c_input Newick.c_any]. rewrite <- (app_nil_r ws).
  rewrite (NewickProofsB.next_token_skip_ws ws [] TErr H). reflexivity.
Qed.

Lemma seq_text_app o l1 l2 :
  NewickSpec.seq_text o (l1 ++ l2) = NewickSpec.seq_text o l1 ++ NewickSpec.seq_text o l2.
Proof.
  induction l1 as [|[t s] l1 IH]; [reflexivity|].
  cbn [app NewickSpec.seq_text]. now rewrite IH, !app_assoc.
Qed.

(* complete trees, then a text on which read() fails *)
Lemma decode_loop_seq_err o : forall l ws0 tail fuel acc,
  NewickSpec.ws_string ws0 ->
  Forall (fun p => NewickSpec.floats_ok o (fst p) /\ NewickSpec.ws_string (snd p)) l ->
  (forall ws, NewickSpec.ws_string ws -> Newick.read_tree o (ws ++ tail) TErr = Newick.RErr) ->
  (length (ws0 ++ NewickSpec.seq_text o l ++ tail) < fuel)%nat ->
  Newick.decode_loop o fuel (ws0 ++ NewickSpec.seq_text o l ++ tail) TErr acc
  = Ok (rev acc ++ map (fun p => Rec (NewickSpec.norm (fst p))) l ++ [ErrItem]).
Proof.
  induction l as [|[t sep] l IH]; intros ws0 tail fuel acc Hws HF Ht Hfuel.
  - destruct fuel as [|f]; [inversion Hfuel|].
    cbn [NewickSpec.seq_text app Newick.decode_loop map]. now rewrite (Ht ws0 Hws).
  - inversion HF as [|? ? [Hok Hsep] HF']; subst. cbn [fst snd] in *.
    destruct fuel as [|f]; [inversion Hfuel|].
    cbn [NewickSpec.seq_text Newick.decode_loop]. rewrite <- !app_assoc.
    rewrite (NewickProofsC.read_tree_marshal o TErr t ws0 _ Hws Hok).
    rewrite (IH sep tail f (Rec (NewickSpec.norm t) :: acc) Hsep HF' Ht).
    + cbn [rev map fst]. now rewrite <- !app_assoc.
    + cbn [NewickSpec.seq_text] in Hfuel. pose proof (NewickProofsC.marshal_length o t).
      rewrite !app_length in *. lia.
Qed.

Lemma fault_prefix_newick o ts k : Forall (NewickSpec.floats_ok o) ts ->
  exists j, (j <= length ts)%nat
    /\ Newick.decode o (firstn k (newick_file o ts)) TErr
       = Ok (map (fun t => Rec (NewickSpec.norm t)) (firstn j ts) ++ [ErrItem]).
Proof.
  intro H. unfold newick_file.
  destruct (firstn_concat (map (fun t => Newick.marshal o t ++ [LF]) ts) k)
    as [E | (j & x & m & Hn & Hm & E)].
  - exists 0%nat. split; [apply Nat.le_0_l|]. rewrite E. reflexivity.
  - apply nth_error_map_inv in Hn as (t & Ht & ->).
    pose proof (nth_error_le _ _ _ Ht) as Hj.
    pose proof (nth_error_Forall _ _ _ _ H Ht) as Hok.
    rewrite E, firstn_map, newick_lines_seq.
    match goal with |- context [NewickSpec.seq_text o ?p] => set (pre := p) end.
    assert (Hpre : Forall (fun p => NewickSpec.floats_ok o (fst p) /\ NewickSpec.ws_string (snd p)) pre).
    { apply Forall_map. apply Forall_firstn. eapply Forall_impl; [|exact H].
      intros t0 H0. split; [exact H0 | repeat constructor]. }
    assert (Emap : map (fun p => Rec (NewickSpec.norm (fst p))) pre
                   = map (fun t0 => Rec (NewickSpec.norm t0)) (firstn j ts)).
    { unfold pre. now rewrite map_map. }
    rewrite app_length in Hm. cbn [length] in Hm.
    destruct (Nat.lt_ge_cases m (length (Newick.marshal o t))) as [Hlt|Hge].
    + (* inside the tree *)
      exists j. split; [lia|].
      rewrite firstn_app. replace (m - length (Newick.marshal o t))%nat with 0%nat by lia.
      rewrite firstn_O, app_nil_r. unfold Newick.decode.
      pose proof (decode_loop_seq_err o pre [] (firstn m (Newick.marshal o t))
                    (S (length (NewickSpec.seq_text o pre ++ firstn m (Newick.marshal o t)))) []
                    (Forall_nil _) Hpre) as D.
      cbn [app rev] in D. unfold bytes, byte in *. rewrite D; [now rewrite Emap | | lia].
      intros ws Hws.
      apply (read_tree_partial o t ws _ (skipn m (Newick.marshal o t)) Hws Hok).
      * now rewrite firstn_skipn.
      * intro Hs. apply (f_equal (@length N)) in Hs. rewrite skipn_length in Hs. cbn in Hs. lia.
    + (* the whole tree, with or without the LF after it *)
      exists (S j). split; [exact Hj|].
      assert (Ec : exists sep, NewickSpec.ws_string sep
                   /\ firstn m (Newick.marshal o t ++ [LF]) = Newick.marshal o t ++ sep).
      { rewrite firstn_app, (firstn_all2 (Newick.marshal o t)) by lia.
        eexists. split; [|reflexivity].
        destruct (m - length (Newick.marshal o t))%nat as [|[|n]]; cbn [firstn]; repeat constructor. }
      destruct Ec as (sep & Hsep & ->).
      pose proof (decode_loop_seq_err o (pre ++ [(t, sep)]) [] []
                    (S (length (NewickSpec.seq_text o (pre ++ [(t, sep)]) ++ []))) []
                    (Forall_nil _)) as D.
      cbn [app rev] in D. rewrite seq_text_app in D. cbn [NewickSpec.seq_text] in D.
      rewrite !app_nil_r in D. unfold Newick.decode.
      unfold bytes, byte in *. rewrite D.
      * rewrite map_app, Emap. cbn [map fst].
        now rewrite (firstn_snoc ts j t Ht), map_app.
      * apply Forall_app. split; [exact Hpre|]. constructor; [now split | constructor].
      * intros ws Hws. rewrite app_nil_r. now apply read_tree_ws_err.
      * lia.
Qed.
