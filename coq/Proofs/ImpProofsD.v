(* Proofs/ImpProofsD.v — translated source vs hand-written model, part 4: package align.
   Get, decideOnStep, argmax, the in-place reversal of the steps, traceAlignmentSteps. *)
From Coq Require Import ZifyBool ZifyNat ZifyN.
From Bio Require Import Base.
From Bio.gen Require Import ImpGen.
From Bio.Model Require Import GoSem Align.
From Bio.Spec Require Import AlignSpec.
From Bio.Proofs Require Import AlignProofs ImpProofs ImpProofsB.
Open Scope Z_scope.

Ltac Zify.zify_post_hook ::= Z.div_mod_to_equations.

Definition step_n (s : step) : N := Z.to_N (step_code s).
Definition blk_of (c : cell) : imp_align_block := Imp_align_block (fst c) (step_n (snd c)).

(* ---- SubstitutionMatrix.Get ---------------------------------------------------------- *)
Lemma imp_Get m a b : imp_align_SubstitutionMatrix_Get m a b = of_outcome (get m a b).
Proof.
  unfold imp_align_SubstitutionMatrix_Get.
  induction m as [|[[x y] s] r IH]; cbn [assoc2 get]; [reflexivity|].
  destruct ((x =? a)%N && (y =? b)%N); [reflexivity|]. exact IH.
Qed.

(* ---- decideOnStep ------------------------------------------------------------------------ *)
Lemma imp_decideOnStep mch del ins :
  imp_align_decideOnStep mch del ins = Ret (blk_of (decide mch del ins)).
Proof.
  unfold imp_align_decideOnStep, decide. rewrite !Z.geb_leb.
  destruct ((del <=? mch) && (ins <=? mch)); [reflexivity|].
  destruct (ins <=? del); reflexivity.
Qed.

(* ---- argmax --------------------------------------------------------------------------------- *)
Definition argmax_body (blocks : list imp_align_block) : Z * imp_align_block -> Z -> res Z Z :=
  fun p imax => let i := fst p in let b := snd p in
  go_index blocks imax (fun t__1 => (if (Z.ltb (imp_align_block_score t__1) (imp_align_block_score b)) then let imax := i in Next imax else Next imax)).

Lemma argmax_loop (all : list cell) : forall suf pre imax best,
  all = pre ++ suf -> (0 <= imax < Z.of_nat (length all)) ->
  nth_error all (Z.to_nat imax) = Some best ->
  go_iter (argmax_body (map blk_of all)) (combine (zseq (Z.of_nat (length pre)) (length suf)) (map blk_of suf)) imax
  = Next (fst (argmax_from suf (Z.of_nat (length pre)) imax (fst best))).
Proof.
  induction suf as [|c suf IH]; intros pre imax best Hall Him Hb; [reflexivity|].
  cbn [length map]. rewrite zseq_cons. cbn [combine go_iter argmax_from].
  unfold argmax_body at 1. cbn [fst snd]. unfold go_index.
  destruct (Z.ltb_spec imax 0); [lia|]. rewrite nth_error_map, Hb. cbn [option_map blk_of imp_align_block_score].
  replace (fst c >? fst best) with (fst best <? fst c) by lia.
  assert (Hc : nth_error all (Z.to_nat (Z.of_nat (length pre))) = Some c).
  { rewrite Hall, Nat2Z.id, nth_error_app2 by lia. rewrite Nat.sub_diag. reflexivity. }
  assert (Hall' : all = (pre ++ [c]) ++ suf) by (rewrite <- app_assoc; exact Hall).
  assert (Hlen : Z.of_nat (length pre) + 1 = Z.of_nat (length (pre ++ [c]))) by (rewrite app_length; cbn [length]; lia).
  destruct (fst best <? fst c); cbv zeta; rewrite Hlen.
  - apply (IH (pre ++ [c]) _ c Hall'); [|exact Hc].
    rewrite Hall, app_length. cbn [length]. lia.
  - apply (IH (pre ++ [c]) _ best Hall'); assumption.
Qed.

Lemma imp_argmax blocks : blocks <> [] ->
  imp_align_argmax (map blk_of blocks) = Ret (fst (argmax blocks)).
Proof.
  intros Hne. unfold imp_align_argmax, argmax. cbv zeta.
  destruct blocks as [|c r]; [congruence|].
  unfold go_range, indexed. rewrite map_length.
  timeout 120 (change (go_iter _ _ 0) with (go_iter (argmax_body (map blk_of (c :: r))) (combine (zseq (Z.of_nat (length (@nil cell))) (length (c :: r))) (map blk_of (c :: r))) 0)).
  rewrite (argmax_loop (c :: r) (c :: r) [] 0 c eq_refl) by (cbn [length]; first [lia | reflexivity]).
  reflexivity.
Qed.

(* ---- the in-place reversal --------------------------------------------------------------------
   for i := 0; i < len(steps)/2; i++ { steps[i], steps[len(steps)-1-i] = steps[len(steps)-1-i], steps[i] } *)
Definition rev_cond : Z * list N -> res unit bool :=
  (fun '(i_2, steps) => Ret (Z.ltb i_2 (Z.quot (go_len steps) (2)%Z))).
Definition rev_body {R} : Z * list N -> res (Z * list N) R :=
  (fun '(i_2, steps) => go_index steps (Z.sub (Z.sub (go_len steps) (1)%Z) i_2) (fun t__5 => let t__6 := t__5 in go_index steps i_2 (fun t__7 => let t__8 := t__7 in go_set steps i_2 t__6 (fun t__9 => let steps := t__9 in go_set steps (Z.sub (Z.sub (go_len steps) (1)%Z) i_2) t__8 (fun t__10 => let steps := t__10 in let i_2 := (Z.add i_2 (1)%Z) in Next (i_2, steps)))))).

Lemma rev_body_step {R} pre x mid y post : length pre = length post ->
  rev_body (R := R) (Z.of_nat (length pre), pre ++ x :: mid ++ y :: post)
  = Next (Z.of_nat (length pre) + 1, pre ++ y :: mid ++ x :: post).
Proof.
  intros Hp. unfold rev_body. cbv zeta.
  assert (H1 : pre ++ x :: mid ++ y :: post = (pre ++ x :: mid) ++ y :: post) by (rewrite <- app_assoc; reflexivity).
  assert (Hi1 : go_len (pre ++ x :: mid ++ y :: post) - 1 - Z.of_nat (length pre) = go_len (pre ++ x :: mid)).
  { unfold go_len. rewrite !app_length. cbn [length]. rewrite app_length. cbn [length]. lia. }
  rewrite Hi1. rewrite H1 at 1. rewrite (go_index_mid (pre ++ x :: mid) y post _ _ eq_refl).
  rewrite (go_index_mid pre x (mid ++ y :: post) _ _ eq_refl).
  rewrite (go_set_mid pre x (mid ++ y :: post) _ _ _ eq_refl).
  assert (H3 : pre ++ y :: mid ++ y :: post = (pre ++ y :: mid) ++ y :: post) by (rewrite <- app_assoc; reflexivity).
  assert (Hi2 : go_len (pre ++ y :: mid ++ y :: post) - 1 - Z.of_nat (length pre) = go_len (pre ++ y :: mid)).
  { unfold go_len. rewrite !app_length. cbn [length]. rewrite app_length. cbn [length]. lia. }
  rewrite Hi2, H3. rewrite (go_set_mid (pre ++ y :: mid) y post _ _ _ eq_refl).
  rewrite <- app_assoc. reflexivity.
Qed.

Lemma rev_loop {R} : forall n mid pre post fuel, length mid = n -> length pre = length post ->
  (n / 2 < fuel)%nat ->
  exists k, go_while (R := R) fuel rev_cond rev_body (Z.of_nat (length pre), pre ++ mid ++ post)
            = Next (k, pre ++ rev mid ++ post).
Proof.
  induction n as [n IH] using lt_wf_ind. intros mid pre post fuel Hn Hp Hf.
  destruct fuel as [|fuel]; [lia|]. cbn [go_while]. unfold rev_cond at 1. cbv beta iota.
  unfold go_len. rewrite !app_length.
  destruct mid as [|x mid].
  - replace (Z.of_nat (length pre) <? Z.quot (Z.of_nat (length pre + (length (@nil N) + length post))) 2) with false.
    2:{ cbn [length]. rewrite Z.quot_div_nonneg by lia. lia. }
    eexists. reflexivity.
  - destruct (exists_last (l := x :: mid)) as (mid' & y & E); [discriminate|].
    destruct mid' as [|x' mid'].
    + (* one element *)
      cbn [app] in E. rewrite E.
      replace (Z.of_nat (length pre) <? Z.quot (Z.of_nat (length pre + (length [y] + length post))) 2) with false.
      2:{ cbn [length]. rewrite Z.quot_div_nonneg by lia. lia. }
      eexists. reflexivity.
    + rewrite E. cbn [app].
      replace (Z.of_nat (length pre) <? Z.quot (Z.of_nat (length pre + (length (x' :: mid' ++ [y]) + length post))) 2) with true.
      2:{ cbn [length]. rewrite app_length. cbn [length]. rewrite Z.quot_div_nonneg by lia. lia. }
      replace (pre ++ x' :: (mid' ++ [y]) ++ post) with (pre ++ x' :: mid' ++ y :: post) by (rewrite <- app_assoc; reflexivity).
      rewrite (rev_body_step pre x' mid' y post Hp).
      replace (Z.of_nat (length pre) + 1) with (Z.of_nat (length (pre ++ [y]))) by (rewrite app_length; cbn [length]; lia).
      replace (pre ++ y :: mid' ++ x' :: post) with ((pre ++ [y]) ++ mid' ++ (x' :: post)) by (rewrite <- !app_assoc; reflexivity).
      assert (Hlen : (length mid' + 2 = n)%nat).
      { rewrite E in Hn. cbn [app length] in Hn. rewrite app_length in Hn. cbn [length] in Hn. lia. }
      destruct (IH (length mid') ltac:(lia) mid' (pre ++ [y]) (x' :: post) fuel eq_refl) as (k & Hk).
      * rewrite app_length. cbn [length]. lia.
      * lia.
      * rewrite Hk. exists k. f_equal. f_equal.
        cbn [rev]. rewrite rev_app_distr. cbn [rev app]. rewrite <- !app_assoc. reflexivity.
Qed.

Lemma rev_loop_all {R} steps fuel : (length steps / 2 < fuel)%nat ->
  exists k, go_while (R := R) fuel rev_cond rev_body (0, steps) = Next (k, rev steps).
Proof.
  intros Hf. destruct (rev_loop (R := R) (length steps) steps [] [] fuel eq_refl eq_refl Hf) as (k & Hk).
  cbn [length app] in Hk. rewrite !app_nil_r in Hk. exists k. exact Hk.
Qed.

(* ---- traceAlignmentSteps ------------------------------------------------------------------------
   Direction proved: whenever the model's traceback succeeds, the translated function returns
   the same steps and score (given fuel above the number of blocks).  When the model panics the
   translated code panics or, for a table that no run of Global can produce (a cell with step 0
   away from the origin), spins: that side is not part of the statement. *)
Definition trace_cond : list N * Z -> res unit bool := (fun '(steps, i) => Ret (Z.ltb (0)%Z i)).
Definition trace_body {R} (blocks : list imp_align_block) (bn : Z) : list N * Z -> res (list N * Z) R :=
  (fun '(steps, i) => go_index blocks i (fun t__3 => let steps := (steps ++ [(imp_align_block_step t__3)]) in go_index blocks i (fun t__4 => (if (N.eqb (imp_align_block_step t__4) 1%N) then let i := (Z.sub i (Z.add bn (1)%Z)) in Next (steps, i) else (if (N.eqb (imp_align_block_step t__4) 2%N) then let i := (Z.sub i bn) in Next (steps, i) else (if (N.eqb (imp_align_block_step t__4) 3%N) then let i := (Z.sub i (1)%Z) in Next (steps, i) else Next (steps, i))))))).

Lemma trace_loop {R} blocks bn : forall f fuel i acc r,
  trace_g f blocks bn i acc = Ok r -> (f < fuel)%nat ->
  go_while (R := R) fuel trace_cond (trace_body (map blk_of blocks) bn) (map step_n (rev acc), i)
  = Next (map step_n (rev r), 0).
Proof.
  induction f as [|f IH]; intros fuel i acc r Hr Hf; (destruct fuel as [|fuel]; [lia|]);
    cbn [go_while]; unfold trace_cond at 1; cbv beta iota.
  - cbn [trace_g] in Hr. destruct (Z.leb_spec i 0) as [Hi|Hi]; [|discriminate].
    destruct (Z.ltb_spec i 0); [discriminate|]. injection Hr as <-.
    replace (0 <? i) with false by lia. assert (i = 0) by lia. subst. reflexivity.
  - cbn [trace_g] in Hr. destruct (Z.leb_spec i 0) as [Hi|Hi].
    + destruct (Z.ltb_spec i 0); [discriminate|]. injection Hr as <-.
      replace (0 <? i) with false by lia. assert (i = 0) by lia. subst. reflexivity.
    + replace (0 <? i) with true by lia.
      destruct (nth_error blocks (Z.to_nat i)) as [[s st]|] eqn:Hn; [|discriminate].
      unfold trace_body at 1. cbv beta iota. unfold go_index.
      destruct (Z.ltb_spec i 0); [lia|]. rewrite nth_error_map, Hn. cbn [option_map blk_of imp_align_block_step snd]. cbv zeta.
      replace (map step_n (rev acc) ++ [step_n st]) with (map step_n (rev (st :: acc))) by (cbn [rev]; rewrite map_app; reflexivity).
      destruct st; cbn [step_n step_code Z.to_N N.eqb Pos.eqb move] in *; apply (IH fuel _ _ _ Hr); lia.
Qed.

Definition trace_model (blocks : list cell) (bn : Z) : outcome (list step * Z) :=
  obind (trace_g (length blocks) blocks bn (Z.of_nat (length blocks) - 1) []) (fun steps =>
  obind (last_score blocks) (fun s => Ok (steps, s))).

Theorem imp_traceAlignmentSteps_ok fuel blocks bn steps s : bn <> 0 -> (length blocks < fuel)%nat ->
  trace_model blocks bn = Ok (steps, s) ->
  imp_align_traceAlignmentSteps fuel (map blk_of blocks) bn = Ret (map step_n steps, s).
Proof.
  intros Hbn Hf Hm. unfold trace_model in Hm.
  destruct (trace_g (length blocks) blocks bn (Z.of_nat (length blocks) - 1) []) as [r| |] eqn:Ht; try discriminate.
  cbn [obind] in Hm. destruct (last_score blocks) as [sc| |] eqn:Hl; try discriminate.
  cbn [obind] in Hm. injection Hm as -> ->.
  unfold imp_align_traceAlignmentSteps. unfold go_quot.
  destruct (Z.eqb_spec bn 0); [contradiction|].
  unfold go_make. cbn [Z.ltb Z.compare Z.to_nat repeat]. cbv zeta.
  unfold go_len at 1. rewrite map_length.
  timeout 120 (change (go_while fuel _ _ ([], Z.of_nat (length blocks) - 1))
    with (go_while (R := list N * Z) fuel trace_cond (trace_body (map blk_of blocks) bn) (map step_n (rev []), Z.of_nat (length blocks) - 1))).
  rewrite (trace_loop blocks bn _ fuel _ _ _ Ht Hf). cbn [after]. cbv beta iota.
  cbn [Z.ltb Z.compare]. cbv zeta.
  timeout 120 (change (go_while fuel _ _ (0, map step_n (rev steps)))
    with (go_while (R := list N * Z) fuel rev_cond rev_body (0, map step_n (rev steps)))).
  destruct (rev_loop_all (R := list N * Z) (map step_n (rev steps)) fuel) as (k & Hk).
  { rewrite map_length, rev_length.
    assert (length steps <= length blocks)%nat; [|assert (length steps / 2 <= length steps)%nat by (apply Nat.div_le_upper_bound; lia); lia].
    assert (G : forall f i acc r, trace_g f blocks bn i acc = Ok r -> (length r <= f + length acc)%nat).
    { induction f as [|f IH]; intros i acc r H; cbn [trace_g] in H.
      - destruct (i <=? 0); [|discriminate]. destruct (i <? 0); [discriminate|]. injection H as <-. lia.
      - destruct (i <=? 0).
        + destruct (i <? 0); [discriminate|]. injection H as <-. lia.
        + destruct (nth_error blocks (Z.to_nat i)) as [[s0 st]|]; [|discriminate].
          apply IH in H. cbn [length] in H. lia. }
    apply G in Ht. cbn [length] in Ht. lia. }
  rewrite Hk. cbn [after]. cbv beta iota.
  rewrite <- map_rev, rev_involutive.
  unfold last_score in Hl. unfold go_index, go_len. rewrite map_length.
  destruct (nth_error blocks (Nat.pred (length blocks))) as [c|] eqn:Hc; [|discriminate]. injection Hl as <-.
  assert (length blocks <> 0)%nat by (intros E; rewrite E in Hc; destruct blocks; discriminate).
  destruct (Z.ltb_spec (Z.of_nat (length blocks) - 1) 0); [lia|].
  replace (Z.to_nat (Z.of_nat (length blocks) - 1)) with (Nat.pred (length blocks)) by lia.
  rewrite nth_error_map, Hc. reflexivity.
Qed.

(* ---- the shipped matrices: the tables of the model are the map literals of the source ------------
   gen/Tables.v holds the six matrices as read out of the running implementation; the init
   functions of pam*.go / blosum*.go, translated (a map literal is the list of its entries in
   source order), give the same function on every pair of bytes.  Where the two lists are equal
   outright this is reflexivity; the statement is about lookups, so that an order-only change of
   either side would not matter. *)
From Bio.gen Require Import Tables.

Definition same_lookups (src tab : list ((N * N) * Z)) : Prop := forall a b, assoc2 src a b = assoc2 tab a b.

Theorem imp_init_matrices :
  (exists l, imp_align_init_pam120_0 = Ret l /\ same_lookups l pam120_tab)
  /\ (exists l, imp_align_init_pam160_0 = Ret l /\ same_lookups l pam160_tab)
  /\ (exists l, imp_align_init_pam250_0 = Ret l /\ same_lookups l pam250_tab)
  /\ (exists l, imp_align_init_blosum45_0 = Ret l /\ same_lookups l blosum45_tab)
  /\ (exists l, imp_align_init_blosum62_0 = Ret l /\ same_lookups l blosum62_tab)
  /\ (exists l, imp_align_init_blosum80_0 = Ret l /\ same_lookups l blosum80_tab).
Proof.
  repeat split; eexists; (split; [reflexivity|intros a b; reflexivity]).
Qed.
