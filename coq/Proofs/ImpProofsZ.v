(* Proofs/ImpProofsZ.v — translated source, part 26: the File adapters (iter.go of every format,
   newick.go): aio.Open, the error item of a failing open, the deferred Close, and the loop that
   forwards Reader's items — also for a consumer that stops.  Whether the file opens and what it
   holds is the parameter open__ (GoSem.go_open). *)
From Coq Require Import ZifyBool ZifyNat ZifyN.
From Bio Require Import Base.
From Bio.gen Require Import ImpGen.
From Bio.Model Require Import GoSem GoLib.
From Bio.Model Require Fasta Fastq Sam Bed Newick.
From Bio.Proofs Require Import ImpProofs ImpProofsB ImpProofsU.
From Bio.Proofs Require ImpProofsH ImpProofsJ ImpProofsK ImpProofsL ImpProofsQ ImpProofsR.
Import GoSem.
Open Scope Z_scope.

(* forwarding the items of the inner iterator *)
Lemma range_as_iter {A S0 R} (F : Z -> A -> S0 -> res S0 R) (G : A -> S0 -> res S0 R) items s :
  (forall j x s, F j x s = G x s) -> go_range items F s = go_iter G items s.
Proof.
  intros H. rewrite <- (go_range_elems items G s). unfold go_range.
  apply go_iter_ext. intros [j x] s' _. apply H.
Qed.

Lemma range_copy {A St R} (F : Z -> A -> list A * St -> res (list A * St) R) items :
  (forall j x out rd, F j x (out, rd) = Next (out ++ [x], rd)) ->
  forall out rd, go_range items F (out, rd) = Next (out ++ items, rd).
Proof.
  intros HF out rd.
  rewrite (range_as_iter F (fun x '(o, r) => Next (o ++ [x], r))) by (intros j x [o r]; apply HF).
  revert out. induction items as [|x items IH]; intros out; cbn [go_iter]; [rewrite app_nil_r; reflexivity|].
  rewrite IH, <- app_assoc. reflexivity.
Qed.

Lemma range_copy_stop {A St R} p (F : Z -> A -> list A * St -> res (list A * St) R) items :
  (forall j x out rd, F j x (out, rd) = if Nat.eqb (length (out ++ [x])) p then Brk (out ++ [x], rd) else Next (out ++ [x], rd)) ->
  forall out rd, may_go p out -> go_range items F (out, rd) = Next (take_stop p (out ++ items), rd).
Proof.
  intros HF out rd Hgo.
  rewrite (range_as_iter F (fun x '(o, r) => if Nat.eqb (length (o ++ [x])) p then Brk (o ++ [x], r) else Next (o ++ [x], r)))
    by (intros j x [o r]; apply HF).
  apply (go_iter_copy_stop p); auto.
Qed.

(* ---- fasta ---------------------------------------------------------------------------------------------------------- *)
Section Fasta.
Import ImpProofsJ.

Theorem imp_fasta_File_closed fuel file :
  imp_fastard_File fuel None file = Ret (Stream [] 2 None, [(fa_zero, 2)]).
Proof. reflexivity. Qed.

Theorem imp_fasta_File_open fuel file inp t : (length inp + 2 < fuel)%nat ->
  imp_fastard_File fuel (Some (Stream inp (term_code t) None)) file
  = Ret (Stream [] (term_code t) None, map (fa_item t) (Fasta.decode inp t)).
Proof.
  intros Hf. unfold imp_fastard_File. cbv zeta. cbn [go_open Z.eqb negb].
  rewrite (imp_fasta_Reader fuel inp t Hf). cbn [go_call].
  rewrite range_copy by (intros j [fa e] out rd; reflexivity). reflexivity.
Qed.

Theorem imp_fasta_File_stop p fuel file inp t : (length inp + 2 < fuel)%nat ->
  imp_fastard_File_stop p fuel None file = Ret (Stream [] 2 None, [(fa_zero, 2)]) /\
  imp_fastard_File_stop p fuel (Some (Stream inp (term_code t) None)) file
  = Ret (Stream [] (term_code t) None, take_stop p (map (fa_item t) (Fasta.decode inp t))).
Proof.
  intros Hf. split; [reflexivity|]. unfold imp_fastard_File_stop. cbv zeta. cbn [go_open Z.eqb negb].
  rewrite (imp_fasta_Reader fuel inp t Hf). cbn [go_call].
  rewrite (range_copy_stop p); [reflexivity | | unfold may_go; cbn; lia].
  intros j [fa e] out rd. destruct (Nat.eqb _ p); reflexivity.
Qed.
End Fasta.

(* ---- bed -------------------------------------------------------------------------------------------------------------- *)
Section Bed.
Import ImpProofsJ ImpProofsL.

Theorem imp_bed_File_ok fuel file s t : (length s + 2 < fuel)%nat ->
  imp_bed_File fuel None file = Ret (Stream [] 2 None, [(ImpProofsH.zero_bed, 2)]) /\
  exists st, imp_bed_File fuel (Some (Stream s (term_code t) None)) file
             = Ret (st, map bed_item (Bed.decode s t)).
Proof.
  intros Hf. split; [reflexivity|]. unfold imp_bed_File. cbv zeta. cbn [go_open Z.eqb negb after].
  destruct (imp_bed_Reader_ok t fuel s Hf) as (st & ->). cbn [go_call].
  rewrite range_copy by (intros j [b e] out rd; reflexivity). exists st. reflexivity.
Qed.

Theorem imp_bed_File_stop p fuel file s t : (length s + 2 < fuel)%nat ->
  exists st, imp_bed_File_stop p fuel (Some (Stream s (term_code t) None)) file
             = Ret (st, take_stop p (map bed_item (Bed.decode s t))).
Proof.
  intros Hf. unfold imp_bed_File_stop. cbv zeta. cbn [go_open Z.eqb negb after].
  destruct (imp_bed_Reader_ok t fuel s Hf) as (st & ->). cbn [go_call].
  rewrite (range_copy_stop p); [exists st; reflexivity | | unfold may_go; cbn; lia].
  intros j [b e] out rd. destruct (Nat.eqb _ p); reflexivity.
Qed.
End Bed.

(* ---- sam -------------------------------------------------------------------------------------------------------------- *)
Section Sam.
Import ImpProofsJ ImpProofsQ.

Theorem imp_sam_File_ok fuel o file s t : (length s + 1 < fuel)%nat ->
  imp_samrd_File fuel o None file = Ret (Stream [] 2 None, [(None, 2)]) /\
  imp_samrd_FileHeader fuel o None file = Ret (Stream [] 2 None, [sh_item ErrItem]) /\
  (exists st, imp_samrd_File fuel o (Some (Stream s (term_code t) None)) file
              = Ret (st, map sr_item (Sam.reader o s t))) /\
  (exists st, imp_samrd_FileHeader fuel o (Some (Stream s (term_code t) None)) file
              = Ret (st, map sh_item (Sam.reader_header o s t))).
Proof.
  intros Hf. split; [reflexivity|]. split; [reflexivity|]. split.
  - unfold imp_samrd_File. cbv zeta. cbn [go_open Z.eqb negb].
    destruct (imp_sam_Reader_ok o t fuel s Hf) as (st & ->). cbn [go_call].
    rewrite range_copy by (intros j [b e] out rd; reflexivity). exists st. reflexivity.
  - unfold imp_samrd_FileHeader. cbv zeta. cbn [go_open Z.eqb negb].
    destruct (imp_sam_ReaderHeader_ok o t fuel s Hf) as (st & ->). cbn [go_call].
    rewrite range_copy by (intros j [b e] out rd; reflexivity). exists st. reflexivity.
Qed.

Theorem imp_sam_File_stop p fuel o file s t : (length s + 1 < fuel)%nat ->
  (exists st, imp_samrd_File_stop p fuel o (Some (Stream s (term_code t) None)) file
              = Ret (st, take_stop p (map sr_item (Sam.reader o s t)))) /\
  (exists st, imp_samrd_FileHeader_stop p fuel o (Some (Stream s (term_code t) None)) file
              = Ret (st, take_stop p (map sh_item (Sam.reader_header o s t)))).
Proof.
  intros Hf. split.
  - unfold imp_samrd_File_stop. cbv zeta. cbn [go_open Z.eqb negb].
    destruct (imp_sam_Reader_ok o t fuel s Hf) as (st & ->). cbn [go_call].
    rewrite (range_copy_stop p); [exists st; reflexivity | | unfold may_go; cbn; lia].
    intros j [b e] out rd. destruct (Nat.eqb _ p); reflexivity.
  - unfold imp_samrd_FileHeader_stop. cbv zeta. cbn [go_open Z.eqb negb].
    destruct (imp_sam_ReaderHeader_ok o t fuel s Hf) as (st & ->). cbn [go_call].
    rewrite (range_copy_stop p); [exists st; reflexivity | | unfold may_go; cbn; lia].
    intros j [b e] out rd. destruct (Nat.eqb _ p); reflexivity.
Qed.
End Sam.

(* ---- fastq ------------------------------------------------------------------------------------------------------------ *)
Section Fastq.
Import ImpProofsK.

Theorem imp_fastq_File_ok fuel file cur (toks : list bytes) t : (length toks + 1 < fuel)%nat ->
  imp_fastqrd_File fuel None file = Ret (Scanner [] [] 2 true, [(fq_zero, 2)]) /\
  exists s' out, imp_fastqrd_File fuel (Some (Scanner cur toks (scan_code t) false)) file = Ret (s', out)
                 /\ Forall2 fq_item_ok (Fastq.decode_toks t toks) out.
Proof.
  intros Hf. split; [reflexivity|]. unfold imp_fastqrd_File. cbv zeta. cbn [go_open Z.eqb negb after].
  destruct (imp_fastq_Reader fuel cur toks t Hf) as (s' & out & -> & HF). cbn [go_call].
  rewrite range_copy by (intros j [b e] o r; reflexivity). exists s', out. split; [reflexivity | exact HF].
Qed.

Theorem imp_fastq_File_stop p fuel file cur (toks : list bytes) t : (length toks + 1 < fuel)%nat ->
  exists s' out, imp_fastqrd_File_stop p fuel (Some (Scanner cur toks (scan_code t) false)) file = Ret (s', take_stop p out)
                 /\ Forall2 fq_item_ok (Fastq.decode_toks t toks) out.
Proof.
  intros Hf. unfold imp_fastqrd_File_stop. cbv zeta. cbn [go_open Z.eqb negb after].
  destruct (imp_fastq_Reader fuel cur toks t Hf) as (s' & out & -> & HF). cbn [go_call].
  rewrite (range_copy_stop p); [exists s', out; split; [reflexivity | exact HF] | | unfold may_go; cbn; lia].
  intros j [b e] o r. destruct (Nat.eqb _ p); reflexivity.
Qed.
End Fastq.

(* ---- newick: the items are addresses into the heap that comes with them ------------------------------ *)
Section Newick.
Import ImpProofsJ ImpProofsR.

Lemma range_copy3 {A S1 S2 R} (F : Z -> A -> list A * S1 * S2 -> res (list A * S1 * S2) R) items :
  (forall j x out a b, F j x (out, a, b) = Next (out ++ [x], a, b)) ->
  forall out a b, go_range items F (out, a, b) = Next (out ++ items, a, b).
Proof.
  intros HF out a b.
  rewrite (range_as_iter F (fun x '(o, a', b') => Next (o ++ [x], a', b'))) by (intros j x [[o a'] b']; apply HF).
  revert out. induction items as [|x items IH]; intros out; cbn [go_iter]; [rewrite app_nil_r; reflexivity|].
  rewrite IH, <- app_assoc. reflexivity.
Qed.

(* a consumer that stops: the loop returns at once with the items so far *)
Lemma range_copy3_stop {A S1 S2 R} p (ret : list A -> S1 -> S2 -> R)
      (F : Z -> A -> list A * S1 * S2 -> res (list A * S1 * S2) R) items :
  (forall j x out a b, F j x (out, a, b) = if Nat.eqb (length (out ++ [x])) p then Ret (ret (out ++ [x]) a b)
                                           else Next (out ++ [x], a, b)) ->
  forall out a b, may_go p out ->
  after (go_range items F (out, a, b)) (fun '(o, a', b') => Ret (ret o a' b'))
  = (Ret (ret (take_stop p (out ++ items)) a b) : res unit R).
Proof.
  intros HF out a b Hgo.
  rewrite (range_as_iter F (fun x '(o, a', b') => if Nat.eqb (length (o ++ [x])) p then Ret (ret (o ++ [x]) a' b')
                                                   else Next (o ++ [x], a', b'))) by (intros j x [[o a'] b']; apply HF).
  revert out Hgo. induction items as [|x items IH]; intros out Hgo; cbn [go_iter after].
  - rewrite app_nil_r, take_stop_short; [reflexivity | unfold may_go in Hgo; lia].
  - destruct (Nat.eqb_spec (length (out ++ [x])) p) as [Ep|Ep]; cbn [after].
    + rewrite (take_stop_hit p out x items Ep). reflexivity.
    + rewrite IH; [rewrite <- app_assoc; reflexivity|]. apply may_go_next; auto. apply Nat.eqb_neq. exact Ep.
Qed.

Theorem imp_newick_File_ok o tm fuel h file s : (length s + 2 < fuel)%nat ->
  imp_newickrd_File fuel o h None file = Ret (Stream [] 2 None, (h, [(-1, 2)])) /\
  match Newick.decode o s tm with
  | Ok items => exists st h' out,
      imp_newickrd_File fuel o h (Some (Stream s (term_code tm) None)) file = Ret (st, (h', out)) /\
      Forall2 (item_holds h') items out /\ keeps (go_len h) h h'
  | _ => True
  end.
Proof.
  intros Hf. split; [reflexivity|].
  pose proof (imp_newick_Reader_ok o tm fuel h s Hf) as H.
  destruct (Newick.decode o s tm) as [items| |]; auto.
  destruct H as (st & h' & out & E & HF & HK). exists st, h', out. split; [|auto].
  unfold imp_newickrd_File. cbv zeta. cbn [go_open Z.eqb negb]. rewrite E. cbn [go_call].
  rewrite range_copy3 by (intros j [n e] o' a b; reflexivity). reflexivity.
Qed.

Theorem imp_newick_File_stop p o tm fuel h file s : (length s + 2 < fuel)%nat ->
  match Newick.decode o s tm with
  | Ok items => exists st h' out,
      imp_newickrd_File_stop p fuel o h (Some (Stream s (term_code tm) None)) file = Ret (st, (h', take_stop p out)) /\
      Forall2 (item_holds h') items out /\ keeps (go_len h) h h'
  | _ => True
  end.
Proof.
  intros Hf. pose proof (imp_newick_Reader_ok o tm fuel h s Hf) as H.
  destruct (Newick.decode o s tm) as [items| |]; auto.
  destruct H as (st & h' & out & E & HF & HK). exists st, h', out. split; [|auto].
  unfold imp_newickrd_File_stop. cbv zeta. cbn [go_open Z.eqb negb]. rewrite E. cbn [go_call].
  rewrite (range_copy3_stop p (fun o' (a : go_stream) (b : heap) => (a, (b, o')))); [reflexivity | | unfold may_go; cbn; lia].
  intros j [n e] o' a b. destruct (Nat.eqb _ p); reflexivity.
Qed.
End Newick.
