(* Proofs/BaseProofs.v — facts about the shared vocabulary of Base.v:
   strconv.Itoa / Atoi round trip, strings.Split / Join, line splitting. *)
From Coq Require Import DecimalPos DecimalZ.
From Bio Require Import Base.

(* ---- Itoa / Atoi ------------------------------------------------------------ *)
Lemma bytes_uint_uint_bytes u : bytes_uint (uint_bytes u) = Some u.
Proof. induction u; cbn [uint_bytes bytes_uint]; try reflexivity; rewrite IHu; reflexivity. Qed.

Definition is_digit (c : byte) : bool := (48 <=? c) && (c <=? 57).

Lemma uint_bytes_digits u : Forall (fun c => is_digit c = true) (uint_bytes u).
Proof. induction u; cbn [uint_bytes]; constructor; auto. Qed.

Lemma uint_bytes_nonnil u : u <> Decimal.Nil -> uint_bytes u <> [].
Proof. destruct u; cbn [uint_bytes]; congruence. Qed.

Lemma parse_digits_uint_bytes u : u <> Decimal.Nil -> parse_digits (uint_bytes u) = Some (Z.of_uint u).
Proof.
  intros H. unfold parse_digits. rewrite bytes_uint_uint_bytes.
  destruct (uint_bytes u) eqn:E; [exfalso; exact (uint_bytes_nonnil u H E)|reflexivity].
Qed.

(* a string of digits does not start with a sign *)
Lemma atoi_digits s z :
  Forall (fun c => is_digit c = true) s -> parse_digits s = Some z ->
  atoi s = if int64b z then Some z else None.
Proof.
  intros Hd Hp. unfold atoi.
  destruct s as [|c r]; [discriminate|].
  inversion Hd as [|? ? Hc _]; subst.
  assert (c <> 43 /\ c <> 45).
  { unfold is_digit in Hc. apply andb_true_iff in Hc. destruct Hc as [H1 H2].
    apply N.leb_le in H1. apply N.leb_le in H2. split; intros ->; vm_compute in H1; congruence. }
  destruct H as [H43 H45].
  replace (match c :: r with 43 :: r0 => parse_digits r0 | 45 :: r0 => option_map Z.opp (parse_digits r0) | _ => parse_digits (c :: r) end)
    with (parse_digits (c :: r)).
  - rewrite Hp. reflexivity.
  - destruct c as [|p]; [reflexivity|].
    do 6 (destruct p as [p|p|]; try reflexivity); try (exfalso; apply H43; reflexivity); try (exfalso; apply H45; reflexivity).
Qed.

Lemma Z_of_uint_to_uint p : Z.of_uint (Pos.to_uint p) = Zpos p.
Proof. unfold Z.of_uint. rewrite DecimalPos.Unsigned.of_to. reflexivity. Qed.

Theorem atoi_itoa z : int64 z -> atoi (itoa z) = Some z.
Proof.
  intros H. assert (Hb : int64b z = true).
  { unfold int64, int64b in *. apply andb_true_iff. split; [apply Z.leb_le|apply Z.ltb_lt]; lia. }
  unfold itoa. destruct z as [|p|p]; cbn [Z.to_int].
  - reflexivity.
  - rewrite (atoi_digits _ (Zpos p)).
    + rewrite Hb. reflexivity.
    + apply uint_bytes_digits.
    + rewrite parse_digits_uint_bytes by apply DecimalPos.Unsigned.to_uint_nonnil.
      rewrite Z_of_uint_to_uint. reflexivity.
  - unfold atoi.
    rewrite parse_digits_uint_bytes by apply DecimalPos.Unsigned.to_uint_nonnil.
    rewrite Z_of_uint_to_uint. cbn [option_map Z.opp]. rewrite Hb. reflexivity.
Qed.

(* the text of an int: an optional '-' followed by digits; never empty *)
Lemma itoa_chars z : Forall (fun c => is_digit c = true \/ c = 45) (itoa z).
Proof.
  unfold itoa. destruct (Z.to_int z); [|constructor; [right; reflexivity|]];
    (eapply Forall_impl; [|apply uint_bytes_digits]); intros a Ha; left; exact Ha.
Qed.

Lemma itoa_nonempty z : itoa z <> [].
Proof.
  unfold itoa. destruct z as [|p|p]; cbn [Z.to_int]; try discriminate.
  apply uint_bytes_nonnil. apply DecimalPos.Unsigned.to_uint_nonnil.
Qed.

(* so it contains none of the delimiter bytes the codecs care about *)
Lemma itoa_clean bad z : Forall (fun b => is_digit b = false /\ b <> 45) bad -> clean bad (itoa z).
Proof.
  intros Hbad. unfold clean. eapply Forall_impl; [|apply itoa_chars].
  intros a Ha. unfold memb. apply not_true_is_false. intros E. apply existsb_exists in E.
  destruct E as [x [Hin Hx]]. apply N.eqb_eq in Hx. subst x.
  rewrite Forall_forall in Hbad. destruct (Hbad a Hin) as [Hnd Hn45].
  destruct Ha as [Ha|Ha]; congruence.
Qed.

(* ---- strings.Split / strings.Join --------------------------------------------- *)
Lemma split_on_nonnil sep s : split_on sep s <> [].
Proof. induction s as [|c r IH]; cbn [split_on]; [discriminate|]. destruct (c =? sep); [discriminate|]. destruct (split_on sep r); discriminate. Qed.

Lemma split_on_clean sep s : memb sep s = false -> split_on sep s = [s].
Proof.
  induction s as [|c r IH]; cbn [split_on memb existsb]; [reflexivity|].
  intros H. apply orb_false_iff in H. destruct H as [H1 H2]. rewrite N.eqb_sym in H1. rewrite H1.
  change (existsb (N.eqb sep) r) with (memb sep r) in H2. rewrite (IH H2). reflexivity.
Qed.

Lemma split_on_app sep a b : memb sep a = false ->
  split_on sep (a ++ sep :: b) = a :: split_on sep b.
Proof.
  induction a as [|c r IH]; cbn [app split_on memb existsb].
  - intros _. rewrite N.eqb_refl. reflexivity.
  - intros H. apply orb_false_iff in H. destruct H as [H1 H2]. rewrite N.eqb_sym in H1. rewrite H1.
    change (existsb (N.eqb sep) r) with (memb sep r) in H2. rewrite (IH H2). reflexivity.
Qed.

(* Split is a left inverse of Join on separator-free fields *)
Lemma split_join sep fs : fs <> [] -> Forall (fun f => memb sep f = false) fs ->
  split_on sep (join_with [sep] fs) = fs.
Proof.
  induction fs as [|f r IH]; [congruence|]. intros _ H. inversion H as [|? ? Hf Hr]; subst.
  destruct r as [|g r'].
  - cbn [join_with]. apply split_on_clean. exact Hf.
  - change (join_with [sep] (f :: g :: r')) with (f ++ [sep] ++ join_with [sep] (g :: r')).
    cbn [app]. rewrite split_on_app by exact Hf. rewrite IH; [reflexivity|discriminate|exact Hr].
Qed.

Lemma clean_memb bad s x : clean bad s -> In x bad -> memb x s = false.
Proof.
  intros Hc Hin. unfold memb. apply not_true_is_false. intros E. apply existsb_exists in E.
  destruct E as [y [Hy Hxy]]. apply N.eqb_eq in Hxy. subst y.
  unfold clean in Hc. rewrite Forall_forall in Hc. specialize (Hc x Hy).
  unfold memb in Hc. apply not_true_iff_false in Hc. apply Hc. apply existsb_exists. exists x. split; [assumption|apply N.eqb_refl].
Qed.

Lemma clean_app bad a b : clean bad a -> clean bad b -> clean bad (a ++ b).
Proof. unfold clean. intros. apply Forall_app. split; assumption. Qed.

(* ---- lines --------------------------------------------------------------------- *)
Lemma drop_cr_clean l : memb CR l = false -> drop_cr l = l.
Proof.
  induction l as [|c r IH]; [reflexivity|]. cbn [memb existsb]. intros H.
  apply orb_false_iff in H. destruct H as [H1 H2]. change (existsb (N.eqb CR) r) with (memb CR r) in H2.
  cbn [drop_cr]. destruct r as [|d r'].
  - unfold CR in H1. rewrite N.eqb_sym in H1. rewrite H1. reflexivity.
  - rewrite (IH H2). reflexivity.
Qed.

Lemma drop_cr_cons c d r : drop_cr (c :: d :: r) = c :: drop_cr (d :: r).
Proof. reflexivity. Qed.

Lemma drop_cr_snoc l : memb CR l = false -> drop_cr (l ++ [CR]) = l.
Proof.
  induction l as [|c r IH]; [reflexivity|]. cbn [memb existsb]. intros H.
  apply orb_false_iff in H. destruct H as [H1 H2]. change (existsb (N.eqb CR) r) with (memb CR r) in H2.
  specialize (IH H2). destruct r as [|d r'].
  - reflexivity.
  - change ((c :: d :: r') ++ [CR]) with (c :: d :: (r' ++ [CR])). rewrite drop_cr_cons.
    change (d :: r' ++ [CR]) with ((d :: r') ++ [CR]). rewrite IH. reflexivity.
Qed.
