(* Proofs/ImpProofsU.v — translated source, part 21: stopping an iterator (C18).
   gen-imp emits every iterator a second time, <name>_stop, for a consumer that declines after
   stop__ items (0: never): yield(x) appends x to the items and returns
   negb (length items =? stop__).  If the translated iterator went on after a declined yield it
   would append a further item.  The theorems: the items are exactly the first stop__ items of
   the uninterrupted run — so there is no callback after the consumer has declined, and no panic. *)
From Coq Require Import ZifyBool ZifyNat ZifyN.
From Bio Require Import Base.
From Bio.gen Require Import ImpGen.
From Bio.Model Require Import GoSem GoLib.
From Bio.Model Require Sam Bed.
From Bio.Proofs Require Import ImpProofs ImpProofsB ImpProofsE ImpProofsG ImpProofsL ImpProofsN ImpProofsQ.
From Bio.Proofs Require ImpProofsI ImpProofsJ ImpProofsK ImpProofsR NewickProofsC BaseProofs FastaProofsB FastqProofsB.
From Bio.Model Require Fasta Fastq Newick.
Open Scope Z_scope.

Definition take_stop {A} (p : nat) (l : list A) : list A := match p with O => l | _ => firstn p l end.

Lemma take_stop_hit {A} p (out : list A) x more :
  length (out ++ [x]) = p -> take_stop p (out ++ x :: more) = out ++ [x].
Proof.
  intros <-. unfold take_stop. destruct (length (out ++ [x])) eqn:E.
  - rewrite app_length in E. cbn in E. lia.
  - rewrite <- E. change (x :: more) with ([x] ++ more). rewrite app_assoc.
    rewrite firstn_app, firstn_all, Nat.sub_diag. cbn [firstn]. apply app_nil_r.
Qed.

Lemma take_stop_short {A} p (l : list A) : (p = 0 \/ length l <= p)%nat -> take_stop p l = l.
Proof.
  intros H. unfold take_stop. destruct p; [reflexivity|]. apply firstn_all2. lia.
Qed.

Definition may_go {A} (p : nat) (out : list A) : Prop := (p = 0 \/ length out < p)%nat.

Lemma may_go_next {A} p (out : list A) x :
  may_go p out -> Nat.eqb (length (out ++ [x])) p = false -> may_go p (out ++ [x]).
Proof.
  unfold may_go. intros H E. apply Nat.eqb_neq in E. rewrite app_length in *. cbn [length] in *. lia.
Qed.

(* ---- sam: ReaderHeader ------------------------------------------------------------------------------------------ *)
Section SamStop.
Variable p : nat.
Variable o : foracle.

Definition rhs_body : rh_state -> res rh_state rh_result :=
  (fun '((out__, rd__) : (_ * go_stream)) => let '(t__1, t__2, rd__) := go_readstring rd__ 10%N in let text := t__1 in let err := t__2 in (if (andb (negb (Z.eqb err 0%Z)) (negb (Z.eqb err 1%Z))) then (let out__ := out__ ++ [((Imp_samrd_SAMOrHeader None None), err)] in let t__3 := negb (Nat.eqb (length out__) p) in Ret (rd__, out__)) else let last := (Z.eqb err 1%Z) in let text := (go_trim_suffix text [10%N]) in let text := (go_trim_suffix text [13%N]) in (if (beqb text (@nil N)) then (if last then Ret (rd__, out__) else Next (out__, rd__)) else (if (go_has_prefix text [64%N]) then let h := text in (let out__ := out__ ++ [((Imp_samrd_SAMOrHeader (Some h) None), 0%Z)] in let t__4 := negb (Nat.eqb (length out__) p) in (if (negb t__4) then Ret (rd__, out__) else (if last then Ret (rd__, out__) else Next (out__, rd__)))) else go_call (imp_sam_parseLine o (split_on 9%N text)) (fun '(t__5, t__6) => let s := t__5 in let err_2 := (if t__6 then 2%Z else 0%Z) in (let out__ := out__ ++ [((Imp_samrd_SAMOrHeader None s), err_2)] in let t__7 := negb (Nat.eqb (length out__) p) in (if (negb t__7) then Ret (rd__, out__) else (if last then Ret (rd__, out__) else Next (out__, rd__))))))))).

Lemma rhs_unfold fuel rd :
  imp_samrd_ReaderHeader_stop p fuel o rd =
  after (go_while fuel (fun _ => Ret true) rhs_body ([], rd)) (fun '(out__, rd__) => Ret (rd__, out__)).
Proof. reflexivity. Qed.

Definition rhs_rest (out__ : list (imp_samrd_SAMOrHeader * Z)) (rd__ : go_stream)
           (last : bool) (text : list N) : res rh_state rh_result :=
  (if (beqb text (@nil N)) then (if last then Ret (rd__, out__) else Next (out__, rd__)) else (if (go_has_prefix text [64%N]) then let h := text in (let out__ := out__ ++ [((Imp_samrd_SAMOrHeader (Some h) None), 0%Z)] in let t__4 := negb (Nat.eqb (length out__) p) in (if (negb t__4) then Ret (rd__, out__) else (if last then Ret (rd__, out__) else Next (out__, rd__)))) else go_call (imp_sam_parseLine o (split_on 9%N text)) (fun '(t__5, t__6) => let s := t__5 in let err_2 := (if t__6 then 2%Z else 0%Z) in (let out__ := out__ ++ [((Imp_samrd_SAMOrHeader None s), err_2)] in let t__7 := negb (Nat.eqb (length out__) p) in (if (negb t__7) then Ret (rd__, out__) else (if last then Ret (rd__, out__) else Next (out__, rd__))))))).

(* one line yields at most one item *)
Definition line_result (out : list (imp_samrd_SAMOrHeader * Z)) (rd : go_stream) (last : bool)
           (items : list (imp_samrd_SAMOrHeader * Z)) : res rh_state rh_result :=
  match items with
  | [] => if last then Ret (rd, out) else Next (out, rd)
  | x :: _ => if Nat.eqb (length (out ++ [x])) p then Ret (rd, out ++ [x])
              else if last then Ret (rd, out ++ [x]) else Next (out ++ [x], rd)
  end.

Lemma rhs_rest_spec out rd last raw :
  rhs_rest out rd last (drop_cr raw) = line_result out rd last (map sh_item (Sam.process_line o raw)).
Proof.
  unfold rhs_rest, Sam.process_line, line_result. cbv zeta. unfold bytes, byte in *.
  destruct (drop_cr raw) as [|c text] eqn:E.
  - reflexivity.
  - cbn [beqb]. rewrite has_prefix_single, N.eqb_sym.
    destruct (N.eqb c 64).
    + cbn [map sh_item]. destruct (Nat.eqb _ p); reflexivity.
    + rewrite imp_parseLine. unfold TAB.
      destruct (Sam.parse_line o (split_on 9%N (c :: text))); cbn [go_call map sh_item];
        destruct (Nat.eqb _ p); reflexivity.
Qed.

Lemma process_line_le1 raw : (length (Sam.process_line o raw) <= 1)%nat.
Proof.
  unfold Sam.process_line. destruct (drop_cr raw) as [|c text]; [cbn; lia|].
  destruct (N.eqb c 64); [cbn; lia|]. destruct (Sam.parse_line o _); cbn; lia.
Qed.

Lemma rhs_body_line out l rest tc : ~ In 10%N l ->
  rhs_body (out, Stream (l ++ 10%N :: rest) tc None)
  = line_result out (Stream rest tc None) false (map sh_item (Sam.process_line o l)).
Proof.
  intros Hn. unfold rhs_body, go_readstring. cbn [st_rest st_term].
  rewrite (take_line_complete l rest Hn). cbv zeta. cbn [Z.eqb negb andb].
  rewrite trim_lf, trim_cr.
  change (if beqb (drop_cr l) [] then _ else _) with (rhs_rest out (Stream rest tc None) false (drop_cr l)).
  apply rhs_rest_spec.
Qed.

Lemma rhs_body_tail out tail (t : term) : ~ In 10%N tail ->
  rhs_body (out, Stream tail (ImpProofsJ.term_code t) None)
  = match t with
    | TErr => Ret (Stream [] 2 None, out ++ [sh_item ErrItem])
    | TEOF => line_result out (Stream [] 1 None) true (map sh_item (Sam.process_line o tail))
    end.
Proof.
  intros Hn. unfold rhs_body, go_readstring. cbn [st_rest st_term].
  rewrite (take_line_tail tail Hn). cbv zeta. destruct t; cbn [ImpProofsJ.term_code Z.eqb Pos.eqb negb andb].
  - rewrite (trim_lf_none tail Hn), trim_cr.
    change (if beqb (drop_cr tail) [] then _ else _) with (rhs_rest out (Stream [] 1 None) true (drop_cr tail)).
    apply rhs_rest_spec.
  - reflexivity.
Qed.

Variable t : term.
Notation tc := (ImpProofsJ.term_code t).

Lemma rhs_loop : forall m s out fw, (length s <= m)%nat -> (m + 1 < fw)%nat -> may_go p out ->
  exists st, go_while fw (fun _ => Ret true) rhs_body (out, Stream s tc None)
             = Ret (st, take_stop p (out ++ map sh_item (Sam.reader_header o s t))).
Proof.
  induction m as [|m IH]; intros s out fw Hm Hw Hgo; (destruct fw as [|fw]; [lia|]); cbn [go_while];
    destruct (take_line 10 s) as [l' [rest|]] eqn:E.
  - destruct (take_line_some _ _ _ E) as (l & -> & -> & Hn). rewrite app_length in Hm. cbn [length] in Hm. lia.
  - destruct (take_line_none _ _ E) as (-> & Hn). rewrite (rhs_body_tail out l' t Hn), (reader_header_tail o l' t Hn).
    destruct t.
    + pose proof (process_line_le1 l') as L1. unfold line_result.
      destruct (Sam.process_line o l') as [|x [|y r]]; cbn [map length] in *; try lia.
      * eexists. rewrite app_nil_r, take_stop_short; [reflexivity | unfold may_go in Hgo; lia].
      * destruct (Nat.eqb_spec (length (out ++ [sh_item x])) p) as [Ep|Ep]; eexists.
        -- rewrite (take_stop_hit p out (sh_item x) [] Ep). reflexivity.
        -- rewrite take_stop_short; [reflexivity|]. unfold may_go in Hgo. rewrite app_length in *. cbn [length] in *. lia.
    + eexists. cbn [map]. rewrite take_stop_short; [reflexivity|].
      unfold may_go in Hgo. rewrite app_length. cbn [length]. lia.
  - destruct (take_line_some _ _ _ E) as (l & -> & -> & Hn).
    rewrite (rhs_body_line out l rest tc Hn), (reader_header_cons o l rest t Hn).
    pose proof (process_line_le1 l) as L1. unfold line_result.
    destruct (Sam.process_line o l) as [|x [|y r]]; cbn [map length app] in *; try lia.
    + apply IH; auto. rewrite app_length in Hm. cbn [length] in Hm. lia. lia.
    + destruct (Nat.eqb_spec (length (out ++ [sh_item x])) p) as [Ep|Ep].
      * eexists. rewrite (take_stop_hit p out (sh_item x) _ Ep). reflexivity.
      * destruct (IH rest (out ++ [sh_item x]) fw) as (st & Hst).
        { rewrite app_length in Hm. cbn [length] in Hm. lia. } { lia. }
        { apply may_go_next; auto. apply Nat.eqb_neq. exact Ep. }
        rewrite Hst. exists st. rewrite <- app_assoc. reflexivity.
  - destruct (take_line_none _ _ E) as (-> & Hn). rewrite (rhs_body_tail out l' t Hn), (reader_header_tail o l' t Hn).
    destruct t.
    + pose proof (process_line_le1 l') as L1. unfold line_result.
      destruct (Sam.process_line o l') as [|x [|y r]]; cbn [map length] in *; try lia.
      * eexists. rewrite app_nil_r, take_stop_short; [reflexivity | unfold may_go in Hgo; lia].
      * destruct (Nat.eqb_spec (length (out ++ [sh_item x])) p) as [Ep|Ep]; eexists.
        -- rewrite (take_stop_hit p out (sh_item x) [] Ep). reflexivity.
        -- rewrite take_stop_short; [reflexivity|]. unfold may_go in Hgo. rewrite app_length in *. cbn [length] in *. lia.
    + eexists. cbn [map]. rewrite take_stop_short; [reflexivity|].
      unfold may_go in Hgo. rewrite app_length. cbn [length]. lia.
Qed.

Theorem imp_sam_ReaderHeader_stop_ok fuel s : (length s + 1 < fuel)%nat ->
  exists st, imp_samrd_ReaderHeader_stop p fuel o (Stream s tc None)
             = Ret (st, take_stop p (map sh_item (Sam.reader_header o s t))).
Proof.
  intros Hf. rewrite rhs_unfold.
  destruct (rhs_loop (length s) s [] fuel (le_n _) Hf) as (st & Hst).
  { unfold may_go. cbn. lia. }
  rewrite Hst. exists st. reflexivity.
Qed.

(* ---- sam: Reader --------------------------------------------------------------------------------------------------- *)
Definition rfs_body : imp_samrd_SAMOrHeader * Z -> list (option imp_sam_SAM * Z) * go_stream
                     -> res (list (option imp_sam_SAM * Z) * go_stream) (go_stream * list (option imp_sam_SAM * Z)) :=
  fun x => (((fun _ '(sh, err) '(out__, rd__) => (if (negb (Z.eqb err 0%Z)) then (let out__ := out__ ++ [(None, err)] in let t__2 := negb (Nat.eqb (length out__) p) in (if (negb t__2) then Brk (out__, rd__) else Next (out__, rd__))) else (if (match (imp_samrd_SAMOrHeader_S sh) with None => true | Some _ => false end) then Next (out__, rd__) else (let out__ := out__ ++ [((imp_samrd_SAMOrHeader_S sh), 0%Z)] in let t__3 := negb (Nat.eqb (length out__) p) in (if (negb t__3) then Brk (out__, rd__) else Next (out__, rd__))))))) 0 x).

Lemma rfs_loop : forall (l : list (item Sam.entry)) out rd, may_go p out ->
  go_iter rfs_body (map sh_item l) (out, rd)
  = Next (take_stop p (out ++ map sr_item (flat_map Sam.reader_filter l)), rd).
Proof.
  induction l as [|i l IH]; intros out rd Hgo; cbn [map flat_map go_iter].
  - rewrite app_nil_r, take_stop_short; [reflexivity | unfold may_go in Hgo; lia].
  - destruct i as [[h|r]|]; cbn [sh_item Sam.reader_filter app map sr_item]; unfold rfs_body at 1;
      cbn [Z.eqb negb imp_samrd_SAMOrHeader_S].
    + apply IH. exact Hgo.
    + destruct (Nat.eqb_spec (length (out ++ [(Some (sam_of r), 0)])) p) as [Ep|Ep]; cbn [negb].
      * rewrite (take_stop_hit p out _ _ Ep). reflexivity.
      * rewrite IH; [rewrite <- app_assoc; reflexivity|]. apply may_go_next; auto. apply Nat.eqb_neq. exact Ep.
    + destruct (Nat.eqb_spec (length (out ++ [(@None imp_sam_SAM, 2)])) p) as [Ep|Ep]; cbn [negb].
      * rewrite (take_stop_hit p out _ _ Ep). reflexivity.
      * rewrite IH; [rewrite <- app_assoc; reflexivity|]. apply may_go_next; auto. apply Nat.eqb_neq. exact Ep.
Qed.

Theorem imp_sam_Reader_stop_ok fuel s : (length s + 1 < fuel)%nat ->
  exists st, imp_samrd_Reader_stop p fuel o (Stream s tc None)
             = Ret (st, take_stop p (map sr_item (Sam.reader o s t))).
Proof.
  intros Hf. unfold imp_samrd_Reader_stop. cbv zeta.
  destruct (imp_sam_ReaderHeader_ok o t fuel s Hf) as (st & Hst). rewrite Hst. cbn [go_call].
  change (go_range (map sh_item (Sam.reader_header o s t)) _ ([], st))
    with (go_range (map sh_item (Sam.reader_header o s t)) (fun _ x s => rfs_body x s) ([], st)).
  rewrite go_range_elems, rfs_loop; [|unfold may_go; cbn; lia]. cbn [after app]. exists st. reflexivity.
Qed.

End SamStop.

(* ---- bed: Reader ---------------------------------------------------------------------------------------------------- *)
Section BedStop.
Variable p : nat.
Variable t : term.
Notation tc := (ImpProofsJ.term_code t).

Definition ros_body (fuel : nat) : ro_state -> res ro_state (go_stream * list (imp_bed_BED * Z)) :=
  (fun '((rd, out__, rd__) : (imp_bed_reader * _ * go_stream)) => go_call (imp_bed_reader_read fuel rd__ rd) (fun '(rd__, t__3, (t__1, t__2)) => let rd := t__3 in let bed := t__1 in let err := t__2 in after (if (Z.eqb err 1%Z) then Ret (rd__, out__) else Next tt) (fun 'tt => after (if (negb (Z.eqb err 0%Z)) then (let out__ := out__ ++ [((Imp_bed_BED 0%Z (@nil N) 0%Z 0%Z (@nil N) 0%Z (@nil N) 0%Z 0%Z (repeat 0%N 3) 0%Z [] []), err)] in let t__4 := negb (Nat.eqb (length out__) p) in Ret (rd__, out__)) else Next out__) (fun out__ => (let out__ := out__ ++ [(bed, 0%Z)] in let t__5 := negb (Nat.eqb (length out__) p) in (if (negb t__5) then Ret (rd__, out__) else Next (rd, out__, rd__))))))).

Lemma ros_loop fuel : forall m s n out fw, (length s <= m)%nat -> (length s < fuel)%nat -> (m + 1 < fw)%nat ->
  may_go p out ->
  exists st, go_while fw (fun _ => Ret true) (ros_body fuel) (rdr n, out, Stream s tc None)
             = Ret (st, take_stop p (out ++ map bed_item (dec t n s))).
Proof.
  induction m as [|m IH]; intros s n out fw Hm Hf Hw Hgo; (destruct fw as [|fw]; [lia|]); cbn [go_while];
    unfold ros_body at 1; cbv beta iota; rewrite imp_read_is_rd_res;
    destruct (rd_dec t fuel n s Hf) as (rest & r' & b & e & Hr & Hc); rewrite Hr; cbn [go_call]; cbv beta iota zeta;
    destruct Hc as [(-> & Hd)|[(-> & Hd & ->)|(-> & bb & n' & -> & -> & Hd & Hl)]]; rewrite Hd; cbn [Z.eqb Pos.eqb negb after map bed_item].
  - eexists. rewrite app_nil_r, take_stop_short; [reflexivity | unfold may_go in Hgo; lia].
  - eexists. rewrite take_stop_short; [reflexivity|]. unfold may_go in Hgo. rewrite app_length. cbn [length]. lia.
  - lia.
  - eexists. rewrite app_nil_r, take_stop_short; [reflexivity | unfold may_go in Hgo; lia].
  - eexists. rewrite take_stop_short; [reflexivity|]. unfold may_go in Hgo. rewrite app_length. cbn [length]. lia.
  - destruct (Nat.eqb_spec (length (out ++ [(bed_of bb, 0)])) p) as [Ep|Ep]; cbn [negb].
    + eexists. rewrite (take_stop_hit p out _ _ Ep). reflexivity.
    + destruct (IH rest n' (out ++ [(bed_of bb, 0)]) fw) as (st & Hst); [lia|lia|lia| |].
      { apply may_go_next; auto. apply Nat.eqb_neq. exact Ep. }
      rewrite Hst. eexists. rewrite <- app_assoc. reflexivity.
Qed.

Theorem imp_bed_Reader_stop_ok fuel s : (length s + 2 < fuel)%nat ->
  exists st, imp_bed_Reader_stop p fuel (Stream s tc None) = Ret (st, take_stop p (map bed_item (Bed.decode s t))).
Proof.
  intros Hf. unfold imp_bed_Reader_stop. cbv zeta.
  timeout 120 (change (go_while fuel _ _ (Imp_bed_reader 0, [], ?st))
    with (go_while fuel (fun _ => Ret true) (ros_body fuel) (rdr 0, [], st))).
  destruct (ros_loop fuel (length s) s 0%nat [] fuel (le_n _)) as (st & Hst); [lia|lia| |].
  { unfold may_go. cbn. lia. }
  rewrite Hst. exists st. reflexivity.
Qed.

End BedStop.

(* ---- a loop whose body yields one item per element ------------------------------------------------------- *)
Lemma go_iter_stop_after {A B} (F : A -> list B -> res (list B) (list B)) (g : A -> B) p l out :
  (forall x out, In x l ->
     F x out = if Nat.eqb (length (out ++ [g x])) p then Ret (out ++ [g x]) else Next (out ++ [g x])) ->
  may_go p out ->
  after (go_iter F l out) (fun out => Ret out) = (Ret (take_stop p (out ++ map g l)) : res unit (list B)).
Proof.
  revert out. induction l as [|x l IH]; intros out HF Hgo; cbn [go_iter map after].
  - rewrite app_nil_r, take_stop_short; [reflexivity | unfold may_go in Hgo; lia].
  - rewrite (HF x out (or_introl eq_refl)).
    destruct (Nat.eqb_spec (length (out ++ [g x])) p) as [Ep|Ep]; cbn [after].
    + rewrite (take_stop_hit p out _ _ Ep). reflexivity.
    + rewrite IH.
      * rewrite <- app_assoc. reflexivity.
      * intros y o' Hy. apply HF. right. exact Hy.
      * apply may_go_next; auto. apply Nat.eqb_neq. exact Ep.
Qed.

(* ---- sequtil: CanonicalSubsequences ------------------------------------------------------------------------------ *)
From Bio.gen Require Import Tables.
From Bio.Model Require Import GoGlobals Seq.
From Bio.Proofs Require Import SeqProofs.

Theorem imp_CanonicalSubsequences_stop p s k : all_bytes s ->
  imp_sequtil_CanonicalSubsequences_stop p s k
  = match canon s k with Ok items => Ret (take_stop p items) | _ => Panics end.
Proof.
  intros Hs. unfold imp_sequtil_CanonicalSubsequences_stop, canon. cbv zeta.
  unfold go_make. cbn [Z.ltb Z.compare Z.to_nat repeat].
  rewrite (imp_ReverseComplement [] s Hs).
  destruct (rc [] s) as [rcs| |] eqn:Erc; cbn [of_outcome go_call]; try reflexivity.
  assert (Hlen : length rcs = length s).
  { apply rc_ok_inv in Erc. destruct Erc as [_ ->]. cbn [app]. apply rcseq_length. }
  destruct (Z.ltb_spec k 0) as [Hk|Hk].
  - unfold go_range_int.
    replace (Z.to_nat (go_len s - k + 1)) with (S (Z.to_nat (go_len s - k))) by (unfold go_len; lia).
    rewrite zseq_cons. cbn [go_iter]. unfold go_slice at 1.
    replace ((0 <? 0)%Z || (0 + k <? 0)%Z || (go_len s <? 0 + k)%Z) with true by lia.
    reflexivity.
  - unfold go_range_int.
    set (kn := Z.to_nat k).
    replace (Z.to_nat (go_len s - k + 1)) with (S (length s) - kn)%nat by (unfold go_len; lia).
    rewrite (go_iter_stop_after _ (fun i => canon_at s rcs kn (Z.to_nat i)) p).
    + cbn [app]. rewrite zseq0_map, map_map. do 2 f_equal. apply map_ext. intros i. rewrite Nat2Z.id. reflexivity.
    + intros i out Hi. apply in_zseq in Hi.
      unfold go_slice, go_len. rewrite Hlen.
      replace ((i <? 0)%Z || (i + k <? i)%Z || (Z.of_nat (length s) <? i + k)%Z) with false by lia.
      replace ((Z.of_nat (length s) - i - k <? 0)%Z || (Z.of_nat (length s) - i <? Z.of_nat (length s) - i - k)%Z
               || (Z.of_nat (length s) <? Z.of_nat (length s) - i)%Z) with false by lia.
      unfold canon_at, slice, go_bytes_compare.
      replace (Z.to_nat (i + k - i)) with kn by lia.
      replace (Z.to_nat (Z.of_nat (length s) - i - (Z.of_nat (length s) - i - k))) with kn by lia.
      replace (Z.to_nat (Z.of_nat (length s) - i - k)) with (length rcs - Z.to_nat i - kn)%nat by lia.
      destruct (bcompare _ _); cbn [Z.eqb Pos.eqb]; destruct (Nat.eqb _ p); reflexivity.
    + unfold may_go. cbn. lia.
Qed.

(* ---- copying the items of an inner iterator to a consumer that may stop --------------------------------- *)
Lemma go_iter_copy_stop {A St R} p (F : A -> list A * St -> res (list A * St) R) (items : list A) :
  (forall x out rd, F x (out, rd) = if Nat.eqb (length (out ++ [x])) p then Brk (out ++ [x], rd) else Next (out ++ [x], rd)) ->
  forall out rd, may_go p out ->
  go_iter F items (out, rd) = Next (take_stop p (out ++ items), rd).
Proof.
  intros HF. induction items as [|x items IH]; intros out rd Hgo; cbn [go_iter].
  - rewrite app_nil_r, take_stop_short; [reflexivity | unfold may_go in Hgo; lia].
  - rewrite HF. destruct (Nat.eqb_spec (length (out ++ [x])) p) as [Ep|Ep].
    + rewrite (take_stop_hit p out _ _ Ep). reflexivity.
    + rewrite IH; [rewrite <- app_assoc; reflexivity|]. apply may_go_next; auto. apply Nat.eqb_neq. exact Ep.
Qed.

(* ---- fasta ------------------------------------------------------------------------------------------------------------ *)
Section FastaStop.
Import ImpProofsJ.
Variable p : nat.
Variable t : term.
Notation tc := (ImpProofsJ.term_code t).

Definition fis_body (fuel : nat) : fi_state -> res fi_state (go_stream * list (imp_fastard_Fasta * Z)) :=
  (fun '((out__, rd__) : (_ * go_stream)) => go_call (imp_fastard_reader_read fuel rd__) (fun '(rd__, (t__1, t__2)) => let fa := t__1 in let err := t__2 in (if (negb (Z.eqb err 0%Z)) then (if (negb (Z.eqb err 1%Z)) then (let out__ := out__ ++ [((Imp_fastard_Fasta [] []), err)] in let t__3 := negb (Nat.eqb (length out__) p) in Brk (out__, rd__)) else Brk (out__, rd__)) else (let out__ := out__ ++ [(fa, 0%Z)] in let t__4 := negb (Nat.eqb (length out__) p) in (if (negb t__4) then Ret (rd__, out__) else Next (out__, rd__)))))).

Definition fis_final : fi_state -> res unit (go_stream * list (imp_fastard_Fasta * Z)) :=
  fun '(out__, rd__) => Ret (rd__, out__).

Lemma fis_loop fuel : forall mf fw inp out,
  (length inp < mf)%nat -> (length inp + 1 < fw)%nat -> (length inp + 2 < fuel)%nat -> may_go p out ->
  exists st, after (go_while fw (fun _ => Ret true) (fis_body fuel) (out, Stream inp tc None)) fis_final
             = Ret (st, take_stop p (out ++ map (fa_item t) (Fasta.decode_fuel mf inp t))).
Proof.
  induction mf as [|mf IH]; intros fw inp out Hm Hw Hf Hgo; [lia|].
  destruct fw as [|fw]; [lia|]. cbn [go_while Fasta.decode_fuel].
  unfold fis_body at 1. cbv beta iota.
  rewrite (imp_fasta_read fuel inp t Hf).
  destruct (Fasta.read_one inp t) as [r rest| |] eqn:R; cbn [fr_read_result go_call]; cbv beta iota zeta.
  - cbn [Z.eqb negb map fa_item]. pose proof (FastaProofsB.read_one_rest inp t r rest R) as Hr.
    destruct (Nat.eqb_spec (length (out ++ [(Imp_fastard_Fasta (Fasta.name r) (Fasta.seq r), 0)])) p) as [Ep|Ep]; cbn [negb after].
    + eexists. rewrite (take_stop_hit p out _ _ Ep). reflexivity.
    + destruct (IH fw rest (out ++ [(Imp_fastard_Fasta (Fasta.name r) (Fasta.seq r), 0)])) as (st & Hst); try lia.
      { apply may_go_next; auto. apply Nat.eqb_neq. exact Ep. }
      exists st. rewrite Hst, <- app_assoc. reflexivity.
  - cbn [Z.eqb Pos.eqb negb map after]. eexists. rewrite app_nil_r, take_stop_short; [reflexivity | unfold may_go in Hgo; lia].
  - cbn [Z.eqb Pos.eqb negb map fa_item after]. destruct t.
    + exfalso. unfold Fasta.read_one in R. destruct (Fasta.rd_loop Fasta.SStart [] [] false inp) as [[[nm sq] any] [rest|]]; [discriminate|].
      destruct (negb any); discriminate.
    + cbn [term_code Z.eqb Pos.eqb negb after]. eexists. rewrite take_stop_short; [reflexivity|].
      unfold may_go in Hgo. rewrite app_length. cbn [length]. lia.
Qed.

Theorem imp_fasta_iter_stop_ok fuel inp : (length inp + 2 < fuel)%nat ->
  exists st, imp_fastard_reader_iter_stop p fuel (Stream inp tc None)
             = Ret (st, take_stop p (map (fa_item t) (Fasta.decode inp t))).
Proof.
  intros Hf. unfold imp_fastard_reader_iter_stop, Fasta.decode. cbv zeta.
  timeout 120 (change (go_while fuel _ _ ([], ?s)) with (go_while fuel (fun _ => Ret true) (fis_body fuel) ([], s))).
  destruct (fis_loop fuel (S (length inp)) fuel inp []) as (st & Hst); try lia.
  { unfold may_go. cbn. lia. }
  exists st. exact Hst.
Qed.

Theorem imp_fasta_Reader_stop_ok fuel inp : (length inp + 2 < fuel)%nat ->
  imp_fastard_Reader_stop p fuel (Stream inp tc None)
  = Ret (Stream [] tc None, take_stop p (map (fa_item t) (Fasta.decode inp t))).
Proof.
  intros Hf. unfold imp_fastard_Reader_stop. cbv zeta. rewrite (imp_fasta_iter fuel inp t Hf). cbn [go_call].
  match goal with |- context [go_range ?l ?f ?s0] =>
    replace (go_range l f s0) with (go_range (R := go_stream * list (imp_fastard_Fasta * Z)) l (fun _ x st' => (fun x '(out__, rd__) =>
      if Nat.eqb (length (out__ ++ [x])) p then Brk (out__ ++ [x], rd__) else Next (out__ ++ [x], rd__)) x st') s0) end.
  - rewrite go_range_elems.
    rewrite (go_iter_copy_stop p _ _ (fun x out rd => eq_refl)); [|unfold may_go; cbn; lia].
    reflexivity.
  - unfold go_range. apply go_iter_ext. intros [j [fa e]] [o r] _. cbn [fst snd].
    destruct (Nat.eqb _ p); reflexivity.
Qed.

End FastaStop.

(* ---- fastq ------------------------------------------------------------------------------------------------------------ *)
Section FastqStop.
Import ImpProofsK.
Variable p : nat.
Variable t : term.

Definition fqis_body : fqi_state -> res fqi_state (go_scanner * list (imp_fastqrd_Fastq * Z)) :=
  (fun '((out__, rd__) : (_ * go_scanner)) => go_call (imp_fastqrd_reader_read rd__) (fun '(rd__, (t__1, t__2)) => let fq := t__1 in let err := t__2 in (if (negb (Z.eqb err 0%Z)) then after (if (negb (Z.eqb err 1%Z)) then (let out__ := out__ ++ [((Imp_fastqrd_Fastq [] [] []), err)] in let t__3 := negb (Nat.eqb (length out__) p) in Next out__) else Next out__) (fun out__ => Brk (out__, rd__)) else (let out__ := out__ ++ [(fq, 0%Z)] in let t__4 := negb (Nat.eqb (length out__) p) in (if (negb t__4) then Ret (rd__, out__) else Next (out__, rd__)))))).

Definition fqis_final : fqi_state -> res unit (go_scanner * list (imp_fastqrd_Fastq * Z)) :=
  fun '(out__, rd__) => Ret (rd__, out__).

Lemma fqis_loop : forall n (toks : list bytes) cur fw out, (length toks <= n)%nat -> (n + 1 < fw)%nat -> may_go p out ->
  exists s' out', after (go_while fw (fun _ => Ret true) fqis_body (out, Scanner cur toks (scan_code t) false)) fqis_final
                  = Ret (s', take_stop p (out ++ out'))
    /\ Forall2 fq_item_ok (Fastq.decode_toks t toks) out'.
Proof.
  induction n as [|n IH]; intros toks cur fw out Hn Hw Hgo;
    (destruct fw as [|fw]; [lia|]); cbn [go_while]; unfold fqis_body at 1; cbv beta iota;
    rewrite FastqProofsB.decode_toks_eq, read_with_cases;
    pose proof (imp_fastq_read cur toks t) as Hr;
    destruct (Fastq.read_one (toks, t)) as [r rest| |] eqn:R; cbn [fq_agrees] in Hr.
  - apply read_one_shorter in R. lia.
  - destruct Hr as (s & ->). cbn [go_call]. cbv beta iota zeta. cbn [Z.eqb Pos.eqb negb after fqis_final].
    exists s, []. split; [|constructor]. rewrite app_nil_r, take_stop_short; [reflexivity | unfold may_go in Hgo; lia].
  - destruct Hr as (s & e & -> & He0 & He1). cbn [go_call]. cbv beta iota zeta.
    replace (e =? 0) with false by lia. replace (e =? 1) with false by lia. cbn [negb after fqis_final].
    exists s, [(fq_zero, e)]. split; [|constructor; [|constructor]; cbn; auto].
    rewrite take_stop_short; [reflexivity|]. unfold may_go in Hgo. rewrite app_length. cbn [length]. lia.
  - destruct Hr as (cur' & ->). cbn [go_call]. cbv beta iota zeta. cbn [Z.eqb negb].
    pose proof (read_one_shorter _ _ _ _ R) as Hs.
    destruct (Nat.eqb_spec (length (out ++ [(fq_rec r, 0)])) p) as [Ep|Ep]; cbn [negb after fqis_final].
    + destruct (fqi_loop t n rest cur' (S (S n)) []) as (s' & out' & _ & Hf); [lia|lia|].
      eexists. exists ((fq_rec r, 0) :: out'). split; [|constructor; [reflexivity | exact Hf]].
      rewrite (take_stop_hit p out _ _ Ep). reflexivity.
    + destruct (IH rest cur' fw (out ++ [(fq_rec r, 0)])) as (s' & out' & Hl & Hf); [lia|lia| |].
      { apply may_go_next; auto. apply Nat.eqb_neq. exact Ep. }
      rewrite Hl. exists s', ((fq_rec r, 0) :: out'). split; [rewrite <- app_assoc; reflexivity|].
      constructor; [reflexivity|exact Hf].
  - destruct Hr as (s & ->). cbn [go_call]. cbv beta iota zeta. cbn [Z.eqb Pos.eqb negb after fqis_final].
    exists s, []. split; [|constructor]. rewrite app_nil_r, take_stop_short; [reflexivity | unfold may_go in Hgo; lia].
  - destruct Hr as (s & e & -> & He0 & He1). cbn [go_call]. cbv beta iota zeta.
    replace (e =? 0) with false by lia. replace (e =? 1) with false by lia. cbn [negb after fqis_final].
    exists s, [(fq_zero, e)]. split; [|constructor; [|constructor]; cbn; auto].
    rewrite take_stop_short; [reflexivity|]. unfold may_go in Hgo. rewrite app_length. cbn [length]. lia.
Qed.

Theorem imp_fastq_iter_stop_ok fuel cur (toks : list bytes) : (length toks + 1 < fuel)%nat ->
  exists s' out, imp_fastqrd_reader_iter_stop p fuel (Scanner cur toks (scan_code t) false) = Ret (s', take_stop p out)
    /\ Forall2 fq_item_ok (Fastq.decode_toks t toks) out.
Proof.
  intros Hf. unfold imp_fastqrd_reader_iter_stop. cbv zeta.
  timeout 120 (change (go_while fuel _ _ ([], ?s)) with (go_while fuel (fun _ => Ret true) fqis_body ([], s))).
  destruct (fqis_loop (length toks) toks cur fuel [] (le_n _) Hf) as (s' & out' & Hl & Hfa).
  { unfold may_go. cbn. lia. }
  exists s', out'. split; [exact Hl | exact Hfa].
Qed.

Theorem imp_fastq_Reader_stop_ok fuel cur (toks : list bytes) : (length toks + 1 < fuel)%nat ->
  exists s' out, imp_fastqrd_Reader_stop p fuel (Scanner cur toks (scan_code t) false) = Ret (s', take_stop p out)
    /\ Forall2 fq_item_ok (Fastq.decode_toks t toks) out.
Proof.
  intros Hf. unfold imp_fastqrd_Reader_stop. cbv zeta.
  destruct (imp_fastq_iter fuel cur toks t Hf) as (s' & out & Hi & Hfa). rewrite Hi. cbn [go_call].
  exists s', out. split; [|exact Hfa].
  match goal with |- context [go_range ?l ?f ?s0] =>
    replace (go_range l f s0) with (go_range (R := go_scanner * list (imp_fastqrd_Fastq * Z)) l (fun _ x st' => (fun x '(out__, rd__) =>
      if Nat.eqb (length (out__ ++ [x])) p then Brk (out__ ++ [x], rd__) else Next (out__ ++ [x], rd__)) x st') s0) end.
  - rewrite go_range_elems.
    rewrite (go_iter_copy_stop p _ _ (fun x out rd => eq_refl)); [|unfold may_go; cbn; lia].
    reflexivity.
  - unfold go_range. apply go_iter_ext. intros [j [fa e]] [o r] _. cbn [fst snd].
    destruct (Nat.eqb _ p); reflexivity.
Qed.

End FastqStop.

Lemma Forall2_len {A B} (R : A -> B -> Prop) l1 l2 : Forall2 R l1 l2 -> length l1 = length l2.
Proof. intros F. induction F; cbn; auto. Qed.

(* ---- newick: Reader -------------------------------------------------------------------------------------------------- *)
Section NewickStop.
Import ImpProofsR.
Variable p : nat.
Variable o : foracle.
Variable tm : term.
Notation tc := (ImpProofsJ.term_code tm).

Definition nrs_body (fuel : nat) : nr_state -> res nr_state nr_result :=
  (fun '((rd, out__, rd__, h__) : (imp_newickrd_reader * _ * go_stream * (list imp_newickrd_Node))) => go_call (imp_newickrd_reader_read fuel o h__ rd__ rd) (fun '(rd__, t__3, (h__, (t__1, t__2))) => let rd := t__3 in let n := t__1 in let err := t__2 in (if (Z.eqb err 1%Z) then Ret (rd__, (h__, out__)) else (if (negb (Z.eqb err 0%Z)) then (let out__ := out__ ++ [((-1)%Z, err)] in let t__4 := negb (Nat.eqb (length out__) p) in Ret (rd__, (h__, out__))) else (let out__ := out__ ++ [(n, 0%Z)] in let t__5 := negb (Nat.eqb (length out__) p) in (if (negb t__5) then Ret (rd__, (h__, out__)) else Next (rd, out__, rd__, h__))))))).

Lemma decode_loop_acc : forall n s acc,
  match Newick.decode_loop o n s tm acc with
  | Ok items => exists more, items = rev acc ++ more
  | _ => True
  end.
Proof.
  induction n as [|n IH]; intros s acc; cbn [Newick.decode_loop]; [exact I|].
  destruct (Newick.read_tree o s tm) as [t rest| | |]; try exact I.
  - specialize (IH rest (Rec t :: acc)). destruct (Newick.decode_loop o n rest tm (Rec t :: acc)); auto.
    destruct IH as (more & ->). cbn [rev]. rewrite <- app_assoc. eauto.
  - exists []. rewrite app_nil_r. reflexivity.
  - exists [ErrItem]. reflexivity.
Qed.

Lemma nrs_loop base0 h0 fuel : forall n s h last rbuf out acc gf,
  (n < gf)%nat -> (length s + 2 < fuel)%nat -> keeps base0 h0 h -> base0 <= go_len h ->
  Forall2 (item_holds h) (rev acc) out -> may_go p out ->
  match Newick.decode_loop o n s tm acc with
  | Ok items => exists st h' out',
      go_while gf (fun _ => Ret true) (nrs_body fuel) (rbuf, out, Stream s tc last, h) = Ret (st, (h', out')) /\
      Forall2 (item_holds h') (take_stop p items) out' /\ keeps base0 h0 h'
  | _ => True
  end.
Proof.
  induction n as [|n IH]; intros s h last rbuf out acc gf Hg Hf HK Hb HA Hgo; [exact I|].
  destruct gf as [|gf]; [lia|].
  cbn [Newick.decode_loop go_while]. unfold nrs_body at 1. cbv beta iota.
  pose proof (imp_read_ok o tm fuel h s last rbuf Hf) as HR.
  pose proof (Forall2_len _ _ _ HA) as Hlen. rewrite rev_length in Hlen.
  destruct (Newick.read_tree o s tm) as [t rest| | |] eqn:Ert; cbn [rd_agrees] in HR.
  - destruct HR as (last' & rbuf' & h' & a & -> & Hh & Hk & Ba). cbn [go_call]. cbv beta iota zeta.
    cbn [Z.eqb negb].
    assert (Hrest : (length rest < length s)%nat).
    { unfold Newick.read_tree in Ert. apply NewickProofsC.read_loop_rest in Ert. exact Ert. }
    assert (K1 : keeps base0 h0 h').
    { eapply keeps_trans; [exact HK|]. eapply keeps_weaken; [|exact Hk]. exact Hb. }
    assert (K2 : base0 <= go_len h') by (destruct Hk; lia).
    assert (K3 : Forall2 (item_holds h') (rev (Rec t :: acc)) (out ++ [(a, 0)])).
    { cbn [rev]. apply Forall2_app.
      - eapply Forall2_impl'; [|exact HA]. intros i x. apply item_holds_keeps. exact Hk.
      - constructor; [|constructor]. split; [reflexivity | exact Hh]. }
    destruct (Nat.eqb_spec (length (out ++ [(a, 0)])) p) as [Ep|Ep]; cbn [negb].
    + pose proof (decode_loop_acc n rest (Rec t :: acc)) as Hpre.
      destruct (Newick.decode_loop o n rest tm (Rec t :: acc)) as [items| |]; auto.
      destruct Hpre as (more & ->). exists (Stream rest tc last'), h', (out ++ [(a, 0)]).
      split; [reflexivity|]. split; [|exact K1].
      cbn [rev]. rewrite <- app_assoc. cbn [app].
      rewrite (take_stop_hit p (rev acc) (Rec t) more); [exact K3|].
      rewrite app_length, rev_length in *. cbn [length] in *. lia.
    + specialize (IH rest h' last' rbuf' (out ++ [(a, 0)]) (Rec t :: acc) gf ltac:(lia) ltac:(lia) K1 K2 K3).
      destruct (Newick.decode_loop o n rest tm (Rec t :: acc)) as [items| |]; auto.
      apply IH. apply may_go_next; auto. apply Nat.eqb_neq. exact Ep.
  - destruct HR as (st & rbuf' & h' & -> & Hk). cbn [go_call]. cbv beta iota zeta. cbn [Z.eqb Pos.eqb].
    exists st, h', out. split; [reflexivity|]. split.
    + rewrite take_stop_short; [|unfold may_go in Hgo; rewrite rev_length; lia].
      eapply Forall2_impl'; [|exact HA]. intros i x. apply item_holds_keeps. exact Hk.
    + eapply keeps_trans; [exact HK|]. eapply keeps_weaken; [|exact Hk]. exact Hb.
  - destruct HR as (st & rbuf' & h' & e & -> & He & Hk). cbn [go_call]. cbv beta iota zeta.
    exists st, h', (out ++ [(-1, e)]). split.
    + destruct He as [-> | ->]; reflexivity.
    + split.
      * rewrite take_stop_short; [|unfold may_go in Hgo; cbn [rev]; rewrite app_length, rev_length; cbn [length]; lia].
        cbn [rev]. apply Forall2_app.
        -- eapply Forall2_impl'; [|exact HA]. intros i x. apply item_holds_keeps. exact Hk.
        -- constructor; [|constructor]. split; [reflexivity | exact He].
      * eapply keeps_trans; [exact HK|]. eapply keeps_weaken; [|exact Hk]. exact Hb.
  - exact I.
Qed.

Theorem imp_newick_Reader_stop_ok fuel h s : (length s + 2 < fuel)%nat ->
  match Newick.decode o s tm with
  | Ok items => exists st h' out,
      imp_newickrd_Reader_stop p fuel o h (Stream s tc None) = Ret (st, (h', out)) /\
      Forall2 (item_holds h') (take_stop p items) out /\ keeps (go_len h) h h'
  | _ => True
  end.
Proof.
  intros Hf. unfold Newick.decode.
  pose proof (nrs_loop (go_len h) h fuel (S (length s)) s h None (Imp_newickrd_reader []) [] [] fuel) as H.
  destruct (Newick.decode_loop o (S (length s)) s tm []) as [items| |]; auto.
  destruct H as (st & h' & out & E & HF & HK); try lia; [apply keeps_refl | constructor | unfold may_go; cbn; lia |].
  exists st, h', out. split; [|auto]. unfold imp_newickrd_Reader_stop. cbv zeta.
  timeout 120 (change (go_while fuel _ _ ?x) with (go_while fuel (fun _ => Ret true) (nrs_body fuel) x)).
  match goal with |- after ?m ?f = _ =>
    assert (E' : forall m' : res nr_state nr_result, m' = Ret (st, (h', out)) -> after m' f = Ret (st, (h', out)))
      by (intros m' ->; reflexivity) end.
  apply E'. exact E.
Qed.

End NewickStop.

(* ---- newick: Node.traverse (PreOrder / PostOrder) ----------------------------------------------------------- *)
Section TraverseStop.
Import ImpProofsI.
Variable p : nat.

Definition trs_body (pre : bool) : tr_state -> res tr_state (list imp_newick_Node) :=
  (fun '((stack, out__) : ((list imp_newick_traversalStep) * _)) => let stepi := (Z.sub (go_len stack) (1)%Z) in go_index stack stepi (fun t__17 => let step := t__17 in (if (andb pre (Z.eqb (imp_newick_traversalStep_i step) (0)%Z)) then (let out__ := out__ ++ [(imp_newick_traversalStep_n step)] in let t__18 := negb (Nat.eqb (length out__) p) in (if (negb t__18) then Ret out__ else (if (Z.eqb (imp_newick_traversalStep_i step) (go_len (imp_newick_Node_Children (imp_newick_traversalStep_n step)))) then (if (negb pre) then (let out__ := out__ ++ [(imp_newick_traversalStep_n step)] in let t__19 := negb (Nat.eqb (length out__) p) in (if (negb t__19) then Ret out__ else go_slice stack 0%Z (Z.sub (go_len stack) (1)%Z) (fun t__20 => let stack := t__20 in Next (stack, out__)))) else go_slice stack 0%Z (Z.sub (go_len stack) (1)%Z) (fun t__21 => let stack := t__21 in Next (stack, out__))) else go_index (imp_newick_Node_Children (imp_newick_traversalStep_n step)) (imp_newick_traversalStep_i step) (fun t__22 => let stack := (stack ++ [(Imp_newick_traversalStep t__22 (0)%Z)]) in go_index stack stepi (fun t__23 => go_index stack stepi (fun t__24 => go_set stack stepi (imp_newick_traversalStep_with_i t__24 (Z.add (imp_newick_traversalStep_i t__23) (1)%Z)) (fun t__25 => let stack := t__25 in Next (stack, out__)))))))) else (if (Z.eqb (imp_newick_traversalStep_i step) (go_len (imp_newick_Node_Children (imp_newick_traversalStep_n step)))) then (if (negb pre) then (let out__ := out__ ++ [(imp_newick_traversalStep_n step)] in let t__26 := negb (Nat.eqb (length out__) p) in (if (negb t__26) then Ret out__ else go_slice stack 0%Z (Z.sub (go_len stack) (1)%Z) (fun t__27 => let stack := t__27 in Next (stack, out__)))) else go_slice stack 0%Z (Z.sub (go_len stack) (1)%Z) (fun t__28 => let stack := t__28 in Next (stack, out__))) else go_index (imp_newick_Node_Children (imp_newick_traversalStep_n step)) (imp_newick_traversalStep_i step) (fun t__29 => let stack := (stack ++ [(Imp_newick_traversalStep t__29 (0)%Z)]) in go_index stack stepi (fun t__30 => go_index stack stepi (fun t__31 => go_set stack stepi (imp_newick_traversalStep_with_i t__31 (Z.add (imp_newick_traversalStep_i t__30) (1)%Z)) (fun t__32 => let stack := t__32 in Next (stack, out__))))))))).

Definition trs_final : tr_state -> res unit (list imp_newick_Node) := fun '(stack, out__) => Ret out__.

Lemma traverse_loop_acc pre : forall fm stack acc r,
  Newick.traverse_loop pre fm stack acc = Ok r -> exists more, r = rev acc ++ more.
Proof.
  induction fm as [|fm IH]; intros stack acc r Hr.
  - destruct stack as [|[[p0 n] i] rest]; [|discriminate]. cbn in Hr. injection Hr as <-. exists []. rewrite app_nil_r. reflexivity.
  - destruct stack as [|[[p0 n] i] rest].
    + cbn in Hr. injection Hr as <-. exists []. rewrite app_nil_r. reflexivity.
    + cbn [Newick.traverse_loop] in Hr.
      assert (Hsub : forall acc' r', (exists m', rev acc' = rev acc ++ m') -> (exists more, r' = rev acc' ++ more) ->
                                     exists more, r' = rev acc ++ more).
      { intros acc' r' (m' & E) (more & ->). rewrite E, <- app_assoc. eauto. }
      assert (Hsame : exists m', rev acc = rev acc ++ m') by (exists []; rewrite app_nil_r; reflexivity).
      assert (Hone : forall x, exists m', rev (x :: acc) = rev acc ++ m') by (intros x; cbn [rev]; eauto).
      assert (Htwo : forall x y, exists m', rev (y :: x :: acc) = rev acc ++ m')
        by (intros x y; cbn [rev]; rewrite <- app_assoc; eauto).
      destruct (Nat.eqb i (length (Newick.t_children n))).
      * apply IH in Hr. destruct pre; cbn [andb] in Hr; destruct (Nat.eqb i 0); cbn [andb] in *;
          eapply Hsub; eauto.
      * destruct (nth_error (Newick.t_children n) i); [|discriminate]. apply IH in Hr.
        destruct pre; cbn [andb] in Hr; destruct (Nat.eqb i 0); eapply Hsub; eauto.
Qed.

Lemma trs_loop pre : forall fm fuel stack acc r,
  Newick.traverse_loop pre fm stack acc = Ok r -> (fm < fuel)%nat -> may_go p (map nd (rev acc)) ->
  after (go_while fuel tr_cond (trs_body pre) (rev (map step_of stack), map nd (rev acc))) trs_final
  = Ret (take_stop p (map nd r)).
Proof.
  induction fm as [|fm IH]; intros fuel stack acc r Hr Hf Hgo; (destruct fuel as [|fuel]; [lia|]);
    cbn [go_while]; unfold tr_cond at 1; cbv beta iota.
  - destruct stack as [|[[p0 n] i] rest]; [|discriminate]. cbn [Newick.traverse_loop] in Hr. injection Hr as <-.
    cbn [map rev go_len length Z.ltb Z.compare Z.of_nat after trs_final].
    rewrite take_stop_short; [reflexivity | unfold may_go in Hgo; rewrite map_length in *; lia].
  - destruct stack as [|[[p0 n] i] rest].
    + cbn [Newick.traverse_loop] in Hr. injection Hr as <-.
      cbn [map rev go_len length Z.ltb Z.compare Z.of_nat after trs_final].
      rewrite take_stop_short; [reflexivity | unfold may_go in Hgo; rewrite map_length in *; lia].
    + cbn [Newick.traverse_loop] in Hr. cbn [map rev].
      set (P := rev (map step_of rest)) in *.
      unfold go_len at 1. rewrite app_length. cbn [length].
      replace (0 <? Z.of_nat (length P + 1)) with true by lia.
      unfold trs_body at 1. cbv beta iota. cbv zeta.
      assert (Hst : go_len (P ++ [step_of (p0, n, i)]) - 1 = go_len P) by (unfold go_len; rewrite app_length; cbn [length]; lia).
      rewrite Hst. rewrite (go_index_last P _ _ _ eq_refl).
      cbn [step_of imp_newick_traversalStep_i imp_newick_traversalStep_n].
      rewrite !children_of.
      replace (go_len (map node_of (Newick.t_children n))) with (Z.of_nat (length (Newick.t_children n))) by (unfold go_len; rewrite map_length; reflexivity).
      replace (Z.of_nat i =? 0) with (Nat.eqb i 0) by (destruct (Nat.eqb_spec i 0); lia).
      replace (Z.of_nat i =? Z.of_nat (length (Newick.t_children n))) with (Nat.eqb i (length (Newick.t_children n)))
        by (destruct (Nat.eqb_spec i (length (Newick.t_children n))); lia).
      assert (Hpush : forall (a : list Newick.occ), map nd (rev a) ++ [node_of n] = map nd (rev ((rev p0, n) :: a))).
      { intros a. cbn [rev]. rewrite map_app. reflexivity. }
      assert (Hpop : forall S' (k : list imp_newick_traversalStep -> res S' (list imp_newick_Node)),
                 go_slice (P ++ [step_of (p0, n, i)]) 0 (go_len P) k = k P)
        by (intros; apply go_slice_init).
      cbn [step_of] in Hpop.
      assert (Hdesc : forall c (out : list imp_newick_Node), nth_error (Newick.t_children n) i = Some c ->
        go_index (map node_of (Newick.t_children n)) (Z.of_nat i) (fun t__6 =>
          let stack := ((P ++ [Imp_newick_traversalStep (node_of n) (Z.of_nat i)]) ++ [(Imp_newick_traversalStep t__6 (0)%Z)]) in
          go_index stack (go_len P) (fun t__7 => go_index stack (go_len P) (fun t__8 =>
            go_set stack (go_len P) (imp_newick_traversalStep_with_i t__8 (Z.add (imp_newick_traversalStep_i t__7) (1)%Z))
              (fun t__9 => Next (t__9, out)))))
        = Next (S := tr_state) (R := list imp_newick_Node) (rev (map step_of ((i :: p0, c, O) :: (p0, n, S i) :: rest)), out)).
      { intros c out Hc. rewrite (go_index_some _ (Z.of_nat i) (node_of c)) by (first [lia | rewrite Nat2Z.id, nth_error_map, Hc; reflexivity]).
        cbv zeta. rewrite <- app_assoc. cbn [app].
        rewrite !(go_index_mid P _ _ _ _ eq_refl). rewrite (go_set_mid P _ _ _ _ _ eq_refl).
        cbn [map rev step_of imp_newick_traversalStep_with_i imp_newick_traversalStep_i imp_newick_traversalStep_n]. fold P.
        rewrite <- app_assoc. cbn [app]. replace (Z.of_nat i + 1) with (Z.of_nat (S i)) by lia. reflexivity. }
      (* a declined yield ends the run with the items so far, which are a prefix of the full run *)
      assert (Hhit : forall fm' st' r', Newick.traverse_loop pre fm' st' ((rev p0, n) :: acc) = Ok r' ->
                 length (map nd (rev acc) ++ [node_of n]) = p ->
                 take_stop p (map nd r') = map nd (rev acc) ++ [node_of n]).
      { intros fm' st' r' Hr' Ep. destruct (traverse_loop_acc pre _ _ _ _ Hr') as (more & ->).
        cbn [rev]. rewrite <- app_assoc, map_app. cbn [app map]. change (nd (rev p0, n)) with (node_of n).
        apply take_stop_hit. exact Ep. }
      assert (Hnext : Nat.eqb (length (map nd (rev acc) ++ [node_of n])) p = false ->
                      may_go p (map nd (rev ((rev p0, n) :: acc)))).
      { intros E. rewrite <- Hpush. apply may_go_next; auto. }
      destruct pre; cbn [andb negb] in *.
      * destruct (Nat.eqb i 0) eqn:E0; cbv iota.
        -- destruct (Nat.eqb (length (map nd (rev acc) ++ [node_of n])) p) eqn:Ep; cbn [negb]; cbv iota.
           ++ apply Nat.eqb_eq in Ep. cbn [after].
              destruct (Nat.eqb i (length (Newick.t_children n))).
              ** rewrite (Hhit _ _ _ Hr Ep). reflexivity.
              ** destruct (nth_error (Newick.t_children n) i); [|discriminate]. rewrite (Hhit _ _ _ Hr Ep). reflexivity.
           ++ rewrite Hpush.
              destruct (Nat.eqb i (length (Newick.t_children n))) eqn:El; cbv iota.
              ** rewrite Hpop. apply (IH fuel _ _ _ Hr); [lia | auto].
              ** destruct (nth_error (Newick.t_children n) i) as [c|] eqn:Hc; [|discriminate].
                 rewrite (Hdesc c _ eq_refl). apply (IH fuel _ _ _ Hr); [lia | auto].
        -- destruct (Nat.eqb i (length (Newick.t_children n))) eqn:El; cbv iota.
           ++ rewrite Hpop. apply (IH fuel _ _ _ Hr); [lia | auto].
           ++ destruct (nth_error (Newick.t_children n) i) as [c|] eqn:Hc; [|discriminate].
              rewrite (Hdesc c _ eq_refl). apply (IH fuel _ _ _ Hr); [lia | auto].
      * destruct (Nat.eqb i (length (Newick.t_children n))) eqn:El; cbv iota.
        -- destruct (Nat.eqb (length (map nd (rev acc) ++ [node_of n])) p) eqn:Ep; cbn [negb]; cbv iota.
           ++ apply Nat.eqb_eq in Ep. cbn [after]. rewrite (Hhit _ _ _ Hr Ep). reflexivity.
           ++ rewrite Hpush, Hpop. apply (IH fuel _ _ _ Hr); [lia | auto].
        -- destruct (nth_error (Newick.t_children n) i) as [c|] eqn:Hc; [|discriminate].
           rewrite (Hdesc c _ eq_refl). apply (IH fuel _ _ _ Hr); [lia | auto].
Qed.

Theorem imp_traverse_stop_ok fuel pre t l : (2 * Newick.size t + 2 < fuel)%nat ->
  Newick.traverse pre t = Ok l ->
  imp_newick_Node_traverse_stop p fuel (node_of t) pre = Ret (take_stop p (map nd l)).
Proof.
  intros Hf Ht. unfold Newick.traverse in Ht. unfold imp_newick_Node_traverse_stop. cbv zeta.
  timeout 120 (change (go_while fuel _ _ ([Imp_newick_traversalStep (node_of t) 0], []))
    with (go_while fuel tr_cond (trs_body pre) (rev (map step_of [(([] : Newick.path), t, O)]), map nd (rev [])))).
  change (after ?m _) with (after m trs_final).
  apply (trs_loop pre _ fuel _ _ _ Ht Hf). unfold may_go. cbn. lia.
Qed.

End TraverseStop.
