(* Proofs/ImpProofsB.v — translated source vs hand-written model, part 2: sequtil's
   DNATo2Bit, CanonicalSubsequences, Translate and TranslateReadingFrames. *)
From Coq Require Import String.
From Coq Require Import ZifyBool ZifyNat ZifyN.
From Bio Require Import Base.
From Bio.gen Require Import Tables ImpGen.
From Bio.Model Require Import GoSem GoGlobals Seq.
From Bio.Proofs Require Import SeqProofs ImpProofs.

Ltac Zify.zify_post_hook ::= Z.div_mod_to_equations.

(* ---- list facts -------------------------------------------------------------------- *)
Lemma zseq_cons lo n : zseq lo (S n) = lo :: zseq (lo + 1) n.
Proof.
  unfold zseq. cbn [seq map]. f_equal; [lia|]. rewrite <- seq_shift, map_map.
  apply map_ext. intros k. lia.
Qed.

Lemma nth_error_last {A} (p : list A) x : nth_error (p ++ [x]) (length p) = Some x.
Proof. rewrite nth_error_app2 by lia. rewrite Nat.sub_diag. reflexivity. Qed.

Lemma set_nth_last {A} (p : list A) x v : set_nth (p ++ [x]) (length p) v = p ++ [v].
Proof. induction p as [|y p IH]; cbn; [reflexivity|]. f_equal. exact IH. Qed.

Lemma go_index_last {A S R} (p : list A) x i (k : A -> res S R) :
  i = go_len p -> go_index (p ++ [x]) i k = k x.
Proof.
  intros ->. unfold go_index, go_len. destruct (Z.ltb_spec (Z.of_nat (length p)) 0); [lia|].
  rewrite Nat2Z.id, nth_error_last. reflexivity.
Qed.

Lemma go_set_last {A S R} (p : list A) x i v (k : list A -> res S R) :
  i = go_len p -> go_set (p ++ [x]) i v k = k (p ++ [v]).
Proof.
  intros ->. unfold go_set, go_len. rewrite app_length. cbn [length].
  destruct (Z.ltb_spec (Z.of_nat (length p)) 0); [lia|].
  destruct (Z.leb_spec (Z.of_nat (length p + 1)) (Z.of_nat (length p))); [lia|].
  cbn [orb]. rewrite Nat2Z.id, set_nth_last. reflexivity.
Qed.

(* ---- DNATo2Bit ---------------------------------------------------------------------- *)
Lemma ntoi_sweep : forallb (fun b => let z := ntoi b in ((-1 <=? z) && (z <=? 3))%Z) bytes256 = true.
Proof. vm_compute. reflexivity. Qed.

Lemma ntoi_range b : is_byte b -> (-1 <= ntoi b <= 3)%Z.
Proof.
  intros Hb. pose proof (proj1 (forallb_forall _ _) ntoi_sweep b (in_bytes256 b Hb)) as H.
  cbn zeta in H. lia.
Qed.

Definition to2bit_body (dn : Z) : Z * N -> list N -> res (list N) (list N) :=
  fun p dst => let i := fst p in let b := snd p in
  let di := (Z.add dn (Z.quot i (4)%Z)) in let shift := (Z.sub (6)%Z (Z.mul (Z.rem i (4)%Z) (2)%Z)) in (if (Z.eqb shift (6)%Z) then let dst := (dst ++ [0%N]) in go_call (imp_sequtil_Ntoi b) (fun t__1 => let dbInt := t__1 in (if (Z.eqb dbInt (-1)%Z) then Panics else let db := (wrap8 (N.shiftl (go_byte dbInt) (Z.to_N shift))) in go_index dst di (fun t__2 => go_set dst di (N.lor t__2 db) (fun t__3 => let dst := t__3 in Next dst)))) else go_call (imp_sequtil_Ntoi b) (fun t__4 => let dbInt := t__4 in (if (Z.eqb dbInt (-1)%Z) then Panics else let db := (wrap8 (N.shiftl (go_byte dbInt) (Z.to_N shift))) in go_index dst di (fun t__5 => go_set dst di (N.lor t__5 db) (fun t__6 => let dst := t__6 in Next dst))))).

Lemma shifted_small c s : c <= 3 -> s <= 6 -> wrap8 (N.shiftl c s) = N.shiftl c s.
Proof.
  intros Hc Hs. unfold wrap8. apply N.mod_small. rewrite N.shiftl_mul_pow2.
  assert (2 ^ s <= 2 ^ 6) by (apply N.pow_le_mono_r; lia).
  change (2 ^ 6) with 64 in *. nia.
Qed.

Lemma to2bit_loop dst0 l : all_bytes l -> forall n acc,
  length acc = ((n + 3) / 4)%nat ->
  go_iter (to2bit_body (go_len dst0)) (combine (zseq (Z.of_nat n) (length l)) l) (dst0 ++ rev acc)
  = match fold_left to2bit_step l (Ok (acc, N.of_nat n)) with
    | Ok (acc', _) => Next (dst0 ++ rev acc')
    | _ => Panics
    end.
Proof.
  induction 1 as [|x l Hx Hl IH]; intros n acc Hacc.
  - reflexivity.
  - cbn [length]. rewrite zseq_cons. cbn [combine go_iter fold_left].
    assert (Hfold : forall s, fold_left to2bit_step s Panic = Panic) by (induction s; [reflexivity|assumption]).
    unfold to2bit_body at 1. cbn [fst snd]. cbv zeta.
    rewrite (imp_Ntoi x Hx). cbn [go_call].
    pose proof (ntoi_range x Hx) as Hr.
    unfold to2bit_step at 2. cbn [obind]. unfold code.
    replace (Z.rem (Z.of_nat n) 4) with (Z.of_nat n mod 4)%Z by (symmetry; apply Z.rem_mod_nonneg; lia).
    replace (Z.quot (Z.of_nat n) 4) with (Z.of_nat n / 4)%Z by (symmetry; apply Z.quot_div_nonneg; lia).
    assert (Hsh : Z.to_N (6 - Z.of_nat n mod 4 * 2) = 6 - 2 * (N.of_nat n mod 4)) by lia.
    destruct (Z.eqb_spec (6 - Z.of_nat n mod 4 * 2) 6) as [E6|E6].
    + (* a new byte *)
      replace (6 - 2 * (N.of_nat n mod 4) =? 6) with true by (symmetry; apply N.eqb_eq; lia).
      destruct (Z.eqb_spec (ntoi x) (-1)) as [Em|Em].
      * replace (ntoi x <? 0)%Z with true by lia. rewrite Hfold. reflexivity.
      * replace (ntoi x <? 0)%Z with false by lia.
        assert (Hdi : (go_len dst0 + Z.of_nat n / 4)%Z = go_len (dst0 ++ rev acc)).
        { unfold go_len. rewrite app_length, rev_length, Hacc. lia. }
        rewrite (go_index_last _ _ _ _ Hdi), (go_set_last _ _ _ _ _ Hdi).
        rewrite <- app_assoc.
        change (rev acc ++ [?v]) with (rev acc ++ rev [v]). rewrite <- rev_app_distr. cbn [app].
        replace (Z.of_nat n + 1)%Z with (Z.of_nat (S n)) by lia.
        rewrite IH by (cbn [length]; lia).
        replace (N.of_nat n + 1) with (N.of_nat (S n)) by lia.
        rewrite Hsh, shifted_small by (unfold go_byte; lia).
        replace (go_byte (ntoi x)) with (Z.to_N (ntoi x)) by (unfold go_byte; rewrite Z.mod_small by lia; reflexivity).
        reflexivity.
    + replace (6 - 2 * (N.of_nat n mod 4) =? 6) with false by (symmetry; apply N.eqb_neq; lia).
      destruct (Z.eqb_spec (ntoi x) (-1)) as [Em|Em].
      * replace (ntoi x <? 0)%Z with true by lia. rewrite Hfold. reflexivity.
      * replace (ntoi x <? 0)%Z with false by lia.
        destruct acc as [|cur rest]; [cbn [length] in Hacc; lia|].
        cbn [rev]. rewrite app_assoc.
        assert (Hdi : (go_len dst0 + Z.of_nat n / 4)%Z = go_len (dst0 ++ rev rest)).
        { unfold go_len. rewrite app_length, rev_length. cbn [length] in Hacc. lia. }
        rewrite (go_index_last _ _ _ _ Hdi), (go_set_last _ _ _ _ _ Hdi).
        rewrite <- app_assoc.
        change (rev rest ++ [?v]) with (rev rest ++ rev [v]). rewrite <- rev_app_distr. cbn [app].
        replace (Z.of_nat n + 1)%Z with (Z.of_nat (S n)) by lia.
        rewrite IH by (cbn [length] in *; lia).
        replace (N.of_nat n + 1) with (N.of_nat (S n)) by lia.
        rewrite Hsh, shifted_small by (unfold go_byte; lia).
        replace (go_byte (ntoi x)) with (Z.to_N (ntoi x)) by (unfold go_byte; rewrite Z.mod_small by lia; reflexivity).
        reflexivity.
Qed.

Theorem imp_DNATo2Bit dst src : all_bytes src ->
  imp_sequtil_DNATo2Bit dst src = of_outcome (to2bit dst src).
Proof.
  intros Hs. unfold imp_sequtil_DNATo2Bit, to2bit. cbv zeta.
  unfold go_range, indexed.
  timeout 120 (change (go_iter _ (combine (zseq 0 (length src)) src) dst)
    with (go_iter (to2bit_body (go_len dst)) (combine (zseq (Z.of_nat 0) (length src)) src) dst)).
  replace dst with (dst ++ rev []) at 2 by (cbn; apply app_nil_r).
  rewrite (to2bit_loop dst src Hs 0 []) by reflexivity.
  change (N.of_nat 0) with 0.
  destruct (fold_left to2bit_step src (Ok ([], 0))) as [[acc i]| |]; reflexivity.
Qed.

(* ---- CanonicalSubsequences -------------------------------------------------------------
   The translated function collects the items the iterator yields to a consumer that
   never stops (stopping early is the subject of Model/Iter.v and C18). *)
Lemma fold_snoc_map {A B} (f : A -> B) l acc :
  fold_left (fun out i => out ++ [f i]) l acc = acc ++ map f l.
Proof.
  revert acc. induction l as [|x l IH]; intros acc; cbn [fold_left map]; [symmetry; apply app_nil_r|].
  rewrite IH, <- app_assoc. reflexivity.
Qed.

Lemma zseq0_map n : zseq 0 n = map Z.of_nat (seq 0 n).
Proof. unfold zseq. apply map_ext. intros k. lia. Qed.

Theorem imp_CanonicalSubsequences s k : all_bytes s ->
  imp_sequtil_CanonicalSubsequences s k = of_outcome (canon s k).
Proof.
  intros Hs. unfold imp_sequtil_CanonicalSubsequences, canon. cbv zeta.
  unfold go_make. cbn [Z.ltb Z.compare Z.to_nat repeat].
  rewrite (imp_ReverseComplement [] s Hs).
  destruct (rc [] s) as [rcs| |] eqn:Erc; cbn [of_outcome go_call]; try reflexivity.
  assert (Hlen : length rcs = length s).
  { apply rc_ok_inv in Erc. destruct Erc as [_ ->]. cbn [app]. apply rcseq_length. }
  destruct (Z.ltb_spec k 0) as [Hk|Hk].
  - (* negative k: the first slice expression panics *)
    unfold go_range_int.
    replace (Z.to_nat (go_len s - k + 1)) with (S (Z.to_nat (go_len s - k))) by (unfold go_len; lia).
    rewrite zseq_cons. cbn [go_iter]. unfold go_slice at 1.
    replace ((0 <? 0)%Z || (0 + k <? 0)%Z || (go_len s <? 0 + k)%Z) with true by lia.
    reflexivity.
  - unfold go_range_int.
    set (kn := Z.to_nat k).
    replace (Z.to_nat (go_len s - k + 1)) with (S (length s) - kn)%nat by (unfold go_len; lia).
    rewrite (go_iter_fold _ (fun out i => out ++ [canon_at s rcs kn (Z.to_nat i)])).
    + cbn [after of_outcome]. rewrite fold_snoc_map. cbn [app]. rewrite zseq0_map, map_map.
      f_equal. apply map_ext. intros i. rewrite Nat2Z.id. reflexivity.
    + intros i out Hi. apply in_zseq in Hi.
      unfold go_slice, go_len. rewrite Hlen.
      replace ((i <? 0)%Z || (i + k <? i)%Z || (Z.of_nat (length s) <? i + k)%Z) with false by lia.
      replace ((Z.of_nat (length s) - i - k <? 0)%Z || (Z.of_nat (length s) - i <? Z.of_nat (length s) - i - k)%Z
               || (Z.of_nat (length s) <? Z.of_nat (length s) - i)%Z) with false by lia.
      unfold canon_at, slice, go_bytes_compare.
      replace (Z.to_nat (i + k - i)) with kn by lia.
      replace (Z.to_nat (Z.of_nat (length s) - i - (Z.of_nat (length s) - i - k))) with kn by lia.
      replace (Z.to_nat (Z.of_nat (length s) - i - k)) with (length rcs - Z.to_nat i - kn)%nat by lia.
      destruct (bcompare _ _); reflexivity.
Qed.

(* ---- Translate ------------------------------------------------------------------------- *)
Lemma codon_amino_nonzero :
  forallb (fun e => match e with (_, _, _, aa) => negb (aa =? 0) end) codon_tab = true.
Proof. vm_compute. reflexivity. Qed.

Lemma g_codon_spec a b c :
  g_sequtil_codonToAmino [a; b; c] = match codon_lookup a b c with Some aa => aa | None => 0 end.
Proof.
  unfold g_sequtil_codonToAmino, codon_lookup.
  destruct (find _ codon_tab) as [[[[x y] z] aa]|]; reflexivity.
Qed.

Lemma codon_lookup_nonzero a b c aa : codon_lookup a b c = Some aa -> aa <> 0.
Proof.
  unfold codon_lookup. destruct (find _ codon_tab) as [[[[x y] z] aa']|] eqn:E; [|discriminate].
  intros H. injection H as <-. apply find_some in E. destruct E as [Hin _].
  pose proof (proj1 (forallb_forall _ _) codon_amino_nonzero _ Hin) as H. cbn in H.
  intros ->. discriminate.
Qed.

Lemma sub8_upper t : is_byte t -> 97 <= t -> sub8 t 32 = t - 32.
Proof. unfold sub8, is_byte. intros H1 H2. rewrite Z.mod_small by lia. lia. Qed.

Definition upper_body : Z -> list N -> res (list N) (list N) :=
  (fun j buf => go_index buf j (fun t__2 => (if (N.leb 97%N t__2) then go_index buf j (fun t__3 => go_set buf j (sub8 t__3 32%N) (fun t__4 => let buf := t__4 in Next buf)) else Next buf))).

Lemma go_index_mid {A S R} (p : list A) x q i (k : A -> res S R) :
  i = go_len p -> go_index (p ++ x :: q) i k = k x.
Proof.
  intros ->. unfold go_index, go_len. destruct (Z.ltb_spec (Z.of_nat (length p)) 0); [lia|].
  rewrite Nat2Z.id, nth_error_app2 by lia. rewrite Nat.sub_diag. reflexivity.
Qed.

Lemma set_nth_mid {A} (p : list A) x q v : set_nth (p ++ x :: q) (length p) v = p ++ v :: q.
Proof. induction p as [|y p IH]; cbn; [reflexivity|]. f_equal. exact IH. Qed.

Lemma go_set_mid {A S R} (p : list A) x q i v (k : list A -> res S R) :
  i = go_len p -> go_set (p ++ x :: q) i v k = k (p ++ v :: q).
Proof.
  intros ->. unfold go_set, go_len. rewrite app_length. cbn [length].
  destruct (Z.ltb_spec (Z.of_nat (length p)) 0); [lia|].
  destruct (Z.leb_spec (Z.of_nat (length p + Datatypes.S (length q))) (Z.of_nat (length p))); [lia|].
  cbn [orb]. rewrite Nat2Z.id, set_nth_mid. reflexivity.
Qed.

Lemma upper_step p x q : is_byte x ->
  upper_body (go_len p) (p ++ x :: q) = Next (p ++ go_upper x :: q).
Proof.
  intros Hx. unfold upper_body, go_upper.
  rewrite (go_index_mid p x q _ _ eq_refl).
  destruct (N.leb_spec 97 x) as [H|H]; [|reflexivity].
  rewrite (go_index_mid p x q _ _ eq_refl), (go_set_mid p x q _ _ _ eq_refl), (sub8_upper x Hx H).
  reflexivity.
Qed.

Lemma upper_loop a b c : is_byte a -> is_byte b -> is_byte c ->
  go_range_int (go_len [a; b; c]) upper_body [a; b; c] = Next [go_upper a; go_upper b; go_upper c].
Proof.
  intros Ha Hb Hc. unfold go_range_int.
  change (zseq 0 (Z.to_nat (go_len [a; b; c]))) with [go_len (@nil N); go_len [go_upper a]; go_len [go_upper a; go_upper b]].
  cbn [go_iter].
  pose proof (upper_step [] a [b; c] Ha) as E1. cbn [app] in E1.
  pose proof (upper_step [go_upper a] b [c] Hb) as E2. cbn [app] in E2.
  pose proof (upper_step [go_upper a; go_upper b] c [] Hc) as E3. cbn [app] in E3.
  unfold byte in *. rewrite E1, E2, E3. reflexivity.
Qed.

Definition translate_cond (src : list N) : Z * list N * list N -> res unit bool :=
  (fun '(i, buf, dst) => Ret (Z.ltb i (go_len src))).

Definition translate_body (src : list N) : Z * list N * list N -> res (Z * list N * list N) (list N) :=
  (fun '(i, buf, dst) => go_slice src i (Z.add i (3)%Z) (fun t__1 => let buf := (go_copy buf t__1) in after (go_range_int (go_len buf) upper_body buf) (fun buf => let aa := (g_sequtil_codonToAmino buf) in (if (N.eqb aa 0%N) then Panics else let dst := (dst ++ [aa]) in let i := (Z.add i (3)%Z) in Next (i, buf, dst))))).

Lemma translate_loop fuel : forall pre rest buf dst,
  all_bytes rest -> length buf = 3%nat -> (length rest mod 3 = 0)%nat -> (length rest / 3 < fuel)%nat ->
  after (go_while fuel (translate_cond (pre ++ rest)) (translate_body (pre ++ rest)) (Z.of_nat (length pre), buf, dst))
        (fun '(i, buf, dst) => Ret dst)
  = match translate_codons rest return res unit (list N) with Ok l => Ret (dst ++ l) | _ => Panics end.
Proof.
  induction fuel as [|f IH]; intros pre rest buf dst Hb Hbuf Hm Hf; [lia|].
  cbn [go_while]. unfold translate_cond at 1. cbv beta iota.
  destruct rest as [|a [|b [|c rest']]].
  - rewrite app_nil_r. unfold go_len. rewrite Z.ltb_irrefl. cbn [after translate_codons]. rewrite app_nil_r. reflexivity.
  - cbn in Hm. discriminate.
  - cbn in Hm. discriminate.
  - unfold go_len at 1. rewrite app_length. cbn [length].
    replace (Z.of_nat (length pre) <? Z.of_nat (length pre + S (S (S (length rest')))))%Z with true by lia.
    unfold translate_body at 1. cbv beta iota.
    unfold go_slice, go_len. rewrite app_length. cbn [length].
    replace ((Z.of_nat (length pre) <? 0)%Z || (Z.of_nat (length pre) + 3 <? Z.of_nat (length pre))%Z
             || (Z.of_nat (length pre + S (S (S (length rest')))) <? Z.of_nat (length pre) + 3)%Z) with false by lia.
    rewrite Nat2Z.id. replace (Z.to_nat (Z.of_nat (length pre) + 3 - Z.of_nat (length pre))) with 3%nat by lia.
    rewrite skipn_app, skipn_all, Nat.sub_diag. cbn [app skipn firstn]. cbv zeta.
    destruct buf as [|b0 [|b1 [|b2 [|b3 buf]]]]; try discriminate.
    change (go_copy [b0; b1; b2] [a; b; c]) with [a; b; c].
    inversion Hb as [|? ? Ha Hb1]; subst. inversion Hb1 as [|? ? Hb' Hb2]; subst. inversion Hb2 as [|? ? Hc Hb3]; subst.
    change (Z.of_nat (length [a; b; c])) with (go_len [a; b; c]).
    rewrite (upper_loop a b c Ha Hb' Hc). cbn [after]. rewrite !g_codon_spec.
    cbn [translate_codons].
    destruct (codon_lookup (go_upper a) (go_upper b) (go_upper c)) as [aa|] eqn:E.
    + apply codon_lookup_nonzero in E. replace (aa =? 0) with false by (symmetry; apply N.eqb_neq; exact E).
      replace (pre ++ a :: b :: c :: rest') with ((pre ++ [a; b; c]) ++ rest') by (rewrite <- app_assoc; reflexivity).
      replace (Z.of_nat (length pre) + 3)%Z with (Z.of_nat (length (pre ++ [a; b; c]))) by (rewrite app_length; cbn [length]; lia).
      rewrite IH.
      * destruct (translate_codons rest'); try reflexivity. rewrite <- app_assoc. reflexivity.
      * exact Hb3.
      * reflexivity.
      * cbn [length] in Hm. lia.
      * cbn [length] in Hf. lia.
    + reflexivity.
Qed.

Theorem imp_Translate fuel dst src : all_bytes src -> (length src / 3 < fuel)%nat ->
  imp_sequtil_Translate fuel dst src = of_outcome (translate dst src).
Proof.
  intros Hs Hf. unfold imp_sequtil_Translate, translate. cbv zeta.
  replace (Z.rem (go_len src) 3) with (Z.of_nat (length src mod 3)).
  2:{ unfold go_len. rewrite Z.rem_mod_nonneg by lia. rewrite Nat2Z.inj_mod. reflexivity. }
  replace (N.of_nat (length src) mod 3 =? 0) with (Z.of_nat (length src mod 3) =? 0)%Z.
  2:{ destruct (Z.eqb_spec (Z.of_nat (length src mod 3)) 0) as [E|E]; symmetry; [apply N.eqb_eq|apply N.eqb_neq]; lia. }
  destruct (Z.eqb_spec (Z.of_nat (length src mod 3)) 0) as [E|E]; cbn [negb]; [|reflexivity].
  timeout 120 (change (go_while fuel _ _ (0%Z, repeat 0 3, dst))
    with (go_while fuel (translate_cond ([] ++ src)) (translate_body ([] ++ src)) (Z.of_nat (length (@nil N)), repeat 0 3, dst))).
  rewrite (translate_loop fuel [] src (repeat 0 3) dst Hs eq_refl) by lia.
  destruct (translate_codons src); reflexivity.
Qed.

(* ---- TranslateReadingFrames --------------------------------------------------------------- *)
Definition frames_body (fuel : nat) (seq : list N) : Z -> list (list N) -> res (list (list N)) (list (list N)) :=
  (fun i result => go_slice seq (Z.min i (go_len seq)) (go_len seq) (fun t__1 => let sub := t__1 in go_slice sub 0%Z (Z.mul (Z.quot (go_len sub) (3)%Z) (3)%Z) (fun t__2 => let sub := t__2 in go_call (imp_sequtil_Translate fuel [] sub) (fun t__3 => go_set result i t__3 (fun t__4 => let result := t__4 in Next result))))).

Lemma frame_bytes s n : all_bytes s -> all_bytes (frame s n).
Proof. intros H. unfold frame. apply Forall_firstn', Forall_skipn'. exact H. Qed.

Lemma frame_length s n : (length (frame s n) <= length s)%nat.
Proof. unfold frame. rewrite firstn_length, skipn_length. lia. Qed.

Lemma frames_step fuel s n result : all_bytes s -> (length s / 3 < fuel)%nat -> (n < 3)%nat -> length result = 3%nat ->
  frames_body fuel s (Z.of_nat n) result
  = match translate [] (frame s n) with Ok t => Next (set_nth result n t) | _ => Panics end.
Proof.
  intros Hs Hf Hn Hr. unfold frames_body. cbv zeta.
  unfold go_slice at 1. unfold go_len.
  replace ((Z.min (Z.of_nat n) (Z.of_nat (length s)) <? 0)%Z
           || (Z.of_nat (length s) <? Z.min (Z.of_nat n) (Z.of_nat (length s)))%Z
           || (Z.of_nat (length s) <? Z.of_nat (length s))%Z) with false by lia.
  replace (Z.to_nat (Z.min (Z.of_nat n) (Z.of_nat (length s)))) with (Nat.min n (length s)) by lia.
  replace (Z.to_nat (Z.of_nat (length s) - Z.min (Z.of_nat n) (Z.of_nat (length s)))) with (length s - Nat.min n (length s))%nat by lia.
  rewrite firstn_all2 by (rewrite skipn_length; lia).
  set (sub := skipn (Nat.min n (length s)) s).
  unfold go_slice, go_len.
  replace (Z.quot (Z.of_nat (length sub)) 3) with (Z.of_nat (length sub / 3)) by (rewrite Z.quot_div_nonneg by lia; rewrite Nat2Z.inj_div; reflexivity).
  replace ((0 <? 0)%Z || (Z.of_nat (length sub / 3) * 3 <? 0)%Z
           || (Z.of_nat (length sub) <? Z.of_nat (length sub / 3) * 3)%Z) with false by lia.
  replace (Z.to_nat (Z.of_nat (length sub / 3) * 3 - 0)) with (length sub / 3 * 3)%nat by lia.
  cbn [Z.to_nat skipn]. subst sub.
  change (firstn _ (skipn (Nat.min n (length s)) s)) with (frame s n).
  rewrite imp_Translate.
  - destruct (translate [] (frame s n)); cbn [of_outcome go_call]; try reflexivity.
    unfold go_set, go_len. rewrite Hr.
    replace ((Z.of_nat n <? 0)%Z || (Z.of_nat 3 <=? Z.of_nat n)%Z) with false by lia.
    rewrite Nat2Z.id. reflexivity.
  - apply frame_bytes. exact Hs.
  - pose proof (frame_length s n). assert (length (frame s n) / 3 <= length s / 3)%nat by (apply Nat.div_le_mono; lia). lia.
Qed.

Theorem imp_TranslateReadingFrames fuel s : all_bytes s -> (length s / 3 < fuel)%nat ->
  imp_sequtil_TranslateReadingFrames fuel s = of_outcome (frames s).
Proof.
  intros Hs Hf. unfold imp_sequtil_TranslateReadingFrames, frames. cbv zeta.
  unfold go_for_up. change (zseq 0 (Z.to_nat (3 - 0))) with [Z.of_nat 0; Z.of_nat 1; Z.of_nat 2].
  fold (frames_body fuel s). cbn [go_iter].
  rewrite (frames_step fuel s 0) by (try assumption; try lia; reflexivity).
  destruct (translate [] (frame s 0)) as [f0| |]; try reflexivity.
  rewrite (frames_step fuel s 1) by (try assumption; try lia; reflexivity).
  destruct (translate [] (frame s 1)) as [f1| |]; try reflexivity.
  rewrite (frames_step fuel s 2) by (try assumption; try lia; reflexivity).
  destruct (translate [] (frame s 2)) as [f2| |]; reflexivity.
Qed.
