(* Proofs/MashProofsB.v — C17, part 2: strand invariance (on top of C12's
   canon_strand_symmetric), symmetry of minhash.intersect, and its value on two
   full sketches of equal size. *)
From Coq Require Import String Sorted Permutation.
From Bio Require Import Base.
From Bio.Model Require Import Seq Mash.
From Bio.Spec Require Import SeqSpec MashSpec.
From Bio.Proofs Require Import SeqProofs MashProofs.

(* ---- reverse complement --------------------------------------------------------- *)
Definition upper_compl_check : bool :=
  forallb (fun b => if is_dna10 b
                    then (upper_byte (complb b) =? complb (upper_byte b)) && is_dna10 (upper_byte b)
                    else true) bytes256.

Lemma upper_compl_check_ok : upper_compl_check = true.
Proof. vm_compute. reflexivity. Qed.

Lemma is_dna10_range b : is_dna10 b = true -> b < 256.
Proof.
  unfold is_dna10. destruct (compl b) as [c|] eqn:E; [|discriminate]. intros _. eapply compl_range. exact E.
Qed.

Lemma upper_complb b : is_dna10 b = true ->
  upper_byte (complb b) = complb (upper_byte b) /\ is_dna10 (upper_byte b) = true.
Proof.
  intros H. pose proof upper_compl_check_ok as C. unfold upper_compl_check in C.
  rewrite forallb_forall in C. specialize (C b (in_bytes256 b (is_dna10_range b H))).
  rewrite H in C. apply andb_true_iff in C. destruct C as [C1 C2]. apply N.eqb_eq in C1. auto.
Qed.

Lemma upper_dna10 s : dna10 s -> dna10 (map upper_byte s).
Proof.
  unfold dna10. intros H. apply Forall_map. eapply Forall_impl; [|exact H].
  intros b Hb. apply upper_complb. exact Hb.
Qed.

Lemma upper_rcseq s : dna10 s -> map upper_byte (rcseq s) = rcseq (map upper_byte s).
Proof.
  intros H. unfold rcseq. rewrite map_rev. f_equal. rewrite !map_map.
  apply map_ext_in. intros b Hb. unfold dna10 in H. rewrite Forall_forall in H.
  apply upper_complb. apply H. exact Hb.
Qed.

Lemma canon_neg s k : (k < 0)%Z -> canon s k = Panic.
Proof.
  intros H. unfold canon. destruct (rc [] s); try reflexivity.
  destruct (Z.ltb_spec k 0); [reflexivity|lia].
Qed.

(* the k-mers of the upper-cased reverse complement: the same, in opposite order *)
Lemma canon_upper_rc s r k : rc [] s = Ok r ->
  kequiv (canon (map upper_byte s) k) (canon (map upper_byte r) k).
Proof.
  intros E. apply rc_ok_inv in E. destruct E as [H ->]. cbn [app].
  destruct (Z.ltb_spec k 0) as [L|L].
  - rewrite !canon_neg by exact L. exact I.
  - rewrite upper_rcseq by exact H.
    destruct (canon_strand_symmetric_total (map upper_byte s) k (upper_dna10 s H) L) as [items [E1 E2]].
    rewrite E1, E2. cbn. apply Permutation_rev.
Qed.

Lemma kmers_cons_equiv k s r l l' :
  kequiv (canon (map upper_byte s) k) (canon (map upper_byte r) k) ->
  kequiv (kmers k l) (kmers k l') ->
  kequiv (kmers k (s :: l)) (kmers k (r :: l')).
Proof.
  intros H1 H2. rewrite !kmers_cons.
  destruct (canon (map upper_byte s) k) as [a| |], (canon (map upper_byte r) k) as [b| |]; cbn in H1; try tauto;
    try exact I.
  destruct (kmers k l) as [c| |], (kmers k l') as [d| |]; cbn in H2; try tauto; try exact I.
  cbn. apply Permutation_app; assumption.
Qed.

(* any number of the sequences replaced by their reverse complements *)
Definition strand_variant (s r : bytes) : Prop := r = s \/ rc [] s = Ok r.

Lemma kmers_strand k seqs seqs' : Forall2 strand_variant seqs seqs' ->
  kequiv (kmers k seqs) (kmers k seqs').
Proof.
  induction 1 as [|s r l l' V F IH]; [apply kequiv_refl|].
  apply kmers_cons_equiv; [|exact IH].
  destruct V as [->|E]; [apply kequiv_refl|apply canon_upper_rc; exact E].
Qed.

Section Hash.
Variable h : bytes -> N.
Let hs : bytes -> option N := fun b => Some (h b).

Lemma sketch_rc n k seqs seqs' : Forall2 strand_variant seqs seqs' ->
  sequences hs n k seqs = sequences hs n k seqs'.
Proof. intros H. apply sequences_kequiv. apply kmers_strand. exact H. Qed.

Lemma sketch_rc_one n k l1 s r l2 : rc [] s = Ok r ->
  sequences hs n k (l1 ++ s :: l2) = sequences hs n k (l1 ++ r :: l2).
Proof.
  intros E. apply sketch_rc. apply Forall2_app.
  - induction l1; constructor; [left; reflexivity|assumption].
  - constructor; [right; exact E|]. induction l2; constructor; [left; reflexivity|assumption].
Qed.

End Hash.

(* ---- intersect is symmetric --------------------------------------------------------- *)
Definition swap_state (st : list N * list N * Z * Z) : list N * list N * Z * Z :=
  match st with (ra, rb, m, i) => (rb, ra, m, i) end.

Definition omap {A B} (f : A -> B) (o : outcome A) : outcome B :=
  match o with Ok a => Ok (f a) | Err => Err | Panic => Panic end.

Lemma isect_loop_swap fuel k ra rb m inter :
  isect_loop fuel k rb ra m inter = omap swap_state (isect_loop fuel k ra rb m inter).
Proof.
  revert ra rb m inter. induction fuel as [|f IH]; intros ra rb m inter.
  - destruct ra as [|x ra], rb as [|y rb]; cbn [isect_loop]; try reflexivity.
    destruct (m <? k)%Z; reflexivity.
  - destruct ra as [|x ra], rb as [|y rb]; cbn [isect_loop]; try reflexivity.
    destruct (m <? k)%Z; [|reflexivity].
    destruct (N.ltb_spec y x) as [L1|L1], (N.ltb_spec x y) as [L2|L2]; try lia; apply IH.
Qed.

Lemma intersect_sym a b k : intersect a b k = intersect b a k.
Proof.
  unfold intersect. destruct (sorted_desc a), (sorted_desc b); cbn [negb]; try reflexivity.
  rewrite (isect_loop_swap (length b + length a) k (rev a) (rev b)).
  rewrite (Nat.add_comm (length b) (length a)).
  destruct (isect_loop (length a + length b) k (rev a) (rev b) 0 0) as [[[[ra rb] m] i]| |]; cbn; try reflexivity.
  f_equal. f_equal. f_equal. lia.
Qed.

(* ---- the loop counts the shared values among the smallest of the union ---------------- *)
Definition cnt (ra rb l : list N) : nat := length (filter (fun z => memb z ra && memb z rb) l).

Lemma asc_inv x l : asc (x :: l) -> asc l /\ forall z, In z l -> x < z.
Proof.
  intros S. apply StronglySorted_inv in S. destruct S as [S F]. rewrite Forall_forall in F. auto.
Qed.

Lemma sort_dedup_head y l l' :
  (forall z, In z l <-> z = y \/ In z l') -> (forall z, In z l' -> y < z) ->
  sort_dedup l = y :: sort_dedup l'.
Proof.
  intros H1 H2. apply asc_unique.
  - apply sort_dedup_asc.
  - constructor; [apply sort_dedup_asc|]. apply Forall_forall. intros z Hz. apply H2. apply sort_dedup_in. exact Hz.
  - intros z. rewrite sort_dedup_in, H1. cbn [In]. rewrite sort_dedup_in. intuition congruence.
Qed.

Lemma memb_cons z x l : memb z (x :: l) = (z =? x) || memb z l.
Proof. reflexivity. Qed.

Lemma memb_false z l : ~ In z l -> memb z l = false.
Proof. intros H. destruct (memb z l) eqn:E; [|reflexivity]. apply memb_in in E. contradiction. Qed.

Lemma cnt_ext ra rb ra' rb' l :
  (forall z, In z l -> memb z ra && memb z rb = memb z ra' && memb z rb') -> cnt ra rb l = cnt ra' rb' l.
Proof. intros H. unfold cnt. f_equal. apply filter_ext_in. exact H. Qed.

Lemma firstn_S_cons {A} t (x : A) l : firstn (S t) (x :: l) = x :: firstn t l.
Proof. reflexivity. Qed.

Record loop_post (k : Z) (ra rb : list N) (m inter : Z) (ra' rb' : list N) (m' inter' : Z) : Prop := {
  lp_m : (m <= m' <= k)%Z;
  lp_cnt : (inter' = inter + Z.of_nat (cnt ra rb (firstn (Z.to_nat (m' - m)) (sort_dedup (ra ++ rb)))))%Z;
  lp_la : (Z.of_nat (length ra) <= Z.of_nat (length ra') + (m' - m))%Z;
  lp_lb : (Z.of_nat (length rb) <= Z.of_nat (length rb') + (m' - m))%Z;
  lp_la' : (length ra' <= length ra)%nat;
  lp_lb' : (length rb' <= length rb)%nat;
  lp_stop : m' = k \/ ra' = [] \/ rb' = []
}.

Lemma cnt_nil ra rb : cnt ra rb [] = 0%nat.
Proof. reflexivity. Qed.

Lemma isect_loop_spec fuel k : forall ra rb m inter,
  asc ra -> asc rb -> (length ra + length rb <= fuel)%nat -> (m <= k)%Z ->
  exists ra' rb' m' inter',
    isect_loop fuel k ra rb m inter = Ok (ra', rb', m', inter') /\
    loop_post k ra rb m inter ra' rb' m' inter'.
Proof.
  induction fuel as [|f IH]; intros ra rb m inter Sa Sb Hf Hm.
  - (* no fuel: one of the lists is empty *)
    assert (E : ra = [] \/ rb = []).
    { destruct ra; [left; reflexivity|]. destruct rb; [right; reflexivity|]. cbn in Hf. lia. }
    exists ra, rb, m, inter. split.
    + destruct E as [-> | ->]; [reflexivity|]. destruct ra; reflexivity.
    + constructor; try lia.
      * rewrite Z.sub_diag. cbn [Z.to_nat firstn]. rewrite cnt_nil. lia.
      * right. exact E.
  - destruct ra as [|x ra1].
    { exists [], rb, m, inter. split; [reflexivity|].
      constructor; try lia. rewrite Z.sub_diag. cbn [Z.to_nat firstn]. rewrite cnt_nil. lia. auto. }
    destruct rb as [|y rb1].
    { exists (x :: ra1), [], m, inter. split; [reflexivity|].
      constructor; try lia. rewrite Z.sub_diag. cbn [Z.to_nat firstn]. rewrite cnt_nil. lia. auto. }
    cbn [isect_loop]. destruct (Z.ltb_spec m k) as [Lk|Lk].
    2:{ exists (x :: ra1), (y :: rb1), m, inter. split; [reflexivity|].
        constructor; try lia. rewrite Z.sub_diag. cbn [Z.to_nat firstn]. rewrite cnt_nil. lia. }
    destruct (asc_inv _ _ Sa) as [Sa1 Fa]. destruct (asc_inv _ _ Sb) as [Sb1 Fb].
    cbn [length] in Hf.
    destruct (N.ltb_spec y x) as [L1|L1]; [|destruct (N.ltb_spec x y) as [L2|L2]].
    + (* b's value is smaller: it is in b only *)
      destruct (IH (x :: ra1) rb1 (m + 1)%Z inter Sa Sb1 ltac:(cbn [length]; lia) ltac:(lia))
        as [ra' [rb' [m' [inter' [E P]]]]].
      exists ra', rb', m', inter'. split; [exact E|]. destruct P.
      assert (U : sort_dedup ((x :: ra1) ++ y :: rb1) = y :: sort_dedup ((x :: ra1) ++ rb1)).
      { apply sort_dedup_head.
        - intros z. rewrite !in_app_iff. cbn [In]. intuition congruence.
        - intros z Hz. apply in_app_iff in Hz. destruct Hz as [[Hz|Hz]|Hz].
          + subst z. exact L1.
          + specialize (Fa z Hz). lia.
          + apply Fb. exact Hz. }
      constructor; try (cbn [length] in *; lia); [|assumption].
      rewrite U. replace (Z.to_nat (m' - m)) with (S (Z.to_nat (m' - (m + 1)))) by lia.
      rewrite firstn_S_cons. unfold cnt at 1. cbn [filter].
      assert (Ny : memb y (x :: ra1) = false).
      { apply memb_false. intros [Hy|Hy]; [lia|]. specialize (Fa y Hy). lia. }
      rewrite Ny. cbn [andb]. fold (cnt (x :: ra1) (y :: rb1) (firstn (Z.to_nat (m' - (m + 1))) (sort_dedup ((x :: ra1) ++ rb1)))).
      rewrite (cnt_ext (x :: ra1) (y :: rb1) (x :: ra1) rb1).
      * exact lp_cnt0.
      * intros z _. rewrite (memb_cons z y rb1). destruct (N.eqb_spec z y) as [->|]; [|reflexivity].
        rewrite Ny. reflexivity.
    + (* a's value is smaller: it is in a only *)
      destruct (IH ra1 (y :: rb1) (m + 1)%Z inter Sa1 Sb ltac:(cbn [length]; lia) ltac:(lia))
        as [ra' [rb' [m' [inter' [E P]]]]].
      exists ra', rb', m', inter'. split; [exact E|]. destruct P.
      assert (U : sort_dedup ((x :: ra1) ++ y :: rb1) = x :: sort_dedup (ra1 ++ y :: rb1)).
      { apply sort_dedup_head.
        - intros z. cbn [app In]. rewrite !in_app_iff. cbn [In]. intuition congruence.
        - intros z Hz. apply in_app_iff in Hz. destruct Hz as [Hz|[Hz|Hz]].
          + apply Fa. exact Hz.
          + subst z. exact L2.
          + specialize (Fb z Hz). lia. }
      constructor; try (cbn [length] in *; lia); [|assumption].
      rewrite U. replace (Z.to_nat (m' - m)) with (S (Z.to_nat (m' - (m + 1)))) by lia.
      rewrite firstn_S_cons. unfold cnt at 1. cbn [filter].
      assert (Nx : memb x (y :: rb1) = false).
      { apply memb_false. intros [Hx|Hx]; [lia|]. specialize (Fb x Hx). lia. }
      rewrite Nx, andb_false_r. fold (cnt (x :: ra1) (y :: rb1) (firstn (Z.to_nat (m' - (m + 1))) (sort_dedup (ra1 ++ y :: rb1)))).
      rewrite (cnt_ext (x :: ra1) (y :: rb1) ra1 (y :: rb1)).
      * exact lp_cnt0.
      * intros z _. rewrite (memb_cons z x ra1). destruct (N.eqb_spec z x) as [->|]; [|reflexivity].
        rewrite Nx, !andb_false_r. reflexivity.
    + (* equal: shared *)
      assert (x = y) by lia. subst y.
      destruct (IH ra1 rb1 (m + 1)%Z (inter + 1)%Z Sa1 Sb1 ltac:(lia) ltac:(lia))
        as [ra' [rb' [m' [inter' [E P]]]]].
      exists ra', rb', m', inter'. split; [exact E|]. destruct P.
      assert (U : sort_dedup ((x :: ra1) ++ x :: rb1) = x :: sort_dedup (ra1 ++ rb1)).
      { apply sort_dedup_head.
        - intros z. cbn [app In]. rewrite !in_app_iff. cbn [In]. intuition congruence.
        - intros z Hz. apply in_app_iff in Hz. destruct Hz as [Hz|Hz]; [apply Fa|apply Fb]; exact Hz. }
      constructor; try (cbn [length] in *; lia); [|assumption].
      rewrite U. replace (Z.to_nat (m' - m)) with (S (Z.to_nat (m' - (m + 1)))) by lia.
      rewrite firstn_S_cons. unfold cnt at 1. cbn [filter].
      rewrite !memb_cons, N.eqb_refl. cbn [orb andb length].
      fold (cnt (x :: ra1) (x :: rb1) (firstn (Z.to_nat (m' - (m + 1))) (sort_dedup (ra1 ++ rb1)))).
      rewrite (cnt_ext (x :: ra1) (x :: rb1) ra1 rb1).
      * lia.
      * intros z Hz. apply in_firstn in Hz. apply (proj1 (sort_dedup_in _ _)) in Hz.
        assert (x < z). { apply in_app_iff in Hz. destruct Hz as [Hz|Hz]; [apply Fa|apply Fb]; exact Hz. }
        rewrite !memb_cons. destruct (N.eqb_spec z x); [lia|]. reflexivity.
Qed.

Lemma sorted_desc_of_desc l : desc l -> sorted_desc l = true.
Proof.
  induction l as [|x l IH]; intros S; [reflexivity|].
  apply StronglySorted_inv in S. destruct S as [S F].
  cbn [sorted_desc]. destruct l as [|y l]; [reflexivity|].
  inversion F; subst. destruct (N.ltb_spec x y); [lia|]. cbn [negb andb]. apply IH. exact S.
Qed.

Lemma memb_rev z l : memb z (rev l) = memb z l.
Proof.
  destruct (memb z l) eqn:E.
  - apply memb_in. apply -> in_rev. apply memb_in. exact E.
  - apply memb_false. intros H. apply in_rev in H. apply memb_in in H. congruence.
Qed.

(* two full sketches of the same size n: (shared among the n smallest of the union, n) *)
Lemma jaccard_full n a b : desc a -> desc b -> length a = n -> length b = n -> (1 <= n)%nat ->
  intersect a b (Z.of_nat n) = Ok (Z.of_nat (shared_bottom n a b), Z.of_nat n).
Proof.
  intros Da Db La Lb Hn. unfold intersect.
  rewrite (sorted_desc_of_desc a Da), (sorted_desc_of_desc b Db). cbn [negb].
  destruct (isect_loop_spec (length a + length b) (Z.of_nat n) (rev a) (rev b) 0%Z 0%Z)
    as [ra' [rb' [m' [inter' [E P]]]]].
  - apply desc_rev. exact Da.
  - apply desc_rev. exact Db.
  - rewrite !rev_length. lia.
  - lia.
  - rewrite E. destruct P. rewrite !rev_length in *.
    assert (M : m' = Z.of_nat n).
    { destruct lp_stop0 as [H|[H|H]]; [exact H| |]; subst; cbn [length] in *; lia. }
    f_equal. f_equal.
    + rewrite lp_cnt0. rewrite M. rewrite Z.add_0_l. f_equal.
      rewrite Z.sub_0_r, Nat2Z.id. unfold shared_bottom, cnt.
      rewrite (sort_dedup_content (rev a ++ rev b) (a ++ b)).
      * f_equal. apply filter_ext. intros z. rewrite !memb_rev. reflexivity.
      * intros z. rewrite !in_app_iff, <- !in_rev. reflexivity.
    + lia.
Qed.

Lemma filter_len_le {A} (f : A -> bool) l : (length (filter f l) <= length l)%nat.
Proof. induction l as [|x l IH]; [apply le_n|]. cbn [filter]. destruct (f x); cbn [length]; lia. Qed.

Lemma filter_all {A} (f : A -> bool) l : (forall z, In z l -> f z = true) -> filter f l = l.
Proof.
  induction l as [|x l IH]; intros H; [reflexivity|]. cbn [filter].
  rewrite (H x (or_introl eq_refl)). f_equal. apply IH. intros z Hz. apply H. right. exact Hz.
Qed.

Lemma shared_bottom_le n a b : (shared_bottom n a b <= n)%nat.
Proof.
  unfold shared_bottom. etransitivity; [apply filter_len_le|]. apply firstn_le_length.
Qed.

Lemma shared_bottom_same n a : desc a -> length a = n -> shared_bottom n a a = n.
Proof.
  intros D L. unfold shared_bottom.
  assert (E : sort_dedup (a ++ a) = rev a).
  { apply asc_unique; [apply sort_dedup_asc|apply desc_rev; exact D|].
    intros z. rewrite sort_dedup_in, in_app_iff, <- in_rev. tauto. }
  rewrite E. rewrite firstn_all2 by (rewrite rev_length; lia).
  rewrite filter_all.
  - rewrite rev_length. exact L.
  - intros z Hz. apply in_rev in Hz. apply memb_in in Hz. rewrite Hz. reflexivity.
Qed.

Lemma desc_sketch_of n l : desc (sketch_of n l).
Proof. unfold sketch_of. apply asc_rev. apply ss_firstn. apply sort_dedup_asc. Qed.

(* ---- on sketches ----------------------------------------------------------------------- *)
Section HashB.
Variable h : bytes -> N.
Local Notation hs := (fun b : bytes => Some (h b)).

(* the same sequences distributed differently over Sequences + Add calls *)
Lemma sketch_repartition n k b1 b2 ks : b1 <> [] -> b2 <> [] -> (1 <= n)%Z ->
  Permutation (concat b1) (concat b2) -> kmers k (concat b1) = Ok ks ->
  incremental hs n k b1 = incremental hs n k b2.
Proof.
  intros N1 N2 Hn P K.
  pose proof (kmers_reorder h k _ _ P) as Q. rewrite K in Q.
  destruct (kmers k (concat b2)) as [ks2| |] eqn:K2; cbn in Q; try tauto.
  rewrite (sketch_incremental h n k b1 ks N1 Hn K).
  rewrite (sketch_incremental h n k b2 ks2 N2 Hn K2).
  apply sketch_reorder. exact P.
Qed.

Lemma sketch_jaccard_full n k sa sb ka kb : (1 <= n)%Z ->
  kmers k sa = Ok ka -> kmers k sb = Ok kb ->
  length (sketch_of n (map h ka)) = Z.to_nat n ->
  length (sketch_of n (map h kb)) = Z.to_nat n ->
  sketch_jaccard_pair hs n n k sa sb
  = Ok (Z.of_nat (shared_bottom (Z.to_nat n) (sketch_of n (map h ka)) (sketch_of n (map h kb))), n).
Proof.
  intros Hn Ka Kb La Lb. unfold sketch_jaccard_pair.
  rewrite (sequences_mh_spec h n k sa ka Hn Ka), (sequences_mh_spec h n k sb kb Hn Kb). cbn [obind].
  unfold jaccard_pair. cbn [mh_vals mh_k].
  rewrite <- (Z2Nat.id n) at 3 by lia.
  rewrite (jaccard_full (Z.to_nat n)); try assumption; try apply desc_sketch_of; [|lia].
  rewrite Z2Nat.id by lia. reflexivity.
Qed.

(* identical k-mer content, full sketch: everything is shared *)
Lemma sketch_jaccard_same n k sa sb ka kb : (1 <= n)%Z ->
  kmers k sa = Ok ka -> kmers k sb = Ok kb -> (forall x, In x ka <-> In x kb) ->
  length (sketch_of n (map h ka)) = Z.to_nat n ->
  sketch_jaccard_pair hs n n k sa sb = Ok (n, n).
Proof.
  intros Hn Ka Kb C La.
  assert (E : sketch_of n (map h kb) = sketch_of n (map h ka)).
  { apply sketch_of_content. intros x. rewrite !in_map_iff.
    split; intros [y [Ey Iy]]; exists y; (split; [exact Ey|apply C; exact Iy]). }
  rewrite (sketch_jaccard_full n k sa sb ka kb Hn Ka Kb La) by (rewrite E; exact La).
  rewrite E. rewrite shared_bottom_same; [|apply desc_sketch_of|exact La].
  rewrite Z2Nat.id by lia. reflexivity.
Qed.

Lemma sketch_jaccard_sym n k sa sb :
  sketch_jaccard_pair hs n n k sa sb = sketch_jaccard_pair hs n n k sb sa.
Proof.
  unfold sketch_jaccard_pair.
  destruct (sequences_mh hs n k sa) as [a| |] eqn:Ea, (sequences_mh hs n k sb) as [b| |] eqn:Eb; cbn [obind];
    try reflexivity.
  - unfold jaccard_pair.
    assert (Ka : mh_k a = n).
    { unfold sequences_mh, mh_new in Ea. destruct (n <? 1)%Z; [discriminate|]. cbn [obind] in Ea.
      unfold add in Ea. destruct (fold_left _ _ _); inversion Ea. reflexivity. }
    assert (Kb : mh_k b = n).
    { unfold sequences_mh, mh_new in Eb. destruct (n <? 1)%Z; [discriminate|]. cbn [obind] in Eb.
      unfold add in Eb. destruct (fold_left _ _ _); inversion Eb. reflexivity. }
    rewrite Ka, Kb. apply intersect_sym.
  - exfalso. unfold sequences_mh, mh_new in Ea. destruct (n <? 1)%Z; [discriminate|]. cbn [obind] in Ea.
    unfold add in Ea. destruct (fold_left _ _ _); discriminate.
  - exfalso. unfold sequences_mh, mh_new in Eb. destruct (n <? 1)%Z; [discriminate|]. cbn [obind] in Eb.
    unfold add in Eb. destruct (fold_left _ _ _); discriminate.
Qed.

End HashB.
