(* Proofs/MashProofsB.v *)
From Bio Require Import Base.
