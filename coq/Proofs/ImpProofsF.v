(* Proofs/ImpProofsF.v — translated source vs hand-written model, part 6: align.Local
   (the DP loop with the clamp at 0, argmax, traceAlignmentStepsLocal). *)
From Coq Require Import ZifyBool ZifyNat ZifyN.
From Bio Require Import Base.
From Bio.gen Require Import ImpGen.
From Bio.Model Require Import GoSem Align.
From Bio.Spec Require Import AlignSpec.
From Bio.Proofs Require Import AlignProofs ImpProofs ImpProofsB ImpProofsD ImpProofsE.
Open Scope Z_scope.

Ltac Zify.zify_post_hook ::= Z.div_mod_to_equations.

Lemma go_index_set_same {A S R} (l : list A) i v (k : A -> res S R) :
  0 <= i < go_len l -> go_index (set_nth l (Z.to_nat i) v) i k = k v.
Proof. intros H. apply go_index_some; [lia|]. apply nth_error_set_nth_eq. unfold go_len in H. lia. Qed.

Lemma go_index_set_other {A S R} (l : list A) i j v (k : A -> res S R) :
  0 <= i -> 0 <= j -> i <> j -> go_index (set_nth l (Z.to_nat i) v) j k = go_index l j k.
Proof.
  intros Hi Hj Hne. unfold go_index. destruct (Z.ltb_spec j 0); [reflexivity|].
  rewrite nth_error_set_nth_neq by lia. reflexivity.
Qed.

Lemma go_set_set_same {A S R} (l : list A) i v v' (k : list A -> res S R) :
  0 <= i < go_len l -> go_set (set_nth l (Z.to_nat i) v) i v' k = k (set_nth l (Z.to_nat i) v').
Proof.
  intros H. rewrite go_set_ok by (unfold go_len in *; rewrite set_nth_length; lia).
  rewrite set_nth_set_nth. reflexivity.
Qed.

Lemma blk_clamp c : blk_of (clamp_local c) = if fst c <? 0 then zero_block else blk_of c.
Proof. unfold clamp_local. destruct (fst c <? 0); reflexivity. Qed.

Definition local_body {R} (a b : list N) (m : list ((N * N) * Z)) (bn : Z)
  : Z -> list imp_align_block -> res (list imp_align_block) R :=
  (fun i blocks => go_quot i bn (fun t__4 => let t__5 := t__4 in go_rem i bn (fun t__6 => let t__7 := t__6 in let ai_2 := t__5 in let bi_2 := t__7 in (if (andb (Z.eqb ai_2 (0)%Z) (Z.eqb bi_2 (0)%Z)) then Next blocks else (if (Z.eqb ai_2 (0)%Z) then go_index blocks i (fun t__8 => go_set blocks i (imp_align_block_with_step t__8 3%N) (fun t__9 => let blocks := t__9 in go_index blocks (Z.sub i (1)%Z) (fun t__10 => go_index b (Z.sub bi_2 (1)%Z) (fun t__11 => go_call (imp_align_SubstitutionMatrix_Get m 255%N t__11) (fun t__12 => go_index blocks i (fun t__13 => go_set blocks i (imp_align_block_with_score t__13 (Z.add (imp_align_block_score t__10) t__12)) (fun t__14 => let blocks := t__14 in (if (Z.eqb bi_2 (1)%Z) then go_index blocks i (fun t__15 => go_call (imp_align_SubstitutionMatrix_Get m 255%N 255%N) (fun t__16 => go_index blocks i (fun t__17 => go_set blocks i (imp_align_block_with_score t__17 (Z.add (imp_align_block_score t__15) t__16)) (fun t__18 => let blocks := t__18 in go_index blocks i (fun t__19 => (if (Z.ltb (imp_align_block_score t__19) (0)%Z) then go_set blocks i (Imp_align_block (0)%Z 0%N) (fun t__20 => let blocks := t__20 in Next blocks) else Next blocks)))))) else go_index blocks i (fun t__21 => (if (Z.ltb (imp_align_block_score t__21) (0)%Z) then go_set blocks i (Imp_align_block (0)%Z 0%N) (fun t__22 => let blocks := t__22 in Next blocks) else Next blocks)))))))))) else (if (Z.eqb bi_2 (0)%Z) then go_index blocks i (fun t__23 => go_set blocks i (imp_align_block_with_step t__23 2%N) (fun t__24 => let blocks := t__24 in go_index blocks (Z.sub i bn) (fun t__25 => go_index a (Z.sub ai_2 (1)%Z) (fun t__26 => go_call (imp_align_SubstitutionMatrix_Get m t__26 255%N) (fun t__27 => go_index blocks i (fun t__28 => go_set blocks i (imp_align_block_with_score t__28 (Z.add (imp_align_block_score t__25) t__27)) (fun t__29 => let blocks := t__29 in (if (Z.eqb ai_2 (1)%Z) then go_index blocks i (fun t__30 => go_call (imp_align_SubstitutionMatrix_Get m 255%N 255%N) (fun t__31 => go_index blocks i (fun t__32 => go_set blocks i (imp_align_block_with_score t__32 (Z.add (imp_align_block_score t__30) t__31)) (fun t__33 => let blocks := t__33 in go_index blocks i (fun t__34 => (if (Z.ltb (imp_align_block_score t__34) (0)%Z) then go_set blocks i (Imp_align_block (0)%Z 0%N) (fun t__35 => let blocks := t__35 in Next blocks) else Next blocks)))))) else go_index blocks i (fun t__36 => (if (Z.ltb (imp_align_block_score t__36) (0)%Z) then go_set blocks i (Imp_align_block (0)%Z 0%N) (fun t__37 => let blocks := t__37 in Next blocks) else Next blocks)))))))))) else go_index blocks (Z.sub (Z.sub i bn) (1)%Z) (fun t__38 => go_index a (Z.sub ai_2 (1)%Z) (fun t__39 => go_index b (Z.sub bi_2 (1)%Z) (fun t__40 => go_call (imp_align_SubstitutionMatrix_Get m t__39 t__40) (fun t__41 => let mch := (Z.add (imp_align_block_score t__38) t__41) in go_index blocks (Z.sub i bn) (fun t__42 => go_index a (Z.sub ai_2 (1)%Z) (fun t__43 => go_call (imp_align_SubstitutionMatrix_Get m t__43 255%N) (fun t__44 => let del := (Z.add (imp_align_block_score t__42) t__44) in go_index blocks (Z.sub i bn) (fun t__45 => (if (negb (N.eqb (imp_align_block_step t__45) 2%N)) then go_call (imp_align_SubstitutionMatrix_Get m 255%N 255%N) (fun t__46 => let del := (Z.add del t__46) in go_index blocks (Z.sub i (1)%Z) (fun t__47 => go_index b (Z.sub bi_2 (1)%Z) (fun t__48 => go_call (imp_align_SubstitutionMatrix_Get m 255%N t__48) (fun t__49 => let ins := (Z.add (imp_align_block_score t__47) t__49) in go_index blocks (Z.sub i (1)%Z) (fun t__50 => (if (negb (N.eqb (imp_align_block_step t__50) 3%N)) then go_call (imp_align_SubstitutionMatrix_Get m 255%N 255%N) (fun t__51 => let ins := (Z.add ins t__51) in go_call (imp_align_decideOnStep mch del ins) (fun t__52 => go_set blocks i t__52 (fun t__53 => let blocks := t__53 in go_index blocks i (fun t__54 => (if (Z.ltb (imp_align_block_score t__54) (0)%Z) then go_set blocks i (Imp_align_block (0)%Z 0%N) (fun t__55 => let blocks := t__55 in Next blocks) else Next blocks))))) else go_call (imp_align_decideOnStep mch del ins) (fun t__56 => go_set blocks i t__56 (fun t__57 => let blocks := t__57 in go_index blocks i (fun t__58 => (if (Z.ltb (imp_align_block_score t__58) (0)%Z) then go_set blocks i (Imp_align_block (0)%Z 0%N) (fun t__59 => let blocks := t__59 in Next blocks) else Next blocks)))))))))) else go_index blocks (Z.sub i (1)%Z) (fun t__60 => go_index b (Z.sub bi_2 (1)%Z) (fun t__61 => go_call (imp_align_SubstitutionMatrix_Get m 255%N t__61) (fun t__62 => let ins := (Z.add (imp_align_block_score t__60) t__62) in go_index blocks (Z.sub i (1)%Z) (fun t__63 => (if (negb (N.eqb (imp_align_block_step t__63) 3%N)) then go_call (imp_align_SubstitutionMatrix_Get m 255%N 255%N) (fun t__64 => let ins := (Z.add ins t__64) in go_call (imp_align_decideOnStep mch del ins) (fun t__65 => go_set blocks i t__65 (fun t__66 => let blocks := t__66 in go_index blocks i (fun t__67 => (if (Z.ltb (imp_align_block_score t__67) (0)%Z) then go_set blocks i (Imp_align_block (0)%Z 0%N) (fun t__68 => let blocks := t__68 in Next blocks) else Next blocks))))) else go_call (imp_align_decideOnStep mch del ins) (fun t__69 => go_set blocks i t__69 (fun t__70 => let blocks := t__70 in go_index blocks i (fun t__71 => (if (Z.ltb (imp_align_block_score t__71) (0)%Z) then go_set blocks i (Imp_align_block (0)%Z 0%N) (fun t__72 => let blocks := t__72 in Next blocks) else Next blocks)))))))))))))))))))))))).

Section LocalCell.
Variable w : byte -> byte -> Z.
Variable m : matrix.
Variables a b : bytes.
Hypothesis Hag : agrees w (get m) a b.
Variable R : Type.
Notation bn := (bn_of b).
Notation n := (S (length a) * S (length b))%nat.
Notation inv := (inv w a b clamp_local).
Notation get_ok := (get_ok w m a b Hag).
Notation idx_bound := (idx_bound a b).
Notation lookup_prev := (lookup_prev w a b clamp_local).

Lemma local_cell blocks pa ra pb rb : rev a = pa ++ ra -> rev b = pb ++ rb ->
  inv (idx bn ra rb) blocks ->
  local_body (R := R) a b m bn (idx bn ra rb) blocks
  = Next (set_nth blocks (Z.to_nat (idx bn ra rb)) (blk_of (pcell w clamp_local ra rb))).
Proof.
  intros Ha Hb Hinv.
  pose proof (idx_bound pa ra pb rb Ha Hb) as Hi.
  pose proof (rev_suffix_length _ _ _ Ha) as Hla. pose proof (rev_suffix_length _ _ _ Hb) as Hlb.
  assert (Hbn : Z.of_nat (length rb) < bn) by (unfold bn_of; lia).
  assert (Hbn0 : bn <> 0) by (unfold bn_of; lia).
  assert (Hbnpos : 0 < bn) by (unfold bn_of; lia).
  assert (Hlen : go_len blocks = Z.of_nat n) by (unfold go_len; destruct Hinv as (-> & _); reflexivity).
  assert (Hcur : nth_error blocks (Z.to_nat (idx bn ra rb)) = Some zero_block).
  { destruct Hinv as (_ & _ & Hz). apply Hz. lia. }
  assert (HGG : imp_align_SubstitutionMatrix_Get m 255%N 255%N = Ret (w Gap Gap)) by (apply get_ok; left; reflexivity).
  assert (Hdel : forall c : cell, N.eqb (imp_align_block_step (blk_of c)) 2 = is_del (snd c)) by (intros c; apply step_n_is_del).
  assert (Hins : forall c : cell, N.eqb (imp_align_block_step (blk_of c)) 3 = is_ins (snd c)) by (intros c; apply step_n_is_ins).
  assert (Hsc : forall c : cell, imp_align_block_score (blk_of c) = fst c) by reflexivity.
  unfold local_body. unfold go_quot, go_rem. destruct (Z.eqb_spec bn 0) as [Ez|_]; [contradiction|].
  rewrite (idx_quot bn ra rb Hbn), (idx_rem bn ra rb Hbn). cbv zeta.
  set (i := idx bn ra rb) in *.
  destruct ra as [|x ra'], rb as [|y rb']; cbn [length]; change (Z.of_nat 0) with 0.
  - (* the corner *)
    cbn [Z.eqb andb]. f_equal. symmetry. apply set_nth_same. exact Hcur.
  - (* row 0 *)
    replace (Z.of_nat (S (length rb')) =? 0) with false by lia. cbn [Z.eqb andb].
    assert (Hy : In y (Gap :: b)) by (eapply in_of_rev; exact Hb).
    assert (Hb' : rev b = (pb ++ [y]) ++ rb') by (rewrite <- app_assoc; exact Hb).
    assert (Hival : i = Z.of_nat (S (length rb'))) by (unfold i, idx; cbn [length]; lia).
    assert (Hleft : nth_error blocks (Z.to_nat (i - 1)) = Some (blk_of (pcell w clamp_local [] rb'))).
    { replace (i - 1) with (idx bn [] rb') by (unfold i, idx; cbn [length]; lia).
      apply (lookup_prev blocks i pa [] (pb ++ [y]) rb' Hinv Ha Hb'). unfold i, idx. cbn [length]. lia. }
    set (cL := pcell w clamp_local [] rb') in *.
    assert (Eb : forall S' (k : N -> res S' R), go_index b (Z.of_nat (S (length rb')) - 1) k = k y).
    { intros S' k. rewrite (rev_split_nth b pb y rb' Hb).
      apply (go_index_mid (rev rb') y (rev pb)). unfold go_len. rewrite rev_length. lia. }
    rewrite pcell_nil_cons. fold cL. rewrite blk_clamp. cbn [fst].
    destruct rb' as [|y' rb'']; cbn [length is_nil].
    + change (Z.of_nat 1 =? 1) with true. cbv iota. change (Z.of_nat 1 - 1) with 0 in Eb.
      timeout 300 repeat (first
        [ rewrite (go_index_some blocks i zero_block) by (first [lia | exact Hcur])
        | rewrite (go_set_ok blocks i) by lia
        | rewrite (go_index_set_other blocks i (i - 1)) by lia
        | rewrite (go_index_some blocks (i - 1) (blk_of cL)) by (first [lia | exact Hleft])
        | rewrite (go_index_set_same blocks i) by lia
        | rewrite (go_set_set_same blocks i) by lia
        | rewrite Eb
        | rewrite (get_ok 255%N y (or_introl eq_refl) Hy)
        | rewrite HGG
        | rewrite Hsc ]; cbn [go_call]; cbv zeta).
      cbn [imp_align_block_with_score imp_align_block_with_step imp_align_block_score imp_align_block_step zero_block].
      unfold opn, Gap. match goal with |- (if ?c then _ else _) = _ => destruct c end; reflexivity.
    + replace (Z.of_nat (S (S (length rb''))) =? 1) with false by lia.
      timeout 300 repeat (first
        [ rewrite (go_index_some blocks i zero_block) by (first [lia | exact Hcur])
        | rewrite (go_set_ok blocks i) by lia
        | rewrite (go_index_set_other blocks i (i - 1)) by lia
        | rewrite (go_index_some blocks (i - 1) (blk_of cL)) by (first [lia | exact Hleft])
        | rewrite (go_index_set_same blocks i) by lia
        | rewrite (go_set_set_same blocks i) by lia
        | rewrite Eb
        | rewrite (get_ok 255%N y (or_introl eq_refl) Hy)
        | rewrite HGG
        | rewrite Hsc ]; cbn [go_call]; cbv zeta).
      cbn [imp_align_block_with_score imp_align_block_with_step imp_align_block_score imp_align_block_step zero_block].
      unfold opn, Gap. rewrite Z.add_0_r. match goal with |- (if ?c then _ else _) = _ => destruct c end; reflexivity.
  - (* column 0 *)
    replace (Z.of_nat (S (length ra')) =? 0) with false by lia. cbn [Z.eqb andb].
    assert (Hx : In x (Gap :: a)) by (eapply in_of_rev; exact Ha).
    assert (Ha' : rev a = (pa ++ [x]) ++ ra') by (rewrite <- app_assoc; exact Ha).
    assert (Hibn : 0 <= i - bn) by (unfold i, idx; cbn [length]; nia).
    assert (Hup : nth_error blocks (Z.to_nat (i - bn)) = Some (blk_of (pcell w clamp_local ra' []))).
    { replace (i - bn) with (idx bn ra' []) by (unfold i, idx; cbn [length]; lia).
      apply (lookup_prev blocks i (pa ++ [x]) ra' pb [] Hinv Ha' Hb). unfold i, idx. cbn [length]. lia. }
    set (cU := pcell w clamp_local ra' []) in *.
    assert (Ea : forall S' (k : N -> res S' R), go_index a (Z.of_nat (S (length ra')) - 1) k = k x).
    { intros S' k. rewrite (rev_split_nth a pa x ra' Ha).
      apply (go_index_mid (rev ra') x (rev pa)). unfold go_len. rewrite rev_length. lia. }
    rewrite pcell_cons_nil. fold cU. rewrite blk_clamp. cbn [fst].
    destruct ra' as [|x' ra'']; cbn [length is_nil].
    + change (Z.of_nat 1 =? 1) with true. cbv iota. change (Z.of_nat 1 - 1) with 0 in Ea.
      timeout 300 repeat (first
        [ rewrite (go_index_some blocks i zero_block) by (first [lia | exact Hcur])
        | rewrite (go_set_ok blocks i) by lia
        | rewrite (go_index_set_other blocks i (i - bn)) by lia
        | rewrite (go_index_some blocks (i - bn) (blk_of cU)) by (first [lia | exact Hup])
        | rewrite (go_index_set_same blocks i) by lia
        | rewrite (go_set_set_same blocks i) by lia
        | rewrite Ea
        | rewrite (get_ok x 255%N Hx (or_introl eq_refl))
        | rewrite HGG
        | rewrite Hsc ]; cbn [go_call]; cbv zeta).
      cbn [imp_align_block_with_score imp_align_block_with_step imp_align_block_score imp_align_block_step zero_block].
      unfold opn, Gap. match goal with |- (if ?c then _ else _) = _ => destruct c end; reflexivity.
    + replace (Z.of_nat (S (S (length ra''))) =? 1) with false by lia.
      timeout 300 repeat (first
        [ rewrite (go_index_some blocks i zero_block) by (first [lia | exact Hcur])
        | rewrite (go_set_ok blocks i) by lia
        | rewrite (go_index_set_other blocks i (i - bn)) by lia
        | rewrite (go_index_some blocks (i - bn) (blk_of cU)) by (first [lia | exact Hup])
        | rewrite (go_index_set_same blocks i) by lia
        | rewrite (go_set_set_same blocks i) by lia
        | rewrite Ea
        | rewrite (get_ok x 255%N Hx (or_introl eq_refl))
        | rewrite HGG
        | rewrite Hsc ]; cbn [go_call]; cbv zeta).
      cbn [imp_align_block_with_score imp_align_block_with_step imp_align_block_score imp_align_block_step zero_block].
      unfold opn, Gap. rewrite Z.add_0_r. match goal with |- (if ?c then _ else _) = _ => destruct c end; reflexivity.
  - (* the middle *)
    replace (Z.of_nat (S (length ra')) =? 0) with false by lia.
    replace (Z.of_nat (S (length rb')) =? 0) with false by lia. cbn [andb].
    assert (Hx : In x (Gap :: a)) by (eapply in_of_rev; exact Ha).
    assert (Hy : In y (Gap :: b)) by (eapply in_of_rev; exact Hb).
    assert (Ha' : rev a = (pa ++ [x]) ++ ra') by (rewrite <- app_assoc; exact Ha).
    assert (Hb' : rev b = (pb ++ [y]) ++ rb') by (rewrite <- app_assoc; exact Hb).
    assert (Hibn : 0 <= i - bn - 1) by (unfold i, idx; cbn [length]; nia).
    assert (Hdiag : nth_error blocks (Z.to_nat (i - bn - 1)) = Some (blk_of (pcell w clamp_local ra' rb'))).
    { replace (i - bn - 1) with (idx bn ra' rb') by (unfold i, idx; cbn [length]; lia).
      apply (lookup_prev blocks i (pa ++ [x]) ra' (pb ++ [y]) rb' Hinv Ha' Hb'). unfold i, idx. cbn [length]. lia. }
    assert (Hup : nth_error blocks (Z.to_nat (i - bn)) = Some (blk_of (pcell w clamp_local ra' (y :: rb')))).
    { replace (i - bn) with (idx bn ra' (y :: rb')) by (unfold i, idx; cbn [length]; lia).
      apply (lookup_prev blocks i (pa ++ [x]) ra' pb (y :: rb') Hinv Ha' Hb). unfold i, idx. cbn [length]. lia. }
    assert (Hleft : nth_error blocks (Z.to_nat (i - 1)) = Some (blk_of (pcell w clamp_local (x :: ra') rb'))).
    { replace (i - 1) with (idx bn (x :: ra') rb') by (unfold i, idx; cbn [length]; lia).
      apply (lookup_prev blocks i pa (x :: ra') (pb ++ [y]) rb' Hinv Ha Hb'). unfold i, idx. cbn [length]. lia. }
    set (cD := pcell w clamp_local ra' rb') in *.
    set (cU := pcell w clamp_local ra' (y :: rb')) in *.
    set (cL := pcell w clamp_local (x :: ra') rb') in *.
    rewrite pcell_cons_cons. fold cD cU cL. rewrite blk_clamp.
    assert (Ea : forall S' (k : N -> res S' R), go_index a (Z.of_nat (S (length ra')) - 1) k = k x).
    { intros S' k. rewrite (rev_split_nth a pa x ra' Ha).
      apply (go_index_mid (rev ra') x (rev pa)). unfold go_len. rewrite rev_length. lia. }
    assert (Eb : forall S' (k : N -> res S' R), go_index b (Z.of_nat (S (length rb')) - 1) k = k y).
    { intros S' k. rewrite (rev_split_nth b pb y rb' Hb).
      apply (go_index_mid (rev rb') y (rev pb)). unfold go_len. rewrite rev_length. lia. }
    unfold opn.
    timeout 300 repeat (first
      [ rewrite (go_index_some blocks (i - bn - 1) (blk_of cD)) by (first [lia | exact Hdiag])
      | rewrite (go_index_some blocks (i - bn) (blk_of cU)) by (first [lia | exact Hup])
      | rewrite (go_index_some blocks (i - 1) (blk_of cL)) by (first [lia | exact Hleft])
      | rewrite Ea | rewrite Eb
      | rewrite (get_ok x y Hx Hy)
      | rewrite (get_ok x 255%N Hx (or_introl eq_refl))
      | rewrite (get_ok 255%N y (or_introl eq_refl) Hy)
      | rewrite HGG
      | rewrite imp_decideOnStep
      | rewrite (go_set_ok blocks i) by lia
      | rewrite (go_index_set_same blocks i) by lia
      | rewrite (go_set_set_same blocks i) by lia
      | rewrite Hdel | rewrite Hins | rewrite Hsc ]; cbn [go_call]; cbv zeta).
    unfold Gap. destruct (is_del (snd cU)), (is_ins (snd cL)); cbn [negb]; rewrite ?Z.add_0_r;
      match goal with |- (if ?c then _ else _) = _ => destruct c end; reflexivity.
Qed.

Lemma local_fill :
  go_iter (local_body (R := R) a b m bn) (zseq 0 n) (repeat zero_block n)
  = Next (map blk_of (concat (table_spec w clamp_local a b))).
Proof. apply dp_fill. exact local_cell. Qed.

End LocalCell.

(* ---- argmax with its score ------------------------------------------------------------------------ *)
Lemma argmax_from_spec (all : list cell) : forall suf pre imax best,
  all = pre ++ suf -> 0 <= imax < Z.of_nat (length all) ->
  nth_error all (Z.to_nat imax) = Some best ->
  exists c, nth_error all (Z.to_nat (fst (argmax_from suf (Z.of_nat (length pre)) imax (fst best)))) = Some c
    /\ fst c = snd (argmax_from suf (Z.of_nat (length pre)) imax (fst best))
    /\ 0 <= fst (argmax_from suf (Z.of_nat (length pre)) imax (fst best)) < Z.of_nat (length all).
Proof.
  induction suf as [|c suf IH]; intros pre imax best Hall Him Hb.
  - cbn [argmax_from fst snd]. exists best. auto.
  - cbn [argmax_from].
    assert (Hc : nth_error all (Z.to_nat (Z.of_nat (length pre))) = Some c).
    { rewrite Hall, Nat2Z.id, nth_error_app2 by lia. rewrite Nat.sub_diag. reflexivity. }
    assert (Hall' : all = (pre ++ [c]) ++ suf) by (rewrite <- app_assoc; exact Hall).
    assert (Hlen : Z.of_nat (length pre) + 1 = Z.of_nat (length (pre ++ [c]))) by (rewrite app_length; cbn [length]; lia).
    rewrite Hlen. destruct (fst c >? fst best).
    + apply (IH (pre ++ [c]) _ c Hall'); [|exact Hc]. rewrite Hall, app_length. cbn [length]. lia.
    + apply (IH (pre ++ [c]) _ best Hall'); assumption.
Qed.

Lemma argmax_spec blocks : blocks <> [] ->
  exists c, nth_error blocks (Z.to_nat (fst (argmax blocks))) = Some c
    /\ fst c = snd (argmax blocks) /\ 0 <= fst (argmax blocks) < Z.of_nat (length blocks).
Proof.
  intros Hne. destruct blocks as [|c r]; [congruence|]. unfold argmax.
  apply (argmax_from_spec (c :: r) (c :: r) [] 0 c eq_refl); [cbn [length]; lia|reflexivity].
Qed.

(* ---- traceAlignmentStepsLocal -------------------------------------------------------------------------- *)
Definition tl_state : Type := (Z * list N * Z)%type.
Definition tl_cond : tl_state -> res unit bool := (fun '(last, steps, i) => Ret (Z.ltb (0)%Z i)).
Definition tl_body {R} (blocks : list imp_align_block) (bn : Z) : tl_state -> res tl_state R := (fun '(last, steps, i) => go_index blocks i (fun t__4 => (if (Z.ltb (imp_align_block_score t__4) (0)%Z) then Panics else go_index blocks i (fun t__5 => (if (Z.eqb (imp_align_block_score t__5) (0)%Z) then Brk (last, steps, i) else let last := i in go_index blocks i (fun t__6 => let steps := (steps ++ [(imp_align_block_step t__6)]) in go_index blocks i (fun t__7 => (if (N.eqb (imp_align_block_step t__7) 1%N) then let i := (Z.sub i (Z.add bn (1)%Z)) in Next (last, steps, i) else (if (N.eqb (imp_align_block_step t__7) 2%N) then let i := (Z.sub i bn) in Next (last, steps, i) else (if (N.eqb (imp_align_block_step t__7) 3%N) then let i := (Z.sub i (1)%Z) in Next (last, steps, i) else Next (last, steps, i))))))))))).

Lemma tl_loop {R} blocks bn : forall f fuel i last acc r rl,
  trace_l f blocks bn i last acc = Ok (r, rl) -> (f < fuel)%nat ->
  exists i', go_while (R := R) fuel tl_cond (tl_body (map blk_of blocks) bn) (last, map step_n (rev acc), i)
             = Next (rl, map step_n (rev r), i') /\ 0 <= i'.
Proof.
  induction f as [|f IH]; intros fuel i last acc r rl Hr Hf; (destruct fuel as [|fuel]; [lia|]);
    cbn [go_while]; unfold tl_cond at 1; cbv beta iota.
  - cbn [trace_l] in Hr. destruct (Z.leb_spec i 0) as [Hi|Hi]; [|discriminate].
    destruct (Z.ltb_spec i 0); [discriminate|]. injection Hr as <- <-.
    replace (0 <? i) with false by lia. exists i. split; [reflexivity|lia].
  - cbn [trace_l] in Hr. destruct (Z.leb_spec i 0) as [Hi|Hi].
    + destruct (Z.ltb_spec i 0); [discriminate|]. injection Hr as <- <-.
      replace (0 <? i) with false by lia. exists i. split; [reflexivity|lia].
    + replace (0 <? i) with true by lia.
      destruct (nth_error blocks (Z.to_nat i)) as [[s st]|] eqn:Hn; [|discriminate].
      unfold tl_body at 1. cbv beta iota. unfold go_index.
      destruct (Z.ltb_spec i 0); [lia|]. rewrite nth_error_map, Hn.
      cbn [option_map blk_of imp_align_block_step imp_align_block_score fst snd]. cbv zeta.
      destruct (s <? 0); [discriminate|].
      destruct (s =? 0).
      * injection Hr as <- <-. exists i. split; [reflexivity|lia].
      * replace (map step_n (rev acc) ++ [step_n st]) with (map step_n (rev (st :: acc))) by (cbn [rev]; rewrite map_app; reflexivity).
        destruct st; cbn [step_n step_code Z.to_N N.eqb Pos.eqb move] in *; apply (IH fuel _ _ _ _ _ Hr); lia.
Qed.

Lemma trace_l_length blocks bn : forall f i last acc r rl,
  trace_l f blocks bn i last acc = Ok (r, rl) -> (length r <= f + length acc)%nat.
Proof.
  induction f as [|f IH]; intros i last acc r rl H; cbn [trace_l] in H.
  - destruct (i <=? 0); [|discriminate]. destruct (i <? 0); [discriminate|]. injection H as <- <-. lia.
  - destruct (i <=? 0).
    + destruct (i <? 0); [discriminate|]. injection H as <- <-. lia.
    + destruct (nth_error blocks (Z.to_nat i)) as [[s0 st]|]; [|discriminate].
      destruct (s0 <? 0); [discriminate|]. destruct (s0 =? 0).
      * injection H as <- <-. lia.
      * apply IH in H. cbn [length] in H. lia.
Qed.

Theorem imp_traceLocal_ok fuel blocks bn steps last : blocks <> [] -> bn <> 0 -> (length blocks < fuel)%nat ->
  trace_l (length blocks) blocks bn (fst (argmax blocks)) (fst (argmax blocks)) [] = Ok (steps, last) ->
  imp_align_traceAlignmentStepsLocal fuel (map blk_of blocks) bn
  = Ret (if snd (argmax blocks) =? 0 then ([], 0, 0) else (map step_n steps, last, snd (argmax blocks))).
Proof.
  intros Hne Hbn Hf Ht.
  destruct (argmax_spec blocks Hne) as (c & Hc & Hcs & Him).
  unfold imp_align_traceAlignmentStepsLocal.
  rewrite (imp_argmax blocks Hne). cbn [go_call]. cbv zeta.
  unfold go_quot. destruct (Z.eqb_spec bn 0); [contradiction|].
  unfold go_make. cbn [Z.ltb Z.compare Z.to_nat repeat].
  timeout 120 (change (go_while fuel _ _ (fst (argmax blocks), [], fst (argmax blocks)))
    with (go_while (R := list N * Z * Z) fuel tl_cond (tl_body (map blk_of blocks) bn) (fst (argmax blocks), map step_n (rev []), fst (argmax blocks)))).
  destruct (tl_loop (R := list N * Z * Z) blocks bn _ fuel _ _ _ _ _ Ht Hf) as (i' & Hloop & Hi').
  rewrite Hloop. cbn [after]. cbv beta iota.
  replace (i' <? 0) with false by lia.
  rewrite (go_index_some (map blk_of blocks) (fst (argmax blocks)) (blk_of c)) by (first [lia | rewrite nth_error_map, Hc; reflexivity]).
  cbn [blk_of imp_align_block_score]. rewrite Hcs.
  destruct (snd (argmax blocks) =? 0); [reflexivity|].
  cbv zeta.
  timeout 120 (change (go_while fuel _ _ (0, map step_n (rev steps)))
    with (go_while (R := list N * Z * Z) fuel rev_cond rev_body (0, map step_n (rev steps)))).
  destruct (rev_loop_all (R := list N * Z * Z) (map step_n (rev steps)) fuel) as (k & Hk).
  { rewrite map_length, rev_length. pose proof (trace_l_length _ _ _ _ _ _ _ _ Ht) as Hl. cbn [length] in Hl.
    assert (length steps / 2 <= length steps)%nat by (apply Nat.div_le_upper_bound; lia). lia. }
  rewrite Hk. cbn [after]. cbv beta iota.
  rewrite <- map_rev, rev_involutive.
  rewrite (go_index_some (map blk_of blocks) (fst (argmax blocks)) (blk_of c)) by (first [lia | rewrite nth_error_map, Hc; reflexivity]).
  cbn [blk_of imp_align_block_score]. rewrite Hcs. reflexivity.
Qed.

(* ---- Local ------------------------------------------------------------------------------------------- *)
Theorem imp_Local_ok fuel m a b steps ai bi s : covers m a b ->
  (S (length a) * S (length b) < fuel)%nat ->
  local m a b = Ok (steps, ai, bi, s) ->
  imp_align_Local fuel a b m = Ret (map step_n steps, ai, bi, s).
Proof.
  intros Hc Hf Hg. pose proof (covers_agrees (get m) a b Hc) as Hag.
  set (w := weights (get m)) in *.
  unfold local, local_g in Hg. rewrite (blocks_ok w clamp_local (get m) a b Hag) in Hg. cbn [obind] in Hg.
  set (spec := concat (table_spec w clamp_local a b)) in *.
  assert (Hlen : length spec = (S (length a) * S (length b))%nat) by apply blocks_length.
  assert (Hne : spec <> []) by (intros E; rewrite E in Hlen; cbn in Hlen; lia).
  cbv zeta in Hg. destruct (argmax spec) as [imax smax] eqn:Eam.
  destruct (trace_l (length spec) spec (Z.of_nat (length b) + 1) imax imax []) as [[st last]| |] eqn:Ht; try discriminate.
  cbn [obind] in Hg.
  unfold imp_align_Local. cbv zeta.
  unfold go_make.
  replace ((go_len a + 1) * (go_len b + 1) <? 0) with false by (unfold go_len; nia).
  replace (Z.to_nat ((go_len a + 1) * (go_len b + 1))) with (S (length a) * S (length b))%nat by (unfold go_len; nia).
  unfold go_range_int.
  match goal with |- context [go_len (repeat ?z ?k)] => replace (go_len (repeat z k)) with (Z.of_nat k) by (unfold go_len; rewrite repeat_length; reflexivity) end.
  rewrite Nat2Z.id.
  change (Imp_align_block 0 0%N) with zero_block.
  timeout 120 (change (go_iter _ (zseq 0 _) (repeat zero_block _))
    with (go_iter (local_body (R := list N * Z * Z * Z) a b m (bn_of b)) (zseq 0 (S (length a) * S (length b))) (repeat zero_block (S (length a) * S (length b))))).
  rewrite (local_fill w m a b Hag). cbn [after]. fold spec.
  change (go_len b + 1) with (bn_of b).
  assert (Ht' : trace_l (length spec) spec (bn_of b) (fst (argmax spec)) (fst (argmax spec)) [] = Ok (st, last))
    by (rewrite Eam; exact Ht).
  rewrite (imp_traceLocal_ok fuel spec (bn_of b) st last Hne) by (first [unfold bn_of; lia | rewrite Hlen; exact Hf | exact Ht']).
  rewrite Eam. cbn [snd go_call].
  unfold go_quot, go_rem. replace (bn_of b =? 0) with false by (unfold bn_of; lia).
  unfold bn_of. destruct (smax =? 0); injection Hg as <- <- <- <-; reflexivity.
Qed.
