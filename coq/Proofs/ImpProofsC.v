(* Proofs/ImpProofsC.v — translated source vs hand-written model, part 3: package
   regions (eventLess, keys, cp, NewIndex, Index.At).  The model keeps serial numbers as
   nat and the key set as an ascending list; the translated code keeps ints and an
   insertion-ordered key list that keys() sorts. *)
From Coq Require Import Sorting.Permutation Sorting.Sorted.
From Coq Require Import ZifyBool ZifyNat ZifyN.
From Bio Require Import Base.
From Bio.gen Require Import ImpGen.
From Bio.Model Require Import GoSem Regions.
From Bio.Spec Require Import RegionsSpec.
From Bio.Proofs Require Import RegionsProofs RegionsProofsB ImpProofs ImpProofsB.
Open Scope Z_scope.

Definition ev_of (e : event) : imp_regions_event :=
  Imp_regions_event (Z.of_nat (e_idx e)) (e_pos e) (e_start e).
Definition iv_of (p : interval) : imp_regions_interval :=
  Imp_regions_interval (fst p) (map Z.of_nat (snd p)).
Definition index_of (ix : index) : imp_regions_Index := Imp_regions_Index (map iv_of ix).

Definition omap {A B} (f : A -> B) (o : outcome A) : outcome B :=
  match o with Ok a => Ok (f a) | Err => Err | Panic => Panic end.

(* ---- eventLess ------------------------------------------------------------------------ *)
Lemma imp_eventLess a b : imp_regions_eventLess (ev_of a) (ev_of b) = Ret (event_less a b).
Proof.
  unfold imp_regions_eventLess, event_less, ev_of.
  cbn [imp_regions_event_pos imp_regions_event_start imp_regions_event_idx].
  destruct (negb (e_pos a =? e_pos b)); [reflexivity|].
  destruct (negb (Bool.eqb (e_start a) (e_start b))); [reflexivity|].
  f_equal. destruct (Nat.ltb_spec (e_idx a) (e_idx b)); lia.
Qed.

(* ---- sorting --------------------------------------------------------------------------- *)
Lemma insert_by_perm {A} (less : A -> A -> bool) e l : Permutation (insert_by less e l) (e :: l).
Proof.
  induction l as [|x r IH]; cbn [insert_by]; [reflexivity|].
  destruct (less e x); [reflexivity|]. rewrite IH. apply perm_swap.
Qed.

Lemma go_sort_perm {A} (less : A -> A -> bool) l : Permutation (go_sort less l) l.
Proof.
  induction l as [|x r IH]; cbn [go_sort]; [reflexivity|].
  rewrite insert_by_perm. constructor. exact IH.
Qed.

Lemma insert_by_ltb_sorted e l : StronglySorted Z.le l -> StronglySorted Z.le (insert_by Z.ltb e l).
Proof.
  induction 1 as [|x r Hr IH Hx]; cbn [insert_by]; [repeat constructor|].
  destruct (Z.ltb_spec e x).
  - constructor; [constructor; assumption|]. constructor; [lia|].
    rewrite Forall_forall in *. intros z Hz. specialize (Hx z Hz). lia.
  - constructor; [exact IH|]. rewrite Forall_forall in *. intros z Hz.
    apply (Permutation_in _ (insert_by_perm Z.ltb e r)) in Hz. destruct Hz as [<-|Hz]; [lia|]. apply Hx. exact Hz.
Qed.

Lemma go_sort_ltb_sorted l : StronglySorted Z.le (go_sort Z.ltb l).
Proof. induction l as [|x r IH]; cbn [go_sort]; [constructor|]. apply insert_by_ltb_sorted. exact IH. Qed.

Lemma sorted_le_perm_unique l1 : forall l2,
  StronglySorted Z.le l1 -> StronglySorted Z.le l2 -> Permutation l1 l2 -> l1 = l2.
Proof.
  induction l1 as [|a t1 IH]; intros l2 H1 H2 P.
  - apply Permutation_nil in P. subst. reflexivity.
  - destruct l2 as [|b t2]; [apply Permutation_sym, Permutation_nil in P; discriminate|].
    inversion H1 as [|? ? Ht1 Ha]; inversion H2 as [|? ? Ht2 Hb]; subst.
    rewrite Forall_forall in Ha, Hb.
    assert (a = b) as ->.
    { assert (Ia : In a (b :: t2)) by (apply (Permutation_in _ P); left; reflexivity).
      assert (Ib : In b (a :: t1)) by (apply (Permutation_in _ (Permutation_sym P)); left; reflexivity).
      destruct Ia as [->|Ia]; [reflexivity|].
      destruct Ib as [->|Ib]; [reflexivity|].
      specialize (Ha _ Ib). specialize (Hb _ Ia). lia. }
    f_equal. apply IH; try assumption. apply Permutation_cons_inv in P. exact P.
Qed.

Lemma go_sort_unique zs l : Permutation zs l -> StronglySorted Z.le l -> go_sort Z.ltb zs = l.
Proof.
  intros P S. apply sorted_le_perm_unique; [apply go_sort_ltb_sorted|exact S|].
  rewrite go_sort_perm. exact P.
Qed.

Lemma asc_map_sorted ns : asc ns -> StronglySorted Z.le (map Z.of_nat ns).
Proof.
  unfold asc. induction 1 as [|n r Hr IH Hn]; cbn [map]; [constructor|].
  constructor; [exact IH|]. rewrite Forall_forall in *. intros z Hz. apply in_map_iff in Hz.
  destruct Hz as (m & <- & Hm). specialize (Hn m Hm). lia.
Qed.

Lemma go_sort_map {A B} (f : A -> B) (la : A -> A -> bool) (lb : B -> B -> bool) l :
  (forall x y, lb (f x) (f y) = la x y) ->
  go_sort lb (map f l) = map f (go_sort la l).
Proof.
  intros H. induction l as [|x r IH]; cbn [go_sort map]; [reflexivity|]. rewrite IH.
  generalize (go_sort la r) as s. induction s as [|y s IHs]; cbn [insert_by map]; [reflexivity|].
  rewrite H. destruct (la x y); cbn [map]; [reflexivity|]. f_equal. exact IHs.
Qed.

Lemma go_sort_is_sort_events l :
  go_sort event_less l = sort_events l.
Proof.
  induction l as [|x r IH]; cbn [go_sort sort_events]; [reflexivity|]. rewrite IH.
  generalize (sort_events r) as s. induction s as [|y s IHs]; cbn [insert_by insert_event]; [reflexivity|].
  destruct (event_less x y); [reflexivity|]. f_equal. exact IHs.
Qed.

(* ---- the key set ------------------------------------------------------------------------ *)
Definition keyset (zs : list Z) (ns : list nat) : Prop := Permutation zs (map Z.of_nat ns).

Lemma set_add_perm k l : ~ In k l -> Permutation (Regions.set_add k l) (k :: l).
Proof.
  induction l as [|z r IH]; intros Hn; cbn [Regions.set_add]; [reflexivity|].
  destruct (Nat.ltb_spec k z); [reflexivity|].
  destruct (Nat.eqb_spec k z) as [->|Hne]; [exfalso; apply Hn; left; reflexivity|].
  rewrite IH by (intros Hi; apply Hn; right; exact Hi). apply perm_swap.
Qed.

Lemma set_add_member k l : asc l -> In k l -> Regions.set_add k l = l.
Proof.
  intros Ha Hi. apply asc_ext; [apply set_add_asc; exact Ha|exact Ha|].
  intros z. rewrite set_add_In. intuition (subst; assumption).
Qed.

Lemma keyset_insert k zs ns : asc ns -> keyset zs ns ->
  keyset (set_insert (Z.of_nat k) zs) (Regions.set_add k ns).
Proof.
  unfold keyset, set_insert. intros Ha P.
  destruct (existsb (Z.eqb (Z.of_nat k)) zs) eqn:E.
  - apply existsb_exists in E. destruct E as (z & Hz & Ez). apply Z.eqb_eq in Ez. subst z.
    apply (Permutation_in _ P) in Hz. apply in_map_iff in Hz. destruct Hz as (m & Em & Hm).
    assert (m = k) by lia. subst m. rewrite set_add_member by assumption. exact P.
  - assert (Hn : ~ In k ns).
    { intros Hi. assert (In (Z.of_nat k) zs) as Hz.
      { apply (Permutation_in _ (Permutation_sym P)). apply in_map. exact Hi. }
      assert (existsb (Z.eqb (Z.of_nat k)) zs = true) as E'.
      { apply existsb_exists. exists (Z.of_nat k). split; [exact Hz|apply Z.eqb_refl]. }
      congruence. }
    rewrite (Permutation_map Z.of_nat (set_add_perm k ns Hn)). cbn [map].
    rewrite Permutation_app_comm. cbn [app]. constructor. exact P.
Qed.

Lemma keyset_delete k zs ns : keyset zs ns ->
  keyset (set_delete (Z.of_nat k) zs) (Regions.set_remove k ns).
Proof.
  unfold keyset, set_delete, Regions.set_remove. intros P.
  rewrite (filter_perm _ _ _ P). clear P zs.
  induction ns as [|n r IH]; cbn [map filter]; [reflexivity|].
  replace (Z.of_nat n =? Z.of_nat k) with (Nat.eqb n k) by (destruct (Nat.eqb_spec n k); lia).
  destruct (negb (Nat.eqb n k)); cbn [map]; [constructor|]; exact IH.
Qed.

(* ---- keys, cp ----------------------------------------------------------------------------- *)
Lemma imp_keys_sort m : imp_regions_keys m = Ret (go_sort Z.ltb m).
Proof.
  unfold imp_regions_keys.
  destruct (Z.eqb_spec (go_len m) 0) as [E|E].
  - destruct m; [reflexivity|]. unfold go_len in E. cbn [length] in E. lia.
  - unfold go_make. cbn [Z.ltb Z.compare Z.to_nat repeat]. cbv zeta.
    rewrite (go_range_elems m (fun k result => Next (result ++ [k]))).
    rewrite (go_iter_fold _ (fun result k => result ++ [k])) by (intros; reflexivity).
    cbn [after]. rewrite (fold_snoc_map (fun k => k) m []). rewrite map_id. reflexivity.
Qed.

Lemma imp_keys zs ns : asc ns -> keyset zs ns -> imp_regions_keys zs = Ret (map Z.of_nat ns).
Proof.
  intros Ha P. rewrite imp_keys_sort. f_equal. apply go_sort_unique; [exact P|apply asc_map_sorted; exact Ha].
Qed.

Lemma go_copy_fresh {A} (z : A) (a : list A) : go_copy (repeat z (length a)) a = a.
Proof.
  unfold go_copy. rewrite repeat_length, Nat.min_id, firstn_all, skipn_all2 by (rewrite repeat_length; lia).
  apply app_nil_r.
Qed.

Lemma imp_cp a : imp_regions_cp a = Ret a.
Proof.
  unfold imp_regions_cp. destruct a as [|x r]; [reflexivity|].
  unfold go_make, go_len. destruct (Z.ltb_spec (Z.of_nat (length (x :: r))) 0); [lia|].
  cbv zeta. rewrite Nat2Z.id, go_copy_fresh. reflexivity.
Qed.

(* ---- NewIndex: the loop that collects the events ---------------------------------------------- *)
Definition events_body (starts ends : list Z) : Z -> list imp_regions_event -> res (list imp_regions_event) imp_regions_Index :=
  (fun i events => go_index starts i (fun t__2 => go_index ends i (fun t__3 => (if (Z.leb t__3 t__2) then Next events else go_index starts i (fun t__4 => let events := (events ++ [(Imp_regions_event i t__4 true)]) in go_index ends i (fun t__5 => let events := (events ++ [(Imp_regions_event i t__5 false)]) in Next events)))))).

Lemma events_loop ss : forall es ps pe acc, length ps = length pe -> length ss = length es ->
  go_iter (events_body (ps ++ ss) (pe ++ es)) (zseq (Z.of_nat (length ps)) (length ss)) acc
  = Next (acc ++ map ev_of (events_from (length ps) ss es)).
Proof.
  induction ss as [|s ss IH]; intros es ps pe acc Hp Hl.
  - cbn. rewrite app_nil_r. reflexivity.
  - destruct es as [|e es]; [discriminate|]. injection Hl as Hl.
    cbn [length]. rewrite zseq_cons. cbn [go_iter events_from].
    unfold events_body at 1.
    rewrite !(go_index_mid ps s ss _ _ eq_refl).
    assert (Hpe : Z.of_nat (length ps) = go_len pe) by (unfold go_len; lia).
    rewrite !(go_index_mid pe e es _ _ Hpe).
    replace (ps ++ s :: ss) with ((ps ++ [s]) ++ ss) by (rewrite <- app_assoc; reflexivity).
    replace (pe ++ e :: es) with ((pe ++ [e]) ++ es) by (rewrite <- app_assoc; reflexivity).
    replace (Z.of_nat (length ps) + 1) with (Z.of_nat (length (ps ++ [s]))) by (rewrite app_length; cbn [length]; lia).
    rewrite Z.geb_leb. destruct (e <=? s).
    + rewrite IH by (rewrite ?app_length; cbn [length]; lia).
      rewrite app_length. cbn [length]. rewrite Nat.add_1_r. reflexivity.
    + cbv zeta. rewrite IH by (rewrite ?app_length; cbn [length]; lia).
      rewrite app_length. cbn [length]. rewrite Nat.add_1_r. cbn [map]. rewrite <- !app_assoc. reflexivity.
Qed.

(* ---- NewIndex: the sweep ------------------------------------------------------------------------ *)
Definition sweep_state : Type := (Z * list imp_regions_interval * list Z)%type.
Definition sweep_body : Z -> imp_regions_event -> sweep_state -> res sweep_state imp_regions_Index :=
  (fun i_2 e '(pos, intervals, idxs) => (if (Z.eqb i_2 (0)%Z) then let pos := (imp_regions_event_pos e) in (if (negb (Z.eqb (imp_regions_event_pos e) pos)) then go_call (imp_regions_keys idxs) (fun t__6 => let intervals := (intervals ++ [(Imp_regions_interval pos t__6)]) in let pos := (imp_regions_event_pos e) in (if (imp_regions_event_start e) then let idxs := (set_insert (imp_regions_event_idx e) idxs) in Next (pos, intervals, idxs) else let idxs := (set_delete (imp_regions_event_idx e) idxs) in Next (pos, intervals, idxs))) else (if (imp_regions_event_start e) then let idxs := (set_insert (imp_regions_event_idx e) idxs) in Next (pos, intervals, idxs) else let idxs := (set_delete (imp_regions_event_idx e) idxs) in Next (pos, intervals, idxs))) else (if (negb (Z.eqb (imp_regions_event_pos e) pos)) then go_call (imp_regions_keys idxs) (fun t__7 => let intervals := (intervals ++ [(Imp_regions_interval pos t__7)]) in let pos := (imp_regions_event_pos e) in (if (imp_regions_event_start e) then let idxs := (set_insert (imp_regions_event_idx e) idxs) in Next (pos, intervals, idxs) else let idxs := (set_delete (imp_regions_event_idx e) idxs) in Next (pos, intervals, idxs))) else (if (imp_regions_event_start e) then let idxs := (set_insert (imp_regions_event_idx e) idxs) in Next (pos, intervals, idxs) else let idxs := (set_delete (imp_regions_event_idx e) idxs) in Next (pos, intervals, idxs))))).

Definition sweep_end : sweep_state -> res unit imp_regions_Index :=
  (fun '(pos, intervals, idxs) => go_call (imp_regions_keys idxs) (fun t__8 => let intervals := (intervals ++ [(Imp_regions_interval pos t__8)]) in Ret ((Imp_regions_Index intervals)))).

Lemma sweep_loop evs : forall j pos ints zs ns, 0 <= j -> asc ns -> keyset zs ns ->
  after (go_iter (fun p => sweep_body (fst p) (snd p)) (combine (zseq j (length evs)) (map ev_of evs)) (pos, ints, zs)) sweep_end
  = Ret (Imp_regions_Index (ints ++ map iv_of (sweep evs (j =? 0) pos ns))).
Proof.
  induction evs as [|e r IH]; intros j pos ints zs ns Hj Ha Hk.
  - cbn [length zseq seq map combine go_iter after sweep sweep_end]. unfold sweep_end.
    rewrite (imp_keys zs ns Ha Hk). reflexivity.
  - cbn [length map]. rewrite zseq_cons. cbn [combine go_iter fst snd sweep].
    unfold sweep_body at 1.
    change (imp_regions_event_pos (ev_of e)) with (e_pos e).
    change (imp_regions_event_start (ev_of e)) with (e_start e).
    change (imp_regions_event_idx (ev_of e)) with (Z.of_nat (e_idx e)).
    assert (Hj1 : (j + 1 =? 0) = false) by lia.
    destruct (Z.eqb_spec j 0) as [E0|E0].
    + (* the first event: pos = e.pos *)
      rewrite Z.eqb_refl. cbn [negb].
      destruct (e_start e).
      * rewrite (IH _ _ _ _ (Regions.set_add (e_idx e) ns)) by (first [lia | apply set_add_asc; exact Ha | apply keyset_insert; assumption]).
        rewrite Hj1. reflexivity.
      * rewrite (IH _ _ _ _ (Regions.set_remove (e_idx e) ns)) by (first [lia | apply set_remove_asc; exact Ha | apply keyset_delete; assumption]).
        rewrite Hj1. reflexivity.
    + destruct (Z.eqb_spec (e_pos e) pos) as [Ep|Ep]; cbn [negb].
      * destruct (e_start e).
        -- rewrite (IH _ _ _ _ (Regions.set_add (e_idx e) ns)) by (first [lia | apply set_add_asc; exact Ha | apply keyset_insert; assumption]).
           rewrite Hj1. reflexivity.
        -- rewrite (IH _ _ _ _ (Regions.set_remove (e_idx e) ns)) by (first [lia | apply set_remove_asc; exact Ha | apply keyset_delete; assumption]).
           rewrite Hj1. reflexivity.
      * rewrite (imp_keys zs ns Ha Hk). cbn [go_call]. cbv zeta.
        destruct (e_start e).
        -- rewrite (IH _ _ _ _ (Regions.set_add (e_idx e) ns)) by (first [lia | apply set_add_asc; exact Ha | apply keyset_insert; assumption]).
           rewrite Hj1. cbn [map]. rewrite <- app_assoc. reflexivity.
        -- rewrite (IH _ _ _ _ (Regions.set_remove (e_idx e) ns)) by (first [lia | apply set_remove_asc; exact Ha | apply keyset_delete; assumption]).
           rewrite Hj1. cbn [map]. rewrite <- app_assoc. reflexivity.
Qed.

Theorem imp_NewIndex starts ends :
  imp_regions_NewIndex starts ends = of_outcome (omap index_of (new_index starts ends)).
Proof.
  unfold imp_regions_NewIndex, new_index.
  destruct (Nat.eqb_spec (length starts) (length ends)) as [El|El].
  - replace (go_len starts =? go_len ends) with true by (unfold go_len; lia). cbn [negb].
    unfold go_make. cbn [Z.ltb Z.compare Z.to_nat repeat]. cbv zeta.
    unfold go_range_int, go_len. rewrite Nat2Z.id.
    timeout 120 (change (go_iter _ (zseq 0 (length starts)) [])
      with (go_iter (events_body ([] ++ starts) ([] ++ ends)) (zseq (Z.of_nat (length (@nil Z))) (length starts)) [])).
    rewrite (events_loop starts ends [] [] [] eq_refl El). cbn [after app length].
    fold (events starts ends).
    rewrite (go_sort_map ev_of event_less) by (intros x y; rewrite imp_eventLess; destruct (event_less x y); reflexivity).
    rewrite go_sort_is_sort_events.
    unfold go_range, indexed. rewrite map_length.
    change (after (go_iter _ _ (0, [], [])) _)
      with (after (go_iter (fun p => sweep_body (fst p) (snd p))
                     (combine (zseq 0 (length (sort_events (events starts ends)))) (map ev_of (sort_events (events starts ends)))) (0, [], [])) sweep_end).
    rewrite (sweep_loop _ 0 0 [] [] []) by (first [lia | constructor]).
    reflexivity.
  - replace (go_len starts =? go_len ends) with false by (unfold go_len; lia). reflexivity.
Qed.

(* ---- Index.At ------------------------------------------------------------------------------------ *)
Definition at_pred (ix : index) (x : Z) : Z -> res unit bool :=
  (fun j => go_index (imp_regions_Index_idx (index_of ix)) j (fun t__1 => Ret (Z.ltb x (imp_regions_interval_start t__1)))).

Lemma search_loop_equiv ix x : forall fuel i j, (j - i < fuel)%nat -> (j <= length ix)%nat ->
  GoSem.search_loop fuel (at_pred ix x) (Z.of_nat i) (Z.of_nat j)
  = match Regions.search_loop fuel ix x i j with Ok a => Ret (Z.of_nat a) | _ => Panics end.
Proof.
  induction fuel as [|fuel IH]; intros i j Hf Hj; [lia|].
  cbn [GoSem.search_loop Regions.search_loop].
  destruct (Nat.ltb_spec i j) as [Hij|Hij].
  - replace (Z.of_nat i <? Z.of_nat j) with true by lia.
    pose proof (div2_bounds (i + j)) as Hh.
    replace (Z.shiftr (Z.of_nat i + Z.of_nat j) 1) with (Z.of_nat (Nat.div2 (i + j))).
    2:{ rewrite Z.shiftr_div_pow2 by lia. change (2 ^ 1) with 2. lia. }
    remember (Nat.div2 (i + j)) as h eqn:Eh. clear Eh.
    unfold at_pred at 1, go_index, index_of. cbn [imp_regions_Index_idx].
    destruct (Z.ltb_spec (Z.of_nat h) 0); [lia|]. rewrite Nat2Z.id, nth_error_map.
    unfold index, interval in *.
    destruct (nth_error ix h) as [iv|] eqn:Hn; cbn [option_map].
    + cbn [iv_of imp_regions_interval_start].
      replace (fst iv >? x) with (x <? fst iv) by lia.
      destruct (x <? fst iv); cbn [negb].
      * apply IH; lia.
      * replace (Z.of_nat h + 1) with (Z.of_nat (S h)) by lia. apply IH; lia.
    + reflexivity.
  - replace (Z.of_nat i <? Z.of_nat j) with false by lia. reflexivity.
Qed.

Theorem imp_Index_At ix x :
  imp_regions_Index_At (index_of ix) x = of_outcome (omap (map Z.of_nat) (at_ ix x)).
Proof.
  unfold imp_regions_Index_At, at_, search, go_sort_search.
  fold (at_pred ix x).
  unfold go_len, index_of at 1 2. cbn [imp_regions_Index_idx]. rewrite map_length, Nat2Z.id.
  change 0 with (Z.of_nat 0).
  rewrite (search_loop_equiv ix x (S (length ix)) 0 (length ix)) by lia.
  destruct (Regions.search_loop (S (length ix)) ix x 0 (length ix)) as [a| |]; cbn [go_call obind omap of_outcome]; try reflexivity.
  cbv zeta. destruct a as [|a'].
  - reflexivity.
  - replace (Z.of_nat (S a') =? Z.of_nat 0) with false by lia.
    replace (Z.of_nat (S a') - 1) with (Z.of_nat a') by lia.
    unfold go_index, index_of. cbn [imp_regions_Index_idx].
    destruct (Z.ltb_spec (Z.of_nat a') 0); [lia|]. rewrite Nat2Z.id, nth_error_map.
    unfold index, interval in *.
    destruct (nth_error ix a') as [iv|]; cbn [option_map omap of_outcome]; [|reflexivity].
    rewrite imp_cp. reflexivity.
Qed.
