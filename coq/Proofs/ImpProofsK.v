(* Proofs/ImpProofsK.v — translated source vs hand-written model, part 11: the FASTQ reader
   (fastq.go, reader.read): four Scan calls, the '@' and '+' checks, the length check, and
   the three kinds of ending (io.EOF before a record, io.ErrUnexpectedEOF inside one, a
   scanner error).  The *bufio.Scanner is the value GoSem.go_scanner. *)
From Coq Require Import ZifyBool ZifyNat ZifyN.
From Bio Require Import Base.
From Bio.gen Require Import ImpGen.
From Bio.Model Require Import GoSem.
From Bio.Model Require Fastq.
From Bio.Proofs Require Import ImpProofs ImpProofsB ImpProofsE.
Open Scope Z_scope.

Import Fastq.

Definition scan_code (t : term) : Z := match t with TEOF => 0 | TErr => 2 end.
Definition fq_rec (r : fastq) : imp_fastqrd_Fastq := Imp_fastqrd_Fastq (name r) (seq r) (quals r).
Definition fq_zero : imp_fastqrd_Fastq := Imp_fastqrd_Fastq [] [] [].

(* what the translated read() may return for each answer of the model *)
Definition fq_agrees (t : term) (m : read_result) (r : res unit (go_scanner * (imp_fastqrd_Fastq * Z))) : Prop :=
  match m with
  | RRec rc rest => exists cur, r = Ret (Scanner cur rest (scan_code t) false, (fq_rec rc, 0))
  | REof => exists s, r = Ret (s, (fq_zero, 1))
  | RErr => exists s e, r = Ret (s, (fq_zero, e)) /\ e <> 0 /\ e <> 1
  end.

Lemma has_plus_is_prefix l : is_prefix [43%N] l = has_plus_prefix l.
Proof. destruct l as [|c r]; [reflexivity|]. cbn [is_prefix has_plus_prefix]. rewrite andb_true_r. apply N.eqb_sym. Qed.

Theorem imp_fastq_read cur (toks : list bytes) t :
  fq_agrees t (read_one (toks, t)) (imp_fastqrd_reader_read (Scanner cur toks (scan_code t) false)).
Proof.
  unfold read_one, read_with, imp_fastqrd_reader_read, fq_agrees. cbn [fst snd].
  destruct toks as [|l1 toks1].
  - cbn [go_scan sc_toks sc_err sc_done go_scan_err negb after]. destruct t; cbn [scan_code Z.eqb after].
    + eexists. reflexivity.
    + eexists. exists 2. split; [reflexivity|lia].
  - cbn [go_scan sc_toks sc_err sc_done negb after sc_cur]. cbv zeta.
    destruct l1 as [|c nm].
    { cbn [go_len length Z.of_nat Z.eqb]. unfold go_orelse. cbn [after]. eexists. exists 2. split; [reflexivity|lia]. }
    unfold go_orelse. replace (go_len (c :: nm) =? 0) with false by (unfold go_len; cbn [length]; lia).
    rewrite (go_index_some (c :: nm) 0 c) by (first [lia | reflexivity]).
    unfold AT. destruct (c =? 64)%N; cbn [negb after].
    2:{ eexists. exists 2. split; [reflexivity|lia]. }
    unfold go_slice, go_len. cbn [length].
    replace ((1 <? 0) || (Z.of_nat (S (length nm)) <? 1) || (Z.of_nat (S (length nm)) <? Z.of_nat (S (length nm)))) with false by lia.
    replace (Z.to_nat (Z.of_nat (S (length nm)) - 1)) with (length nm) by lia.
    change (Z.to_nat 1) with 1%nat. cbn [skipn]. rewrite firstn_all.
    destruct toks1 as [|sq toks2].
    { cbn [go_scan sc_toks sc_err sc_done go_scan_err negb after]. destruct t; cbn [scan_code Z.eqb after].
      - eexists. exists 3. split; [reflexivity|lia].
      - eexists. exists 2. split; [reflexivity|lia]. }
    cbn [go_scan sc_toks sc_err sc_done negb after sc_cur].
    destruct toks2 as [|plus toks3].
    { cbn [go_scan sc_toks sc_err sc_done go_scan_err negb after]. destruct t; cbn [scan_code Z.eqb after].
      - eexists. exists 3. split; [reflexivity|lia].
      - eexists. exists 2. split; [reflexivity|lia]. }
    cbn [go_scan sc_toks sc_err sc_done negb after sc_cur]. rewrite has_plus_is_prefix.
    destruct (has_plus_prefix plus); cbn [negb after].
    2:{ eexists. exists 2. split; [reflexivity|lia]. }
    destruct toks3 as [|ql toks4].
    { cbn [go_scan sc_toks sc_err sc_done go_scan_err negb after]. destruct t; cbn [scan_code Z.eqb after].
      - eexists. exists 3. split; [reflexivity|lia].
      - eexists. exists 2. split; [reflexivity|lia]. }
    cbn [go_scan sc_toks sc_err sc_done negb after sc_cur].
    unfold go_len. replace (Z.of_nat (length ql) =? Z.of_nat (length sq)) with (Nat.eqb (length ql) (length sq))
      by (destruct (Nat.eqb_spec (length ql) (length sq)); lia).
    destruct (Nat.eqb (length ql) (length sq)); cbn [negb after].
    + eexists. reflexivity.
    + eexists. exists 2. split; [reflexivity|lia].
Qed.

(* ---- reader.iter: read() until it fails ----------------------------------------------------------- *)
From Bio.Proofs Require FastqProofsB.

Lemma read_with_cases {A} toks t (k_rec : fastq -> list bytes -> A) k_eof k_err :
  read_with toks t k_rec k_eof k_err
  = match read_one (toks, t) with RRec r rest => k_rec r rest | REof => k_eof | RErr => k_err end.
Proof.
  unfold read_one, read_with. cbn [fst snd].
  destruct toks as [|l1 toks1]; [destruct t; reflexivity|].
  destruct l1 as [|c nm]; [reflexivity|]. destruct (negb (c =? AT)%N); [reflexivity|].
  destruct toks1 as [|sq toks2]; [destruct t; reflexivity|].
  destruct toks2 as [|plus toks3]; [destruct t; reflexivity|].
  destruct (negb (has_plus_prefix plus)); [reflexivity|].
  destruct toks3 as [|ql toks4]; [destruct t; reflexivity|].
  destruct (negb (Nat.eqb (length ql) (length sq))); reflexivity.
Qed.

Lemma read_one_shorter toks t r rest : read_one (toks, t) = RRec r rest -> (length rest < length toks)%nat.
Proof.
  unfold read_one, read_with. cbn [fst snd].
  destruct toks as [|l1 toks1]; [destruct t; discriminate|].
  destruct l1 as [|c nm]; [discriminate|]. destruct (negb (c =? AT)%N); [discriminate|].
  destruct toks1 as [|sq toks2]; [destruct t; discriminate|].
  destruct toks2 as [|plus toks3]; [destruct t; discriminate|].
  destruct (negb (has_plus_prefix plus)); [discriminate|].
  destruct toks3 as [|ql toks4]; [destruct t; discriminate|].
  destruct (negb (Nat.eqb (length ql) (length sq))); [discriminate|].
  intros H. injection H as _ <-. cbn [length]. lia.
Qed.

Definition fqi_state : Type := (list (imp_fastqrd_Fastq * Z) * go_scanner)%type.
Definition fqi_body : fqi_state -> res fqi_state (go_scanner * list (imp_fastqrd_Fastq * Z)) :=
  (fun '(out__, rd__) => go_call (imp_fastqrd_reader_read rd__) (fun '(rd__, (t__1, t__2)) => let fq := t__1 in let err := t__2 in (if (negb (Z.eqb err 0%Z)) then after (if (negb (Z.eqb err 1%Z)) then (let out__ := out__ ++ [((Imp_fastqrd_Fastq [] [] []), err)] in let t__3 := true in Next out__) else Next out__) (fun out__ => Brk (out__, rd__)) else (let out__ := out__ ++ [(fq, 0%Z)] in let t__4 := true in (if (negb t__4) then Ret (rd__, out__) else Next (out__, rd__)))))).

Definition fq_item_ok (i : item fastq) (o : imp_fastqrd_Fastq * Z) : Prop :=
  match i with
  | Rec r => o = (fq_rec r, 0)
  | ErrItem => fst o = fq_zero /\ snd o <> 0 /\ snd o <> 1
  end.

Lemma fqi_loop t : forall n (toks : list bytes) cur fw out, (length toks <= n)%nat -> (n + 1 < fw)%nat ->
  exists s' out', go_while fw (fun _ => Ret true) fqi_body (out, Scanner cur toks (scan_code t) false)
                  = Next (out ++ out', s')
    /\ Forall2 fq_item_ok (decode_toks t toks) out'.
Proof.
  induction n as [|n IH]; intros toks cur fw out Hn Hw;
    (destruct fw as [|fw]; [lia|]); cbn [go_while]; unfold fqi_body at 1; cbv beta iota;
    rewrite FastqProofsB.decode_toks_eq, read_with_cases;
    pose proof (imp_fastq_read cur toks t) as Hr;
    destruct (read_one (toks, t)) as [r rest| |] eqn:R; cbn [fq_agrees] in Hr.
  - apply read_one_shorter in R. lia.
  - destruct Hr as (s & ->). cbn [go_call]. cbv beta iota zeta. cbn [Z.eqb Pos.eqb negb after].
    exists s, []. split; [rewrite app_nil_r; reflexivity|constructor].
  - destruct Hr as (s & e & -> & He0 & He1). cbn [go_call]. cbv beta iota zeta.
    replace (e =? 0) with false by lia. replace (e =? 1) with false by lia. cbn [negb after].
    exists s, [(fq_zero, e)]. split; [reflexivity|]. constructor; [|constructor]. cbn. auto.
  - destruct Hr as (cur' & ->). cbn [go_call]. cbv beta iota zeta. cbn [Z.eqb negb].
    pose proof (read_one_shorter _ _ _ _ R) as Hs.
    destruct (IH rest cur' fw (out ++ [(fq_rec r, 0)])) as (s' & out' & Hl & Hf); [lia|lia|].
    rewrite Hl. exists s', ((fq_rec r, 0) :: out'). split; [rewrite <- app_assoc; reflexivity|].
    constructor; [reflexivity|exact Hf].
  - destruct Hr as (s & ->). cbn [go_call]. cbv beta iota zeta. cbn [Z.eqb Pos.eqb negb after].
    exists s, []. split; [rewrite app_nil_r; reflexivity|constructor].
  - destruct Hr as (s & e & -> & He0 & He1). cbn [go_call]. cbv beta iota zeta.
    replace (e =? 0) with false by lia. replace (e =? 1) with false by lia. cbn [negb after].
    exists s, [(fq_zero, e)]. split; [reflexivity|]. constructor; [|constructor]. cbn. auto.
Qed.

Theorem imp_fastq_iter fuel cur (toks : list bytes) t : (length toks + 1 < fuel)%nat ->
  exists s' out, imp_fastqrd_reader_iter fuel (Scanner cur toks (scan_code t) false) = Ret (s', out)
    /\ Forall2 fq_item_ok (decode_toks t toks) out.
Proof.
  intros Hf. unfold imp_fastqrd_reader_iter. cbv zeta.
  timeout 120 (change (go_while fuel _ _ ([], ?s)) with (go_while fuel (fun _ => Ret true) fqi_body ([], s))).
  destruct (fqi_loop t (length toks) toks cur fuel [] (le_n _) Hf) as (s' & out' & Hl & Hfa).
  rewrite Hl. cbn [after app]. exists s', out'. split; [reflexivity|exact Hfa].
Qed.

(* ---- Reader(r): forwards the items of newReader(r).iter() --------------------------------------------- *)
Lemma copy_loop_sc {A R} (items : list A) : forall j (out : list A) (rd : go_scanner),
  go_iter (R := R) (fun p => (fun _ (x : A) '(out__, rd__) => (let out__ := out__ ++ [x] in let t__2 := true in (if (negb t__2) then Brk (out__, rd__) else Next (out__, rd__)))) (fst p) (snd p))
    (combine (zseq j (length items)) items) (out, rd)
  = Next (out ++ items, rd).
Proof.
  induction items as [|x items IH]; intros j out rd; cbn [length].
  - cbn. rewrite app_nil_r. reflexivity.
  - rewrite ImpProofsB.zseq_cons. cbn [combine go_iter fst snd negb]. rewrite IH, <- app_assoc. reflexivity.
Qed.

Theorem imp_fastq_Reader fuel cur (toks : list bytes) t : (length toks + 1 < fuel)%nat ->
  exists s' out, imp_fastqrd_Reader fuel (Scanner cur toks (scan_code t) false) = Ret (s', out)
    /\ Forall2 fq_item_ok (decode_toks t toks) out.
Proof.
  intros Hf. unfold imp_fastqrd_Reader. cbv zeta.
  destruct (imp_fastq_iter fuel cur toks t Hf) as (s' & out & Hi & Hfa). rewrite Hi. cbn [go_call].
  exists s', out. split; [|exact Hfa].
  unfold go_range, indexed.
  match goal with |- context [go_iter ?f ?l ?s] =>
    replace (go_iter f l s) with (Next (R := go_scanner * list (imp_fastqrd_Fastq * Z)) ([] ++ out, s')) end.
  - reflexivity.
  - symmetry. etransitivity; [|apply (copy_loop_sc out 0 [] s')].
    apply ImpProofs.go_iter_ext. intros [j [fa e]] [o r] _. reflexivity.
Qed.
