(* Proofs/ImpProofsK.v — translated source vs hand-written model, part 11: the FASTQ reader
   (fastq.go, reader.read): four Scan calls, the '@' and '+' checks, the length check, and
   the three kinds of ending (io.EOF before a record, io.ErrUnexpectedEOF inside one, a
   scanner error).  The *bufio.Scanner is the value GoSem.go_scanner. *)
From Coq Require Import ZifyBool ZifyNat ZifyN.
From Bio Require Import Base.
From Bio.gen Require Import ImpGen.
From Bio.Model Require Import GoSem.
From Bio.Model Require Fastq.
From Bio.Proofs Require Import ImpProofs ImpProofsB ImpProofsE.
Open Scope Z_scope.

Import Fastq.

Definition scan_code (t : term) : Z := match t with TEOF => 0 | TErr => 2 end.
Definition fq_rec (r : fastq) : imp_fastqrd_Fastq := Imp_fastqrd_Fastq (name r) (seq r) (quals r).
Definition fq_zero : imp_fastqrd_Fastq := Imp_fastqrd_Fastq [] [] [].

(* what the translated read() may return for each answer of the model *)
Definition fq_agrees (t : term) (m : read_result) (r : res unit (go_scanner * (imp_fastqrd_Fastq * Z))) : Prop :=
  match m with
  | RRec rc rest => exists cur, r = Ret (Scanner cur rest (scan_code t) false, (fq_rec rc, 0))
  | REof => exists s, r = Ret (s, (fq_zero, 1))
  | RErr => exists s e, r = Ret (s, (fq_zero, e)) /\ e <> 0 /\ e <> 1
  end.

Lemma has_plus_is_prefix l : is_prefix [43%N] l = has_plus_prefix l.
Proof. destruct l as [|c r]; [reflexivity|]. cbn [is_prefix has_plus_prefix]. rewrite andb_true_r. apply N.eqb_sym. Qed.

Theorem imp_fastq_read cur toks t :
  fq_agrees t (read_one (toks, t)) (imp_fastqrd_reader_read (Scanner cur toks (scan_code t) false)).
Proof.
  unfold read_one, read_with, imp_fastqrd_reader_read, fq_agrees. cbn [fst snd].
  destruct toks as [|l1 toks1].
  - cbn [go_scan sc_toks sc_err sc_done go_scan_err negb after]. destruct t; cbn [scan_code Z.eqb after].
    + eexists. reflexivity.
    + eexists. exists 2. split; [reflexivity|lia].
  - cbn [go_scan sc_toks sc_err sc_done negb after sc_cur]. cbv zeta.
    destruct l1 as [|c nm].
    { cbn [go_len length Z.of_nat Z.eqb]. unfold go_orelse. cbn [after]. eexists. exists 2. split; [reflexivity|lia]. }
    unfold go_orelse. replace (go_len (c :: nm) =? 0) with false by (unfold go_len; cbn [length]; lia).
    rewrite (go_index_some (c :: nm) 0 c) by (first [lia | reflexivity]).
    unfold AT. destruct (c =? 64)%N; cbn [negb after].
    2:{ eexists. exists 2. split; [reflexivity|lia]. }
    unfold go_slice, go_len. cbn [length].
    replace ((1 <? 0) || (Z.of_nat (S (length nm)) <? 1) || (Z.of_nat (S (length nm)) <? Z.of_nat (S (length nm)))) with false by lia.
    replace (Z.to_nat (Z.of_nat (S (length nm)) - 1)) with (length nm) by lia.
    change (Z.to_nat 1) with 1%nat. cbn [skipn]. rewrite firstn_all.
    destruct toks1 as [|sq toks2].
    { cbn [go_scan sc_toks sc_err sc_done go_scan_err negb after]. destruct t; cbn [scan_code Z.eqb after].
      - eexists. exists 3. split; [reflexivity|lia].
      - eexists. exists 2. split; [reflexivity|lia]. }
    cbn [go_scan sc_toks sc_err sc_done negb after sc_cur].
    destruct toks2 as [|plus toks3].
    { cbn [go_scan sc_toks sc_err sc_done go_scan_err negb after]. destruct t; cbn [scan_code Z.eqb after].
      - eexists. exists 3. split; [reflexivity|lia].
      - eexists. exists 2. split; [reflexivity|lia]. }
    cbn [go_scan sc_toks sc_err sc_done negb after sc_cur]. rewrite has_plus_is_prefix.
    destruct (has_plus_prefix plus); cbn [negb after].
    2:{ eexists. exists 2. split; [reflexivity|lia]. }
    destruct toks3 as [|ql toks4].
    { cbn [go_scan sc_toks sc_err sc_done go_scan_err negb after]. destruct t; cbn [scan_code Z.eqb after].
      - eexists. exists 3. split; [reflexivity|lia].
      - eexists. exists 2. split; [reflexivity|lia]. }
    cbn [go_scan sc_toks sc_err sc_done negb after sc_cur].
    unfold go_len. replace (Z.of_nat (length ql) =? Z.of_nat (length sq)) with (Nat.eqb (length ql) (length sq))
      by (destruct (Nat.eqb_spec (length ql) (length sq)); lia).
    destruct (Nat.eqb (length ql) (length sq)); cbn [negb after].
    + eexists. reflexivity.
    + eexists. exists 2. split; [reflexivity|lia].
Qed.
