(* Proofs/FastqProofsB.v *)
From Bio Require Import Base.
