(* Proofs/FastqProofsB.v — the reader on written records: round trip, and
   "preceding records are delivered intact" for any continuation. *)
From Bio Require Import Base.
From Bio.Model Require Import Fastq.
From Bio.Spec Require Import FastqSpec.
From Bio.Proofs Require Import FastqProofs.

Lemma decode_toks_eq : forall t toks,
  decode_toks t toks
  = read_with toks t (fun r rest => Rec r :: decode_toks t rest) [] [ErrItem].
Proof. intros t toks. destruct toks; reflexivity. Qed.

Lemma decode_toks_nil : forall t,
  decode_toks t [] = match t with TEOF => [] | TErr => [ErrItem] end.
Proof. intros t. reflexivity. Qed.

(* four well-formed tokens are one record, whatever the terminal condition *)
Lemma decode_toks_record : forall t nm sq x ql rest,
  length ql = length sq ->
  decode_toks t ((AT :: nm) :: sq :: (PLUS :: x) :: ql :: rest)
  = Rec {| name := nm; seq := sq; quals := ql |} :: decode_toks t rest.
Proof.
  intros t nm sq x ql rest H. rewrite decode_toks_eq. unfold read_with.
  unfold has_plus_prefix. rewrite !N.eqb_refl. cbn [negb].
  match goal with |- context [Nat.eqb ?a ?b] =>
    replace (Nat.eqb a b) with true by (symmetry; apply Nat.eqb_eq; exact H) end.
  cbn [negb]. reflexivity.
Qed.

Lemma fastq_eta : forall r, {| name := name r; seq := seq r; quals := quals r |} = r.
Proof. intros []. reflexivity. Qed.

(* one written record in front of anything *)
Lemma decode_write_app : forall t r rest, fq_ok r ->
  decode (write r ++ rest) t = Rec r :: decode rest t.
Proof.
  intros t r rest H. unfold decode. rewrite scan_tokens_write by exact H.
  rewrite decode_toks_record. rewrite fastq_eta. reflexivity.
  destruct H as (_ & _ & _ & E). symmetry. exact E.
Qed.

(* Preceding valid records are delivered intact, whatever follows them and
   however the stream ends. *)
Lemma decode_prefix : forall t pre c, Forall fq_ok pre ->
  decode (concat (map write pre) ++ c) t = map Rec pre ++ decode c t.
Proof.
  intros t pre c H. induction H as [|r pre Hr Hpre IH].
  - reflexivity.
  - cbn [map concat]. rewrite <- app_assoc. rewrite decode_write_app by exact Hr.
    rewrite IH. reflexivity.
Qed.

Lemma decode_nil : forall t, decode [] t = match t with TEOF => [] | TErr => [ErrItem] end.
Proof. intros t. reflexivity. Qed.

(* C02, first half: any list of records in the domain, written and read back,
   yields exactly the same records in order; no hypothesis on lengths. *)
Lemma roundtrip : forall rs, Forall fq_ok rs ->
  decode (concat (map write rs)) TEOF = map Rec rs.
Proof.
  intros rs H. rewrite <- (app_nil_r (concat (map write rs))).
  rewrite decode_prefix by exact H. rewrite decode_nil. apply app_nil_r.
Qed.

(* the same through MarshalText *)
Lemma roundtrip_marshal : forall rs bs, Forall fq_ok rs ->
  Forall2 (fun r b => marshal_text r = Ok b) rs bs ->
  decode (concat bs) TEOF = map Rec rs.
Proof.
  intros rs bs H F. assert (E : bs = map write rs).
  { clear H. induction F as [|r b rs bs Hrb F IH]. reflexivity.
    cbn [map]. rewrite marshal_total in Hrb. injection Hrb as <-. rewrite IH. reflexivity. }
  subst bs. apply roundtrip. exact H.
Qed.

(* a stream that fails after complete records: the records, then the error *)
Lemma roundtrip_then_error : forall rs, Forall fq_ok rs ->
  decode (concat (map write rs)) TErr = map Rec rs ++ [ErrItem].
Proof.
  intros rs H. rewrite <- (app_nil_r (concat (map write rs))).
  rewrite decode_prefix by exact H. rewrite decode_nil. reflexivity.
Qed.

(* For every input and terminal condition: the items are records (each with
   qualities as long as its sequence) followed by at most one error item, which
   is the last; a stream that ends with an error always ends with an error item. *)
Lemma decode_toks_shape_n : forall t n toks, (length toks <= n)%nat ->
  exists rs, Forall (fun r => length (quals r) = length (seq r)) rs
    /\ (decode_toks t toks = map Rec rs ++ [ErrItem]
        \/ (t = TEOF /\ decode_toks t toks = map Rec rs)).
Proof.
  intros t n. induction n as [|n IH]; intros toks Hn.
  - destruct toks; [|cbn [length] in Hn; lia]. exists []. split. constructor.
    destruct t. right. split; reflexivity. left. reflexivity.
  - assert (Eerr : exists rs : list fastq, Forall (fun r => length (quals r) = length (seq r)) rs
        /\ ([ErrItem] = map Rec rs ++ [@ErrItem fastq] \/ (t = TEOF /\ [ErrItem] = map Rec rs))).
    { exists []. split. constructor. left. reflexivity. }
    rewrite decode_toks_eq. unfold read_with.
    destruct toks as [|t1 toks1].
    { exists []. split. constructor. destruct t. right. split; reflexivity. left. reflexivity. }
    destruct t1 as [|c nm]. exact Eerr.
    destruct (negb (c =? AT)). exact Eerr.
    destruct toks1 as [|t2 toks2]. destruct t; exact Eerr.
    destruct toks2 as [|t3 toks3]. destruct t; exact Eerr.
    destruct (negb (has_plus_prefix t3)). exact Eerr.
    destruct toks3 as [|t4 toks4]. destruct t; exact Eerr.
    destruct (Nat.eqb_spec (length t4) (length t2)) as [E|E]; cbn [negb]. 2: exact Eerr.
    destruct (IH toks4) as (rs & Hrs & Hd). { cbn [length] in Hn. lia. }
    exists ({| name := nm; seq := t2; quals := t4 |} :: rs). split.
    + constructor. exact E. exact Hrs.
    + destruct Hd as [Hd|[Ht Hd]]; rewrite Hd.
      * left. reflexivity.
      * right. split. exact Ht. reflexivity.
Qed.

Lemma decode_shape : forall s t,
  exists rs, Forall (fun r => length (quals r) = length (seq r)) rs
    /\ (decode s t = map Rec rs ++ [ErrItem]
        \/ (t = TEOF /\ decode s t = map Rec rs)).
Proof. intros s t. unfold decode. apply (decode_toks_shape_n t (length (scan_tokens s))). lia. Qed.
