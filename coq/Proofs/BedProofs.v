(* Proofs/BedProofs.v — facts about the Base.v vocabulary needed by the BED
   round trip: itoa/atoi are inverse on int64, the bytes itoa emits, split_on
   inverts join_with, and ParseUint(_,0,8) on the decimal text of a byte. *)
From Coq Require Import DecimalZ DecimalPos.
From Bio Require Import Base.
From Bio.Model Require Import Bed.

(* ------------------------------------------------------------------ *)
(* [nob x s]: byte x does not occur in s                                *)
Definition nob (x : byte) (s : bytes) : Prop := Forall (fun c => (c =? x) = false) s.

Lemma nob_app x a b : nob x a -> nob x b -> nob x (a ++ b).
Proof. intros; apply Forall_app; split; assumption. Qed.

Lemma nob_cons x c s : (c =? x) = false -> nob x s -> nob x (c :: s).
Proof. intros; constructor; assumption. Qed.

Lemma nob_nil x : nob x [].
Proof. constructor. Qed.

Lemma clean_nob bad s x : clean bad s -> memb x bad = true -> nob x s.
Proof.
  intros Hc Hm. unfold clean in Hc. unfold nob.
  eapply Forall_impl; [| exact Hc]. intros c Hcb. cbv beta in Hcb.
  destruct (c =? x) eqn:E; [| reflexivity].
  apply N.eqb_eq in E. subst c. rewrite Hm in Hcb. discriminate.
Qed.

(* ------------------------------------------------------------------ *)
(* itoa / atoi                                                          *)
Definition numch (c : byte) : Prop := c = 45 \/ (48 <= c /\ c <= 57).

Lemma uint_bytes_digits u : Forall (fun c => 48 <= c /\ c <= 57) (uint_bytes u).
Proof. induction u; cbn [uint_bytes]; constructor; try assumption; lia. Qed.

Lemma itoa_numch z : Forall numch (itoa z).
Proof.
  unfold itoa. destruct (Z.to_int z) as [u|u].
  - eapply Forall_impl; [| apply uint_bytes_digits]. intros c H; right; exact H.
  - constructor. { left; reflexivity. }
    eapply Forall_impl; [| apply uint_bytes_digits]. intros c H; right; exact H.
Qed.

Lemma itoa_nob x z : x <> 45 -> (x < 48 \/ 57 < x) -> nob x (itoa z).
Proof.
  intros H1 H2. eapply Forall_impl; [| apply itoa_numch].
  intros c [Hc|Hc]; apply N.eqb_neq; lia.
Qed.

Lemma bytes_uint_uint_bytes u : bytes_uint (uint_bytes u) = Some u.
Proof. induction u; cbn [uint_bytes bytes_uint]; [reflexivity | rewrite IHu; reflexivity ..]. Qed.

Lemma uint_bytes_nonnil u : u <> Decimal.Nil -> uint_bytes u <> [].
Proof. destruct u; cbn [uint_bytes]; congruence. Qed.

Lemma parse_digits_uint_bytes u : u <> Decimal.Nil ->
  parse_digits (uint_bytes u) = Some (Z.of_uint u).
Proof.
  intros H. unfold parse_digits. rewrite bytes_uint_uint_bytes.
  destruct (uint_bytes u) eqn:E; [| reflexivity].
  exfalso. exact (uint_bytes_nonnil u H E).
Qed.

(* the unsigned branch of atoi is taken for a digit string *)
Lemma atoi_unsigned u z : u <> Decimal.Nil -> Z.of_uint u = z -> int64 z ->
  atoi (uint_bytes u) = Some z.
Proof.
  intros Hn Hz Hr.
  assert (Hb : int64b z = true).
  { unfold int64b. unfold int64 in Hr. apply andb_true_intro; split;
    [apply Z.leb_le | apply Z.ltb_lt]; lia. }
  pose proof (parse_digits_uint_bytes u Hn) as Hp.
  unfold atoi.
  destruct u; try congruence; cbn [uint_bytes] in *; rewrite Hp, Hz, Hb; reflexivity.
Qed.

Lemma to_int_nonnil_pos p : Pos.to_uint p <> Decimal.Nil.
Proof. apply Unsigned.to_uint_nonnil. Qed.

Lemma atoi_itoa z : int64 z -> atoi (itoa z) = Some z.
Proof.
  intros Hr. pose proof (DecimalZ.of_to z) as Hot.
  unfold itoa. destruct z as [|p|p]; cbn [Z.to_int] in *.
  - apply atoi_unsigned; [discriminate | reflexivity | exact Hr].
  - apply atoi_unsigned; [apply to_int_nonnil_pos | exact Hot | exact Hr].
  - cbn [Z.of_int] in Hot.
    assert (Hb : int64b (Z.neg p) = true).
    { unfold int64b. unfold int64 in Hr. apply andb_true_intro; split;
      [apply Z.leb_le | apply Z.ltb_lt]; lia. }
    unfold atoi. rewrite parse_digits_uint_bytes by apply to_int_nonnil_pos.
    cbn [option_map]. rewrite Hot, Hb. reflexivity.
Qed.

Lemma itoa_nonnil z : itoa z <> [].
Proof.
  unfold itoa. destruct z as [|p|p]; cbn [Z.to_int].
  - discriminate.
  - apply uint_bytes_nonnil, to_int_nonnil_pos.
  - discriminate.
Qed.

Lemma opt_atoi_itoa z : int64 z -> opt_atoi (itoa z) = Some z.
Proof.
  intros H. unfold opt_atoi. destruct (itoa z) eqn:E.
  - exfalso. exact (itoa_nonnil z E).
  - rewrite <- E. apply atoi_itoa, H.
Qed.

(* ------------------------------------------------------------------ *)
(* split_on / join_with                                                 *)
Lemma split_on_free sep f : nob sep f -> split_on sep f = [f].
Proof.
  induction f as [|c f IH]; intros H; [reflexivity|].
  inversion H as [|? ? Hc Hf]; subst. cbn [split_on]. rewrite Hc, (IH Hf). reflexivity.
Qed.

Lemma split_on_app sep f rest : nob sep f ->
  split_on sep (f ++ sep :: rest) = f :: split_on sep rest.
Proof.
  induction f as [|c f IH]; intros H.
  - cbn [app split_on]. rewrite N.eqb_refl. reflexivity.
  - inversion H as [|? ? Hc Hf]; subst. cbn [app split_on]. rewrite Hc, (IH Hf). reflexivity.
Qed.

Lemma join_with_cons2 sep x y r :
  join_with sep (x :: y :: r) = x ++ sep ++ join_with sep (y :: r).
Proof. reflexivity. Qed.

Lemma split_join sep l : l <> [] -> Forall (nob sep) l ->
  split_on sep (join_with [sep] l) = l.
Proof.
  induction l as [|x l IH]; intros Hne Hl; [congruence|].
  inversion Hl as [|? ? Hx Hr]; subst.
  destruct l as [|y r].
  - cbn [join_with]. apply split_on_free, Hx.
  - rewrite join_with_cons2. cbn [app]. rewrite split_on_app by exact Hx.
    rewrite IH; [reflexivity | discriminate | exact Hr].
Qed.

Lemma nob_join x sep l : nob x sep -> Forall (nob x) l -> nob x (join_with sep l).
Proof.
  intros Hs. induction l as [|a l IH]; intros Hl; [apply nob_nil|].
  inversion Hl as [|? ? Ha Hr]; subst.
  destruct l as [|b r]; [exact Ha|].
  rewrite join_with_cons2. apply nob_app; [exact Ha|]. apply nob_app; [exact Hs|]. apply IH, Hr.
Qed.

Lemma join_nonnil sep x l : x <> [] -> join_with sep (x :: l) <> [].
Proof.
  intros Hx. destruct l as [|y r]; [exact Hx|].
  rewrite join_with_cons2. destruct x; [congruence | discriminate].
Qed.

(* ------------------------------------------------------------------ *)
(* block lists                                                          *)
Definition ints_text (l : list Z) : bytes := join_with [COMMA] (map itoa l).

Lemma atoi_all_itoa l : Forall int64 l -> atoi_all (map itoa l) = Some l.
Proof.
  induction 1 as [|z l Hz Hl IH]; [reflexivity|].
  cbn [map atoi_all]. rewrite (atoi_itoa z Hz), IH. reflexivity.
Qed.

Lemma itoa_no_comma z : nob COMMA (itoa z).
Proof. apply itoa_nob; unfold COMMA; lia. Qed.

Lemma parse_ints_text l : Forall int64 l -> parse_ints (ints_text l) = Some l.
Proof.
  intros H. destruct l as [|z l]; [reflexivity|].
  unfold parse_ints, ints_text.
  destruct (join_with [COMMA] (map itoa (z :: l))) eqn:E.
  - exfalso. cbn [map] in E. exact (join_nonnil _ _ _ (itoa_nonnil z) E).
  - rewrite <- E. rewrite split_join.
    + apply atoi_all_itoa, H.
    + discriminate.
    + apply Forall_forall. intros s Hs. apply in_map_iff in Hs. destruct Hs as [w [<- _]].
      apply itoa_no_comma.
Qed.

Lemma ints_text_nob x l : x <> 45 -> x <> COMMA -> (x < 48 \/ 57 < x) -> nob x (ints_text l).
Proof.
  intros H1 H2 H3. apply nob_join.
  - apply nob_cons; [apply N.eqb_neq; congruence | apply nob_nil].
  - apply Forall_forall. intros s Hs. apply in_map_iff in Hs. destruct Hs as [w [<- _]].
    apply itoa_nob; assumption.
Qed.

Lemma concat_list_calls_rest l :
  concat (list_calls_rest l) = concat (map (fun x => COMMA :: itoa x) l).
Proof. induction l as [|x l IH]; [reflexivity|]. cbn [list_calls_rest map concat]. rewrite IH. reflexivity. Qed.

Lemma concat_list_calls l : concat (list_calls l) = ints_text l.
Proof.
  unfold ints_text. destruct l as [|x l]; [reflexivity|].
  cbn [list_calls concat map]. revert x.
  induction l as [|y l IH]; intros x.
  - cbn [list_calls_rest concat join_with]. apply app_nil_r.
  - cbn [list_calls_rest concat map]. rewrite join_with_cons2. cbn [app].
    rewrite <- (IH y). reflexivity.
Qed.

(* ------------------------------------------------------------------ *)
(* ParseUint(s, 0, 8) on the decimal text of a byte: all 256 values     *)
Definition bytes256 : list N := map N.of_nat (seq 0 (N.to_nat 256)).

Lemma parse_uint8_sweep :
  forallb (fun n => match parse_uint8 (fmt_byte n) with Some m => m =? n | None => false end)
          bytes256 = true.
Proof. vm_compute. reflexivity. Qed.

Lemma parse_uint8_fmt_byte n : n < 256 -> parse_uint8 (fmt_byte n) = Some n.
Proof.
  intros H. pose proof parse_uint8_sweep as S. rewrite forallb_forall in S.
  assert (Hin : In n bytes256).
  { unfold bytes256. apply in_map_iff. exists (N.to_nat n). split; [apply N2Nat.id|].
    apply in_seq. lia. }
  specialize (S n Hin). destruct (parse_uint8 (fmt_byte n)) as [m|]; [|discriminate].
  apply N.eqb_eq in S. congruence.
Qed.

Lemma fmt_byte_nob x n : x <> 45 -> (x < 48 \/ 57 < x) -> nob x (fmt_byte n).
Proof. intros; apply itoa_nob; assumption. Qed.

Lemma rgb_text_nob x c : x <> 45 -> x <> COMMA -> (x < 48 \/ 57 < x) -> nob x (rgb_text c).
Proof.
  intros H1 H2 H3. destruct c as [[r g] b]. unfold rgb_text.
  apply nob_app; [apply fmt_byte_nob; assumption|].
  apply nob_cons; [apply N.eqb_neq; congruence|].
  apply nob_app; [apply fmt_byte_nob; assumption|].
  apply nob_cons; [apply N.eqb_neq; congruence|].
  apply fmt_byte_nob; assumption.
Qed.

Lemma parse_rgb_text r g b : r < 256 -> g < 256 -> b < 256 ->
  parse_rgb (rgb_text (r, g, b)) = Some (r, g, b).
Proof.
  intros Hr Hg Hb. unfold parse_rgb.
  destruct (rgb_text (r, g, b)) eqn:E.
  - exfalso. unfold rgb_text in E. destruct (fmt_byte r) eqn:F.
    + exact (itoa_nonnil _ F).
    + discriminate.
  - rewrite <- E. unfold rgb_text.
    assert (Hc : forall n, nob COMMA (fmt_byte n)) by (intros; apply itoa_no_comma).
    rewrite split_on_app by apply Hc. rewrite split_on_app by apply Hc.
    rewrite split_on_free by apply Hc.
    rewrite !parse_uint8_fmt_byte by assumption. reflexivity.
Qed.
