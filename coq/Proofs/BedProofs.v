(* Proofs/BedProofs.v *)
From Bio Require Import Base.
