(* Proofs/AlignProofs.v — the pure layer of the alignment proofs.
   [pcell]: the naive doubly-recursive DP cell on reversed prefixes, on which the
   inductions are done; the row-based executable table of Model/Align.v equals
   it (memoisation correctness); indexing of the flat block list. *)
From Bio Require Import Base.
From Bio.Model Require Import Align.
From Bio.Spec Require Import AlignSpec.
Open Scope Z_scope.

Definition is_nil {A} (l : list A) : bool := match l with [] => true | _ => false end.

Section Pure.
Variable w : byte -> byte -> Z.          (* total weights *)
Variable clamp : cell -> cell.

Definition opn (c : bool) : Z := if c then w Gap Gap else 0.

(* cell (i, j) as a function of the reversed prefixes a[0..i), b[0..j) *)
Fixpoint pcell (ra : bytes) : bytes -> cell :=
  fix inner (rb : bytes) : cell :=
  match ra, rb with
  | [], [] => (0, SNone)
  | [], y :: rb' => clamp (fst (inner rb') + w Gap y + opn (is_nil rb'), SIns)
  | x :: ra', [] => clamp (fst (pcell ra' []) + w x Gap + opn (is_nil ra'), SDel)
  | x :: ra', y :: rb' =>
    clamp (decide (fst (pcell ra' rb') + w x y)
                  (fst (pcell ra' rb) + w x Gap + opn (negb (is_del (snd (pcell ra' rb)))))
                  (fst (inner rb') + w Gap y + opn (negb (is_ins (snd (inner rb'))))))
  end.

Lemma pcell_nil_nil : pcell [] [] = (0, SNone).
Proof. reflexivity. Qed.
Lemma pcell_nil_cons : forall y rb,
  pcell [] (y :: rb) = clamp (fst (pcell [] rb) + w Gap y + opn (is_nil rb), SIns).
Proof. reflexivity. Qed.
Lemma pcell_cons_nil : forall x ra,
  pcell (x :: ra) [] = clamp (fst (pcell ra []) + w x Gap + opn (is_nil ra), SDel).
Proof. reflexivity. Qed.
Lemma pcell_cons_cons : forall x ra y rb,
  pcell (x :: ra) (y :: rb) =
  clamp (decide (fst (pcell ra rb) + w x y)
                (fst (pcell ra (y :: rb)) + w x Gap + opn (negb (is_del (snd (pcell ra (y :: rb))))))
                (fst (pcell (x :: ra) rb) + w Gap y + opn (negb (is_ins (snd (pcell (x :: ra) rb)))))).
Proof. reflexivity. Qed.

(* ---- the table as a specification -------------------------------------- *)
Fixpoint cells_row (ra rpre suf : bytes) : list cell :=
  match suf with
  | [] => []
  | y :: s => pcell ra (y :: rpre) :: cells_row ra (y :: rpre) s
  end.

Definition row_spec (ra b : bytes) : list cell := pcell ra [] :: cells_row ra [] b.

Fixpoint rows_spec (b rpre suf : bytes) : list (list cell) :=
  match suf with
  | [] => []
  | x :: s => row_spec (x :: rpre) b :: rows_spec b (x :: rpre) s
  end.

Definition table_spec (a b : bytes) : list (list cell) := row_spec [] b :: rows_spec b [] a.

(* ---- the executable table equals it ------------------------------------- *)
Variable g : scorer.

Definition agrees (a b : bytes) : Prop :=
  forall x y, In x (Gap :: a) -> In y (Gap :: b) -> g x y = Ok (w x y).

Lemma agrees_gg : forall a b, agrees a b -> g Gap Gap = Ok (w Gap Gap).
Proof. intros a b H. apply H; left; reflexivity. Qed.

Lemma agrees_tl_a : forall x a b, agrees (x :: a) b -> agrees a b.
Proof. intros x a b H u v Hu Hv. apply H; [|exact Hv]. destruct Hu; [left|right; right]; assumption. Qed.

Lemma agrees_tl_b : forall y a b, agrees a (y :: b) -> agrees a b.
Proof. intros y a b H u v Hu Hv. apply H; [exact Hu|]. destruct Hv; [left|right; right]; assumption. Qed.

Lemma add_open_ok : forall c s, g Gap Gap = Ok (w Gap Gap) -> add_open g c s = Ok (s + opn c).
Proof.
  intros c s H. unfold add_open, opn. destruct c.
  - rewrite H. reflexivity.
  - rewrite Z.add_0_r. reflexivity.
Qed.

Lemma row0_tail_spec : forall suf rpre,
  g Gap Gap = Ok (w Gap Gap) ->
  (forall y, In y suf -> g Gap y = Ok (w Gap y)) ->
  row0_tail g clamp (fst (pcell [] rpre)) (is_nil rpre) suf = Ok (cells_row [] rpre suf).
Proof.
  induction suf as [|y s IH]; intros rpre Hgg Hy; [reflexivity|].
  cbn [row0_tail cells_row]. rewrite (Hy y (or_introl eq_refl)). cbn [obind].
  rewrite add_open_ok by exact Hgg. cbn [obind].
  rewrite <- pcell_nil_cons.
  change false with (is_nil (y :: rpre)).
  rewrite IH; [reflexivity|exact Hgg|]. intros u Hu. apply Hy. right. exact Hu.
Qed.

Lemma row0_spec : forall a b, agrees a b -> row0 g clamp b = Ok (row_spec [] b).
Proof.
  intros a b H. unfold row0.
  change 0 with (fst (pcell [] [])) at 1. change true with (@is_nil N []).
  rewrite row0_tail_spec.
  - reflexivity.
  - eapply agrees_gg; eauto.
  - intros y Hy. apply H; [left; reflexivity|right; exact Hy].
Qed.

Lemma row_mid_spec : forall suf rpre x ra,
  g Gap Gap = Ok (w Gap Gap) -> g x Gap = Ok (w x Gap) ->
  (forall y, In y suf -> g Gap y = Ok (w Gap y) /\ g x y = Ok (w x y)) ->
  row_mid g clamp x (pcell ra rpre) (pcell (x :: ra) rpre) (combine suf (cells_row ra rpre suf))
  = Ok (cells_row (x :: ra) rpre suf).
Proof.
  induction suf as [|y s IH]; intros rpre x ra Hgg Hx Hy; [reflexivity|].
  cbn [cells_row combine row_mid].
  destruct (Hy y (or_introl eq_refl)) as [Hgy Hxy].
  rewrite Hxy. cbn [obind]. rewrite Hx. cbn [obind].
  rewrite add_open_ok by exact Hgg. cbn [obind].
  rewrite Hgy. cbn [obind].
  rewrite add_open_ok by exact Hgg. cbn [obind].
  rewrite <- pcell_cons_cons.
  rewrite IH; [reflexivity|exact Hgg|exact Hx|].
  intros u Hu. apply Hy. right. exact Hu.
Qed.

Lemma next_row_spec : forall a b x ra,
  agrees a b -> In x a ->
  next_row g clamp b (is_nil ra) (row_spec ra b) x = Ok (row_spec (x :: ra) b).
Proof.
  intros a b x ra H Hx. unfold next_row, row_spec.
  assert (Hgg : g Gap Gap = Ok (w Gap Gap)) by (eapply agrees_gg; eauto).
  assert (HxG : g x Gap = Ok (w x Gap)) by (apply H; [right; exact Hx|left; reflexivity]).
  rewrite HxG. cbn [obind]. rewrite add_open_ok by exact Hgg. cbn [obind].
  rewrite <- pcell_cons_nil.
  rewrite row_mid_spec; [reflexivity|exact Hgg|exact HxG|].
  intros y Hy. split; apply H.
  - left; reflexivity.
  - right; exact Hy.
  - right; exact Hx.
  - right; exact Hy.
Qed.

Lemma rows_from_spec : forall a b suf rpre,
  agrees a b -> incl suf a ->
  rows_from g clamp b (is_nil rpre) (row_spec rpre b) suf = Ok (rows_spec b rpre suf).
Proof.
  intros a b suf. induction suf as [|x s IH]; intros rpre H Hin; [reflexivity|].
  cbn [rows_from rows_spec].
  rewrite (next_row_spec a b x rpre H) by (apply Hin; left; reflexivity).
  cbn [obind]. change false with (is_nil (x :: rpre)).
  rewrite IH; [reflexivity|exact H|]. intros u Hu. apply Hin. right. exact Hu.
Qed.

Lemma table_ok : forall a b, agrees a b -> table g clamp a b = Ok (table_spec a b).
Proof.
  intros a b H. unfold table. rewrite (row0_spec a b H). cbn [obind].
  change true with (@is_nil N []).
  rewrite (rows_from_spec a b a [] H) by apply incl_refl. reflexivity.
Qed.

Lemma blocks_ok : forall a b, agrees a b ->
  blocks_of g clamp a b = Ok (concat (table_spec a b)).
Proof. intros a b H. unfold blocks_of. rewrite (table_ok a b H). reflexivity. Qed.

(* ---- indexing ------------------------------------------------------------- *)
Lemma cells_row_length : forall ra suf rpre, length (cells_row ra rpre suf) = length suf.
Proof. induction suf; intros; cbn; [reflexivity|rewrite IHsuf; reflexivity]. Qed.

Lemma row_spec_length : forall ra b, length (row_spec ra b) = S (length b).
Proof. intros. unfold row_spec. cbn. rewrite cells_row_length. reflexivity. Qed.

Lemma cells_row_nth : forall ra s1 rpre y s2,
  nth_error (cells_row ra rpre (s1 ++ y :: s2)) (length s1) = Some (pcell ra (y :: rev s1 ++ rpre)).
Proof.
  induction s1 as [|z s1 IH]; intros rpre y s2; [reflexivity|].
  cbn [app cells_row length nth_error]. rewrite IH. cbn [rev]. rewrite <- app_assoc. reflexivity.
Qed.

(* any tail rb of rev b is a column of the row *)
Lemma row_spec_nth : forall ra b pb rb,
  rev b = pb ++ rb -> nth_error (row_spec ra b) (length rb) = Some (pcell ra rb).
Proof.
  intros ra b pb rb H. unfold row_spec. destruct rb as [|y rb']; [reflexivity|].
  assert (Hb : b = rev rb' ++ y :: rev pb).
  { rewrite <- (rev_involutive b), H, rev_app_distr. cbn [rev]. rewrite <- app_assoc. reflexivity. }
  cbn [length nth_error]. rewrite Hb. rewrite <- (rev_length rb').
  rewrite cells_row_nth. rewrite rev_involutive, app_nil_r. reflexivity.
Qed.

Lemma rows_spec_length : forall b suf rpre, length (rows_spec b rpre suf) = length suf.
Proof. induction suf; intros; cbn; [reflexivity|rewrite IHsuf; reflexivity]. Qed.

Lemma rows_spec_nth : forall b s1 rpre x s2,
  nth_error (rows_spec b rpre (s1 ++ x :: s2)) (length s1) = Some (row_spec (x :: rev s1 ++ rpre) b).
Proof.
  induction s1 as [|z s1 IH]; intros rpre x s2; [reflexivity|].
  cbn [app rows_spec length nth_error]. rewrite IH. cbn [rev]. rewrite <- app_assoc. reflexivity.
Qed.

Lemma table_spec_nth : forall a b pa ra,
  rev a = pa ++ ra -> nth_error (table_spec a b) (length ra) = Some (row_spec ra b).
Proof.
  intros a b pa ra H. unfold table_spec. destruct ra as [|x ra']; [reflexivity|].
  assert (Ha : a = rev ra' ++ x :: rev pa).
  { rewrite <- (rev_involutive a), H, rev_app_distr. cbn [rev]. rewrite <- app_assoc. reflexivity. }
  cbn [length nth_error]. rewrite Ha. rewrite <- (rev_length ra').
  rewrite rows_spec_nth. rewrite rev_involutive, app_nil_r. reflexivity.
Qed.

Lemma table_spec_rows : forall a b, Forall (fun r => length r = S (length b)) (table_spec a b).
Proof.
  intros a b. unfold table_spec. constructor; [apply row_spec_length|].
  generalize (@nil N). induction a as [|x s IH]; intros rpre; cbn; constructor.
  - apply row_spec_length.
  - apply IH.
Qed.

Lemma table_spec_length : forall a b, length (table_spec a b) = S (length a).
Proof. intros. unfold table_spec. cbn. rewrite rows_spec_length. reflexivity. Qed.

End Pure.

Lemma nth_error_concat : forall {A} (rows : list (list A)) n i j,
  Forall (fun r => length r = n) rows -> (j < n)%nat ->
  nth_error (concat rows) (i * n + j) =
  match nth_error rows i with Some r => nth_error r j | None => None end.
Proof.
  intros A rows n. induction rows as [|r rows IH]; intros i j HF Hj.
  - cbn [concat]. destruct (i * n + j)%nat; destruct i; reflexivity.
  - inversion HF as [|? ? Hr HF']. subst. destruct i as [|i].
    + cbn [Nat.mul Nat.add concat nth_error]. rewrite nth_error_app1 by lia. reflexivity.
    + cbn [concat nth_error]. rewrite nth_error_app2 by (cbn; lia).
      replace (S i * length r + j - length r)%nat with (i * length r + j)%nat by (cbn; lia).
      apply IH; assumption.
Qed.

Lemma concat_length_const : forall {A} (rows : list (list A)) n,
  Forall (fun r => length r = n) rows -> length (concat rows) = (length rows * n)%nat.
Proof.
  intros A rows n H. induction H as [|r rows Hr H IH]; [reflexivity|].
  cbn. rewrite app_length, IH, Hr. reflexivity.
Qed.

(* the Go index of cell (|ra|, |rb|) *)
Definition idx (bn : Z) (ra rb : bytes) : Z := Z.of_nat (length ra) * bn + Z.of_nat (length rb).

Definition bn_of (b : bytes) : Z := Z.of_nat (length b) + 1.

Lemma blocks_lookup : forall w clamp a b pa ra pb rb,
  rev a = pa ++ ra -> rev b = pb ++ rb ->
  nth_error (concat (table_spec w clamp a b)) (Z.to_nat (idx (bn_of b) ra rb))
  = Some (pcell w clamp ra rb).
Proof.
  intros w clamp a b pa ra pb rb Ha Hb.
  assert (Hlen : (length rb <= length b)%nat).
  { rewrite <- (rev_length b), Hb, app_length. lia. }
  unfold idx, bn_of.
  replace (Z.to_nat (Z.of_nat (length ra) * (Z.of_nat (length b) + 1) + Z.of_nat (length rb)))
    with (length ra * S (length b) + length rb)%nat by lia.
  rewrite (nth_error_concat _ (S (length b))); [|apply table_spec_rows|lia].
  rewrite (table_spec_nth w clamp a b pa ra Ha).
  apply (row_spec_nth w clamp ra b pb rb Hb).
Qed.

Lemma blocks_length : forall w clamp a b,
  length (concat (table_spec w clamp a b)) = (S (length a) * S (length b))%nat.
Proof.
  intros. rewrite (concat_length_const _ (S (length b))) by apply table_spec_rows.
  rewrite table_spec_length. reflexivity.
Qed.

(* ======================================================================== *)
(* Pure forward score, the snoc lemmas, and the bridge to the spec's score.   *)
Section Score.
Variable w : byte -> byte -> Z.

Definition cdel (p : step) (x : byte) : Z := w x Gap + opn w (negb (is_del p)).
Definition cins (p : step) (y : byte) : Z := w Gap y + opn w (negb (is_ins p)).

Fixpoint fscore (prev : step) (a b : bytes) (al : list step) : option Z :=
  match al with
  | [] => Some 0
  | SMatch :: r =>
    match a, b with
    | x :: a', y :: b' => option_map (Z.add (w x y)) (fscore SMatch a' b' r)
    | _, _ => None
    end
  | SDel :: r =>
    match a with
    | x :: a' => option_map (Z.add (cdel prev x)) (fscore SDel a' b r)
    | [] => None
    end
  | SIns :: r =>
    match b with
    | y :: b' => option_map (Z.add (cins prev y)) (fscore SIns a b' r)
    | [] => None
    end
  | SNone :: _ => None
  end.

(* the last step of [al], or [p] when there is none *)
Fixpoint lastd (p : step) (al : list step) : step :=
  match al with [] => p | s :: r => lastd s r end.

Lemma lastd_snoc : forall al p s, lastd p (al ++ [s]) = s.
Proof. induction al; intros; cbn; [reflexivity|apply IHal]. Qed.

Definition o2o (o : option Z) : outcome Z := match o with Some z => Ok z | None => Err end.

Lemma score_from_fscore : forall g al p a b, agrees w g a b ->
  score_from g p a b al = o2o (fscore p a b al).
Proof.
  intros g. induction al as [|s r IH]; intros p a b H; [reflexivity|].
  assert (Hgg : g Gap Gap = Ok (w Gap Gap)) by (eapply agrees_gg; eauto).
  destruct s; cbn [score_from fscore].
  - reflexivity.
  - destruct a as [|x a']; [reflexivity|]. destruct b as [|y b']; [reflexivity|].
    rewrite (H x y) by (right; left; reflexivity). cbn [obind].
    rewrite IH by (eapply agrees_tl_a; eapply agrees_tl_b; eauto).
    destruct (fscore SMatch a' b' r); reflexivity.
  - destruct a as [|x a']; [reflexivity|].
    rewrite (H x Gap) by (try (right; left; reflexivity); left; reflexivity). cbn [obind].
    rewrite (add_open_ok w g) by exact Hgg. cbn [obind].
    rewrite IH by (eapply agrees_tl_a; eauto).
    destruct (fscore SDel a' b r); reflexivity.
  - destruct b as [|y b']; [reflexivity|].
    rewrite (H Gap y) by (try (right; left; reflexivity); left; reflexivity). cbn [obind].
    rewrite (add_open_ok w g) by exact Hgg. cbn [obind].
    rewrite IH by (eapply agrees_tl_b; eauto).
    destruct (fscore SIns a b' r); reflexivity.
Qed.

Lemma consumes_app : forall al1 al2,
  consumes (al1 ++ al2) =
  ((fst (consumes al1) + fst (consumes al2))%nat, (snd (consumes al1) + snd (consumes al2))%nat).
Proof.
  induction al1 as [|s r IH]; intros al2.
  - cbn. destruct (consumes al2); reflexivity.
  - cbn [app consumes]. rewrite IH. destruct (consumes r), (consumes al2), s; reflexivity.
Qed.

Lemma consumes_snoc : forall al s i j, consumes al = (i, j) ->
  consumes (al ++ [s]) =
  match s with SMatch => (S i, S j) | SDel => (S i, j) | SIns => (i, S j) | SNone => (i, j) end.
Proof.
  intros al s i j H. rewrite consumes_app, H. destruct s; cbn; f_equal; lia.
Qed.

Lemma omap_comm : forall c d (o : option Z),
  option_map (Z.add c) (option_map (fun z => z + d) o) =
  option_map (fun z => z + d) (option_map (Z.add c) o).
Proof. intros. destruct o; cbn; [f_equal; lia|reflexivity]. Qed.

Lemma fscore_snoc_match : forall al p a b x y, consumes al = (length a, length b) ->
  fscore p (a ++ [x]) (b ++ [y]) (al ++ [SMatch]) = option_map (fun z => z + w x y) (fscore p a b al).
Proof.
  induction al as [|s r IH]; intros p a b x y Hc.
  - cbn in Hc. destruct a; destruct b; try discriminate. cbn. f_equal. lia.
  - cbn [consumes] in Hc. destruct (consumes r) as [i j] eqn:E. destruct s.
    + reflexivity.
    + destruct a as [|x0 a']; [discriminate|]. destruct b as [|y0 b']; [discriminate|].
      cbn in Hc. injection Hc as Hi Hj. subst i j.
      cbn [app fscore]. rewrite (IH SMatch a' b' x y eq_refl). apply omap_comm.
    + destruct a as [|x0 a']; [discriminate|].
      cbn in Hc. injection Hc as Hi Hj. subst i j.
      cbn [app fscore]. rewrite (IH SDel a' b x y eq_refl). apply omap_comm.
    + destruct b as [|y0 b']; [destruct a; discriminate|].
      cbn in Hc. injection Hc as Hi Hj. subst i j.
      cbn [app fscore]. rewrite (IH SIns a b' x y eq_refl). apply omap_comm.
Qed.

Lemma fscore_snoc_del : forall al p a b x, consumes al = (length a, length b) ->
  fscore p (a ++ [x]) b (al ++ [SDel]) = option_map (fun z => z + cdel (lastd p al) x) (fscore p a b al).
Proof.
  induction al as [|s r IH]; intros p a b x Hc.
  - cbn in Hc. destruct a; destruct b; try discriminate. cbn. f_equal. lia.
  - cbn [consumes] in Hc. destruct (consumes r) as [i j] eqn:E. cbn [lastd]. destruct s.
    + reflexivity.
    + destruct a as [|x0 a']; [discriminate|]. destruct b as [|y0 b']; [discriminate|].
      cbn in Hc. injection Hc as Hi Hj. subst i j.
      cbn [app fscore]. rewrite (IH SMatch a' b' x eq_refl). apply omap_comm.
    + destruct a as [|x0 a']; [discriminate|].
      cbn in Hc. injection Hc as Hi Hj. subst i j.
      cbn [app fscore]. rewrite (IH SDel a' b x eq_refl). apply omap_comm.
    + destruct b as [|y0 b']; [destruct a; discriminate|].
      cbn in Hc. injection Hc as Hi Hj. subst i j.
      cbn [app fscore]. rewrite (IH SIns a b' x eq_refl). apply omap_comm.
Qed.

Lemma fscore_snoc_ins : forall al p a b y, consumes al = (length a, length b) ->
  fscore p a (b ++ [y]) (al ++ [SIns]) = option_map (fun z => z + cins (lastd p al) y) (fscore p a b al).
Proof.
  induction al as [|s r IH]; intros p a b y Hc.
  - cbn in Hc. destruct a; destruct b; try discriminate. cbn. f_equal. lia.
  - cbn [consumes] in Hc. destruct (consumes r) as [i j] eqn:E. cbn [lastd]. destruct s.
    + reflexivity.
    + destruct a as [|x0 a']; [discriminate|]. destruct b as [|y0 b']; [discriminate|].
      cbn in Hc. injection Hc as Hi Hj. subst i j.
      cbn [app fscore]. rewrite (IH SMatch a' b' y eq_refl). apply omap_comm.
    + destruct a as [|x0 a']; [discriminate|].
      cbn in Hc. injection Hc as Hi Hj. subst i j.
      cbn [app fscore]. rewrite (IH SDel a' b y eq_refl). apply omap_comm.
    + destruct b as [|y0 b']; [destruct a; discriminate|].
      cbn in Hc. injection Hc as Hi Hj. subst i j.
      cbn [app fscore]. rewrite (IH SIns a b' y eq_refl). apply omap_comm.
Qed.

End Score.

(* ======================================================================== *)
(* Global: the traceback path exists, is valid and scores the cell.            *)
Lemma decide_cases : forall m d i,
  (decide m d i = (m, SMatch) /\ d <= m /\ i <= m) \/
  (decide m d i = (d, SDel) /\ i <= d /\ (m < d \/ m < i)) \/
  (decide m d i = (i, SIns) /\ d < i /\ (m < d \/ m < i)).
Proof.
  intros m d i. unfold decide.
  destruct (Z.geb_spec m d); destruct (Z.geb_spec m i); cbn [andb];
    try (left; repeat split; (reflexivity || lia));
    destruct (Z.geb_spec d i); (right; left; repeat split; (reflexivity || lia))
                               || (right; right; repeat split; (reflexivity || lia)).
Qed.

Section GlobalPath.
Variable w : byte -> byte -> Z.
Notation pc := (pcell w clamp_none).

Inductive ptr : bytes -> bytes -> list step -> Prop :=
| ptr_nil : ptr [] [] []
| ptr_match : forall x ra y rb al,
    snd (pc (x :: ra) (y :: rb)) = SMatch -> ptr ra rb al -> ptr (x :: ra) (y :: rb) (al ++ [SMatch])
| ptr_del : forall x ra rb al,
    snd (pc (x :: ra) rb) = SDel -> ptr ra rb al -> ptr (x :: ra) rb (al ++ [SDel])
| ptr_ins : forall ra y rb al,
    snd (pc ra (y :: rb)) = SIns -> ptr ra rb al -> ptr ra (y :: rb) (al ++ [SIns]).

Lemma row0_step : forall rb, negb (is_ins (snd (pc [] rb))) = is_nil rb.
Proof. destruct rb; reflexivity. Qed.

Lemma col0_step : forall ra, negb (is_del (snd (pc ra []))) = is_nil ra.
Proof. destruct ra; reflexivity. Qed.

Lemma global_path : forall n ra rb, (length ra + length rb <= n)%nat ->
  exists al, consumes al = (length ra, length rb)
    /\ fscore w SNone (rev ra) (rev rb) al = Some (fst (pc ra rb))
    /\ lastd SNone al = snd (pc ra rb)
    /\ ptr ra rb al.
Proof.
  induction n as [|n IH]; intros ra rb Hn.
  - destruct ra; destruct rb; cbn in Hn; try lia.
    exists []. repeat split. constructor.
  - destruct ra as [|x ra]; destruct rb as [|y rb].
    + exists []. repeat split. constructor.
    + destruct (IH [] rb) as (al & Hc & Hs & Hl & Hp); [cbn in *; lia|].
      exists (al ++ [SIns]).
      assert (Hcell : pc [] (y :: rb) = (fst (pc [] rb) + w Gap y + opn w (is_nil rb), SIns))
        by reflexivity.
      rewrite Hcell. cbn [fst snd]. repeat split.
      * rewrite (consumes_snoc al SIns _ _ Hc). reflexivity.
      * cbn [rev]. rewrite fscore_snoc_ins by (rewrite Hc, rev_length; reflexivity).
        cbn [rev] in Hs. rewrite Hs. cbn [option_map]. f_equal.
        unfold cins. rewrite Hl, row0_step. lia.
      * apply lastd_snoc.
      * apply ptr_ins; [rewrite Hcell; reflexivity|exact Hp].
    + destruct (IH ra []) as (al & Hc & Hs & Hl & Hp); [cbn in *; lia|].
      exists (al ++ [SDel]).
      assert (Hcell : pc (x :: ra) [] = (fst (pc ra []) + w x Gap + opn w (is_nil ra), SDel))
        by reflexivity.
      rewrite Hcell. cbn [fst snd]. repeat split.
      * rewrite (consumes_snoc al SDel _ _ Hc). reflexivity.
      * cbn [rev]. rewrite fscore_snoc_del by (rewrite Hc, rev_length; reflexivity).
        cbn [rev] in Hs. rewrite Hs. cbn [option_map]. f_equal.
        unfold cdel. rewrite Hl, col0_step. lia.
      * apply lastd_snoc.
      * apply ptr_del; [rewrite Hcell; reflexivity|exact Hp].
    + pose (m := fst (pc ra rb) + w x y).
      pose (d := fst (pc ra (y :: rb)) + w x Gap + opn w (negb (is_del (snd (pc ra (y :: rb)))))).
      pose (i := fst (pc (x :: ra) rb) + w Gap y + opn w (negb (is_ins (snd (pc (x :: ra) rb))))).
      assert (Hcell : pc (x :: ra) (y :: rb) = decide m d i) by reflexivity.
      destruct (decide_cases m d i) as [[E _]|[[E _]|[E _]]]; rewrite E in Hcell; rewrite Hcell; cbn [fst snd].
      * destruct (IH ra rb) as (al & Hc & Hs & Hl & Hp); [cbn in *; lia|].
        exists (al ++ [SMatch]). repeat split.
        -- rewrite (consumes_snoc al SMatch _ _ Hc). reflexivity.
        -- cbn [rev]. rewrite fscore_snoc_match by (rewrite Hc, !rev_length; reflexivity).
           rewrite Hs. reflexivity.
        -- apply lastd_snoc.
        -- apply ptr_match; [rewrite Hcell; reflexivity|exact Hp].
      * destruct (IH ra (y :: rb)) as (al & Hc & Hs & Hl & Hp); [cbn in *; lia|].
        exists (al ++ [SDel]). repeat split.
        -- rewrite (consumes_snoc al SDel _ _ Hc). reflexivity.
        -- cbn [rev]. cbn [rev] in Hs.
           rewrite fscore_snoc_del by (rewrite Hc, rev_length, app_length, rev_length; cbn; f_equal; lia).
           rewrite Hs. cbn [option_map]. f_equal. unfold cdel. rewrite Hl. subst d. lia.
        -- apply lastd_snoc.
        -- apply ptr_del; [rewrite Hcell; reflexivity|exact Hp].
      * destruct (IH (x :: ra) rb) as (al & Hc & Hs & Hl & Hp); [cbn in *; lia|].
        exists (al ++ [SIns]). repeat split.
        -- rewrite (consumes_snoc al SIns _ _ Hc). reflexivity.
        -- cbn [rev]. cbn [rev] in Hs.
           rewrite fscore_snoc_ins by (rewrite Hc, rev_length, app_length, rev_length; cbn; f_equal; lia).
           rewrite Hs. cbn [option_map]. f_equal. unfold cins. rewrite Hl. subst i. lia.
        -- apply lastd_snoc.
        -- apply ptr_ins; [rewrite Hcell; reflexivity|exact Hp].
Qed.

(* ---- the executable traceback follows the path ---------------------------- *)
Lemma trace_g_zero : forall f bl bn acc, trace_g f bl bn 0 acc = Ok acc.
Proof. destruct f; reflexivity. Qed.

Lemma trace_g_step : forall f bl bn i acc s st,
  0 < i -> nth_error bl (Z.to_nat i) = Some (s, st) ->
  trace_g (S f) bl bn i acc = trace_g f bl bn (move bn i st) (st :: acc).
Proof.
  intros f bl bn i acc s st Hi Hn. cbn [trace_g]. unfold cell in *.
  destruct (Z.leb_spec i 0); [lia|]. rewrite Hn. reflexivity.
Qed.

Lemma idx_pos : forall bn ra rb, 0 < bn -> (0 < length ra + length rb)%nat -> 0 < idx bn ra rb.
Proof.
  intros bn ra rb Hb Hl. unfold idx.
  assert (0 <= Z.of_nat (length ra) * bn) by (apply Z.mul_nonneg_nonneg; lia).
  destruct ra as [|x ra].
  - cbn [length] in *. lia.
  - cbn [length]. rewrite Nat2Z.inj_succ.
    assert (0 <= Z.of_nat (length ra) * bn) by (apply Z.mul_nonneg_nonneg; lia). lia.
Qed.

Lemma trace_g_ptr : forall a b ra rb al, ptr ra rb al ->
  forall pa pb, rev a = pa ++ ra -> rev b = pb ++ rb ->
  forall fuel acc, (length ra + length rb <= fuel)%nat ->
  trace_g fuel (concat (table_spec w clamp_none a b)) (bn_of b) (idx (bn_of b) ra rb) acc = Ok (al ++ acc).
Proof.
  intros a b ra rb al Hp. 
  assert (Hbn : 0 < bn_of b) by (unfold bn_of; lia).
  induction Hp as [|x ra y rb al Hs Hp IH|x ra rb al Hs Hp IH|ra y rb al Hs Hp IH];
    intros pa pb Ha Hb fuel acc Hf.
  - apply trace_g_zero.
  - destruct fuel as [|f]; [cbn in Hf; lia|].
    pose proof (blocks_lookup w clamp_none a b pa (x :: ra) pb (y :: rb) Ha Hb) as Hl.
    rewrite (surjective_pairing (pcell w clamp_none (x :: ra) (y :: rb))), Hs in Hl.
    assert (Hpos : 0 < idx (bn_of b) (x :: ra) (y :: rb)) by (apply idx_pos; [exact Hbn|cbn; lia]).
    rewrite (trace_g_step _ _ _ _ _ _ _ Hpos Hl).
    replace (move (bn_of b) (idx (bn_of b) (x :: ra) (y :: rb)) SMatch) with (idx (bn_of b) ra rb)
      by (unfold move, idx; cbn [length]; rewrite !Nat2Z.inj_succ; lia).
    rewrite (IH (pa ++ [x]) (pb ++ [y])); [rewrite <- app_assoc; reflexivity| | |cbn in Hf; lia];
      rewrite <- app_assoc; assumption.
  - destruct fuel as [|f]; [cbn in Hf; lia|].
    pose proof (blocks_lookup w clamp_none a b pa (x :: ra) pb rb Ha Hb) as Hl.
    rewrite (surjective_pairing (pcell w clamp_none (x :: ra) rb)), Hs in Hl.
    assert (Hpos : 0 < idx (bn_of b) (x :: ra) rb) by (apply idx_pos; [exact Hbn|cbn; lia]).
    rewrite (trace_g_step _ _ _ _ _ _ _ Hpos Hl).
    replace (move (bn_of b) (idx (bn_of b) (x :: ra) rb) SDel) with (idx (bn_of b) ra rb)
      by (unfold move, idx; cbn [length]; rewrite !Nat2Z.inj_succ; lia).
    rewrite (IH (pa ++ [x]) pb); [rewrite <- app_assoc; reflexivity| |assumption|cbn in Hf; lia];
      rewrite <- app_assoc; assumption.
  - destruct fuel as [|f]; [cbn in Hf; lia|].
    pose proof (blocks_lookup w clamp_none a b pa ra pb (y :: rb) Ha Hb) as Hl.
    rewrite (surjective_pairing (pcell w clamp_none ra (y :: rb))), Hs in Hl.
    assert (Hpos : 0 < idx (bn_of b) ra (y :: rb)) by (apply idx_pos; [exact Hbn|cbn; lia]).
    rewrite (trace_g_step _ _ _ _ _ _ _ Hpos Hl).
    replace (move (bn_of b) (idx (bn_of b) ra (y :: rb)) SIns) with (idx (bn_of b) ra rb)
      by (unfold move, idx; cbn [length]; rewrite !Nat2Z.inj_succ; lia).
    rewrite (IH pa (pb ++ [y])); [rewrite <- app_assoc; reflexivity|assumption| |cbn in Hf; lia];
      rewrite <- app_assoc; assumption.
Qed.

End GlobalPath.

(* the weights a covering scorer defines *)
Definition weights (g : scorer) : byte -> byte -> Z :=
  fun x y => match g x y with Ok z => z | _ => 0 end.

Lemma covers_agrees : forall g a b, covers_g g a b -> agrees (weights g) g a b.
Proof.
  intros g a b H x y Hx Hy. destruct (H x y Hx Hy) as [z Hz]. unfold weights. rewrite Hz. reflexivity.
Qed.

Lemma global_g_run_w : forall w g a b, agrees w g a b ->
  exists al, global_g g a b = Ok (al, fst (pcell w clamp_none (rev a) (rev b)))
    /\ consumes al = (length a, length b)
    /\ fscore w SNone a b al = Some (fst (pcell w clamp_none (rev a) (rev b))).
Proof.
  intros w g a b Hag.
  destruct (global_path w _ (rev a) (rev b) (le_n _)) as (al & Hc & Hs & _ & Hp).
  exists al. rewrite !rev_involutive in Hs. rewrite !rev_length in Hc.
  split; [|split; assumption].
  unfold global_g. rewrite (blocks_ok w clamp_none g a b Hag). cbn [obind].
  set (bl := concat (table_spec w clamp_none a b)).
  assert (Hlen : length bl = (S (length a) * S (length b))%nat) by apply blocks_length.
  assert (Hidx : Z.of_nat (length bl) - 1 = idx (bn_of b) (rev a) (rev b)).
  { rewrite Hlen. unfold idx, bn_of. rewrite !rev_length. lia. }
  fold (bn_of b). rewrite Hidx.
  rewrite (trace_g_ptr w a b (rev a) (rev b) al Hp [] [] eq_refl eq_refl)
    by (rewrite Hlen, !rev_length; nia).
  cbn [obind]. rewrite app_nil_r.
  unfold last_score.
  replace (Nat.pred (length bl)) with (Z.to_nat (idx (bn_of b) (rev a) (rev b))) by lia.
  unfold bl. rewrite (blocks_lookup w clamp_none a b [] (rev a) [] (rev b) eq_refl eq_refl).
  reflexivity.
Qed.

Lemma global_g_run : forall g a b, covers_g g a b ->
  exists al, global_g g a b = Ok (al, fst (pcell (weights g) clamp_none (rev a) (rev b)))
    /\ consumes al = (length a, length b)
    /\ fscore (weights g) SNone a b al = Some (fst (pcell (weights g) clamp_none (rev a) (rev b))).
Proof. intros g a b Hcov. apply global_g_run_w. apply covers_agrees. exact Hcov. Qed.

Theorem global_valid_g : forall g a b, covers_g g a b ->
  exists al s, global_g g a b = Ok (al, s)
    /\ consumes al = (length a, length b)
    /\ score_g g a b al = Ok s.
Proof.
  intros g a b Hcov. destruct (global_g_run g a b Hcov) as (al & Hr & Hc & Hs).
  exists al, (fst (pcell (weights g) clamp_none (rev a) (rev b))).
  split; [exact Hr|]. split; [exact Hc|].
  unfold score_g. rewrite (score_from_fscore (weights g) g al SNone a b (covers_agrees g a b Hcov)).
  rewrite Hs. reflexivity.
Qed.
