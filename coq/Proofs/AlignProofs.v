(* Proofs/AlignProofs.v *)
From Bio Require Import Base.
