(* Proofs/SmtextProofs.v *)
From Bio Require Import Base.
