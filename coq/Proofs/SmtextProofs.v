(* Proofs/SmtextProofs.v — association-list maps, Symmetrical, GoString. *)
From Coq Require Import Permutation Sorted.
From Bio Require Import Base.
From Bio.Model Require Import Smtext.
From Bio.Spec Require Import SmtextSpec.

(* ---- keys -------------------------------------------------------------------- *)
Lemma keqb_eq : forall k1 k2, keqb k1 k2 = true <-> k1 = k2.
Proof.
  intros [a b] [c d]. unfold keqb; cbn [fst snd].
  rewrite andb_true_iff, !N.eqb_eq. split.
  - intros [-> ->]; reflexivity.
  - intros H; inversion H; auto.
Qed.

Lemma keqb_refl : forall k, keqb k k = true.
Proof. intros; apply keqb_eq; reflexivity. Qed.

Lemma keqb_neq : forall k1 k2, k1 <> k2 -> keqb k1 k2 = false.
Proof.
  intros k1 k2 H. destruct (keqb k1 k2) eqn:E; auto.
  apply keqb_eq in E; contradiction.
Qed.

Lemma key_eq_dec : forall k1 k2 : key, {k1 = k2} + {k1 <> k2}.
Proof. decide equality; apply N.eq_dec. Qed.

Lemma flip_flip : forall k, flip (flip k) = k.
Proof. intros [a b]; reflexivity. Qed.

(* ---- lookup / assignment ------------------------------------------------------ *)
Lemma mlookup_mset_same : forall k x m, mlookup k (mset k x m) = Some x.
Proof.
  intros k x m; induction m as [|[k' y] r IH]; cbn [mset mlookup].
  - rewrite keqb_refl; reflexivity.
  - destruct (keqb k k') eqn:E; cbn [mlookup].
    + rewrite keqb_refl; reflexivity.
    + rewrite E; exact IH.
Qed.

Lemma mlookup_mset_other : forall k k' x m, k' <> k -> mlookup k' (mset k x m) = mlookup k' m.
Proof.
  intros k k' x m H; induction m as [|[k2 y] r IH]; cbn [mset mlookup].
  - rewrite keqb_neq by assumption; reflexivity.
  - destruct (keqb k k2) eqn:E; cbn [mlookup].
    + apply keqb_eq in E; subst k2. rewrite keqb_neq by assumption. reflexivity.
    + destruct (keqb k' k2); auto.
Qed.

Lemma in_keys_mset : forall k x m k',
  In k' (map fst (mset k x m)) <-> k' = k \/ In k' (map fst m).
Proof.
  intros k x m k'; induction m as [|[k2 y] r IH]; cbn [mset map fst In].
  - intuition.
  - destruct (keqb k k2) eqn:E; cbn [map fst In].
    + apply keqb_eq in E; subst. intuition.
    + rewrite IH. intuition.
Qed.

Lemma mset_unique : forall k x m, keys_unique m -> keys_unique (mset k x m).
Proof.
  unfold keys_unique. intros k x m; induction m as [|[k2 y] r IH]; cbn [mset map fst]; intros H.
  - constructor; [intros [] | constructor].
  - inversion H; subst. destruct (keqb k k2) eqn:E; cbn [map fst].
    + apply keqb_eq in E; subst. constructor; auto.
    + constructor.
      * rewrite in_keys_mset. intros [->|?]; [rewrite keqb_refl in E; discriminate | contradiction].
      * apply IH; auto.
Qed.

Lemma mlookup_in : forall k x m, mlookup k m = Some x -> In (k, x) m.
Proof.
  intros k x m; induction m as [|[k2 y] r IH]; cbn [mlookup]; intros H.
  - discriminate.
  - destruct (keqb k k2) eqn:E.
    + apply keqb_eq in E; subst; inversion H; left; reflexivity.
    + right; auto.
Qed.

Lemma in_mlookup : forall k x m, keys_unique m -> In (k, x) m -> mlookup k m = Some x.
Proof.
  unfold keys_unique. intros k x m; induction m as [|[k2 y] r IH]; intros U H; cbn [mlookup].
  - destruct H.
  - cbn [map fst] in U. inversion U; subst. destruct H as [H|H].
    + inversion H; subst. rewrite keqb_refl; reflexivity.
    + destruct (keqb k k2) eqn:E.
      * apply keqb_eq in E; subst. exfalso. apply H2.
        apply (in_map fst) in H. exact H.
      * apply IH; auto.
Qed.

Lemma mlookup_notin : forall k m, ~ In k (map fst m) -> mlookup k m = None.
Proof.
  intros k m H. destruct (mlookup k m) eqn:E; auto.
  apply mlookup_in in E. apply (in_map fst) in E. contradiction.
Qed.

Lemma unique_same : forall (m : smatrix) k x y,
  keys_unique m -> In (k, x) m -> In (k, y) m -> x = y.
Proof.
  intros m k x y U H1 H2.
  apply (in_mlookup _ _ _ U) in H1. apply (in_mlookup _ _ _ U) in H2. congruence.
Qed.

(* ---- a sequence of assignments ------------------------------------------------- *)
Definition setf (m : smatrix) (e : key * F) : smatrix := mset (fst e) (snd e) m.

Lemma matrix_of_entries_fold : forall es, matrix_of_entries es = fold_left setf es [].
Proof. reflexivity. Qed.

Lemma fold_unique : forall ps m, keys_unique m -> keys_unique (fold_left setf ps m).
Proof.
  induction ps as [|p ps IH]; intros m U; cbn [fold_left]; auto.
  apply IH. apply mset_unique; exact U.
Qed.

Lemma lookup_fold_some : forall ps m k y,
  mlookup k (fold_left setf ps m) = Some y -> In (k, y) ps \/ mlookup k m = Some y.
Proof.
  induction ps as [|[k' x'] ps IH]; intros m k y H; cbn [fold_left] in H.
  - right; exact H.
  - apply IH in H. destruct H as [H|H].
    + left; right; exact H.
    + unfold setf in H; cbn [fst snd] in H.
      destruct (key_eq_dec k k') as [->|N].
      * rewrite mlookup_mset_same in H. inversion H; subst. left; left; reflexivity.
      * rewrite mlookup_mset_other in H by assumption. right; exact H.
Qed.

Lemma lookup_fold_notin : forall ps m k,
  ~ In k (map fst ps) -> mlookup k (fold_left setf ps m) = mlookup k m.
Proof.
  induction ps as [|[k' x'] ps IH]; intros m k H; cbn [fold_left]; auto.
  cbn [map fst In] in H. rewrite IH by tauto.
  unfold setf; cbn [fst snd]. apply mlookup_mset_other. intros ->; tauto.
Qed.

Lemma lookup_fold_in : forall ps m k,
  In k (map fst ps) -> exists y, mlookup k (fold_left setf ps m) = Some y /\ In (k, y) ps.
Proof.
  induction ps as [|[k' x'] ps IH]; intros m k H; cbn [fold_left].
  - destruct H.
  - destruct (in_dec key_eq_dec k (map fst ps)) as [I|N].
    + destruct (IH (setf m (k', x')) k I) as [y [H1 H2]]. exists y; split; [exact H1 | right; exact H2].
    + cbn [map fst In] in H. destruct H as [H|H]; [|contradiction]. subst k'.
      exists x'. split; [|left; reflexivity].
      rewrite lookup_fold_notin by assumption.
      unfold setf; cbn [fst snd]. apply mlookup_mset_same.
Qed.

(* with distinct keys, the matrix built from a list of pairs holds exactly them *)
Lemma matrix_of_entries_lookup : forall ps, NoDup (map fst ps) ->
  keys_unique (matrix_of_entries ps) /\
  forall k x, mlookup k (matrix_of_entries ps) = Some x <-> In (k, x) ps.
Proof.
  intros ps U. rewrite matrix_of_entries_fold. split.
  - apply fold_unique. constructor.
  - intros k x; split; intros H.
    + apply lookup_fold_some in H. destruct H as [H|H]; [exact H | discriminate].
    + assert (I : In k (map fst ps)) by (apply (in_map fst) in H; exact H).
      destruct (lookup_fold_in ps [] k I) as [y [H1 H2]].
      rewrite H1. f_equal. exact (unique_same ps k y x U H2 H).
Qed.

(* ---- Symmetrical ---------------------------------------------------------------- *)
Definition conflictb (m : smatrix) (e : key * F) : bool :=
  negb (fst (fst e) =? snd (fst e)) &&
  match mlookup (flip (fst e)) m with Some v2 => negb (feq v2 (snd e)) | None => false end.

Lemma sym_step_eq : forall m acc e,
  sym_step m acc e =
  obind acc (fun res => if conflictb m e then Panic
                        else Ok (mset (flip (fst e)) (snd e) (mset (fst e) (snd e) res))).
Proof.
  intros m acc e. unfold sym_step, conflictb. destruct acc; cbn [obind]; auto.
  destruct (negb (fst (fst e) =? snd (fst e))); cbn [andb]; auto.
  destruct (mlookup (flip (fst e)) m); auto.
Qed.

Definition sym_sets (l : smatrix) : list (key * F) :=
  flat_map (fun e => [(fst e, snd e); (flip (fst e), snd e)]) l.

Lemma sym_fold_panic : forall m l, fold_left (sym_step m) l Panic = Panic.
Proof. intros m l; induction l; cbn [fold_left]; auto. Qed.

Lemma sym_fold : forall m l acc,
  fold_left (sym_step m) l (Ok acc) =
  if existsb (conflictb m) l then Panic else Ok (fold_left setf (sym_sets l) acc).
Proof.
  intros m l; induction l as [|e l IH]; intros acc; cbn [fold_left existsb].
  - reflexivity.
  - rewrite sym_step_eq; cbn [obind]. destruct (conflictb m e); cbn [orb].
    + apply sym_fold_panic.
    + rewrite IH. reflexivity.
Qed.

Lemma existsb_false : forall {A} (f : A -> bool) l,
  existsb f l = false -> forall x, In x l -> f x = false.
Proof.
  intros A f l H x I. destruct (f x) eqn:E; auto.
  assert (existsb f l = true) by (apply existsb_exists; exists x; auto). congruence.
Qed.

Lemma conflictb_conflict : forall m, keys_unique m ->
  (existsb (conflictb m) m = true <-> conflict m).
Proof.
  intros m U. rewrite existsb_exists. split.
  - intros [[[a b] v] [I C]]. unfold conflictb, flip in C; cbn [fst snd] in C.
    apply andb_true_iff in C. destruct C as [C1 C2]. revert C2.
    destruct (mlookup (b, a) m) as [v2|] eqn:L; [|discriminate]. intros C2.
    exists a, b, v, v2. repeat split.
    + intros ->. rewrite N.eqb_refl in C1. discriminate.
    + apply in_mlookup; assumption.
    + exact L.
    + destruct (feq v2 v); [discriminate | reflexivity].
  - intros [a [b [v [v2 [N [L1 [L2 Fq]]]]]]].
    exists ((a, b), v). split; [apply mlookup_in; exact L1|].
    unfold conflictb, flip; cbn [fst snd]. rewrite L2, Fq.
    apply N.eqb_neq in N. rewrite N. reflexivity.
Qed.

Lemma in_sym_sets : forall m k y, keys_unique m -> In (k, y) (sym_sets m) ->
  mlookup k m = Some y \/ mlookup (flip k) m = Some y.
Proof.
  intros m k y U H. unfold sym_sets in H. apply in_flat_map in H.
  destruct H as [[k' v] [I H]]. cbn [fst snd In] in H.
  destruct H as [H|[H|[]]]; inversion H; subst.
  - left. apply in_mlookup; assumption.
  - right. rewrite flip_flip. apply in_mlookup; assumption.
Qed.

Lemma sym_sets_in : forall m k x, In (k, x) m ->
  In (k, x) (sym_sets m) /\ In (flip k, x) (sym_sets m).
Proof.
  intros m k x I. unfold sym_sets. split; apply in_flat_map; exists (k, x); split; auto;
    cbn [fst snd In]; auto.
Qed.

Lemma no_conflict_score : forall m k x y, keys_unique m ->
  existsb (conflictb m) m = false ->
  mlookup k m = Some x -> mlookup (flip k) m = Some y ->
  original_score m (flip k) x y.
Proof.
  intros m k x y U NC L1 L2. unfold original_score.
  destruct (N.eq_dec (fst k) (snd k)) as [E|N].
  - left. assert (flip k = k) by (destruct k; cbn in *; subst; reflexivity).
    rewrite H in L2. congruence.
  - right. split; [|exact L2].
    pose proof (existsb_false _ _ NC (k, x) (mlookup_in _ _ _ L1)) as C.
    unfold conflictb in C; cbn [fst snd] in C. rewrite L2 in C.
    apply N.eqb_neq in N. rewrite N in C. cbn [negb andb] in C.
    destruct (feq y x); [reflexivity | discriminate].
Qed.

Lemma symmetrical_exact : forall m, keys_unique m ->
  (symmetrical m = Panic <-> conflict m)
  /\ symmetrical m <> Err
  /\ forall r, symmetrical m = Ok r ->
       keys_unique r
       /\ (forall k y, mlookup k r = Some y ->
             mlookup k m = Some y \/ mlookup (flip k) m = Some y)
       /\ (forall k x, mlookup k m = Some x ->
             (exists y, mlookup k r = Some y /\ original_score m (flip k) x y)
             /\ (exists y, mlookup (flip k) r = Some y /\ original_score m (flip k) x y)).
Proof.
  intros m U. unfold symmetrical. rewrite sym_fold.
  pose proof (conflictb_conflict m U) as CC.
  destruct (existsb (conflictb m) m) eqn:EX.
  - split; [|split].
    + split; intros _; [apply CC; reflexivity | reflexivity].
    + discriminate.
    + intros r H; discriminate.
  - split; [|split].
    + split; [discriminate|]. intros C. apply CC in C. discriminate.
    + discriminate.
    + intros r H. inversion H; subst r; clear H. split; [|split].
      * apply fold_unique. constructor.
      * intros k y L. apply lookup_fold_some in L. destruct L as [L|L]; [|discriminate].
        apply in_sym_sets; assumption.
      * intros k x L.
        pose proof (mlookup_in _ _ _ L) as I.
        destruct (sym_sets_in m k x I) as [I1 I2].
        assert (V : forall kk y, kk = k \/ kk = flip k -> In (kk, y) (sym_sets m) ->
                    original_score m (flip k) x y).
        { intros kk y Hk Hin. apply (in_sym_sets m kk y U) in Hin.
          destruct Hk as [-> | ->].
          - destruct Hin as [Hin|Hin].
            + left. congruence.
            + apply no_conflict_score; assumption.
          - rewrite flip_flip in Hin. destruct Hin as [Hin|Hin].
            + apply no_conflict_score; assumption.
            + left. congruence. }
        split.
        -- destruct (lookup_fold_in (sym_sets m) [] k) as [y [Y1 Y2]].
           { apply (in_map fst) in I1. exact I1. }
           exists y; split; [exact Y1 | apply (V k); auto].
        -- destruct (lookup_fold_in (sym_sets m) [] (flip k)) as [y [Y1 Y2]].
           { apply (in_map fst) in I2. exact I2. }
           exists y; split; [exact Y1 | apply (V (flip k)); auto].
Qed.

(* ---- GoString -------------------------------------------------------------------- *)
Definition entry_lt (e1 e2 : key * F) : Prop := key_lt (fst e1) (fst e2).

Lemma key_ltb_lt : forall k1 k2, key_ltb k1 k2 = true <-> key_lt k1 k2.
Proof.
  intros [a b] [c d]. unfold key_ltb, key_lt; cbn [fst snd].
  rewrite orb_true_iff, andb_true_iff, !N.ltb_lt, N.eqb_eq. reflexivity.
Qed.

Lemma key_lt_total : forall k1 k2, key_ltb k1 k2 = false -> k1 <> k2 -> key_lt k2 k1.
Proof.
  intros [a b] [c d] H N. unfold key_ltb in H; cbn [fst snd] in H.
  apply orb_false_iff in H. destruct H as [H1 H2]. apply N.ltb_ge in H1.
  unfold key_lt; cbn [fst snd].
  destruct (N.eq_dec a c) as [->|Nac].
  - rewrite N.eqb_refl in H2. cbn [andb] in H2. apply N.ltb_ge in H2.
    right. split; auto. assert (b <> d) by (intros ->; apply N; reflexivity). lia.
  - left. lia.
Qed.

Lemma key_lt_trans : forall k1 k2 k3, key_lt k1 k2 -> key_lt k2 k3 -> key_lt k1 k3.
Proof.
  intros [a b] [c d] [e f]; unfold key_lt; cbn [fst snd]. lia.
Qed.

Lemma key_lt_irrefl : forall k, ~ key_lt k k.
Proof. intros [a b]; unfold key_lt; cbn [fst snd]. lia. Qed.

Lemma insert_perm : forall e l, Permutation (e :: l) (insert_entry e l).
Proof.
  intros e l; induction l as [|h t IH]; cbn [insert_entry].
  - apply Permutation_refl.
  - destruct (key_ltb (fst h) (fst e)).
    + eapply Permutation_trans; [apply perm_swap | apply perm_skip; exact IH].
    + apply Permutation_refl.
Qed.

Lemma sort_perm : forall m, Permutation m (go_string_entries m).
Proof.
  induction m as [|e m IH]; cbn [go_string_entries fold_right].
  - constructor.
  - eapply Permutation_trans; [apply perm_skip; exact IH | apply insert_perm].
Qed.

Lemma insert_sorted : forall e l,
  StronglySorted entry_lt l -> ~ In (fst e) (map fst l) ->
  StronglySorted entry_lt (insert_entry e l).
Proof.
  intros e l; induction l as [|h t IH]; intros S N; cbn [insert_entry].
  - constructor; constructor.
  - inversion S as [|? ? St Fh]; subst.
    cbn [map In] in N.
    destruct (key_ltb (fst h) (fst e)) eqn:E.
    + constructor.
      * apply IH; tauto.
      * apply (Permutation_Forall (insert_perm e t)).
        constructor; [apply key_ltb_lt; exact E | exact Fh].
    + assert (L : entry_lt e h).
      { apply key_lt_total; [exact E|]. intros Heq. apply N. left. exact Heq. }
      constructor; [exact S|].
      constructor; [exact L|].
      eapply Forall_impl; [|exact Fh]. intros a Ha. eapply key_lt_trans; eassumption.
Qed.

Lemma go_string_sorted_complete : forall m, keys_unique m ->
  StronglySorted (fun e1 e2 => key_lt (fst e1) (fst e2)) (go_string_entries m)
  /\ Permutation m (go_string_entries m).
Proof.
  intros m U. split; [|apply sort_perm].
  change (StronglySorted entry_lt (go_string_entries m)).
  unfold keys_unique in U.
  induction m as [|e m IH]; cbn [go_string_entries fold_right].
  - constructor.
  - cbn [map] in U. inversion U; subst. apply insert_sorted.
    + apply IH; assumption.
    + intros I. apply H1.
      eapply Permutation_in; [|exact I].
      apply Permutation_map. apply Permutation_sym. apply sort_perm.
Qed.
