(* Proofs/ImpProofsJ.v — translated source vs hand-written model, part 10: the FASTA
   reader (fasta.go, reader.read): the four-state machine over ReadByte / UnreadByte with its
   labelled break, and what is returned when the stream ends.  The *bufio.Reader is the value
   GoSem.go_stream; errors are codes (0 nil, 1 io.EOF, 2 any other error). *)
From Coq Require Import ZifyBool ZifyNat ZifyN.
From Bio Require Import Base.
From Bio.gen Require Import ImpGen.
From Bio.Model Require Import GoSem.
From Bio.Model Require Fasta.
From Bio.Proofs Require Import ImpProofs ImpProofsB.
Open Scope Z_scope.

Import Fasta.

Definition term_code (t : term) : Z := match t with TEOF => 1 | TErr => 2 end.
Definition st_code (s : state) : Z := match s with SStart => 0 | SNewLine => 1 | SName => 2 | SSeq => 3 end.
Definition fa (nm sq : bytes) : imp_fastard_Fasta := Imp_fastard_Fasta (rev nm) (rev sq).
Definition fa_zero : imp_fastard_Fasta := Imp_fastard_Fasta [] [].

Definition fr_state : Type := (bool * Z * imp_fastard_Fasta * N * Z * go_stream)%type.
Definition fr_result : Type := (go_stream * (imp_fastard_Fasta * Z))%type.
Definition fr_cond : fr_state -> res unit bool := (fun '(readAnything, state, result, b, err, rd__) => Ret (Z.eqb err 0%Z)).
Definition fr_body : fr_state -> res fr_state fr_result := (fun '(readAnything, state, result, b, err, rd__) => let readAnything := true in (if (Z.eqb state (0)%Z) then (if (N.eqb b 62%N) then let state := (2)%Z in let '(t__1, t__2, rd__) := go_readbyte rd__ in let b := t__1 in let err := t__2 in Next (readAnything, state, result, b, err, rd__) else let state := (3)%Z in (if (orb (N.eqb b 10%N) (N.eqb b 13%N)) then let state := (1)%Z in let '(t__1, t__2, rd__) := go_readbyte rd__ in let b := t__1 in let err := t__2 in Next (readAnything, state, result, b, err, rd__) else let result := (imp_fastard_Fasta_with_Sequence result ((imp_fastard_Fasta_Sequence result) ++ [b])) in let '(t__1, t__2, rd__) := go_readbyte rd__ in let b := t__1 in let err := t__2 in Next (readAnything, state, result, b, err, rd__))) else (if (Z.eqb state (3)%Z) then (if (orb (N.eqb b 10%N) (N.eqb b 13%N)) then let state := (1)%Z in let '(t__1, t__2, rd__) := go_readbyte rd__ in let b := t__1 in let err := t__2 in Next (readAnything, state, result, b, err, rd__) else let result := (imp_fastard_Fasta_with_Sequence result ((imp_fastard_Fasta_Sequence result) ++ [b])) in let '(t__1, t__2, rd__) := go_readbyte rd__ in let b := t__1 in let err := t__2 in Next (readAnything, state, result, b, err, rd__)) else (if (Z.eqb state (2)%Z) then (if (orb (N.eqb b 10%N) (N.eqb b 13%N)) then let state := (1)%Z in let '(t__1, t__2, rd__) := go_readbyte rd__ in let b := t__1 in let err := t__2 in Next (readAnything, state, result, b, err, rd__) else let result := (imp_fastard_Fasta_with_Name result ((imp_fastard_Fasta_Name result) ++ [b])) in let '(t__1, t__2, rd__) := go_readbyte rd__ in let b := t__1 in let err := t__2 in Next (readAnything, state, result, b, err, rd__)) else (if (Z.eqb state (1)%Z) then (if (orb (N.eqb b 10%N) (N.eqb b 13%N)) then let '(t__1, t__2, rd__) := go_readbyte rd__ in let b := t__1 in let err := t__2 in Next (readAnything, state, result, b, err, rd__) else (if (N.eqb b 62%N) then let rd__ := go_unreadbyte rd__ in Brk (readAnything, state, result, b, err, rd__) else let state := (3)%Z in let result := (imp_fastard_Fasta_with_Sequence result ((imp_fastard_Fasta_Sequence result) ++ [b])) in let '(t__1, t__2, rd__) := go_readbyte rd__ in let b := t__1 in let err := t__2 in Next (readAnything, state, result, b, err, rd__))) else let '(t__1, t__2, rd__) := go_readbyte rd__ in let b := t__1 in let err := t__2 in Next (readAnything, state, result, b, err, rd__)))))).
Definition fr_final : fr_state -> res unit fr_result := (fun '(readAnything, state, result, b, err, rd__) => (if (negb readAnything) then Ret (rd__, ((Imp_fastard_Fasta [] []), err)) else (if (andb (negb (Z.eqb err 0%Z)) (negb (Z.eqb err 1%Z))) then Ret (rd__, ((Imp_fastard_Fasta [] []), err)) else Ret (rd__, (result, 0%Z))))).

(* one byte of the model's loop *)
Definition fstep (st : state) (b : byte) (nm sq : bytes) : option (state * bytes * bytes) :=
  match st with
  | SStart => if (b =? GT)%N then Some (SName, nm, sq) else if is_nl b then Some (SNewLine, nm, sq) else Some (SSeq, nm, b :: sq)
  | SSeq => if is_nl b then Some (SNewLine, nm, sq) else Some (SSeq, nm, b :: sq)
  | SName => if is_nl b then Some (SNewLine, nm, sq) else Some (SName, b :: nm, sq)
  | SNewLine => if is_nl b then Some (SNewLine, nm, sq) else if (b =? GT)%N then None else Some (SSeq, nm, b :: sq)
  end.

Lemma rd_loop_step st nm sq any b rest :
  rd_loop st nm sq any (b :: rest)
  = match fstep st b nm sq with
    | Some (st', nm', sq') => rd_loop st' nm' sq' true rest
    | None => ((nm, sq, true), Some (b :: rest))
    end.
Proof.
  destruct st; cbn [rd_loop fstep]; repeat match goal with |- context [if ?c then _ else _] => destruct c end; reflexivity.
Qed.

Lemma fr_body_step any st nm sq b rest tc :
  fr_body (any, st_code st, fa nm sq, b, 0, Stream rest tc (Some b))
  = match fstep st b nm sq with
    | Some (st', nm', sq') =>
      let '(b', e', rd') := go_readbyte (Stream rest tc (Some b)) in
      Next (true, st_code st', fa nm' sq', b', e', rd')
    | None => Brk (true, st_code st, fa nm sq, b, 0, Stream (b :: rest) tc None)
    end.
Proof.
  unfold fr_body, fstep, is_nl, GT, LF, CR, fa. cbv beta iota zeta.
  destruct st; cbn [st_code Z.eqb Pos.eqb];
    destruct (b =? 62)%N, (b =? 10)%N, (b =? 13)%N; cbn [orb rev imp_fastard_Fasta_with_Sequence imp_fastard_Fasta_with_Name imp_fastard_Fasta_Sequence imp_fastard_Fasta_Name go_unreadbyte st_last st_rest st_term];
    reflexivity.
Qed.

Definition fr_outcome (tc : Z) (r : (bytes * bytes * bool) * option bytes) : res unit fr_result :=
  match r with
  | ((nm', sq', any'), Some rest') => Ret (Stream rest' tc None, (fa nm' sq', 0))
  | ((nm', sq', any'), None) =>
    if negb any' then Ret (Stream [] tc None, (fa_zero, tc))
    else if negb (tc =? 0) && negb (tc =? 1) then Ret (Stream [] tc None, (fa_zero, tc))
    else Ret (Stream [] tc None, (fa nm' sq', 0))
  end.

Lemma fr_loop tc : tc <> 0 -> forall rest fuel st nm sq any b, (length rest + 1 < fuel)%nat ->
  after (go_while fuel fr_cond fr_body (any, st_code st, fa nm sq, b, 0, Stream rest tc (Some b))) fr_final
  = fr_outcome tc (rd_loop st nm sq any (b :: rest)).
Proof.
  intros Htc. induction rest as [|b' rest IH]; intros fuel st nm sq any b Hf;
    (destruct fuel as [|fuel]; [lia|]); cbn [go_while]; unfold fr_cond at 1; cbv beta iota;
    cbn [Z.eqb]; rewrite fr_body_step, rd_loop_step;
    destruct (fstep st b nm sq) as [[[st' nm'] sq']|].
  - cbn [go_readbyte st_rest st_term]. cbv beta iota.
    destruct fuel as [|fuel]; [cbn [length] in Hf; lia|]. cbn [go_while]. unfold fr_cond at 1. cbv beta iota.
    replace (tc =? 0) with false by lia. cbn [after rd_loop fr_outcome negb]. unfold fr_final. cbv beta iota.
    cbn [negb]. reflexivity.
  - cbn [after fr_outcome]. unfold fr_final. cbv beta iota. cbn [negb Z.eqb andb]. reflexivity.
  - cbn [go_readbyte st_rest st_term]. cbv beta iota. apply IH. cbn [length] in Hf. lia.
  - cbn [after fr_outcome]. unfold fr_final. cbv beta iota. cbn [negb Z.eqb andb]. reflexivity.
Qed.

Definition fr_read_result (t : term) (r : rd_result) : res unit fr_result :=
  match r with
  | RdRec rc rest => Ret (Stream rest (term_code t) None, (Imp_fastard_Fasta (name rc) (seq rc), 0))
  | RdEOF => Ret (Stream [] 1 None, (fa_zero, 1))
  | RdErr => Ret (Stream [] 2 None, (fa_zero, 2))
  end.

Theorem imp_fasta_read fuel inp t : (length inp + 2 < fuel)%nat ->
  imp_fastard_reader_read fuel (Stream inp (term_code t) None) = fr_read_result t (read_one inp t).
Proof.
  intros Hf. unfold imp_fastard_reader_read, read_one. cbv zeta.
  assert (Htc : term_code t <> 0) by (destruct t; discriminate).
  destruct inp as [|b rest].
  - cbn [go_readbyte st_rest st_term rd_loop]. cbv beta iota.
    destruct fuel as [|fuel]; [lia|]. cbn [go_while]. replace (term_code t =? 0) with false by lia.
    cbn [after negb]. destruct t; reflexivity.
  - cbn [go_readbyte st_rest st_term]. cbv beta iota.
    change (go_while fuel _ _ (false, 0, Imp_fastard_Fasta [] [], b, 0, ?s))
      with (go_while fuel fr_cond fr_body (false, st_code SStart, fa [] [], b, 0, s)).
    change (after ?m _) with (after m fr_final).
    rewrite (fr_loop (term_code t) Htc rest fuel SStart [] [] false b) by (cbn [length] in Hf; lia).
    destruct (rd_loop SStart [] [] false (b :: rest)) as [[[nm sq] any] [rest'|]]; cbn [fr_outcome].
    + unfold fr_read_result, mk_result, fa. cbn [name seq]. rewrite !rev_append_rev, !app_nil_r. reflexivity.
    + destruct any; cbn [negb].
      * destruct t; cbn [term_code Z.eqb negb andb fr_read_result]; [|reflexivity].
        unfold mk_result, fa. cbn [name seq]. rewrite !rev_append_rev, !app_nil_r. reflexivity.
      * destruct t; reflexivity.
Qed.
