(* Proofs/ImpProofsJ.v — translated source vs hand-written model, part 10: the FASTA
   reader (fasta.go, reader.read): the four-state machine over ReadByte / UnreadByte with its
   labelled break, and what is returned when the stream ends.  The *bufio.Reader is the value
   GoSem.go_stream; errors are codes (0 nil, 1 io.EOF, 2 any other error). *)
From Coq Require Import ZifyBool ZifyNat ZifyN.
From Bio Require Import Base.
From Bio.gen Require Import ImpGen.
From Bio.Model Require Import GoSem.
From Bio.Model Require Fasta.
From Bio.Proofs Require Import ImpProofs ImpProofsB.
Open Scope Z_scope.

Import Fasta.

Definition term_code (t : term) : Z := match t with TEOF => 1 | TErr => 2 end.
Definition st_code (s : state) : Z := match s with SStart => 0 | SNewLine => 1 | SName => 2 | SSeq => 3 end.
Definition fa (nm sq : bytes) : imp_fastard_Fasta := Imp_fastard_Fasta (rev nm) (rev sq).
Definition fa_zero : imp_fastard_Fasta := Imp_fastard_Fasta [] [].

Definition fr_state : Type := (bool * Z * imp_fastard_Fasta * N * Z * go_stream)%type.
Definition fr_result : Type := (go_stream * (imp_fastard_Fasta * Z))%type.
Definition fr_cond : fr_state -> res unit bool := (fun '(readAnything, state, result, b, err, rd__) => Ret (Z.eqb err 0%Z)).
Definition fr_body : fr_state -> res fr_state fr_result := (fun '(readAnything, state, result, b, err, rd__) => let readAnything := true in (if (Z.eqb state (0)%Z) then (if (N.eqb b 62%N) then let state := (2)%Z in let '(t__1, t__2, rd__) := go_readbyte rd__ in let b := t__1 in let err := t__2 in Next (readAnything, state, result, b, err, rd__) else let state := (3)%Z in (if (orb (N.eqb b 10%N) (N.eqb b 13%N)) then let state := (1)%Z in let '(t__1, t__2, rd__) := go_readbyte rd__ in let b := t__1 in let err := t__2 in Next (readAnything, state, result, b, err, rd__) else let result := (imp_fastard_Fasta_with_Sequence result ((imp_fastard_Fasta_Sequence result) ++ [b])) in let '(t__1, t__2, rd__) := go_readbyte rd__ in let b := t__1 in let err := t__2 in Next (readAnything, state, result, b, err, rd__))) else (if (Z.eqb state (3)%Z) then (if (orb (N.eqb b 10%N) (N.eqb b 13%N)) then let state := (1)%Z in let '(t__1, t__2, rd__) := go_readbyte rd__ in let b := t__1 in let err := t__2 in Next (readAnything, state, result, b, err, rd__) else let result := (imp_fastard_Fasta_with_Sequence result ((imp_fastard_Fasta_Sequence result) ++ [b])) in let '(t__1, t__2, rd__) := go_readbyte rd__ in let b := t__1 in let err := t__2 in Next (readAnything, state, result, b, err, rd__)) else (if (Z.eqb state (2)%Z) then (if (orb (N.eqb b 10%N) (N.eqb b 13%N)) then let state := (1)%Z in let '(t__1, t__2, rd__) := go_readbyte rd__ in let b := t__1 in let err := t__2 in Next (readAnything, state, result, b, err, rd__) else let result := (imp_fastard_Fasta_with_Name result ((imp_fastard_Fasta_Name result) ++ [b])) in let '(t__1, t__2, rd__) := go_readbyte rd__ in let b := t__1 in let err := t__2 in Next (readAnything, state, result, b, err, rd__)) else (if (Z.eqb state (1)%Z) then (if (orb (N.eqb b 10%N) (N.eqb b 13%N)) then let '(t__1, t__2, rd__) := go_readbyte rd__ in let b := t__1 in let err := t__2 in Next (readAnything, state, result, b, err, rd__) else (if (N.eqb b 62%N) then let rd__ := go_unreadbyte rd__ in Brk (readAnything, state, result, b, err, rd__) else let state := (3)%Z in let result := (imp_fastard_Fasta_with_Sequence result ((imp_fastard_Fasta_Sequence result) ++ [b])) in let '(t__1, t__2, rd__) := go_readbyte rd__ in let b := t__1 in let err := t__2 in Next (readAnything, state, result, b, err, rd__))) else let '(t__1, t__2, rd__) := go_readbyte rd__ in let b := t__1 in let err := t__2 in Next (readAnything, state, result, b, err, rd__)))))).
Definition fr_final : fr_state -> res unit fr_result := (fun '(readAnything, state, result, b, err, rd__) => (if (negb readAnything) then Ret (rd__, ((Imp_fastard_Fasta [] []), err)) else (if (andb (negb (Z.eqb err 0%Z)) (negb (Z.eqb err 1%Z))) then Ret (rd__, ((Imp_fastard_Fasta [] []), err)) else Ret (rd__, (result, 0%Z))))).

(* one byte of the model's loop *)
Definition fstep (st : state) (b : byte) (nm sq : bytes) : option (state * bytes * bytes) :=
  match st with
  | SStart => if (b =? GT)%N then Some (SName, nm, sq) else if is_nl b then Some (SNewLine, nm, sq) else Some (SSeq, nm, b :: sq)
  | SSeq => if is_nl b then Some (SNewLine, nm, sq) else Some (SSeq, nm, b :: sq)
  | SName => if is_nl b then Some (SNewLine, nm, sq) else Some (SName, b :: nm, sq)
  | SNewLine => if is_nl b then Some (SNewLine, nm, sq) else if (b =? GT)%N then None else Some (SSeq, nm, b :: sq)
  end.

Lemma rd_loop_step st nm sq any b rest :
  rd_loop st nm sq any (b :: rest)
  = match fstep st b nm sq with
    | Some (st', nm', sq') => rd_loop st' nm' sq' true rest
    | None => ((nm, sq, true), Some (b :: rest))
    end.
Proof.
  destruct st; cbn [rd_loop fstep]; repeat match goal with |- context [if ?c then _ else _] => destruct c end; reflexivity.
Qed.

Lemma fr_body_step any st nm sq b rest tc :
  fr_body (any, st_code st, fa nm sq, b, 0, Stream rest tc (Some b))
  = match fstep st b nm sq with
    | Some (st', nm', sq') =>
      let '(b', e', rd') := go_readbyte (Stream rest tc (Some b)) in
      Next (true, st_code st', fa nm' sq', b', e', rd')
    | None => Brk (true, st_code st, fa nm sq, b, 0, Stream (b :: rest) tc None)
    end.
Proof.
  unfold fr_body, fstep, is_nl, GT, LF, CR, fa. cbv beta iota zeta.
  destruct st; cbn [st_code Z.eqb Pos.eqb];
    destruct (b =? 62)%N, (b =? 10)%N, (b =? 13)%N; cbn [orb rev imp_fastard_Fasta_with_Sequence imp_fastard_Fasta_with_Name imp_fastard_Fasta_Sequence imp_fastard_Fasta_Name go_unreadbyte st_last st_rest st_term];
    reflexivity.
Qed.

Definition fr_outcome (tc : Z) (r : (bytes * bytes * bool) * option bytes) : res unit fr_result :=
  match r with
  | ((nm', sq', any'), Some rest') => Ret (Stream rest' tc None, (fa nm' sq', 0))
  | ((nm', sq', any'), None) =>
    if negb any' then Ret (Stream [] tc None, (fa_zero, tc))
    else if negb (tc =? 0) && negb (tc =? 1) then Ret (Stream [] tc None, (fa_zero, tc))
    else Ret (Stream [] tc None, (fa nm' sq', 0))
  end.

Lemma fr_loop tc : tc <> 0 -> forall rest fuel st nm sq any b, (length rest + 1 < fuel)%nat ->
  after (go_while fuel fr_cond fr_body (any, st_code st, fa nm sq, b, 0, Stream rest tc (Some b))) fr_final
  = fr_outcome tc (rd_loop st nm sq any (b :: rest)).
Proof.
  intros Htc. induction rest as [|b' rest IH]; intros fuel st nm sq any b Hf;
    (destruct fuel as [|fuel]; [lia|]); cbn [go_while]; unfold fr_cond at 1; cbv beta iota;
    cbn [Z.eqb]; rewrite fr_body_step, rd_loop_step;
    destruct (fstep st b nm sq) as [[[st' nm'] sq']|].
  - cbn [go_readbyte st_rest st_term]. cbv beta iota.
    destruct fuel as [|fuel]; [cbn [length] in Hf; lia|]. cbn [go_while]. unfold fr_cond at 1. cbv beta iota.
    replace (tc =? 0) with false by lia. cbn [after rd_loop fr_outcome negb]. unfold fr_final. cbv beta iota.
    cbn [negb]. reflexivity.
  - cbn [after fr_outcome]. unfold fr_final. cbv beta iota. cbn [negb Z.eqb andb]. reflexivity.
  - cbn [go_readbyte st_rest st_term]. cbv beta iota. apply IH. cbn [length] in Hf. lia.
  - cbn [after fr_outcome]. unfold fr_final. cbv beta iota. cbn [negb Z.eqb andb]. reflexivity.
Qed.

Definition fr_read_result (t : term) (r : rd_result) : res unit fr_result :=
  match r with
  | RdRec rc rest => Ret (Stream rest (term_code t) None, (Imp_fastard_Fasta (name rc) (seq rc), 0))
  | RdEOF => Ret (Stream [] 1 None, (fa_zero, 1))
  | RdErr => Ret (Stream [] 2 None, (fa_zero, 2))
  end.

Theorem imp_fasta_read fuel inp t : (length inp + 2 < fuel)%nat ->
  imp_fastard_reader_read fuel (Stream inp (term_code t) None) = fr_read_result t (read_one inp t).
Proof.
  intros Hf. unfold imp_fastard_reader_read, read_one. cbv zeta.
  assert (Htc : term_code t <> 0) by (destruct t; discriminate).
  destruct inp as [|b rest].
  - cbn [go_readbyte st_rest st_term rd_loop]. cbv beta iota.
    destruct fuel as [|fuel]; [lia|]. cbn [go_while]. replace (term_code t =? 0) with false by lia.
    cbn [after negb]. destruct t; reflexivity.
  - cbn [go_readbyte st_rest st_term]. cbv beta iota.
    timeout 120 (change (go_while fuel _ _ (false, 0, Imp_fastard_Fasta [] [], b, 0, ?s))
      with (go_while fuel fr_cond fr_body (false, st_code SStart, fa [] [], b, 0, s))).
    change (after ?m _) with (after m fr_final).
    rewrite (fr_loop (term_code t) Htc rest fuel SStart [] [] false b) by (cbn [length] in Hf; lia).
    destruct (rd_loop SStart [] [] false (b :: rest)) as [[[nm sq] any] [rest'|]]; cbn [fr_outcome].
    + unfold fr_read_result, mk_result, fa. cbn [name seq]. rewrite !rev_append_rev, !app_nil_r. reflexivity.
    + destruct any; cbn [negb].
      * destruct t; cbn [term_code Z.eqb negb andb fr_read_result]; [|reflexivity].
        unfold mk_result, fa. cbn [name seq]. rewrite !rev_append_rev, !app_nil_r. reflexivity.
      * destruct t; reflexivity.
Qed.

(* ---- reader.iter: read() until it fails -------------------------------------------------------- *)
From Bio.Proofs Require FastaProofsB.

Definition fi_state : Type := (list (imp_fastard_Fasta * Z) * go_stream)%type.
Definition fi_body (fuel : nat) : fi_state -> res fi_state (go_stream * list (imp_fastard_Fasta * Z)) :=
  (fun '(out__, rd__) => go_call (imp_fastard_reader_read fuel rd__) (fun '(rd__, (t__1, t__2)) => let fa := t__1 in let err := t__2 in (if (negb (Z.eqb err 0%Z)) then (if (negb (Z.eqb err 1%Z)) then (let out__ := out__ ++ [((Imp_fastard_Fasta [] []), err)] in let t__3 := true in Brk (out__, rd__)) else Brk (out__, rd__)) else (let out__ := out__ ++ [(fa, 0%Z)] in let t__4 := true in (if (negb t__4) then Ret (rd__, out__) else Next (out__, rd__)))))).

Definition fa_item (t : term) (i : item fasta) : imp_fastard_Fasta * Z :=
  match i with
  | Rec r => (Imp_fastard_Fasta (name r) (seq r), 0)
  | ErrItem => (fa_zero, term_code t)
  end.

Lemma fi_loop t fuel : forall mf fw inp out,
  (length inp < mf)%nat -> (length inp + 1 < fw)%nat -> (length inp + 2 < fuel)%nat ->
  go_while fw (fun _ => Ret true) (fi_body fuel) (out, Stream inp (term_code t) None)
  = Next (out ++ map (fa_item t) (decode_fuel mf inp t), Stream [] (term_code t) None).
Proof.
  induction mf as [|mf IH]; intros fw inp out Hm Hw Hf; [lia|].
  destruct fw as [|fw]; [lia|]. cbn [go_while decode_fuel].
  unfold fi_body at 1. cbv beta iota.
  rewrite (imp_fasta_read fuel inp t Hf).
  destruct (read_one inp t) as [r rest| |] eqn:R; cbn [fr_read_result go_call]; cbv beta iota zeta.
  - cbn [Z.eqb negb map fa_item]. pose proof (FastaProofsB.read_one_rest inp t r rest R) as Hr.
    rewrite (IH fw rest) by lia. rewrite <- app_assoc. reflexivity.
  - cbn [Z.eqb Pos.eqb negb map]. rewrite app_nil_r. destruct t; [reflexivity|].
    (* RdEOF with a failing stream cannot happen: read_one gives RdErr *)
    exfalso. unfold read_one in R. destruct (rd_loop SStart [] [] false inp) as [[[nm sq] any] [rest|]]; [discriminate|].
    destruct (negb any); discriminate.
  - cbn [Z.eqb Pos.eqb negb map fa_item]. destruct t; [|reflexivity].
    exfalso. unfold read_one in R. destruct (rd_loop SStart [] [] false inp) as [[[nm sq] any] [rest|]]; [discriminate|].
    destruct (negb any); discriminate.
Qed.

Theorem imp_fasta_iter fuel inp t : (length inp + 2 < fuel)%nat ->
  imp_fastard_reader_iter fuel (Stream inp (term_code t) None)
  = Ret (Stream [] (term_code t) None, map (fa_item t) (decode inp t)).
Proof.
  intros Hf. unfold imp_fastard_reader_iter, decode. cbv zeta.
  timeout 120 (change (go_while fuel _ _ ([], ?s)) with (go_while fuel (fun _ => Ret true) (fi_body fuel) ([], s))).
  rewrite (fi_loop t fuel (S (length inp)) fuel inp []) by lia. reflexivity.
Qed.

(* ---- Reader(r): forwards the items of newReader(r).iter() ------------------------------------------- *)
Lemma copy_loop {A R} (items : list A) : forall j (out : list A) (rd : go_stream),
  go_iter (R := R) (fun p => (fun _ (x : A) '(out__, rd__) => (let out__ := out__ ++ [x] in let t__2 := true in (if (negb t__2) then Brk (out__, rd__) else Next (out__, rd__)))) (fst p) (snd p))
    (combine (zseq j (length items)) items) (out, rd)
  = Next (out ++ items, rd).
Proof.
  induction items as [|x items IH]; intros j out rd; cbn [length].
  - cbn. rewrite app_nil_r. reflexivity.
  - rewrite zseq_cons. cbn [combine go_iter fst snd negb]. rewrite IH, <- app_assoc. reflexivity.
Qed.

Theorem imp_fasta_Reader fuel inp t : (length inp + 2 < fuel)%nat ->
  imp_fastard_Reader fuel (Stream inp (term_code t) None)
  = Ret (Stream [] (term_code t) None, map (fa_item t) (decode inp t)).
Proof.
  intros Hf. unfold imp_fastard_Reader. cbv zeta. rewrite (imp_fasta_iter fuel inp t Hf). cbn [go_call].
  unfold go_range, indexed.
  match goal with |- context [go_iter ?f ?l ?s] =>
    replace (go_iter f l s) with (Next (R := go_stream * list (imp_fastard_Fasta * Z)) ([] ++ map (fa_item t) (decode inp t), Stream [] (term_code t) None)) end.
  - reflexivity.
  - symmetry. etransitivity; [|apply (copy_loop (map (fa_item t) (decode inp t)) 0 [] (Stream [] (term_code t) None))].
    apply go_iter_ext. intros [j [fa e]] [o r] _. reflexivity.
Qed.
