(* Proofs/FastaProofs.v — the writer: chunks, Write's shape, MarshalText's
   length self-check never fires. *)
From Bio Require Import Base.
From Bio.Model Require Import Fasta.
From Bio.Spec Require Import FastaSpec.

Lemma tll_eq : text_line_len = 80%nat.
Proof. reflexivity. Qed.

Lemma tll_pos : (1 <= text_line_len)%nat.
Proof. rewrite tll_eq. lia. Qed.

Local Opaque text_line_len.

Lemma chunks_aux_nil f : chunks_aux f [] = [].
Proof. destruct f; reflexivity. Qed.

Lemma chunks_aux_step f b s :
  chunks_aux (S f) (b :: s) =
  firstn text_line_len (b :: s) :: chunks_aux f (skipn text_line_len (b :: s)).
Proof. reflexivity. Qed.

Lemma skipn_shorter (b : byte) s f :
  (length (b :: s) <= S f)%nat -> (length (skipn text_line_len (b :: s)) <= f)%nat.
Proof.
  intros H. rewrite skipn_length. pose proof tll_pos. cbn [length] in *. lia.
Qed.

(* the fuel never truncates: the chunks concatenate to the whole sequence *)
Lemma chunks_aux_concat f : forall s, (length s <= f)%nat -> concat (chunks_aux f s) = s.
Proof.
  induction f as [|f IH]; intros s H.
  - destruct s; [reflexivity | cbn in H; lia].
  - destruct s as [|b s]; [reflexivity|].
    rewrite chunks_aux_step. cbn [concat].
    rewrite IH by (apply skipn_shorter; exact H).
    apply firstn_skipn.
Qed.

Lemma chunks_concat s : concat (chunks s) = s.
Proof. apply chunks_aux_concat. apply Nat.le_refl. Qed.

Lemma chunks_aux_nonnil f s : chunks_aux f s <> [] -> s <> [].
Proof. intros H E. subst. rewrite chunks_aux_nil in H. congruence. Qed.

(* every line has 1..80 bytes *)
Lemma chunks_aux_len f : forall s, (length s <= f)%nat ->
  Forall (fun c => (1 <= length c <= text_line_len)%nat) (chunks_aux f s).
Proof.
  induction f as [|f IH]; intros s H; [constructor|].
  destruct s as [|b s]; [constructor|].
  rewrite chunks_aux_step. constructor.
  - rewrite firstn_length. pose proof tll_pos. cbn [length]. lia.
  - apply IH. apply skipn_shorter. exact H.
Qed.

(* every line but the last has exactly 80 bytes *)
Lemma chunks_aux_full f : forall s, (length s <= f)%nat ->
  Forall (fun c => length c = text_line_len) (removelast (chunks_aux f s)).
Proof.
  induction f as [|f IH]; intros s H; [constructor|].
  destruct s as [|b s]; [constructor|].
  rewrite chunks_aux_step.
  destruct (chunks_aux f (skipn text_line_len (b :: s))) as [|c cs] eqn:E.
  - constructor.
  - change (removelast (firstn text_line_len (b :: s) :: c :: cs))
      with (firstn text_line_len (b :: s) :: removelast (c :: cs)).
    constructor.
    + assert (N : skipn text_line_len (b :: s) <> []).
      { apply (chunks_aux_nonnil f). rewrite E. discriminate. }
      rewrite firstn_length. apply Nat.min_l.
      destruct (Nat.le_gt_cases text_line_len (length (b :: s))) as [L|L]; [exact L|].
      exfalso. apply N. apply skipn_all2. lia.
    + rewrite <- E. apply IH. apply skipn_shorter. exact H.
Qed.

(* the number of lines: ceil(len/80) *)
Lemma chunks_aux_count f : forall s, (length s <= f)%nat ->
  length (chunks_aux f s) = ((length s + text_line_len - 1) / text_line_len)%nat.
Proof.
  induction f as [|f IH]; intros s H.
  - destruct s; [|cbn in H; lia]. cbn [chunks_aux length]. rewrite tll_eq. reflexivity.
  - destruct s as [|b s].
    + cbn [chunks_aux length]. rewrite tll_eq. reflexivity.
    + rewrite chunks_aux_step. cbn [length].
      rewrite IH by (apply skipn_shorter; exact H).
      rewrite skipn_length. cbn [length]. rewrite tll_eq.
      set (n := length s).
      destruct (Nat.le_gt_cases 80 (S n)) as [L|L].
      * replace (S n + 80 - 1)%nat with ((S n - 80 + 80 - 1) + 1 * 80)%nat by lia.
        rewrite Nat.div_add by lia. lia.
      * replace (S n - 80)%nat with 0%nat by lia.
        change ((0 + 80 - 1) / 80)%nat with 0%nat.
        apply (Nat.div_unique _ _ 1%nat (S n - 1)%nat); lia.
Qed.

Lemma length_concat_lines (nl : bytes) cs :
  length (concat (map (fun c => c ++ nl) cs)) = (length (concat cs) + length cs * length nl)%nat.
Proof.
  induction cs as [|c cs IH]; [reflexivity|].
  cbn [map concat length]. rewrite !app_length, IH. lia.
Qed.

Lemma write_eq r :
  write r = GT :: name r ++ [LF] ++ concat (map (fun c => c ++ [LF]) (chunks (seq r))).
Proof.
  unfold write, write_calls. cbn [concat app]. rewrite <- app_assoc. reflexivity.
Qed.

Lemma write_length r : length (write r) = marshal_len r.
Proof.
  rewrite write_eq. cbn [length]. rewrite !app_length, length_concat_lines, chunks_concat.
  unfold marshal_len, chunks. rewrite chunks_aux_count by apply Nat.le_refl.
  cbn [length]. lia.
Qed.

Lemma marshal_total r : marshal_text r = Ok (write r).
Proof. unfold marshal_text. rewrite write_length, Nat.eqb_refl. reflexivity. Qed.

(* the shape of Write's output, call by call *)
Lemma write_shape r :
  exists cs,
    write_calls r = (GT :: name r ++ [LF]) :: map (fun c => c ++ [LF]) cs
    /\ concat cs = seq r
    /\ Forall (fun c => (1 <= length c <= 80)%nat) cs
    /\ Forall (fun c => length c = 80%nat) (removelast cs)
    /\ length cs = ((length (seq r) + 79) / 80)%nat.
Proof.
  exists (chunks (seq r)). split; [reflexivity|]. split; [apply chunks_concat|].
  rewrite <- tll_eq. unfold chunks. repeat split.
  - apply chunks_aux_len, Nat.le_refl.
  - apply chunks_aux_full, Nat.le_refl.
  - rewrite chunks_aux_count by apply Nat.le_refl. rewrite tll_eq.
    f_equal. lia.
Qed.
