(* Proofs/FastaProofs.v *)
From Bio Require Import Base.
