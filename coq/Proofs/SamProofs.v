(* Proofs/SamProofs.v — flag bits (over gen/FlagGen.v, regenerated from flag.go
   on every run) and basic facts about Base.v vocabulary used by the SAM
   round trip: split/join, decimal printing and parsing, hex. *)
From Coq Require Import String DecimalZ DecimalPos.
From Bio Require Import Base.
From Bio.gen Require Import FlagGen.
From Bio.Model Require Import Sam.
From Bio.Spec Require Import SamSpec.

(* ================================================================== *)
(* Flags                                                               *)
Section FlagBits.
Open Scope Z_scope.

Lemma land_bit : forall f n, 0 <= n ->
  Z.land f (Z.shiftl 1 n) = if Z.testbit f n then 2 ^ n else 0.
Proof.
  intros f n Hn. rewrite Z.shiftl_1_l.
  apply Z.bits_inj'. intros m Hm.
  rewrite Z.land_spec, Z.pow2_bits_eqb by lia.
  destruct (Z.eqb_spec n m) as [->|Hne].
  - destruct (Z.testbit f m); cbn [andb].
    + rewrite Z.pow2_bits_eqb by lia. now rewrite Z.eqb_refl.
    + now rewrite Z.bits_0.
  - rewrite andb_false_r. destruct (Z.testbit f n).
    + rewrite Z.pow2_bits_eqb by lia. symmetry. now apply Z.eqb_neq.
    + now rewrite Z.bits_0.
Qed.

(* f & (1<<n) > 0  reads exactly bit n, for every integer f *)
Lemma getter_bit : forall f n, 0 <= n ->
  Z.gtb (Z.land f (Z.shiftl 1 n)) 0 = Z.testbit f n.
Proof.
  intros f n Hn. rewrite land_bit by lia.
  destruct (Z.testbit f n).
  - apply Z.gtb_lt. apply Z.pow_pos_nonneg; lia.
  - reflexivity.
Qed.

Lemma shiftl1_bit : forall n j, 0 <= n -> Z.testbit (Z.shiftl 1 n) j = (n =? j).
Proof.
  intros n j Hn. rewrite Z.shiftl_1_l.
  destruct (Z.ltb_spec j 0).
  - rewrite Z.testbit_neg_r by lia. symmetry. apply Z.eqb_neq. lia.
  - apply Z.pow2_bits_eqb. lia.
Qed.

(* f | (1<<n)  and  f &^ (1<<n)  write exactly bit n *)
Lemma setter_bit : forall f n (v : bool) j, 0 <= n ->
  Z.testbit (if v then Z.lor f (Z.shiftl 1 n) else Z.land f (Z.lnot (Z.shiftl 1 n))) j
  = if j =? n then v else Z.testbit f j.
Proof.
  intros f n v j Hn.
  destruct (Z.ltb_spec j 0) as [Hj|Hj].
  - rewrite !Z.testbit_neg_r by lia.
    destruct (Z.eqb_spec j n); [lia|reflexivity].
  - destruct v.
    + rewrite Z.lor_spec, shiftl1_bit by lia. rewrite (Z.eqb_sym n j).
      destruct (j =? n); [apply orb_true_r | apply orb_false_r].
    + rewrite Z.land_spec, Z.lnot_spec, shiftl1_bit by lia. rewrite (Z.eqb_sym n j).
      destruct (j =? n); cbn [negb]; [apply andb_false_r | apply andb_true_r].
Qed.

End FlagBits.

Definition getter_exact (p : string * (Z -> bool)) (q : string * Z) : Prop :=
  fst p = fst q /\ forall f : Z, snd p f = Z.testbit f (snd q).

Definition setter_exact (p : string * (Z -> bool -> Z)) (q : string * Z) : Prop :=
  fst p = fst q /\
  forall (f : Z) (v : bool) (j : Z),
    Z.testbit (snd p f v) j = if (j =? snd q)%Z then v else Z.testbit f j.

Definition const_exact (p : string * Z) (q : string * Z) : Prop :=
  fst p = ("Flag" ++ fst q)%string /\ snd p = (2 ^ snd q)%Z.

Lemma flag_getters_exact : Forall2 getter_exact flag_getters flag_spec_bits.
Proof.
  unfold flag_getters, flag_spec_bits.
  repeat (constructor;
    [split; [reflexivity
            | intro f; cbn [fst snd];
              match goal with |- ?g _ = _ => unfold g end;
              match goal with |- Z.gtb (Z.land _ ?c) _ = _ => unfold c end;
              apply getter_bit; lia] | ]).
  constructor.
Qed.

Lemma flag_setters_exact : Forall2 setter_exact flag_setters flag_spec_bits.
Proof.
  unfold flag_setters, flag_spec_bits.
  repeat (constructor;
    [split; [reflexivity
            | intros f v j; cbn [fst snd];
              match goal with |- Z.testbit (?s _ _) _ = _ => unfold s end;
              match goal with |- context [Z.lor _ ?c] => unfold c end;
              apply setter_bit; lia] | ]).
  constructor.
Qed.

Lemma flag_bits_are_spec : Forall2 const_exact flag_consts flag_spec_bits.
Proof.
  unfold flag_consts, flag_spec_bits.
  repeat (constructor; [split; reflexivity | ]).
  constructor.
Qed.

(* ================================================================== *)
(* Separator-free strings, split_on / join_with                        *)
Open Scope N_scope.     (* FlagGen.v opens Z_scope *)

Definition nosep (c : byte) (s : bytes) : Prop := Forall (fun x => (x =? c) = false) s.

Lemma nosep_app : forall c a b, nosep c a -> nosep c b -> nosep c (a ++ b).
Proof. intros. apply Forall_app. now split. Qed.

Lemma nosep_cons : forall c x a, (x =? c) = false -> nosep c a -> nosep c (x :: a).
Proof. intros. now constructor. Qed.

Lemma nosep_not_in : forall c s, nosep c s -> ~ In c s.
Proof.
  intros c s H Hin. unfold nosep in H. rewrite Forall_forall in H.
  apply H in Hin. rewrite N.eqb_refl in Hin. discriminate.
Qed.

Lemma memb_false_neq : forall b bad c, memb b bad = false -> In c bad -> (b =? c) = false.
Proof.
  intros b bad c H Hin. unfold memb in H.
  destruct (N.eqb_spec b c) as [->|]; [|reflexivity].
  assert (existsb (N.eqb c) bad = true) by (apply existsb_exists; exists c; split; [assumption|apply N.eqb_refl]).
  congruence.
Qed.

Lemma clean_nosep : forall bad c s, clean bad s -> In c bad -> nosep c s.
Proof.
  intros bad c s H Hin. unfold clean in H. unfold nosep.
  eapply Forall_impl; [|exact H]. intros b Hb. cbn beta in Hb.
  eapply memb_false_neq; eassumption.
Qed.

Lemma clean_sub : forall bad bad' s, clean bad s -> incl bad' bad -> clean bad' s.
Proof.
  intros bad bad' s H Hi. unfold clean in *.
  eapply Forall_impl; [|exact H]. intros b Hb. cbn beta in *.
  unfold memb in *. destruct (existsb (N.eqb b) bad') eqn:E; [|reflexivity].
  apply existsb_exists in E. destruct E as [x [Hx Hbx]].
  assert (existsb (N.eqb b) bad = true) by (apply existsb_exists; exists x; split; [apply Hi; assumption|assumption]).
  congruence.
Qed.

Lemma clean_app : forall bad a b, clean bad a -> clean bad b -> clean bad (a ++ b).
Proof. intros. apply Forall_app. now split. Qed.

Lemma split_on_nosep : forall c s, nosep c s -> split_on c s = [s].
Proof.
  intros c s H. induction H as [|x s Hx Hs IH]; [reflexivity|].
  cbn [split_on]. rewrite Hx, IH. reflexivity.
Qed.

Lemma split_on_app : forall c a b, nosep c a -> split_on c (a ++ c :: b) = a :: split_on c b.
Proof.
  intros c a b H. induction H as [|x s Hx Hs IH].
  - cbn [app split_on]. now rewrite N.eqb_refl.
  - cbn [app split_on]. rewrite Hx, IH. reflexivity.
Qed.

Lemma join_with_cons : forall sep x y l, join_with sep (x :: y :: l) = x ++ sep ++ join_with sep (y :: l).
Proof. reflexivity. Qed.

Lemma split_join : forall c fs, fs <> [] -> Forall (nosep c) fs ->
  split_on c (join_with [c] fs) = fs.
Proof.
  intros c fs Hne H. induction H as [|x l Hx Hl IH]; [congruence|].
  destruct l as [|y l].
  - cbn [join_with]. now apply split_on_nosep.
  - rewrite join_with_cons. cbn [app]. rewrite split_on_app by assumption.
    rewrite IH by discriminate. reflexivity.
Qed.

Lemma join_with_one_snoc : forall sep m x,
  x ++ concat (map (fun t => sep ++ t) m) = join_with sep (x :: m).
Proof.
  intros sep m. induction m as [|t m IH]; intro x.
  - cbn. apply app_nil_r.
  - rewrite join_with_cons. rewrite <- IH. cbn [map concat]. now rewrite <- app_assoc.
Qed.

Lemma join_with_snoc : forall sep l m, l <> [] ->
  join_with sep l ++ concat (map (fun t => sep ++ t) m) = join_with sep (l ++ m).
Proof.
  intros sep l m Hne. induction l as [|x l IH]; [congruence|].
  destruct l as [|y l].
  - cbn [app]. change (join_with sep [x]) with x. apply join_with_one_snoc.
  - change ((x :: y :: l) ++ m) with (x :: y :: (l ++ m)).
    rewrite !join_with_cons. rewrite <- !app_assoc. f_equal. f_equal.
    change (y :: l ++ m) with ((y :: l) ++ m). apply IH. discriminate.
Qed.

Lemma nosep_join : forall c sep fs, nosep c sep -> Forall (nosep c) fs -> nosep c (join_with sep fs).
Proof.
  intros c sep fs Hs H. induction H as [|x l Hx Hl IH]; [constructor|].
  destruct l as [|y l]; [exact Hx|].
  rewrite join_with_cons. apply nosep_app; [assumption|]. apply nosep_app; assumption.
Qed.

Lemma drop_cr_nosep : forall s, nosep CR s -> drop_cr s = s.
Proof.
  intros s H. induction H as [|x s Hx Hs IH]; [reflexivity|].
  destruct s as [|y s].
  - cbn [drop_cr]. change 13 with CR. now rewrite Hx.
  - change (drop_cr (x :: y :: s)) with (x :: drop_cr (y :: s)). now rewrite IH.
Qed.

Lemma drop_cr_snoc : forall s, drop_cr (s ++ [CR]) = s.
Proof.
  induction s as [|x s IH]; [reflexivity|].
  destruct s as [|y s]; [reflexivity|].
  change ((x :: y :: s) ++ [CR]) with (x :: y :: (s ++ [CR])).
  change (drop_cr (x :: y :: s ++ [CR])) with (x :: drop_cr ((y :: s) ++ [CR])).
  now rewrite IH.
Qed.

(* bytes >= 14 are none of TAB CR LF *)
Lemma ge14_clean : forall s, Forall (fun c => 14 <= c) s -> clean [TAB; CR; LF] s.
Proof.
  intros s H. unfold clean. eapply Forall_impl; [|exact H].
  intros b Hb. cbn beta in Hb. unfold memb, existsb, TAB, CR, LF.
  destruct (N.eqb_spec b 9); [lia|]. destruct (N.eqb_spec b 13); [lia|].
  destruct (N.eqb_spec b 10); [lia|]. reflexivity.
Qed.

(* ================================================================== *)
(* strconv.Itoa / Atoi                                                 *)

Lemma bytes_uint_uint_bytes : forall u, bytes_uint (uint_bytes u) = Some u.
Proof. induction u; cbn [uint_bytes bytes_uint]; try rewrite IHu; reflexivity. Qed.

Lemma uint_bytes_ge48 : forall u, Forall (fun c => 48 <= c) (uint_bytes u).
Proof. induction u; cbn [uint_bytes]; constructor; (lia || assumption). Qed.

Lemma parse_digits_uint_bytes : forall u, u <> Decimal.Nil ->
  parse_digits (uint_bytes u) = Some (Z.of_uint u).
Proof.
  intros u Hu. unfold parse_digits. rewrite bytes_uint_uint_bytes.
  destruct u; try congruence; reflexivity.
Qed.

Lemma pos_to_uint_nonnil : forall p, Pos.to_uint p <> Decimal.Nil.
Proof. exact DecimalPos.Unsigned.to_uint_nonnil. Qed.

Lemma int64b_true : forall z, int64 z -> int64b z = true.
Proof.
  intros z [H1 H2]. unfold int64b. apply andb_true_intro. split.
  - now apply Z.leb_le.
  - now apply Z.ltb_lt.
Qed.

(* the first byte of a non-empty digit string is not '+' or '-' *)
Lemma atoi_digits : forall u, u <> Decimal.Nil ->
  atoi (uint_bytes u) = if int64b (Z.of_uint u) then Some (Z.of_uint u) else None.
Proof.
  intros u Hu. pose proof (parse_digits_uint_bytes u Hu) as Hp.
  unfold atoi. destruct u; try congruence; cbn [uint_bytes] in *; rewrite Hp; reflexivity.
Qed.

Lemma atoi_itoa : forall z, int64 z -> atoi (itoa z) = Some z.
Proof.
  intros z Hz. pose proof (DecimalZ.of_to z) as Hof.
  unfold itoa. unfold Z.to_int in *. destruct z as [|p|p].
  - reflexivity.
  - rewrite atoi_digits by apply pos_to_uint_nonnil.
    cbn [Z.of_int] in Hof. rewrite Hof. now rewrite int64b_true.
  - cbn [Z.of_int] in Hof.
    unfold atoi. rewrite parse_digits_uint_bytes by apply pos_to_uint_nonnil.
    cbn [option_map]. rewrite Hof. now rewrite int64b_true.
Qed.

Lemma itoa_ge45 : forall z, Forall (fun c => 14 <= c) (itoa z).
Proof.
  intro z. unfold itoa. destruct (Z.to_int z).
  - eapply Forall_impl; [|apply uint_bytes_ge48]. cbn beta. intros; lia.
  - constructor; [lia|]. eapply Forall_impl; [|apply uint_bytes_ge48]. cbn beta. intros; lia.
Qed.

Lemma itoa_clean : forall z, clean [TAB; CR; LF] (itoa z).
Proof. intro z. apply ge14_clean, itoa_ge45. Qed.

(* ================================================================== *)
(* hex                                                                 *)

Lemma hex_digit_ge : forall n, 14 <= hex_digit n.
Proof. intro n. unfold hex_digit. destruct (n <? 10); lia. Qed.

Lemma hex_encode_clean : forall h, clean [TAB; CR; LF] (hex_encode h).
Proof.
  intro h. apply ge14_clean. unfold hex_encode.
  induction h as [|b h IH]; [constructor|].
  cbn [flat_map app]. constructor; [apply hex_digit_ge|]. constructor; [apply hex_digit_ge|]. exact IH.
Qed.

Lemma hex_val_digit : forall n, n < 16 -> hex_val (hex_digit n) = Some n.
Proof.
  intros n Hn.
  assert (H : forallb (fun k => match hex_val (hex_digit k) with Some m => m =? k | None => false end)
                (map N.of_nat (seq 0 16)) = true) by (vm_compute; reflexivity).
  rewrite forallb_forall in H. specialize (H n).
  assert (Hin : In n (map N.of_nat (seq 0 16))).
  { apply in_map_iff. exists (N.to_nat n). split; [apply N2Nat.id|]. apply in_seq. lia. }
  apply H in Hin. destruct (hex_val (hex_digit n)); [|discriminate].
  apply N.eqb_eq in Hin. now subst.
Qed.

Lemma hex_decode_encode : forall h, Forall (fun b => b < 256) h -> hex_decode (hex_encode h) = Some h.
Proof.
  intros h H. induction H as [|b h Hb Hh IH]; [reflexivity|].
  unfold hex_encode in *. cbn [flat_map app]. cbn [hex_decode].
  rewrite !hex_val_digit.
  - rewrite IH. f_equal. f_equal. symmetry. apply N.div_mod. lia.
  - apply N.mod_lt. lia.
  - apply N.div_lt_upper_bound; lia.
Qed.
