(* Proofs/SamProofs.v *)
From Bio Require Import Base.
