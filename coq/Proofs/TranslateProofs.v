(* Proofs/TranslateProofs.v — C14: Translate, TranslateReadingFrames, AminoName. *)
From Coq Require Import String.
From Bio Require Import Base.
From Bio.gen Require Import Tables.
From Bio.Model Require Import Seq.
From Bio.Spec Require Import SeqSpec.

(* ---- finite sweeps over the regenerated tables --------------------------- *)
Definition tcag : bytes := [84; 67; 65; 71].
Definition idx4 : list nat := [0; 1; 2; 3]%nat.

Definition opt_eqb (a b : option byte) : bool :=
  match a, b with Some x, Some y => x =? y | None, None => true | _, _ => false end.

Lemma opt_eqb_eq a b : opt_eqb a b = true -> a = b.
Proof. destruct a, b; simpl; try congruence. intros H; apply N.eqb_eq in H; congruence. Qed.

Definition genetic_code_check : bool :=
  forallb (fun i => forallb (fun j => forallb (fun k =>
    opt_eqb (codon_lookup (nth i tcag 0) (nth j tcag 0) (nth k tcag 0))
            (nth_error ncbi1 (16 * i + 4 * j + k))) idx4) idx4) idx4.

Lemma genetic_code_check_ok : genetic_code_check = true.
Proof. vm_compute. reflexivity. Qed.

Lemma in_idx4 i : (i < 4)%nat -> In i idx4.
Proof. intros H. unfold idx4. simpl. lia. Qed.

Lemma lookup_code i j k : (i < 4)%nat -> (j < 4)%nat -> (k < 4)%nat ->
  codon_lookup (nth i tcag 0) (nth j tcag 0) (nth k tcag 0) = nth_error ncbi1 (16 * i + 4 * j + k).
Proof.
  intros Hi Hj Hk. pose proof genetic_code_check_ok as H. unfold genetic_code_check in H.
  rewrite forallb_forall in H. specialize (H i (in_idx4 i Hi)).
  rewrite forallb_forall in H. specialize (H j (in_idx4 j Hj)).
  rewrite forallb_forall in H. specialize (H k (in_idx4 k Hk)).
  apply opt_eqb_eq. exact H.
Qed.

(* every entry of the table is over upper-case ACGT *)
Definition is_acgt (x : byte) : bool := (x =? 84) || (x =? 67) || (x =? 65) || (x =? 71).

Definition table_acgt_check : bool :=
  forallb (fun e => match e with (x, y, z, _) => is_acgt x && is_acgt y && is_acgt z end) codon_tab.

Lemma table_acgt_ok : table_acgt_check = true.
Proof. vm_compute. reflexivity. Qed.

Lemma lookup_some_acgt x y z aa : codon_lookup x y z = Some aa ->
  is_acgt x = true /\ is_acgt y = true /\ is_acgt z = true.
Proof.
  unfold codon_lookup. destruct (find _ codon_tab) as [[[[x' y'] z'] a']|] eqn:F; [|discriminate].
  intros _. apply find_some in F. destruct F as [Hin Hp].
  pose proof table_acgt_ok as T. unfold table_acgt_check in T. rewrite forallb_forall in T.
  specialize (T _ Hin). simpl in T.
  apply andb_true_iff in Hp. destruct Hp as [Hp Hz]. apply andb_true_iff in Hp. destruct Hp as [Hx Hy].
  apply N.eqb_eq in Hx, Hy, Hz. subst.
  apply andb_true_iff in T. destruct T as [T Tz]. apply andb_true_iff in T. destruct T as [Tx Ty]. auto.
Qed.

(* ---- the casing rule ------------------------------------------------------ *)
(* index in TCAG of an upper-case base *)
Definition upper_index (x : byte) : option nat :=
  if x =? 84 then Some 0%nat else if x =? 67 then Some 1%nat else
  if x =? 65 then Some 2%nat else if x =? 71 then Some 3%nat else None.

Lemma upper_index_acgt x : is_acgt x = true -> exists i, upper_index x = Some i.
Proof.
  unfold is_acgt, upper_index. intros H.
  destruct (x =? 84); [eauto|]. destruct (x =? 67); [eauto|]. destruct (x =? 65); [eauto|].
  destruct (x =? 71); [eauto|]. discriminate.
Qed.

Lemma upper_index_nth x i : upper_index x = Some i -> (i < 4)%nat /\ nth i tcag 0 = x.
Proof.
  unfold upper_index.
  destruct (N.eqb_spec x 84); [intros H; inversion H; subst; simpl; split; [lia|reflexivity]|].
  destruct (N.eqb_spec x 67); [intros H; inversion H; subst; simpl; split; [lia|reflexivity]|].
  destruct (N.eqb_spec x 65); [intros H; inversion H; subst; simpl; split; [lia|reflexivity]|].
  destruct (N.eqb_spec x 71); [intros H; inversion H; subst; simpl; split; [lia|reflexivity]|].
  discriminate.
Qed.

Lemma go_upper_index a : upper_index (go_upper a) = base_index a.
Proof.
  unfold go_upper, upper_index, base_index.
  destruct (N.leb_spec 97 a) as [Hge|Hlt].
  - (* a >= 97: compare a - 32 *)
    destruct (N.eqb_spec a 116) as [->|n1]; [reflexivity|].
    destruct (N.eqb_spec a 99) as [->|n2]; [reflexivity|].
    destruct (N.eqb_spec a 97) as [->|n3]; [reflexivity|].
    destruct (N.eqb_spec a 103) as [->|n4]; [reflexivity|].
    replace (a =? 84) with false by (symmetry; apply N.eqb_neq; lia).
    replace (a =? 67) with false by (symmetry; apply N.eqb_neq; lia).
    replace (a =? 65) with false by (symmetry; apply N.eqb_neq; lia).
    replace (a =? 71) with false by (symmetry; apply N.eqb_neq; lia).
    replace (a - 32 =? 84) with false by (symmetry; apply N.eqb_neq; lia).
    replace (a - 32 =? 67) with false by (symmetry; apply N.eqb_neq; lia).
    replace (a - 32 =? 65) with false by (symmetry; apply N.eqb_neq; lia).
    replace (a - 32 =? 71) with false by (symmetry; apply N.eqb_neq; lia).
    reflexivity.
  - replace (a =? 116) with false by (symmetry; apply N.eqb_neq; lia).
    replace (a =? 99) with false by (symmetry; apply N.eqb_neq; lia).
    replace (a =? 97) with false by (symmetry; apply N.eqb_neq; lia).
    replace (a =? 103) with false by (symmetry; apply N.eqb_neq; lia).
    rewrite !orb_false_r. reflexivity.
Qed.

Lemma upper_index_none x : upper_index x = None -> is_acgt x = false.
Proof.
  unfold upper_index, is_acgt.
  destruct (x =? 84); [discriminate|]. destruct (x =? 67); [discriminate|].
  destruct (x =? 65); [discriminate|]. destruct (x =? 71); [discriminate|]. reflexivity.
Qed.

(* the model's codon step equals the standard genetic code, for all a b c : N *)
Lemma codon_exact a b c :
  codon_lookup (go_upper a) (go_upper b) (go_upper c) = std_amino a b c.
Proof.
  unfold std_amino. rewrite <- !go_upper_index.
  destruct (upper_index (go_upper a)) as [i|] eqn:Ea.
  - destruct (upper_index (go_upper b)) as [j|] eqn:Eb.
    + destruct (upper_index (go_upper c)) as [k|] eqn:Ec.
      * apply upper_index_nth in Ea, Eb, Ec. destruct Ea as [Hi <-], Eb as [Hj <-], Ec as [Hk <-].
        apply lookup_code; assumption.
      * destruct (codon_lookup _ _ _) eqn:L; [|reflexivity].
        apply lookup_some_acgt in L. destruct L as (_ & _ & L).
        apply upper_index_none in Ec. congruence.
    + destruct (codon_lookup _ _ _) eqn:L; [|reflexivity].
      apply lookup_some_acgt in L. destruct L as (_ & L & _).
      apply upper_index_none in Eb. congruence.
  - destruct (codon_lookup _ _ _) eqn:L; [|reflexivity].
    apply lookup_some_acgt in L. destruct L as (L & _ & _).
    apply upper_index_none in Ea. congruence.
Qed.

(* every codon of the standard code is defined: the ncbi1 string has 64 entries *)
Lemma std_amino_some a b c i j k :
  base_index a = Some i -> base_index b = Some j -> base_index c = Some k ->
  exists x, std_amino a b c = Some x.
Proof.
  intros Ha Hb Hc. unfold std_amino. rewrite Ha, Hb, Hc.
  assert (Hi : (i < 4)%nat) by (rewrite <- go_upper_index in Ha; apply upper_index_nth in Ha; tauto).
  assert (Hj : (j < 4)%nat) by (rewrite <- go_upper_index in Hb; apply upper_index_nth in Hb; tauto).
  assert (Hk : (k < 4)%nat) by (rewrite <- go_upper_index in Hc; apply upper_index_nth in Hc; tauto).
  destruct (nth_error ncbi1 (16 * i + 4 * j + k)) eqn:E; [eauto|].
  apply nth_error_None in E. assert (L : length ncbi1 = 64%nat) by (vm_compute; reflexivity). lia.
Qed.

(* ---- Translate ------------------------------------------------------------ *)
Lemma translate_codons_exact s :
  translate_codons s = match std_translate s with Some l => Ok l | None => Panic end.
Proof.
  induction s as [s IH] using (well_founded_induction (Wf_nat.well_founded_ltof _ (@length N))).
  destruct s as [|a [|b [|c r]]]; try reflexivity.
  cbn [translate_codons std_translate]. rewrite codon_exact.
  destruct (std_amino a b c) as [x|]; [|reflexivity].
  rewrite IH by (unfold Wf_nat.ltof; simpl; lia).
  destruct (std_translate r); reflexivity.
Qed.

Lemma std_translate_len s l : std_translate s = Some l -> length s = (3 * length l)%nat.
Proof.
  revert l. induction s as [s IH] using (well_founded_induction (Wf_nat.well_founded_ltof _ (@length N))).
  intros l. destruct s as [|a [|b [|c r]]]; cbn [std_translate]; try discriminate.
  - intros H; inversion H; reflexivity.
  - destruct (std_amino a b c); [|discriminate]. destruct (std_translate r) eqn:E; [|discriminate].
    intros H; inversion H; subst. apply IH in E; [|unfold Wf_nat.ltof; simpl; lia]. simpl. lia.
Qed.

Lemma translate_exact dst s :
  translate dst s = match std_translate s with Some l => Ok (dst ++ l) | None => Panic end.
Proof.
  unfold translate. rewrite translate_codons_exact.
  destruct (std_translate s) as [l|] eqn:E.
  - apply std_translate_len in E. rewrite E.
    replace (N.of_nat (3 * length l) mod 3 =? 0) with true; [reflexivity|].
    symmetry. apply N.eqb_eq. rewrite Nat2N.inj_mul. rewrite N.mul_comm. apply N.mod_mul. discriminate.
  - destruct (_ =? 0); reflexivity.
Qed.

Lemma std_translate_app s t ls :
  std_translate s = Some ls ->
  std_translate (s ++ t) = match std_translate t with Some lt => Some (ls ++ lt) | None => None end.
Proof.
  revert ls. induction s as [s IH] using (well_founded_induction (Wf_nat.well_founded_ltof _ (@length N))).
  intros ls. destruct s as [|a [|b [|c r]]]; cbn [std_translate]; try discriminate.
  - intros H; inversion H; subst. simpl. destruct (std_translate t); reflexivity.
  - destruct (std_amino a b c) as [x|] eqn:Ex; [|discriminate].
    destruct (std_translate r) as [lr|] eqn:Er; [|discriminate].
    intros H; inversion H; subst. change ((a :: b :: c :: r) ++ t) with (a :: b :: c :: (r ++ t)).
    cbn [std_translate]. rewrite Ex. rewrite (IH r) with (ls := lr); [|unfold Wf_nat.ltof; simpl; lia|assumption].
    destruct (std_translate t); reflexivity.
Qed.

(* characterisation of failure *)
Lemma std_translate_some_iff s :
  (exists l, std_translate s = Some l) <->
  (Nat.modulo (length s) 3 = 0%nat /\ Forall (fun b => is_dna8 b = true) s).
Proof.
  induction s as [s IH] using (well_founded_induction (Wf_nat.well_founded_ltof _ (@length N))).
  destruct s as [|a [|b [|c r]]]; cbn [std_translate].
  - split; [intros _; split; [reflexivity|constructor]|eauto].
  - split; [intros [l H]; discriminate|intros [H _]; discriminate].
  - split; [intros [l H]; discriminate|intros [H _]; discriminate].
  - assert (Hr : (length r < length (a :: b :: c :: r))%nat) by (simpl; lia).
    specialize (IH r Hr).
    replace (Nat.modulo (length (a :: b :: c :: r)) 3) with (Nat.modulo (length r) 3)
      by (simpl length; replace (S (S (S (length r)))) with (length r + 1 * 3)%nat by lia;
          rewrite Nat.mod_add by discriminate; reflexivity).
    split.
    + intros [l H]. destruct (std_amino a b c) as [x|] eqn:Ex; [|discriminate].
      destruct (std_translate r) as [lr|] eqn:Er; [|discriminate].
      destruct IH as [IH _]. destruct IH as [Hm Hf]; [eauto|].
      split; [assumption|].
      unfold std_amino in Ex.
      destruct (base_index a) eqn:Ea; [|discriminate]. destruct (base_index b) eqn:Eb; [|discriminate].
      destruct (base_index c) eqn:Ec; [|discriminate].
      repeat constructor; try assumption; unfold is_dna8; rewrite ?Ea, ?Eb, ?Ec; reflexivity.
    + intros [Hm Hf]. inversion Hf as [|? ? Ha Hf1]; subst. inversion Hf1 as [|? ? Hb Hf2]; subst.
      inversion Hf2 as [|? ? Hc Hf3]; subst.
      destruct IH as [_ IH]. destruct IH as [lr Er]; [split; assumption|].
      unfold is_dna8 in Ha, Hb, Hc.
      destruct (base_index a) as [i|] eqn:Ea; [|discriminate].
      destruct (base_index b) as [j|] eqn:Eb; [|discriminate].
      destruct (base_index c) as [k|] eqn:Ec; [|discriminate].
      destruct (std_amino_some a b c i j k Ea Eb Ec) as [x Ex].
      rewrite Ex, Er. eauto.
Qed.

(* ---- TranslateReadingFrames ------------------------------------------------ *)
Lemma frame_len_mod s i : Nat.modulo (length (frame s i)) 3 = 0%nat.
Proof.
  unfold frame. set (sub := skipn _ s).
  rewrite firstn_length. 
  assert (H : (length sub / 3 * 3 <= length sub)%nat).
  { rewrite Nat.mul_comm. apply Nat.mul_div_le. discriminate. }
  rewrite Nat.min_l by exact H. apply Nat.mod_mul. discriminate.
Qed.

Lemma Forall_skipn {A} (P : A -> Prop) n l : Forall P l -> Forall P (skipn n l).
Proof. revert l; induction n; intros l H; simpl; [assumption|]. destruct l; [constructor|]. inversion H; auto. Qed.

Lemma Forall_firstn {A} (P : A -> Prop) n l : Forall P l -> Forall P (firstn n l).
Proof. revert l; induction n; intros l H; simpl; [constructor|]. destruct l; [constructor|]. inversion H; subst; constructor; auto. Qed.

Lemma frame_dna8 s i : Forall (fun b => is_dna8 b = true) s -> Forall (fun b => is_dna8 b = true) (frame s i).
Proof. intros H. unfold frame. apply Forall_firstn. apply Forall_skipn. exact H. Qed.

Lemma frames_total s :
  Forall (fun b => is_dna8 b = true) s ->
  exists f0 f1 f2, frames s = Ok [f0; f1; f2]
    /\ translate [] (frame s 0) = Ok f0 /\ translate [] (frame s 1) = Ok f1 /\ translate [] (frame s 2) = Ok f2.
Proof.
  intros H. unfold frames.
  assert (T : forall i, exists l, translate [] (frame s i) = Ok l).
  { intros i. rewrite translate_exact.
    destruct (proj2 (std_translate_some_iff (frame s i))) as [l E].
    - split; [apply frame_len_mod|apply frame_dna8; exact H].
    - rewrite E. eauto. }
  destruct (T 0%nat) as [f0 E0], (T 1%nat) as [f1 E1], (T 2%nat) as [f2 E2].
  rewrite E0, E1, E2. eauto 8.
Qed.

(* ---- AminoName -------------------------------------------------------------- *)
Definition amino_check (b : N) : bool :=
  let u := upper_byte b in
  match amino_name b with
  | Ok (code, name) => memb u amino_acids && negb (beqb code []) && negb (beqb name [])
  | _ => negb (memb u amino_acids)
  end.

Definition bytes256 : list N := map N.of_nat (seq 0 256).

Lemma amino_check_all : forallb amino_check bytes256 = true.
Proof. vm_compute. reflexivity. Qed.

Lemma in_bytes256 b : b < 256 -> In b bytes256.
Proof.
  intros H. unfold bytes256. apply in_map_iff. exists (N.to_nat b). split; [apply N2Nat.id|].
  apply in_seq. lia.
Qed.

Lemma amino_check_ok b : b < 256 -> amino_check b = true.
Proof. intros H. pose proof amino_check_all as A. rewrite forallb_forall in A. apply A. apply in_bytes256. exact H. Qed.

Lemma amino_name_not_byte b : 256 <= b -> amino_name b = Panic.
Proof.
  intros H. unfold amino_name, tab_get.
  replace (nth_error amino_tab (N.to_nat b)) with (@None (option (list N * list N))); [reflexivity|].
  symmetry. apply nth_error_None. 
  assert (L : length amino_tab = 256%nat) by (vm_compute; reflexivity). lia.
Qed.

(* ---- statements used by Properties/C14.v ------------------------------------- *)
Definition dna8 (s : bytes) : Prop := Forall (fun b => is_dna8 b = true) s.

Lemma one_codon dst a b c :
  translate dst [a; b; c] = match std_amino a b c with Some x => Ok (dst ++ [x]) | None => Panic end.
Proof. rewrite translate_exact. cbn [std_translate]. destruct (std_amino a b c); reflexivity. Qed.

Lemma translate_concat dst s t ls lt :
  translate [] s = Ok ls -> translate [] t = Ok lt -> translate dst (s ++ t) = Ok (dst ++ ls ++ lt).
Proof.
  rewrite !translate_exact. destruct (std_translate s) as [ls'|] eqn:Es; [|discriminate].
  destruct (std_translate t) as [lt'|] eqn:Et; [|discriminate].
  intros H1 H2. inversion H1; inversion H2; subst. rewrite (std_translate_app s t _ Es), Et. reflexivity.
Qed.

Lemma translate_ok_iff dst s :
  (exists l, translate dst s = Ok (dst ++ l) /\ length s = (3 * length l)%nat) <->
  (Nat.modulo (length s) 3 = 0%nat /\ dna8 s).
Proof.
  rewrite translate_exact. rewrite <- std_translate_some_iff. split.
  - intros [l [H _]]. destruct (std_translate s); [eauto|discriminate].
  - intros [l E]. rewrite E. exists l. split; [reflexivity|]. apply std_translate_len; assumption.
Qed.

Lemma translate_panics_iff dst s :
  translate dst s = Panic <-> ~ (Nat.modulo (length s) 3 = 0%nat /\ dna8 s).
Proof.
  rewrite translate_exact. rewrite <- std_translate_some_iff. split.
  - destruct (std_translate s); [discriminate|]. intros _ [l H]. discriminate.
  - intros H. destruct (std_translate s) as [l|]; [|reflexivity]. exfalso. apply H. eauto.
Qed.

Lemma frames_spec s : dna8 s ->
  exists f0 f1 f2, frames s = Ok [f0; f1; f2]
    /\ translate [] (firstn (length (skipn 0 s) / 3 * 3) (skipn 0 s)) = Ok f0
    /\ translate [] (firstn (length (skipn 1 s) / 3 * 3) (skipn 1 s)) = Ok f1
    /\ translate [] (firstn (length (skipn 2 s) / 3 * 3) (skipn 2 s)) = Ok f2.
Proof.
  intros H. destruct (frames_total s H) as (f0 & f1 & f2 & E & E0 & E1 & E2).
  exists f0, f1, f2. split; [exact E|].
  assert (K : forall i, frame s i = firstn (length (skipn i s) / 3 * 3) (skipn i s)).
  { intros i. unfold frame. destruct (Nat.le_gt_cases i (length s)) as [Hle|Hgt].
    - rewrite Nat.min_l by exact Hle. reflexivity.
    - rewrite Nat.min_r by lia. rewrite !skipn_all2 by lia. reflexivity. }
  rewrite <- !K. auto.
Qed.

Lemma amino_name_exact b : b < 256 ->
  (exists code name, amino_name b = Ok (code, name) /\ code <> [] /\ name <> []
                     /\ memb (upper_byte b) amino_acids = true)
  \/ (amino_name b = Panic /\ memb (upper_byte b) amino_acids = false).
Proof.
  intros H. pose proof (amino_check_ok b H) as C. unfold amino_check in C.
  destruct (amino_name b) as [[code name]| |] eqn:E.
  - left. exists code, name. apply andb_true_iff in C. destruct C as [C Cn]. apply andb_true_iff in C. destruct C as [Cm Cc].
    repeat split; try assumption.
    + intros ->. discriminate.
    + intros ->. discriminate.
  - exfalso. unfold amino_name in E. destruct (tab_get amino_tab b) as [[?|]|]; discriminate.
  - right. split; [reflexivity|]. apply negb_true_iff in C. exact C.
Qed.
