(* Proofs/ImpProofsH.v — translated source vs hand-written model, part 8: bed.parseLine
   (the twelve-field parser: padding, strconv.Atoi on the numeric fields, the strand test,
   the RGB triple through strconv.ParseUint(_, 0, 8), the two block lists, the count checks). *)
From Coq Require Import ZifyBool ZifyNat ZifyN.
From Bio Require Import Base.
From Bio.gen Require Import ImpGen.
From Bio.Model Require Import GoSem GoLib.
From Bio.Model Require Bed.
From Bio.Proofs Require Import ImpProofs ImpProofsB ImpProofsE ImpProofsG.
Open Scope Z_scope.

Ltac Zify.zify_post_hook ::= Z.div_mod_to_equations.

Definition zero_bed : imp_bed_BED := Imp_bed_BED 0 [] 0 0 [] 0 [] 0 0 (repeat 0%N 3) 0 [] [].

(* ---- ParseUint(_, 0, 8) stays below 256 ---------------------------------------------------- *)
Lemma pu_loop_bound base s : forall n us n' us', (n <= 255)%N ->
  Bed.pu_loop base 255 s n us = Some (n', us') -> (n' <= 255)%N.
Proof.
  induction s as [|c r IH]; intros n us n' us' Hn H; cbn [Bed.pu_loop] in H.
  - injection H as <- _. exact Hn.
  - destruct (c =? 95)%N; [eapply IH; eassumption|].
    destruct (Bed.digit_val c) as [d|]; [|discriminate].
    destruct (base <=? d)%N; [discriminate|].
    destruct (N.ltb_spec 255 (n * base + d)); [discriminate|].
    eapply IH; [|exact H]. assumption.
Qed.

Lemma parse_uint8_bound s n : Bed.parse_uint8 s = Some n -> (n < 256)%N.
Proof.
  unfold Bed.parse_uint8. destruct s as [|c0 r0]; [discriminate|].
  match goal with |- context [let '(base, body) := ?e in _] => destruct e as [base body] end.
  destruct (Bed.pu_loop base 255 body 0 false) as [[n' us]|] eqn:E; [|discriminate].
  apply pu_loop_bound in E; [|lia]. destruct (us && negb (Bed.underscore_ok (c0 :: r0))); [discriminate|].
  intros H. injection H as <-. lia.
Qed.

Lemma beqb_nil (s : bytes) : beqb s [] = match s with [] => true | _ => false end.
Proof. destruct s; reflexivity. Qed.

(* ---- the loops over the block lists ------------------------------------------------------------ *)
Section AtoiLoop.
Variable get : imp_bed_BED -> list Z.
Variable set : imp_bed_BED -> list Z -> imp_bed_BED.
Hypothesis get_set : forall b l, get (set b l) = l.
Hypothesis set_set : forall b l l', set (set b l) l' = set b l'.
Hypothesis set_get : forall b, set b (get b) = b.
Variable strs : list (list N).

Definition atoi_body : Z -> imp_bed_BED * Z -> res (imp_bed_BED * Z) (imp_bed_BED * Z) :=
  (fun i_2 '(bed, err) => go_index strs i_2 (fun t__46 => let '(t__47, t__48) := go_atoi_z t__46 in go_set (get bed) i_2 t__47 (fun t__49 => let bed := (set bed t__49) in let err := t__48 in (if (negb (Z.eqb err 0%Z)) then Ret (zero_bed, 2) else Next (bed, err))))).

Lemma atoi_loop : forall rest done vals bed err,
  strs = done ++ rest -> length vals = length done ->
  get bed = vals ++ repeat 0 (length rest) ->
  go_iter atoi_body (zseq (Z.of_nat (length done)) (length rest)) (bed, err)
  = match Bed.atoi_all rest with
    | Some zs => Next (set bed (vals ++ zs), match rest with [] => err | _ => 0 end)
    | None => Ret (zero_bed, 2)
    end.
Proof.
  induction rest as [|x rest IH]; intros done vals bed err Hs Hl Hg.
  - cbn [length zseq seq map go_iter Bed.atoi_all]. cbn [repeat length] in Hg.
    rewrite <- Hg, set_get. reflexivity.
  - cbn [length]. rewrite zseq_cons. cbn [go_iter Bed.atoi_all].
    unfold atoi_body at 1. rewrite Hs at 1.
    rewrite (go_index_mid done x rest _ _ eq_refl).
    unfold go_atoi_z. rewrite Hg. cbn [length repeat].
    assert (Hi : Z.of_nat (length done) = go_len vals) by (unfold go_len; lia).
    destruct (atoi x) as [z|]; cbv iota beta;
      rewrite (go_set_mid vals 0 (repeat 0 (length rest)) _ _ _ Hi); cbv zeta; cbv iota; cbn [Z.eqb Pos.eqb negb]; cbv iota; [|reflexivity].
    replace (Z.of_nat (length done) + 1) with (Z.of_nat (length (done ++ [x]))) by (rewrite app_length; cbn [length]; lia).
    rewrite (IH (done ++ [x]) (vals ++ [z])).
    + destruct (Bed.atoi_all rest) as [zs|]; [|reflexivity].
      rewrite set_set, <- app_assoc. cbn [app]. destruct rest; reflexivity.
    + rewrite <- app_assoc. exact Hs.
    + rewrite !app_length. cbn [length]. lia.
    + rewrite get_set, <- app_assoc. reflexivity.
Qed.
End AtoiLoop.

(* ---- the RGB triple ----------------------------------------------------------------------------- *)
Definition rgb_body (rgb : list (list N)) : Z -> imp_bed_BED -> res imp_bed_BED (imp_bed_BED * Z) :=
  (fun i bed => go_index rgb i (fun t__35 => let '(t__36, t__37) := go_parse_uint_0_8_z t__35 in let a := t__36 in let err_2 := t__37 in after (if (negb (Z.eqb err_2 0%Z)) then Ret (zero_bed, 2) else Next tt) (fun 'tt => go_set (imp_bed_BED_ItemRGB bed) i (go_byte a) (fun t__38 => let bed := (imp_bed_BED_with_ItemRGB bed t__38) in Next bed)))).

Lemma rgb_get_set b l : imp_bed_BED_ItemRGB (imp_bed_BED_with_ItemRGB b l) = l.
Proof. reflexivity. Qed.
Lemma rgb_set_set b l l' : imp_bed_BED_with_ItemRGB (imp_bed_BED_with_ItemRGB b l) l' = imp_bed_BED_with_ItemRGB b l'.
Proof. reflexivity. Qed.

Lemma go_byte_of_N n : (n < 256)%N -> go_byte (Z.of_N n) = n.
Proof. intros H. unfold go_byte. rewrite Z.mod_small by lia. lia. Qed.

Lemma rgb_step rgb i (bed : imp_bed_BED) s pre v post :
  nth_error rgb (Z.to_nat i) = Some s -> 0 <= i ->
  imp_bed_BED_ItemRGB bed = pre ++ v :: post -> i = go_len pre ->
  rgb_body rgb i bed
  = match Bed.parse_uint8 s with
    | Some x => Next (imp_bed_BED_with_ItemRGB bed (pre ++ x :: post))
    | None => Ret (zero_bed, 2)
    end.
Proof.
  intros Hs Hi Hg Hp. unfold rgb_body. rewrite (go_index_some rgb i s) by assumption.
  unfold go_parse_uint_0_8_z. destruct (Bed.parse_uint8 s) as [x|] eqn:E; cbv iota beta zeta; cbn [after]; [|reflexivity].
  rewrite Hg, (go_set_mid pre v post _ _ _ Hp). rewrite go_byte_of_N by (eapply parse_uint8_bound; exact E). reflexivity.
Qed.

Lemma rgb_stage rgb (bed : imp_bed_BED) : imp_bed_BED_ItemRGB bed = [0; 0; 0]%N ->
  after (if negb (go_len rgb =? 3) then Ret (zero_bed, 2) else Next tt)
    (fun 'tt => after (go_range_int (go_len rgb) (rgb_body rgb) bed) (fun bed => Next (S := imp_bed_BED) bed))
  = match rgb with
    | [a; b; c] =>
      match Bed.parse_uint8 a with None => Ret (zero_bed, 2) | Some x =>
      match Bed.parse_uint8 b with None => Ret (zero_bed, 2) | Some y =>
      match Bed.parse_uint8 c with None => Ret (zero_bed, 2) | Some z =>
        Next (imp_bed_BED_with_ItemRGB bed [x; y; z])
      end end end
    | _ => Ret (zero_bed, 2)
    end.
Proof.
  intros Hg. destruct rgb as [|a [|b [|c [|d r]]]]; try reflexivity.
  - cbn [go_len length Z.of_nat Pos.of_succ_nat Pos.succ Z.eqb Pos.eqb negb after].
    unfold go_range_int. change (zseq 0 (Z.to_nat 3)) with [0; 1; 2]. cbn [go_iter].
    rewrite (rgb_step [a; b; c] 0 bed a [] 0%N [0; 0]%N) by (first [reflexivity | lia | exact Hg]).
    destruct (Bed.parse_uint8 a) as [x|]; [|reflexivity].
    rewrite (rgb_step [a; b; c] 1 _ b [x] 0%N [0]%N) by (first [reflexivity | lia]).
    destruct (Bed.parse_uint8 b) as [y|]; [|reflexivity].
    rewrite (rgb_step [a; b; c] 2 _ c [x; y] 0%N []) by (first [reflexivity | lia]).
    destruct (Bed.parse_uint8 c) as [z|]; reflexivity.
  - unfold go_len. cbn [length]. replace (Z.of_nat (S (S (S (S (length r))))) =? 3) with false by lia. reflexivity.
Qed.

(* ---- parseLine --------------------------------------------------------------------------------------- *)
Lemma go_index_fld (F : list (list N)) k (K : list N -> res unit (imp_bed_BED * Z)) :
  (k < length F)%nat -> go_index F (Z.of_nat k) K = K (nth k F []).
Proof.
  intros H. rewrite (go_index_nth F (Z.of_nat k) []) by (unfold go_len; lia). rewrite Nat2Z.id. reflexivity.
Qed.


Lemma andalso_index {A S R} (l : list A) i d (a : bool) (f : A -> bool) (k : bool -> res S R) :
  0 <= i < go_len l ->
  go_andalso a (fun kk => go_index l i (fun t => kk (f t))) k = k (a && f (nth (Z.to_nat i) l d)).
Proof. intros H. unfold go_andalso. rewrite (go_index_nth l i d) by exact H. destruct a; reflexivity. Qed.

Ltac simpl_bed := cbv beta iota delta [imp_bed_BED_N imp_bed_BED_Chrom imp_bed_BED_ChromStart imp_bed_BED_ChromEnd
  imp_bed_BED_Name imp_bed_BED_Score imp_bed_BED_Strand imp_bed_BED_ThickStart imp_bed_BED_ThickEnd imp_bed_BED_ItemRGB
  imp_bed_BED_BlockCount imp_bed_BED_BlockSizes imp_bed_BED_BlockStarts
  imp_bed_BED_with_N imp_bed_BED_with_Chrom imp_bed_BED_with_ChromStart imp_bed_BED_with_ChromEnd
  imp_bed_BED_with_Name imp_bed_BED_with_Score imp_bed_BED_with_Strand imp_bed_BED_with_ThickStart imp_bed_BED_with_ThickEnd
  imp_bed_BED_with_ItemRGB imp_bed_BED_with_BlockCount imp_bed_BED_with_BlockSizes imp_bed_BED_with_BlockStarts].

Lemma sizes_get_set b l : imp_bed_BED_BlockSizes (imp_bed_BED_with_BlockSizes b l) = l.
Proof. reflexivity. Qed.
Lemma sizes_set_set b l l' : imp_bed_BED_with_BlockSizes (imp_bed_BED_with_BlockSizes b l) l' = imp_bed_BED_with_BlockSizes b l'.
Proof. reflexivity. Qed.
Lemma sizes_set_get b : imp_bed_BED_with_BlockSizes b (imp_bed_BED_BlockSizes b) = b.
Proof. destruct b; reflexivity. Qed.
Lemma starts_get_set b l : imp_bed_BED_BlockStarts (imp_bed_BED_with_BlockStarts b l) = l.
Proof. reflexivity. Qed.
Lemma starts_set_set b l l' : imp_bed_BED_with_BlockStarts (imp_bed_BED_with_BlockStarts b l) l' = imp_bed_BED_with_BlockStarts b l'.
Proof. reflexivity. Qed.
Lemma starts_set_get b : imp_bed_BED_with_BlockStarts b (imp_bed_BED_BlockStarts b) = b.
Proof. destruct b; reflexivity. Qed.

(* one block list: make + loop *)
Lemma ints_stage get set (get_set : forall b l, get (set b l) = l)
  (set_set : forall b l l', set (set b l) l' = set b l') (set_get : forall b, set b (get b) = b)
  (s : list N) (bed : imp_bed_BED) :
  get bed = [] ->
  (if negb (beqb s [])
   then let sizes := split_on 44%N s in
        go_make 0 (go_len sizes) (fun t__45 => let bed := set bed t__45 in
          after (go_range_int (go_len sizes) (atoi_body get set sizes) (bed, 0)) (fun '(bed, err) => Next (bed, err)))
   else Next (bed, 0))
  = match Bed.parse_ints s with
    | None => Ret (zero_bed, 2)
    | Some zs => Next (S := imp_bed_BED * Z) (R := imp_bed_BED * Z) (set bed zs, 0)
    end.
Proof.
  intros Hg. unfold Bed.parse_ints. destruct s as [|c r].
  - cbn [beqb negb]. rewrite <- Hg, set_get. reflexivity.
  - cbn [beqb negb]. cbv zeta. change Bed.COMMA with 44%N.
    set (sizes := split_on 44%N (c :: r)).
    unfold go_make, go_range_int, go_len. destruct (Z.ltb_spec (Z.of_nat (length sizes)) 0); [lia|].
    rewrite Nat2Z.id.
    rewrite (atoi_loop get set get_set set_set set_get sizes sizes [] [] _ 0 eq_refl eq_refl)
      by (rewrite get_set; reflexivity).
    destruct (Bed.atoi_all sizes) as [zs|]; [|reflexivity].
    cbn [after app]. rewrite set_set. destruct sizes; reflexivity.
Qed.

Theorem imp_parseLine fields :
  imp_bed_parseLine fields
  = match Bed.parse_line fields with Ok b => Ret (bed_of b, 0) | _ => Ret (zero_bed, 2) end.
Proof.
  unfold imp_bed_parseLine, Bed.parse_line. cbv zeta. unfold bytes, byte in *.
  change (Imp_bed_BED 0 [] 0 0 [] 0 [] 0 0 (repeat 0%N 3) 0 [] []) with zero_bed.
  replace ((go_len fields <? 3) || (12 <? go_len fields))
    with ((length fields <? 3)%nat || (12 <? length fields)%nat)
    by (unfold go_len; destruct (Nat.ltb_spec (length fields) 3), (Nat.ltb_spec 12 (length fields)); lia).
  destruct ((length fields <? 3)%nat || (12 <? length fields)%nat) eqn:En; cbn [after]; [reflexivity|].
  assert (Hn : (3 <= length fields <= 12)%nat).
  { destruct (Nat.ltb_spec (length fields) 3), (Nat.ltb_spec 12 (length fields)); cbn in En; try discriminate; lia. }
  unfold go_make at 1. replace (12 - go_len fields <? 0) with false by (unfold go_len; lia).
  replace (Z.to_nat (12 - go_len fields)) with (12 - length fields)%nat by (unfold go_len; lia).
  set (F := fields ++ repeat [] (12 - length fields)).
  assert (HF : length F = 12%nat) by (unfold F; rewrite app_length, repeat_length; lia).
  unfold Bed.parse_fields. cbv zeta. unfold bytes, byte in *.
  assert (HFl : go_len F = 12) by (unfold go_len; lia).
  Ltac fld F := repeat match goal with
    | |- context [go_index F ?k _] =>
      rewrite (go_index_nth F k []) by lia;
      let n := eval compute in (Z.to_nat k) in change (Z.to_nat k) with n
    end.
  Ltac atoi_stage := 
    match goal with |- context [go_atoi_z ?s] =>
      unfold go_atoi_z at 1; destruct (atoi s); cbv iota beta; cbn [after]; [|reflexivity] end.
  Ltac opt_stage setter :=
    match goal with |- context [after (if negb (beqb ?s []) then ?A else Next (?bed, ?err)) ?K] =>
      let E := fresh "E" in
      assert (E : (if negb (beqb s []) then A else Next (bed, err))
                  = match Bed.opt_atoi s with None => Ret (zero_bed, 2)
                    | Some v => Next (S := imp_bed_BED * Z) (setter bed v, 0) end)
        by (unfold Bed.opt_atoi, go_atoi_z; destruct s; [reflexivity|]; cbn [beqb negb];
            match goal with |- context [atoi ?x] => destruct (atoi x) end; reflexivity);
      rewrite E; clear E; destruct (Bed.opt_atoi s); cbn [after]; [|reflexivity]
    end.
  fld F. atoi_stage. fld F. atoi_stage. fld F.
  opt_stage imp_bed_BED_with_Score.
  fld F.
  rewrite !(andalso_index F 5 []) by lia. change (Z.to_nat 5) with 5%nat.
  rewrite <- !negb_orb. change (beqb (nth 5 F []) [] || beqb (nth 5 F []) [43%N] || beqb (nth 5 F []) [45%N] || beqb (nth 5 F []) [46%N]) with (Bed.strand_ok (nth 5 F [])).
  destruct (negb (Bed.strand_ok (nth 5 F []))); cbn [after]; [reflexivity|].
  fld F. opt_stage imp_bed_BED_with_ThickStart.
  fld F. opt_stage imp_bed_BED_with_ThickEnd.
  fld F.
  match goal with |- context [after (if negb (beqb ?s []) then ?A else Next ?bed) ?K] =>
    assert (E : (if negb (beqb s []) then A else Next bed)
                = match Bed.parse_rgb s with
                  | None => Ret (zero_bed, 2)
                  | Some p => let '(x, y, z) := p in Next (S := imp_bed_BED) (imp_bed_BED_with_ItemRGB bed [x; y; z])
                  end)
  end.
  { unfold Bed.parse_rgb. destruct (nth 8 F []) as [|c r]; [reflexivity|]. cbn [beqb negb]. change Bed.COMMA with 44%N.
    etransitivity; [apply rgb_stage; reflexivity|].
    destruct (split_on 44%N (c :: r)) as [|a [|b [|c' [|d r']]]]; try reflexivity.
    destruct (Bed.parse_uint8 a); [|reflexivity]. destruct (Bed.parse_uint8 b); [|reflexivity].
    destruct (Bed.parse_uint8 c'); reflexivity. }
  rewrite E; clear E. destruct (Bed.parse_rgb (nth 8 F [])) as [[[r g] bl]|]; cbn [after]; [|reflexivity].
  fld F. opt_stage imp_bed_BED_with_BlockCount.
  fld F.
  match goal with |- context [after (if negb (beqb ?s []) then ?A else Next (?bed, 0)) ?K] =>
    assert (E : (if negb (beqb s []) then A else Next (bed, 0))
                = match Bed.parse_ints s with
                  | None => Ret (zero_bed, 2)
                  | Some zs => Next (S := imp_bed_BED * Z) (imp_bed_BED_with_BlockSizes bed zs, 0)
                  end)
      by exact (ints_stage imp_bed_BED_BlockSizes imp_bed_BED_with_BlockSizes sizes_get_set sizes_set_set sizes_set_get s bed eq_refl)
  end.
  rewrite E; clear E. destruct (Bed.parse_ints (nth 10 F [])) as [sizes|]; cbn [after]; [|reflexivity].
  fld F.
  match goal with |- context [after (if negb (beqb ?s []) then ?A else Next (?bed, 0)) ?K] =>
    assert (E : (if negb (beqb s []) then A else Next (bed, 0))
                = match Bed.parse_ints s with
                  | None => Ret (zero_bed, 2)
                  | Some zs => Next (S := imp_bed_BED * Z) (imp_bed_BED_with_BlockStarts bed zs, 0)
                  end)
      by exact (ints_stage imp_bed_BED_BlockStarts imp_bed_BED_with_BlockStarts starts_get_set starts_set_set starts_set_get s bed eq_refl)
  end.
  rewrite E; clear E. destruct (Bed.parse_ints (nth 11 F [])) as [starts|]; cbn [after]; [|reflexivity].
  simpl_bed. unfold go_len.
  destruct (negb (Z.of_nat (length sizes) =? z4)); cbn [after]; [reflexivity|].
  destruct (negb (Z.of_nat (length starts) =? z4)); cbn [after]; reflexivity.
Qed.
