(* Proofs/SmtextProofsC.v — ReadNCBI rejects corrupted tables; it never panics. *)
From Bio Require Import Base.
From Bio.Model Require Import Smtext.
From Bio.Spec Require Import SmtextSpec.
From Bio.Proofs Require Import SmtextProofs SmtextProofsB.

Lemma fold_err : forall o l, fold_left (read_step o) l Err = Err.
Proof. intros o l; induction l; cbn [fold_left]; auto. Qed.

Lemma not_short_too_long : forall l, ~ short l -> too_long l = true.
Proof. intros l H. unfold too_long, short in *. apply N.leb_le. lia. Qed.

Lemma too_long_cases : forall l, too_long l = true \/ short l.
Proof.
  intros l. unfold too_long, short. destruct (65536 <=? N.of_nat (length l)) eqn:E.
  - left; reflexivity.
  - right. apply N.leb_gt. exact E.
Qed.

Lemma read_step_too_long : forall o s l, too_long l = true ->
  read_step o (Ok s) (line_item l) = Err.
Proof. intros o s l H. unfold line_item. rewrite H. reflexivity. Qed.

(* ---- a bad row ---------------------------------------------------------------------- *)
Lemma set_row_bad : forall o c vs chars m v,
  In v vs -> parseF o v = None -> length vs = length chars ->
  set_row o c chars vs m = Err.
Proof.
  intros o c vs; induction vs as [|v0 vs IH]; intros chars m v HI HP HL.
  - destruct HI.
  - destruct chars as [|d ds]; [discriminate|].
    simpl set_row. destruct (parseF o v0) as [x|] eqn:E; [|reflexivity].
    destruct HI as [->|HI]; [congruence|].
    eapply IH; eauto.
Qed.

Lemma extract_bad : forall f, length f <> 1%nat -> extract_single_char f = Err.
Proof. intros [|a [|b t]] H; try reflexivity. exfalso; apply H; reflexivity. Qed.

Lemma read_row_bad : forall o chars fs m,
  BadFields o (length chars) fs -> read_row o chars fs m = Err.
Proof.
  intros o chars fs m H. unfold read_row.
  destruct (Nat.eqb (length fs) (S (length chars))) eqn:E; [|reflexivity].
  apply Nat.eqb_eq in E. cbn [negb].
  destruct H as [H|[[f0 [vs [-> H]]]|[f0 [vs [v [-> [HI HP]]]]]]].
  - contradiction.
  - rewrite extract_bad by assumption. reflexivity.
  - destruct (extract_single_char f0) as [c| |] eqn:X; cbn [obind]; try reflexivity.
    + eapply set_row_bad; eauto.
    + destruct f0 as [|a [|b t]]; cbn in X; try discriminate.
      destruct (a =? 42); discriminate.
Qed.

Lemma read_step_bad_row : forall o n l m chars,
  BadRowLine o n l -> chars <> [] -> length chars = n ->
  read_step o (Ok (m, chars)) (line_item l) = Err.
Proof.
  intros o n l m chars [_ H] Hne Hlen.
  destruct (too_long_cases l) as [TL|Hs].
  - apply read_step_too_long; exact TL.
  - destruct H as [H|[HN HB]]; [contradiction|].
    rewrite read_step_line by assumption. cbn [snd fst].
    destruct chars as [|c0 chars']; [contradiction|].
    subst n. rewrite read_row_bad by assumption. reflexivity.
Qed.

(* ---- a bad header --------------------------------------------------------------------- *)
Lemma header_chars_bad : forall fs f,
  In f fs -> length f <> 1%nat -> header_chars fs = Err.
Proof.
  induction fs as [|f0 fs IH]; intros f HI HL.
  - destruct HI.
  - cbn [header_chars]. destruct HI as [->|HI].
    + rewrite extract_bad by assumption. reflexivity.
    + destruct (extract_single_char f0) as [c| |] eqn:X; cbn [obind]; try reflexivity.
      * rewrite (IH f HI HL). reflexivity.
      * destruct f0 as [|a [|b t]]; cbn in X; try discriminate.
        destruct (a =? 42); discriminate.
Qed.

Lemma read_step_bad_header : forall o l m,
  BadHeaderLine l -> read_step o (Ok (m, [])) (line_item l) = Err.
Proof.
  intros o l m [_ H].
  destruct (too_long_cases l) as [TL|Hs].
  - apply read_step_too_long; exact TL.
  - destruct H as [H|[HN [f [HI HL]]]]; [contradiction|].
    rewrite read_step_line by assumption. cbn [snd fst].
    rewrite (header_chars_bad _ f HI HL). reflexivity.
Qed.

(* ---- the theorems ------------------------------------------------------------------------ *)
Lemma finish_err : forall t, finish t Err = Err.
Proof. reflexivity. Qed.

Theorem read_ncbi_rejects_row : forall o T pre hdr body bad rest nl t,
  rect T ->
  Forall PreLine pre -> HeaderLine (t_cols T) hdr -> Body o (t_rows T) body ->
  BadRowLine o (length (t_cols T)) bad -> Forall nolf rest ->
  read_ncbi o (join_lines (pre ++ hdr :: body ++ bad :: rest) nl) t = Err.
Proof.
  intros o T pre hdr body bad rest nl t Hr Hpre Hh Hb Hbad Hrest.
  assert (E : pre ++ hdr :: body ++ bad :: rest = (pre ++ hdr :: body) ++ bad :: rest).
  { rewrite <- app_assoc. reflexivity. }
  rewrite E. rewrite read_join_lines.
  - rewrite map_app, fold_left_app.
    rewrite (read_layout_lines o T) by assumption.
    cbn [map fold_left].
    rewrite (read_step_bad_row o (length (t_cols T))).
    + rewrite fold_err. reflexivity.
    + exact Hbad.
    + destruct Hh as [Hne _]. destruct (t_cols T); [contradiction | discriminate].
    + apply map_length.
  - destruct pre; discriminate.
  - apply Forall_app. split.
    + eapply layout_lines_nolf; eassumption.
    + constructor; [destruct Hbad; assumption | exact Hrest].
Qed.

Theorem read_ncbi_rejects_header : forall o pre bad rest nl t,
  Forall PreLine pre -> BadHeaderLine bad -> Forall nolf rest ->
  read_ncbi o (join_lines (pre ++ bad :: rest) nl) t = Err.
Proof.
  intros o pre bad rest nl t Hpre Hbad Hrest.
  rewrite read_join_lines.
  - rewrite map_app, fold_left_app. rewrite read_pre by assumption.
    cbn [map fold_left]. rewrite read_step_bad_header by assumption.
    rewrite fold_err. reflexivity.
  - destruct pre; discriminate.
  - apply Forall_app. split.
    + eapply Forall_impl; [|exact Hpre]. apply preline_nolf.
    + constructor; [destruct Hbad; assumption | exact Hrest].
Qed.

(* ---- no panic, and no matrix after a read fault --------------------------------------------- *)
Lemma extract_no_panic : forall f, extract_single_char f <> Panic.
Proof.
  intros [|a [|b t]]; cbn; try discriminate. destruct (a =? 42); discriminate.
Qed.

Lemma set_row_no_panic : forall o c vs chars m,
  (length vs <= length chars)%nat -> set_row o c chars vs m <> Panic.
Proof.
  intros o c vs; induction vs as [|v vs IH]; intros chars m HL.
  - destruct chars; simpl set_row; discriminate.
  - destruct chars as [|d ds]; [cbn in HL; lia|].
    simpl set_row. destruct (parseF o v); [|discriminate].
    apply IH. cbn in HL. lia.
Qed.

Lemma header_chars_no_panic : forall fs, header_chars fs <> Panic.
Proof.
  induction fs as [|f fs IH]; cbn [header_chars]; [discriminate|].
  pose proof (extract_no_panic f) as X.
  destruct (extract_single_char f); cbn [obind]; try discriminate; [|contradiction].
  destruct (header_chars fs); cbn [obind]; try discriminate. contradiction.
Qed.

Lemma read_row_no_panic : forall o chars fs m, read_row o chars fs m <> Panic.
Proof.
  intros o chars fs m. unfold read_row.
  destruct (Nat.eqb (length fs) (S (length chars))) eqn:E; cbn [negb]; [|discriminate].
  apply Nat.eqb_eq in E. destruct fs as [|f0 vs]; [discriminate|].
  pose proof (extract_no_panic f0) as X.
  destruct (extract_single_char f0); cbn [obind]; try discriminate; [|contradiction].
  apply set_row_no_panic. cbn in E. lia.
Qed.

Lemma read_line_no_panic : forall o l s, read_line o l s <> Panic.
Proof.
  intros o l s. unfold read_line. destruct (skip_line l); [discriminate|].
  destruct (snd s) as [|c cs].
  - pose proof (header_chars_no_panic (fields l)) as X.
    destruct (header_chars (fields l)); cbn [obind]; try discriminate. contradiction.
  - pose proof (read_row_no_panic o (c :: cs) (fields l) (fst s)) as X.
    destruct (read_row o (c :: cs) (fields l) (fst s)); cbn [obind]; try discriminate.
    contradiction.
Qed.

Lemma read_step_no_panic : forall o acc it, acc <> Panic -> read_step o acc it <> Panic.
Proof.
  intros o acc it H. unfold read_step. destruct acc as [s| |]; cbn [obind];
    try discriminate; [|contradiction].
  destruct it; [apply read_line_no_panic | discriminate].
Qed.

Lemma fold_no_panic : forall o l acc, acc <> Panic -> fold_left (read_step o) l acc <> Panic.
Proof.
  intros o l; induction l as [|it l IH]; intros acc H; cbn [fold_left]; auto.
  apply IH. apply read_step_no_panic; exact H.
Qed.

Theorem read_ncbi_total : forall o s t, read_ncbi o s t <> Panic.
Proof.
  intros o s t. unfold read_ncbi.
  pose proof (fold_no_panic o (line_items s) (Ok ([], []))) as X.
  destruct (fold_left (read_step o) (line_items s) (Ok ([], []))) as [[m cs]| |].
  - destruct t; discriminate.
  - discriminate.
  - exfalso. apply X; [discriminate | reflexivity].
Qed.

Theorem read_ncbi_fault_any : forall o s, read_ncbi o s TErr = Err.
Proof.
  intros o s. pose proof (read_ncbi_total o s TErr) as X. unfold read_ncbi in *.
  destruct (fold_left (read_step o) (line_items s) (Ok ([], []))) as [[m cs]| |];
    try reflexivity. contradiction.
Qed.
