(* Proofs/SmtextProofsC.v *)
From Bio Require Import Base.
