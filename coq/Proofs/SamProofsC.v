(* Proofs/SamProofsC.v — the reader over whole inputs: lines of a stream, the
   record round trip, files of headers and records, tag lookups. *)
From Coq Require Import String Permutation Sorting.Sorted.
From Bio Require Import Base.
From Bio.gen Require Import FlagGen.
From Bio.Model Require Import Sam.
From Bio.Spec Require Import SamSpec.
From Bio.Proofs Require Import SamProofs SamProofsB.
Open Scope N_scope.

(* ================================================================== *)
(* ReadString over LF-terminated lines                                  *)

Lemma split_on_lines : forall ls, Forall (nosep LF) ls ->
  split_on LF (concat (map (fun l => l ++ [LF]) ls)) = ls ++ [[]].
Proof.
  intros ls H. induction H as [|l ls Hl Hls IH]; [reflexivity|].
  cbn [map concat app]. rewrite <- app_assoc. cbn [app].
  rewrite split_on_app by assumption. now rewrite IH.
Qed.

Lemma rs_lines_lines : forall ls, Forall (nosep LF) ls ->
  rs_lines (concat (map (fun l => l ++ [LF]) ls)) = (ls, []).
Proof.
  intros ls H. unfold rs_lines. rewrite split_on_lines by assumption.
  now rewrite removelast_last, last_last.
Qed.

Lemma reader_header_lines : forall o ls, Forall (nosep LF) ls ->
  reader_header o (concat (map (fun l => l ++ [LF]) ls)) TEOF = flat_map (process_line o) ls.
Proof.
  intros o ls H. unfold reader_header. rewrite rs_lines_lines by assumption.
  change (process_line o []) with (@nil (item entry)). apply app_nil_r.
Qed.

(* a stream that fails: the complete lines, then the error *)
Lemma rs_lines_tail : forall ls tail, Forall (nosep LF) ls -> nosep LF tail ->
  rs_lines (concat (map (fun l => l ++ [LF]) ls) ++ tail) = (ls, tail).
Proof.
  intros ls tail H Ht.
  assert (Hs : split_on LF (concat (map (fun l => l ++ [LF]) ls) ++ tail) = ls ++ [tail]).
  { induction H as [|l ls Hl Hls IH].
    - cbn [map concat app]. now apply split_on_nosep.
    - cbn [map concat]. rewrite <- !app_assoc. cbn [app].
      rewrite split_on_app by assumption. now rewrite IH. }
  unfold rs_lines. rewrite Hs. now rewrite removelast_last, last_last.
Qed.

Lemma reader_header_lines_err : forall o ls tail, Forall (nosep LF) ls -> nosep LF tail ->
  reader_header o (concat (map (fun l => l ++ [LF]) ls) ++ tail) TErr
  = flat_map (process_line o) ls ++ [ErrItem].
Proof.
  intros o ls tail H Ht. unfold reader_header. now rewrite rs_lines_tail.
Qed.

Lemma process_line_cr : forall o l, drop_cr l = l -> process_line o (l ++ [CR]) = process_line o l.
Proof. intros o l H. unfold process_line. now rewrite drop_cr_snoc, H. Qed.

Definition eol_ok (eol : bytes) : Prop := eol = [LF] \/ eol = [CR; LF].

Lemma reader_header_lines_eol : forall o eol ls, eol_ok eol ->
  Forall (fun l => nosep LF l /\ drop_cr l = l) ls ->
  reader_header o (concat (map (fun l => l ++ eol) ls)) TEOF = flat_map (process_line o) ls.
Proof.
  intros o eol ls [->| ->] H.
  - apply reader_header_lines. eapply Forall_impl; [|exact H]. now intros l [Hl _].
  - match goal with |- reader_header o ?X TEOF = _ =>
      assert (E : X = concat (map (fun l => l ++ [LF]) (map (fun l => l ++ [CR]) ls))) end.
    { rewrite map_map. f_equal. apply map_ext. intro l. now rewrite <- app_assoc. }
    rewrite E. rewrite reader_header_lines.
    + clear E. induction H as [|l ls [Hl Hd] Hls IH]; [reflexivity|].
      cbn [map flat_map]. rewrite process_line_cr by assumption. now rewrite IH.
    + apply Forall_map. eapply Forall_impl; [|exact H]. intros l [Hl _].
      apply nosep_app; [assumption|]. repeat constructor.
Qed.

(* ================================================================== *)
(* one record                                                          *)

Lemma roundtrip : forall o r, sam_ok o r ->
  exists r', reader_header o (write o r) TEOF = [Rec (Aln r')] /\ sam_eq r r'.
Proof.
  intros o r H. destruct (process_line_written o r H) as [r' [Hp He]].
  exists r'. split; [|exact He].
  assert (E : write o r = concat (map (fun l => l ++ [LF]) [line o r]))
    by (rewrite write_line; cbn [map concat]; now rewrite app_nil_r).
  rewrite E.
  rewrite reader_header_lines by (constructor; [now apply line_nosep_lf|constructor]).
  cbn [flat_map]. rewrite Hp. reflexivity.
Qed.

Lemma roundtrip_reader : forall o r, sam_ok o r ->
  exists r', reader o (write o r) TEOF = [Rec r'] /\ sam_eq r r'.
Proof.
  intros o r H. destruct (roundtrip o r H) as [r' [Hr He]].
  exists r'. split; [|exact He]. unfold reader. rewrite Hr. reflexivity.
Qed.

Lemma one_line : forall o r, sam_ok o r ->
  exists l, write o r = l ++ [LF] /\ ~ In LF l.
Proof.
  intros o r H. exists (line o r). split; [apply write_line|].
  apply nosep_not_in. now apply line_nosep_lf.
Qed.

Lemma tags_sorted : forall o r,
  exists ts, write_calls o r = join_with [TAB] (fields11 r) :: map (fun t => TAB :: t) ts ++ [[LF]]
    /\ Sorted bytes_le ts /\ Permutation ts (map (tag_text o) (s_tags r)).
Proof.
  intros o r. exists (tags_text o (s_tags r)). split; [reflexivity|]. split.
  - apply sort_strings_sorted.
  - apply sort_strings_perm.
Qed.

(* ================================================================== *)
(* files                                                               *)

Lemma not_in_nosep : forall c s, ~ In c s -> nosep c s.
Proof.
  intros c s H. unfold nosep. apply Forall_forall. intros x Hx.
  apply N.eqb_neq. intro E. subst. contradiction.
Qed.

Lemma with_eol_write : forall o eol r, with_eol eol (write o r) = line o r ++ eol.
Proof. intros. unfold with_eol. now rewrite write_line, removelast_last. Qed.

Lemma file_text_lines : forall o eol hs rs,
  file_text o eol hs rs = concat (map (fun l => l ++ eol) (hs ++ map (line o) rs)).
Proof.
  intros. unfold file_text. rewrite map_app, concat_app, map_map. f_equal. f_equal.
  apply map_ext. intro r. apply with_eol_write.
Qed.

Lemma process_header : forall o h, header_ok h -> process_line o h = [Rec (Hdr h)].
Proof.
  intros o h [[t Ht] [_ Hd]]. unfold process_line. rewrite Hd. subst h. reflexivity.
Qed.

Lemma process_headers : forall o hs, Forall header_ok hs ->
  flat_map (process_line o) hs = map (fun h => Rec (Hdr h)) hs.
Proof.
  intros o hs H. induction H as [|h hs Hh Hhs IH]; [reflexivity|].
  cbn [flat_map map]. rewrite process_header by assumption. now rewrite IH.
Qed.

Lemma process_records : forall o rs, Forall (sam_ok o) rs ->
  exists rs', flat_map (process_line o) (map (line o) rs) = map (fun r => Rec (Aln r)) rs'
              /\ Forall2 sam_eq rs rs'.
Proof.
  intros o rs H. induction H as [|r rs Hr Hrs [rs' [IH1 IH2]]].
  - exists []. split; [reflexivity|constructor].
  - destruct (process_line_written o r Hr) as [r' [Hp He]].
    exists (r' :: rs'). split; [|now constructor].
    cbn [map flat_map]. now rewrite Hp, IH1.
Qed.

Lemma file_roundtrip : forall o eol hs rs, eol_ok eol ->
  Forall header_ok hs -> Forall (sam_ok o) rs ->
  exists rs',
    reader_header o (file_text o eol hs rs) TEOF
      = map (fun h => Rec (Hdr h)) hs ++ map (fun r => Rec (Aln r)) rs'
    /\ reader o (file_text o eol hs rs) TEOF = map Rec rs'
    /\ Forall2 sam_eq rs rs'.
Proof.
  intros o eol hs rs He Hh Hr.
  destruct (process_records o rs Hr) as [rs' [Hp H2]].
  exists rs'.
  assert (E : reader_header o (file_text o eol hs rs) TEOF
              = map (fun h => Rec (Hdr h)) hs ++ map (fun r => Rec (Aln r)) rs').
  { rewrite file_text_lines. rewrite reader_header_lines_eol; [|assumption|].
    - rewrite flat_map_app. rewrite process_headers by assumption. now rewrite Hp.
    - apply Forall_app. split.
      + eapply Forall_impl; [|exact Hh]. intros h [_ [Hlf Hd]]. split; [now apply not_in_nosep|assumption].
      + apply Forall_map. eapply Forall_impl; [|exact Hr]. intros r Hok. split.
        * now apply line_nosep_lf.
        * apply drop_cr_nosep. now apply line_nosep_cr. }
  split; [exact E|]. split; [|exact H2].
  unfold reader. rewrite E. rewrite flat_map_app.
  assert (E1 : forall l, flat_map reader_filter (map (fun h => Rec (Hdr h)) l) = [])
    by (induction l as [|x l IH]; [reflexivity|cbn [map flat_map reader_filter app]; exact IH]).
  assert (E2 : forall l, flat_map reader_filter (map (fun r => Rec (Aln r)) l) = map Rec l)
    by (induction l as [|x l IH]; [reflexivity|cbn [map flat_map reader_filter app]; now rewrite IH]).
  now rewrite E1, E2.
Qed.

(* ================================================================== *)
(* the same map: equal lookups                                         *)

Lemma alookup_in : forall (m : tagmap) k v, NoDup (map fst m) -> In (k, v) m -> alookup k m = Some v.
Proof.
  induction m as [|[k' v'] m IH]; intros k v Hnd Hin; [contradiction|].
  cbn [map fst] in Hnd. inversion Hnd as [|? ? Hni Hnd']; subst.
  unfold alookup. cbn [find fst snd].
  destruct Hin as [E|Hin].
  - injection E as -> ->. now rewrite beqb_refl.
  - assert (k' <> k).
    { intro; subst. apply Hni. change k with (fst (k, v)). now apply in_map. }
    rewrite beqb_neq by assumption. now apply IH.
Qed.

Lemma alookup_some : forall (m : tagmap) k v, alookup k m = Some v -> In (k, v) m.
Proof.
  induction m as [|[k' v'] m IH]; intros k v H; [discriminate|].
  unfold alookup in H. cbn [find fst snd] in H.
  destruct (beqb k' k) eqn:E.
  - apply beqb_eq in E. subst. cbn [snd] in H. injection H as ->. now left.
  - right. now apply IH.
Qed.

Lemma perm_lookup : forall (m m' : tagmap) k, NoDup (map fst m) -> Permutation m m' ->
  tag_lookup k m = tag_lookup k m'.
Proof.
  intros m m' k Hnd Hp. unfold tag_lookup.
  assert (Hnd' : NoDup (map fst m')) by (eapply Permutation_NoDup; [|exact Hnd]; now apply Permutation_map).
  destruct (alookup k m) as [v|] eqn:E.
  - apply alookup_some in E. symmetry. apply alookup_in; [assumption|].
    eapply Permutation_in; eassumption.
  - destruct (alookup k m') as [v'|] eqn:E'; [|reflexivity].
    apply alookup_some in E'. apply (Permutation_in _ (Permutation_sym Hp)) in E'.
    apply (alookup_in _ _ _ Hnd) in E'. congruence.
Qed.

Lemma sam_eq_lookup : forall r r', NoDup (map fst (s_tags r)) -> sam_eq r r' ->
  forall k, tag_lookup k (s_tags r) = tag_lookup k (s_tags r').
Proof.
  intros r r' Hnd He k. apply perm_lookup; [assumption|]. apply He.
Qed.

Lemma file_text_lf : forall o hs rs,
  file_text o [LF] hs rs = concat (map (fun h => h ++ [LF]) hs) ++ concat (map (write o) rs).
Proof.
  intros. unfold file_text. f_equal. f_equal. apply map_ext. intro r.
  now rewrite with_eol_write, write_line.
Qed.

(* ================================================================== *)
(* flags, membership form                                              *)

Lemma Forall2_in_l : forall {A B} (R : A -> B -> Prop) l1 l2 x,
  Forall2 R l1 l2 -> In x l1 -> exists y, In y l2 /\ R x y.
Proof.
  intros A B R l1 l2 x H. induction H as [|a b l1 l2 Hab H IH]; intro Hin; [contradiction|].
  destruct Hin as [->|Hin].
  - exists b. split; [now left|assumption].
  - destruct (IH Hin) as [y [Hy Hr]]. exists y. split; [now right|assumption].
Qed.

Lemma flag_getters_in : forall name g, In (name, g) flag_getters ->
  exists n, In (name, n) flag_spec_bits /\ forall f : Z, g f = Z.testbit f n.
Proof.
  intros name g Hin.
  destruct (Forall2_in_l _ _ _ _ flag_getters_exact Hin) as [[name' n] [Hy [Hn Hg]]].
  cbn [fst snd] in *. subst name'. exists n. split; assumption.
Qed.

Lemma flag_setters_in : forall name s, In (name, s) flag_setters ->
  exists n, In (name, n) flag_spec_bits /\ forall (f : Z) (v : bool) (j : Z),
      Z.testbit (s f v) j = if (j =? n)%Z then v else Z.testbit f j.
Proof.
  intros name s Hin.
  destruct (Forall2_in_l _ _ _ _ flag_setters_exact Hin) as [[name' n] [Hy [Hn Hs]]].
  cbn [fst snd] in *. subst name'. exists n. split; assumption.
Qed.
