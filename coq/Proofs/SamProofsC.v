(* Proofs/SamProofsC.v *)
From Bio Require Import Base.
