(* Proofs/TrieProofs.v *)
From Bio Require Import Base.
