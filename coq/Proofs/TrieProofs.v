(* Proofs/TrieProofs.v — the association-list map, well-formedness, the
   characterisation of [members] by walks, Has, and Add refines spec_add. *)
From Coq Require Import String Sorting.Sorted Permutation.
From Bio Require Import Base.
From Bio.Model Require Import Trie.
From Bio.Spec Require Import TrieSpec.

Local Open Scope N_scope.

(* ---- induction on tries ------------------------------------------------------ *)
Section TrieInd.
  Variable P : trie -> Prop.
  Hypothesis H : forall l, Forall (fun kc => P (snd kc)) l -> P (T l).
  Fixpoint trie_ind2 (t : trie) : P t :=
    match t with
    | T l => H l ((fix go (l : list (byte * trie)) : Forall (fun kc => P (snd kc)) l :=
                     match l with
                     | [] => Forall_nil _
                     | (k, c) :: r => Forall_cons (k, c) (trie_ind2 c) (go r)
                     end) l)
    end.
End TrieInd.

(* ---- small facts --------------------------------------------------------------- *)
Lemma beqb_eq a b : beqb a b = true <-> a = b.
Proof.
  revert b; induction a as [|x a IH]; destruct b as [|y b]; cbn; split; intro E; try congruence; auto.
  - apply andb_true_iff in E as [E1 E2]. apply N.eqb_eq in E1. apply IH in E2. congruence.
  - inversion E; subst. rewrite N.eqb_refl. cbn. apply IH. reflexivity.
Qed.

Lemma beqb_neq a b : beqb a b = false <-> a <> b.
Proof.
  split; intro E.
  - intro F. apply beqb_eq in F. congruence.
  - destruct (beqb a b) eqn:B; auto. apply beqb_eq in B. contradiction.
Qed.

Lemma is_prefix_spec p x : is_prefix p x = true <-> prefix p x.
Proof.
  revert x; induction p as [|a p IH]; intro x; cbn.
  - split; auto. intros _. exists x. reflexivity.
  - destruct x as [|b x].
    + split; [discriminate|]. intros [s E]. discriminate.
    + rewrite andb_true_iff, N.eqb_eq, IH. split.
      * intros [-> [s ->]]. exists s. reflexivity.
      * intros [s E]. inversion E; subst. split; auto. exists s. reflexivity.
Qed.

Lemma is_prefix_refl x : is_prefix x x = true.
Proof. induction x; cbn; auto. rewrite N.eqb_refl. auto. Qed.

Lemma is_prefix_nil_r p : is_prefix p [] = true -> p = [].
Proof. destruct p; cbn; congruence. Qed.

(* ---- the map --------------------------------------------------------------------- *)
Section MapFacts.
  Context {V : Type}.
  Implicit Types l : list (byte * V).

  Definition sorted l : Prop := StronglySorted N.lt (map fst l).

  Lemma sorted_nil : sorted (@nil (byte * V)).
  Proof. constructor. Qed.

  Lemma sorted_inv k v l : sorted ((k, v) :: l) ->
    sorted l /\ forall k' v', In (k', v') l -> k < k'.
  Proof.
    unfold sorted; cbn. intro S. apply StronglySorted_inv in S as [S F]. split; auto.
    intros k' v' I. rewrite Forall_forall in F. apply F. apply in_map_iff. exists (k', v'). auto.
  Qed.

  Lemma sorted_cons k v l : sorted l -> (forall k' v', In (k', v') l -> k < k') ->
    sorted ((k, v) :: l).
  Proof.
    unfold sorted; cbn. intros S F. constructor; auto.
    apply Forall_forall. intros x I. apply in_map_iff in I as [[k' v'] [<- I]]. eapply F; eauto.
  Qed.

  Lemma mget_Some_In k v l : mget k l = Some v -> In (k, v) l.
  Proof.
    induction l as [|[k0 v0] r IH]; cbn; [discriminate|].
    destruct (k0 =? k) eqn:E.
    - apply N.eqb_eq in E. intro S. inversion S; subst. auto.
    - auto.
  Qed.

  Lemma mget_In k v l : sorted l -> In (k, v) l -> mget k l = Some v.
  Proof.
    induction l as [|[k0 v0] r IH]; cbn; [tauto|].
    intros S [E|I].
    - inversion E; subst. rewrite N.eqb_refl. reflexivity.
    - apply sorted_inv in S as [S F]. specialize (F _ _ I).
      destruct (k0 =? k) eqn:E; [apply N.eqb_eq in E; lia|]. auto.
  Qed.

  Lemma mget_None_notin k l : mget k l = None -> forall v, ~ In (k, v) l.
  Proof.
    induction l as [|[k0 v0] r IH]; cbn; [tauto|].
    destruct (k0 =? k) eqn:E; [discriminate|]. intros N v [F|F].
    - inversion F; subst. rewrite N.eqb_refl in E. discriminate.
    - eapply IH; eauto.
  Qed.

  Lemma mget_mset_same k v l : mget k (mset k v l) = Some v.
  Proof.
    induction l as [|[k0 v0] r IH]; cbn.
    - rewrite N.eqb_refl. reflexivity.
    - destruct (k <? k0) eqn:L; cbn.
      + rewrite N.eqb_refl. reflexivity.
      + destruct (k =? k0) eqn:E; cbn.
        * rewrite N.eqb_refl. reflexivity.
        * rewrite N.eqb_sym, E. exact IH.
  Qed.

  Lemma mget_mset_other k k' v l : k' <> k -> mget k' (mset k v l) = mget k' l.
  Proof.
    intro NE. induction l as [|[k0 v0] r IH]; cbn.
    - destruct (k =? k') eqn:E; auto. apply N.eqb_eq in E. congruence.
    - destruct (k <? k0) eqn:L; cbn.
      + destruct (k =? k') eqn:E; auto. apply N.eqb_eq in E. congruence.
      + destruct (k =? k0) eqn:E; cbn.
        * apply N.eqb_eq in E. subst k0.
          destruct (k =? k') eqn:E2; auto. apply N.eqb_eq in E2. congruence.
        * rewrite IH. reflexivity.
  Qed.

  Lemma In_mset k v k' v' l : In (k', v') (mset k v l) -> (k' = k /\ v' = v) \/ In (k', v') l.
  Proof.
    induction l as [|[k0 v0] r IH]; cbn.
    - intros [E|[]]. inversion E; auto.
    - destruct (k <? k0) eqn:L; cbn.
      + intros [E|I]; auto. inversion E; auto.
      + destruct (k =? k0) eqn:E; cbn.
        * intros [E1|I]; auto. inversion E1; auto.
        * intros [E1|I]; auto. apply IH in I. tauto.
  Qed.

  Lemma mset_sorted k v l : sorted l -> sorted (mset k v l).
  Proof.
    induction l as [|[k0 v0] r IH]; cbn; intro S.
    - apply sorted_cons; auto. intros ? ? [].
    - destruct (k <? k0) eqn:L.
      + apply N.ltb_lt in L. apply sorted_cons; auto.
        intros k' v' [E|I]; [inversion E; subst; auto|].
        apply sorted_inv in S as [_ F]. specialize (F _ _ I). lia.
      + apply N.ltb_ge in L. destruct (k =? k0) eqn:E.
        * apply N.eqb_eq in E. subst k0. apply sorted_inv in S as [S F]. apply sorted_cons; auto.
        * apply N.eqb_neq in E. pose proof S as S0. apply sorted_inv in S as [S F].
          apply sorted_cons; auto. intros k' v' I. apply In_mset in I as [[-> _]|I]; [lia|eauto].
  Qed.

  Lemma mset_same_id k v l : sorted l -> mget k l = Some v -> mset k v l = l.
  Proof.
    induction l as [|[k0 v0] r IH]; cbn; [discriminate|]. intros S G.
    destruct (k0 =? k) eqn:E.
    - apply N.eqb_eq in E. subst k0. inversion G; subst. rewrite N.ltb_irrefl, N.eqb_refl. reflexivity.
    - apply sorted_inv in S as [S F]. pose proof (F _ _ (mget_Some_In _ _ _ G)) as L.
      apply N.eqb_neq in E.
      destruct (k <? k0) eqn:L2; [apply N.ltb_lt in L2; lia|].
      destruct (k =? k0) eqn:E2; [apply N.eqb_eq in E2; congruence|].
      rewrite IH; auto.
  Qed.

  Lemma mset_not_nil k v l : mset k v l <> [].
  Proof.
    destruct l as [|[k0 v0] r]; cbn; [discriminate|].
    destruct (k <? k0); [discriminate|]. destruct (k =? k0); discriminate.
  Qed.

  Lemma In_mdel k k' v' l : In (k', v') (mdel k l) -> In (k', v') l.
  Proof.
    induction l as [|[k0 v0] r IH]; cbn; auto.
    destruct (k0 =? k); cbn; auto. intros [E|I]; auto.
  Qed.

  Lemma mdel_sorted k l : sorted l -> sorted (mdel k l).
  Proof.
    induction l as [|[k0 v0] r IH]; cbn; auto. intro S.
    apply sorted_inv in S as [S F]. destruct (k0 =? k); auto.
    apply sorted_cons; auto. intros k' v' I. apply In_mdel in I. eauto.
  Qed.

  Lemma mget_mdel_same k l : sorted l -> mget k (mdel k l) = None.
  Proof.
    induction l as [|[k0 v0] r IH]; cbn; auto. intro S.
    apply sorted_inv in S as [S F]. destruct (k0 =? k) eqn:E; cbn.
    - apply N.eqb_eq in E. subst k0. destruct (mget k r) eqn:G; auto.
      apply mget_Some_In in G. apply F in G. lia.
    - rewrite E. auto.
  Qed.

  Lemma mget_mdel_other k k' l : k' <> k -> mget k' (mdel k l) = mget k' l.
  Proof.
    intro NE. induction l as [|[k0 v0] r IH]; cbn; auto.
    destruct (k0 =? k) eqn:E; cbn.
    - apply N.eqb_eq in E. subst k0. destruct (k =? k') eqn:E2; auto.
      apply N.eqb_eq in E2. congruence.
    - rewrite IH. reflexivity.
  Qed.

  Lemma mdel_nil_single k v l : mget k l = Some v -> mdel k l = [] -> l = [(k, v)].
  Proof.
    destruct l as [|[k0 v0] r]; cbn; [discriminate|].
    destruct (k0 =? k) eqn:E; [|discriminate].
    apply N.eqb_eq in E. intros S ->. inversion S; subst. reflexivity.
  Qed.
End MapFacts.

(* ---- well-formedness ---------------------------------------------------------------- *)
Lemma wf_empty : wf empty.
Proof. constructor; [constructor | intros ? ? []]. Qed.

Lemma wf_inv l : wf (T l) -> sorted l /\ (forall k c, In (k, c) l -> wf c).
Proof. intro W. inversion W; subst. split; auto. Qed.

Lemma wf_child l k c : wf (T l) -> mget k l = Some c -> wf c.
Proof. intros W G. apply wf_inv in W as [_ W]. eapply W. eapply mget_Some_In; eauto. Qed.

Lemma wf_mset l k c : wf (T l) -> wf c -> wf (T (mset k c l)).
Proof.
  intros W Wc. apply wf_inv in W as [S W]. constructor.
  - apply mset_sorted; auto.
  - intros k' c' I. apply In_mset in I as [[_ ->]|I]; eauto.
Qed.

Lemma wf_mdel l k : wf (T l) -> wf (T (mdel k l)).
Proof.
  intros W. apply wf_inv in W as [S W]. constructor.
  - apply mdel_sorted; auto.
  - intros k' c' I. apply In_mdel in I. eauto.
Qed.

(* ---- walks ---------------------------------------------------------------------------- *)
(* the node reached from t along x *)
Fixpoint walk (x : bytes) (t : trie) : option trie :=
  match x with
  | [] => Some t
  | k :: x' => match mget k (children t) with None => None | Some c => walk x' c end
  end.

Lemma has_walk x t : has x t = match walk x t with Some _ => true | None => false end.
Proof.
  revert t; induction x as [|k x IH]; intro t; cbn; auto.
  destruct (mget k (children t)); auto.
Qed.

Lemma walk_leaf_cons k x : walk (k :: x) (T []) = None.
Proof. reflexivity. Qed.

Lemma walk_app x s t c : walk (x ++ s) t = Some c -> exists d, walk x t = Some d.
Proof.
  revert t; induction x as [|k x IH]; intro t; cbn.
  - eauto.
  - destruct (mget k (children t)); [apply IH | discriminate].
Qed.

(* ---- members = walks to a childless node ------------------------------------------------ *)
Definition child_members (k : byte) (c : trie) : list bytes :=
  match c with T [] => [[k]] | _ => map (cons k) (members c) end.

Lemma members_unfold l : members (T l) = flat_map (fun kc => child_members (fst kc) (snd kc)) l.
Proof.
  cbn [members]. induction l as [|[k c] r IH]; cbn [flat_map]; auto.
  f_equal. exact IH.
Qed.

Lemma in_members_T x l :
  In x (members (T l)) <-> exists k c, In (k, c) l /\ In x (child_members k c).
Proof.
  rewrite members_unfold, in_flat_map. split.
  - intros [[k c] [I J]]. exists k, c. auto.
  - intros [k [c [I J]]]. exists (k, c). auto.
Qed.

Lemma in_child_members x k c :
  In x (child_members k c) <->
  exists x', x = k :: x' /\ ((c = T [] /\ x' = []) \/ (c <> T [] /\ In x' (members c))).
Proof.
  unfold child_members. destruct c as [[|kc r]].
  - cbn. split.
    + intros [<-|[]]. exists []. auto.
    + intros [x' [-> [[_ ->]|[N _]]]]; [auto | congruence].
  - rewrite in_map_iff. split.
    + intros [x' [<- I]]. exists x'. split; auto. right. split; auto. discriminate.
    + intros [x' [-> [[E _]|[_ I]]]]; [discriminate|]. exists x'. auto.
Qed.

Lemma members_nonnil t : ~ In [] (members t).
Proof.
  destruct t as [l]. rewrite in_members_T. intros [k [c [_ I]]].
  apply in_child_members in I as [x' [E _]]. discriminate.
Qed.

Theorem members_iff : forall x t, wf t ->
  (In x (members t) <-> x <> [] /\ walk x t = Some (T [])).
Proof.
  induction x as [|k x IH]; intros [l] W.
  - split; [intro I; exfalso; eapply members_nonnil; eauto | intros [N _]; congruence].
  - rewrite in_members_T. cbn [walk children]. split.
    + intros [k' [c [I J]]]. apply in_child_members in J as [x' [E J]]. inversion E; subst k' x'.
      split; [discriminate|]. apply wf_inv in W as [S W].
      rewrite (mget_In _ _ _ S I). destruct J as [[-> ->]|[N J]]; [reflexivity|].
      apply IH in J; [tauto | eauto].
    + intros [_ Wk]. destruct (mget k l) as [c|] eqn:G; [|discriminate].
      exists k, c. split; [eapply mget_Some_In; eauto|].
      apply in_child_members. exists x. split; auto.
      destruct x as [|k2 x2].
      * cbn in Wk. left. inversion Wk. split; reflexivity.
      * right. split.
        -- intros ->. rewrite walk_leaf_cons in Wk. discriminate.
        -- apply IH; [eapply wf_child; eauto|]. split; [discriminate | auto].
Qed.

(* a node with children has a member below it *)
Lemma ex_member : forall t, t <> T [] -> exists m, In m (members t).
Proof.
  induction t as [l IH] using trie_ind2. intro N.
  destruct l as [|[k c] r]; [congruence|].
  apply Forall_inv in IH. cbn in IH.
  destruct c as [[|kc rc]].
  - exists [k]. apply in_members_T. exists k, (T []). split; [left; auto|]. cbn. auto.
  - destruct IH as [m I]; [discriminate|].
    exists (k :: m). apply in_members_T. exists k, (T (kc :: rc)). split; [left; auto|].
    apply in_child_members. exists m. split; auto. right. split; auto. discriminate.
Qed.

(* ---- Has ------------------------------------------------------------------------------- *)
Lemma walk_member : forall x t c, walk x t = Some c -> x <> [] ->
  exists m, In m (members t) /\ prefix x m.
Proof.
  induction x as [|k x IH]; intros [l] c Wk N; [congruence|].
  cbn [walk children] in Wk. destruct (mget k l) as [d|] eqn:G; [|discriminate].
  apply mget_Some_In in G.
  destruct x as [|k2 x2].
  - destruct d as [[|kd rd]].
    + exists [k]. split; [|exists []; reflexivity].
      apply in_members_T. exists k, (T []). split; auto. cbn. auto.
    + destruct (ex_member (T (kd :: rd))) as [m I]; [discriminate|].
      exists (k :: m). split; [|exists m; reflexivity].
      apply in_members_T. exists k, (T (kd :: rd)). split; auto.
      apply in_child_members. exists m. split; auto. right. split; auto. discriminate.
  - destruct (IH d c Wk) as [m [I [s E]]]; [discriminate|].
    exists (k :: m). split.
    + apply in_members_T. exists k, d. split; auto.
      apply in_child_members. exists m. split; auto. right. split; auto.
      intros ->. rewrite walk_leaf_cons in Wk. discriminate.
    + exists s. rewrite E. reflexivity.
Qed.

Theorem has_spec : forall t x, wf t ->
  (has x t = true <-> x = [] \/ exists m, In m (members t) /\ prefix x m).
Proof.
  intros t x W. rewrite has_walk. split.
  - destruct (walk x t) as [c|] eqn:Wk; [|discriminate]. intros _.
    destruct x as [|k x]; [left; reflexivity|]. right.
    eapply walk_member; eauto. discriminate.
  - intros [->|[m [I [s E]]]]; [reflexivity|].
    apply members_iff in I as [_ Wm]; auto. subst m.
    apply walk_app in Wm as [d ->]. reflexivity.
Qed.

Lemma has_existsb t x : wf t -> x <> [] ->
  has x t = existsb (is_prefix x) (members t).
Proof.
  intros W N. apply eq_true_iff_eq. rewrite has_spec, existsb_exists; auto. split.
  - intros [E|[m [I P]]]; [congruence|]. exists m. split; auto. apply is_prefix_spec. auto.
  - intros [m [I P]]. right. exists m. split; auto. apply is_prefix_spec. auto.
Qed.

Theorem has_spec_has t x : wf t -> has x t = spec_has (members t) x.
Proof.
  intro W. destruct x as [|k x]; [reflexivity|].
  unfold spec_has. apply has_existsb; auto. discriminate.
Qed.

(* ---- Add --------------------------------------------------------------------------------- *)
Lemma wf_add : forall b t, wf t -> wf (add b t).
Proof.
  induction b as [|k b IH]; intros [l] W; cbn [add]; auto.
  apply wf_mset; auto. apply IH.
  destruct (mget k l) eqn:G; [eapply wf_child; eauto | apply wf_empty].
Qed.

(* adding something the trie already has changes nothing, structurally *)
Lemma add_has_id : forall b t, wf t -> has b t = true -> add b t = t.
Proof.
  induction b as [|k b IH]; intros [l] W Hb; cbn [add]; auto.
  cbn [has children] in Hb. destruct (mget k l) as [c|] eqn:G; [|discriminate].
  rewrite IH; auto; [|eapply wf_child; eauto].
  rewrite mset_same_id; auto. apply wf_inv in W. tauto.
Qed.

Lemma add_cons_not_leaf k b t : add (k :: b) t <> T [].
Proof.
  destruct t as [l]. cbn [add]. intro E. inversion E as [E1].
  eapply mset_not_nil; eauto.
Qed.

Lemma walk_add_fresh : forall b x, walk x (add b (T [])) = Some (T []) <-> x = b.
Proof.
  induction b as [|k b IH]; intro x.
  - cbn [add]. destruct x; cbn; split; congruence.
  - cbn [add mget mset]. destruct x as [|k' x]; cbn [walk children mget].
    + split; [|discriminate]. intro E. inversion E.
    + destruct (k =? k') eqn:E.
      * apply N.eqb_eq in E. subst k'. unfold empty. rewrite IH. split; congruence.
      * apply N.eqb_neq in E. split; [discriminate | congruence].
Qed.

(* adding a sequence the trie does not have: the leaves afterwards are b and the
   old leaves that are not prefixes of b *)
Lemma add_leaves : forall b t x, wf t -> has b t = false ->
  (x <> [] /\ walk x (add b t) = Some (T []) <->
   x = b \/ (x <> [] /\ walk x t = Some (T []) /\ is_prefix x b = false)).
Proof.
  induction b as [|k b IH]; intros [l] x W Hb; [discriminate|].
  cbn [has children] in Hb. cbn [add].
  destruct x as [|k' x].
  - split; [tauto|]. intros [E|[N _]]; congruence.
  - cbn [walk children is_prefix].
    destruct (N.eq_dec k' k) as [->|NE].
    + rewrite mget_mset_same, N.eqb_refl. cbn [andb].
      destruct (mget k l) as [c|] eqn:G.
      * (* the path goes on below an existing child *)
        assert (Wc : wf c) by (eapply wf_child; eauto).
        destruct x as [|k2 x2].
        -- cbn [walk]. split.
           ++ intros [_ E]. inversion E as [E1]. destruct b as [|kb b'].
              ** cbn in Hb. discriminate.
              ** exfalso. eapply add_cons_not_leaf; eauto.
           ++ intros [E|[_ [_ F]]]; [|cbn in F; discriminate].
              inversion E; subst b. cbn in Hb. discriminate.
        -- specialize (IH c (k2 :: x2) Wc Hb). split.
           ++ intros [_ Wk]. destruct IH as [IH _].
              destruct IH as [E|[_ [A B]]]; [split; [discriminate|auto]| |].
              ** left. congruence.
              ** right. split; [discriminate|]. auto.
           ++ intros [E|[_ [A B]]]; (split; [discriminate|]); apply IH.
              ** left. congruence.
              ** right. split; [discriminate|]. auto.
      * (* a fresh branch *)
        unfold empty. rewrite walk_add_fresh. split.
        -- intros [_ ->]. auto.
        -- intros [E|[_ [F _]]]; [split; [discriminate | congruence] | discriminate].
    + rewrite mget_mset_other; auto.
      assert (E : (k' =? k) = false) by (apply N.eqb_neq; auto). rewrite E. cbn [andb].
      split.
      * intros [N Wk]. right. auto.
      * intros [F|[N [Wk _]]]; [congruence | auto].
Qed.

(* ---- set equivalence and the reference operations ------------------------------------------ *)
Definition seteq (A B : list bytes) : Prop := forall x, In x A <-> In x B.

Lemma existsb_seteq f A B : seteq A B -> existsb f A = existsb f B.
Proof.
  intro S. apply eq_true_iff_eq. rewrite !existsb_exists.
  split; intros [x [I F]]; exists x; split; auto; apply S; auto.
Qed.

Lemma spec_add_seteq b A B : seteq A B -> seteq (spec_add b A) (spec_add b B).
Proof.
  intro S. unfold spec_add. destruct b as [|k b]; auto.
  rewrite (existsb_seteq _ A B S). destruct (existsb _ B); auto.
  intro x. cbn [In]. rewrite !filter_In, (S x). tauto.
Qed.

Lemma spec_delete_seteq b A B : seteq A B ->
  seteq (fst (spec_delete b A)) (fst (spec_delete b B)) /\
  snd (spec_delete b A) = snd (spec_delete b B).
Proof.
  intro S. unfold spec_delete. destruct b as [|k b]; cbn [fst snd]; auto.
  split; [|apply existsb_seteq; auto].
  intro x. rewrite !filter_In, (S x). tauto.
Qed.

Theorem add_refines b t : wf t -> seteq (members (add b t)) (spec_add b (members t)).
Proof.
  intro W. destruct b as [|k b]; [cbn; intro; tauto|].
  unfold spec_add. rewrite <- has_existsb; auto; [|discriminate].
  destruct (has (k :: b) t) eqn:Hb.
  - rewrite add_has_id; auto. intro; tauto.
  - intro x. rewrite members_iff; [|apply wf_add; auto].
    rewrite add_leaves; auto. cbn [In]. rewrite filter_In, members_iff; auto.
    split.
    + intros [->|[N [Wk P]]]; auto. right. split; auto.
      unfold proper_prefix. rewrite P. reflexivity.
    + intros [<-|[[N Wk] P]]; auto. right. split; auto. split; auto.
      unfold proper_prefix in P. destruct (is_prefix x (k :: b)) eqn:Q; auto.
      cbn [andb] in P. apply negb_true_iff, negb_false_iff, beqb_eq in P. subst x.
      (* then b itself is a leaf walk, so the trie has b *)
      rewrite has_walk, Wk in Hb. discriminate.
Qed.
