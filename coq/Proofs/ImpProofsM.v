(* Proofs/ImpProofsM.v — translated source vs hand-written model, part 13: the Newick
   tokeniser (newick.go, reader.nextToken): quoted strings with doubled quotes, punctuation,
   white space, UnreadByte, and the three endings.  The reader's bytes.Buffer r.b is a field
   of the threaded reader record. *)
From Coq Require Import ZifyBool ZifyNat ZifyN.
From Bio Require Import Base.
From Bio.gen Require Import ImpGen.
From Bio.Model Require Import GoSem Newick.
From Bio.Proofs Require Import ImpProofs ImpProofsB.
From Bio.Proofs Require ImpProofsJ.
Open Scope Z_scope.

Definition nt_state : Type := (bool * imp_newickrd_reader * bool * go_stream)%type.
Definition nt_result : Type := (go_stream * imp_newickrd_reader * (list N * Z))%type.
Definition nt_body : nt_state -> res nt_state nt_result := (fun '((afterQuote, r, quote, rd__) : (bool * imp_newickrd_reader * bool * go_stream)) => let '(t__1, t__2, rd__) := go_readbyte rd__ in let b := t__1 in let err := t__2 in (if (negb (Z.eqb err 0%Z)) then (if (andb (Z.eqb err 1%Z) (Z.ltb (0)%Z (go_len (imp_newickrd_reader_b r)))) then Brk (afterQuote, r, quote, rd__) else Ret (rd__, r, ((@nil N), err))) else (if quote then (if (N.eqb b 39%N) then let afterQuote := (negb afterQuote) in let r := (imp_newickrd_reader_with_b r ((imp_newickrd_reader_b r) ++ [b])) in Next (afterQuote, r, quote, rd__) else (if afterQuote then let rd__ := go_unreadbyte rd__ in Brk (afterQuote, r, quote, rd__) else let r := (imp_newickrd_reader_with_b r ((imp_newickrd_reader_b r) ++ [b])) in Next (afterQuote, r, quote, rd__))) else (if (N.eqb b 39%N) then (if (Z.ltb (0)%Z (go_len (imp_newickrd_reader_b r))) then Ret (rd__, r, ((@nil N), 2%Z)) else let quote := true in let r := (imp_newickrd_reader_with_b r ((imp_newickrd_reader_b r) ++ [b])) in Next (afterQuote, r, quote, rd__)) else (if (orb (orb (orb (orb (N.eqb b 40%N) (N.eqb b 41%N)) (N.eqb b 44%N)) (N.eqb b 58%N)) (N.eqb b 59%N)) then (if (Z.ltb (0)%Z (go_len (imp_newickrd_reader_b r))) then let rd__ := go_unreadbyte rd__ in Brk (afterQuote, r, quote, rd__) else Ret (rd__, r, ([b], 0%Z))) else (if (orb (orb (orb (N.eqb b 32%N) (N.eqb b 9%N)) (N.eqb b 10%N)) (N.eqb b 13%N)) then (if (Z.ltb (0)%Z (go_len (imp_newickrd_reader_b r))) then Brk (afterQuote, r, quote, rd__) else Next (afterQuote, r, quote, rd__)) else let r := (imp_newickrd_reader_with_b r ((imp_newickrd_reader_b r) ++ [b])) in Next (afterQuote, r, quote, rd__))))))).
Definition nt_final : nt_state -> res unit nt_result := (fun '(afterQuote, r, quote, rd__) => Ret (rd__, r, ((imp_newickrd_reader_b r), 0%Z))).

Definition rb (buf : bytes) : imp_newickrd_reader := Imp_newickrd_reader (rev buf).

(* what the translated nextToken may return for each answer of the model *)
Definition nt_agrees (tc : Z) (m : tok_res) (r : res unit nt_result) : Prop :=
  match m with
  | TokOk tok rest => exists last rbuf, r = Ret (Stream rest tc last, rbuf, (tok, 0))
  | TokEOF => exists s rbuf, r = Ret (s, rbuf, ([], 1))
  | TokErr => exists s rbuf, r = Ret (s, rbuf, ([], 2))
  end.

Lemma nonempty_len (buf : bytes) : (0 <? go_len (rev buf)) = nonempty buf.
Proof. unfold go_len. rewrite rev_length. destruct buf; cbn [length nonempty]; lia. Qed.

Lemma nt_loop (tm : term) : forall s fuel quote afterq buf last, (length s + 1 < fuel)%nat ->
  nt_agrees (ImpProofsJ.term_code tm) (tok_loop quote afterq buf s tm)
    (after (go_while fuel (fun _ => Ret true) nt_body (afterq, rb buf, quote, Stream s (ImpProofsJ.term_code tm) last)) nt_final).
Proof.
  set (tc := ImpProofsJ.term_code tm).
  induction s as [|b r IH]; intros fuel quote afterq buf last Hf;
    (destruct fuel as [|fuel]; [cbn [length] in Hf; lia|]); cbn [go_while tok_loop];
    unfold nt_body at 1; cbv beta iota; cbn [go_readbyte st_rest st_term]; cbv beta iota zeta;
    change (imp_newickrd_reader_b (rb buf)) with (rev buf); rewrite ?nonempty_len.
  - (* the input is exhausted *)
    destruct tm; cbn [ImpProofsJ.term_code Z.eqb Pos.eqb negb andb] in *; subst tc.
    + destruct (nonempty buf); cbn [andb after nt_agrees].
      * unfold nt_final. cbv beta iota. do 2 eexists. reflexivity.
      * do 2 eexists. reflexivity.
    + cbn [after nt_agrees]. do 2 eexists. reflexivity.
  - cbn [Z.eqb negb].
    assert (Hpush : forall x, imp_newickrd_reader_with_b (rb buf) (rev buf ++ [x]) = rb (x :: buf)) by reflexivity.
    destruct quote.
    + destruct (b =? 39)%N.
      * rewrite Hpush. apply IH. cbn [length] in Hf. lia.
      * destruct afterq.
        -- cbn [go_unreadbyte st_last st_rest st_term after nt_agrees]. unfold nt_final. cbv beta iota.
           do 2 eexists. reflexivity.
        -- rewrite Hpush. apply IH. cbn [length] in Hf. lia.
    + destruct (b =? 39)%N.
      * destruct (nonempty buf).
        -- cbn [after nt_agrees]. do 2 eexists. reflexivity.
        -- rewrite Hpush. apply IH. cbn [length] in Hf. lia.
      * unfold is_punct, is_ws.
        destruct ((b =? 40)%N || (b =? 41)%N || (b =? 44)%N || (b =? 58)%N || (b =? 59)%N).
        -- destruct (nonempty buf).
           ++ cbn [go_unreadbyte st_last st_rest st_term after nt_agrees]. unfold nt_final. cbv beta iota.
              do 2 eexists. reflexivity.
           ++ cbn [after nt_agrees]. do 2 eexists. reflexivity.
        -- destruct ((b =? 32)%N || (b =? 9)%N || (b =? 10)%N || (b =? 13)%N).
           ++ destruct (nonempty buf).
              ** cbn [after nt_agrees]. unfold nt_final. cbv beta iota. do 2 eexists. reflexivity.
              ** apply IH. cbn [length] in Hf. lia.
           ++ rewrite Hpush. apply IH. cbn [length] in Hf. lia.
Qed.

Theorem imp_nextToken fuel s tm r0 : (length s + 1 < fuel)%nat ->
  nt_agrees (ImpProofsJ.term_code tm) (next_token s tm)
    (imp_newickrd_reader_nextToken fuel (Stream s (ImpProofsJ.term_code tm) None) r0).
Proof.
  intros Hf. unfold imp_newickrd_reader_nextToken, next_token. cbv zeta.
  change (imp_newickrd_reader_with_b r0 []) with (rb []).
  exact (nt_loop tm s fuel false false [] None Hf).
Qed.
