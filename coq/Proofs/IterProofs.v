(* Proofs/IterProofs.v — C18: stop-safety of the iterator adapters, generically. *)
From Bio Require Import Base.
From Bio.Model Require Import Iter.

(* Reference semantics of a well-behaved iterator over [items]: call yield on each
   item in order until it answers false. *)
Fixpoint play {A} (items : list A) (S : Type) (y : yieldT A S) (s : S) : S :=
  match items with
  | [] => s
  | a :: r => let (c, s') := y a s in if c then play r S y s' else s'
  end.

Definition behaves {A} (it : seqT A) (items : list A) : Prop :=
  forall (S : Type) (y : yieldT A S) (s : S), it S y s = (play items S y s, Done).

(* items up to and including the first error *)
Fixpoint cut {A} (items : list (item A)) : list (item A) :=
  match items with
  | [] => []
  | ErrItem :: _ => [ErrItem]
  | Rec a :: r => Rec a :: cut r
  end.

Definition error_last {A} (items : list (item A)) : Prop := cut items = items.

Lemma guarded_behaves {A} (items : list A) : behaves (guarded_loop items) items.
Proof.
  induction items as [|a r IH]; intros S y s; cbn [guarded_loop play]; [reflexivity|].
  destruct (y a s) as [c s']. destruct c; [apply IH|reflexivity].
Qed.

Lemma iter_behaves {A} (items : list (item A)) : behaves (iter_loop items) (cut items).
Proof.
  induction items as [|i r IH]; intros S y s; [reflexivity|].
  destruct i as [a|]; cbn [iter_loop cut play].
  - destruct (y (Rec a) s) as [c s']. destruct c; [apply IH|reflexivity].
  - destruct (y ErrItem s) as [c s']. destruct c; reflexivity.
Qed.

Lemma iter_behaves_error_last {A} (items : list (item A)) :
  error_last items -> behaves (iter_loop items) items.
Proof. intros H. unfold error_last in H. rewrite <- H at 2. apply iter_behaves. Qed.

(* the wrapped body never sees a call after it answered false *)
Lemma play_flagged {A S} (items : list A) (body : yieldT A S) (s : S) :
  exists fl, (fl = Live \/ fl = Dead) /\
  play items (S * loop_flag)%type
       (fun a st => match st with
                    | (s0, Live) => let (c, s1) := body a s0 in (c, (s1, if c then Live else Dead))
                    | (s0, _) => (false, (s0, Panicked))
                    end) (s, Live)
  = (play items S body s, fl).
Proof.
  revert s. induction items as [|a r IH]; intros s; cbn [play].
  - exists Live. auto.
  - destruct (body a s) as [c s1]. destruct c.
    + apply IH.
    + exists Dead. auto.
Qed.

Lemma range_play {A S} (it : seqT A) (items : list A) (body : yieldT A S) (s : S) :
  behaves it items -> range_loop it body s = (play items S body s, Done).
Proof.
  intros H. unfold range_loop. rewrite H.
  destruct (play_flagged items body s) as [fl [Hfl E]]. rewrite E.
  destruct Hfl; subst; reflexivity.
Qed.

Lemma wrap_guarded_behaves {A} (inner : seqT A) items :
  behaves inner items -> behaves (wrap_guarded inner) items.
Proof. intros H S y s. unfold wrap_guarded. rewrite (range_play inner items) by exact H. reflexivity. Qed.

Fixpoint filter_map {A B} (f : A -> option B) (l : list A) : list B :=
  match l with
  | [] => []
  | a :: r => match f a with Some b => b :: filter_map f r | None => filter_map f r end
  end.

Lemma play_filter {A B S} (f : A -> option B) (items : list A) (y : yieldT B S) (s : S) :
  play items S (fun a s0 => match f a with Some b => y b s0 | None => (true, s0) end) s
  = play (filter_map f items) S y s.
Proof.
  revert s. induction items as [|a r IH]; intros s; cbn [play filter_map]; [reflexivity|].
  destruct (f a) as [b|]; cbn [play].
  - destruct (y b s) as [c s']. destruct c; [apply IH|reflexivity].
  - apply IH.
Qed.

Lemma filter_wrap_behaves {A B} (f : A -> option B) (inner : seqT A) items :
  behaves inner items -> behaves (filter_wrap f inner) (filter_map f items).
Proof.
  intros H S y s. unfold filter_wrap. rewrite (range_play inner items) by exact H.
  rewrite play_filter. reflexivity.
Qed.

Lemma file_wrap_behaves {A} (opened : bool) (inner : seqT (item A)) items :
  behaves inner items ->
  behaves (file_wrap opened inner) (if opened then items else [ErrItem]).
Proof.
  intros H. destruct opened.
  - intros S y s. unfold file_wrap. apply wrap_guarded_behaves. exact H.
  - intros S y s. unfold file_wrap. cbn [play]. destruct (y ErrItem s) as [c s']. destruct c; reflexivity.
Qed.

(* ---- the consumer that stops at the p-th item ------------------------------------- *)
Definition taken {A} (p : nat) (items : list A) : list A :=
  match p with O => items | _ => firstn p items end.

Lemma play_consumer {A} (p : nat) (items : list A) (seen : list A) (n : nat) :
  (p = 0 \/ n < p)%nat ->
  fst (play items (list A * nat)%type
            (fun a (st : list A * nat) => let '(seen, n) := st in
               (negb (Nat.eqb (S n) p), (seen ++ [a], S n))) (seen, n))
  = seen ++ match p with O => items | _ => firstn (p - n) items end.
Proof.
  revert seen n. induction items as [|a r IH]; intros seen n Hn; cbn [play].
  - destruct p; [|rewrite firstn_nil]; rewrite app_nil_r; reflexivity.
  - destruct (Nat.eqb_spec (S n) p) as [E|E]; cbn [negb fst].
    + subst p. replace (S n - n)%nat with 1%nat by lia. reflexivity.
    + rewrite IH by lia. rewrite <- app_assoc. cbn [app].
      destruct p; [reflexivity|]. replace (S p - n)%nat with (S (p - n)) by lia. reflexivity.
Qed.

Theorem stop_safe {A} (it : seqT A) (items : list A) (p : nat) :
  behaves it items -> run_until it p = (taken p items, Done).
Proof.
  intros H. unfold run_until. rewrite (range_play it items) by exact H.
  pose proof (play_consumer p items [] 0) as P.
  destruct (play items _ _ _) as [seen n] eqn:E. cbn [fst] in P.
  rewrite P by (destruct p; [left; reflexivity|right; lia]).
  cbn [app]. unfold taken. rewrite Nat.sub_0_r. reflexivity.
Qed.

(* never stopped: everything, in order *)
Corollary run_all_items {A} (it : seqT A) items : behaves it items -> run_all it = (items, Done).
Proof. intros H. unfold run_all. rewrite (stop_safe it items 0 H). reflexivity. Qed.

(* the model can exhibit the failure: one missing guard and the runtime check fires *)
Example unguarded_wrapper_panics :
  run_until (wrap_unguarded (guarded_loop [1; 2; 3])) 1 = ([1], PanicAfterStop)
  /\ run_until (wrap_guarded (wrap_guarded (guarded_loop [1; 2; 3]))) 2 = ([1; 2], Done).
Proof. vm_compute. split; reflexivity. Qed.

Lemma cut_error_last {A} (items : list (item A)) : error_last (cut items).
Proof.
  unfold error_last. induction items as [|i r IH]; [reflexivity|].
  destruct i; cbn [cut]; [rewrite IH|]; reflexivity.
Qed.

(* an error item, if any, is the last item *)
Lemma error_last_spec {A} (items : list (item A)) :
  error_last items <-> forall pre post, items = pre ++ ErrItem :: post -> post = [].
Proof.
  unfold error_last. split.
  - revert items. induction items as [|i r IH]; intros H pre post E.
    + destruct pre; discriminate.
    + destruct i as [a|]; cbn [cut] in H.
      * injection H as H. destruct pre as [|x pre]; [discriminate|].
        injection E as _ E. eapply IH; eassumption.
      * destruct r; [|discriminate]. destruct pre as [|x pre].
        { injection E as E. congruence. } { injection E as _ E. destruct pre; discriminate. }
  - induction items as [|i r IH]; intros H; [reflexivity|].
    destruct i as [a|]; cbn [cut].
    + f_equal. apply IH. intros pre post E. apply (H (Rec a :: pre) post). rewrite E. reflexivity.
    + f_equal. symmetry. apply (H [] r). reflexivity.
Qed.
