(* Proofs/SmtextProofsB.v *)
From Bio Require Import Base.
