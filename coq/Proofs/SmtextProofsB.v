(* Proofs/SmtextProofsB.v — ReadNCBI on every layout of a table. *)
From Bio Require Import Base.
From Bio.Model Require Import Smtext.
From Bio.Spec Require Import SmtextSpec.
From Bio.Proofs Require Import SmtextProofs.

(* ---- fields --------------------------------------------------------------------- *)
Lemma lws_space : forall b, lws b -> is_space b = true.
Proof. intros b [-> | [-> | [-> | -> ]]]; reflexivity. Qed.

Lemma lws_nolf : forall l, Forall lws l -> nolf l.
Proof.
  intros l H. eapply Forall_impl; [|exact H].
  intros b [-> | [-> | [-> | -> ]]]; discriminate.
Qed.

Lemma nonspace_nolf : forall l, Forall nonspace l -> nolf l.
Proof.
  intros l H. eapply Forall_impl; [|exact H].
  intros b Hb ->. discriminate Hb.
Qed.

Lemma fields_space : forall c r, is_space c = true -> fields (c :: r) = fields r.
Proof.
  intros c r H. unfold fields. cbn [fields_go]. destruct (fields_go r) as [cur fs].
  rewrite H. reflexivity.
Qed.

Lemma fields_go_space : forall c r, is_space c = true -> fields_go (c :: r) = ([], fields r).
Proof.
  intros c r H. unfold fields. cbn [fields_go]. destruct (fields_go r) as [cur fs].
  rewrite H. reflexivity.
Qed.

Lemma fields_spaces : forall w r, Forall lws w -> fields (w ++ r) = fields r.
Proof.
  induction w as [|c w IH]; intros r H; cbn [app]; auto.
  inversion H; subst. rewrite fields_space by (apply lws_space; assumption). auto.
Qed.

(* the string is empty or starts with a space *)
Definition sp_start (r : bytes) : Prop :=
  match r with [] => True | c :: _ => is_space c = true end.

Lemma fields_go_sp_start : forall r, sp_start r -> fields_go r = ([], fields r).
Proof.
  intros [|c r] H.
  - reflexivity.
  - cbn [sp_start] in H. unfold fields. cbn [fields_go]. destruct (fields_go r) as [cur fs].
    rewrite H. reflexivity.
Qed.

Lemma fields_go_run : forall t r, Forall nonspace t ->
  fields_go (t ++ r) = (t ++ fst (fields_go r), snd (fields_go r)).
Proof.
  induction t as [|c t IH]; intros r H; cbn [app].
  - destruct (fields_go r); reflexivity.
  - inversion H as [|? ? Hc Ht]; subst. cbn [fields_go]. rewrite IH by assumption.
    unfold nonspace in Hc. rewrite Hc. reflexivity.
Qed.

Lemma fields_token : forall t r, token t -> sp_start r -> fields (t ++ r) = t :: fields r.
Proof.
  intros t r [Hne Hns] Hr. unfold fields at 1. rewrite fields_go_run by assumption.
  rewrite (fields_go_sp_start r Hr). cbn [fst snd]. rewrite app_nil_r.
  destruct t; [contradiction | reflexivity].
Qed.

Lemma toks_nil_inv : forall body, Toks [] body -> body = [].
Proof. intros body H; inversion H; reflexivity. Qed.

Lemma fields_toks : forall ts body, Toks ts body -> fields body = ts.
Proof.
  intros ts body H; induction H as [|t ts w rest Ht Hw Hsep HT IH].
  - reflexivity.
  - rewrite fields_token; [|exact Ht|].
    + rewrite fields_spaces by assumption. rewrite IH. reflexivity.
    + destruct w as [|c w].
      * destruct ts as [|t' ts'].
        -- apply toks_nil_inv in HT. subst. exact I.
        -- exfalso. apply Hsep; [discriminate | reflexivity].
      * inversion Hw; subst. cbn [app sp_start]. apply lws_space; assumption.
Qed.

Lemma toks_nolf : forall ts body, Toks ts body -> nolf body.
Proof.
  intros ts body H; induction H as [|t ts w rest [_ Ht] Hw Hsep HT IH].
  - constructor.
  - unfold nolf. rewrite !Forall_app. repeat split.
    + apply nonspace_nolf; assumption.
    + apply lws_nolf; assumption.
    + exact IH.
Qed.

(* the Scanner's CR stripping never changes the fields *)
Lemma fields_go_drop_cr : forall x, fields_go (drop_cr x) = fields_go x.
Proof.
  induction x as [|c x IH].
  - reflexivity.
  - destruct x as [|d r].
    + cbn [drop_cr]. destruct (c =? 13) eqn:E.
      * apply N.eqb_eq in E; subst. reflexivity.
      * reflexivity.
    + change (drop_cr (c :: d :: r)) with (c :: drop_cr (d :: r)).
      cbn [fields_go] in *. rewrite IH. reflexivity.
Qed.

Lemma fields_drop_cr : forall x, fields (drop_cr x) = fields x.
Proof. intros x; unfold fields. rewrite fields_go_drop_cr. reflexivity. Qed.

Lemma skip_line_drop_cr : forall l, NotSkipped l -> skip_line (drop_cr l) = false.
Proof.
  intros l [H1 [H2 H3]]. destruct l as [|c [|d r]].
  - contradiction.
  - cbn [drop_cr]. destruct (c =? 13) eqn:E.
    + apply N.eqb_eq in E; subst. contradiction.
    + cbn [skip_line hd] in *. apply N.eqb_neq; exact H3.
  - change (drop_cr (c :: d :: r)) with (c :: drop_cr (d :: r)).
    cbn [skip_line hd] in *. apply N.eqb_neq; exact H3.
Qed.

Lemma too_long_short : forall l, short l -> too_long l = false.
Proof. intros l H. unfold too_long, short in *. apply N.leb_gt. exact H. Qed.

(* ---- a line carrying tokens ------------------------------------------------------ *)
Lemma line_of_fields : forall ts l, LineOf ts l -> fields l = ts.
Proof.
  intros ts l [lead [body [-> [Hl [HT _]]]]].
  rewrite fields_spaces by assumption. apply fields_toks; exact HT.
Qed.

Lemma line_of_nolf : forall ts l, LineOf ts l -> nolf l.
Proof.
  intros ts l [lead [body [-> [Hl [HT _]]]]]. unfold nolf. rewrite Forall_app. split.
  - apply lws_nolf; assumption.
  - eapply toks_nolf; eassumption.
Qed.

Lemma line_of_not_skipped : forall ts l, LineOf ts l -> NotSkipped l.
Proof.
  intros ts l H. pose proof (line_of_fields ts l H) as Hf.
  destruct H as [lead [body [E [Hl [HT [Hne [Hh Hs]]]]]]].
  repeat split.
  - intros ->. cbn in Hf. congruence.
  - intros ->. cbn in Hf. congruence.
  - exact Hh.
Qed.

Definition line_item (p : bytes) : item bytes :=
  if too_long p then ErrItem else Rec (drop_cr p).

(* what reading a short, non-skipped line does: it only looks at the fields *)
Lemma read_step_line : forall o l s, short l -> NotSkipped l ->
  read_step o (Ok s) (line_item l) =
  match snd s with
  | [] => obind (header_chars (fields l)) (fun cs => Ok (fst s, cs))
  | _ :: _ => obind (read_row o (snd s) (fields l) (fst s)) (fun m' => Ok (m', snd s))
  end.
Proof.
  intros o l s Hs Hn. unfold line_item. rewrite too_long_short by assumption.
  cbn [read_step obind]. unfold read_line.
  rewrite skip_line_drop_cr by assumption. rewrite fields_drop_cr. reflexivity.
Qed.

Lemma read_step_skip : forall o l s, CommentOrEmpty l ->
  read_step o (Ok s) (line_item l) = Ok s.
Proof.
  intros o l s [H Hs]. unfold line_item. rewrite too_long_short by assumption.
  cbn [read_step obind]. unfold read_line.
  destruct H as [->|[->|[r [-> Hr]]]].
  - reflexivity.
  - reflexivity.
  - destruct r as [|d r'].
    + reflexivity.
    + change (drop_cr (35 :: d :: r')) with (35 :: drop_cr (d :: r')). reflexivity.
Qed.

Lemma fields_blank : forall l, Forall lws l -> fields l = [].
Proof.
  intros l H. rewrite <- (app_nil_r l). rewrite fields_spaces by assumption. reflexivity.
Qed.

Lemma read_step_pre : forall o l m, PreLine l ->
  read_step o (Ok (m, [])) (line_item l) = Ok (m, []).
Proof.
  intros o l m [H|[Hb Hs]].
  - apply read_step_skip; exact H.
  - unfold line_item. rewrite too_long_short by assumption.
    cbn [read_step obind]. unfold read_line.
    destruct (skip_line (drop_cr l)); [reflexivity|].
    cbn [snd fst]. rewrite fields_drop_cr, fields_blank by assumption. reflexivity.
Qed.

(* ---- header ----------------------------------------------------------------------- *)
Lemma header_chars_labels : forall cols,
  header_chars (map (fun c => [c]) cols) = Ok (map lab cols).
Proof.
  induction cols as [|c cols IH]; cbn [map header_chars].
  - reflexivity.
  - rewrite IH. unfold extract_single_char, lab. destruct (c =? 42); reflexivity.
Qed.

Lemma read_step_header : forall o cols l m, HeaderLine cols l ->
  read_step o (Ok (m, [])) (line_item l) = Ok (m, map lab cols).
Proof.
  intros o cols l m [Hne [Hns HL]].
  rewrite read_step_line.
  - cbn [snd fst]. rewrite (line_of_fields _ _ HL). rewrite header_chars_labels. reflexivity.
  - destruct HL as [? [? [? [? [? [? [? ?]]]]]]]; assumption.
  - eapply line_of_not_skipped; eassumption.
Qed.

(* ---- rows -------------------------------------------------------------------------- *)
Lemma set_row_ok : forall o c cols xs ts m,
  Forall2 (ScoreTok o) xs ts -> length xs = length cols ->
  set_row o c (map lab cols) ts m =
  Ok (fold_left setf (map (fun cx => ((c, lab (fst cx)), snd cx)) (combine cols xs)) m).
Proof.
  intros o c cols; induction cols as [|d cols IH]; intros xs ts m HF HL.
  - destruct xs; [|discriminate]. inversion HF; subst. reflexivity.
  - destruct xs as [|x xs]; [discriminate|]. inversion HF as [|? t ? ts' [_ Hp] HF']; subst.
    cbn [map set_row combine fold_left]. rewrite Hp.
    rewrite (IH xs ts'); [reflexivity | assumption | cbn in HL; congruence].
Qed.

Lemma forall2_length : forall {A B} (R : A -> B -> Prop) l1 l2,
  Forall2 R l1 l2 -> length l1 = length l2.
Proof. intros A B R l1 l2 H; induction H; cbn; congruence. Qed.

Lemma read_row_ok : forall o cols r xs ts m,
  Forall2 (ScoreTok o) xs ts -> length xs = length cols ->
  read_row o (map lab cols) ([r] :: ts) m = Ok (fold_left setf (row_pairs cols (r, xs)) m).
Proof.
  intros o cols r xs ts m HF HL. unfold read_row.
  cbn [length]. rewrite map_length. rewrite <- (forall2_length _ _ _ HF), HL.
  rewrite Nat.eqb_refl. cbn [negb].
  assert (E : extract_single_char [r] = Ok (lab r)).
  { unfold extract_single_char, lab. destruct (r =? 42); reflexivity. }
  rewrite E. cbn [obind]. rewrite (set_row_ok o (lab r) cols xs ts) by assumption. reflexivity.
Qed.

Lemma read_step_row : forall o cols r xs ts l m,
  cols <> [] -> Forall2 (ScoreTok o) xs ts -> length xs = length cols ->
  LineOf ([r] :: ts) l ->
  read_step o (Ok (m, map lab cols)) (line_item l) =
  Ok (fold_left setf (row_pairs cols (r, xs)) m, map lab cols).
Proof.
  intros o cols r xs ts l m Hne HF HL HLine.
  rewrite read_step_line.
  - cbn [snd fst]. destruct cols as [|c0 cols']; [contradiction|].
    change (map lab (c0 :: cols')) with (lab c0 :: map lab cols') at 1.
    cbv iota. rewrite (line_of_fields _ _ HLine).
    rewrite (read_row_ok o (c0 :: cols') r xs ts) by assumption. reflexivity.
  - destruct HLine as [? [? [? [? [? [? [? ?]]]]]]]; assumption.
  - eapply line_of_not_skipped; eassumption.
Qed.

Lemma read_body : forall o cols rows body, cols <> [] ->
  Body o rows body ->
  Forall (fun r => length (snd r) = length cols) rows ->
  forall m,
  fold_left (read_step o) (map line_item body) (Ok (m, map lab cols)) =
  Ok (fold_left setf (flat_map (row_pairs cols) rows) m, map lab cols).
Proof.
  intros o cols rows body Hne HB; induction HB as [|rows l ls Hs HB IH|r xs ts rows l ls Hr HF HL HB IH];
    intros HR m; cbn [map fold_left flat_map].
  - reflexivity.
  - rewrite read_step_skip by assumption. apply IH; assumption.
  - inversion HR as [|? ? Hlen HR']; subst. cbn [snd] in Hlen.
    rewrite (read_step_row o cols r xs ts) by assumption.
    rewrite IH by assumption. rewrite fold_left_app. reflexivity.
Qed.

Lemma read_pre : forall o pre m, Forall PreLine pre ->
  fold_left (read_step o) (map line_item pre) (Ok (m, [])) = Ok (m, []).
Proof.
  intros o pre m H; induction H as [|l ls Hl _ IH]; cbn [map fold_left].
  - reflexivity.
  - rewrite read_step_pre by assumption. exact IH.
Qed.

(* ---- from bytes to lines -------------------------------------------------------- *)
Lemma read_step_empty : forall o acc, read_step o acc (line_item []) = acc.
Proof. intros o [[m cs]| |]; reflexivity. Qed.

Lemma fold_lines_tail : forall o ls acc,
  fold_left (read_step o) (map line_item (lines_tail ls)) acc =
  fold_left (read_step o) (map line_item ls) acc.
Proof.
  intros o ls; induction ls as [|p r IH]; intros acc.
  - reflexivity.
  - destruct r as [|q r'].
    + destruct p as [|c p'].
      * cbn [lines_tail map fold_left]. rewrite read_step_empty. reflexivity.
      * reflexivity.
    + change (lines_tail (p :: q :: r')) with (p :: lines_tail (q :: r')).
      cbn [map fold_left]. apply IH.
Qed.

Definition finish (t : term) (acc : outcome rstate) : outcome smatrix :=
  match acc with
  | Ok (m, _) => match t with TEOF => Ok m | TErr => Err end
  | Err => Err
  | Panic => Panic
  end.

Lemma read_ncbi_lines : forall o s t,
  read_ncbi o s t =
  finish t (fold_left (read_step o) (map line_item (split_on LF s)) (Ok ([], []))).
Proof.
  intros o s t. unfold read_ncbi, line_items.
  change (map (fun p => if too_long p then ErrItem else Rec (drop_cr p)) (lines_tail (split_on LF s)))
    with (map line_item (lines_tail (split_on LF s))).
  rewrite fold_lines_tail. reflexivity.
Qed.

Lemma split_on_nolf : forall a, nolf a -> split_on LF a = [a].
Proof.
  induction a as [|c a IH]; intros H; cbn [split_on].
  - reflexivity.
  - inversion H; subst. rewrite IH by assumption.
    destruct (c =? LF) eqn:E; [apply N.eqb_eq in E; contradiction | reflexivity].
Qed.

Lemma split_on_app_lf : forall a r, nolf a -> split_on LF (a ++ LF :: r) = a :: split_on LF r.
Proof.
  induction a as [|c a IH]; intros r H; cbn [app split_on].
  - rewrite N.eqb_refl. reflexivity.
  - inversion H; subst. rewrite IH by assumption.
    destruct (c =? LF) eqn:E; [apply N.eqb_eq in E; contradiction | reflexivity].
Qed.

Lemma split_join_lines : forall ls nl, ls <> [] -> Forall nolf ls ->
  split_on LF (join_lines ls nl) = ls ++ (if nl then [[]] else []).
Proof.
  unfold join_lines. induction ls as [|x ls IH]; intros nl Hne HF; [contradiction|].
  inversion HF as [|? ? Hx HF']; subst. destruct ls as [|y ls'].
  - cbn [join_with]. destruct nl.
    + rewrite split_on_app_lf by assumption. reflexivity.
    + rewrite app_nil_r. rewrite split_on_nolf by assumption. reflexivity.
  - change (join_with [LF] (x :: y :: ls')) with (x ++ [LF] ++ join_with [LF] (y :: ls')).
    rewrite <- !app_assoc. cbn [app]. rewrite split_on_app_lf by assumption.
    rewrite IH by (auto; discriminate). reflexivity.
Qed.

Lemma read_join_lines : forall o ls nl t, ls <> [] -> Forall nolf ls ->
  read_ncbi o (join_lines ls nl) t =
  finish t (fold_left (read_step o) (map line_item ls) (Ok ([], []))).
Proof.
  intros o ls nl t Hne HF. rewrite read_ncbi_lines, split_join_lines by assumption.
  destruct nl.
  - rewrite map_app, fold_left_app. cbn [map fold_left]. rewrite read_step_empty. reflexivity.
  - rewrite app_nil_r. reflexivity.
Qed.

(* ---- every layout line is LF-free ------------------------------------------------ *)
Lemma comment_nolf : forall l, CommentOrEmpty l -> nolf l.
Proof.
  intros l [[->|[->|[r [-> Hr]]]] _].
  - constructor.
  - constructor; [discriminate | constructor].
  - constructor; [discriminate | exact Hr].
Qed.

Lemma preline_nolf : forall l, PreLine l -> nolf l.
Proof.
  intros l [H|[H _]]; [apply comment_nolf; exact H | apply lws_nolf; exact H].
Qed.

Lemma body_nolf : forall o rows body, Body o rows body -> Forall nolf body.
Proof.
  intros o rows body H; induction H; constructor; auto.
  - apply comment_nolf; assumption.
  - eapply line_of_nolf; eassumption.
Qed.

(* the state after the pre-header lines, the header and the body *)
Lemma read_layout_lines : forall o T pre hdr body,
  Forall PreLine pre -> HeaderLine (t_cols T) hdr -> Body o (t_rows T) body -> rect T ->
  fold_left (read_step o) (map line_item (pre ++ hdr :: body)) (Ok ([], [])) =
  Ok (matrix_of T, map lab (t_cols T)).
Proof.
  intros o T pre hdr body Hpre Hh Hb Hr.
  rewrite map_app, fold_left_app. rewrite read_pre by assumption.
  cbn [map fold_left]. rewrite (read_step_header o (t_cols T)) by assumption.
  destruct Hh as [Hne _].
  rewrite (read_body o (t_cols T) (t_rows T)) by assumption. reflexivity.
Qed.

Lemma layout_lines_nolf : forall o T pre hdr body,
  Forall PreLine pre -> HeaderLine (t_cols T) hdr -> Body o (t_rows T) body ->
  Forall nolf (pre ++ hdr :: body).
Proof.
  intros o T pre hdr body Hpre [_ [_ HL]] Hb. apply Forall_app. split.
  - eapply Forall_impl; [|exact Hpre]. apply preline_nolf.
  - constructor; [eapply line_of_nolf; eassumption | eapply body_nolf; eassumption].
Qed.

Theorem read_ncbi_exact : forall o T L,
  rect T -> TableLayout o T L -> read_ncbi o L TEOF = Ok (matrix_of T).
Proof.
  intros o T L Hr HL. destruct HL as [pre hdr body nl Hpre Hh Hb].
  rewrite read_join_lines.
  - rewrite (read_layout_lines o T) by assumption. reflexivity.
  - destruct pre; discriminate.
  - eapply layout_lines_nolf; eassumption.
Qed.

(* a read fault after a well-formed table is reported *)
Theorem read_ncbi_fault : forall o T L,
  rect T -> TableLayout o T L -> read_ncbi o L TErr = Err.
Proof.
  intros o T L Hr HL. destruct HL as [pre hdr body nl Hpre Hh Hb].
  rewrite read_join_lines.
  - rewrite (read_layout_lines o T) by assumption. reflexivity.
  - destruct pre; discriminate.
  - eapply layout_lines_nolf; eassumption.
Qed.

(* ---- the pairs of a table with distinct labels ------------------------------------ *)
Lemma row_pairs_keys : forall cols r,
  length (snd r) = length cols ->
  map fst (row_pairs cols r) = map (fun c => (lab (fst r), lab c)) cols.
Proof.
  intros cols [r xs]; cbn [fst snd]. unfold row_pairs; cbn [fst snd].
  revert xs; induction cols as [|c cols IH]; intros xs H.
  - reflexivity.
  - destruct xs as [|x xs]; [discriminate|]. cbn [combine map fst snd].
    f_equal. apply IH. cbn in H; congruence.
Qed.

Lemma nodup_app : forall {A} (a b : list A),
  NoDup a -> NoDup b -> (forall x, In x a -> In x b -> False) -> NoDup (a ++ b).
Proof.
  intros A a b Ha Hb Hd; induction Ha as [|x a Hx Ha IH]; cbn [app].
  - exact Hb.
  - constructor.
    + rewrite in_app_iff. intros [I|I]; [contradiction | apply (Hd x); [left; reflexivity | exact I]].
    + apply IH. intros y I1 I2. apply (Hd y); [right; exact I1 | exact I2].
Qed.

Lemma pairs_keys_nodup : forall T, rect T ->
  NoDup (map lab (t_cols T)) -> NoDup (map (fun r => lab (fst r)) (t_rows T)) ->
  NoDup (map fst (pairs T)).
Proof.
  intros [cols rows]; unfold rect, pairs; cbn [t_cols t_rows]. intros HR HC HRows.
  induction rows as [|r rows IH]; cbn [flat_map map].
  - constructor.
  - inversion HR as [|? ? Hlen HR']; subst. cbn [map] in HRows.
    inversion HRows as [|? ? Hnotin HRows']; subst.
    rewrite map_app. apply nodup_app.
    + rewrite row_pairs_keys by assumption.
      clear - HC. induction cols as [|c cols IHc]; cbn [map] in *.
      * constructor.
      * inversion HC; subst. constructor; auto.
        rewrite in_map_iff. intros [c' [E I]]. inversion E.
        apply H1. rewrite <- H0. apply in_map. exact I.
    + apply IH; assumption.
    + intros k I1 I2. rewrite row_pairs_keys in I1 by assumption.
      apply in_map_iff in I1. destruct I1 as [c [<- _]].
      apply in_map_iff in I2. destruct I2 as [[k' x] [E I2]]. cbn [fst] in E. subst k'.
      apply in_flat_map in I2. destruct I2 as [r' [Ir' I2]].
      assert (Hr' : length (snd r') = length cols).
      { rewrite Forall_forall in HR'. apply HR'; assumption. }
      apply (in_map fst) in I2. rewrite row_pairs_keys in I2 by assumption.
      cbn [fst] in I2. apply in_map_iff in I2. destruct I2 as [c' [E _]].
      inversion E. apply Hnotin. rewrite <- H0.
      apply (in_map (fun r => lab (fst r))) in Ir'. exact Ir'.
Qed.

(* with distinct row labels and distinct column labels (after '*' -> Gap), the
   matrix a table denotes holds exactly the table's pairs *)
Theorem matrix_of_table : forall T, rect T ->
  NoDup (map lab (t_cols T)) -> NoDup (map (fun r => lab (fst r)) (t_rows T)) ->
  keys_unique (matrix_of T)
  /\ forall k x, mlookup k (matrix_of T) = Some x <-> In (k, x) (pairs T).
Proof.
  intros T HR HC HRows. unfold matrix_of.
  apply matrix_of_entries_lookup. apply pairs_keys_nodup; assumption.
Qed.
