(* Proofs/StreamProofsB.v *)
From Bio Require Import Base.
