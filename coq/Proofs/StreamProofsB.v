(* Proofs/StreamProofsB.v — C06: delivery configurations and CR LF line
   terminators for the five formats. *)
From Coq Require Import String.
From Bio Require Import Base.
From Bio.Model Require Fasta Fastq Sam Bed Newick.
From Bio.Model Require Import Stream.
From Bio.Spec Require FastaSpec FastqSpec SamSpec BedSpec NewickSpec.
From Bio.Proofs Require FastaProofs FastaProofsB FastaProofsC FastqProofs FastqProofsB
  SamProofs SamProofsB SamProofsC BedProofs BedProofsB BedProofsC
  NewickProofs NewickProofsB NewickProofsC.
From Bio.Proofs Require Import StreamProofs.
Open Scope N_scope.

(* ================================================================== *)
(* schedules and files: definitional on the model                       *)

Lemma schedule_irrelevant {R : Type} (dec : bytes -> term -> R) cs cs' t :
  concat cs = concat cs' -> dec (of_schedule cs) t = dec (of_schedule cs') t.
Proof. unfold of_schedule. now intros ->. Qed.

Lemma file_eq_reader {R : Type} (e : R) gz (dec : bytes -> term -> R) w :
  file_run e true gz dec w = dec w TEOF.
Proof. unfold file_run. now destruct gz. Qed.

Lemma file_open_error {R : Type} (e : R) gz (dec : bytes -> term -> R) w :
  file_run e false gz dec w = e.
Proof. reflexivity. Qed.

Lemma file_gz_eq_plain {R : Type} (e : R) opened (dec : bytes -> term -> R) w :
  file_run e opened true dec w = file_run e opened false dec w.
Proof. reflexivity. Qed.

(* ================================================================== *)
(* FASTA                                                                *)

Lemma clean_concat_pieces bad cs : clean bad (concat cs) -> Forall (clean bad) cs.
Proof.
  induction cs as [|c cs IH]; intro H; [constructor|].
  cbn [concat] in H. apply Forall_app in H as [A B]. constructor; [exact A | exact (IH B)].
Qed.

Lemma crlf_write_fasta r : FastaSpec.fa_ok r ->
  crlf (Fasta.write r) = FastaSpec.write_nl [CR; LF] r.
Proof.
  intros [Hn Hs]. rewrite FastaProofsC.write_is_write_nl. unfold FastaSpec.write_nl.
  change (crlf (Fasta.GT :: ?x)) with (Fasta.GT :: crlf x).
  f_equal. rewrite !crlf_app, crlf_concat, map_map.
  rewrite (crlf_nolf (Fasta.name r)) by (apply (clean_not_in _ _ _ Hn); right; now left).
  f_equal. f_equal. f_equal.
  apply map_ext_in. intros c Hc. rewrite crlf_app. f_equal.
  apply crlf_nolf.
  pose proof (FastaProofs.chunks_concat (Fasta.seq r)) as E.
  rewrite <- E in Hs. apply clean_concat_pieces in Hs. rewrite Forall_forall in Hs.
  apply (clean_not_in _ _ _ (Hs c Hc)). right. now left.
Qed.

Lemma crlf_fasta_file rs : Forall FastaSpec.fa_ok rs ->
  crlf (fasta_file rs) = concat (map (FastaSpec.write_nl [CR; LF]) rs).
Proof.
  intro H. unfold fasta_file. rewrite crlf_concat, map_map. f_equal.
  apply map_ext_in. intros r Hr. apply crlf_write_fasta. rewrite Forall_forall in H. now apply H.
Qed.

Lemma crlf_fasta rs : Forall FastaSpec.fa_ok rs ->
  Fasta.decode (crlf (fasta_file rs)) TEOF = Fasta.decode (fasta_file rs) TEOF.
Proof.
  intro H. rewrite (crlf_fasta_file rs H), (FastaProofsC.crlf_roundtrip rs H).
  unfold fasta_file. now rewrite (FastaProofsC.write_read_roundtrip rs H).
Qed.

Lemma crlf_fasta_records rs : Forall FastaSpec.fa_ok rs ->
  Fasta.decode (crlf (fasta_file rs)) TEOF = map Rec rs.
Proof.
  intro H. now rewrite (crlf_fasta_file rs H), (FastaProofsC.crlf_roundtrip rs H).
Qed.

(* ================================================================== *)
(* FASTQ                                                                *)

(* any text without CR, either terminal condition *)
Lemma crlf_fastq_any s t : ~ In CR s -> Fastq.decode (crlf s) t = Fastq.decode s t.
Proof. intro H. unfold Fastq.decode. now rewrite (scan_tokens_crlf s H). Qed.

Lemma fastq_write_nocr r : FastqSpec.fq_ok r -> ~ In CR (Fastq.write r).
Proof.
  intros (Hn & Hs & Hq & _). unfold Fastq.write.
  pose proof (FastqProofs.field_ok_no_cr _ Hn) as A.
  pose proof (FastqProofs.field_ok_no_cr _ Hs) as B.
  pose proof (FastqProofs.field_ok_no_cr _ Hq) as C.
  intro Hin. destruct Hin as [E|Hin]; [discriminate|].
  apply in_app_or in Hin as [Hin|Hin]; [now apply A|].
  destruct Hin as [E|Hin]; [discriminate|].
  apply in_app_or in Hin as [Hin|Hin]; [now apply B|].
  destruct Hin as [E|Hin]; [discriminate|].
  destruct Hin as [E|Hin]; [discriminate|].
  destruct Hin as [E|Hin]; [discriminate|].
  apply in_app_or in Hin as [Hin|Hin]; [now apply C|].
  destruct Hin as [E|[]]. discriminate.
Qed.

Lemma fastq_file_nocr rs : Forall FastqSpec.fq_ok rs -> ~ In CR (fastq_file rs).
Proof.
  intro H. unfold fastq_file. apply not_in_concat. apply Forall_map.
  eapply Forall_impl; [|exact H]. intros r Hr. now apply fastq_write_nocr.
Qed.

Lemma crlf_fastq rs t : Forall FastqSpec.fq_ok rs ->
  Fastq.decode (crlf (fastq_file rs)) t = Fastq.decode (fastq_file rs) t.
Proof. intro H. apply crlf_fastq_any. now apply fastq_file_nocr. Qed.

Lemma crlf_fastq_records rs : Forall FastqSpec.fq_ok rs ->
  Fastq.decode (crlf (fastq_file rs)) TEOF = map Rec rs.
Proof. intro H. rewrite (crlf_fastq rs TEOF H). now apply FastqProofsB.roundtrip. Qed.

(* ================================================================== *)
(* SAM                                                                  *)

Lemma flat_map_cr {A} (f : bytes -> list A) ls :
  Forall (fun l => f (l ++ [CR]) = f l) ls ->
  flat_map f (map (fun l => l ++ [CR]) ls) = flat_map f ls.
Proof.
  induction 1 as [|l ls Hl _ IH]; [reflexivity|]. cbn [map flat_map]. now rewrite Hl, IH.
Qed.

(* any text none of whose LF-terminated lines ends in CR, either terminal *)
Lemma crlf_sam_any o s t :
  Forall (fun l => drop_cr l = l) (fst (rs_lines s)) ->
  Sam.reader_header o (crlf s) t = Sam.reader_header o s t.
Proof.
  intro H. unfold Sam.reader_header. rewrite rs_lines_crlf.
  destruct (rs_lines s) as [ls tail]. cbn [fst snd] in *.
  f_equal. apply flat_map_cr. eapply Forall_impl; [|exact H].
  intros l Hl. now apply SamProofsC.process_line_cr.
Qed.

Lemma sam_file_lines o hs rs :
  Forall SamSpec.header_ok hs -> Forall (SamSpec.sam_ok o) rs ->
  let ls := hs ++ map (SamProofsB.line o) rs in
  sam_file o hs rs = concat (map (fun l => l ++ [LF]) ls)
  /\ Forall (SamProofs.nosep LF) ls /\ Forall (fun l => drop_cr l = l) ls.
Proof.
  intros Hh Hr ls. split; [apply SamProofsC.file_text_lines|]. split.
  - apply Forall_app. split.
    + eapply Forall_impl; [|exact Hh]. intros h (_ & Hlf & _). now apply SamProofsC.not_in_nosep.
    + apply Forall_map. eapply Forall_impl; [|exact Hr]. intros r Hok. now apply SamProofsB.line_nosep_lf.
  - apply Forall_app. split.
    + eapply Forall_impl; [|exact Hh]. now intros h (_ & _ & Hd).
    + apply Forall_map. eapply Forall_impl; [|exact Hr]. intros r Hok.
      apply SamProofs.drop_cr_nosep. now apply SamProofsB.line_nosep_cr.
Qed.

Lemma crlf_sam o hs rs t :
  Forall SamSpec.header_ok hs -> Forall (SamSpec.sam_ok o) rs ->
  Sam.reader_header o (crlf (sam_file o hs rs)) t = Sam.reader_header o (sam_file o hs rs) t.
Proof.
  intros Hh Hr. destruct (sam_file_lines o hs rs Hh Hr) as (E & Hlf & Hcr).
  apply crlf_sam_any. rewrite E, (SamProofsC.rs_lines_lines _ Hlf). exact Hcr.
Qed.

Lemma crlf_sam_reader o hs rs t :
  Forall SamSpec.header_ok hs -> Forall (SamSpec.sam_ok o) rs ->
  Sam.reader o (crlf (sam_file o hs rs)) t = Sam.reader o (sam_file o hs rs) t.
Proof. intros Hh Hr. unfold Sam.reader. now rewrite (crlf_sam o hs rs t Hh Hr). Qed.

(* ================================================================== *)
(* BED                                                                  *)

Lemma do_line_cr n l : drop_cr l = l -> Bed.do_line n (l ++ [CR]) = Bed.do_line n l.
Proof. intro H. unfold Bed.do_line. now rewrite drop_cr_snoc, H. Qed.

Lemma dec_lines_map (f : bytes -> bytes) ls tail t :
  Forall (fun l => forall n, Bed.do_line n (f l) = Bed.do_line n l) ls -> forall n,
  Bed.dec_lines n (map f ls) tail t = Bed.dec_lines n ls tail t.
Proof.
  induction 1 as [|l ls Hl _ IH]; intro n; [reflexivity|].
  cbn [map Bed.dec_lines]. rewrite (Hl n).
  destruct (Bed.do_line n l); [apply IH | reflexivity | now rewrite IH].
Qed.

Lemma dec_lines_cr ls tail t : Forall (fun l => drop_cr l = l) ls -> forall n,
  Bed.dec_lines n (map (fun l => l ++ [CR]) ls) tail t = Bed.dec_lines n ls tail t.
Proof.
  intro H. apply dec_lines_map. eapply Forall_impl; [|exact H].
  intros l Hl n. now apply do_line_cr.
Qed.

Lemma crlf_bed_any s t :
  Forall (fun l => drop_cr l = l) (fst (rs_lines s)) ->
  Bed.decode (crlf s) t = Bed.decode s t.
Proof.
  intro H. unfold Bed.decode. rewrite rs_lines_crlf.
  destruct (rs_lines s) as [ls tail]. cbn [fst snd] in *. now apply dec_lines_cr.
Qed.

Lemma crlf_bed bs w t : Forall BedSpec.bed_ok bs -> bed_file bs = Ok w ->
  Bed.decode (crlf w) t = Bed.decode w t.
Proof.
  intros H Hw. unfold bed_file in Hw.
  rewrite BedProofsC.write_file_text in Hw
    by (eapply Forall_impl; [|exact H]; now intros b [A _]).
  injection Hw as <-. apply crlf_bed_any. rewrite (BedProofsC.rs_lines_text bs H). cbn [fst].
  apply Forall_map. eapply Forall_impl; [|exact H]. intros b Hb.
  apply BedProofsC.drop_cr_nob. apply BedProofsB.line_nob; [exact Hb | discriminate | reflexivity].
Qed.

(* ================================================================== *)
(* Newick                                                               *)

Fixpoint names (t : Newick.tree) : list bytes :=
  match t with Newick.Node n _ cs => n :: flat_map names cs end.

Definition lf_free_names (t : Newick.tree) : Prop := Forall (fun n => ~ In LF n) (names t).

Lemma dbl_quotes_in x s : In x (Newick.dbl_quotes s) -> In x s.
Proof.
  induction s as [|c s IH]; [intros []|]. cbn [Newick.dbl_quotes].
  destruct (N.eqb_spec c 39) as [->|_].
  - intros [<-|[<-|H]]; [now left | now left | right; now apply IH].
  - intros [<-|H]; [now left | right; now apply IH].
Qed.

Lemma name_to_text_nolf s : ~ In LF s -> ~ In LF (Newick.name_to_text s).
Proof.
  intros H Hin. unfold Newick.name_to_text in Hin. destruct (existsb Newick.name_trigger s).
  - destruct Hin as [E|Hin]; [discriminate|].
    apply in_app_or in Hin as [Hin|[E|[]]]; [|discriminate].
    apply H. now apply dbl_quotes_in.
  - unfold Newick.map_byte in Hin. apply in_map_iff in Hin as [c [E Hc]].
    destruct (c =? 32); [discriminate|]. apply H. now rewrite <- E.
Qed.

Lemma dist_text_nolf o d : (is_zeroF d = false -> NewickSpec.float_ok o d) ->
  ~ In LF (if is_zeroF d then [] else 58 :: fmtF o d).
Proof.
  intros H. destruct (is_zeroF d); [intros []|].
  destruct (H eq_refl) as (_ & _ & Hc). intros [E|Hin]; [discriminate|].
  revert Hin. apply (clean_not_in _ _ _ Hc). unfold NewickSpec.delims. cbn. tauto.
Qed.

Lemma names_node n d cs : lf_free_names (Newick.Node n d cs) ->
  ~ In LF n /\ Forall lf_free_names cs.
Proof.
  unfold lf_free_names. cbn [names]. intro H. inversion H as [|? ? Hn Hr]; subst.
  split; [exact Hn|]. now apply NewickProofsC.Forall_flat_map' in Hr.
Qed.

Lemma newick_text_nolf o : forall t, NewickSpec.floats_ok o t -> lf_free_names t ->
  ~ In LF (Newick.newick_text o t).
Proof.
  induction t as [nm d cs HF] using NewickProofs.tree_ind'. intros Hok Hnm.
  apply NewickProofsC.floats_ok_node in Hok. destruct Hok as [Hd Hcs].
  apply names_node in Hnm. destruct Hnm as [Hn Hns].
  assert (HQ : Forall (fun c => ~ In LF (Newick.newick_text o c)) cs).
  { rewrite Forall_forall in *. intros c Hc. apply (HF c Hc); [apply (Hcs c Hc) | apply (Hns c Hc)]. }
  assert (Htail : ~ In LF (Newick.name_to_text nm ++ (if is_zeroF d then [] else 58 :: fmtF o d))).
  { apply not_in_app; [now apply name_to_text_nolf | now apply dist_text_nolf]. }
  destruct cs as [|c0 cr].
  - rewrite NewickProofsC.newick_text_leaf. exact Htail.
  - rewrite NewickProofsC.newick_text_inner. inversion HQ as [|? ? H0 HQ']; subst.
    apply not_in_app; [|exact Htail].
    intros [E|Hin]; [discriminate|]. revert Hin.
    apply not_in_app; [exact H0|]. apply not_in_app; [|intros [E|[]]; discriminate].
    clear - HQ'. induction HQ' as [|c l Hc _ IH]; [intros []|].
    cbn [NewickProofsC.kids_rest]. intros [E|Hin]; [discriminate|]. revert Hin.
    now apply not_in_app.
Qed.

Lemma marshal_nolf o t : NewickSpec.floats_ok o t -> lf_free_names t ->
  ~ In LF (Newick.marshal o t).
Proof.
  intros Hok Hn. unfold Newick.marshal. apply not_in_app; [now apply newick_text_nolf|].
  intros [E|[]]. discriminate.
Qed.

(* trees each followed by the separator [sep] *)
Lemma newick_lines_seq o sep ts :
  concat (map (fun t => Newick.marshal o t ++ sep) ts)
  = NewickSpec.seq_text o (map (fun t => (t, sep)) ts).
Proof.
  induction ts as [|t ts IH]; [reflexivity|].
  cbn [map concat NewickSpec.seq_text]. now rewrite IH, <- app_assoc.
Qed.

Lemma crlf_newick_file o ts :
  Forall (NewickSpec.floats_ok o) ts -> Forall lf_free_names ts ->
  crlf (newick_file o ts) = concat (map (fun t => Newick.marshal o t ++ [CR; LF]) ts).
Proof.
  intros Hok Hn. unfold newick_file. rewrite crlf_concat, map_map. f_equal.
  apply map_ext_in. intros t Ht. rewrite crlf_app. f_equal.
  rewrite Forall_forall in Hok, Hn. apply crlf_nolf. apply marshal_nolf; [now apply Hok | now apply Hn].
Qed.

Lemma newick_lines_decode o sep ts :
  NewickSpec.ws_string sep -> Forall (NewickSpec.floats_ok o) ts ->
  Newick.decode o (concat (map (fun t => Newick.marshal o t ++ sep) ts)) TEOF
  = Ok (map (fun t => Rec (NewickSpec.norm t)) ts).
Proof.
  intros Hs Hok. rewrite newick_lines_seq.
  assert (HF : Forall (fun p => NewickSpec.floats_ok o (fst p) /\ NewickSpec.ws_string (snd p))
                      (map (fun t => (t, sep)) ts)).
  { apply Forall_map. eapply Forall_impl; [|exact Hok]. intros t Ht. now split. }
  pose proof (NewickProofsC.decode_seq o [] _ (Forall_nil _) HF) as H.
  cbn [app] in H. etransitivity; [exact H|]. now rewrite map_map.
Qed.

Lemma crlf_newick o ts :
  Forall (NewickSpec.floats_ok o) ts -> Forall lf_free_names ts ->
  Newick.decode o (crlf (newick_file o ts)) TEOF = Newick.decode o (newick_file o ts) TEOF.
Proof.
  intros Hok Hn. rewrite (crlf_newick_file o ts Hok Hn).
  rewrite (newick_lines_decode o [CR; LF] ts) by (try exact Hok; repeat constructor).
  unfold newick_file.
  rewrite (newick_lines_decode o [LF] ts) by (try exact Hok; repeat constructor).
  reflexivity.
Qed.

(* CR LF (or any whitespace) as the separator between trees: no condition on
   the names *)
Lemma newick_separator_irrelevant o sep sep' ts :
  NewickSpec.ws_string sep -> NewickSpec.ws_string sep' -> Forall (NewickSpec.floats_ok o) ts ->
  Newick.decode o (concat (map (fun t => Newick.marshal o t ++ sep) ts)) TEOF
  = Newick.decode o (concat (map (fun t => Newick.marshal o t ++ sep') ts)) TEOF.
Proof.
  intros Hs Hs' Hok. now rewrite (newick_lines_decode o sep ts Hs Hok), (newick_lines_decode o sep' ts Hs' Hok).
Qed.
