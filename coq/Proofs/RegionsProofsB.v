(* Proofs/RegionsProofsB.v — the sweep and the binary search. *)
From Coq Require Import Sorting.Permutation Sorting.Sorted.
From Bio Require Import Base.
From Bio.Model Require Import Regions.
From Bio.Spec Require Import RegionsSpec.
From Bio.Proofs Require Import RegionsProofs.
Open Scope Z_scope.

(* ---------------- the sweep ---------------- *)

Definition pos_sorted (evs : list event) : Prop :=
  StronglySorted (fun a b => e_pos a <= e_pos b) evs.

Lemma sorted_events_pos evs : sorted_events evs -> pos_sorted evs.
Proof.
  unfold sorted_events, pos_sorted. induction 1 as [|a l Hl IH Ha]; constructor; [exact IH|].
  rewrite Forall_forall in *. intros y Hy. apply ev_le_pos. now apply Ha.
Qed.

(* the first-iteration initialisation [if i == 0 { pos = e.pos }] *)
Lemma sweep_first e r p idxs :
  sweep (e :: r) true p idxs = sweep (e :: r) false (e_pos e) idxs.
Proof. reflexivity. Qed.

Lemma sweep_head evs : forall p idxs, exists a rest, sweep evs false p idxs = (p, a) :: rest.
Proof.
  induction evs as [|e r IH]; intros p idxs; cbn [sweep].
  - now exists idxs, [].
  - destruct (negb (e_pos e =? p)); [now eexists; eexists|apply IH].
Qed.

Lemma sweep_sorted evs : forall p idxs,
  pos_sorted evs -> Forall (fun e => p <= e_pos e) evs ->
  strictly_ascending (map fst (sweep evs false p idxs)).
Proof.
  unfold strictly_ascending, pos_sorted.
  induction evs as [|e r IH]; intros p idxs S F; cbn [sweep].
  - cbn. repeat constructor.
  - inversion S as [|? ? Sr Se]; inversion F as [|? ? Fe Fr]; subst.
    destruct (Z.eqb_spec (e_pos e) p) as [E|E]; cbn [negb].
    + apply IH; [exact Sr|]. rewrite <- E. exact Se.
    + specialize (IH (e_pos e) (if e_start e then set_add (e_idx e) idxs
                                 else set_remove (e_idx e) idxs) Sr Se).
      destruct (sweep_head r (e_pos e) (if e_start e then set_add (e_idx e) idxs
                                 else set_remove (e_idx e) idxs)) as (a & rest & Hs).
      rewrite Hs in *. cbn [map fst] in *.
      constructor; [exact IH|].
      inversion IH as [|? ? _ Hrest]; subst.
      constructor; [lia|].
      rewrite Forall_forall in *. intros z Hz. specialize (Hrest _ Hz). lia.
Qed.

Lemma sweep_lookup evs : forall p idxs x cur,
  pos_sorted evs -> Forall (fun e => p <= e_pos e) evs -> p <= x ->
  lookup (sweep evs false p idxs) x cur =
  apply_events (filter (fun e => e_pos e <=? x) evs) idxs.
Proof.
  unfold pos_sorted.
  induction evs as [|e r IH]; intros p idxs x cur S F Hx; cbn [sweep].
  - cbn. destruct (Z.leb_spec p x); [reflexivity|lia].
  - inversion S as [|? ? Sr Se]; inversion F as [|? ? Fe Fr]; subst.
    cbn [filter].
    destruct (Z.eqb_spec (e_pos e) p) as [E|E]; cbn [negb].
    + destruct (Z.leb_spec (e_pos e) x); [|lia].
      cbn. apply IH; [exact Sr| |exact Hx]. rewrite <- E. exact Se.
    + cbn [lookup fst snd]. destruct (Z.leb_spec p x); [|lia].
      destruct (Z.leb_spec (e_pos e) x).
      * cbn. apply IH; [exact Sr|exact Se|assumption].
      * destruct (sweep_head r (e_pos e) (if e_start e then set_add (e_idx e) idxs
                                 else set_remove (e_idx e) idxs)) as (a & rest & Hs).
        rewrite Hs. cbn [lookup fst].
        destruct (Z.leb_spec (e_pos e) x); [lia|].
        rewrite filter_none; [reflexivity|].
        rewrite Forall_forall in *. intros y Hy. specialize (Se _ Hy).
        apply Z.leb_gt. lia.
Qed.

(* the whole index, for any event list that satisfies the sort contract *)
Lemma breakpoints_sorted evs :
  pos_sorted evs -> strictly_ascending (map fst (breakpoints evs)).
Proof.
  unfold breakpoints. destruct evs as [|e r]; intros S.
  - cbn. repeat constructor.
  - rewrite sweep_first. apply sweep_sorted; [exact S|].
    inversion S as [|? ? Sr Se]; subst. constructor; [lia|exact Se].
Qed.

Lemma breakpoints_lookup evs x :
  pos_sorted evs ->
  lookup (breakpoints evs) x [] = apply_events (filter (fun e => e_pos e <=? x) evs) [].
Proof.
  unfold breakpoints. destruct evs as [|e r]; intros S.
  - cbn. now destruct (0 <=? x).
  - rewrite sweep_first.
    assert (F : Forall (fun e' => e_pos e <= e_pos e') (e :: r)).
    { inversion S as [|? ? Sr Se]; subst. constructor; [lia|exact Se]. }
    destruct (Z.leb_spec (e_pos e) x).
    + now apply sweep_lookup.
    + destruct (sweep_head (e :: r) (e_pos e) []) as (a & rest & Hs).
      rewrite Hs. cbn [lookup fst].
      destruct (Z.leb_spec (e_pos e) x); [lia|].
      rewrite filter_none; [reflexivity|].
      rewrite Forall_forall in *. intros y Hy. specialize (F _ Hy).
      apply Z.leb_gt. lia.
Qed.

(* ---------------- rank and lookup ---------------- *)

Lemma rank_le_length ix x : (rank ix x <= length ix)%nat.
Proof.
  induction ix as [|iv r IH]; cbn; [lia|]. destruct (fst iv <=? x); cbn; lia.
Qed.

Lemma rank_below ix x : forall k iv,
  nth_error ix k = Some iv -> (k < rank ix x)%nat -> fst iv <= x.
Proof.
  induction ix as [|a r IH]; intros k iv Hn Hk; cbn in Hk; [lia|].
  destruct (Z.leb_spec (fst a) x); [|lia].
  destruct k as [|k]; cbn in Hn.
  - now inversion Hn; subst.
  - apply (IH k); [exact Hn|lia].
Qed.

Lemma rank_above ix x : strictly_ascending (map fst ix) -> forall k iv,
  nth_error ix k = Some iv -> (rank ix x <= k)%nat -> x < fst iv.
Proof.
  unfold strictly_ascending.
  induction ix as [|a r IH]; intros S k iv Hn Hk; [now destruct k|].
  cbn [map] in S. inversion S as [|? ? Sr Sa]; subst.
  cbn in Hk. destruct (Z.leb_spec (fst a) x).
  - destruct k as [|k]; [lia|]. cbn in Hn. apply (IH Sr k); [exact Hn|lia].
  - destruct k as [|k]; cbn in Hn.
    + now inversion Hn; subst.
    + apply nth_error_In in Hn. rewrite Forall_forall in Sa.
      specialize (Sa (fst iv) (in_map fst _ _ Hn)). lia.
Qed.

Lemma lookup_rank ix x : forall cur,
  lookup ix x cur = match rank ix x with
                    | O => cur
                    | S a => snd (nth a ix (0, []))
                    end.
Proof.
  induction ix as [|iv r IH]; intros cur; cbn [lookup rank]; [reflexivity|].
  destruct (fst iv <=? x); [|reflexivity].
  rewrite IH. now destruct (rank r x).
Qed.

(* ---------------- sort.Search ---------------- *)

Lemma div2_bounds n : (2 * Nat.div2 n <= n < 2 * Nat.div2 n + 2)%nat.
Proof.
  pose proof (Nat.div2_odd n) as H. destruct (Nat.odd n); cbn [Nat.b2n] in H; lia.
Qed.

Lemma search_loop_correct ix x : strictly_ascending (map fst ix) ->
  forall fuel i j,
  (i <= rank ix x <= j)%nat -> (j <= length ix)%nat -> (j - i < fuel)%nat ->
  search_loop fuel ix x i j = Ok (rank ix x).
Proof.
  intros S. induction fuel as [|fuel IH]; intros i j Hr Hj Hf; [lia|].
  cbn [search_loop]. unfold index, interval in *.
  destruct (Nat.ltb_spec i j) as [Hij|Hij]; [|f_equal; lia].
  pose proof (div2_bounds (i + j)) as Hh.
  remember (Nat.div2 (i + j)) as h eqn:Eh. clear Eh.
  destruct (nth_error ix h) as [iv|] eqn:Hn.
  - destruct (Z.gtb_spec (fst iv) x) as [G|G]; cbn [negb].
    + apply IH; [|lia|lia]. split; [lia|].
      destruct (Nat.le_gt_cases (rank ix x) h) as [|Hlt]; [assumption|].
      pose proof (rank_below ix x h iv Hn Hlt). lia.
    + apply IH; [|lia|lia]. split; [|lia].
      destruct (Nat.le_gt_cases (rank ix x) h) as [Hle|]; [|lia].
      pose proof (rank_above ix x S h iv Hn Hle). lia.
  - apply nth_error_None in Hn. lia.
Qed.

Lemma search_correct ix x :
  strictly_ascending (map fst ix) -> search ix x = Ok (rank ix x).
Proof.
  intros S. unfold search. pose proof (rank_le_length ix x).
  unfold index, interval in *.
  apply search_loop_correct; [exact S|lia|lia|lia].
Qed.

(* At = the linear scan, on a strictly ascending breakpoint list *)
Lemma at_lookup ix x :
  strictly_ascending (map fst ix) -> at_ ix x = Ok (lookup ix x []).
Proof.
  intros S. unfold at_. rewrite (search_correct ix x S). cbn [obind].
  rewrite lookup_rank. pose proof (rank_le_length ix x) as Hl.
  unfold index, interval in *.
  destruct (rank ix x) as [|a]; [reflexivity|].
  destruct (nth_error ix a) as [iv|] eqn:Hn.
  - now rewrite (nth_error_nth _ _ _ Hn).
  - apply nth_error_None in Hn. lia.
Qed.
