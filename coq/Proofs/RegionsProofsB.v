(* Proofs/RegionsProofsB.v *)
From Bio Require Import Base.
