(* Proofs/TotalProofs.v *)
From Bio Require Import Base.
