(* Proofs/TotalProofs.v — C18: every iterator of the library (Model/Iterators.v)
   behaves like "call yield on each item in order until it answers false"
   ([IterProofs.behaves]); stop-safety then is [IterProofs.stop_safe].
   For the formats whose loop ends after an error this needs: an error item is
   the last item of what read() delivers ([error_last (decode w t)]). *)
From Bio Require Import Base.
From Bio.Model Require Import Iter Iterators.
From Bio.Model Require Fasta Fastq Sam Bed Newick Trie Seq.
From Bio.Spec Require NewickSpec TrieSpec.
From Bio.Proofs Require Import IterProofs.
From Bio.Proofs Require FastqProofsB NewickProofs NewickProofsC TrieProofsC.

(* ---- error_last from the shape "records, then at most one error" ------------------ *)
Lemma error_last_recs {A} (rs : list A) : error_last (map Rec rs).
Proof. unfold error_last. induction rs as [|r rs IH]; cbn [map cut]; [|rewrite IH]; reflexivity. Qed.

Lemma error_last_recs_err {A} (rs : list A) : error_last (map Rec rs ++ [ErrItem]).
Proof. unfold error_last. induction rs as [|r rs IH]; cbn [map cut app]; [|rewrite IH]; reflexivity. Qed.

Definition is_rec {A} (i : item A) : Prop := match i with Rec _ => True | ErrItem => False end.

Lemma all_rec_map {A} (l : list (item A)) : Forall is_rec l -> exists rs, l = map Rec rs.
Proof.
  induction 1 as [|i l Hi _ [rs E]]; [exists []; reflexivity|].
  destruct i as [a|]; [|destruct Hi]. exists (a :: rs). cbn [map]. rewrite E. reflexivity.
Qed.

Lemma error_last_cons {A} (a : A) l : error_last l -> error_last (Rec a :: l).
Proof. unfold error_last. intros H. cbn [cut]. rewrite H. reflexivity. Qed.

(* ---- fasta ---------------------------------------------------------------------------- *)
Lemma fasta_fuel_error_last : forall f inp t, error_last (Fasta.decode_fuel f inp t).
Proof.
  induction f as [|f IH]; intros inp t; cbn [Fasta.decode_fuel]; [reflexivity|].
  destruct (Fasta.read_one inp t) as [r rest| |]; [apply error_last_cons, IH | reflexivity | reflexivity].
Qed.

Lemma fasta_error_last w t : error_last (Fasta.decode w t).
Proof. apply fasta_fuel_error_last. Qed.

Lemma fasta_iter_behaves w t : behaves (fasta_iter w t) (Fasta.decode w t).
Proof. apply iter_behaves_error_last, fasta_error_last. Qed.
Lemma fasta_reader_behaves w t : behaves (fasta_reader w t) (Fasta.decode w t).
Proof. apply wrap_guarded_behaves, fasta_iter_behaves. Qed.
Lemma fasta_file_behaves opened w t :
  behaves (fasta_file opened w t) (if opened then Fasta.decode w t else [ErrItem]).
Proof. apply file_wrap_behaves, fasta_reader_behaves. Qed.

(* ---- fastq ---------------------------------------------------------------------------- *)
Lemma fastq_error_last w t : error_last (Fastq.decode w t).
Proof.
  destruct (FastqProofsB.decode_shape w t) as [rs [_ [E|[_ E]]]]; rewrite E;
    [apply error_last_recs_err | apply error_last_recs].
Qed.

Lemma fastq_iter_behaves w t : behaves (fastq_iter w t) (Fastq.decode w t).
Proof. apply iter_behaves_error_last, fastq_error_last. Qed.
Lemma fastq_reader_behaves w t : behaves (fastq_reader w t) (Fastq.decode w t).
Proof. apply wrap_guarded_behaves, fastq_iter_behaves. Qed.
Lemma fastq_file_behaves opened w t :
  behaves (fastq_file opened w t) (if opened then Fastq.decode w t else [ErrItem]).
Proof. apply file_wrap_behaves, fastq_reader_behaves. Qed.

(* ---- bed ------------------------------------------------------------------------------ *)
Lemma bed_lines_error_last : forall ls n tail t, error_last (Bed.dec_lines n ls tail t).
Proof.
  induction ls as [|l r IH]; intros n tail t; cbn [Bed.dec_lines].
  - destruct t; [|reflexivity]. destruct (Bed.do_line n tail); reflexivity.
  - destruct (Bed.do_line n l); [apply IH | reflexivity | apply error_last_cons, IH].
Qed.

Lemma bed_error_last w t : error_last (Bed.decode w t).
Proof. unfold Bed.decode. destruct (rs_lines w) as [ls tail]. apply bed_lines_error_last. Qed.

Lemma bed_reader_behaves w t : behaves (bed_reader w t) (Bed.decode w t).
Proof. unfold bed_reader, reader_loop. apply iter_behaves_error_last, bed_error_last. Qed.
Lemma bed_file_behaves opened w t :
  behaves (bed_file opened w t) (if opened then Bed.decode w t else [ErrItem]).
Proof. apply file_wrap_behaves, bed_reader_behaves. Qed.

(* ---- newick --------------------------------------------------------------------------- *)
Lemma error_last_rev_recs {A} (acc : list (item A)) : Forall is_rec acc -> error_last (rev acc).
Proof.
  intros H. destruct (all_rec_map (rev acc)) as [rs E]; [apply Forall_rev, H|].
  rewrite E. apply error_last_recs.
Qed.

Lemma error_last_rev_err {A} (acc : list (item A)) : Forall is_rec acc -> error_last (rev (ErrItem :: acc)).
Proof.
  intros H. cbn [rev]. destruct (all_rec_map (rev acc)) as [rs E]; [apply Forall_rev, H|].
  rewrite E. apply error_last_recs_err.
Qed.

Lemma newick_loop_shape o tm : forall fuel s acc, Forall is_rec acc ->
  Newick.decode_loop o fuel s tm acc = Panic \/
  exists l, Newick.decode_loop o fuel s tm acc = Ok l /\ error_last l.
Proof.
  induction fuel as [|f IH]; intros s acc Hacc; cbn [Newick.decode_loop]; [left; reflexivity|].
  destruct (Newick.read_tree o s tm) as [t rest| | |].
  - apply IH. constructor; [exact I | exact Hacc].
  - right. eexists. split; [reflexivity | apply error_last_rev_recs, Hacc].
  - right. eexists. split; [reflexivity | apply error_last_rev_err, Hacc].
  - left. reflexivity.
Qed.

(* the reader never panics (C05) and delivers records, then at most one error *)
Lemma newick_decode_ok o w t : exists l, Newick.decode o w t = Ok l /\ error_last l.
Proof.
  destruct (newick_loop_shape o t (S (length w)) w [] (Forall_nil _)) as [P|H]; [|exact H].
  exfalso. exact (NewickProofsC.decode_no_panic o w t P).
Qed.

Lemma newick_error_last o w t : error_last (ok_items (Newick.decode o w t)).
Proof. destruct (newick_decode_ok o w t) as [l [E H]]. rewrite E. exact H. Qed.

Lemma newick_reader_behaves o w t :
  behaves (newick_reader o w t) (ok_items (Newick.decode o w t)).
Proof. unfold newick_reader, reader_loop. apply iter_behaves_error_last, newick_error_last. Qed.
Lemma newick_file_behaves opened o w t :
  behaves (newick_file opened o w t) (if opened then ok_items (Newick.decode o w t) else [ErrItem]).
Proof. apply file_wrap_behaves, newick_reader_behaves. Qed.

(* ---- sam ------------------------------------------------------------------------------ *)
Lemma sam_keep_is_reader_filter l : filter_map sam_keep l = flat_map Sam.reader_filter l.
Proof.
  induction l as [|i r IH]; [reflexivity|]. cbn [filter_map flat_map].
  destruct i as [[h|a]|]; cbn [sam_keep Sam.reader_filter app]; rewrite IH; reflexivity.
Qed.

Lemma sam_reader_header_behaves o w t :
  behaves (sam_reader_header o w t) (Sam.reader_header o w t).
Proof. apply guarded_behaves. Qed.
Lemma sam_reader_behaves o w t : behaves (sam_reader o w t) (Sam.reader o w t).
Proof.
  unfold Sam.reader. rewrite <- sam_keep_is_reader_filter.
  apply filter_wrap_behaves, sam_reader_header_behaves.
Qed.
Lemma sam_file_behaves opened o w t :
  behaves (sam_file opened o w t) (if opened then Sam.reader o w t else [ErrItem]).
Proof. apply file_wrap_behaves, sam_reader_behaves. Qed.
Lemma sam_file_header_behaves opened o w t :
  behaves (sam_file_header opened o w t) (if opened then Sam.reader_header o w t else [ErrItem]).
Proof. apply file_wrap_behaves, sam_reader_header_behaves. Qed.

(* ---- traversals, ForEach, CanonicalSubsequences ---------------------------------------- *)
Lemma pre_order_behaves tr : behaves (pre_order tr) (NewickSpec.preorder tr).
Proof. unfold pre_order. rewrite NewickProofs.traverse_preorder. apply guarded_behaves. Qed.
Lemma post_order_behaves tr : behaves (post_order tr) (NewickSpec.postorder tr).
Proof. unfold post_order. rewrite NewickProofs.traverse_postorder. apply guarded_behaves. Qed.

Lemma for_each_behaves tr : behaves (for_each tr) (TrieSpec.members tr).
Proof. unfold for_each. rewrite TrieProofsC.for_each_members. apply guarded_behaves. Qed.

Lemma canonical_behaves s k items : Seq.canon s k = Ok items ->
  behaves (canonical_subsequences s k) items.
Proof. intros E. unfold canonical_subsequences. rewrite E. apply guarded_behaves. Qed.

(* ---- the statements of Properties/C18.v -------------------------------------------------- *)
Section StopSafe.
Variable p : nat.

Lemma fasta_iter_stop w t : run_until (fasta_iter w t) p = (taken p (Fasta.decode w t), Done).
Proof. apply stop_safe, fasta_iter_behaves. Qed.
Lemma fasta_reader_stop w t : run_until (fasta_reader w t) p = (taken p (Fasta.decode w t), Done).
Proof. apply stop_safe, fasta_reader_behaves. Qed.
Lemma fasta_file_stop opened w t :
  run_until (fasta_file opened w t) p = (taken p (if opened then Fasta.decode w t else [ErrItem]), Done).
Proof. apply stop_safe, fasta_file_behaves. Qed.

Lemma fastq_iter_stop w t : run_until (fastq_iter w t) p = (taken p (Fastq.decode w t), Done).
Proof. apply stop_safe, fastq_iter_behaves. Qed.
Lemma fastq_reader_stop w t : run_until (fastq_reader w t) p = (taken p (Fastq.decode w t), Done).
Proof. apply stop_safe, fastq_reader_behaves. Qed.
Lemma fastq_file_stop opened w t :
  run_until (fastq_file opened w t) p = (taken p (if opened then Fastq.decode w t else [ErrItem]), Done).
Proof. apply stop_safe, fastq_file_behaves. Qed.

Lemma bed_reader_stop w t : run_until (bed_reader w t) p = (taken p (Bed.decode w t), Done).
Proof. apply stop_safe, bed_reader_behaves. Qed.
Lemma bed_file_stop opened w t :
  run_until (bed_file opened w t) p = (taken p (if opened then Bed.decode w t else [ErrItem]), Done).
Proof. apply stop_safe, bed_file_behaves. Qed.

Lemma newick_reader_stop o w t :
  exists items, Newick.decode o w t = Ok items /\
    run_until (newick_reader o w t) p = (taken p items, Done).
Proof.
  destruct (newick_decode_ok o w t) as [l [E _]]. exists l. split; [exact E|].
  rewrite (stop_safe _ _ p (newick_reader_behaves o w t)). rewrite E. reflexivity.
Qed.
Lemma newick_file_stop opened o w t :
  exists items, Newick.decode o w t = Ok items /\
    run_until (newick_file opened o w t) p = (taken p (if opened then items else [ErrItem]), Done).
Proof.
  destruct (newick_decode_ok o w t) as [l [E _]]. exists l. split; [exact E|].
  rewrite (stop_safe _ _ p (newick_file_behaves opened o w t)). rewrite E. reflexivity.
Qed.

Lemma sam_reader_header_stop o w t :
  run_until (sam_reader_header o w t) p = (taken p (Sam.reader_header o w t), Done).
Proof. apply stop_safe, sam_reader_header_behaves. Qed.
Lemma sam_reader_stop o w t : run_until (sam_reader o w t) p = (taken p (Sam.reader o w t), Done).
Proof. apply stop_safe, sam_reader_behaves. Qed.
Lemma sam_file_stop opened o w t :
  run_until (sam_file opened o w t) p = (taken p (if opened then Sam.reader o w t else [ErrItem]), Done).
Proof. apply stop_safe, sam_file_behaves. Qed.
Lemma sam_file_header_stop opened o w t :
  run_until (sam_file_header opened o w t) p
  = (taken p (if opened then Sam.reader_header o w t else [ErrItem]), Done).
Proof. apply stop_safe, sam_file_header_behaves. Qed.

Lemma pre_order_stop tr : run_until (pre_order tr) p = (taken p (NewickSpec.preorder tr), Done).
Proof. apply stop_safe, pre_order_behaves. Qed.
Lemma post_order_stop tr : run_until (post_order tr) p = (taken p (NewickSpec.postorder tr), Done).
Proof. apply stop_safe, post_order_behaves. Qed.

Lemma canonical_stop s k items : Seq.canon s k = Ok items ->
  run_until (canonical_subsequences s k) p = (taken p items, Done).
Proof. intros E. apply stop_safe, canonical_behaves, E. Qed.
End StopSafe.

(* ForEach: the items seen are leading items of the full report, which is the
   duplicate-free list of the members; and the model of the family property
   (Trie.for_each_until, the callback "false at the p-th call" built into the
   stack loop) sees exactly what the generic consumer sees. *)
Lemma taken_incl {A} p (l : list A) : incl (taken p l) l.
Proof.
  unfold taken. destruct p; [apply incl_refl|].
  intros x H. rewrite <- (firstn_skipn (S p) l). apply in_or_app. left. exact H.
Qed.

Lemma NoDup_firstn {A} n (l : list A) : NoDup l -> NoDup (firstn n l).
Proof.
  intros H. revert n. induction H as [|x l Hx H IH]; intros [|n]; cbn [firstn]; try constructor.
  - intros Hin. apply Hx. rewrite <- (firstn_skipn n l). apply in_or_app. left. exact Hin.
  - apply IH.
Qed.

Lemma taken_nodup {A} p (l : list A) : NoDup l -> NoDup (taken p l).
Proof. unfold taken. destruct p; [auto | apply NoDup_firstn]. Qed.

Lemma for_each_stop p tr :
  run_until (for_each tr) p = (taken p (TrieSpec.members tr), Done)
  /\ incl (taken p (TrieSpec.members tr)) (TrieSpec.members tr)
  /\ (TrieSpec.wf tr -> NoDup (taken p (TrieSpec.members tr)))
  /\ (p <> 0%nat -> Trie.for_each_until p tr = Ok (fst (run_until (for_each tr) p))).
Proof.
  pose proof (stop_safe _ _ p (for_each_behaves tr)) as E.
  split; [exact E|]. split; [apply taken_incl|]. split.
  - intros W. apply taken_nodup.
    destruct (TrieProofsC.for_each_exact tr W) as [l [El [_ ND]]].
    rewrite TrieProofsC.for_each_members in El. injection El as <-. exact ND.
  - intros Hp. rewrite E. cbn [fst]. rewrite (TrieProofsC.for_each_until_firstn p Hp).
    unfold taken. destruct p; [contradiction | reflexivity].
Qed.

(* ---- the model exhibits the failure the property is about -------------------------------- *)
(* ">a" LF "A" LF ">b" LF "C" LF read by a Reader whose range body ignores yield's answer *)
Definition ex_fasta_text : bytes := [62; 97; 10; 65; 10; 62; 98; 10; 67; 10].

Lemma broken_adapter_caught :
  run_until (fasta_reader_broken ex_fasta_text TEOF) 1
    = ([Rec {| Fasta.name := [97]; Fasta.seq := [65] |}], PanicAfterStop)
  /\ run_until (fasta_reader ex_fasta_text TEOF) 1
    = ([Rec {| Fasta.name := [97]; Fasta.seq := [65] |}], Done)
  /\ run_until (fasta_reader_broken ex_fasta_text TEOF) 2
    = ([Rec {| Fasta.name := [97]; Fasta.seq := [65] |}; Rec {| Fasta.name := [98]; Fasta.seq := [67] |}], Done).
Proof. vm_compute. repeat split. Qed.
