(* Proofs/ImpProofsV.v — translated source, part 22: the alignment properties (C08, C09) stated
   about Global and Local as translated from the Go source: compositions of the model's
   validity / optimality theorems (AlignProofs*.v) with the equivalences of ImpProofsE/F. *)
From Coq Require Import ZifyBool ZifyNat ZifyN.
From Bio Require Import Base.
From Bio.gen Require Import ImpGen.
From Bio.Model Require Import GoSem Align.
From Bio.Spec Require Import AlignSpec.
From Bio.Proofs Require Import AlignProofs AlignProofsB AlignProofsC ImpProofsD ImpProofsE ImpProofsF.
Open Scope Z_scope.

Theorem global_valid_src fuel m a b : covers m a b -> (S (length a) * S (length b) < fuel)%nat ->
  exists al s, imp_align_Global fuel a b m = Ret (map step_n al, s)
    /\ consumes al = (length a, length b) /\ score m a b al = Ok s.
Proof.
  intros Hc Hf. destruct (global_valid m a b Hc) as (al & s & Hg & Hcons & Hs).
  exists al, s. split; [apply imp_Global_ok; auto | auto].
Qed.

Theorem local_valid_src fuel m a b : covers m a b -> nonpos_gaps m a b ->
  (S (length a) * S (length b) < fuel)%nat ->
  exists al ai bi s, imp_align_Local fuel a b m = Ret (map step_n al, ai, bi, s)
    /\ local_answer_valid (get m) a b (al, ai, bi, s).
Proof.
  intros Hc Hn Hf. destruct (local_valid m a b Hc Hn) as ([[[al ai] bi] s] & Hl & Hv).
  exists al, ai, bi, s. split; [apply imp_Local_ok; auto | auto].
Qed.

Theorem global_optimal0_src fuel m a b : covers m a b -> gap_open m = Ok 0 ->
  (S (length a) * S (length b) < fuel)%nat ->
  exists al gs, imp_align_Global fuel a b m = Ret (map step_n al, gs)
    /\ forall al' s', consumes al' = (length a, length b) -> score m a b al' = Ok s' -> s' <= gs.
Proof.
  intros Hc Hg Hf. destruct (global_optimal0 m a b Hc Hg) as (gs & Hgs & Hopt).
  unfold global_score, global_score_g in Hgs. fold (global m a b) in Hgs.
  destruct (global m a b) as [[al s]| |] eqn:E; cbn [obind snd] in Hgs; try discriminate.
  injection Hgs as ->. exists al, gs. split; [apply imp_Global_ok; auto | exact Hopt].
Qed.

Theorem local_optimal0_src fuel m a b : covers m a b -> gap_open m = Ok 0 ->
  (S (length a) * S (length b) < fuel)%nat ->
  exists al ai bi ls, imp_align_Local fuel a b m = Ret (map step_n al, ai, bi, ls)
    /\ forall i j al' s', score m (skipn i a) (skipn j b) al' = Ok s' -> s' <= ls.
Proof.
  intros Hc Hg Hf. destruct (local_optimal0 m a b Hc Hg) as (ls & Hls & Hopt).
  unfold local_score, local_score_g in Hls. fold (local m a b) in Hls.
  destruct (local m a b) as [[[[al ai] bi] s]| |] eqn:E; cbn [obind snd] in Hls; try discriminate.
  injection Hls as ->. exists al, ai, bi, ls. split; [apply imp_Local_ok; auto | exact Hopt].
Qed.
