(* Proofs/BedProofsB.v *)
From Bio Require Import Base.
