(* Proofs/BedProofsB.v — BED.Write produces the TAB-joined first N fields and
   parseLine inverts it. *)
From Bio Require Import Base.
From Bio.Model Require Import Bed.
From Bio.Spec Require Import BedSpec.
From Bio.Proofs Require Import BedProofs.

Arguments itoa : simpl never.
Arguments rgb_text : simpl never.
Arguments ints_text : simpl never.
Arguments list_calls : simpl never.

(* field k (0-based) as the reader sees it: the written text if k < N, else "" *)
Definition fN (b : bed) (k : Z) (x : bytes) : bytes := if (b_n b >? k)%Z then x else [].

Definition pfields (b : bed) : list bytes :=
  [ b_chrom b; itoa (b_start b); itoa (b_end b);
    fN b 3 (b_name b); fN b 4 (itoa (b_score b)); fN b 5 (b_strand b);
    fN b 6 (itoa (b_thick_start b)); fN b 7 (itoa (b_thick_end b));
    fN b 8 (rgb_text (b_rgb b)); fN b 9 (itoa (b_block_count b));
    fN b 10 (ints_text (b_block_sizes b)); fN b 11 (ints_text (b_block_starts b)) ].

Definition wfields (b : bed) : list bytes := firstn (Z.to_nat (b_n b)) (pfields b).

Definition line_of (b : bed) : bytes := join_with [TAB] (wfields b).

Lemma n_cases (n : Z) : (3 <= n <= 12)%Z ->
  n = 3%Z \/ n = 4%Z \/ n = 5%Z \/ n = 6%Z \/ n = 7%Z \/ n = 8%Z \/ n = 9%Z \/ n = 10%Z
  \/ n = 11%Z \/ n = 12%Z.
Proof. lia. Qed.

Ltac norm_n :=
  match goal with
  | |- context [Z.to_nat ?z] =>
    let k := eval vm_compute in (Z.to_nat z) in change (Z.to_nat z) with k
  end.

Lemma concat_when c l : concat (when c l) = if c then concat l else [].
Proof. destruct c; reflexivity. Qed.

Lemma write_line b : (3 <= b_n b <= 12)%Z -> write b = Ok (line_of b ++ [LF]).
Proof.
  intros Hn. unfold write, write_calls.
  assert (E : ((b_n b <? 3) || (b_n b >? 12))%Z = false).
  { rewrite Z.gtb_ltb. apply orb_false_intro; apply Z.ltb_ge; lia. }
  rewrite E.
  f_equal. rewrite !concat_app, !concat_when. cbn [concat]. rewrite !concat_list_calls.
  unfold line_of, wfields, pfields, fN.
  destruct (n_cases _ Hn) as [H|[H|[H|[H|[H|[H|[H|[H|[H|H]]]]]]]]]; rewrite H;
    norm_n; cbn; repeat (rewrite <- app_assoc; cbn); reflexivity.
Qed.

(* ------------------------------------------------------------------ *)
(* parseLine on what was written                                        *)
Lemma opt_atoi_if (c : bool) z : int64 (if c then z else 0%Z) ->
  opt_atoi (if c then itoa z else []) = Some (if c then z else 0%Z).
Proof. destruct c; intros H; [apply opt_atoi_itoa, H | reflexivity]. Qed.

Lemma strand_valid_ok s : strand_valid s -> strand_ok s = true.
Proof. intros [H|[H|[H|H]]]; subst; reflexivity. Qed.

Lemma parse_rgb_if (c : bool) r : rgb_ok (if c then r else (0, 0, 0)) ->
  parse_rgb (if c then rgb_text r else []) = Some (if c then r else (0, 0, 0)).
Proof.
  destruct c; intros H; [| reflexivity].
  destruct r as [[x y] z]. destruct H as [Hx [Hy Hz]]. apply parse_rgb_text; assumption.
Qed.

Lemma parse_ints_if (c : bool) l : Forall int64 (if c then l else []) ->
  parse_ints (if c then ints_text l else []) = Some (if c then l else []).
Proof. destruct c; intros H; [apply parse_ints_text, H | reflexivity]. Qed.

Lemma pfields_length b : length (pfields b) = 12%nat.
Proof. reflexivity. Qed.

Lemma wfields_length b : (3 <= b_n b <= 12)%Z -> length (wfields b) = Z.to_nat (b_n b).
Proof.
  intros H. unfold wfields. rewrite firstn_length, pfields_length. lia.
Qed.

Lemma wfields_pad b : (3 <= b_n b <= 12)%Z ->
  wfields b ++ repeat [] (12 - Z.to_nat (b_n b)) = pfields b.
Proof.
  intros Hn. unfold wfields, pfields, fN.
  destruct (n_cases _ Hn) as [H|[H|[H|[H|[H|[H|[H|[H|[H|H]]]]]]]]]; rewrite H;
    norm_n; reflexivity.
Qed.

Lemma parse_fields_pfields b : fields_ok (first_n b) ->
  parse_fields (b_n b) (pfields b) = Ok (first_n b).
Proof.
  intros H. unfold fields_ok in H. cbn [first_n b_chrom b_name b_strand b_start b_end b_score
    b_thick_start b_thick_end b_rgb b_block_count b_block_sizes b_block_starts] in H.
  destruct H as (Hchrom & Hhash & Hname & Hstrand & Hs & He & Hsc & Hts & Hte & Hrgb & Hbc
                 & Hsz & Hst & Hlsz & Hlst).
  unfold parse_fields, pfields, fN. cbn [nth].
  rewrite (atoi_itoa _ Hs), (atoi_itoa _ He).
  rewrite (opt_atoi_if _ _ Hsc).
  rewrite (strand_valid_ok _ Hstrand). cbn [negb].
  rewrite (opt_atoi_if _ _ Hts), (opt_atoi_if _ _ Hte).
  rewrite (parse_rgb_if _ _ Hrgb).
  rewrite (opt_atoi_if _ _ Hbc).
  rewrite (parse_ints_if _ _ Hsz), (parse_ints_if _ _ Hst).
  rewrite Hlsz, Hlst, Z.eqb_refl. cbn [negb].
  reflexivity.
Qed.

Lemma parse_line_wfields b : bed_ok b -> parse_line (wfields b) = Ok (first_n b).
Proof.
  intros [Hn Hok]. unfold parse_line. rewrite (wfields_length b Hn).
  assert (E : ((Z.to_nat (b_n b) <? 3) || (12 <? Z.to_nat (b_n b)))%nat = false).
  { apply orb_false_intro; apply Nat.ltb_ge; lia. }
  rewrite E, (wfields_pad b Hn), Z2Nat.id by lia.
  apply parse_fields_pfields, Hok.
Qed.

(* ------------------------------------------------------------------ *)
(* the written fields contain no TAB, CR or LF                          *)
Lemma itoa_if_nob x (c : bool) z : x <> 45 -> (x < 48 \/ 57 < x) ->
  nob x (if c then itoa z else []).
Proof. intros; destruct c; [apply itoa_nob; assumption | apply nob_nil]. Qed.

Lemma pfields_nob x b : fields_ok (first_n b) -> memb x [TAB; CR; LF] = true ->
  Forall (nob x) (pfields b).
Proof.
  intros H Hx.
  assert (X1 : x <> 45) by (intros ->; discriminate).
  assert (X2 : x <> COMMA) by (intros ->; discriminate).
  assert (X3 : x < 48 \/ 57 < x).
  { unfold memb, existsb, TAB, CR, LF in Hx.
    destruct (x =? 9) eqn:A; [apply N.eqb_eq in A; lia|].
    destruct (x =? 13) eqn:B; [apply N.eqb_eq in B; lia|].
    destruct (x =? 10) eqn:C; [apply N.eqb_eq in C; lia|]. discriminate. }
  unfold fields_ok in H. cbn [first_n b_chrom b_name b_strand] in H.
  destruct H as (Hchrom & _ & Hname & Hstrand & _).
  unfold pfields, fN.
  repeat constructor; try (apply itoa_nob; assumption); try (apply itoa_if_nob; assumption).
  - eapply clean_nob; [exact Hchrom | exact Hx].
  - eapply clean_nob; [exact Hname | exact Hx].
  - destruct Hstrand as [E|[E|[E|E]]]; rewrite E; repeat constructor;
      apply N.eqb_neq; intros <-; discriminate.
  - destruct (b_n b >? 8)%Z; [apply rgb_text_nob; assumption | apply nob_nil].
  - destruct (b_n b >? 10)%Z; [apply ints_text_nob; assumption | apply nob_nil].
  - destruct (b_n b >? 11)%Z; [apply ints_text_nob; assumption | apply nob_nil].
Qed.

Lemma Forall_firstn {A} (P : A -> Prop) n l : Forall P l -> Forall P (firstn n l).
Proof.
  revert l. induction n as [|n IH]; intros l H; [constructor|].
  destruct H; cbn [firstn]; constructor; auto.
Qed.

Lemma wfields_nob x b : fields_ok (first_n b) -> memb x [TAB; CR; LF] = true ->
  Forall (nob x) (wfields b).
Proof. intros. apply Forall_firstn, pfields_nob; assumption. Qed.

Lemma wfields_nonnil b : (3 <= b_n b <= 12)%Z -> wfields b <> [].
Proof.
  intros Hn E. pose proof (wfields_length b Hn) as L. rewrite E in L. cbn [length] in L. lia.
Qed.

Lemma split_line b : bed_ok b -> split_on TAB (line_of b) = wfields b.
Proof.
  intros [Hn Hok]. unfold line_of. apply split_join.
  - apply wfields_nonnil, Hn.
  - apply wfields_nob; [exact Hok | reflexivity].
Qed.

Lemma line_nob x b : bed_ok b -> x <> TAB -> memb x [TAB; CR; LF] = true -> nob x (line_of b).
Proof.
  intros [Hn Hok] Hx Hm. unfold line_of. apply nob_join.
  - apply nob_cons; [apply N.eqb_neq; congruence | apply nob_nil].
  - apply wfields_nob; assumption.
Qed.

(* the line begins with Chrom and a TAB *)
Lemma line_head b : (3 <= b_n b <= 12)%Z -> exists rest, line_of b = b_chrom b ++ TAB :: rest.
Proof.
  intros Hn. unfold line_of, wfields, pfields, fN.
  destruct (n_cases _ Hn) as [H|[H|[H|[H|[H|[H|[H|[H|[H|H]]]]]]]]]; rewrite H;
    norm_n; cbn [firstn]; rewrite join_with_cons2; cbn [app]; eexists; reflexivity.
Qed.
